import PasslibVerif.Lemmas.C01StaticAscii
import PasslibVerif.Props.C01Crypt
/-
C01 instantiated end to end for the `Static` family (Model/VerifyFmt/Static.lean): the hasher assembled from the C07 model of
`from_string` / `to_string` and the C02 checksum specification verifies every secret against the hash made from it, identifies that
hash as its own, and answers for any other secret exactly "the checksums are equal" — for every secret `hash` accepts, every
admissible salt, every user name.  Per format X:

  X_sound               the bundle: round trip on every producible checksum, checksum independent of the stored one, identified
  X_roundtrips          `Props.C01.RoundTrips`
  X_verifies_own_hash   whatever `hash` returns verifies True for the same secret
  X_identifies_own_hash … and is identified by the format's C07 `identify`
  X_verifies_other      `verify` of another secret = equality of the two checksums (no collision-freeness claimed)
  X_hash_succeeds       `hash` returns for every encodable secret within the size limit (and the class's own conditions)
  X_verifies_equivalent where the format documents an equivalence (lmhash: case, 14 octets; mysql323: blanks; hex formats: case of
                        the stored string)

Classes with their own `hash` / `verify` (cisco_pix / cisco_asa `hash`, mssql2000 `verify`, htdigest, the PrefixWrapper) are proved about
THOSE functions (`ciscoHashSecret`, `mssql2000Verify`, `htdigestHash` / `htdigestVerify`, `wrapHashSecret` / `wrapVerify`).
-/
namespace Props.C01Static
open Py Model.Handler Model.Formats Model.Verify Model.VerifyCrypt Model.VerifyFmt.Static Props.C01 Lemmas.Formats Lemmas.C01Static
  Lemmas.C01StaticEnc Lemmas.DigestLen

/-! ### checksum shapes -/
theorem map_ok_inv {α β} (x : Res α) (f : α → β) (c : β) (h : x.map f = .ok c) : ∃ a, x = .ok a ∧ c = f a := by
  cases x with
  | error e => simp [Except.map] at h
  | ok a => exact ⟨a, rfl, by simpa [Except.map] using h.symm⟩

theorem hex_shape (n : Nat) (raw : Bytes) (hn : raw.length = n) :
    (Spec.Formats.hexLower raw).length = 2 * n ∧ allIn lowerHex (Spec.Formats.hexLower raw) = true :=
  ⟨by rw [hexLower_length, hn], hexLower_allIn _⟩

theorem hexDigest_shape (H : Bytes → Bytes) (n : Nat) (hH : ∀ x, (H x).length = n) (b : Bytes) (c : Str)
    (hc : (Except.ok (Spec.Formats.hexDigest H b) : Res Str) = .ok c) : c.length = 2 * n ∧ allIn lowerHex c = true := by
  cases hc
  exact hex_shape n _ (hH b)

theorem nthash_shape (b : Bytes) (c : Str) (hc : nthashDigest b = .ok c) : c.length = 32 ∧ allIn lowerHex c = true := by
  unfold nthashDigest at hc
  split at hc
  · cases hc; exact hex_shape 16 _ (md4_length _)
  · cases hc

theorem lmhash_shape (b : Bytes) : (Spec.Formats.lmhash b).length = 32 ∧ allIn lowerHex (Spec.Formats.lmhash b) = true := by
  unfold Spec.Formats.lmhash
  exact hex_shape 16 _ (by rw [List.length_append, Lemmas.C02Formats.lmDesHash_length, Lemmas.C02Formats.lmDesHash_length])

theorem msdccRaw_inv (b : Bytes) (user : Option Bytes) (r : Bytes × Bytes) (h : msdccRawOf b user = .ok r) :
    ∃ u, r = (Spec.MD4.md4 (Spec.Formats.ntHashRaw b ++ u), u) := by
  unfold msdccRawOf at h
  by_cases hu : utf8Ok b = true
  · rw [if_pos hu] at h
    obtain ⟨u, _, rfl⟩ := map_ok_inv _ _ _ h
    exact ⟨u, rfl⟩
  · rw [if_neg hu] at h
    cases h

theorem msdcc_shape (user : Option Bytes) (b : Bytes) (c : Str) (hc : msdccDigest user b = .ok c) :
    c.length = 32 ∧ allIn lowerHex c = true := by
  obtain ⟨r, hr, rfl⟩ := map_ok_inv _ _ _ hc
  obtain ⟨u, rfl⟩ := msdccRaw_inv _ _ _ hr
  exact hex_shape 16 _ (md4_length _)

theorem sha1_hashOK : Lemmas.PbkdfLen.HashOK Spec.SHA1.sha1 20 := fun x => ⟨sha1_length x, sha1_bytes x⟩

theorem msdcc2_shape (user : Option Bytes) (b : Bytes) (c : Str) (hc : msdcc2Digest user b = .ok c) :
    c.length = 32 ∧ allIn lowerHex c = true := by
  unfold msdcc2Digest at hc
  generalize (10240 : Nat) = n at hc
  obtain ⟨r, _, rfl⟩ := map_ok_inv (msdccRawOf b user) _ _ hc
  exact hex_shape 16 _ (Lemmas.PbkdfLen.pbkdf2_props Spec.SHA1.sha1 64 20 sha1_hashOK (by decide) r.1 r.2 n 16).1

theorem mysql323_shape (b : Bytes) : (Spec.Formats.mysql323 b).length = 16 ∧ allIn lowerHex (Spec.Formats.mysql323 b) = true := by
  unfold Spec.Formats.mysql323
  exact hex_shape 8 _ (by rw [List.length_append, beBytes_length, beBytes_length])

theorem mysql41_shape (b : Bytes) : (Spec.Formats.mysql41 b).length = 40 ∧ allIn upperHex (Spec.Formats.mysql41 b) = true :=
  ⟨by rw [Spec.Formats.mysql41, hexUpper_length, sha1_length], hexUpper_allIn _⟩

theorem oracle10_shape (user : Option Bytes) (b : Bytes) (c : Str) (hc : oracle10Digest user b = .ok c) :
    c.length = 16 ∧ allIn upperHex c = true := by
  unfold oracle10Digest at hc
  split at hc
  · cases hc
  · obtain ⟨u, _, rfl⟩ := map_ok_inv _ _ _ hc
    exact ⟨by rw [oracle10OfText, hexUpper_length, beBytes_length], hexUpper_allIn _⟩

theorem postgres_shape (user : Option Bytes) (b : Bytes) (c : Str) (hc : postgresDigest user b = .ok c) :
    c.length = 32 ∧ allIn hexChars c = true := by
  unfold postgresDigest at hc
  split at hc
  · cases hc
  · cases hc
    refine ⟨?_, allIn_mono _ _ lowerHex_sub_hex _ (hexLower_allIn _)⟩
    rw [Spec.Formats.postgresMd5, hexLower_length, md5_length]

theorem utf8Ok_decode (b : Bytes) (h : utf8Ok b = true) : ∃ t, decodeUtf8 b = .ok t := by
  unfold utf8Ok at h
  unfold decodeUtf8
  cases hd : Model.TotpSerial.utf8Decode b with
  | none => simp [hd] at h
  | some t => exact ⟨t, rfl⟩

/-! ### hex_md4, hex_md5, hex_sha1, hex_sha256, hex_sha512 -/
theorem hex_md4_sound : Sound hex_md4Hasher hex_md4.identify noSettings :=
  hexLower_sound "hex_md4" 32 (by decide) _ (hexDigest_shape _ 16 md4_length)
theorem hex_md4_roundtrips : RoundTrips hex_md4Hasher noSettings := (hex_md4_sound).rt
/-- hex_md4: whatever `hash` returns verifies True for the same secret -/
theorem hex_md4_verifies_own_hash (s : Secret) (hs : Str) (hh : hashSecret hex_md4Hasher s noSettings = .ok hs) :
    verify hex_md4Hasher s hs = .ok true := (hex_md4_sound).verifies_own s hs hh
theorem hex_md4_identifies_own_hash (s : Secret) (hs : Str) (hh : hashSecret hex_md4Hasher s noSettings = .ok hs) :
    hex_md4.identify hs = true := (hex_md4_sound).identifies s hs hh
theorem hex_md4_verifies_other (s s' : Secret) (hs c' : Str) (hh : hashSecret hex_md4Hasher s noSettings = .ok hs)
    (hv : s'.len ≤ MAX_PASSWORD_SIZE) (hc' : checksumOf hex_md4Hasher false s' noSettings = .ok c') :
    ∃ c, checksumOf hex_md4Hasher true s noSettings = .ok c ∧ verify hex_md4Hasher s' hs = .ok (c' == c) :=
  (hex_md4_sound).verifies_other s s' hs c' hh hv hc'
theorem hex_md4_hash_succeeds (s : Secret) (b : Bytes) (hv : s.len ≤ MAX_PASSWORD_SIZE) (hb : s.toBytes = .ok b) :
    ∃ hs, hashSecret hex_md4Hasher s noSettings = .ok hs :=
  succeeds_of_digest _ s _ b _ hv hb rfl rfl rfl
theorem hex_md5_sound : Sound hex_md5Hasher hex_md5.identify noSettings :=
  hexLower_sound "hex_md5" 32 (by decide) _ (hexDigest_shape _ 16 md5_length)
theorem hex_md5_roundtrips : RoundTrips hex_md5Hasher noSettings := (hex_md5_sound).rt
/-- hex_md5: whatever `hash` returns verifies True for the same secret -/
theorem hex_md5_verifies_own_hash (s : Secret) (hs : Str) (hh : hashSecret hex_md5Hasher s noSettings = .ok hs) :
    verify hex_md5Hasher s hs = .ok true := (hex_md5_sound).verifies_own s hs hh
theorem hex_md5_identifies_own_hash (s : Secret) (hs : Str) (hh : hashSecret hex_md5Hasher s noSettings = .ok hs) :
    hex_md5.identify hs = true := (hex_md5_sound).identifies s hs hh
theorem hex_md5_verifies_other (s s' : Secret) (hs c' : Str) (hh : hashSecret hex_md5Hasher s noSettings = .ok hs)
    (hv : s'.len ≤ MAX_PASSWORD_SIZE) (hc' : checksumOf hex_md5Hasher false s' noSettings = .ok c') :
    ∃ c, checksumOf hex_md5Hasher true s noSettings = .ok c ∧ verify hex_md5Hasher s' hs = .ok (c' == c) :=
  (hex_md5_sound).verifies_other s s' hs c' hh hv hc'
theorem hex_md5_hash_succeeds (s : Secret) (b : Bytes) (hv : s.len ≤ MAX_PASSWORD_SIZE) (hb : s.toBytes = .ok b) :
    ∃ hs, hashSecret hex_md5Hasher s noSettings = .ok hs :=
  succeeds_of_digest _ s _ b _ hv hb rfl rfl rfl
theorem hex_sha1_sound : Sound hex_sha1Hasher hex_sha1.identify noSettings :=
  hexLower_sound "hex_sha1" 40 (by decide) _ (hexDigest_shape _ 20 sha1_length)
theorem hex_sha1_roundtrips : RoundTrips hex_sha1Hasher noSettings := (hex_sha1_sound).rt
/-- hex_sha1: whatever `hash` returns verifies True for the same secret -/
theorem hex_sha1_verifies_own_hash (s : Secret) (hs : Str) (hh : hashSecret hex_sha1Hasher s noSettings = .ok hs) :
    verify hex_sha1Hasher s hs = .ok true := (hex_sha1_sound).verifies_own s hs hh
theorem hex_sha1_identifies_own_hash (s : Secret) (hs : Str) (hh : hashSecret hex_sha1Hasher s noSettings = .ok hs) :
    hex_sha1.identify hs = true := (hex_sha1_sound).identifies s hs hh
theorem hex_sha1_verifies_other (s s' : Secret) (hs c' : Str) (hh : hashSecret hex_sha1Hasher s noSettings = .ok hs)
    (hv : s'.len ≤ MAX_PASSWORD_SIZE) (hc' : checksumOf hex_sha1Hasher false s' noSettings = .ok c') :
    ∃ c, checksumOf hex_sha1Hasher true s noSettings = .ok c ∧ verify hex_sha1Hasher s' hs = .ok (c' == c) :=
  (hex_sha1_sound).verifies_other s s' hs c' hh hv hc'
theorem hex_sha1_hash_succeeds (s : Secret) (b : Bytes) (hv : s.len ≤ MAX_PASSWORD_SIZE) (hb : s.toBytes = .ok b) :
    ∃ hs, hashSecret hex_sha1Hasher s noSettings = .ok hs :=
  succeeds_of_digest _ s _ b _ hv hb rfl rfl rfl
theorem hex_sha256_sound : Sound hex_sha256Hasher hex_sha256.identify noSettings :=
  hexLower_sound "hex_sha256" 64 (by decide) _ (hexDigest_shape _ 32 sha256_length)
theorem hex_sha256_roundtrips : RoundTrips hex_sha256Hasher noSettings := (hex_sha256_sound).rt
/-- hex_sha256: whatever `hash` returns verifies True for the same secret -/
theorem hex_sha256_verifies_own_hash (s : Secret) (hs : Str) (hh : hashSecret hex_sha256Hasher s noSettings = .ok hs) :
    verify hex_sha256Hasher s hs = .ok true := (hex_sha256_sound).verifies_own s hs hh
theorem hex_sha256_identifies_own_hash (s : Secret) (hs : Str) (hh : hashSecret hex_sha256Hasher s noSettings = .ok hs) :
    hex_sha256.identify hs = true := (hex_sha256_sound).identifies s hs hh
theorem hex_sha256_verifies_other (s s' : Secret) (hs c' : Str) (hh : hashSecret hex_sha256Hasher s noSettings = .ok hs)
    (hv : s'.len ≤ MAX_PASSWORD_SIZE) (hc' : checksumOf hex_sha256Hasher false s' noSettings = .ok c') :
    ∃ c, checksumOf hex_sha256Hasher true s noSettings = .ok c ∧ verify hex_sha256Hasher s' hs = .ok (c' == c) :=
  (hex_sha256_sound).verifies_other s s' hs c' hh hv hc'
theorem hex_sha256_hash_succeeds (s : Secret) (b : Bytes) (hv : s.len ≤ MAX_PASSWORD_SIZE) (hb : s.toBytes = .ok b) :
    ∃ hs, hashSecret hex_sha256Hasher s noSettings = .ok hs :=
  succeeds_of_digest _ s _ b _ hv hb rfl rfl rfl
theorem hex_sha512_sound : Sound hex_sha512Hasher hex_sha512.identify noSettings :=
  hexLower_sound "hex_sha512" 128 (by decide) _ (hexDigest_shape _ 64 sha512_length)
theorem hex_sha512_roundtrips : RoundTrips hex_sha512Hasher noSettings := (hex_sha512_sound).rt
/-- hex_sha512: whatever `hash` returns verifies True for the same secret -/
theorem hex_sha512_verifies_own_hash (s : Secret) (hs : Str) (hh : hashSecret hex_sha512Hasher s noSettings = .ok hs) :
    verify hex_sha512Hasher s hs = .ok true := (hex_sha512_sound).verifies_own s hs hh
theorem hex_sha512_identifies_own_hash (s : Secret) (hs : Str) (hh : hashSecret hex_sha512Hasher s noSettings = .ok hs) :
    hex_sha512.identify hs = true := (hex_sha512_sound).identifies s hs hh
theorem hex_sha512_verifies_other (s s' : Secret) (hs c' : Str) (hh : hashSecret hex_sha512Hasher s noSettings = .ok hs)
    (hv : s'.len ≤ MAX_PASSWORD_SIZE) (hc' : checksumOf hex_sha512Hasher false s' noSettings = .ok c') :
    ∃ c, checksumOf hex_sha512Hasher true s noSettings = .ok c ∧ verify hex_sha512Hasher s' hs = .ok (c' == c) :=
  (hex_sha512_sound).verifies_other s s' hs c' hh hv hc'
theorem hex_sha512_hash_succeeds (s : Secret) (b : Bytes) (hv : s.len ≤ MAX_PASSWORD_SIZE) (hb : s.toBytes = .ok b) :
    ∃ hs, hashSecret hex_sha512Hasher s noSettings = .ok hs :=
  succeeds_of_digest _ s _ b _ hv hb rfl rfl rfl
/-! ### nthash, lmhash, msdcc, msdcc2 -/
theorem nthash_sound : Sound nthashHasher nthash.identify noSettings :=
  hexLower_sound "nthash" 32 (by decide) _ nthash_shape
theorem nthash_roundtrips : RoundTrips nthashHasher noSettings := (nthash_sound).rt
/-- nthash: whatever `hash` returns verifies True for the same secret -/
theorem nthash_verifies_own_hash (s : Secret) (hs : Str) (hh : hashSecret nthashHasher s noSettings = .ok hs) :
    verify nthashHasher s hs = .ok true := (nthash_sound).verifies_own s hs hh
theorem nthash_identifies_own_hash (s : Secret) (hs : Str) (hh : hashSecret nthashHasher s noSettings = .ok hs) :
    nthash.identify hs = true := (nthash_sound).identifies s hs hh
theorem nthash_verifies_other (s s' : Secret) (hs c' : Str) (hh : hashSecret nthashHasher s noSettings = .ok hs)
    (hv : s'.len ≤ MAX_PASSWORD_SIZE) (hc' : checksumOf nthashHasher false s' noSettings = .ok c') :
    ∃ c, checksumOf nthashHasher true s noSettings = .ok c ∧ verify nthashHasher s' hs = .ok (c' == c) :=
  (nthash_sound).verifies_other s s' hs c' hh hv hc'
theorem nthash_hash_succeeds (s : Secret) (b : Bytes) (hv : s.len ≤ MAX_PASSWORD_SIZE) (hb : s.toBytes = .ok b) (hu : utf8Ok b = true) :
    ∃ hs, hashSecret nthashHasher s noSettings = .ok hs :=
  succeeds_of_digest _ s _ b (Spec.Formats.nthash b) hv hb rfl rfl (by simp [nthashHasher, ofFormat, nthashDigest, hu])
theorem lmhash_sound (te : Bool) : Sound (lmhashHasher te) lmhash.identify noSettings :=
  let g := hexLower_sound "lmhash" 32 (by decide) (fun b => .ok (Spec.Formats.lmhash b)) (fun b c hc => by cases hc; exact lmhash_shape b)
  ⟨g.rt, g.ic, g.id⟩
theorem lmhash_roundtrips (te : Bool) : RoundTrips (lmhashHasher te) noSettings := (lmhash_sound te).rt
/-- lmhash (bytes secrets in the OEM code page, or ASCII text): whatever `hash` returns verifies True for the same secret -/
theorem lmhash_verifies_own_hash (te : Bool) (s : Secret) (hs : Str) (hh : hashSecret (lmhashHasher te) s noSettings = .ok hs) :
    verify (lmhashHasher te) s hs = .ok true := (lmhash_sound te).verifies_own s hs hh
theorem lmhash_identifies_own_hash (te : Bool) (s : Secret) (hs : Str) (hh : hashSecret (lmhashHasher te) s noSettings = .ok hs) :
    lmhash.identify hs = true := (lmhash_sound te).identifies s hs hh
theorem lmhash_verifies_other (te : Bool) (s s' : Secret) (hs c' : Str) (hh : hashSecret (lmhashHasher te) s noSettings = .ok hs)
    (hv : s'.len ≤ MAX_PASSWORD_SIZE) (hc' : checksumOf (lmhashHasher te) false s' noSettings = .ok c') :
    ∃ c, checksumOf (lmhashHasher te) true s noSettings = .ok c ∧ verify (lmhashHasher te) s' hs = .ok (c' == c) :=
  (lmhash_sound te).verifies_other s s' hs c' hh hv hc'
/-- `hash` succeeds for every secret when truncation is silent (the default), and for secrets of at most 14 octets under `truncate_error=True` -/
theorem lmhash_hash_succeeds (te : Bool) (s : Secret) (b : Bytes) (hv : s.len ≤ MAX_PASSWORD_SIZE) (hb : s.toBytes = .ok b)
    (ht : te = true → b.length ≤ 14) : ∃ hs, hashSecret (lmhashHasher te) s noSettings = .ok hs :=
  ⟨_, hashSecret_ok _ s _ b (Spec.Formats.lmhash b) hv hb (by
      unfold checkTruncate lmhashHasher
      cases te
      · simp
      · have := ht rfl
        have h2 : ¬ b.length > 14 := by omega
        simp [h2]) (by simp [checkNul, lmhashHasher, ofFormat]) rfl⟩
/-- … and `hash` under `truncate_error=True` refuses a longer secret -/
theorem lmhash_truncate_error (s : Secret) (b : Bytes) (hv : s.len ≤ MAX_PASSWORD_SIZE) (hb : s.toBytes = .ok b) (hl : b.length > 14) :
    hashSecret (lmhashHasher true) s noSettings = .error .truncateError := by
  unfold hashSecret validateSecret checksumOf checkTruncate
  have : ¬ s.len > MAX_PASSWORD_SIZE := by omega
  simp [this, hb, lmhashHasher, hl]
/-- lmhash's documented equivalences: a secret whose first 14 octets agree after upper-casing ASCII letters verifies -/
theorem lmhash_verifies_equivalent (te : Bool) (s s' : Secret) (hs : Str) (b b' : Bytes)
    (hh : hashSecret (lmhashHasher te) s noSettings = .ok hs) (hb : s.toBytes = .ok b) (hv : s'.len ≤ MAX_PASSWORD_SIZE)
    (hb' : s'.toBytes = .ok b')
    (heq : (b'.map Spec.Formats.upperAscii ++ List.replicate 14 0).take 14 = (b.map Spec.Formats.upperAscii ++ List.replicate 14 0).take 14) :
    verify (lmhashHasher te) s' hs = .ok true :=
  (lmhash_sound te).verifies_equivalent s s' hs b b' hh hb hv hb' (by simp [checkNul, lmhashHasher, ofFormat])
    (by show Except.ok (Spec.Formats.lmhash b') = Except.ok (Spec.Formats.lmhash b); rw [lmhash_equiv b' b heq])
/-- in particular: the upper-cased secret and the secret cut after 14 octets -/
theorem lmhash_verifies_upper_and_truncated (te : Bool) (b : Bytes) (hs : Str) (hl : b.length ≤ MAX_PASSWORD_SIZE)
    (hh : hashSecret (lmhashHasher te) (.bytes b) noSettings = .ok hs) :
    verify (lmhashHasher te) (.bytes (b.map Spec.Formats.upperAscii)) hs = .ok true ∧ verify (lmhashHasher te) (.bytes (b.take 14)) hs = .ok true := by
  refine ⟨lmhash_verifies_equivalent te _ _ hs b _ hh rfl (by simp [Secret.len]; omega) rfl ?_,
    lmhash_verifies_equivalent te _ _ hs b _ hh rfl (by simp [Secret.len, List.length_take]; omega) rfl ?_⟩
  · rw [List.map_map]
    congr 2
    apply List.map_congr_left
    intro c _
    exact upperAscii_idem c
  · rw [List.map_take, take_pad]
theorem msdcc_sound (user : Option Bytes) : Sound (msdccHasher user) msdcc.identify noSettings :=
  hexLower_sound "msdcc" 32 (by decide) _ (msdcc_shape user)
theorem msdcc_roundtrips (user : Option Bytes) : RoundTrips (msdccHasher user) noSettings := (msdcc_sound user).rt
/-- msdcc: whatever `hash` returns verifies True for the same secret -/
theorem msdcc_verifies_own_hash (user : Option Bytes) (s : Secret) (hs : Str) (hh : hashSecret (msdccHasher user) s noSettings = .ok hs) :
    verify (msdccHasher user) s hs = .ok true := (msdcc_sound user).verifies_own s hs hh
theorem msdcc_identifies_own_hash (user : Option Bytes) (s : Secret) (hs : Str) (hh : hashSecret (msdccHasher user) s noSettings = .ok hs) :
    msdcc.identify hs = true := (msdcc_sound user).identifies s hs hh
theorem msdcc_verifies_other (user : Option Bytes) (s s' : Secret) (hs c' : Str) (hh : hashSecret (msdccHasher user) s noSettings = .ok hs)
    (hv : s'.len ≤ MAX_PASSWORD_SIZE) (hc' : checksumOf (msdccHasher user) false s' noSettings = .ok c') :
    ∃ c, checksumOf (msdccHasher user) true s noSettings = .ok c ∧ verify (msdccHasher user) s' hs = .ok (c' == c) :=
  (msdcc_sound user).verifies_other s s' hs c' hh hv hc'
theorem msdcc_hash_succeeds (u : Bytes) (s : Secret) (b : Bytes) (hv : s.len ≤ MAX_PASSWORD_SIZE) (hb : s.toBytes = .ok b)
    (hu : utf8Ok b = true) (huu : utf8Ok u = true) : ∃ hs, hashSecret (msdccHasher (some u)) s noSettings = .ok hs := by
  obtain ⟨t, ht⟩ := utf8Ok_decode u huu
  exact succeeds_of_digest _ s _ b _ hv hb rfl rfl
    (by simp only [msdccHasher, ofFormat, msdccDigest, msdccRawOf, hu, if_true, dccUserOf, userText, ht, Except.map]; rfl)
theorem msdcc2_sound (user : Option Bytes) : Sound (msdcc2Hasher user) msdcc2.identify noSettings :=
  hexLower_sound "msdcc2" 32 (by decide) _ (msdcc2_shape user)
theorem msdcc2_roundtrips (user : Option Bytes) : RoundTrips (msdcc2Hasher user) noSettings := (msdcc2_sound user).rt
/-- msdcc2: whatever `hash` returns verifies True for the same secret -/
theorem msdcc2_verifies_own_hash (user : Option Bytes) (s : Secret) (hs : Str) (hh : hashSecret (msdcc2Hasher user) s noSettings = .ok hs) :
    verify (msdcc2Hasher user) s hs = .ok true := (msdcc2_sound user).verifies_own s hs hh
theorem msdcc2_identifies_own_hash (user : Option Bytes) (s : Secret) (hs : Str) (hh : hashSecret (msdcc2Hasher user) s noSettings = .ok hs) :
    msdcc2.identify hs = true := (msdcc2_sound user).identifies s hs hh
theorem msdcc2_verifies_other (user : Option Bytes) (s s' : Secret) (hs c' : Str) (hh : hashSecret (msdcc2Hasher user) s noSettings = .ok hs)
    (hv : s'.len ≤ MAX_PASSWORD_SIZE) (hc' : checksumOf (msdcc2Hasher user) false s' noSettings = .ok c') :
    ∃ c, checksumOf (msdcc2Hasher user) true s noSettings = .ok c ∧ verify (msdcc2Hasher user) s' hs = .ok (c' == c) :=
  (msdcc2_sound user).verifies_other s s' hs c' hh hv hc'
theorem msdcc2_hash_succeeds (u : Bytes) (s : Secret) (b : Bytes) (hv : s.len ≤ MAX_PASSWORD_SIZE) (hb : s.toBytes = .ok b)
    (hu : utf8Ok b = true) (huu : utf8Ok u = true) : ∃ hs, hashSecret (msdcc2Hasher (some u)) s noSettings = .ok hs := by
  obtain ⟨t, ht⟩ := utf8Ok_decode u huu
  exact succeeds_of_digest _ s _ b _ hv hb rfl rfl
    (by simp only [msdcc2Hasher, ofFormat, msdcc2Digest, msdccRawOf, hu, if_true, dccUserOf, userText, ht, Except.map]; rfl)
-- msdcc2 runs 10240 PBKDF2 rounds: the real hash "b4f45292132e4727c45da13f67afc304" (password "pw", user "Admin") is checked through the compiled driver (tools/corr/c01_static.py)
/-! ### mysql323, mysql41, postgres_md5, oracle10, oracle11 -/
theorem mysql323_sound : Sound mysql323Hasher mysql323.identify noSettings :=
  hexLower_sound "mysql323" 16 (by decide) _ (fun b c hc => by cases hc; exact mysql323_shape b)
theorem mysql323_roundtrips : RoundTrips mysql323Hasher noSettings := (mysql323_sound).rt
/-- mysql323: whatever `hash` returns verifies True for the same secret -/
theorem mysql323_verifies_own_hash (s : Secret) (hs : Str) (hh : hashSecret mysql323Hasher s noSettings = .ok hs) :
    verify mysql323Hasher s hs = .ok true := (mysql323_sound).verifies_own s hs hh
theorem mysql323_identifies_own_hash (s : Secret) (hs : Str) (hh : hashSecret mysql323Hasher s noSettings = .ok hs) :
    mysql323.identify hs = true := (mysql323_sound).identifies s hs hh
theorem mysql323_verifies_other (s s' : Secret) (hs c' : Str) (hh : hashSecret mysql323Hasher s noSettings = .ok hs)
    (hv : s'.len ≤ MAX_PASSWORD_SIZE) (hc' : checksumOf mysql323Hasher false s' noSettings = .ok c') :
    ∃ c, checksumOf mysql323Hasher true s noSettings = .ok c ∧ verify mysql323Hasher s' hs = .ok (c' == c) :=
  (mysql323_sound).verifies_other s s' hs c' hh hv hc'
theorem mysql323_hash_succeeds (s : Secret) (b : Bytes) (hv : s.len ≤ MAX_PASSWORD_SIZE) (hb : s.toBytes = .ok b) :
    ∃ hs, hashSecret mysql323Hasher s noSettings = .ok hs :=
  succeeds_of_digest _ s _ b _ hv hb rfl rfl rfl
/-- mysql323's documented equivalence: blanks and tabs in the secret are not significant -/
theorem mysql323_verifies_equivalent (s s' : Secret) (hs : Str) (b b' : Bytes) (hh : hashSecret mysql323Hasher s noSettings = .ok hs)
    (hb : s.toBytes = .ok b) (hv : s'.len ≤ MAX_PASSWORD_SIZE) (hb' : s'.toBytes = .ok b')
    (heq : (b'.filter fun c => !(c == 32 || c == 9)) = (b.filter fun c => !(c == 32 || c == 9))) : verify mysql323Hasher s' hs = .ok true :=
  mysql323_sound.verifies_equivalent s s' hs b b' hh hb hv hb' (by simp [checkNul, mysql323Hasher, ofFormat])
    (by show Except.ok (Spec.Formats.mysql323 b') = Except.ok (Spec.Formats.mysql323 b)
        rw [← mysql323_blanks b', ← mysql323_blanks b, heq])
theorem mysql41_sound : Sound mysql41Hasher mysql41.identify noSettings :=
  hexUpper_sound "mysql41" [42] star_ascii star_noLower 40 (by decide) _ (fun b c hc => by cases hc; exact mysql41_shape b)
theorem mysql41_roundtrips : RoundTrips mysql41Hasher noSettings := (mysql41_sound).rt
/-- mysql41: whatever `hash` returns verifies True for the same secret -/
theorem mysql41_verifies_own_hash (s : Secret) (hs : Str) (hh : hashSecret mysql41Hasher s noSettings = .ok hs) :
    verify mysql41Hasher s hs = .ok true := (mysql41_sound).verifies_own s hs hh
theorem mysql41_identifies_own_hash (s : Secret) (hs : Str) (hh : hashSecret mysql41Hasher s noSettings = .ok hs) :
    mysql41.identify hs = true := (mysql41_sound).identifies s hs hh
theorem mysql41_verifies_other (s s' : Secret) (hs c' : Str) (hh : hashSecret mysql41Hasher s noSettings = .ok hs)
    (hv : s'.len ≤ MAX_PASSWORD_SIZE) (hc' : checksumOf mysql41Hasher false s' noSettings = .ok c') :
    ∃ c, checksumOf mysql41Hasher true s noSettings = .ok c ∧ verify mysql41Hasher s' hs = .ok (c' == c) :=
  (mysql41_sound).verifies_other s s' hs c' hh hv hc'
theorem mysql41_hash_succeeds (s : Secret) (b : Bytes) (hv : s.len ≤ MAX_PASSWORD_SIZE) (hb : s.toBytes = .ok b) :
    ∃ hs, hashSecret mysql41Hasher s noSettings = .ok hs :=
  succeeds_of_digest _ s _ b _ hv hb rfl rfl rfl
theorem postgres_md5_sound (user : Option Bytes) : Sound (postgres_md5Hasher user) postgres_md5.identify noSettings :=
  fixed_sound "postgres_md5" (ofString "md5") 32 (by decide) hexChars _ (postgres_shape user)
theorem postgres_md5_roundtrips (user : Option Bytes) : RoundTrips (postgres_md5Hasher user) noSettings := (postgres_md5_sound user).rt
/-- postgres_md5: whatever `hash` returns verifies True for the same secret -/
theorem postgres_md5_verifies_own_hash (user : Option Bytes) (s : Secret) (hs : Str) (hh : hashSecret (postgres_md5Hasher user) s noSettings = .ok hs) :
    verify (postgres_md5Hasher user) s hs = .ok true := (postgres_md5_sound user).verifies_own s hs hh
theorem postgres_md5_identifies_own_hash (user : Option Bytes) (s : Secret) (hs : Str) (hh : hashSecret (postgres_md5Hasher user) s noSettings = .ok hs) :
    postgres_md5.identify hs = true := (postgres_md5_sound user).identifies s hs hh
theorem postgres_md5_verifies_other (user : Option Bytes) (s s' : Secret) (hs c' : Str) (hh : hashSecret (postgres_md5Hasher user) s noSettings = .ok hs)
    (hv : s'.len ≤ MAX_PASSWORD_SIZE) (hc' : checksumOf (postgres_md5Hasher user) false s' noSettings = .ok c') :
    ∃ c, checksumOf (postgres_md5Hasher user) true s noSettings = .ok c ∧ verify (postgres_md5Hasher user) s' hs = .ok (c' == c) :=
  (postgres_md5_sound user).verifies_other s s' hs c' hh hv hc'
theorem postgres_md5_hash_succeeds (u : Bytes) (s : Secret) (b : Bytes) (hv : s.len ≤ MAX_PASSWORD_SIZE) (hb : s.toBytes = .ok b) :
    ∃ hs, hashSecret (postgres_md5Hasher (some u)) s noSettings = .ok hs :=
  succeeds_of_digest _ s _ b _ hv hb rfl rfl rfl
/-- without the `user` keyword the class raises TypeError -/
theorem postgres_md5_needs_user (s : Secret) (b : Bytes) (hv : s.len ≤ MAX_PASSWORD_SIZE) (hb : s.toBytes = .ok b) :
    hashSecret (postgres_md5Hasher none) s noSettings = .error .typeError := by
  unfold hashSecret validateSecret checksumOf checkTruncate checkNul
  have : ¬ s.len > MAX_PASSWORD_SIZE := by omega
  simp [this, hb, postgres_md5Hasher, ofFormat, postgresDigest]
theorem oracle10_sound (user : Option Bytes) : Sound (oracle10Hasher user) oracle10.identify noSettings :=
  hexUpper_sound "oracle10" [] nil_ascii nil_noLower 16 (by decide) _ (oracle10_shape user)
theorem oracle10_roundtrips (user : Option Bytes) : RoundTrips (oracle10Hasher user) noSettings := (oracle10_sound user).rt
/-- oracle10: whatever `hash` returns verifies True for the same secret -/
theorem oracle10_verifies_own_hash (user : Option Bytes) (s : Secret) (hs : Str) (hh : hashSecret (oracle10Hasher user) s noSettings = .ok hs) :
    verify (oracle10Hasher user) s hs = .ok true := (oracle10_sound user).verifies_own s hs hh
theorem oracle10_identifies_own_hash (user : Option Bytes) (s : Secret) (hs : Str) (hh : hashSecret (oracle10Hasher user) s noSettings = .ok hs) :
    oracle10.identify hs = true := (oracle10_sound user).identifies s hs hh
theorem oracle10_verifies_other (user : Option Bytes) (s s' : Secret) (hs c' : Str) (hh : hashSecret (oracle10Hasher user) s noSettings = .ok hs)
    (hv : s'.len ≤ MAX_PASSWORD_SIZE) (hc' : checksumOf (oracle10Hasher user) false s' noSettings = .ok c') :
    ∃ c, checksumOf (oracle10Hasher user) true s noSettings = .ok c ∧ verify (oracle10Hasher user) s' hs = .ok (c' == c) :=
  (oracle10_sound user).verifies_other s s' hs c' hh hv hc'
theorem oracle10_hash_succeeds (u : Bytes) (s : Secret) (b : Bytes) (hv : s.len ≤ MAX_PASSWORD_SIZE) (hb : s.toBytes = .ok b)
    (hu : utf8Ok b = true) (huu : utf8Ok u = true) : ∃ hs, hashSecret (oracle10Hasher (some u)) s noSettings = .ok hs := by
  obtain ⟨t, ht⟩ := utf8Ok_decode u huu
  obtain ⟨t2, ht2⟩ := utf8Ok_decode b hu
  exact succeeds_of_digest _ s _ b _ hv hb rfl rfl
    (by simp only [oracle10Hasher, ofFormat, oracle10Digest, ht2, userText, ht, Except.map]; rfl)
-- the real hash "F8E7579461F62E98" (password "pw", user "sys": two DES-CBC passes) is checked through the compiled driver
theorem oracle11_sound (salt : Str) (hl : salt.length = 20) (hx : allIn upperHex salt = true) : Sound oracle11Hasher oracle11.identify (saltSettings [] salt) :=
  Lemmas.C01Static.oracle11_sound salt hl hx
theorem oracle11_roundtrips (salt : Str) (hl : salt.length = 20) (hx : allIn upperHex salt = true) : RoundTrips oracle11Hasher (saltSettings [] salt) := (oracle11_sound salt hl hx).rt
/-- oracle11: whatever `hash` returns verifies True for the same secret -/
theorem oracle11_verifies_own_hash (salt : Str) (hl : salt.length = 20) (hx : allIn upperHex salt = true) (s : Secret) (hs : Str) (hh : hashSecret oracle11Hasher s (saltSettings [] salt) = .ok hs) :
    verify oracle11Hasher s hs = .ok true := (oracle11_sound salt hl hx).verifies_own s hs hh
theorem oracle11_identifies_own_hash (salt : Str) (hl : salt.length = 20) (hx : allIn upperHex salt = true) (s : Secret) (hs : Str) (hh : hashSecret oracle11Hasher s (saltSettings [] salt) = .ok hs) :
    oracle11.identify hs = true := (oracle11_sound salt hl hx).identifies s hs hh
theorem oracle11_verifies_other (salt : Str) (hl : salt.length = 20) (hx : allIn upperHex salt = true) (s s' : Secret) (hs c' : Str) (hh : hashSecret oracle11Hasher s (saltSettings [] salt) = .ok hs)
    (hv : s'.len ≤ MAX_PASSWORD_SIZE) (hc' : checksumOf oracle11Hasher false s' (saltSettings [] salt) = .ok c') :
    ∃ c, checksumOf oracle11Hasher true s (saltSettings [] salt) = .ok c ∧ verify oracle11Hasher s' hs = .ok (c' == c) :=
  (oracle11_sound salt hl hx).verifies_other s s' hs c' hh hv hc'
theorem oracle11_hash_succeeds (salt : Str) (hl : salt.length = 20) (hx : allIn upperHex salt = true) (s : Secret) (b : Bytes)
    (hv : s.len ≤ MAX_PASSWORD_SIZE) (hb : s.toBytes = .ok b) : ∃ hs, hashSecret oracle11Hasher s (saltSettings [] salt) = .ok hs := by
  obtain ⟨c, hc⟩ := oracle11_digest_ok b salt hl hx
  exact succeeds_of_digest _ s _ b c hv hb rfl rfl hc
/-! ### cisco_pix, cisco_asa (`hash` = `ciscoHashSecret`: PasswordSizeError beyond 16 / 32 octets) -/
theorem cisco_roundtrips (asa : Bool) (user : Option Bytes) : RoundTrips (ciscoHasher asa user) noSettings := (cisco_sound asa user).rt
/-- whatever `hash` returns verifies True for the same secret — every user name, every secret within the size limit -/
theorem cisco_verifies_own_hash (asa : Bool) (user : Option Bytes) (s : Secret) (hs : Str) (hh : ciscoHashSecret asa user s = .ok hs) :
    verify (ciscoHasher asa user) s hs = .ok true :=
  (cisco_sound asa user).verifies_own s hs (cisco_hash_inv asa user s hs hh).1
theorem cisco_identifies_own_hash (asa : Bool) (user : Option Bytes) (s : Secret) (hs : Str) (hh : ciscoHashSecret asa user s = .ok hs) :
    (if asa then cisco_asa else cisco_pix).identify hs = true :=
  (cisco_sound asa user).identifies s hs (cisco_hash_inv asa user s hs hh).1
theorem cisco_verifies_other (asa : Bool) (user : Option Bytes) (s s' : Secret) (hs c' : Str) (hh : ciscoHashSecret asa user s = .ok hs)
    (hv : s'.len ≤ MAX_PASSWORD_SIZE) (hc' : checksumOf (ciscoHasher asa user) false s' noSettings = .ok c') :
    ∃ c, checksumOf (ciscoHasher asa user) true s noSettings = .ok c ∧ verify (ciscoHasher asa user) s' hs = .ok (c' == c) :=
  (cisco_sound asa user).verifies_other s s' hs c' (cisco_hash_inv asa user s hs hh).1 hv hc'
theorem cisco_hash_succeeds (asa : Bool) (user : Option Bytes) (s : Secret) (b : Bytes) (hv : s.len ≤ MAX_PASSWORD_SIZE)
    (hb : s.toBytes = .ok b) (hl : b.length ≤ ciscoLimit asa) : ∃ hs, ciscoHashSecret asa user s = .ok hs := by
  obtain ⟨hs, h⟩ := succeeds_of_digest (ciscoHasher asa user) s noSettings b _ hv hb rfl rfl rfl
  have : ¬ b.length > ciscoLimit asa := by omega
  exact ⟨hs, by simp [ciscoHashSecret, h, hb, this]⟩
/-- beyond the limit `hash` raises PasswordSizeError -/
theorem cisco_oversize_refused (asa : Bool) (user : Option Bytes) (s : Secret) (b : Bytes) (hv : s.len ≤ MAX_PASSWORD_SIZE)
    (hb : s.toBytes = .ok b) (hl : b.length > ciscoLimit asa) : ciscoHashSecret asa user s = .error .sizeError := by
  obtain ⟨hs, h⟩ := succeeds_of_digest (ciscoHasher asa user) s noSettings b _ hv hb rfl rfl rfl
  simp [ciscoHashSecret, h, hb, hl]
/-- what is hashed within the limit is the published construction -/
theorem cisco_digest_eq_spec (asa : Bool) (user : Option Bytes) (b : Bytes) (hl : b.length ≤ ciscoLimit asa) :
    ciscoDigest asa user b = if asa then Spec.Formats.ciscoAsa b (user.getD []) else Spec.Formats.ciscoPix b (user.getD []) :=
  ciscoDigest_eq_spec asa user b hl
/-! ### ldap_md5, ldap_sha1, ldap_salted_md5, ldap_salted_sha1, ldap_salted_sha256, ldap_salted_sha512 -/
theorem ldap_md5_sound : Sound ldap_md5Hasher ldap_md5.identify (noSettings LDAP_MD5) :=
  ldapB64_sound "ldap_md5" (ofString "{MD5}") (by decide) _ (fun b c hc => by cases hc; exact base64_allIn _)
theorem ldap_md5_roundtrips : RoundTrips ldap_md5Hasher (noSettings LDAP_MD5) := (ldap_md5_sound).rt
/-- ldap_md5: whatever `hash` returns verifies True for the same secret -/
theorem ldap_md5_verifies_own_hash (s : Secret) (hs : Str) (hh : hashSecret ldap_md5Hasher s (noSettings LDAP_MD5) = .ok hs) :
    verify ldap_md5Hasher s hs = .ok true := (ldap_md5_sound).verifies_own s hs hh
theorem ldap_md5_identifies_own_hash (s : Secret) (hs : Str) (hh : hashSecret ldap_md5Hasher s (noSettings LDAP_MD5) = .ok hs) :
    ldap_md5.identify hs = true := (ldap_md5_sound).identifies s hs hh
theorem ldap_md5_verifies_other (s s' : Secret) (hs c' : Str) (hh : hashSecret ldap_md5Hasher s (noSettings LDAP_MD5) = .ok hs)
    (hv : s'.len ≤ MAX_PASSWORD_SIZE) (hc' : checksumOf ldap_md5Hasher false s' (noSettings LDAP_MD5) = .ok c') :
    ∃ c, checksumOf ldap_md5Hasher true s (noSettings LDAP_MD5) = .ok c ∧ verify ldap_md5Hasher s' hs = .ok (c' == c) :=
  (ldap_md5_sound).verifies_other s s' hs c' hh hv hc'
theorem ldap_md5_hash_succeeds (s : Secret) (b : Bytes) (hv : s.len ≤ MAX_PASSWORD_SIZE) (hb : s.toBytes = .ok b) :
    ∃ hs, hashSecret ldap_md5Hasher s (noSettings LDAP_MD5) = .ok hs :=
  succeeds_of_digest _ s _ b _ hv hb rfl rfl rfl
theorem ldap_sha1_sound : Sound ldap_sha1Hasher ldap_sha1.identify (noSettings LDAP_SHA) :=
  ldapB64_sound "ldap_sha1" (ofString "{SHA}") (by decide) _ (fun b c hc => by cases hc; exact base64_allIn _)
theorem ldap_sha1_roundtrips : RoundTrips ldap_sha1Hasher (noSettings LDAP_SHA) := (ldap_sha1_sound).rt
/-- ldap_sha1: whatever `hash` returns verifies True for the same secret -/
theorem ldap_sha1_verifies_own_hash (s : Secret) (hs : Str) (hh : hashSecret ldap_sha1Hasher s (noSettings LDAP_SHA) = .ok hs) :
    verify ldap_sha1Hasher s hs = .ok true := (ldap_sha1_sound).verifies_own s hs hh
theorem ldap_sha1_identifies_own_hash (s : Secret) (hs : Str) (hh : hashSecret ldap_sha1Hasher s (noSettings LDAP_SHA) = .ok hs) :
    ldap_sha1.identify hs = true := (ldap_sha1_sound).identifies s hs hh
theorem ldap_sha1_verifies_other (s s' : Secret) (hs c' : Str) (hh : hashSecret ldap_sha1Hasher s (noSettings LDAP_SHA) = .ok hs)
    (hv : s'.len ≤ MAX_PASSWORD_SIZE) (hc' : checksumOf ldap_sha1Hasher false s' (noSettings LDAP_SHA) = .ok c') :
    ∃ c, checksumOf ldap_sha1Hasher true s (noSettings LDAP_SHA) = .ok c ∧ verify ldap_sha1Hasher s' hs = .ok (c' == c) :=
  (ldap_sha1_sound).verifies_other s s' hs c' hh hv hc'
theorem ldap_sha1_hash_succeeds (s : Secret) (b : Bytes) (hv : s.len ≤ MAX_PASSWORD_SIZE) (hb : s.toBytes = .ok b) :
    ∃ hs, hashSecret ldap_sha1Hasher s (noSettings LDAP_SHA) = .ok hs :=
  succeeds_of_digest _ s _ b _ hv hb rfl rfl rfl
theorem ldap_salted_md5_sound (salt : Bytes) (h4 : 4 ≤ salt.length) (h16 : salt.length ≤ 16) (hw : Bytes.WF salt) : Sound ldap_salted_md5Hasher ldap_salted_md5.identify (saltSettings (ofString "{SMD5}") salt) :=
  ldapSalted_sound "ldap_salted_md5" (ofString "{SMD5}") 27 16 (by decide) (by decide) (by decide) Spec.MD5.md5 (fun x => ⟨md5_length x, md5_bytes x⟩) salt h4 h16 hw
theorem ldap_salted_md5_roundtrips (salt : Bytes) (h4 : 4 ≤ salt.length) (h16 : salt.length ≤ 16) (hw : Bytes.WF salt) : RoundTrips ldap_salted_md5Hasher (saltSettings (ofString "{SMD5}") salt) := (ldap_salted_md5_sound salt h4 h16 hw).rt
/-- ldap_salted_md5: whatever `hash` returns verifies True for the same secret -/
theorem ldap_salted_md5_verifies_own_hash (salt : Bytes) (h4 : 4 ≤ salt.length) (h16 : salt.length ≤ 16) (hw : Bytes.WF salt) (s : Secret) (hs : Str) (hh : hashSecret ldap_salted_md5Hasher s (saltSettings (ofString "{SMD5}") salt) = .ok hs) :
    verify ldap_salted_md5Hasher s hs = .ok true := (ldap_salted_md5_sound salt h4 h16 hw).verifies_own s hs hh
theorem ldap_salted_md5_identifies_own_hash (salt : Bytes) (h4 : 4 ≤ salt.length) (h16 : salt.length ≤ 16) (hw : Bytes.WF salt) (s : Secret) (hs : Str) (hh : hashSecret ldap_salted_md5Hasher s (saltSettings (ofString "{SMD5}") salt) = .ok hs) :
    ldap_salted_md5.identify hs = true := (ldap_salted_md5_sound salt h4 h16 hw).identifies s hs hh
theorem ldap_salted_md5_verifies_other (salt : Bytes) (h4 : 4 ≤ salt.length) (h16 : salt.length ≤ 16) (hw : Bytes.WF salt) (s s' : Secret) (hs c' : Str) (hh : hashSecret ldap_salted_md5Hasher s (saltSettings (ofString "{SMD5}") salt) = .ok hs)
    (hv : s'.len ≤ MAX_PASSWORD_SIZE) (hc' : checksumOf ldap_salted_md5Hasher false s' (saltSettings (ofString "{SMD5}") salt) = .ok c') :
    ∃ c, checksumOf ldap_salted_md5Hasher true s (saltSettings (ofString "{SMD5}") salt) = .ok c ∧ verify ldap_salted_md5Hasher s' hs = .ok (c' == c) :=
  (ldap_salted_md5_sound salt h4 h16 hw).verifies_other s s' hs c' hh hv hc'
theorem ldap_salted_md5_hash_succeeds (salt : Bytes) (s : Secret) (b : Bytes) (hv : s.len ≤ MAX_PASSWORD_SIZE) (hb : s.toBytes = .ok b) :
    ∃ hs, hashSecret ldap_salted_md5Hasher s (saltSettings (ofString "{SMD5}") salt) = .ok hs := succeeds_of_digest _ s _ b _ hv hb rfl rfl rfl
theorem ldap_salted_sha1_sound (salt : Bytes) (h4 : 4 ≤ salt.length) (h16 : salt.length ≤ 16) (hw : Bytes.WF salt) : Sound ldap_salted_sha1Hasher ldap_salted_sha1.identify (saltSettings (ofString "{SSHA}") salt) :=
  ldapSalted_sound "ldap_salted_sha1" (ofString "{SSHA}") 32 20 (by decide) (by decide) (by decide) Spec.SHA1.sha1 (fun x => ⟨sha1_length x, sha1_bytes x⟩) salt h4 h16 hw
theorem ldap_salted_sha1_roundtrips (salt : Bytes) (h4 : 4 ≤ salt.length) (h16 : salt.length ≤ 16) (hw : Bytes.WF salt) : RoundTrips ldap_salted_sha1Hasher (saltSettings (ofString "{SSHA}") salt) := (ldap_salted_sha1_sound salt h4 h16 hw).rt
/-- ldap_salted_sha1: whatever `hash` returns verifies True for the same secret -/
theorem ldap_salted_sha1_verifies_own_hash (salt : Bytes) (h4 : 4 ≤ salt.length) (h16 : salt.length ≤ 16) (hw : Bytes.WF salt) (s : Secret) (hs : Str) (hh : hashSecret ldap_salted_sha1Hasher s (saltSettings (ofString "{SSHA}") salt) = .ok hs) :
    verify ldap_salted_sha1Hasher s hs = .ok true := (ldap_salted_sha1_sound salt h4 h16 hw).verifies_own s hs hh
theorem ldap_salted_sha1_identifies_own_hash (salt : Bytes) (h4 : 4 ≤ salt.length) (h16 : salt.length ≤ 16) (hw : Bytes.WF salt) (s : Secret) (hs : Str) (hh : hashSecret ldap_salted_sha1Hasher s (saltSettings (ofString "{SSHA}") salt) = .ok hs) :
    ldap_salted_sha1.identify hs = true := (ldap_salted_sha1_sound salt h4 h16 hw).identifies s hs hh
theorem ldap_salted_sha1_verifies_other (salt : Bytes) (h4 : 4 ≤ salt.length) (h16 : salt.length ≤ 16) (hw : Bytes.WF salt) (s s' : Secret) (hs c' : Str) (hh : hashSecret ldap_salted_sha1Hasher s (saltSettings (ofString "{SSHA}") salt) = .ok hs)
    (hv : s'.len ≤ MAX_PASSWORD_SIZE) (hc' : checksumOf ldap_salted_sha1Hasher false s' (saltSettings (ofString "{SSHA}") salt) = .ok c') :
    ∃ c, checksumOf ldap_salted_sha1Hasher true s (saltSettings (ofString "{SSHA}") salt) = .ok c ∧ verify ldap_salted_sha1Hasher s' hs = .ok (c' == c) :=
  (ldap_salted_sha1_sound salt h4 h16 hw).verifies_other s s' hs c' hh hv hc'
theorem ldap_salted_sha1_hash_succeeds (salt : Bytes) (s : Secret) (b : Bytes) (hv : s.len ≤ MAX_PASSWORD_SIZE) (hb : s.toBytes = .ok b) :
    ∃ hs, hashSecret ldap_salted_sha1Hasher s (saltSettings (ofString "{SSHA}") salt) = .ok hs := succeeds_of_digest _ s _ b _ hv hb rfl rfl rfl
theorem ldap_salted_sha256_sound (salt : Bytes) (h4 : 4 ≤ salt.length) (h16 : salt.length ≤ 16) (hw : Bytes.WF salt) : Sound ldap_salted_sha256Hasher ldap_salted_sha256.identify (saltSettings (ofString "{SSHA256}") salt) :=
  ldapSalted_sound "ldap_salted_sha256" (ofString "{SSHA256}") 48 32 (by decide) (by decide) (by decide) Spec.SHA256.sha256 (fun x => ⟨sha256_length x, sha256_bytes x⟩) salt h4 h16 hw
theorem ldap_salted_sha256_roundtrips (salt : Bytes) (h4 : 4 ≤ salt.length) (h16 : salt.length ≤ 16) (hw : Bytes.WF salt) : RoundTrips ldap_salted_sha256Hasher (saltSettings (ofString "{SSHA256}") salt) := (ldap_salted_sha256_sound salt h4 h16 hw).rt
/-- ldap_salted_sha256: whatever `hash` returns verifies True for the same secret -/
theorem ldap_salted_sha256_verifies_own_hash (salt : Bytes) (h4 : 4 ≤ salt.length) (h16 : salt.length ≤ 16) (hw : Bytes.WF salt) (s : Secret) (hs : Str) (hh : hashSecret ldap_salted_sha256Hasher s (saltSettings (ofString "{SSHA256}") salt) = .ok hs) :
    verify ldap_salted_sha256Hasher s hs = .ok true := (ldap_salted_sha256_sound salt h4 h16 hw).verifies_own s hs hh
theorem ldap_salted_sha256_identifies_own_hash (salt : Bytes) (h4 : 4 ≤ salt.length) (h16 : salt.length ≤ 16) (hw : Bytes.WF salt) (s : Secret) (hs : Str) (hh : hashSecret ldap_salted_sha256Hasher s (saltSettings (ofString "{SSHA256}") salt) = .ok hs) :
    ldap_salted_sha256.identify hs = true := (ldap_salted_sha256_sound salt h4 h16 hw).identifies s hs hh
theorem ldap_salted_sha256_verifies_other (salt : Bytes) (h4 : 4 ≤ salt.length) (h16 : salt.length ≤ 16) (hw : Bytes.WF salt) (s s' : Secret) (hs c' : Str) (hh : hashSecret ldap_salted_sha256Hasher s (saltSettings (ofString "{SSHA256}") salt) = .ok hs)
    (hv : s'.len ≤ MAX_PASSWORD_SIZE) (hc' : checksumOf ldap_salted_sha256Hasher false s' (saltSettings (ofString "{SSHA256}") salt) = .ok c') :
    ∃ c, checksumOf ldap_salted_sha256Hasher true s (saltSettings (ofString "{SSHA256}") salt) = .ok c ∧ verify ldap_salted_sha256Hasher s' hs = .ok (c' == c) :=
  (ldap_salted_sha256_sound salt h4 h16 hw).verifies_other s s' hs c' hh hv hc'
theorem ldap_salted_sha256_hash_succeeds (salt : Bytes) (s : Secret) (b : Bytes) (hv : s.len ≤ MAX_PASSWORD_SIZE) (hb : s.toBytes = .ok b) :
    ∃ hs, hashSecret ldap_salted_sha256Hasher s (saltSettings (ofString "{SSHA256}") salt) = .ok hs := succeeds_of_digest _ s _ b _ hv hb rfl rfl rfl
theorem ldap_salted_sha512_sound (salt : Bytes) (h4 : 4 ≤ salt.length) (h16 : salt.length ≤ 16) (hw : Bytes.WF salt) : Sound ldap_salted_sha512Hasher ldap_salted_sha512.identify (saltSettings (ofString "{SSHA512}") salt) :=
  ldapSalted_sound "ldap_salted_sha512" (ofString "{SSHA512}") 91 64 (by decide) (by decide) (by decide) Spec.SHA512.sha512 (fun x => ⟨sha512_length x, sha512_bytes x⟩) salt h4 h16 hw
theorem ldap_salted_sha512_roundtrips (salt : Bytes) (h4 : 4 ≤ salt.length) (h16 : salt.length ≤ 16) (hw : Bytes.WF salt) : RoundTrips ldap_salted_sha512Hasher (saltSettings (ofString "{SSHA512}") salt) := (ldap_salted_sha512_sound salt h4 h16 hw).rt
/-- ldap_salted_sha512: whatever `hash` returns verifies True for the same secret -/
theorem ldap_salted_sha512_verifies_own_hash (salt : Bytes) (h4 : 4 ≤ salt.length) (h16 : salt.length ≤ 16) (hw : Bytes.WF salt) (s : Secret) (hs : Str) (hh : hashSecret ldap_salted_sha512Hasher s (saltSettings (ofString "{SSHA512}") salt) = .ok hs) :
    verify ldap_salted_sha512Hasher s hs = .ok true := (ldap_salted_sha512_sound salt h4 h16 hw).verifies_own s hs hh
theorem ldap_salted_sha512_identifies_own_hash (salt : Bytes) (h4 : 4 ≤ salt.length) (h16 : salt.length ≤ 16) (hw : Bytes.WF salt) (s : Secret) (hs : Str) (hh : hashSecret ldap_salted_sha512Hasher s (saltSettings (ofString "{SSHA512}") salt) = .ok hs) :
    ldap_salted_sha512.identify hs = true := (ldap_salted_sha512_sound salt h4 h16 hw).identifies s hs hh
theorem ldap_salted_sha512_verifies_other (salt : Bytes) (h4 : 4 ≤ salt.length) (h16 : salt.length ≤ 16) (hw : Bytes.WF salt) (s s' : Secret) (hs c' : Str) (hh : hashSecret ldap_salted_sha512Hasher s (saltSettings (ofString "{SSHA512}") salt) = .ok hs)
    (hv : s'.len ≤ MAX_PASSWORD_SIZE) (hc' : checksumOf ldap_salted_sha512Hasher false s' (saltSettings (ofString "{SSHA512}") salt) = .ok c') :
    ∃ c, checksumOf ldap_salted_sha512Hasher true s (saltSettings (ofString "{SSHA512}") salt) = .ok c ∧ verify ldap_salted_sha512Hasher s' hs = .ok (c' == c) :=
  (ldap_salted_sha512_sound salt h4 h16 hw).verifies_other s s' hs c' hh hv hc'
theorem ldap_salted_sha512_hash_succeeds (salt : Bytes) (s : Secret) (b : Bytes) (hv : s.len ≤ MAX_PASSWORD_SIZE) (hb : s.toBytes = .ok b) :
    ∃ hs, hashSecret ldap_salted_sha512Hasher s (saltSettings (ofString "{SSHA512}") salt) = .ok hs := succeeds_of_digest _ s _ b _ hv hb rfl rfl rfl
/-- the rendered string is the published construction `ident + base64(H(password ‖ salt) ‖ salt)` -/
theorem ldap_salted_render_eq_spec (ident : Str) (H : Bytes → Bytes) (b salt : Bytes) :
    ldapSaltedRender { saltSettings ident salt with checksum := some (H (b ++ salt)) } = ident ++ Spec.Formats.ldapSalted H b salt :=
  ldapSalted_render_eq_spec ident H b salt
/-! ### mssql2000 (own `verify`: `mssql2000Verify`), mssql2005 -/
theorem mssql2005_sound (salt : Bytes) (hl : salt.length = 4) (hw : Bytes.WF salt) : Sound mssql2005Hasher mssql2005.identify (saltSettings [] salt) :=
  Lemmas.C01Static.mssql2005_sound salt hl hw
theorem mssql2005_roundtrips (salt : Bytes) (hl : salt.length = 4) (hw : Bytes.WF salt) : RoundTrips mssql2005Hasher (saltSettings [] salt) := (mssql2005_sound salt hl hw).rt
/-- mssql2005: whatever `hash` returns verifies True for the same secret -/
theorem mssql2005_verifies_own_hash (salt : Bytes) (hl : salt.length = 4) (hw : Bytes.WF salt) (s : Secret) (hs : Str) (hh : hashSecret mssql2005Hasher s (saltSettings [] salt) = .ok hs) :
    verify mssql2005Hasher s hs = .ok true := (mssql2005_sound salt hl hw).verifies_own s hs hh
theorem mssql2005_identifies_own_hash (salt : Bytes) (hl : salt.length = 4) (hw : Bytes.WF salt) (s : Secret) (hs : Str) (hh : hashSecret mssql2005Hasher s (saltSettings [] salt) = .ok hs) :
    mssql2005.identify hs = true := (mssql2005_sound salt hl hw).identifies s hs hh
theorem mssql2005_verifies_other (salt : Bytes) (hl : salt.length = 4) (hw : Bytes.WF salt) (s s' : Secret) (hs c' : Str) (hh : hashSecret mssql2005Hasher s (saltSettings [] salt) = .ok hs)
    (hv : s'.len ≤ MAX_PASSWORD_SIZE) (hc' : checksumOf mssql2005Hasher false s' (saltSettings [] salt) = .ok c') :
    ∃ c, checksumOf mssql2005Hasher true s (saltSettings [] salt) = .ok c ∧ verify mssql2005Hasher s' hs = .ok (c' == c) :=
  (mssql2005_sound salt hl hw).verifies_other s s' hs c' hh hv hc'
theorem mssql2005_hash_succeeds (salt : Bytes) (s : Secret) (b : Bytes) (hv : s.len ≤ MAX_PASSWORD_SIZE) (hb : s.toBytes = .ok b)
    (hu : utf8Ok b = true) : ∃ hs, hashSecret mssql2005Hasher s (saltSettings [] salt) = .ok hs := by
  obtain ⟨t, ht⟩ := utf8Ok_decode b hu
  exact succeeds_of_digest _ s _ b _ hv hb rfl rfl (by simp only [mssql2005Hasher, ofFormat, mssql2005Digest, ht, Except.map]; rfl)
theorem mssql2000_roundtrips (salt : Bytes) (hl : salt.length = 4) (hw : Bytes.WF salt) : RoundTrips mssql2000Hasher (saltSettings [] salt) :=
  (Lemmas.C01Static.mssql2000_sound salt hl hw).rt
/-- mssql2000: whatever `hash` returns is accepted by the class's own `verify` (which compares the upper-cased half only) -/
theorem mssql2000_verifies_own_hash (salt : Bytes) (hl : salt.length = 4) (hw : Bytes.WF salt) (s : Secret) (hs : Str)
    (hh : hashSecret mssql2000Hasher s (saltSettings [] salt) = .ok hs) : mssql2000Verify s hs = .ok true :=
  mssql2000_verify_own s salt hs hl hw hh
theorem mssql2000_identifies_own_hash (salt : Bytes) (hl : salt.length = 4) (hw : Bytes.WF salt) (s : Secret) (hs : Str)
    (hh : hashSecret mssql2000Hasher s (saltSettings [] salt) = .ok hs) : mssql2000.identify hs = true :=
  (Lemmas.C01Static.mssql2000_sound salt hl hw).identifies s hs hh
theorem mssql2000_hash_succeeds (salt : Bytes) (s : Secret) (b : Bytes) (hv : s.len ≤ MAX_PASSWORD_SIZE) (hb : s.toBytes = .ok b)
    (hu : utf8Ok b = true) : ∃ hs, hashSecret mssql2000Hasher s (saltSettings [] salt) = .ok hs := by
  obtain ⟨t, ht⟩ := utf8Ok_decode b hu
  exact succeeds_of_digest _ s _ b _ hv hb rfl rfl (by simp only [mssql2000Hasher, ofFormat, mssql2000Digest, ht, Except.map]; rfl)
/-! ### PrefixWrapper: bsd_nthash, ldap_hex_md5, ldap_hex_sha1, ldap_md5_crypt, ldap_sha256_crypt, ldap_sha512_crypt
(`hash` = `wrapHashSecret`, `verify` = `wrapVerify`: the prefix is checked before the secret's size) -/
theorem bsd_nthash_verifies_own_hash (s : Secret) (hs : Str) (hh : wrapHashSecret BSD_NT nthashHasher s noSettings = .ok hs) :
    wrapVerify BSD_NT nthashHasher s hs = .ok true :=
  wrap_verifies_own BSD_NT _ s _ hs (fun hs0 h0 => nthash_verifies_own_hash s hs0 h0) hh
theorem bsd_nthash_identifies_own_hash (s : Secret) (hs : Str) (hh : wrapHashSecret BSD_NT nthashHasher s noSettings = .ok hs) :
    bsd_nthash.identify hs = true :=
  wrap_identifies_own "bsd_nthash" BSD_NT nthash _ s _ hs (fun hs0 h0 => nthash_identifies_own_hash s hs0 h0) hh
theorem bsd_nthash_hash_succeeds (s : Secret) (b : Bytes) (hv : s.len ≤ MAX_PASSWORD_SIZE) (hb : s.toBytes = .ok b) (hu : utf8Ok b = true) :
    ∃ hs, wrapHashSecret BSD_NT nthashHasher s noSettings = .ok hs := wrap_succeeds BSD_NT _ s _ (nthash_hash_succeeds s b hv hb hu)
theorem ldap_hex_md5_verifies_own_hash (s : Secret) (hs : Str) (hh : wrapHashSecret LDAP_MD5 hex_md5Hasher s noSettings = .ok hs) :
    wrapVerify LDAP_MD5 hex_md5Hasher s hs = .ok true :=
  wrap_verifies_own LDAP_MD5 _ s _ hs (fun hs0 h0 => hex_md5_verifies_own_hash s hs0 h0) hh
theorem ldap_hex_md5_identifies_own_hash (s : Secret) (hs : Str) (hh : wrapHashSecret LDAP_MD5 hex_md5Hasher s noSettings = .ok hs) :
    ldap_hex_md5.identify hs = true :=
  wrap_identifies_own "ldap_hex_md5" LDAP_MD5 hex_md5 _ s _ hs (fun hs0 h0 => hex_md5_identifies_own_hash s hs0 h0) hh
theorem ldap_hex_md5_hash_succeeds (s : Secret) (b : Bytes) (hv : s.len ≤ MAX_PASSWORD_SIZE) (hb : s.toBytes = .ok b) :
    ∃ hs, wrapHashSecret LDAP_MD5 hex_md5Hasher s noSettings = .ok hs := wrap_succeeds LDAP_MD5 _ s _ (hex_md5_hash_succeeds s b hv hb)
theorem ldap_hex_sha1_verifies_own_hash (s : Secret) (hs : Str) (hh : wrapHashSecret LDAP_SHA hex_sha1Hasher s noSettings = .ok hs) :
    wrapVerify LDAP_SHA hex_sha1Hasher s hs = .ok true :=
  wrap_verifies_own LDAP_SHA _ s _ hs (fun hs0 h0 => hex_sha1_verifies_own_hash s hs0 h0) hh
theorem ldap_hex_sha1_identifies_own_hash (s : Secret) (hs : Str) (hh : wrapHashSecret LDAP_SHA hex_sha1Hasher s noSettings = .ok hs) :
    ldap_hex_sha1.identify hs = true :=
  wrap_identifies_own "ldap_hex_sha1" LDAP_SHA hex_sha1 _ s _ hs (fun hs0 h0 => hex_sha1_identifies_own_hash s hs0 h0) hh
theorem ldap_hex_sha1_hash_succeeds (s : Secret) (b : Bytes) (hv : s.len ≤ MAX_PASSWORD_SIZE) (hb : s.toBytes = .ok b) :
    ∃ hs, wrapHashSecret LDAP_SHA hex_sha1Hasher s noSettings = .ok hs := wrap_succeeds LDAP_SHA _ s _ (hex_sha1_hash_succeeds s b hv hb)
theorem ldap_md5_crypt_verifies_own_hash (s : Secret) (salt hs : Str) (hsalt : allIn h64 salt = true) (hl : salt.length ≤ 8)
    (hh : wrapHashSecret CRYPT (md5Hasher false) s { ident := md5Ident false, salt := some salt } = .ok hs) :
    wrapVerify CRYPT (md5Hasher false) s hs = .ok true :=
  wrap_verifies_own CRYPT _ s _ hs (fun hs0 h0 => Props.C01Crypt.md5_crypt_verifies_own_hash false s salt hs0 hsalt hl h0) hh
theorem ldap_md5_crypt_hash_succeeds (s : Secret) (b : Bytes) (salt : Str) (hv : s.len ≤ MAX_PASSWORD_SIZE) (hb : s.toBytes = .ok b) (h0 : 0 ∉ b) :
    ∃ hs, wrapHashSecret CRYPT (md5Hasher false) s { ident := md5Ident false, salt := some salt } = .ok hs :=
  wrap_succeeds CRYPT _ s _ (Props.C01Crypt.md5_crypt_hash_succeeds false s b salt hv hb h0)
theorem ldap_sha256_crypt_verifies_own_hash (s : Secret) (salt hs : Str) (rounds : Nat) (hsalt : allIn h64 salt = true)
    (hl : salt.length ≤ 16) (hr : 1000 ≤ rounds ∧ rounds ≤ 999999999)
    (hh : wrapHashSecret CRYPT sha256Hasher s (sha2Settings (ofString "$5$") salt rounds) = .ok hs) : wrapVerify CRYPT sha256Hasher s hs = .ok true :=
  wrap_verifies_own CRYPT _ s _ hs (fun hs0 h0 => Props.C01Crypt.sha256_crypt_verifies_own_hash s salt hs0 rounds hsalt hl hr h0) hh
theorem ldap_sha512_crypt_verifies_own_hash (s : Secret) (salt hs : Str) (rounds : Nat) (hsalt : allIn h64 salt = true)
    (hl : salt.length ≤ 16) (hr : 1000 ≤ rounds ∧ rounds ≤ 999999999)
    (hh : wrapHashSecret CRYPT sha512Hasher s (sha2Settings (ofString "$6$") salt rounds) = .ok hs) : wrapVerify CRYPT sha512Hasher s hs = .ok true :=
  wrap_verifies_own CRYPT _ s _ hs (fun hs0 h0 => Props.C01Crypt.sha512_crypt_verifies_own_hash s salt hs0 rounds hsalt hl hr h0) hh
/-- every wrapper: a string without the prefix is refused (ValueError) whatever the secret, a string with it is verified by the wrapped hasher -/
theorem wrapper_verify (pfx : Str) (h : Hasher) (s : Secret) (hs r : Str) :
    (stripPrefix pfx hs = none → wrapVerify pfx h s hs = .error .valueError) ∧ wrapVerify pfx h s (pfx ++ r) = verify h s r :=
  ⟨fun hn => by simp [wrapVerify, hn], wrap_verify_eq pfx h s r⟩
-- the real hashes of the three {CRYPT} wrappers (e.g. "{CRYPT}$1$ab$b2XAKzcGJvTR.javvk3280") are checked through the compiled driver
/-! ### htdigest (its own `hash` / `verify`) -/
/-- htdigest: whatever `hash` returns verifies True for the same secret, user and realm -/
theorem htdigest_verifies_own_hash (user realm : Bytes) (s : Secret) (hs : Str) (hh : htdigestHash user realm s = .ok hs) :
    htdigestVerify user realm s hs = .ok true := htdigest_verify_own user realm s hs hh
theorem htdigest_identifies_own_hash (user realm : Bytes) (s : Secret) (hs : Str) (hh : htdigestHash user realm s = .ok hs) :
    htdigest.identify hs = true := by
  have := htdigest_verify_own user realm s hs hh
  unfold htdigestVerify at this
  by_cases hok : htdigestOk hs = true
  · exact hok
  · simp [hok] at this
theorem htdigest_hash_succeeds (user realm : Bytes) (s : Secret) (b : Bytes) (hv : s.len ≤ MAX_PASSWORD_SIZE) (hb : s.toBytes = .ok b) :
    htdigestHash user realm s = .ok (Spec.Formats.htdigest b user realm) := by
  unfold htdigestHash validateSecret
  have : ¬ s.len > MAX_PASSWORD_SIZE := by omega
  simp [this, hb]
/-- `verify` of another secret: equality of the two digests -/
theorem htdigest_verifies_other (user realm : Bytes) (s' : Secret) (b' : Bytes) (hs : Str) (hok : htdigestOk hs = true)
    (hv : s'.len ≤ MAX_PASSWORD_SIZE) (hb' : s'.toBytes = .ok b') :
    htdigestVerify user realm s' hs = .ok (Spec.Formats.htdigest b' user realm == hs) := by
  unfold htdigestVerify
  simp [hok, htdigest_hash_succeeds user realm s' b' hv hb']
/-! ### the stored string's case (hex formats): an ASCII hash string and its other-case form verify alike -/
theorem hexLower_verify_upper (name : String) (n : Nat) (d : Bytes → Parsed → Res Str) (s : Secret) (hs : Str) (ha : Lemmas.PyStr.Ascii hs) :
    verify (ofFormat (hexLowerFormat name n) d) s (pyUpper hs) = verify (ofFormat (hexLowerFormat name n) d) s hs := by
  unfold verify ofFormat
  simp only [hexLower_parse_upper name n hs ha]
theorem mysql41_verify_lower (s : Secret) (hs : Str) (ha : Lemmas.PyStr.Ascii hs) : verify mysql41Hasher s (pyLower hs) = verify mysql41Hasher s hs := by
  unfold verify mysql41Hasher ofFormat
  simp only [mysql41_parse_lower hs ha]
theorem oracle10_verify_lower (user : Option Bytes) (s : Secret) (hs : Str) (ha : Lemmas.PyStr.Ascii hs) :
    verify (oracle10Hasher user) s (pyLower hs) = verify (oracle10Hasher user) s hs := by
  unfold verify oracle10Hasher ofFormat
  simp only [oracle10_parse_lower hs ha]

/-! ### the checksum computed IS the published specification (Spec/Formats) — where the class maps case with `str.lower()` /
`str.upper()` (full Unicode in the model), for ASCII input, the domain of the Spec's case mapping; everywhere else by definition -/
theorem nthash_digest_eq_spec (b : Bytes) (hu : utf8Ok b = true) : nthashDigest b = .ok (Spec.Formats.nthash b) := by
  simp [nthashDigest, hu]
theorem msdcc_digest_eq_spec (u b : Bytes) (hu : Lemmas.PyStr.Ascii u) (hb : utf8Ok b = true) :
    msdccDigest (some u) b = .ok (Spec.Formats.msdcc b u) := msdcc_eq_spec u b hu hb
theorem msdcc2_digest_eq_spec (u b : Bytes) (hu : Lemmas.PyStr.Ascii u) (hb : utf8Ok b = true) :
    msdcc2Digest (some u) b = .ok (Spec.Formats.msdcc2 b u) := msdcc2_eq_spec u b hu hb
theorem oracle10_digest_eq_spec (u b : Bytes) (hu : Lemmas.PyStr.Ascii u) (hb : Lemmas.PyStr.Ascii b) :
    oracle10Digest (some u) b = .ok (Spec.Formats.oracle10 b u) := oracle10_eq_spec u b hu hb
theorem mssql2005_string_eq_spec (b salt : Bytes) (hb : Lemmas.PyStr.Ascii b) :
    (mssql2005Digest b (saltSettings [] salt)).map (fun c => mssqlRender { saltSettings [] salt with checksum := some c }) =
      .ok (Spec.Formats.mssql2005 b salt) := mssql2005_eq_spec b salt hb
theorem mssql2000_string_eq_spec (b salt : Bytes) (hb : Lemmas.PyStr.Ascii b) :
    (mssql2000Digest b (saltSettings [] salt)).map (fun c => mssqlRender { saltSettings [] salt with checksum := some c }) =
      .ok (Spec.Formats.mssql2000 b salt) := mssql2000_eq_spec b salt hb

end Props.C01Static
