import PasslibVerif.Lemmas.RoundsUsing
import PasslibVerif.Lemmas.ClassTable
import PasslibVerif.Gen.Handlers
/-
C09 — using() gives a hasher that honours its settings; the original is untouched.
`Model.Rounds.usingRounds` follows HasRounds.using() statement by statement (Python truthiness
included); the hard limits of every registered hasher come from Gen.Handlers.
-/
namespace Props.C09
open Py Model.Rounds Lemmas.Rounds

/-! ### hard limits -/
theorem strict_out_of_range_error (lo : Int) (hi : Option Int) (h : HardOK lo hi) (v : Int)
    (hout : v < lo ∨ ∃ hx, hi = some hx ∧ hx < v) : normInt lo hi v false = .error .valueError :=
  normInt_strict_error lo hi h v hout

theorem relaxed_clamps (lo : Int) (hi : Option Int) (h : HardOK lo hi) (v : Int) :
    (v < lo → normInt lo hi v true = .ok lo) ∧
    (∀ hx, hi = some hx → hx < v → normInt lo hi v true = .ok hx) ∧
    (∀ r, lo ≤ v → (∀ hx, hi = some hx → v ≤ hx) → normInt lo hi v r = .ok v) := normInt_relaxed lo hi h v

/-- whatever using() sets — strict or relaxed, int or numeric string — lies inside the hard limits;
    whatever it does not set is inherited unchanged; the hard limits themselves are never changed -/
theorem never_outside_hard_limits (cls c : Cls) (a : UsingArgs) (hok : ClsOK cls) (h : usingRounds cls a = .ok c) :
    c.hardMin = cls.hardMin ∧ c.hardMax = cls.hardMax ∧
    (c.minDesired = cls.minDesired ∨ ∃ n, c.minDesired = some n ∧ inHard cls.hardMin cls.hardMax n) ∧
    (c.maxDesired = cls.maxDesired ∨ ∃ n, c.maxDesired = some n ∧ inHard cls.hardMin cls.hardMax n) := by
  obtain ⟨h1, h2, _, hmn, hmx, _⟩ := using_shape cls c a h
  refine ⟨h1, h2, ?_, ?_⟩
  · rcases hmn with e | ⟨v, n, hn, e⟩
    · exact Or.inl e
    · exact Or.inr ⟨n, e, normInt_inHard _ _ hok.hard v a.relaxed n hn⟩
  · rcases hmx with e | ⟨v, n, hn, e⟩
    · exact Or.inl e
    · exact Or.inr ⟨n, e, normInt_inHard _ _ hok.hard v a.relaxed n hn⟩

/-! ### the configured window -/
/-- a window given in one call (the way CryptContext configures hashers) is ordered -/
theorem using_window (cls : Cls) (a : UsingArgs) (c : Cls) (x y : Arg) (hok : ClsOK cls)
    (hx : argMin a = some x) (hy : argMax a = some y) (h : usingRounds cls a = .ok c) :
    WindowOK c.minDesired c.maxDesired := using_window_ordered cls a c x y hok.hard hok.lo hx hy h

/-- the default cost of the derived hasher is clipped into its window -/
theorem default_in_window (cls c : Cls) (a : UsingArgs) (hok : ClsOK cls) (h : usingRounds cls a = .ok c)
    (hw : WindowOK c.minDesired c.maxDesired) (d : Int) (hd : c.defaultRounds = some d) :
    InWindow c.minDesired c.maxDesired d := using_default_in_window cls c a hok h hw d hd

/-- update check = "outside the configured window" -/
theorem needs_update_outside_window (c : Cls) (hodd : c.forceOdd = false) (r : Int) :
    needsUpdate c r = false ↔ InWindow c.minDesired c.maxDesired r := by
  unfold needsUpdate; simp only [hodd, Bool.false_and, Bool.false_or]; exact outsideWin_iff _ _ r

/-- hashes made by a derived hasher with an ordered window carry a cost inside the window (optional variation
    included, for every random draw) and are never flagged by its own update check -/
theorem generated_cost_in_window (cls c : Cls) (a : UsingArgs) (hok : ClsOK cls) (h : usingRounds cls a = .ok c)
    (hw : WindowOK c.minDesired c.maxDesired) (hodd : c.forceOdd = false) (draw : Nat) (fv r : Int)
    (hg : generateRounds c draw fv = .ok r) :
    InWindow c.minDesired c.maxDesired r ∧ needsUpdate c r = false := by
  have hcok := using_preserves_ok cls c a hok h
  apply generate_in_window c hw hodd _ _ (fun d hd => using_default_in_window cls c a hok h hw d hd) draw fv r hg
  · cases hcm : c.minDesired with
    | none => simp
    | some x => simpa using hcok.mn x hcm
  · intro b hb
    cases hcm : c.maxDesired with
    | none => simp [hcm, eff] at hb
    | some y =>
      have := hcok.mx y hcm
      by_cases hy : y = 0 <;> simp [hcm, eff, hy] at hb; omega

/-- optional variation never leaves the format's hard limits either: for every draw the generated cost lies in
    `[min_rounds, max_rounds]`, so the `_norm_rounds` check in `__init__(use_defaults=True)` accepts it and `hash()`
    does not fail on a cost it generated itself.  (Before the `fix:` commit that clips the vary range to the hard
    limits this was false: `sha512_crypt.using(default_rounds=1000, vary_rounds=50).hash(…)` raised ValueError
    for about half of the draws.) -/
theorem generated_cost_in_hard_limits (c : Cls) (hodd : c.forceOdd = false) (draw : Nat) (fv r : Int)
    (hdef : ∀ d, c.defaultRounds = some d → c.hardMin ≤ d ∧ ∀ b, eff c.hardMax = some b → d ≤ b)
    (hg : generateRounds c draw fv = .ok r) :
    (c.hardMin ≤ r ∧ ∀ b, eff c.hardMax = some b → r ≤ b) ∧ generateChecked c draw fv = .ok r :=
  ⟨generate_in_hard c hodd draw fv r hdef hg, generateChecked_eq c hodd draw fv r hdef hg⟩

/-- whatever the class attributes are, a cost that `hash()` accepted is inside the hard limits -/
theorem hash_cost_never_outside_hard_limits (c : Cls) (draw : Nat) (fv k : Int) (h : generateChecked c draw fv = .ok k) :
    c.hardMin ≤ k ∧ ∀ b, eff c.hardMax = some b → k ≤ b := (generateChecked_ok c draw fv k h).2

example : generateChecked ⟨1000, some 999999999, none, none, some 1000, .int 50, false⟩ 7 = .ok 1007 := by decide

/-- without variation the cost is exactly the (clipped) default -/
theorem generated_cost_exact (c : Cls) (hv : varyTruthy c.vary = false) (hodd : c.forceOdd = false) (d : Int)
    (hd : c.defaultRounds = some d) (draw : Nat) (fv : Int) : generateRounds c draw fv = .ok d := by
  unfold generateRounds; simp [hd, hv, hodd, Except.map]

/-! ### every registered hasher's declared limits are sane (so the theorems above apply to all of them) -/
def declOK (m : Model.HandlerMeta) : Bool :=
  match m.minRounds, m.maxRounds, m.defaultRounds with
  | some lo, some hi, some d => decide (lo ≤ hi) && decide (0 < hi) && decide (lo ≤ d) && decide (d ≤ hi)
  | some lo, none, some d => decide (lo ≤ d)
  | none, none, none => true
  | _, _, _ => false

theorem registry_rounds_limits_ok : Gen.Handlers.all.all declOK = true := by decide +kernel

/-! ### isolation: a derived hasher is a NEW class; nothing that existed before can observe it -/
open Model.ClassTable Lemmas.ClassTable in
theorem using_frame (t : Table) (hwf : WF t) (parent : Nat) (hp : parent < t.length) (settings : Attrs) :
    WF (derive t parent settings).1 ∧
    ∀ fuel id a, id < t.length → resolve (derive t parent settings).1 fuel id a = resolve t fuel id a :=
  ⟨derive_wf t hwf parent hp settings, fun fuel id a hid => resolve_append t hwf _ fuel id a hid⟩

open Model.ClassTable Lemmas.ClassTable in
/-- … and this holds along arbitrary chains / interleavings of using() calls -/
theorem using_frame_chain (t : Table) (hwf : WF t) :
    ∀ (calls : List (Nat × Attrs)), (∀ c ∈ calls, c.1 < t.length) →
      ∀ fuel id a, id < t.length →
        resolve (calls.foldl (fun tb c => (derive tb c.1 c.2).1) t) fuel id a = resolve t fuel id a := by
  intro calls
  induction calls generalizing t with
  | nil => intro _ fuel id a _; rfl
  | cons c rest ih =>
    intro hc fuel id a hid
    simp only [List.foldl_cons]
    have hcl := hc c (by simp)
    have hwf' := derive_wf t hwf c.1 hcl c.2
    have hlen : (derive t c.1 c.2).1.length = t.length + 1 := by simp [derive]
    have := ih (derive t c.1 c.2).1 hwf' (fun c' hc' => by rw [hlen]; have := hc c' (by simp [hc']); omega)
      fuel id a (by rw [hlen]; omega)
    rw [this]
    exact resolve_append t hwf _ fuel id a hid

/-! ### the property is FALSE for two reachable configurations (recorded findings) -/
def sha256Base : Cls := ⟨1000, some 999999999, none, none, some 535000, .none, false⟩

/-- chained using(): a new minimum above an inherited maximum is accepted; the window is inverted and the
    fresh hash (2000 rounds) is flagged by its own update check -/
theorem chained_using_inverted_window_counterexample :
    ∃ c1 c2 r, usingRounds sha256Base { maxRounds := some (.int 1500), defaultRounds := some (.int 1200) } = .ok c1 ∧
      usingRounds c1 { minRounds := some (.int 2000) } = .ok c2 ∧
      ¬ WindowOK c2.minDesired c2.maxDesired ∧ generateRounds c2 0 = .ok r ∧ needsUpdate c2 r = true := by
  refine ⟨⟨1000, some 999999999, none, some 1500, some 1200, .none, false⟩,
          ⟨1000, some 999999999, some 2000, some 1500, some 2000, .none, false⟩, 2000, by decide, by decide, ?_, by decide, by decide⟩
  intro hw
  have := hw 2000 1500 (by decide) (by decide)
  omega

def bsdiBase : Cls := ⟨1, some 16777215, none, none, some 5001, .none, true⟩

/-- bsdi_crypt forces generated rounds odd: with an even maximum equal to the default the fresh hash exceeds it -/
theorem bsdi_fresh_hash_flagged_counterexample :
    ∃ c r, usingRounds bsdiBase { maxRounds := some (.int 6000), defaultRounds := some (.int 6000) } = .ok c ∧
      generateRounds c 0 = .ok r ∧ r = 6001 ∧ needsUpdate c r = true := by
  exact ⟨⟨1, some 16777215, none, some 6000, some 6000, .none, true⟩, 6001, by decide, by decide, rfl, by decide⟩

/-! non-vacuity -/
example : ClsOK sha256Base := by
  refine ⟨?_, by decide, ?_, ?_, ?_⟩
  · intro hx e; simp [sha256Base] at e; subst e; decide
  · intro a e; simp [sha256Base] at e
  · intro a e; simp [sha256Base] at e
  · intro a e; simp [sha256Base] at e; subst e; decide
example : usingRounds sha256Base { minRounds := some (.int 2000), maxRounds := some (.int 3000), relaxed := true } =
    .ok ⟨1000, some 999999999, some 2000, some 3000, some 3000, .none, false⟩ := by decide

end Props.C09
