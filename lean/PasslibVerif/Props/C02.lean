import PasslibVerif.Lemmas.R42
import PasslibVerif.Lemmas.ShaCryptPre
import PasslibVerif.Lemmas.ShaCryptEnc
import PasslibVerif.Lemmas.DigestLen
import PasslibVerif.Lemmas.B64
/-
C02 — "every format computes the published algorithm bit for bit": the part that is control structure and byte
plumbing rather than a primitive.  passlib's optimised md5-crypt / sha256-crypt / sha512-crypt code (42-round blocks,
odd tails, the two ways of computing DP, `repeat_string`, the bit loop over the password length, the transposition
tables and hash64 packing) equals the published algorithm (Spec.ShaCrypt, Spec.Md5Crypt) for EVERY password, salt and
rounds value.  The digest primitive is the FIPS 180-4 / RFC 1321 transcription (Spec.SHA256/SHA512/MD5); hashlib's
agreement with those transcriptions is a correspondence obligation (Props.C11 / corr C02), not a theorem.
-/
namespace Props.C02
open Py Gen.ShaCrypt Model.ShaCrypt Lemmas.R42 Lemmas.ShaCryptPre Lemmas.ShaCryptEnc

/-- the offsets tables and `perms` orders found in the three source files denote the round constants of the spec -/
theorem sha2_table_ok : TableOK sha2Offsets sha2Perms := by decide
theorem lp_table_ok : TableOK lpOffsets lpPerms := by decide
theorem md5_table_ok : TableOK md5Offsets md5Perms := by decide

/-- digest C of `_raw_sha2_crypt` is digest C of the specification: every password (both the `< 96` and the `>= 96`
    byte path), every salt not longer than a digest, every `rounds` (every residue mod 42, odd and even tails),
    every digest function with non-empty output -/
theorem sha2Digest_eq_spec (H : Bytes → Bytes) (offsets : List (Nat × Nat)) (perms : List (List PS))
    (hT : TableOK offsets perms) (pwd salt : Bytes) (rounds : Nat)
    (hpos : ∀ x, 0 < (H x).length) (hsalt : ∀ x, salt.length ≤ (H x).length) :
    sha2Digest offsets perms H pwd salt rounds = Spec.ShaCrypt.digestC H pwd salt rounds := by
  unfold sha2Digest Spec.ShaCrypt.digestC Spec.ShaCrypt.digestA Spec.ShaCrypt.digestB Spec.ShaCrypt.seqP
    Spec.ShaCrypt.seqS Spec.ShaCrypt.digestDP Spec.ShaCrypt.digestDS
  simp only []
  rw [roundsLoop_eq_spec H _ _ offsets perms hT]
  have hdp : (if pwd.length < 96 then repeatString (H (List.replicate pwd.length pwd).flatten) pwd.length
      else repeatString (H (feedLoop pwd (pwd.length - 1) pwd)) pwd.length)
      = Spec.ShaCrypt.blocksOf (H (List.replicate pwd.length pwd).flatten) pwd.length := by
    by_cases h : pwd.length < 96
    · rw [if_pos h, repeatString_eq_blocksOf _ _ (hpos _)]
    · rw [if_neg h, dp_paths_agree pwd (by omega), repeatString_eq_blocksOf _ _ (hpos _)]
  rw [hdp, take_eq_blocksOf _ _ (hpos _) (hsalt _)]
  simp only [repeatString_eq_blocksOf _ _ (hpos _), bitLoop_eq _ _ _ _ (Nat.le_refl _)]

/-- digest C is always an output of `H` -/
theorem digestC_is_output (H : Bytes → Bytes) (Q : Bytes → Prop) (hQ : ∀ x, Q (H x)) (pwd salt : Bytes) (rounds : Nat) :
    Q (Spec.ShaCrypt.digestC H pwd salt rounds) := by
  unfold Spec.ShaCrypt.digestC
  simp only []
  have key : ∀ n i C, Q C → Q (Spec.ShaCrypt.loop H (Spec.ShaCrypt.seqP H pwd)
      (Spec.ShaCrypt.seqS H salt (Spec.ShaCrypt.digestA H pwd salt)) n i C) := by
    intro n
    induction n with
    | zero => intro i C h; exact h
    | succ n ih => intro i C _; exact ih _ _ (hQ _)
  exact key _ _ _ (hQ _)

/-- `$5$`: the checksum passlib's pure-Python back end produces is the one the specification defines -/
theorem sha256_crypt_eq_spec (pwd salt : Bytes) (rounds : Nat) (hs : salt.length ≤ 32) :
    rawSha256 Spec.SHA256.sha256 pwd salt rounds = .ok (Spec.ShaCrypt.sha256Crypt Spec.SHA256.sha256 pwd salt rounds) := by
  unfold rawSha256 Spec.ShaCrypt.sha256Crypt
  have hlen := Lemmas.DigestLen.sha256_length
  rw [sha2Digest_eq_spec _ _ _ sha2_table_ok pwd salt rounds (fun x => by rw [hlen]; omega) (fun x => by rw [hlen]; exact hs)]
  exact encode256_eq _ (digestC_is_output _ (fun b => b.length = 32) hlen pwd salt rounds)
    (digestC_is_output _ IsBytes Lemmas.DigestLen.sha256_bytes pwd salt rounds)

/-- `$6$` -/
theorem sha512_crypt_eq_spec (pwd salt : Bytes) (rounds : Nat) (hs : salt.length ≤ 64) :
    rawSha512 Spec.SHA512.sha512 pwd salt rounds = .ok (Spec.ShaCrypt.sha512Crypt Spec.SHA512.sha512 pwd salt rounds) := by
  unfold rawSha512 Spec.ShaCrypt.sha512Crypt
  have hlen := Lemmas.DigestLen.sha512_length
  rw [sha2Digest_eq_spec _ _ _ sha2_table_ok pwd salt rounds (fun x => by rw [hlen]; omega) (fun x => by rw [hlen]; exact hs)]
  exact encode512_eq _ (digestC_is_output _ (fun b => b.length = 64) hlen pwd salt rounds)
    (digestC_is_output _ IsBytes Lemmas.DigestLen.sha512_bytes pwd salt rounds)

/-- libpass' `SHA256Hasher` / `SHA512Hasher` (their own copy of the function, tables and Base64 engine) -/
theorem libpass_sha256_eq_spec (pwd salt : Bytes) (rounds : Nat) (hs : salt.length ≤ 32) :
    lpSha256 Spec.SHA256.sha256 pwd salt rounds = .ok (Spec.ShaCrypt.sha256Crypt Spec.SHA256.sha256 pwd salt rounds) := by
  unfold lpSha256 Spec.ShaCrypt.sha256Crypt
  have hlen := Lemmas.DigestLen.sha256_length
  rw [sha2Digest_eq_spec _ _ _ lp_table_ok pwd salt rounds (fun x => by rw [hlen]; omega) (fun x => by rw [hlen]; exact hs)]
  exact lpEncode256_eq _ (digestC_is_output _ (fun b => b.length = 32) hlen pwd salt rounds)
    (digestC_is_output _ IsBytes Lemmas.DigestLen.sha256_bytes pwd salt rounds)

theorem libpass_sha512_eq_spec (pwd salt : Bytes) (rounds : Nat) (hs : salt.length ≤ 64) :
    lpSha512 Spec.SHA512.sha512 pwd salt rounds = .ok (Spec.ShaCrypt.sha512Crypt Spec.SHA512.sha512 pwd salt rounds) := by
  unfold lpSha512 Spec.ShaCrypt.sha512Crypt
  have hlen := Lemmas.DigestLen.sha512_length
  rw [sha2Digest_eq_spec _ _ _ lp_table_ok pwd salt rounds (fun x => by rw [hlen]; omega) (fun x => by rw [hlen]; exact hs)]
  exact lpEncode512_eq _ (digestC_is_output _ (fun b => b.length = 64) hlen pwd salt rounds)
    (digestC_is_output _ IsBytes Lemmas.DigestLen.sha512_bytes pwd salt rounds)

/-! ### md5-crypt / apr-md5-crypt -/

theorem md5Digest_eq_spec (H : Bytes → Bytes) (hlen : ∀ x, (H x).length = 16) (magic pwd salt : Bytes) :
    md5Digest H magic pwd salt = Spec.Md5Crypt.digest H magic pwd salt := by
  unfold md5Digest Spec.Md5Crypt.digest
  simp only []
  rw [md5Loop_eq_spec H pwd salt md5Offsets md5Perms md5_table_ok, md5_loop_eq,
    repeatString_eq_blocksOf _ _ (by rw [hlen]; omega), bitLoop_eq _ _ _ _ (Nat.le_refl _),
    finalBlocks_eq _ (hlen _) _ _ (Nat.le_refl _), weirdBits_eq]

theorem md5Digest_is_output (H : Bytes → Bytes) (Q : Bytes → Prop) (hQ : ∀ x, Q (H x)) (magic pwd salt : Bytes) :
    Q (Spec.Md5Crypt.digest H magic pwd salt) := by
  unfold Spec.Md5Crypt.digest
  simp only []
  generalize H (pwd ++ magic ++ salt ++ _ ++ _) = A
  have key : ∀ n i C, (n = 0 → Q C) → Q (Spec.Md5Crypt.loop H pwd salt n i C) := by
    intro n
    induction n with
    | zero => intro i C h; exact h rfl
    | succ n ih => intro i C _; exact ih _ _ (fun _ => hQ _)
  exact key 1000 0 A (by intro h; cases h)

/-- `$1$` and `$apr1$`: passlib's pure-Python md5-crypt (23 blocks of 42 rounds + 17 pairs, `repeat_string`, the
    NUL / first-character bit loop, the transposition table) is PHK's algorithm, for every password and salt -/
theorem md5_crypt_eq_spec (apr : Bool) (pwd salt : Bytes) :
    rawMd5 Spec.MD5.md5 apr pwd salt =
      .ok (Spec.Md5Crypt.md5Crypt Spec.MD5.md5 (if apr then aprMagic else md5Magic) pwd salt) := by
  unfold rawMd5 Spec.Md5Crypt.md5Crypt
  rw [md5Digest_eq_spec _ Lemmas.DigestLen.md5_length]
  exact encodeMd5_eq _ (md5Digest_is_output _ (fun b => b.length = 16) Lemmas.DigestLen.md5_length _ pwd salt)
    (md5Digest_is_output _ IsBytes Lemmas.DigestLen.md5_bytes _ pwd salt)

/-- the magic strings are the published ones: `$1$` and `$apr1$` (ASCII codes) -/
theorem magic_strings : md5Magic = [36, 49, 36] ∧ aprMagic = [36, 97, 112, 114, 49, 36] := by decide

/-! ### non-vacuity: the optimised and the naive loop really are different programs that agree -/
example : roundsLoop (fun b => [b.length % 251, b.foldl (· + ·) 7 % 256]) (dataOf sha2Offsets sha2Perms [1, 2] [3]) 1043 [9]
    = Spec.ShaCrypt.loop (fun b => [b.length % 251, b.foldl (· + ·) 7 % 256]) [1, 2] [3] 1043 0 [9] := by decide +kernel

end Props.C02
