import PasslibVerif.Lemmas.C02CodeIterBase
import PasslibVerif.Lemmas.C02CodeIterMysql
import PasslibVerif.Lemmas.C02CodeIterSha1
import PasslibVerif.Lemmas.C02CodeIterCisco
import PasslibVerif.Props.C02CodeIterSun
/-
C02 — "the code computes the published algorithm", group `Iter`: passlib's OWN pure-Python checksum code of the iterated-digest
formats (Model/Code/Iter.lean, written statement by statement after passlib/handlers/{phpass,mysql,sha1_crypt,fshp,cisco,
sun_md5_crypt}.py and tied to the source by the statement pins + the `citer` correspondence run) equals the Lean specification of
the format (Spec/Formats/Iterated.lean, Spec/Formats/Digests.lean, written from the published descriptions) — for EVERY password
(any length, any byte values, text or bytes), every salt and every cost the code admits.  Digests are the FIPS 180-4 / RFC 1321
transcriptions (hashlib is external); HMAC = `compile_hmac` (Model.Hmac, = RFC 2104 by Props.C11), hash64 = Model.B64 (Props.C12).

  F_eq_spec            the equality, under the explicit admissibility of the settings
  F_refuses_…          the error branches of the code
  example              the hypotheses are met by a real value computed with /tmp/repo_clean: Props/C02CodeIterExamples.lean
                       (kernel evaluation of the digests; kept apart for the build time)
-/
namespace Props.C02CodeIter
open Py Model.Code.Iter Lemmas.C02CodeIter Lemmas.PbkdfLen Lemmas.C01MiscDigest
open Model.Verify (Secret)

/-! ### phpass -/

/-- generic in the digest: any `md5` returning bytes -/
theorem phpass_eq_spec_gen (md5 : Bytes → Bytes) (hwf : ∀ x, Bytes.WF (md5 x)) (s : Secret) (b : Bytes) (salt : List Nat) (rounds : Nat)
    (hb : s.toBytes = .ok b) (hsalt : ∀ c ∈ salt, c < 128) :
    phpassCalcChecksum md5 salt rounds s =
      .ok (Spec.Formats.h64le (Spec.Formats.iterate (fun h => md5 (h ++ b)) (2 ^ rounds) (md5 (salt ++ b)))) := by
  unfold phpassCalcChecksum
  rw [hb, encodeAscii_ok salt hsalt]
  simp only [bind, Except.bind, pure, Except.pure]
  rw [phpassWhile_eq md5 b _ _ 0 _ (Nat.zero_add _), Nat.shiftLeft_eq, Nat.one_mul]
  rw [h64Encode_eq _ (iterate_wf _ (fun x => hwf _) _ _ (hwf _))]

/-- `phpass._calc_checksum` = PHPass `crypt_private` + `encode64`: every secret (text or bytes, any length, any byte values,
    NUL included), every ASCII salt (the handler admits exactly 8 hash64 characters), every `rounds` (the handler admits 7 … 30) -/
theorem phpass_eq_spec (s : Secret) (b : Bytes) (salt : List Nat) (rounds : Nat)
    (hb : s.toBytes = .ok b) (hsalt : ∀ c ∈ salt, c < 128) :
    phpassCalcChecksum Spec.MD5.md5 salt rounds s = .ok (Spec.Formats.phpass b salt rounds) :=
  phpass_eq_spec_gen Spec.MD5.md5 Lemmas.DigestLen.md5_bytes s b salt rounds hb hsalt

/-- a text secret that cannot be encoded (lone surrogate) is a ValueError, whatever the settings -/
theorem phpass_refuses_unencodable (md5 : Bytes → Bytes) (s : Secret) (e : ErrKind) (salt : List Nat) (rounds : Nat)
    (hb : s.toBytes = .error e) : phpassCalcChecksum md5 salt rounds s = .error e := by
  unfold phpassCalcChecksum; rw [hb]; rfl

/-- `self.salt.encode("ascii")` fails on a non-ASCII salt -/
theorem phpass_refuses_non_ascii_salt (md5 : Bytes → Bytes) (s : Secret) (b : Bytes) (salt : List Nat) (rounds c : Nat)
    (hb : s.toBytes = .ok b) (hc : c ∈ salt) (h : 128 ≤ c) : phpassCalcChecksum md5 salt rounds s = .error .valueError := by
  unfold phpassCalcChecksum; rw [hb, encodeAscii_err salt c hc h]; rfl

/-- the only errors are those two -/
theorem phpass_total (md5 : Bytes → Bytes) (s : Secret) (salt : List Nat) (rounds : Nat) (e : ErrKind)
    (h : phpassCalcChecksum md5 salt rounds s = .error e) :
    s.toBytes = .error e ∨ (e = .valueError ∧ ∃ c ∈ salt, 128 ≤ c) := by
  cases hb : s.toBytes with
  | error e' => left; rw [phpass_refuses_unencodable md5 s e' salt rounds hb] at h; cases h; rfl
  | ok b =>
    right
    by_cases hs : ∀ c ∈ salt, c < 128
    · unfold phpassCalcChecksum at h; rw [hb, encodeAscii_ok salt hs] at h; cases h
    · have hs' : ∃ c ∈ salt, 128 ≤ c := by
        apply Classical.byContradiction
        intro hn
        exact hs (fun c hc => Nat.lt_of_not_le (fun hle => hn ⟨c, hc, hle⟩))
      obtain ⟨c, hc, hle⟩ := hs'
      rw [phpass_refuses_non_ascii_salt md5 s b salt rounds c hb hc hle] at h
      cases h
      exact ⟨rfl, c, hc, hle⟩

/-! ### mysql323 -/

/-- `mysql323._calc_checksum` = MySQL `hash_password` (OLD_PASSWORD): every secret of any length — the Python-int loop with its
    masks is the 32-bit register arithmetic, blanks and tabs are skipped, 2 × 31 bits are printed -/
theorem mysql323_eq_spec (s : Secret) (b : Bytes) (hb : s.toBytes = .ok b) :
    mysql323CalcChecksum s = .ok (Spec.Formats.mysql323 b) := by
  unfold mysql323CalcChecksum
  rw [hb]
  simp only [bind, Except.bind, pure, Except.pure]
  have h := mysql323_bytes b
  simp only at h
  rw [← h]

theorem mysql323_refuses_unencodable (s : Secret) (e : ErrKind) (hb : s.toBytes = .error e) :
    mysql323CalcChecksum s = .error e := by
  unfold mysql323CalcChecksum; rw [hb]; rfl

/-! ### mysql41 -/

theorem mysql41_eq_spec_gen (sha1 : Bytes → Bytes) (hwf : ∀ x, Bytes.WF (sha1 x)) (s : Secret) (b : Bytes) (hb : s.toBytes = .ok b) :
    mysql41CalcChecksum sha1 s = .ok (Spec.Formats.hexUpper (sha1 (sha1 b))) := by
  unfold mysql41CalcChecksum
  rw [hb]
  simp only [bind, Except.bind, pure, Except.pure]
  rw [upperHex_eq _ (hwf _)]

/-- `mysql41._calc_checksum` = upper-case hex of SHA1(SHA1(password)), every secret -/
theorem mysql41_eq_spec (s : Secret) (b : Bytes) (hb : s.toBytes = .ok b) :
    mysql41CalcChecksum Spec.SHA1.sha1 s = .ok (Spec.Formats.mysql41 b) :=
  mysql41_eq_spec_gen Spec.SHA1.sha1 sha1_bytes s b hb

theorem mysql41_refuses_unencodable (sha1 : Bytes → Bytes) (s : Secret) (e : ErrKind) (hb : s.toBytes = .error e) :
    mysql41CalcChecksum sha1 s = .error e := by
  unfold mysql41CalcChecksum; rw [hb]; rfl

/-! ### sha1_crypt -/

theorem sha1_crypt_eq_spec_gen (sha1 : Bytes → Bytes) (hH : HashOK sha1 20) (s : Secret) (b : Bytes) (salt : List Nat) (rounds : Nat)
    (hs : SecretWF s) (hb : s.toBytes = .ok b) (hnul : 0 ∉ b) (hsalt : ∀ c ∈ salt, c < 128) (hr : 1 ≤ rounds) :
    sha1CryptCalcChecksumBuiltin sha1 salt rounds s =
      .ok (Spec.Formats.sha1CryptEncode (Spec.Formats.iterate (Spec.Hmac.hmac sha1 64 b) (rounds - 1)
        (Spec.Hmac.hmac sha1 64 b (salt ++ Spec.Formats.ascii "$sha1$" ++ Spec.Formats.decimal rounds)))) := by
  have hbw := toBytes_wf s b hs hb
  have hseed : ∀ c ∈ salt ++ SHA1_MAGIC ++ pyStr rounds, c < 128 := by
    intro c hc
    rcases List.mem_append.1 hc with h | h
    · rcases List.mem_append.1 h with h | h
      · exact hsalt c h
      · exact sha1_magic_ascii c h
    · exact pyStr_ascii rounds c h
  unfold sha1CryptCalcChecksumBuiltin
  rw [hb]
  simp only [bind, Except.bind, hnul, if_false, pure, Except.pure, encodeAscii_ok _ hseed]
  rw [sha1Chain_eq sha1 hH b hbw salt rounds hr]
  have hm := hmac_hashOK sha1 20 hH b
  exact sha1Encode_eq _ (iterate_length _ 20 (fun x => (hm x).1) _ _ (hm _).1) (iterate_wf _ (fun x => (hm x).2) _ _ (hm _).2)

/-- `sha1_crypt._calc_checksum_builtin` = NetBSD `__crypt_sha1`: every NUL-free secret (text or bytes, any length — keys shorter,
    equal and longer than the HMAC block), every ASCII salt (the handler admits 0 … 64 hash64 characters), every `rounds ≥ 1` -/
theorem sha1_crypt_eq_spec (s : Secret) (b : Bytes) (salt : List Nat) (rounds : Nat)
    (hs : SecretWF s) (hb : s.toBytes = .ok b) (hnul : 0 ∉ b) (hsalt : ∀ c ∈ salt, c < 128) (hr : 1 ≤ rounds) :
    sha1CryptCalcChecksumBuiltin Spec.SHA1.sha1 salt rounds s = .ok (Spec.Formats.sha1Crypt b salt rounds) :=
  sha1_crypt_eq_spec_gen Spec.SHA1.sha1 hashOK_sha1 s b salt rounds hs hb hnul hsalt hr

/-- `if _BNULL in secret: raise NullPasswordError` — before anything else is looked at -/
theorem sha1_crypt_refuses_nul (sha1 : Bytes → Bytes) (s : Secret) (b : Bytes) (salt : List Nat) (rounds : Nat)
    (hb : s.toBytes = .ok b) (hnul : 0 ∈ b) : sha1CryptCalcChecksumBuiltin sha1 salt rounds s = .error .nullError := by
  unfold sha1CryptCalcChecksumBuiltin
  rw [hb]
  simp only [bind, Except.bind, hnul, if_true]
  rfl

theorem sha1_crypt_refuses_unencodable (sha1 : Bytes → Bytes) (s : Secret) (e : ErrKind) (salt : List Nat) (rounds : Nat)
    (hb : s.toBytes = .error e) : sha1CryptCalcChecksumBuiltin sha1 salt rounds s = .error e := by
  unfold sha1CryptCalcChecksumBuiltin; rw [hb]; rfl

theorem sha1_crypt_refuses_non_ascii_salt (sha1 : Bytes → Bytes) (s : Secret) (b : Bytes) (salt : List Nat) (rounds c : Nat)
    (hb : s.toBytes = .ok b) (hnul : 0 ∉ b) (hc : c ∈ salt) (h : 128 ≤ c) :
    sha1CryptCalcChecksumBuiltin sha1 salt rounds s = .error .valueError := by
  unfold sha1CryptCalcChecksumBuiltin
  rw [hb]
  simp only [bind, Except.bind, hnul, if_false, pure, Except.pure]
  rw [encodeAscii_err _ c (by simp [hc]) h]

/-- outside the admitted costs: with `rounds = 0` the loop body never runs and the SEED is what gets transposed — an IndexError
    when it is shorter than 20 characters (the handler's `min_rounds = 1` keeps this out of reach) -/
theorem sha1_crypt_zero_rounds_short_seed (sha1 : Bytes → Bytes) (s : Secret) (b : Bytes) (salt : List Nat)
    (hb : s.toBytes = .ok b) (hnul : 0 ∉ b) (hsalt : ∀ c ∈ salt, c < 128) (hlen : salt.length < 13) :
    sha1CryptCalcChecksumBuiltin sha1 salt 0 s = .error .indexError := by
  have hseed : ∀ c ∈ salt ++ SHA1_MAGIC ++ pyStr 0, c < 128 := by
    intro c hc
    rcases List.mem_append.1 hc with h | h
    · rcases List.mem_append.1 h with h | h
      · exact hsalt c h
      · exact sha1_magic_ascii c h
    · exact pyStr_ascii 0 c h
  unfold sha1CryptCalcChecksumBuiltin
  rw [hb]
  simp only [bind, Except.bind, hnul, if_false, pure, Except.pure, encodeAscii_ok _ hseed, forRange]
  unfold Model.B64.encodeTransposed Model.B64.transpose
  have h19 : (salt ++ SHA1_MAGIC ++ pyStr 0)[19]? = none := by
    apply List.getElem?_eq_none
    have : (pyStr 0).length = 1 := by decide
    simp only [List.length_append, this, SHA1_MAGIC, List.length_cons, List.length_nil]
    omega
  have hmem : 19 ∈ Gen.B64.sha1_chk_offsets := by decide
  have : Gen.B64.sha1_chk_offsets.mapM (fun off => (salt ++ SHA1_MAGIC ++ pyStr 0)[off]?) = none := by
    generalize (salt ++ SHA1_MAGIC ++ pyStr 0) = seed at h19
    simp only [Gen.B64.sha1_chk_offsets, List.mapM_cons, h19]
    simp
  rw [this]

/-! ### fshp -/

/-- the four variants, with the digests of the specification -/
abbrev fshpCode := fshpCalcChecksum Spec.SHA1.sha1 Spec.SHA256.sha256 Spec.SHA512.sha384 Spec.SHA512.sha512

theorem fshp_variant_info (v : Nat) (hv : v < 4) : ∃ H size,
    fshpVariantInfo Spec.SHA1.sha1 Spec.SHA256.sha256 Spec.SHA512.sha384 Spec.SHA512.sha512 v = some (H, size) ∧
    Spec.Formats.fshpHash v = some H ∧ HashOK H size := by
  match v, hv with
  | 0, _ => exact ⟨_, _, rfl, rfl, hashOK_sha1⟩
  | 1, _ => exact ⟨_, _, rfl, rfl, hashOK_sha256⟩
  | 2, _ => exact ⟨_, _, rfl, rfl, hashOK_sha384⟩
  | 3, _ => exact ⟨_, _, rfl, rfl, hashOK_sha512⟩

/-- `fshp._calc_checksum` returns the key of B. D. Demir's `fshp.py` — the salt hashed BEFORE the password (pbkdf1 is called with
    the two swapped), then `rounds - 1` re-hashes — and `to_string` prints base64(salt ‖ key): together the data part of the
    specification.  Every variant 0 … 3, every secret, every salt (any octets, any length), every `rounds ≥ 1`. -/
theorem fshp_eq_spec (v : Nat) (hv : v < 4) (s : Secret) (b salt : Bytes) (rounds : Nat) (hb : s.toBytes = .ok b) (hr : 1 ≤ rounds) :
    ∃ key, fshpCode v salt rounds s = .ok key ∧ Spec.Formats.fshp v b salt rounds = some (fshpData salt key) := by
  obtain ⟨H, size, hinfo, hspec, hok⟩ := fshp_variant_info v hv
  refine ⟨Spec.Formats.iterate H (rounds - 1) (H (salt ++ b)), ?_, ?_⟩
  · unfold fshpCode fshpCalcChecksum
    rw [hb]
    simp only [bind, Except.bind, hinfo]
    exact fshp_core H size hok salt b rounds hr
  · unfold Spec.Formats.fshp
    have hr0 : rounds ≠ 0 := by omega
    simp [hspec, hr0, fshpData, Spec.Formats.b64]

/-- the key has the variant's `checksum_size` -/
theorem fshp_key_size (v : Nat) (hv : v < 4) (s : Secret) (b salt : Bytes) (rounds : Nat) (hb : s.toBytes = .ok b) (hr : 1 ≤ rounds)
    (key : Bytes) (h : fshpCode v salt rounds s = .ok key) : key.length = Lemmas.C01MiscDigest.fshpSize v ∧ Bytes.WF key := by
  obtain ⟨H, size, hinfo, hspec, hok⟩ := fshp_variant_info v hv
  unfold fshpCode fshpCalcChecksum at h
  rw [hb] at h
  simp only [bind, Except.bind, hinfo] at h
  rw [fshp_core H size hok salt b rounds hr] at h
  cases h
  have hl := iterate_length H size (fun x => (hok x).1) (rounds - 1) _ (hok (salt ++ b)).1
  have hw := iterate_wf H (fun x => (hok x).2) (rounds - 1) _ (hok (salt ++ b)).2
  refine ⟨?_, hw⟩
  rw [hl]
  match v, hv with
  | 0, _ => cases hinfo; rfl
  | 1, _ => cases hinfo; rfl
  | 2, _ => cases hinfo; rfl
  | 3, _ => cases hinfo; rfl

/-- `pbkdf1` refuses `rounds < 1` -/
theorem fshp_refuses_zero_rounds (v : Nat) (hv : v < 4) (s : Secret) (b salt : Bytes) (hb : s.toBytes = .ok b) :
    fshpCode v salt 0 s = .error .valueError := by
  obtain ⟨H, size, hinfo, -, -⟩ := fshp_variant_info v hv
  unfold fshpCode fshpCalcChecksum
  rw [hb]
  simp only [bind, Except.bind, hinfo]
  rfl

/-- `_variant_info[self.variant]` for an unknown variant -/
theorem fshp_unknown_variant (v : Nat) (hv : 4 ≤ v) (s : Secret) (b salt : Bytes) (rounds : Nat) (hb : s.toBytes = .ok b) :
    fshpCode v salt rounds s = .error .keyError := by
  unfold fshpCode fshpCalcChecksum
  rw [hb]
  have : fshpVariantInfo Spec.SHA1.sha1 Spec.SHA256.sha256 Spec.SHA512.sha384 Spec.SHA512.sha512 v = none := by
    match v, hv with
    | n + 4, _ => rfl
  simp only [bind, Except.bind, this]
  rfl

theorem fshp_refuses_unencodable (v : Nat) (s : Secret) (e : ErrKind) (salt : Bytes) (rounds : Nat) (hb : s.toBytes = .error e) :
    fshpCode v salt rounds s = .error e := by
  unfold fshpCode fshpCalcChecksum; rw [hb]; rfl

/-! ### cisco_pix / cisco_asa -/

theorem cisco_pix_eq_spec_gen (md5 : Bytes → Bytes) (hH : HashOK md5 16) (useDefaults : Bool) (user : Option Secret) (ub : Bytes)
    (s : Secret) (b : Bytes) (hb : s.toBytes = .ok b) (hu : UserIs user ub) (hlen : b.length ≤ 16) :
    ciscoCalcChecksum md5 false 16 useDefaults user s = .ok (Spec.Formats.h64le ((List.range 16).filterMap fun i =>
      if i % 4 = 3 then none else some ((md5 (((b ++ Spec.Formats.ciscoUser4 ub) ++ List.replicate 16 0).take 16)).getD i 0))) := by
  unfold ciscoCalcChecksum ciscoSpoil
  rw [hb]
  have h1 : ¬ b.length > 16 := by omega
  simp only [bind, Except.bind, h1, if_false, appendUser_eq false user ub b hu, pure, Except.pure, Bool.not_false, Bool.true_or,
    if_true, Bool.false_and, Bool.false_eq_true, rightPad_eq]
  rw [ciscoEncode_eq md5 hH]

/-- `cisco_pix._calc_checksum` = the published PIX algorithm: every secret of at most 16 bytes (text or bytes, any byte values),
    every user (none, empty, 1 … 3 bytes repeated, longer ones cut to 4), under `hash` and under `verify` alike -/
theorem cisco_pix_eq_spec (useDefaults : Bool) (user : Option Secret) (ub : Bytes) (s : Secret) (b : Bytes)
    (hb : s.toBytes = .ok b) (hu : UserIs user ub) (hlen : b.length ≤ 16) :
    ciscoCalcChecksum Spec.MD5.md5 false 16 useDefaults user s = .ok (Spec.Formats.ciscoPix b ub) :=
  cisco_pix_eq_spec_gen Spec.MD5.md5 hashOK_md5 useDefaults user ub s b hb hu hlen

theorem cisco_asa_eq_spec_gen (md5 : Bytes → Bytes) (hH : HashOK md5 16) (useDefaults : Bool) (user : Option Secret) (ub : Bytes)
    (s : Secret) (b : Bytes) (hb : s.toBytes = .ok b) (hu : UserIs user ub) (hlen : b.length ≤ 32) :
    ciscoCalcChecksum md5 true 32 useDefaults user s =
      .ok (let s := if b.length ≥ 28 then b else b ++ Spec.Formats.ciscoUser4 ub
           let n := if s.length > 16 then 32 else 16
           Spec.Formats.h64le ((List.range 16).filterMap fun i =>
             if i % 4 = 3 then none else some ((md5 ((s ++ List.replicate n 0).take n)).getD i 0))) := by
  unfold ciscoCalcChecksum ciscoSpoil
  rw [hb]
  have h1 : ¬ b.length > 32 := by omega
  simp only [bind, Except.bind, h1, if_false, appendUser_eq true user ub b hu, pure, Except.pure, Bool.not_true, Bool.false_or,
    Bool.true_and, rightPad_eq, decide_eq_true_eq]
  rw [ciscoEncode_eq md5 hH]
  by_cases h28 : b.length < 28
  · have : ¬ b.length ≥ 28 := by omega
    simp only [h28, this, if_true, if_false]
  · have : b.length ≥ 28 := by omega
    simp only [h28, this, if_true, if_false]

/-- `cisco_asa._calc_checksum` = the published ASA algorithm: every secret of at most 32 bytes; the user name is appended below
    28 bytes only; 32-byte padding once password + user is longer than 16 bytes -/
theorem cisco_asa_eq_spec (useDefaults : Bool) (user : Option Secret) (ub : Bytes) (s : Secret) (b : Bytes)
    (hb : s.toBytes = .ok b) (hu : UserIs user ub) (hlen : b.length ≤ 32) :
    ciscoCalcChecksum Spec.MD5.md5 true 32 useDefaults user s = .ok (Spec.Formats.ciscoAsa b ub) :=
  cisco_asa_eq_spec_gen Spec.MD5.md5 hashOK_md5 useDefaults user ub s b hb hu hlen

/-- over the size limit under `hash` (`use_defaults`): PasswordSizeError, for pix and asa, whatever the user -/
theorem cisco_refuses_oversize (md5 : Bytes → Bytes) (asa : Bool) (truncateSize : Nat) (user : Option Secret) (s : Secret) (b : Bytes)
    (hb : s.toBytes = .ok b) (hlen : b.length > truncateSize) :
    ciscoCalcChecksum md5 asa truncateSize true user s = .error .sizeError := by
  unfold ciscoCalcChecksum ciscoSpoil
  rw [hb]
  simp only [bind, Except.bind, hlen, if_true]

/-- over the size limit under `verify`: no error; the digest is taken over the padded input FOLLOWED by the whole secret and
    32 bytes 0xFF ("spoiled": cannot equal the digest of any admissible secret's 16 / 32 byte input unless MD5 collides) -/
theorem cisco_oversize_verify_spoiled (md5 : Bytes → Bytes) (asa : Bool) (truncateSize : Nat) (user : Option Secret) (ub : Bytes)
    (s : Secret) (b : Bytes) (hb : s.toBytes = .ok b) (hu : UserIs user ub) (hlen : b.length > truncateSize) :
    ∃ padded, ciscoCalcChecksum md5 asa truncateSize false user s =
      .ok (h64Encode (dropEveryFourth (md5 (padded ++ (b ++ List.replicate 32 255))))) ∧ (padded.length = 16 ∨ padded.length = 32) := by
  unfold ciscoCalcChecksum ciscoSpoil
  rw [hb]
  simp only [bind, Except.bind, hlen, if_true, Bool.false_eq_true, if_false, appendUser_eq asa user ub b hu, pure, Except.pure,
    DUMMY_BYTES]
  refine ⟨_, rfl, ?_⟩
  rw [rightPad_length]
  have key : ∀ c : Bool, (if c = true then 32 else 16 : Nat) = 16 ∨ (if c = true then 32 else 16 : Nat) = 32 := by
    intro c; cases c <;> simp
  exact key _

theorem cisco_refuses_unencodable (md5 : Bytes → Bytes) (asa : Bool) (t : Nat) (ud : Bool) (user : Option Secret) (s : Secret)
    (e : ErrKind) (hb : s.toBytes = .error e) : ciscoCalcChecksum md5 asa t ud user s = .error e := by
  unfold ciscoCalcChecksum; rw [hb]; rfl

/-! ### cisco_type7 -/

/-- `cisco_type7._cipher` is the published XOR stream, for every data and every offset -/
theorem cisco_type7_cipher_eq_spec (data : Bytes) (salt : Nat) :
    type7Cipher data salt = data.mapIdx fun i c => c ^^^ Spec.Formats.type7Key.getD ((i + salt) % 53) 0 :=
  type7Cipher_eq data salt

/-- `to_string` of `_calc_checksum` = the whole published string (two decimal digits of the offset, upper-case hex of the XOR
    stream): every secret, every offset the class admits (0 … 52; true up to 99) -/
theorem cisco_type7_eq_spec (s : Secret) (b : Bytes) (salt : Nat) (hs : SecretWF s) (hb : s.toBytes = .ok b) (hsalt : salt < 100) :
    (type7CalcChecksum salt s).map (type7ToString salt) = .ok (Spec.Formats.ciscoType7 b salt) := by
  unfold type7CalcChecksum type7ToString Spec.Formats.ciscoType7
  rw [hb]
  simp only [bind, Except.bind, pure, Except.pure, Except.map]
  rw [upperHex_eq _ (type7Cipher_wf b salt (toBytes_wf s b hs hb)), type7Cipher_eq, fmt02d salt hsalt]

/-- the cipher is its own inverse (`decode` uses it to decrypt) -/
theorem cisco_type7_cipher_involutive (data : Bytes) (salt : Nat) : type7Cipher (type7Cipher data salt) salt = data := by
  rw [type7Cipher_eq, type7Cipher_eq]
  apply List.ext_getElem (by simp)
  intro i h1 h2
  simp [Nat.xor_assoc]

theorem cisco_type7_refuses_unencodable (s : Secret) (e : ErrKind) (salt : Nat) (hb : s.toBytes = .error e) :
    type7CalcChecksum salt s = .error e := by
  unfold type7CalcChecksum; rw [hb]; rfl

end Props.C02CodeIter
