import PasslibVerif.Lemmas.Hotp
import PasslibVerif.Lemmas.Totp
import PasslibVerif.Lemmas.TotpKey
import PasslibVerif.Lemmas.Hmac
/-
C13 — One-time codes follow RFC 4226 / RFC 6238.
The HMAC digest is a parameter here (its equality with RFC 2104 is `hmac_eq_rfc2104` in
Props/C13Hmac.lean); truncation, rendering, counters and key decoding are proved for every
digest, digit count, period and time.
-/
namespace Props.C13
open Py Gen.Totp Model.Totp Model.TotpKey Digits

/-- dynamic truncation = RFC 4226 §5.3 DT, for every digest of at least 20 bytes -/
theorem truncation_eq_rfc4226 (digest : Bytes) (hwf : Bytes.WF digest) (hlen : 20 ≤ digest.length) :
    hotpValue digest = Spec.Hotp.dt digest := Lemmas.Hotp.hotpValue_eq_rfc digest hwf hlen

/-- the rendered token is the zero-padded decimal of `DT mod 10^digits` -/
theorem token_eq_rfc4226 (digest : Bytes) (hwf : Bytes.WF digest) (hlen : 20 ≤ digest.length) (digits : Nat) :
    (hotpValue digest).map (renderToken digits) =
      (Spec.Hotp.hotp digest digits).map (fun v => (toDigits 10 digits v).reverse) := by
  rw [truncation_eq_rfc4226 digest hwf hlen]
  unfold Spec.Hotp.hotp
  cases Spec.Hotp.dt digest with
  | none => rfl
  | some v => simp only [Option.map_some, Lemmas.Hotp.renderToken_eq]

/-- exactly `digits` decimal digits (leading zeros included), for every value -/
theorem token_shape (digits value : Nat) :
    (renderToken digits value).length = digits ∧ ∀ x ∈ renderToken digits value, x < 10 :=
  Lemmas.Hotp.renderToken_shape digits value

/-- a 31-bit value always fits 10 digits: with digits = 10 nothing is cut off -/
theorem ten_digits_lossless (v : Nat) (h : v < 2 ^ 31) : v % 10 ^ 10 = v := Nat.mod_eq_of_lt (by omega)

/-- counter = floor(time / period) -/
theorem counter_floor (t p : Int) (hp : 0 < p) :
    p * timeToCounter t p ≤ t ∧ t < p * (timeToCounter t p + 1) := Lemmas.Totp.counter_floor t p hp

theorem counter_eq_rfc6238 (t p : Int) (hp : 0 < p) : timeToCounter t p = Spec.Hotp.timeStep t p := by
  unfold timeToCounter Spec.Hotp.timeStep; exact Lemmas.Totp.fdiv_eq_ediv t p hp

/-- validity interval: start ≤ t < expire and expire − start = period -/
theorem interval (t p : Int) (hp : 0 < p) :
    let c := timeToCounter t p
    tokenStartTime c p ≤ t ∧ t < tokenExpireTime c p ∧ tokenExpireTime c p - tokenStartTime c p = p := by
  intro c
  have ⟨h1, h2⟩ := counter_floor t p hp
  simp only [tokenStartTime, tokenExpireTime, counterToTime]
  have e1 : c * p = p * c := Int.mul_comm _ _
  have e2 : (c + 1) * p = p * (c + 1) := Int.mul_comm _ _
  have e3 : p * (c + 1) = p * c + p := by rw [Int.mul_add, Int.mul_one]
  refine ⟨by rw [e1]; exact h1, by rw [e2]; exact h2, by rw [e1, e2, e3]; omega⟩

/-- the counter is packed as 8 big-endian bytes -/
theorem pack_uint64 (c : Nat) (h : c < 2 ^ 64) :
    (packUint64 c).length = 8 ∧ Bytes.WF (packUint64 c) ∧ ofDigits 256 (packUint64 c).reverse = c := by
  unfold packUint64
  refine ⟨by simp [toDigits_length], ?_, ?_⟩
  · intro b hb; exact toDigits_lt 256 (by decide) 8 c b (List.mem_reverse.1 hb)
  · rw [List.reverse_reverse]; exact ofDigits_toDigits 256 (by decide) 8 c (by simpa using h)

/-- the keyed MAC passlib compiles for the key is RFC 2104 HMAC (any digest, any key length) -/
theorem hmac_eq_rfc2104 (H : Bytes → Bytes) (B D : Nat) (hH : ∀ x, Bytes.WF (H x) ∧ (H x).length = D)
    (key msg : Bytes) (hk : Bytes.WF key) :
    Model.Hmac.compileHmac H B D key msg = Spec.Hmac.hmac H B key msg := Lemmas.Hmac.hmac_eq_rfc2104 H B D hH key msg hk

/-! ### keys: base32 / hex / decorations denote the same key -/
theorem base32_key_roundtrip (k : Bytes) (h : Bytes.WF k) : decodeKey .base32 (base32Key k) = .ok k :=
  Lemmas.TotpKey.base32_key_roundtrip k h
theorem hex_key_roundtrip (k : Bytes) (h : Bytes.WF k) : decodeKey .hex (hexKey k) = .ok k :=
  Lemmas.TotpKey.hex_key_roundtrip k h
theorem key_formats_agree (k : Bytes) (h : Bytes.WF k) :
    decodeKey .base32 (base32Key k) = decodeKey .hex (hexKey k) := by
  rw [base32_key_roundtrip k h, hex_key_roundtrip k h]

/-- spaces, dashes, '=' (any character the cleaning pattern removes) inserted anywhere are ignored -/
theorem key_decorations (f : Fmt) (a b : List Nat) (c : Nat) (hc : c ∈ cleanRemoved) (hf : f ≠ .raw) :
    decodeKey f (a ++ c :: b) = decodeKey f (a ++ b) := Lemmas.TotpKey.decodeKey_decorated f a b c hc hf

theorem separators_removed : (32 ∈ cleanRemoved) ∧ (45 ∈ cleanRemoved) ∧ (61 ∈ cleanRemoved) :=
  ⟨Lemmas.TotpKey.clean_separators.1, Lemmas.TotpKey.clean_separators.2.1, Lemmas.TotpKey.clean_separators.2.2.1⟩

/-- lower case base32 keys and the usual typos ('8' for B, '0' for O) decode alike -/
theorem base32_lower_case (s : Bytes) : Model.B64.b32decode (s.map Lemmas.B64.lower) = Model.B64.b32decode s :=
  Lemmas.B64.b32_lower s

/-! non-vacuity: RFC 4226 appendix D, count 0: HMAC-SHA1 digest cc93cf18508d94934c64b65d8ba7667fb7cde4b0 -> 755224 -/
example : (hotpValue [0xcc,0x93,0xcf,0x18,0x50,0x8d,0x94,0x93,0x4c,0x64,0xb6,0x5d,0x8b,0xa7,0x66,0x7f,0xb7,0xcd,0xe4,0xb0]).map
    (renderToken 6) = some [7,5,5,2,2,4] := by decide
example : Spec.Hotp.hotp [0xcc,0x93,0xcf,0x18,0x50,0x8d,0x94,0x93,0x4c,0x64,0xb6,0x5d,0x8b,0xa7,0x66,0x7f,0xb7,0xcd,0xe4,0xb0] 6
    = some 755224 := by decide

end Props.C13
