import PasslibVerif.Lemmas.FormatsMisc
/-
C07 — hash strings parse and re-render without loss: the "Misc" family
  passlib:  scrypt ($scrypt$ and $7$), fshp, argon2 (format only, with a loaded backend), django_argon2, scram
  libpass:  inspect_sha_crypt, inspect_bcrypt_hash, inspect_pbkdf2_hash, inspect_phc (Argon2PHC, BcryptSHA256PHCV2)

Per format:
  R1   parse(render x) = x                         for x satisfying the explicit well-formedness predicate …WF
       (stated on the error-aware model `FormatE`: `resBind (renderE x) parseE = ok (some x)`;
        `format_roundtrip` transfers every such statement to the plain `Format` view used by the other families)
  R2   the rendered string is a fixed point of render ∘ parse (`roundtrip_stable`)
  ID   identify(render x)
  WF   parse s = x  →  the reported settings are inside the limits of the format (…Limits)
Generic ingredients proved here: CPython's lenient `binascii.a2b_base64` inverts base64 encoding
(`a2b_base64`, `b64s_roundtrip`, `ab64_roundtrip`), scanning of rendered numbers, `$`/`,`/`=` splitting.
Models: Model/Formats/Misc*.lean; tie to the code: tools/corr/formats_misc.py under `./check C07`.
-/
namespace Props.C07Misc
open Py Model.Handler Model.Formats Lemmas.FormatsMisc

/-! ### generic -/
/-- `binascii.a2b_base64(base64.b64encode(bs)) == bs` for the modelled (lenient, CPython 3.12) decoder -/
theorem a2b_base64 (bs : Bytes) (h : Bytes.WF bs) : a2b (Spec.Rfc4648.base64 bs) = some bs := Lemmas.FormatsMisc.a2b_base64 bs h
/-- `b64s_decode(b64s_encode(bs)) == bs` through the real decoder path (re-padding + a2b_base64) -/
theorem b64s_roundtrip (bs : Bytes) (h : Bytes.WF bs) : b64sDecodeB (Model.B64.b64sEncode bs) = .ok bs := b64sB_roundtrip bs h
/-- `ab64_decode(ab64_encode(bs)) == bs` -/
theorem ab64_roundtrip (bs : Bytes) (h : Bytes.WF bs) : ab64DecodeS (Model.B64.ab64Encode bs) = .ok bs := ab64S_roundtrip bs h

theorem format_roundtrip (f : FormatE) (p : Parsed) (h : resBind (f.renderE p) f.parseE = .ok (some p)) :
    f.toFormat.parse (f.toFormat.render p) = some p := toFormat_roundtrip f p h

theorem roundtrip_stable (f : FormatE) (p : Parsed) (h : resBind (f.renderE p) f.parseE = .ok (some p)) :
    ∃ s, f.renderE p = .ok s ∧ resBind (f.parseE s) (fun q => match q with | some q => f.renderE q | none => vErr) = .ok s :=
  Lemmas.FormatsMisc.roundtrip_stable f p h

/-! ### scrypt -/
theorem scrypt_parse_render (p : Parsed) (h : ScryptWF p) : resBind (scrypt.renderE p) scrypt.parseE = .ok (some p) :=
  scrypt_roundtrip p h
theorem scrypt7_parse_render (p : Parsed) (h : Scrypt7WF p) : resBind (scrypt.renderE p) scrypt.parseE = .ok (some p) :=
  scrypt7_roundtrip p h
theorem scrypt_identify_render (p : Parsed) (h : ScryptWF p ∨ Scrypt7WF p) :
    ∃ s, scrypt.renderE p = .ok s ∧ scrypt.identify s = true := Lemmas.FormatsMisc.scrypt_identify_render p h

/-- whatever `scrypt.from_string` accepts has rounds 1…31, block_size ≥ 1, parallelism ≥ 1, salt ≤ 1024 bytes, a 32-byte checksum -/
theorem scrypt_parse_wf (s : Str) (q : Parsed) (h : scrypt.parseE s = .ok (some q)) : ScryptLimits q := scrypt_parse_limits s q h

/-! ### fshp -/
theorem fshp_parse_render (p : Parsed) (h : FshpWF p) : resBind (fshp.renderE p) fshp.parseE = .ok (some p) := fshp_roundtrip p h
theorem fshp_identify_render (p : Parsed) (h : FshpWF p) : ∃ s, fshp.renderE p = .ok s ∧ fshp.identify s = true :=
  Lemmas.FormatsMisc.fshp_identify_render p h

theorem fshp_parse_wf (s : Str) (q : Parsed) (h : fshp.parseE s = .ok (some q)) : FshpLimits q := fshp_parse_limits s q h

/-! ### argon2 / django_argon2 (format only; `argon2_stub` = the code with a loaded backend, max_version 0x13) -/
theorem argon2_parse_render (p : Parsed) (h : Argon2WF p) : resBind (argon2_stub.renderE p) argon2_stub.parseE = .ok (some p) :=
  argon2_roundtrip p h
theorem django_argon2_parse_render (p : Parsed) (h : Argon2WF p) :
    resBind (django_argon2_stub.renderE p) django_argon2_stub.parseE = .ok (some p) := django_argon2_roundtrip p h
theorem argon2_identify_render (p : Parsed) (h : Argon2WF p) :
    ∃ s, argon2_stub.renderE p = .ok s ∧ argon2_stub.identify s = true ∧ django_argon2_stub.identify (DJANGO_ARGON2_PREFIX ++ s) = true :=
  Lemmas.FormatsMisc.argon2_identify_render p h

theorem argon2_parse_wf (s : Str) (q : Parsed) (h : argon2_stub.parseE s = .ok (some q)) : Argon2Limits q := argon2_parse_limits true s q h
theorem django_argon2_parse_wf (s : Str) (q : Parsed) (h : django_argon2_stub.parseE s = .ok (some q)) : Argon2Limits q :=
  django_argon2_parse_limits true s q h

/-! ### scram -/
theorem scram_parse_render (p : Parsed) (h : ScramWF p) : resBind (scram.renderE p) scram.parseE = .ok (some p) := scram_roundtrip p h
theorem scram_identify_render (p : Parsed) (h : ScramWF p) : ∃ s, scram.renderE p = .ok s ∧ scram.identify s = true :=
  Lemmas.FormatsMisc.scram_identify_render p h
theorem scram_parse_wf (s : Str) (q : Parsed) (h : scram.parseE s = .ok (some q)) : ScramLimits q := scram_parse_limits s q h
/-- the hasher's own default (sha-1, sha-256, sha-512) is covered by `ScramWF` -/
theorem scram_default_wf (r : Nat) (hr : 1 ≤ r ∧ r ≤ 4294967295) (salt d1 d2 d3 : Bytes) (hs : Bytes.WF salt ∧ salt.length ≤ 1024)
    (h1 : Bytes.WF d1) (h2 : Bytes.WF d2) (h3 : Bytes.WF d3) :
    ScramWF { ident := SCRAM_IDENT, rounds := some (r : Int), salt := some salt,
              checksum := some (scramChkEncode [SHA1, ofString "sha-256", ofString "sha-512"] [(SHA1, d1), (ofString "sha-256", d2), (ofString "sha-512", d3)]),
              extra := [("algs", ofString "sha-1,sha-256,sha-512")] } := scramWF_default r hr salt d1 d2 d3 hs h1 h2 h3

/-! ### libpass inspectors:  inspect(info.as_str()) = info -/
theorem lp_sha256_inspect_as_str (p : Parsed) (h : LpShaWF (ofString "$5$") 43 p) :
    resBind (lp_sha256.renderE p) lp_sha256.parseE = .ok (some p) := lp_sha_roundtrip 53 43 p h
theorem lp_sha512_inspect_as_str (p : Parsed) (h : LpShaWF (ofString "$6$") 86 p) :
    resBind (lp_sha512.renderE p) lp_sha512.parseE = .ok (some p) := lp_sha_roundtrip 54 86 p h
theorem lp_bcrypt_inspect_as_str (p : Parsed) (h : LpBcryptWF p) : resBind (lp_bcrypt.renderE p) lp_bcrypt.parseE = .ok (some p) :=
  lp_bcrypt_roundtrip p h
theorem lp_pbkdf2_sha256_inspect_as_str (p : Parsed) (h : LpPbkdf2WF (ofString "pbkdf2-sha256") p) :
    resBind (lp_pbkdf2_sha256.renderE p) lp_pbkdf2_sha256.parseE = .ok (some p) := lp_pbkdf2_sha256_roundtrip p h
theorem lp_pbkdf2_sha512_inspect_as_str (p : Parsed) (h : LpPbkdf2WF (ofString "pbkdf2-sha512") p) :
    resBind (lp_pbkdf2_sha512.renderE p) lp_pbkdf2_sha512.parseE = .ok (some p) := lp_pbkdf2_sha512_roundtrip p h
theorem lp_phc_argon2_inspect_as_str (p : Parsed) (h : LpPhcArgon2WF p) :
    resBind (lp_phc_argon2.renderE p) lp_phc_argon2.parseE = .ok (some p) := lp_phc_argon2_roundtrip p h
theorem lp_phc_bcrypt_sha256_inspect_as_str (p : Parsed) (h : LpPhcBcryptSha256WF p) :
    resBind (lp_phc_bcrypt_sha256.renderE p) lp_phc_bcrypt_sha256.parseE = .ok (some p) := lp_phc_bcrypt_sha256_roundtrip p h

/-! ### non-vacuity: concrete strings parse -/
example : (scrypt.toFormat.parse (ofString "$scrypt$ln=8,r=8,p=1$WKs1xljLudd6z9kg5FTq3Q$yCcNcpJR4RiZCjqtiHCRd0R2xvq4M5xO9H1/7g5qZuc")).map (·.rounds) = some (some 8) := by decide +kernel
example : (scrypt.toFormat.parse (ofString "$7$C6..../....SodiumChloride$kBGj9fHznVYFQMEn/qDCfrDevf9YDtcDdKvEqHJLV8D")).map (·.extra) = some (scryptExtra 8 1) := by decide +kernel
example : (fshp.toFormat.parse (ofString "{FSHP1|0|1}AAAAAAAAAAAAAAAAAAAAAAAAAAAAAAAAAAAAAAAAAAA=")).map (·.rounds) = some (some 1) := by decide +kernel
example : (argon2_stub.toFormat.parse (ofString "$argon2i$v=19$m=512,t=2,p=2$5VtWOO3cGWYQHEMaYGbsfQ$AcmqasQgW/wI6wAHAMk4aQ")).map (·.rounds) = some (some 2) := by decide +kernel
example : argon2.parseE (ofString "$argon2i$v=19$m=512,t=2,p=2$5VtWOO3cGWYQHEMaYGbsfQ$AcmqasQgW/wI6wAHAMk4aQ") = .error .missingBackend := by decide +kernel
example : (django_argon2_stub.toFormat.parse (ofString "argon2$argon2i$m=512,t=2,p=2$5VtWOO3cGWYQHEMaYGbsfQ$AcmqasQgW/wI6wAHAMk4aQ")).map (·.extra.take 2) = some [("type", ofString "i"), ("version", [16])] := by decide +kernel
example : (scram.toFormat.parse (ofString "$scram$6400$c2FsdA$sha-256=AAAB,sha-1=AAAA")).map (·.extra) = some [("algs", ofString "sha-1,sha-256")] := by decide +kernel
example : (lp_sha256.toFormat.parse (ofString "$5$rounds=5000$abc$0123456789012345678901234567890123456789012")).map (·.rounds) = some (some 5000) := by decide +kernel
example : (lp_sha512.toFormat.parse (ofString "$6$abc$01234567890123456789012345678901234567890120123456789012345678901234567890123456789012")).map (·.rounds) = some none := by decide +kernel
example : (lp_bcrypt.toFormat.parse (ofString "$2b$12$abcdefghijklmnopqrstuu0123456789012345678901234567890")).map (·.rounds) = some (some 12) := by decide +kernel
example : (lp_pbkdf2_sha256.toFormat.parse (ofString "$pbkdf2-sha256$1000$v7BLXAez2TI$HENDyP2Vf/dRMmcdeY0bZ9qnUJm3J6a.3xe1iPlt3Dg")).map (·.rounds) = some (some 1000) := by decide +kernel
example : (lp_phc_argon2.toFormat.parse (ofString "$argon2id$v=19$m=65536,t=3,p=4$c29tZXNhbHRzb21lc2FsdA$AcmqasQgW/wI6wAHAMk4aQ")).map (·.extra.length) = some 3 := by decide +kernel
example : (lp_phc_bcrypt_sha256.toFormat.parse (ofString "$bcrypt-sha256$v=2,t=2b,r=4$/vA2nrnSOqPYkI5hvvXaS.$Kf.zvUf1gDawJP6jX2Y/LTLb6P4hKBK")).map (·.extra.length) = some 3 := by decide +kernel
/-- the libpass PHC inspector answers None on a record that lacks a declared parameter (it let a KeyError escape before the `fix:` commit) -/
example : lp_phc_argon2.parseE (ofString "$argon2id$v=19$m=65536,t=3$c29tZXNhbHRzb21lc2FsdA$AcmqasQgW/wI6wAHAMk4aQ") = .ok none := by decide +kernel
/-- scram: an empty alg name is a value error (it reached `assert name` inside passlib.crypto.digest.lookup_hash before the `fix:` commit) -/
example : scram.parseE (ofString "$scram$6400$c2FsdA$=AAAA,sha-1=AAAA") = .error .unknownHash := by decide +kernel

/-! ### libpass ↔ passlib: the two sha256-crypt parsers accept different strings (model-level witnesses; the
    complete list of concrete disagreements, also for bcrypt / pbkdf2 / argon2 / bcrypt-sha256, is in the C07 notes) -/
def H43 : Str := ofString "0123456789012345678901234567890123456789012"
/-- rounds below passlib's minimum: libpass accepts, passlib raises -/
example : (lp_sha256.toFormat.parse (ofString "$5$rounds=999$abc$" ++ H43)).isSome = true ∧ sha256_crypt.parse (ofString "$5$rounds=999$abc$" ++ H43) = none := by decide +kernel
/-- zero-padded rounds -/
example : (lp_sha256.toFormat.parse (ofString "$5$rounds=05000$abc$" ++ H43)).isSome = true ∧ sha256_crypt.parse (ofString "$5$rounds=05000$abc$" ++ H43) = none := by decide +kernel
/-- salt characters outside ./0-9A-Za-z -/
example : (lp_sha256.toFormat.parse (ofString "$5$a!c$" ++ H43)).isSome = true ∧ sha256_crypt.parse (ofString "$5$a!c$" ++ H43) = none := by decide +kernel
/-- empty salt: passlib accepts, libpass returns None -/
example : lp_sha256.toFormat.parse (ofString "$5$$" ++ H43) = none ∧ (sha256_crypt.parse (ofString "$5$$" ++ H43)).isSome = true := by decide +kernel
/-- config strings (no checksum): passlib accepts, libpass returns None -/
example : lp_sha256.toFormat.parse (ofString "$5$rounds=5000$abc") = none ∧ (sha256_crypt.parse (ofString "$5$rounds=5000$abc")).isSome = true := by decide +kernel
/-- both accept, but read different settings: `int()` takes "1_000", `\d+` does not, so libpass sees a 16-character salt -/
example : (lp_sha256.toFormat.parse (ofString "$5$rounds=1_000$abc$" ++ H43)).map (fun p => (p.rounds, p.salt)) = some (none, some (ofString "rounds=1_000$abc")) ∧
    (sha256_crypt.parse (ofString "$5$rounds=1_000$abc$" ++ H43)).map (fun p => (p.rounds, p.salt)) = some (some 1000, some (ofString "abc")) := by decide +kernel

end Props.C07Misc
