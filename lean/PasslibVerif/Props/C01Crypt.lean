import PasslibVerif.Props.C01
import PasslibVerif.Model.VerifyCrypt
import PasslibVerif.Props.C02
import PasslibVerif.Lemmas.FormatsMd5Sha2
/-
C01 instantiated end to end for md5_crypt / apr_md5_crypt / sha256_crypt / sha512_crypt: the hasher assembled from the C07 model of
`from_string` / `to_string` and the C02 model of the pure-Python checksum code (over the FIPS / RFC digest transcriptions) verifies
every secret against the hash made from it — every secret `hash` accepts, every salt over the hash64 alphabet up to the format's
size, every admissible rounds value.
-/
namespace Props.C01Crypt
open Py Model.Handler Model.Formats Model.Verify Model.ShaCrypt Model.VerifyCrypt Lemmas.Formats Props.C01

theorem h64_eq_itoa64 : h64 = Spec.ShaCrypt.itoa64 := by decide

theorem emit_length (w n : Nat) : (Spec.ShaCrypt.emit w n).length = n := by
  induction n generalizing w with
  | zero => rfl
  | succ n ih => simp [Spec.ShaCrypt.emit, ih]

theorem emit_allIn (w n : Nat) : allIn h64 (Spec.ShaCrypt.emit w n) = true := by
  induction n generalizing w with
  | zero => rfl
  | succ n ih =>
    simp only [Spec.ShaCrypt.emit, allIn, List.all_cons, Bool.and_eq_true]
    refine ⟨?_, ih _⟩
    rw [h64_eq_itoa64]
    have hlt : w % 64 < 64 := Nat.mod_lt _ (by decide)
    generalize w % 64 = k at hlt
    have : ∀ k, k < 64 → Spec.ShaCrypt.itoa64.contains (Spec.ShaCrypt.itoa64.getD k 0) = true := by decide
    exact this k hlt

theorem allIn_append (cs : List Nat) (a b : Str) : allIn cs (a ++ b) = (allIn cs a && allIn cs b) := by
  simp [allIn, List.all_append]

theorem b64From24_ok (a b c n : Nat) :
    allIn h64 (Spec.ShaCrypt.b64From24 a b c n) = true ∧ (Spec.ShaCrypt.b64From24 a b c n).length = n :=
  ⟨emit_allIn _ _, emit_length _ _⟩

theorem md5_encode_ok (r : Nat → Nat) : allIn h64 (Spec.Md5Crypt.encode r) = true ∧ (Spec.Md5Crypt.encode r).length = 22 := by
  unfold Spec.Md5Crypt.encode Spec.Md5Crypt.order
  simp only [List.map_cons, List.map_nil, List.flatten_cons, List.flatten_nil, List.append_nil, allIn_append, List.length_append,
    (b64From24_ok _ _ _ _).1, (b64From24_ok _ _ _ _).2, Bool.and_self]
  exact ⟨trivial, trivial⟩

theorem encode256_ok (r : Nat → Nat) : allIn h64 (Spec.ShaCrypt.encode256 r) = true ∧ (Spec.ShaCrypt.encode256 r).length = 43 := by
  unfold Spec.ShaCrypt.encode256 Spec.ShaCrypt.order256
  simp only [List.map_cons, List.map_nil, List.flatten_cons, List.flatten_nil, List.append_nil, allIn_append, List.length_append,
    (b64From24_ok _ _ _ _).1, (b64From24_ok _ _ _ _).2, Bool.and_self]
  exact ⟨trivial, trivial⟩

theorem encode512_ok (r : Nat → Nat) : allIn h64 (Spec.ShaCrypt.encode512 r) = true ∧ (Spec.ShaCrypt.encode512 r).length = 86 := by
  unfold Spec.ShaCrypt.encode512 Spec.ShaCrypt.order512
  simp only [List.map_cons, List.map_nil, List.flatten_cons, List.flatten_nil, List.append_nil, allIn_append, List.length_append,
    (b64From24_ok _ _ _ _).1, (b64From24_ok _ _ _ _).2, Bool.and_self]
  exact ⟨trivial, trivial⟩

/-! ### md5_crypt / apr_md5_crypt -/

theorem md5_roundtrips (apr : Bool) (salt : Str) (hs : allIn h64 salt = true) (hl : salt.length ≤ 8) :
    RoundTrips (md5Hasher apr) { ident := md5Ident apr, salt := some salt } := by
  intro b c hc
  simp only [md5Hasher] at hc ⊢
  rw [Props.C02.md5_crypt_eq_spec] at hc
  simp only [Except.ok.injEq] at hc
  have hok := md5_encode_ok (fun i => (Spec.Md5Crypt.digest Spec.MD5.md5 (if apr = true then Gen.ShaCrypt.aprMagic else Gen.ShaCrypt.md5Magic) b salt).getD i 0)
  simp only [Spec.Md5Crypt.md5Crypt, Option.getD_some] at hc
  rw [hc] at hok
  have := md5_parse_render (md5Ident apr) { ident := md5Ident apr, salt := some salt, checksum := some c }
    ⟨rfl, rfl, rfl, ⟨salt, rfl, hs, hl⟩, Or.inr ⟨c, rfl, hok.1, hok.2⟩⟩
  simp only [this, toRes]

/-- md5_crypt / apr_md5_crypt: whatever `hash` returns for a secret verifies True for that secret -/
theorem md5_crypt_verifies_own_hash (apr : Bool) (s : Secret) (salt hs : Str) (hsalt : allIn h64 salt = true) (hl : salt.length ≤ 8)
    (hh : hashSecret (md5Hasher apr) s { ident := md5Ident apr, salt := some salt } = .ok hs) :
    verify (md5Hasher apr) s hs = .ok true :=
  verify_own_hash _ s _ hs (md5_roundtrips apr salt hsalt hl) (fun _ _ _ => rfl) hh

/-- … and `hash` does return for every secret within the size limit, free of NUL and encodable -/
theorem md5_crypt_hash_succeeds (apr : Bool) (s : Secret) (b : Bytes) (salt : Str) (hv : s.len ≤ MAX_PASSWORD_SIZE)
    (hb : s.toBytes = .ok b) (h0 : 0 ∉ b) :
    ∃ hs, hashSecret (md5Hasher apr) s { ident := md5Ident apr, salt := some salt } = .ok hs := by
  unfold hashSecret validateSecret checksumOf checkTruncate checkNul
  have : ¬ s.len > MAX_PASSWORD_SIZE := by omega
  simp only [this, if_false, hb, md5Hasher, if_true, h0, and_false, Option.getD_some]
  rw [Props.C02.md5_crypt_eq_spec]
  exact ⟨_, rfl⟩

/-! ### sha256_crypt / sha512_crypt -/

theorem sha256_roundtrips (salt : Str) (rounds : Nat) (hs : allIn h64 salt = true) (hl : salt.length ≤ 16)
    (hr : 1000 ≤ rounds ∧ rounds ≤ 999999999) : RoundTrips sha256Hasher (sha2Settings (ofString "$5$") salt rounds) := by
  intro b c hc
  simp only [sha256Hasher, sha2Settings, Option.getD_some, Int.toNat_natCast] at hc ⊢
  rw [Props.C02.sha256_crypt_eq_spec b salt rounds (by omega)] at hc
  simp only [Except.ok.injEq, Spec.ShaCrypt.sha256Crypt] at hc
  have hok := encode256_ok (fun i => (Spec.ShaCrypt.digestC Spec.SHA256.sha256 b salt rounds).getD i 0)
  rw [hc] at hok
  have := sha2_parse_render (ofString "$5$") 43 (by decide)
    { ident := ofString "$5$", rounds := some (rounds : Int), salt := some salt, checksum := some c, extra := implicitFlag (rounds == 5000) }
    ⟨rfl, ⟨rounds, rfl, hr.1, hr.2⟩, ⟨salt, rfl, hs, hl⟩, ⟨c, rfl, hok.1, hok.2⟩, by
      by_cases h5 : rounds = 5000
      · left; subst h5; exact ⟨rfl, rfl⟩
      · right; have : (rounds == 5000) = false := by simpa using h5
        simp only [this]⟩
  simp only [this, toRes]

theorem sha512_roundtrips (salt : Str) (rounds : Nat) (hs : allIn h64 salt = true) (hl : salt.length ≤ 16)
    (hr : 1000 ≤ rounds ∧ rounds ≤ 999999999) : RoundTrips sha512Hasher (sha2Settings (ofString "$6$") salt rounds) := by
  intro b c hc
  simp only [sha512Hasher, sha2Settings, Option.getD_some, Int.toNat_natCast] at hc ⊢
  rw [Props.C02.sha512_crypt_eq_spec b salt rounds (by omega)] at hc
  simp only [Except.ok.injEq, Spec.ShaCrypt.sha512Crypt] at hc
  have hok := encode512_ok (fun i => (Spec.ShaCrypt.digestC Spec.SHA512.sha512 b salt rounds).getD i 0)
  rw [hc] at hok
  have := sha2_parse_render (ofString "$6$") 86 (by decide)
    { ident := ofString "$6$", rounds := some (rounds : Int), salt := some salt, checksum := some c, extra := implicitFlag (rounds == 5000) }
    ⟨rfl, ⟨rounds, rfl, hr.1, hr.2⟩, ⟨salt, rfl, hs, hl⟩, ⟨c, rfl, hok.1, hok.2⟩, by
      by_cases h5 : rounds = 5000
      · left; subst h5; exact ⟨rfl, rfl⟩
      · right; have : (rounds == 5000) = false := by simpa using h5
        simp only [this]⟩
  simp only [this, toRes]

/-- sha256_crypt: whatever `hash` returns verifies True for the same secret — every salt ≤ 16 hash64 characters, every rounds value -/
theorem sha256_crypt_verifies_own_hash (s : Secret) (salt hs : Str) (rounds : Nat) (hsalt : allIn h64 salt = true)
    (hl : salt.length ≤ 16) (hr : 1000 ≤ rounds ∧ rounds ≤ 999999999)
    (hh : hashSecret sha256Hasher s (sha2Settings (ofString "$5$") salt rounds) = .ok hs) : verify sha256Hasher s hs = .ok true :=
  verify_own_hash _ s _ hs (sha256_roundtrips salt rounds hsalt hl hr) (fun _ _ _ => rfl) hh

theorem sha512_crypt_verifies_own_hash (s : Secret) (salt hs : Str) (rounds : Nat) (hsalt : allIn h64 salt = true)
    (hl : salt.length ≤ 16) (hr : 1000 ≤ rounds ∧ rounds ≤ 999999999)
    (hh : hashSecret sha512Hasher s (sha2Settings (ofString "$6$") salt rounds) = .ok hs) : verify sha512Hasher s hs = .ok true :=
  verify_own_hash _ s _ hs (sha512_roundtrips salt rounds hsalt hl hr) (fun _ _ _ => rfl) hh

end Props.C01Crypt
