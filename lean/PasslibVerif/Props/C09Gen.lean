import PasslibVerif.Gen.Decisions
import PasslibVerif.Model.Rounds
import PasslibVerif.Model.UsingSalt
/-
C09 — the clamp / refuse helpers as the TRANSLATOR reads them from the source on every run (`Gen.Decisions`, produced statement by
statement by tools/pystmt2lean.py) are equal, for every argument, to the hand-written models the C09 theorems are stated about.
An edit of `norm_integer`, `_clip_to_valid_salt_size` or `_clip_to_desired_rounds` in the source changes `Gen.Decisions` and these
equalities stop checking — the hand models are tied to the code by proof, not only by pins and sampling.
-/
namespace Props.C09Gen
open Py Model.Rounds

/-- `norm_integer` as translated = `Model.Rounds.normInt` (the model of every hard-limit check) -/
theorem normInteger_eq_model (v lo : Int) (hi : Option Int) (relaxed : Bool) :
    Gen.Decisions.normInteger v lo hi relaxed = normInt lo hi v relaxed := by
  unfold Gen.Decisions.normInteger normInt eff
  cases hi with
  | none => cases relaxed <;> simp
  | some h =>
    by_cases h0 : h = 0
    · subst h0; cases relaxed <;> simp
    · cases relaxed
      · simp [h0]
      · simp only [if_true, h0, ne_eq, not_false_eq_true, true_and]
        by_cases a : v < lo
        · simp only [a, if_true]
          by_cases b : lo > h <;> simp [b]
        · simp [a]

/-- `_clip_to_desired_rounds` as translated = `Model.Rounds.clipWin` (the window clipping of generated costs) -/
theorem clipTail (mx : Option Int) (r : Int) :
    (match mx with
      | some m => if m ≠ 0 ∧ r > m then (.ok m : Res Int) else .ok r
      | none => .ok r) =
    .ok (match (match mx with | some v => if v = 0 then none else some v | none => none) with
      | some b => if r > b then b else r
      | none => r) := by
  cases mx with
  | none => rfl
  | some h =>
    by_cases h0 : h = 0
    · subst h0; simp
    · by_cases b : r > h
      · simp [h0, b]
      · simp [h0, b]

theorem clipDesiredRounds_eq_model (mn mx : Option Int) (r : Int) :
    Gen.Decisions.clipDesiredRounds mn mx r = .ok (clipWin mn mx r) := by
  unfold Gen.Decisions.clipDesiredRounds clipWin eff
  cases mn with
  | none =>
    simp only [Option.getD_none]
    by_cases a : r < 0
    · simp [a]
    · simp only [a, if_false]; exact clipTail mx r
  | some v =>
    by_cases e : v = 0
    · subst e
      simp only [Option.getD_some, ne_eq, not_true_eq_false, if_false]
      by_cases a : r < 0
      · simp [a]
      · simp only [a, if_false]; exact clipTail mx r
    · simp only [Option.getD_some, ne_eq, e, not_false_eq_true, if_true]
      by_cases a : r < v
      · simp [a]
      · simp only [a, if_false]; exact clipTail mx r

open Model.UsingSalt in
/-- `_clip_to_valid_salt_size` as translated = `Model.UsingSalt.clip` (sizes are naturals in the model, integers in the code) -/
theorem clipSaltSize_eq_model (c : SaltCls) (relaxed : Bool) (n : Int) :
    Gen.Decisions.clipSaltSize (c.minSize : Int) (c.maxSize.map Int.ofNat) relaxed n = (clip c relaxed n).map Int.ofNat := by
  have tn : ∀ v : Int, 0 ≤ v → Int.ofNat v.toNat = v := fun v hv => by simp only [Int.ofNat_eq_natCast]; exact Int.toNat_of_nonneg hv
  unfold Gen.Decisions.clipSaltSize clip mxTruthy
  cases hmx : c.maxSize with
  | none =>
    simp only [Option.map_none, reduceCtorEq, if_false]
    by_cases a : n < (c.minSize : Int)
    · cases relaxed <;> simp [a, Except.map]
    · simp only [a, if_false, Except.map]
      rw [tn n (by omega)]
  | some m =>
    simp only [Option.map_some, Option.some.injEq, Int.ofNat_eq_natCast]
    by_cases e : m = c.minSize
    · subst e
      simp only [if_true]
      by_cases a : n = (c.minSize : Int)
      · cases relaxed <;> simp [a, Except.map]
      · cases relaxed <;> simp [a, Except.map]
    · have e' : ¬ ((m : Int) = (c.minSize : Int)) := by omega
      simp only [e', e, if_false]
      cases m with
      | zero =>
        simp only [Int.natCast_zero, ne_eq, not_true_eq_false, false_and, if_false]
        by_cases a : n < (c.minSize : Int)
        · cases relaxed <;> simp [a, Except.map]
        · simp only [a, if_false, Except.map]
          rw [tn n (by omega)]
      | succ k =>
        have hk : ((k + 1 : Nat) : Int) ≠ 0 := by omega
        simp only [hk, ne_eq, not_false_eq_true, true_and]
        by_cases a : n < (c.minSize : Int)
        · cases relaxed
          · simp [a, Except.map]
          · simp only [a, if_true]
            by_cases b : (c.minSize : Int) > ((k + 1 : Nat) : Int)
            · simp only [b, if_true, Except.map, Int.ofNat_eq_natCast]
            · simp only [b, if_false, Except.map, Int.toNat_natCast, Int.ofNat_eq_natCast]
        · simp only [a, if_false]
          by_cases b : n > ((k + 1 : Nat) : Int)
          · have b' : (k : Int) + 1 < n := by push_cast at b; omega
            cases relaxed <;> simp [b', Except.map]
          · simp only [b, if_false, Except.map]
            rw [tn n (by omega)]

/-- `HasRounds._calc_needs_update` as translated = "outside the desired window, or whatever the next class in the MRO says" -/
theorem roundsNeedsUpdate_eq_model (mn mx : Option Int) (r : Int) (sup : Bool) :
    Gen.Decisions.roundsNeedsUpdate mn mx r sup = .ok (outsideWin mn mx r || sup) := by
  unfold Gen.Decisions.roundsNeedsUpdate outsideWin eff
  cases mn with
  | none =>
    cases mx with
    | none => simp
    | some b =>
      by_cases b0 : b = 0
      · subst b0; simp
      · by_cases hb : r > b <;> simp [b0, hb]
  | some a =>
    by_cases a0 : a = 0
    · subst a0
      cases mx with
      | none => simp
      | some b =>
        by_cases b0 : b = 0
        · subst b0; simp
        · by_cases hb : r > b <;> simp [b0, hb]
    · by_cases ha : r < a
      · simp [a0, ha]
      · cases mx with
        | none => simp [a0, ha]
        | some b =>
          by_cases b0 : b = 0
          · subst b0; simp [a0, ha]
          · by_cases hb : r > b <;> simp [a0, ha, b0, hb]

/-- the exact settings (scrypt block size, parallelism): a hash whose value DIFFERS from the configured one — either way — needs an
    update; otherwise the next class in the MRO decides -/
theorem exact_setting_needs_update (own conf : Int) (sup : Bool) :
    Gen.Decisions.parallelismNeedsUpdate own conf sup = .ok (decide (own ≠ conf) || sup) ∧
    Gen.Decisions.scryptNeedsUpdate own conf sup = .ok (decide (own ≠ conf) || sup) := by
  unfold Gen.Decisions.parallelismNeedsUpdate Gen.Decisions.scryptNeedsUpdate
  by_cases h : own = conf <;> simp [h]

/-- bcrypt_sha256: a hash of an OLDER version than the configured one needs an update (a newer one does not by this rule) -/
theorem bcrypt_sha256_version_needs_update (own conf : Int) (sup : Bool) :
    Gen.Decisions.bcryptSha256NeedsUpdate own conf sup = .ok (decide (own < conf) || sup) := by
  unfold Gen.Decisions.bcryptSha256NeedsUpdate
  by_cases h : own < conf <;> simp [h]

/-- the one type guard the translator met is the `isinstance` test of `norm_integer` (the model's arguments are integers by type) -/
theorem type_guards : Gen.Decisions.typeGuards = ["not isinstance(value, int)"] := by decide

end Props.C09Gen
