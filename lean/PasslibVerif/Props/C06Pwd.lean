import PasslibVerif.Lemmas.PwdGenWord
import PasslibVerif.Props.C06
/-
C06 — the password generators of passlib/pwd.py (Model.PwdGen): declared shape, uniformity (source outcomes ↔ values), requested
entropy, option resolution, `returns`, batches.  `minLen` is the float length computation `int(ceil(entropy / log2 N))` as a parameter;
the only thing assumed about it is `MinLenOK` (compared with the exact integer value on every run by tools/corr/C06.py `rng minlen` and
tools/corr/c06_pwd.py `pgen minlen`); `exactMinLen` satisfies it.
-/
namespace Props.C06Pwd
open Py Gen.Rng Model.Rng Model.PwdGen Lemmas.PwdGen

/-- the stated assumption about `int(ceil(entropy / log2 N))` -/
def MinLenOK (minLen : Nat → Nat → Nat) : Prop := ∀ N e, 2 ≤ N → 2 ^ e ≤ N ^ minLen N e

/-! ### `_ensure_unique`: the constructors REFUSE duplicates -/
theorem ensure_unique_spec {α} [DecidableEq α] (source : List α) :
    (ensureUnique source = .ok () ↔ source.Nodup) ∧ (¬ source.Nodup → ensureUnique source = .error .valueError) :=
  ⟨ensureUnique_ok_iff source, ensureUnique_error source⟩

/-- custom `chars` with a repeated symbol: ValueError, whatever the other options are -/
theorem word_generator_refuses_duplicates (minLen : Nat → Nat → Nat) (c : Nat) (cs : List Nat) (seq : SeqOpts)
    (charset : Option CharsetArg) (hcs : charsetTruthy charset = false) (hd : ¬ (c :: cs).Nodup) :
    wordInit minLen { chars := some (c :: cs), charset, seq } = .error .valueError := by
  rw [wordInit_eq]
  have : resolveChars { chars := some (c :: cs), charset, seq } = .ok (c :: cs, charset) := by
    simp [resolveChars, charsTruthy, hcs, pure, Except.pure]
  rw [this]; dsimp only
  rw [ensureUnique_error _ hd]

/-- a generator that was constructed has a non-empty duplicate-free alphabet and a positive length -/
theorem word_generator_wf {minLen : Nat → Nat → Nat} {o : WordOpts} {g : WordGen} (h : wordInit minLen o = .ok g) :
    g.chars.Nodup ∧ 1 ≤ g.chars.length ∧ 1 ≤ g.length := by
  obtain ⟨hnd, hne, st, hst, hl, _⟩ := wordInit_ok h
  refine ⟨hnd, ?_, ?_⟩
  · cases hc : g.chars with
    | nil => exact absurd hc hne
    | cons a l => simp
  · rw [hl]; exact (seqInit_cases hst).2.1

theorem named_charsets_wf : ∀ c : Charset, c.chars.Nodup ∧ 2 ≤ c.chars.length := by
  intro c; cases c <;> decide +kernel

/-! ### declared shape -/
/-- every value has exactly `length` symbols, all from `chars` — for ALL settings and all source outcomes -/
theorem word_has_declared_shape {minLen : Nat → Nat → Nat} {o : WordOpts} {g : WordGen} (h : wordInit minLen o = .ok g) (v : Nat) :
    ∃ w, wordNext g v = .ok w ∧ w.length = g.length ∧ ∀ c ∈ w, c ∈ g.chars := by
  obtain ⟨_, hN, _⟩ := word_generator_wf h
  unfold wordNext
  by_cases h2 : 2 ≤ g.chars.length
  · obtain ⟨w, hw, hl, hc⟩ := Props.C06.getrandstr_len_alphabet g.chars g.length v h2
    exact ⟨w, by rw [hw]; rfl, hl, hc⟩
  · cases hc : g.chars with
    | nil => rw [hc] at hN; simp at hN
    | cons a l =>
      cases l with
      | cons b l => rw [hc] at h2; simp at h2
      | nil =>
        rw [Props.C06.getrandstr_single_letter]
        refine ⟨_, rfl, by simp, ?_⟩
        intro c hc'; rw [List.mem_replicate] at hc'; simp [hc'.2]

/-! ### uniformity: source outcomes ↔ words -/
/-- the source is asked for exactly one outcome below `N^length` (and for nothing when the alphabet has one letter) -/
theorem word_source_demand (g : WordGen) :
    wordDemand g = if g.chars.length ≤ 1 then none else some (g.chars.length ^ g.length) := rfl

/-- injective AND surjective: distinct source outcomes below `N^length` give distinct words, and every string of `length` symbols
    of the alphabet is the answer to such an outcome -/
theorem word_generator_bijective {minLen : Nat → Nat → Nat} {o : WordOpts} {g : WordGen} (h : wordInit minLen o = .ok g)
    (h2 : 2 ≤ g.chars.length) :
    (∀ a b, a < g.chars.length ^ g.length → b < g.chars.length ^ g.length → wordNext g a = wordNext g b → a = b) ∧
    (∀ w : List Nat, w.length = g.length → (∀ c ∈ w, c ∈ g.chars) → ∃ v, v < g.chars.length ^ g.length ∧ wordNext g v = .ok w) := by
  obtain ⟨hnd, _, _⟩ := word_generator_wf h
  constructor
  · intro a b ha hb hab
    obtain ⟨wa, hwa, _⟩ := Props.C06.getrandstr_len_alphabet g.chars g.length a h2
    obtain ⟨wb, hwb, _⟩ := Props.C06.getrandstr_len_alphabet g.chars g.length b h2
    exact Props.C06.getrandstr_injective g.chars hnd h2 g.length a b ha hb (ofRes_ok_inj hwa hwb hab)
  · intro w hl hw
    obtain ⟨v, hv, hg⟩ := getrandstr_surjective g.chars h2 w hw
    rw [hl] at hv hg
    exact ⟨v, hv, by unfold wordNext; rw [hg]; rfl⟩

/-- one-letter alphabet (only reachable through `length=`): the single possible word, no randomness drawn -/
theorem word_single_symbol (g : WordGen) (c : Nat) (hc : g.chars = [c]) (v : Nat) :
    wordNext g v = .ok (List.replicate g.length c) ∧ wordDemand g = none := by
  unfold wordNext wordDemand
  rw [hc, Props.C06.getrandstr_single_letter]
  exact ⟨rfl, rfl⟩

/-! ### requested entropy, `length` / `entropy` resolution (SequenceGenerator.__init__, shared by both generators) -/
/-- the number of possible values `N^length` is at least `2^requested_entropy` -/
theorem seq_entropy_at_least_requested {minLen : Nat → Nat → Nat} (hm : MinLenOK minLen) {N : Nat} {o : SeqOpts} {st : SeqState}
    (h : seqInit minLen N o = .ok st) (e : Nat) (he : st.requestedEntropy = some e) : 2 ^ e ≤ N ^ st.length := by
  obtain ⟨_, _, hc⟩ := seqInit_cases h
  rcases hc with ⟨e', he', _, _, _, hN, hl⟩ | ⟨hn, _, _⟩
  · rw [he] at he'; cases he'
    have hge : minLen N e ≤ st.length := by
      cases hol : o.length with
      | none => rw [hol] at hl; dsimp only at hl; omega
      | some l => rw [hol] at hl; dsimp only at hl; split at hl <;> omega
    exact Nat.le_trans (hm N e hN) (Nat.pow_le_pow_right (by omega) hge)
  · rw [he] at hn; cases hn

theorem entropy_at_least_requested {minLen : Nat → Nat → Nat} (hm : MinLenOK minLen) {o : WordOpts} {g : WordGen}
    (h : wordInit minLen o = .ok g) (e : Nat) (he : g.requestedEntropy = some e) : 2 ^ e ≤ g.chars.length ^ g.length := by
  obtain ⟨_, _, st, hst, hl, hr⟩ := wordInit_ok h
  rw [hl]; exact seq_entropy_at_least_requested hm hst e (by rw [← hr]; exact he)

/-- which entropy is "requested": the argument, a preset's bits, 48 ("strong") when neither option is given — and None when only
    `length` is given (then nothing is promised) -/
theorem requested_entropy_spec {minLen : Nat → Nat → Nat} {N : Nat} {o : SeqOpts} {st : SeqState} (h : seqInit minLen N o = .ok st) :
    (o.entropy = .none → o.length = none → st.requestedEntropy = some 48) ∧
    (∀ i, o.entropy = .int i → 0 < i ∧ st.requestedEntropy = some i.toNat) ∧
    (∀ a, o.entropy = .alias a → st.requestedEntropy = some a.bits) ∧
    (∀ l, o.entropy = .none → o.length = some l → st.requestedEntropy = none ∧ (st.length : Int) = l) := by
  obtain ⟨_, _, hc⟩ := seqInit_cases h
  rcases hc with ⟨e, he, hb, hr, _, _, _⟩ | ⟨hn, hen, hl⟩
  · refine ⟨?_, ?_, ?_, ?_⟩
    · intro h1 _; rw [h1] at hr; simp only [resolveEntropy, Except.ok.injEq] at hr; rw [he, ← hr]; rfl
    · intro i h1; rw [h1] at hr; simp only [resolveEntropy] at hr
      split at hr
      · cases hr
      · simp only [Except.ok.injEq] at hr; rw [he, ← hr]; exact ⟨by omega, rfl⟩
    · intro a h1; rw [h1] at hr; simp only [resolveEntropy, Except.ok.injEq] at hr; rw [he, ← hr]
    · intro l h1 h2; rcases hb with hb | hb
      · exact absurd h1 hb
      · rw [h2] at hb; cases hb
  · refine ⟨?_, ?_, ?_, ?_⟩
    · intro _ h2; rw [h2] at hl; cases hl
    · intro i h1; rw [h1] at hen; cases hen
    · intro a h1; rw [h1] at hen; cases hen
    · intro l _ h2; rw [h2] at hl; simp only [Option.some.injEq] at hl; exact ⟨hn, hl.symm⟩

/-- both given: the LARGER of `length` and the entropy's minimum length wins (never an error, never the shorter one) -/
theorem length_and_entropy_both_given (minLen : Nat → Nat → Nat) (N : Nat) (h2 : 2 ≤ N) (e : Int) (he : 0 < e) (l : Int)
    (hpos : 1 ≤ minLen N e.toNat ∨ 1 ≤ l) :
    seqInit minLen N { entropy := .int e, length := some l } =
      .ok { length := (max l (minLen N e.toNat : Int)).toNat, requestedEntropy := some e.toNat } := by
  rw [seqInit_entropy_branch _ _ _ (Or.inl (by simp))]
  have h0 : N ≠ 0 := by omega
  have h1 : N ≠ 1 := by omega
  have hne : ¬ e ≤ 0 := by omega
  simp only [resolveEntropy, hne, if_false, minLength, h0, h1]
  by_cases hlt : l < (minLen N e.toNat : Int)
  · have : max l (minLen N e.toNat : Int) = minLen N e.toNat := by omega
    simp only [hlt, if_true, this]
    have : ¬ ((minLen N e.toNat : Int) < 1) := by omega
    simp [this]
  · have : max l (minLen N e.toNat : Int) = l := by omega
    simp only [hlt, if_false, this]
    have : ¬ (l < 1) := by omega
    simp [this]

/-! ### `__call__(returns)` -/
theorem call_returns_spec {α} (next : Src → PRes (α × Src)) (s : Src) :
    (call next .none s = (next s).map (fun p => (.one p.1, p.2))) ∧
    (∀ i : Int, call next (.int i) s = (batch next i.toNat s).map (fun p => (.many p.1, p.2))) ∧
    (∀ i : Int, i ≤ 0 → call next (.int i) s = .ok (.many [], s)) ∧
    (call next .iter s = .ok (.self, s)) ∧
    (call next .other s = .error .typeError) := by
  refine ⟨?_, ?_, ?_, rfl, rfl⟩
  · simp only [call, bind, Except.bind, pure, Except.pure, Except.map]
  · intro i; simp only [call, bind, Except.bind, pure, Except.pure, Except.map]
  · intro i hi
    have : i.toNat = 0 := by omega
    simp only [call, this, batch, bind, Except.bind, pure, Except.pure]

/-! ### batches -/
/-- `n+1` values asked at once = one single call, then `n` values asked at once on what is left of the source stream -/
theorem batch_is_successive_draws {α} (next : Src → PRes (α × Src)) (n : Nat) (s : Src) :
    batch next (n + 1) s =
      (match next s with
       | .error e => .error e
       | .ok (a, s') => match batch next n s' with
         | .error e => .error e
         | .ok (as, s'') => .ok (a :: as, s'')) := by
  simp only [batch, bind, Except.bind, pure, Except.pure]
  cases next s with
  | error e => rfl
  | ok p =>
    obtain ⟨a, s'⟩ := p
    dsimp only
    cases batch next n s' <;> rfl

/-- closed form for words: the k-th value of a batch is `__next__`'s answer to the k-th outcome of the stream, and nothing else -/
theorem word_batch_closed_form {minLen : Nat → Nat → Nat} {o : WordOpts} {g : WordGen} (h : wordInit minLen o = .ok g)
    (h2 : 2 ≤ g.chars.length) (n : Nat) (s : Src) :
    ∃ ws, batch (wordNextS g) n s = .ok (ws, { s with pos := s.pos + n }) ∧ ws.length = n ∧
      ∀ k, (hk : k < ws.length) → wordNext g (s.draw (s.pos + k)) = .ok ws[k] := by
  induction n generalizing s with
  | zero => exact ⟨[], rfl, rfl, fun k hk => absurd hk (by simp)⟩
  | succ n ih =>
    obtain ⟨w, hw, _⟩ := word_has_declared_shape h (s.draw s.pos)
    obtain ⟨ws, hb, hl, hk⟩ := ih { s with pos := s.pos + 1 }
    have hnext : wordNextS g s = .ok (w, { s with pos := s.pos + 1 }) := by
      have hgt : ¬ g.chars.length ≤ 1 := by omega
      simp only [wordNextS, hgt, if_false, Src.take, hw, bind, Except.bind, pure, Except.pure]
    refine ⟨w :: ws, ?_, by simp [hl], ?_⟩
    · rw [batch_is_successive_draws, hnext]; dsimp only; rw [hb]; dsimp only
      congr 2; simp only [Nat.add_assoc, Nat.add_comm 1 n]
    · intro k hk'
      cases k with
      | zero => simpa using hw
      | succ k =>
        have := hk k (by simpa using hk')
        simp only [List.getElem_cons_succ]
        rw [← this]; dsimp only; congr 2; omega

/-! ### the exact integer length satisfies the assumption -/
theorem exactMinLen_ok : MinLenOK exactMinLen := by
  intro N e hN
  unfold exactMinLen
  cases hf : (List.range (e + 1)).find? (fun L => decide (2 ^ e ≤ N ^ L)) with
  | some L => have := List.find?_some hf; simpa using this
  | none => simp only [Option.getD_none]; exact Nat.pow_le_pow_left hN e

/-! ### non-vacuity (values made by the real classes of /tmp/repo_clean under the table source of tools/corr/c06_pwd.py) -/
-- WordGenerator(chars="abc", entropy=10, length=2): length 7 = max(2, ceil(10 / log2 3)), requested_entropy 10
example : wordInit exactMinLen { chars := some [97, 98, 99], seq := { entropy := .int 10, length := some 2 } } =
    .ok { chars := [97, 98, 99], charset := none, length := 7, requestedEntropy := some 10 } := by decide +kernel
example : wordNext { chars := [97, 98, 99], charset := none, length := 7, requestedEntropy := some 10 } 5 = .ok [99, 98, 97, 97, 97, 97, 97] := by
  decide +kernel
-- genword() with no options: ascii_62, "strong" = 48 bits, 9 symbols
example : (wordInit exactMinLen {}).map (fun g => (g.length, g.requestedEntropy, g.charset)) =
    .ok (9, some 48, some (.named .ascii62)) := by decide +kernel
example : wordInit exactMinLen { chars := some [97, 97, 98] } = .error .valueError := by decide +kernel
example : wordInit exactMinLen { chars := some [97], seq := { length := some 3 } } =
    .ok { chars := [97], charset := none, length := 3, requestedEntropy := none } := by decide +kernel
-- one-letter alphabet through `entropy`: `entropy / log2(1)` — ZeroDivisionError in the real code as well
example : wordInit exactMinLen { chars := some [97] } = .error .zeroDivisionError := by decide +kernel
example : seqInit exactMinLen 3 { entropy := .int 10, length := some 2 } = .ok { length := 7, requestedEntropy := some 10 } := by decide +kernel
example : seqInit exactMinLen 3 { entropy := .int 10, length := some 20 } = .ok { length := 20, requestedEntropy := some 10 } := by decide +kernel

end Props.C06Pwd
