import PasslibVerif.Props.C20Pbkdf
import PasslibVerif.Props.C01Pbkdf
/-
C20 — pbkdf2-sha256 / pbkdf2-sha512: the libpass hasher and the classic passlib hasher produce THE SAME STRING for the same secret,
salt and cost (both models end to end: libpass' `PBKDF2SHAHandler.hash` over the inspector's record type, passlib's `hash()` =
C07 renderer over `pbkdf2_hmac`, both over the RFC 8018 transcription).  Hence each verifies what the other made, for every secret
within passlib's size limit, every non-empty salt of octets (up to passlib's 1024-byte salt limit) and every cost 1 … 2^32−1.
-/
namespace Props.C20PbkdfInterop
open Py Model.Handler Model.Formats Model.Verify Model.Libpass Model.VerifyFmt.Pbkdf Props.C20Pbkdf Props.C01Pbkdf Lemmas.C01Pbkdf

theorem ident256 : (lpPbkdf256 0).ident = PBKDF2_SHA256_IDENT := by decide
theorem ident512 : (lpPbkdf512 0).ident = PBKDF2_SHA512_IDENT := by decide

/-- both libraries render the same text -/
theorem same_string_sha256 (R : Nat) (b salt : Bytes) (rounds : Nat) (hlen : b.length ≤ MAX_PASSWORD_SIZE) :
    (lpPbkdf256 R).hashWith b salt rounds = hashSecret pbkdf2_sha256Hasher (.bytes b) (mc3Settings PBKDF2_SHA256_IDENT salt rounds) := by
  unfold pbkdf2_sha256Hasher
  rw [pbkdf2_hash_string Spec.Formats.algSha256 algSha256_ok PBKDF2_SHA256_IDENT (.bytes b) b salt rounds (by simpa [Secret.len] using hlen) rfl]
  rfl

theorem same_string_sha512 (R : Nat) (b salt : Bytes) (rounds : Nat) (hlen : b.length ≤ MAX_PASSWORD_SIZE) :
    (lpPbkdf512 R).hashWith b salt rounds = hashSecret pbkdf2_sha512Hasher (.bytes b) (mc3Settings PBKDF2_SHA512_IDENT salt rounds) := by
  unfold pbkdf2_sha512Hasher
  rw [pbkdf2_hash_string Spec.Formats.algSha512 algSha512_ok PBKDF2_SHA512_IDENT (.bytes b) b salt rounds (by simpa [Secret.len] using hlen) rfl]
  rfl

/-- a hash made by the libpass hasher verifies under the passlib hasher -/
theorem passlib_verifies_libpass_pbkdf2_sha256 (R : Nat) (b salt : Bytes) (rounds : Nat) (hs : Str) (hlen : b.length ≤ MAX_PASSWORD_SIZE)
    (hset : RawSettingsOK salt rounds) (hh : (lpPbkdf256 R).hashWith b salt rounds = .ok hs) :
    verify pbkdf2_sha256Hasher (.bytes b) hs = .ok true :=
  pbkdf2_sha256_verifies_own_hash (.bytes b) salt rounds hset hs (by rw [← same_string_sha256 R b salt rounds hlen]; exact hh)

theorem passlib_verifies_libpass_pbkdf2_sha512 (R : Nat) (b salt : Bytes) (rounds : Nat) (hs : Str) (hlen : b.length ≤ MAX_PASSWORD_SIZE)
    (hset : RawSettingsOK salt rounds) (hh : (lpPbkdf512 R).hashWith b salt rounds = .ok hs) :
    verify pbkdf2_sha512Hasher (.bytes b) hs = .ok true :=
  pbkdf2_sha512_verifies_own_hash (.bytes b) salt rounds hset hs (by rw [← same_string_sha512 R b salt rounds hlen]; exact hh)

/-- a hash made by the passlib hasher verifies under ANY libpass hasher of that digest (whatever its own configured cost) -/
theorem libpass_verifies_passlib_pbkdf2_sha256 (R : Nat) (b salt : Bytes) (rounds : Nat) (hs : Str) (hlen : b.length ≤ MAX_PASSWORD_SIZE)
    (hsalt : salt ≠ []) (hwf : Bytes.WF salt) (hr : rounds ≠ 0)
    (hh : hashSecret pbkdf2_sha256Hasher (.bytes b) (mc3Settings PBKDF2_SHA256_IDENT salt rounds) = .ok hs) :
    (lpPbkdf256 R).verify hs b = .ok true :=
  libpass_pbkdf2_sha256_verifies_own R b salt rounds hs hsalt hwf hr (by rw [same_string_sha256 R b salt rounds hlen]; exact hh)

theorem libpass_verifies_passlib_pbkdf2_sha512 (R : Nat) (b salt : Bytes) (rounds : Nat) (hs : Str) (hlen : b.length ≤ MAX_PASSWORD_SIZE)
    (hsalt : salt ≠ []) (hwf : Bytes.WF salt) (hr : rounds ≠ 0)
    (hh : hashSecret pbkdf2_sha512Hasher (.bytes b) (mc3Settings PBKDF2_SHA512_IDENT salt rounds) = .ok hs) :
    (lpPbkdf512 R).verify hs b = .ok true :=
  libpass_pbkdf2_sha512_verifies_own R b salt rounds hs hsalt hwf hr (by rw [same_string_sha512 R b salt rounds hlen]; exact hh)

/-- a passlib-made hash of the hasher's own cost needs no update under libpass; any other cost does -/
theorem libpass_needs_update_passlib_pbkdf2_sha256 (R : Nat) (b salt : Bytes) (rounds : Nat) (hs : Str) (hlen : b.length ≤ MAX_PASSWORD_SIZE)
    (hsalt : salt ≠ []) (hh : hashSecret pbkdf2_sha256Hasher (.bytes b) (mc3Settings PBKDF2_SHA256_IDENT salt rounds) = .ok hs) :
    (lpPbkdf256 R).needsUpdate hs = .ok (decide (rounds ≠ R)) :=
  libpass_pbkdf2_sha256_needs_update R b salt rounds hs hsalt (by rw [same_string_sha256 R b salt rounds hlen]; exact hh)

theorem libpass_needs_update_passlib_pbkdf2_sha512 (R : Nat) (b salt : Bytes) (rounds : Nat) (hs : Str) (hlen : b.length ≤ MAX_PASSWORD_SIZE)
    (hsalt : salt ≠ []) (hh : hashSecret pbkdf2_sha512Hasher (.bytes b) (mc3Settings PBKDF2_SHA512_IDENT salt rounds) = .ok hs) :
    (lpPbkdf512 R).needsUpdate hs = .ok (decide (rounds ≠ R)) :=
  libpass_pbkdf2_sha512_needs_update R b salt rounds hs hsalt (by rw [same_string_sha512 R b salt rounds hlen]; exact hh)

/- The empty salt is where the two part: libpass' `salt or self._salt()` draws a fresh random salt for an empty one (and its
   inspector's `(?P<salt>.+)` does not match an empty salt field), so a passlib hash with an empty salt is outside the interop claim —
   the property says "every non-empty salt".  That corner is exercised on the real code (cross matrix of tools/corr/C20.py). -/

/-! non-vacuity: the string both libraries make for "pw", salt "ab", cost 2 -/
example : RawSettingsOK (ofString "ab") 2 := by decide
example : hashSecret pbkdf2_sha256Hasher (.bytes (ofString "pw")) (mc3Settings PBKDF2_SHA256_IDENT (ofString "ab") 2) =
    .ok (ofString "$pbkdf2-sha256$2$YWI$xAkXXeqBnPJpY3DHQ3Dk1Mu.fHQm17FeR0d/CVU6I0M") := by decide +kernel

end Props.C20PbkdfInterop
