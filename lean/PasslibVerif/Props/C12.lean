import PasslibVerif.Lemmas.B64
import PasslibVerif.Lemmas.B64Std
import PasslibVerif.Lemmas.B64Int
/-
C12 — Binary-to-text encodings are exact inverses and match their alphabets.
Property theorems only; helper lemmas live in Lemmas/.  Everything named `Gen.B64.*`
(chunk/tail bodies, alphabets, masks, int-codec expressions, offset tables) is regenerated
from /repo on every run.
-/
namespace Props.C12
open Py Gen.B64 Model.B64 Lemmas.B64 Spec.Rfc4648

/-! ### the engines as constructed in the source -/
theorem charmaps_ok :
    CharmapOK h64.charmap ∧ CharmapOK h64big.charmap ∧ CharmapOK bcrypt64.charmap ∧ CharmapOK lpH64.charmap := by
  decide

theorem engine_constants :
    h64.big = false ∧ h64big.big = true ∧ bcrypt64.big = true ∧ lpH64.big = false ∧
    h64.charmap = HASH64_CHARS ∧ h64big.charmap = HASH64_CHARS ∧ bcrypt64.charmap = BCRYPT_CHARS ∧
    lpH64.charmap = HASH64_CHARS := by decide

/-! ### byte codecs: every byte string, every length, both bit orders -/
theorem dec6_enc6 (big : Bool) (bs : Bytes) (h : Bytes.WF bs) : dec6 big (enc6 big bs) = bs :=
  Lemmas.B64.dec6_enc6 big bs h

theorem decode_encode (e : Engine) (ok : CharmapOK e.charmap) (bs : Bytes) (h : Bytes.WF bs) :
    decodeBytes e (encodeBytes e bs) = .ok bs := Lemmas.B64.decode_encode e ok bs h

theorem decode_encode_h64 (bs : Bytes) (h : Bytes.WF bs) : decodeBytes h64 (encodeBytes h64 bs) = .ok bs :=
  Lemmas.B64.decode_encode h64 charmaps_ok.1 bs h
theorem decode_encode_h64big (bs : Bytes) (h : Bytes.WF bs) : decodeBytes h64big (encodeBytes h64big bs) = .ok bs :=
  Lemmas.B64.decode_encode h64big charmaps_ok.2.1 bs h
theorem decode_encode_bcrypt64 (bs : Bytes) (h : Bytes.WF bs) : decodeBytes bcrypt64 (encodeBytes bcrypt64 bs) = .ok bs :=
  Lemmas.B64.decode_encode bcrypt64 charmaps_ok.2.2.1 bs h

theorem encode_alphabet (e : Engine) (ok : CharmapOK e.charmap) (bs : Bytes) (h : Bytes.WF bs) :
    ∀ c ∈ encodeBytes e bs, c ∈ e.charmap := Lemmas.B64.encode_alphabet e ok bs h

/-- length = ceil(4n/3) -/
theorem encode_length (e : Engine) (bs : Bytes) : (encodeBytes e bs).length = (4 * bs.length + 2) / 3 :=
  Lemmas.B64.encode_length e bs

/-- big-endian engines are RFC 4648 base64 (values), hence standard base64 under alphabet translation -/
theorem encode_eq_rfc4648_big (e : Engine) (hb : e.big = true) (bs : Bytes) (h : Bytes.WF bs) :
    encodeBytes e bs = (groups64 bs).map (encode64 e.charmap) := by
  unfold encodeBytes; rw [hb, enc6_big_eq_rfc bs h]

/-- little-endian engines are the crypt(3) packing -/
theorem encode_eq_crypt_little (e : Engine) (hb : e.big = false) (bs : Bytes) (h : Bytes.WF bs) :
    encodeBytes e bs = (groups64le bs).map (encode64 e.charmap) := by
  unfold encodeBytes; rw [hb, enc6_little_eq_crypt bs h]

/-- libpass' copy of the encoder is the same function -/
theorem libpass_encode_eq (e : Engine) (bs : Bytes) : lpEncodeBytes e bs = encodeBytes e bs := by
  unfold lpEncodeBytes encodeBytes; rw [lpEnc6_eq]

/-! ### wrong-length / out-of-alphabet input is a value error -/
theorem decode_len1mod4_error (e : Engine) (s : Bytes) (h : s.length % 4 = 1) :
    decodeBytes e s = .error .valueError := Lemmas.B64.decode_len1mod4_error e s h

theorem decode_bad_char_error (e : Engine) (s : Bytes) (c : Nat) (hc : c ∈ s) (hf : c ∉ e.charmap) :
    decodeBytes e s = .error .valueError := Lemmas.B64.decode_bad_char_error e s c hc hf

/-! ### padding bits: ignored by decode; the canonical form is the cleared form -/
theorem decode_ignores_padding_bits (big : Bool) (vs : List Nat) (h : ∀ v ∈ vs, v < 64) :
    dec6 big (clearPad big vs) = dec6 big vs := dec6_clearPad big vs h

theorem repair_idempotent (big : Bool) (vs : List Nat) : clearPad big (clearPad big vs) = clearPad big vs :=
  clearPad_idem big vs

/-- re-encoding the decoded value gives exactly the padding-cleared string: only the unused
    bits can differ between a string and its canonical form -/
theorem canonical_form (big : Bool) (vs : List Nat) (h : ∀ v ∈ vs, v < 64) (hl : vs.length % 4 ≠ 1) :
    enc6 big (dec6 big vs) = clearPad big vs := enc6_dec6_eq_clearPad big vs h hl

theorem canonical_iff (big : Bool) (vs : List Nat) (h : ∀ v ∈ vs, v < 64) (hl : vs.length % 4 ≠ 1) :
    enc6 big (dec6 big vs) = vs ↔ clearPad big vs = vs := by
  rw [canonical_form big vs h hl]

/-! ### integer codecs -/
theorem decodeInt_encodeInt (e : Engine) (ok : CharmapOK e.charmap) (bits v : Nat) (hv : v < 2 ^ bits) :
    decodeInt e (encodeInt e v bits) bits = .ok v := Lemmas.B64.decodeInt_encodeInt e ok bits v hv

theorem int_widths : encode_int30_bits = 30 ∧ encode_int64_bits = 64 ∧ encode_int12_max + 1 = 2 ^ 12 ∧
    encode_int24_max + 1 = 2 ^ 24 ∧ encode_int30_max + 1 = 2 ^ 30 ∧ encode_int64_max + 1 = 2 ^ 64 := by decide

theorem encodeInt_range_error (e : Engine) (v : Nat) :
    (v > 63 → encodeInt6 e v = .error .valueError) ∧
    (v ≥ 2 ^ 12 → encodeInt12 e v = .error .valueError) ∧
    (v ≥ 2 ^ 24 → encodeInt24 e v = .error .valueError) ∧
    (v ≥ 2 ^ 30 → encodeInt30 e v = .error .valueError) ∧
    (v ≥ 2 ^ 64 → encodeInt64 e v = .error .valueError) := by
  refine ⟨?_, ?_, ?_, ?_, ?_⟩ <;> intro h
  · simp [encodeInt6, h]
  · have : v > encode_int12_max := by simp only [encode_int12_max]; omega
    simp [encodeInt12, this]
  · have : v > encode_int24_max := by simp only [encode_int24_max]; omega
    simp [encodeInt24, this]
  · have : v > encode_int30_max := by simp only [encode_int30_max]; omega
    simp [encodeInt30, this]
  · have : v > encode_int64_max := by simp only [encode_int64_max]; omega
    simp [encodeInt64, this]

/-- the hand-unrolled 12/24-bit fast paths equal the generic codec -/
theorem fast_int_eq_generic (e : Engine) (v : Nat) :
    (v < 2 ^ 12 → encodeInt12 e v = .ok (encodeInt e v 12)) ∧
    (v < 2 ^ 24 → encodeInt24 e v = .ok (encodeInt e v 24)) := by
  refine ⟨?_, ?_⟩ <;> intro h
  · have : ¬ v > encode_int12_max := by simp only [encode_int12_max]; omega
    cases hb : e.big <;>
      simp [encodeInt12, this, encodeInt, encodeIntOffsets, encode_int12_raw, hb, List.range, List.range.loop]
  · have : ¬ v > encode_int24_max := by simp only [encode_int24_max]; omega
    cases hb : e.big <;>
      simp [encodeInt24, this, encodeInt, encodeIntOffsets, encode_int24_raw, hb, List.range, List.range.loop]

/-! ### transposition tables used by the hash formats -/
def IsPerm (offs : List Nat) : Prop := ∀ j, j < offs.length → j ∈ offs
instance (offs : List Nat) : Decidable (IsPerm offs) := by unfold IsPerm; infer_instance

theorem transpose_tables_are_permutations :
    IsPerm md5_transpose_map ∧ IsPerm sha256_transpose_map ∧ IsPerm sha512_transpose_map ∧
    IsPerm sun_md5_chk_offsets ∧ IsPerm lp_sha256_transpose_map ∧ IsPerm lp_sha512_transpose_map ∧
    md5_transpose_map.length = 16 ∧ sha256_transpose_map.length = 32 ∧ sha512_transpose_map.length = 64 ∧
    lp_sha256_transpose_map = sha256_transpose_map ∧ lp_sha512_transpose_map = sha512_transpose_map := by
  decide +kernel

/-- sha1_crypt's table repeats an offset (it pads 20 bytes to 21): encode-only by design -/
theorem sha1_table_not_permutation : ¬ IsPerm sha1_chk_offsets := by decide

/-! ### unpadded / dot-variant base64 and base32 helpers -/
theorem b64s_roundtrip (bs : Bytes) (h : Bytes.WF bs) : b64sDecode (b64sEncode bs) = some (.ok bs) :=
  Lemmas.B64.b64s_roundtrip bs h
theorem ab64_roundtrip (bs : Bytes) (h : Bytes.WF bs) : ab64Decode (ab64Encode bs) = some (.ok bs) :=
  Lemmas.B64.ab64_roundtrip bs h
theorem ab64_alphabet : AB64_CHARS = stdAlphabet.map plusToDot ∧ BASE64_CHARS = stdAlphabet :=
  Lemmas.B64.ab64_alphabet
theorem b32_roundtrip (bs : Bytes) (h : Bytes.WF bs) : b32decode (b32encode bs) = .ok bs :=
  Lemmas.B64.b32_roundtrip bs h
theorem b32_typo (s : Bytes) : b32decode (s.map typo) = b32decode s := Lemmas.B64.b32_typo s
theorem b32_lower (s : Bytes) : b32decode (s.map lower) = b32decode s := Lemmas.B64.b32_lower s

/-! ### non-vacuity: the hypotheses are met by concrete non-trivial values -/
example : Bytes.WF [0, 255, 128, 7] ∧ decodeBytes h64 (encodeBytes h64 [0, 255, 128, 7]) = .ok [0, 255, 128, 7] := by decide
example : (∀ v ∈ [5, 63, 62], v < 64) ∧ [5, 63, 62].length % 4 ≠ 1 ∧ clearPad true [5, 63, 62] ≠ [5, 63, 62] := by decide
example : (1000 : Nat) < 2 ^ 12 ∧ decodeInt h64big (encodeInt h64big 1000 12) 12 = .ok 1000 := by decide
example : b32decode (b32encode [109, 101]) = .ok [109, 101] := by decide

end Props.C12
