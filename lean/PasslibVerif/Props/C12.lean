import PasslibVerif.Lemmas.B64
namespace Props.C12
open Py Model.B64
theorem dec6_enc6 (big : Bool) (bs : Bytes) (h : Bytes.WF bs) : dec6 big (enc6 big bs) = bs :=
  Lemmas.B64.dec6_enc6 big bs h
end Props.C12
