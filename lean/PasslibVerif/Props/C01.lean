import PasslibVerif.Model.Verify
/-
C01 — "a hash verifies exactly the password it was made from": the part that is logic.  For ANY hasher whose string format
round-trips (`parse (render p) = p`, proved per format under C07) and whose checksum algorithm does not read the stored
checksum: hashing then verifying the same secret answers True — as text or as the equivalent UTF-8 bytes — and verifying another
secret answers exactly "the two checksums are equal".  That different secrets (outside the documented equivalences) have different
checksums is a property of the digest primitives (collision resistance), not a theorem; it is explored on the real code.
-/
namespace Props.C01
open Py Model.Handler Model.Verify

/-- the format round-trips on what `hash` renders for these settings: every checksum the algorithm can produce for them -/
def RoundTrips (h : Hasher) (p : Parsed) : Prop :=
  ∀ b c, h.digest b p = .ok c → h.parse (h.render { p with checksum := some c }) = .ok { p with checksum := some c }

theorem checksumOf_is_digest (h : Hasher) (f : Bool) (s : Secret) (p : Parsed) (c : Str) (hc : checksumOf h f s p = .ok c) :
    ∃ b, h.digest b p = .ok c := by
  unfold checksumOf at hc
  cases hb : s.toBytes with
  | error e => simp [hb] at hc
  | ok b =>
    simp only [hb] at hc
    split at hc
    · cases hc
    · split at hc
      · cases hc
      · exact ⟨b, hc⟩

/-- the checksum algorithm reads the settings, not the stored checksum -/
def IgnoresChecksum (h : Hasher) : Prop := ∀ b p x, h.digest b { p with checksum := x } = h.digest b p

theorem checksumOf_ignores (h : Hasher) (hi : IgnoresChecksum h) (f : Bool) (s : Secret) (p : Parsed) (x : Option Str) :
    checksumOf h f s { p with checksum := x } = checksumOf h f s p := by
  unfold checksumOf
  cases s.toBytes with
  | error e => rfl
  | ok b => simp only [hi b p x]

/-- what `verify` answers for a string that `hash` produced: whether the checksums agree -/
theorem verify_of_hash (h : Hasher) (s s' : Secret) (p : Parsed) (hs : Str) (c' : Str)
    (hrt : RoundTrips h p) (hi : IgnoresChecksum h)
    (hh : hashSecret h s p = .ok hs) (hv : validateSecret s' = .ok ()) (hc' : checksumOf h false s' p = .ok c') :
    ∃ c, checksumOf h true s p = .ok c ∧ verify h s' hs = .ok (c' == c) := by
  unfold hashSecret at hh
  cases hvs : validateSecret s with
  | error e => simp [hvs] at hh
  | ok u =>
    simp only [hvs] at hh
    cases hc : checksumOf h true s p with
    | error e => simp [hc] at hh
    | ok c =>
      simp only [hc, Except.ok.injEq] at hh
      refine ⟨c, rfl, ?_⟩
      unfold verify
      obtain ⟨b, hb⟩ := checksumOf_is_digest h true s p c hc
      rw [hv, ← hh, hrt b c hb]
      simp only [checksumOf_ignores h hi, hc']

/-- the truncation policy can only turn a checksum into an error, never change it -/
theorem checksumOf_hash_verify (h : Hasher) (s : Secret) (p : Parsed) (c : Str) (hc : checksumOf h true s p = .ok c) :
    checksumOf h false s p = .ok c := by
  unfold checksumOf at hc ⊢
  cases hb : s.toBytes with
  | error e => simp [hb] at hc
  | ok b =>
    simp only [hb, if_true] at hc ⊢
    cases ht : checkTruncate h b with
    | error e => simp [ht] at hc
    | ok u => simpa [ht] using hc

/-- hashing succeeds ⇒ the string verifies True for the same secret -/
theorem verify_own_hash (h : Hasher) (s : Secret) (p : Parsed) (hs : Str)
    (hrt : RoundTrips h p) (hi : IgnoresChecksum h) (hh : hashSecret h s p = .ok hs) : verify h s hs = .ok true := by
  have hv : validateSecret s = .ok () := by
    unfold hashSecret at hh
    cases hvs : validateSecret s with
    | error e => simp [hvs] at hh
    | ok u => rfl
  have hcs : ∃ c, checksumOf h true s p = .ok c := by
    unfold hashSecret at hh
    rw [hv] at hh
    cases hc : checksumOf h true s p with
    | error e => simp [hc] at hh
    | ok c => exact ⟨c, rfl⟩
  obtain ⟨c, hc⟩ := hcs
  obtain ⟨c2, h1, h2⟩ := verify_of_hash h s s p hs c hrt hi hh hv (checksumOf_hash_verify h s p c hc)
  rw [hc] at h1
  cases h1
  simpa using h2

/-- text and its UTF-8 bytes are the same secret (when both pass the size check) -/
theorem text_and_bytes_agree (h : Hasher) (cps : List Nat) (b : Bytes) (p : Parsed) (hs : Str)
    (hu : utf8 cps = some b) (hlen : b.length ≤ MAX_PASSWORD_SIZE) (hl2 : cps.length ≤ MAX_PASSWORD_SIZE) :
    hashSecret h (.text cps) p = hashSecret h (.bytes b) p ∧ verify h (.text cps) hs = verify h (.bytes b) hs := by
  have v1 : validateSecret (.text cps) = .ok () := by unfold validateSecret Secret.len; simp; omega
  have v2 : validateSecret (.bytes b) = .ok () := by unfold validateSecret Secret.len; simp; omega
  have c : ∀ f p, checksumOf h f (.text cps) p = checksumOf h f (.bytes b) p := by
    intro f p; unfold checksumOf Secret.toBytes; simp [hu]
  unfold hashSecret verify
  simp only [v1, v2, c]
  exact ⟨trivial, trivial⟩

/-- the library-wide size limit counts characters of text but bytes of bytes: a text secret of 4096 four-byte characters is
    accepted while its UTF-8 encoding (16384 bytes) is refused — recorded as an observation about "equivalent encoded bytes" -/
theorem size_limit_counts_characters :
    validateSecret (.text (List.replicate 4096 0x1D11E)) = .ok () ∧
    validateSecret (.bytes (List.replicate 16384 0xF0)) = .error .sizeError := by
  constructor <;> (unfold validateSecret Secret.len MAX_PASSWORD_SIZE; simp only [List.length_replicate]; decide)

/-- every hasher refuses a secret longer than the library-wide maximum, in `hash` and in `verify`, before anything else -/
theorem oversized_refused (h : Hasher) (s : Secret) (p : Parsed) (hs : Str) (hl : s.len > MAX_PASSWORD_SIZE) :
    hashSecret h s p = .error .sizeError ∧ verify h s hs = .error .sizeError := by
  have : validateSecret s = .error .sizeError := by unfold validateSecret; simp [hl]
  unfold hashSecret verify; simp [this]

/-! non-vacuity: a toy hasher satisfying both hypotheses -/
def toy : Hasher where
  parse := fun s => match s with | 36 :: rest => .ok { ident := [36], checksum := some rest } | _ => .error .valueError
  render := fun p => 36 :: p.checksum.getD []
  digest := fun b _ => .ok (b.map (· % 64 + 48))

example : RoundTrips toy { ident := [36] } ∧ IgnoresChecksum toy ∧
    hashSecret toy (.text [112, 119]) { ident := [36] } = .ok [36, 96, 103] ∧ verify toy (.bytes [112, 119]) [36, 96, 103] = .ok true := by
  refine ⟨fun _ c _ => rfl, fun _ _ _ => rfl, by decide, by decide⟩

end Props.C01
