import PasslibVerif.Props.C01
import PasslibVerif.Gen.Verify
/-
C05 — size limits.  For ANY hasher in the shape of `Model.Verify.Hasher`: what `truncate_error`, the library-wide maximum and the
NUL refusal do in `hash` and `verify`.  That a format's algorithm really reads only the first `n` bytes (`ReadsOnly n`) is a fact
about the algorithm: proved for bcrypt's key schedule under C11 (72 bytes) and checked against the real hashers for the others.
-/
namespace Props.C05
open Py Model.Handler Model.Verify Props.C01

/-- the checksum algorithm reads only the first `n` bytes of the secret -/
def ReadsOnly (h : Hasher) (n : Nat) : Prop := ∀ b p, h.digest b p = h.digest (b.take n) p

/-- with `truncate_error` set, `hash` refuses every secret longer than the limit — in BYTES, also for text secrets -/
theorem truncate_error_refuses (h : Hasher) (n : Nat) (s : Secret) (b : Bytes) (p : Parsed)
    (hn : h.truncateSize = some n) (he : h.truncateError = true) (hv : validateSecret s = .ok ())
    (hb : s.toBytes = .ok b) (hlong : b.length > n) : hashSecret h s p = .error .truncateError := by
  unfold hashSecret checksumOf checkTruncate
  simp [hv, hb, hn, he, hlong]

/-- … and whenever `hash` succeeds under `truncate_error`, the whole secret was within the limit (nothing was cut) -/
theorem truncate_error_whole_password (h : Hasher) (n : Nat) (s : Secret) (b : Bytes) (p : Parsed) (hs : Str)
    (hn : h.truncateSize = some n) (he : h.truncateError = true) (hb : s.toBytes = .ok b)
    (hh : hashSecret h s p = .ok hs) : b.length ≤ n := by
  unfold hashSecret at hh
  cases hv : validateSecret s with
  | error e => simp [hv] at hh
  | ok u =>
    simp only [hv] at hh
    unfold checksumOf checkTruncate at hh
    simp only [hb, hn, he, if_true, true_and] at hh
    by_cases hl : b.length > n
    · simp [hl] at hh
    · omega

/-- without `truncate_error` the policy never fires -/
theorem no_truncate_error_when_disabled (h : Hasher) (b : Bytes) (he : h.truncateError = false) : checkTruncate h b = .ok () := by
  unfold checkTruncate
  cases h.truncateSize <;> simp [he]

/-- silent truncation: with the policy off, exactly the first `n` BYTES matter, in `hash` and `verify` alike -/
theorem only_first_bytes_matter (h : Hasher) (n : Nat) (b e : Bytes) (p : Parsed) (hs : Str)
    (hr : ReadsOnly h n) (he : h.truncateError = false) (hlen : n ≤ b.length)
    (hsz : (b ++ e).length ≤ MAX_PASSWORD_SIZE) (hnul : h.rejectsNul = true → 0 ∉ b ++ e) :
    hashSecret h (.bytes (b ++ e)) p = hashSecret h (.bytes b) p ∧ verify h (.bytes (b ++ e)) hs = verify h (.bytes b) hs := by
  have hsz2 : b.length ≤ MAX_PASSWORD_SIZE := by simp at hsz; omega
  have v1 : validateSecret (.bytes (b ++ e)) = .ok () := by unfold validateSecret Secret.len; simp; simp at hsz; omega
  have v2 : validateSecret (.bytes b) = .ok () := by unfold validateSecret Secret.len; simp; omega
  have hd : ∀ p, h.digest (b ++ e) p = h.digest b p := by
    intro p
    rw [hr (b ++ e) p, hr b p, List.take_append_of_le_length hlen]
  have n1 : checkNul h (b ++ e) = .ok () := by
    unfold checkNul
    by_cases hrn : h.rejectsNul = true
    · simp [hrn, hnul hrn]
    · simp [hrn]
  have n2 : checkNul h b = .ok () := by
    unfold checkNul
    by_cases hrn : h.rejectsNul = true
    · have := hnul hrn; simp at this; simp [hrn, this.1]
    · simp [hrn]
  have c : ∀ f p, checksumOf h f (.bytes (b ++ e)) p = checksumOf h f (.bytes b) p := by
    intro f p
    unfold checksumOf Secret.toBytes
    simp only [no_truncate_error_when_disabled h _ he, n1, n2, hd, ite_self]
  unfold hashSecret verify
  simp only [v1, v2, c]
  exact ⟨trivial, trivial⟩

/-- recorded finding: `truncate_error` guards `hash` only.  A secret of exactly `n` bytes is hashed whole, yet every extension of it
    still verifies against the result, because `verify` never applies the policy (`truncate_verify_reject` is False everywhere) -/
theorem extension_of_limit_sized_secret_verifies (h : Hasher) (n : Nat) (b e : Bytes) (p : Parsed) (hs : Str)
    (hr : ReadsOnly h n) (hrt : RoundTrips h p) (hi : IgnoresChecksum h) (hlen : b.length = n)
    (hsz : (b ++ e).length ≤ MAX_PASSWORD_SIZE) (hnul : h.rejectsNul = true → 0 ∉ b ++ e)
    (hh : hashSecret h (.bytes b) p = .ok hs) : verify h (.bytes (b ++ e)) hs = .ok true := by
  have hown := verify_own_hash h (.bytes b) p hs hrt hi hh
  have v1 : validateSecret (.bytes (b ++ e)) = .ok () := by unfold validateSecret Secret.len; simp; simp at hsz; omega
  have v2 : validateSecret (.bytes b) = .ok () := by unfold validateSecret Secret.len; simp; simp at hsz; omega
  have hd : ∀ p, h.digest (b ++ e) p = h.digest b p := by
    intro p
    rw [hr (b ++ e) p, hr b p, List.take_append_of_le_length (by omega)]
  have n1 : checkNul h (b ++ e) = .ok () := by
    unfold checkNul
    by_cases hrn : h.rejectsNul = true
    · simp [hrn, hnul hrn]
    · simp [hrn]
  have n2 : checkNul h b = .ok () := by
    unfold checkNul
    by_cases hrn : h.rejectsNul = true
    · have := hnul hrn; simp at this; simp [hrn, this.1]
    · simp [hrn]
  have c : ∀ p, checksumOf h false (.bytes (b ++ e)) p = checksumOf h false (.bytes b) p := by
    intro p
    unfold checksumOf Secret.toBytes
    simp only [n1, n2, hd, Bool.false_eq_true, if_false]
  unfold verify at hown ⊢
  simp only [v1, v2, c] at hown ⊢
  exact hown

/-- NUL bytes are refused by the crypt()-compatible formats, in `hash` and in `verify`, instead of ending the secret there -/
theorem nul_refused (h : Hasher) (s : Secret) (b : Bytes) (p : Parsed) (hs : Str) (hrn : h.rejectsNul = true)
    (hb : s.toBytes = .ok b) (h0 : 0 ∈ b) :
    (∃ e, hashSecret h s p = .error e) ∧
    (validateSecret s = .ok () → ∀ q chk, h.parse hs = .ok q → q.checksum = some chk → verify h s hs = .error .nullError) := by
  constructor
  · unfold hashSecret
    cases validateSecret s with
    | error e => exact ⟨e, rfl⟩
    | ok u =>
      simp only
      unfold checksumOf
      simp only [hb, if_true]
      cases checkTruncate h b with
      | error e => exact ⟨e, rfl⟩
      | ok u => exact ⟨.nullError, by simp [checkNul, hrn, h0]⟩
  · intro hv q chk hq hc
    unfold verify checksumOf
    simp [hv, hq, hc, hb, checkNul, hrn, h0]

/-! non-vacuity -/
def toy8 : Hasher where
  parse := fun s => match s with | 36 :: rest => .ok { ident := [36], checksum := some rest } | _ => .error .valueError
  render := fun p => 36 :: p.checksum.getD []
  digest := fun b _ => .ok ((b.take 8).map (· % 64 + 48))
  truncateSize := some 8
  truncateError := true
  rejectsNul := true

example : ReadsOnly toy8 8 := fun b p => by simp [toy8, List.take_take]
example : hashSecret toy8 (.bytes [1, 2, 3, 4, 5, 6, 7, 8, 9]) { ident := [36] } = .error .truncateError := by decide
example : verify toy8 (.bytes [1, 2, 3, 4, 5, 6, 7, 8, 9]) [36, 49, 50, 51, 52, 53, 54, 55, 56] = .ok true := by decide

end Props.C05

namespace Props.C05
/-- the model's library-wide maximum is the one the running library uses -/
theorem max_password_size_is_the_librarys : Model.Verify.MAX_PASSWORD_SIZE = Gen.Verify.maxPasswordSize := by decide

/-- every shipped hasher with a truncation limit either applies `TruncateMixin`'s policy from hash() only (the generic model's shape) and
    does not reject on verify — so `extension_of_limit_sized_secret_verifies` applies to it — or (cisco) has its own size check and rejects
    over-long secrets on verify as well -/
theorem shipped_truncation_policies :
    Gen.Verify.truncating.all (fun r => (r.2.2.1 && !r.2.2.2) || (!r.2.2.1 && r.2.2.2)) = true := by decide
end Props.C05
