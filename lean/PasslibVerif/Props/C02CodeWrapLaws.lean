import PasslibVerif.Model.Code.Wrap
/-
C02, code level, group `Wrap`, part 2 — the laws of `PrefixWrapper` (passlib/utils/handlers.py), for EVERY wrapped hasher given as a
parameter (`Model.Code.Wrap.Inner`) and every pair (prefix, orig_prefix): the declarations ldap_md5_crypt … ldap_sha512_crypt
("{CRYPT}", ""), ldap_hex_md5 ("{MD5}", ""), ldap_hex_sha1 ("{SHA}", ""), django_bcrypt ("bcrypt$", ""), roundup_plaintext
("{plaintext}", ""), … are instances.  No specification exists for a wrapper: the law is stated over the inner hasher.
-/
namespace Props.C02CodeWrapLaws
open Py Model.Code.Wrap
open Model.Verify (Secret)
open Model.Handler (Str ofString)

theorem startswith_append (p r : Str) : startswith (p ++ r) p = true := by
  unfold startswith; simp

theorem startswith_split (s p : Str) (h : startswith s p = true) : s = p ++ s.drop p.length := by
  unfold startswith at h
  obtain ⟨t, rfl⟩ := List.isPrefixOf_iff_prefix.1 h
  simp

/-- `wrapper.hash = wrap ∘ inner.hash` -/
theorem hash_eq_wrap_inner (w : Wrapper) (i : Inner) (s : Secret) (h : Str) (hh : i.hash s = .ok h) :
    wHash w i s = wrapHash w h := by unfold wHash; rw [hh]

/-- … and an error of the inner hasher is the wrapper's -/
theorem hash_error (w : Wrapper) (i : Inner) (s : Secret) (e : ErrKind) (hh : i.hash s = .error e) : wHash w i s = .error e := by
  unfold wHash; rw [hh]

/-- `wrapper.verify(s, h) = inner.verify(s, unwrap h)` -/
theorem verify_eq_inner_unwrap (w : Wrapper) (i : Inner) (s : Secret) (h u : Str) (hu : unwrapHash w h = .ok u) :
    wVerify w i s h = i.verify s u := by unfold wVerify; rw [hu]

/-- a string without the wrapper's prefix: InvalidHashError (a ValueError) from verify / genhash / needs_update, `False` from identify -/
theorem foreign_refused (w : Wrapper) (i : Inner) (s : Secret) (h : Str) (hp : startswith h w.pfx = false) :
    wVerify w i s h = .error .valueError ∧ wGenhash w i s h = .error .valueError ∧ wNeedsUpdate w i h = .error .valueError ∧
    wIdentify w i h = .ok false := by
  simp [wVerify, wGenhash, wNeedsUpdate, wIdentify, unwrapHash, hp]

/-- the wrapped string is the prefix followed by the inner string without its own prefix -/
theorem wrap_form (w : Wrapper) (r : Str) : wrapHash w (w.origPrefix ++ r) = .ok (w.pfx ++ r) := by
  simp [wrapHash, startswith_append]

theorem unwrap_form (w : Wrapper) (r : Str) : unwrapHash w (w.pfx ++ r) = .ok (w.origPrefix ++ r) := by
  simp [unwrapHash, startswith_append]

/-- unwrap ∘ wrap = id on the inner hasher's strings -/
theorem unwrap_wrap (w : Wrapper) (h x : Str) (hw : wrapHash w h = .ok x) : unwrapHash w x = .ok h := by
  unfold wrapHash at hw
  split at hw
  · simp at hw
  · rename_i hs
    simp only [Except.ok.injEq] at hw
    subst hw
    rw [unwrap_form]
    have hs' : startswith h w.origPrefix = true := by simpa using hs
    rw [← startswith_split h _ hs']

/-- wrap ∘ unwrap = id on the wrapper's strings -/
theorem wrap_unwrap (w : Wrapper) (x h : Str) (hu : unwrapHash w x = .ok h) : wrapHash w h = .ok x := by
  unfold unwrapHash at hu
  split at hu
  · simp at hu
  · rename_i hs
    simp only [Except.ok.injEq] at hu
    subst hu
    rw [wrap_form]
    have hs' : startswith x w.pfx = true := by simpa using hs
    rw [← startswith_split x _ hs']

/-- the wrapper verifies what it hashed exactly when the inner hasher does: `wrapper.verify(s', wrapper.hash(s)) = inner.verify(s', inner.hash(s))` -/
theorem verify_hash (w : Wrapper) (i : Inner) (s s' : Secret) (h x : Str) (hh : i.hash s = .ok h) (hx : wHash w i s = .ok x) :
    wVerify w i s' x = i.verify s' h := by
  rw [hash_eq_wrap_inner w i s h hh] at hx
  exact verify_eq_inner_unwrap w i s' x h (unwrap_wrap w h x hx)

/-- identify: the wrapper recognises exactly the wrapped forms of what the inner hasher recognises -/
theorem identify_wrapped (w : Wrapper) (i : Inner) (r : Str) : wIdentify w i (w.pfx ++ r) = .ok (i.identify (w.origPrefix ++ r)) := by
  simp [wIdentify, startswith_append, unwrap_form]

/-- genhash = wrap ∘ inner.genhash ∘ unwrap -/
theorem genhash_eq (w : Wrapper) (i : Inner) (s : Secret) (c u g : Str) (hu : unwrapHash w c = .ok u) (hg : i.genhash s u = .ok g) :
    wGenhash w i s c = wrapHash w g := by unfold wGenhash; rw [hu]; simp only [hg]

/-- non-vacuity on real values of /tmp/repo_clean: `ldap_hex_md5` = PrefixWrapper(hex_md5, "{MD5}"), `hex_md5.hash("password")` =
    "5f4dcc3b5aa765d61d8327deb882cf99", `ldap_hex_md5.hash("password")` = "{MD5}5f4dcc3b5aa765d61d8327deb882cf99";
    `ldap_md5_crypt` = PrefixWrapper(md5_crypt, "{CRYPT}") on "$1$…" -/
example : wrapHash ⟨ofString "{MD5}", []⟩ (ofString "5f4dcc3b5aa765d61d8327deb882cf99") = .ok (ofString "{MD5}5f4dcc3b5aa765d61d8327deb882cf99") ∧
    unwrapHash ⟨ofString "{MD5}", []⟩ (ofString "{MD5}5f4dcc3b5aa765d61d8327deb882cf99") = .ok (ofString "5f4dcc3b5aa765d61d8327deb882cf99") ∧
    unwrapHash ⟨ofString "{CRYPT}", []⟩ (ofString "{crypt}$1$x$y") = .error .valueError := by decide

end Props.C02CodeWrapLaws
