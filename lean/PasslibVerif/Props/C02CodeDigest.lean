import PasslibVerif.Lemmas.C02CodeDigest
import PasslibVerif.Lemmas.FormatsStatic
/-
C02, code level, group `Digest`, part 1 — "the code computes the published algorithm" for the `_calc_checksum` routines that compose
external digests with encodings: digests.py, ldap_digests.py, mysql.py, postgres.py, oracle.py, mssql.py, windows.py.
(Part 2 — pbkdf2.py, django.py, scram.py, scrypt.py — is Props/C02CodeDigestKdf.lean.)

`Model.Code.Digest.*` follows the Python statements (which operand goes first in every concatenation, which side the salt goes,
`.hexdigest()` / `hexlify` / `b64encode` / `.upper()` / `.decode("ascii")` calls, `to_bytes` of the context keywords); it is compared
with the real functions by tools/corr/c02_code_digest.py (driver suite `cdig`).  The theorems say that this code equals the
specification `Spec.Formats.*` (Spec/Formats/Digests.lean) for EVERY secret — any length, any byte value, NUL included: none of these
routines refuses it — every salt and every context value.  The digests themselves are external (hashlib): both sides use the
`Spec.*` transcriptions, so what is proved is the code's argument order, encodings and field layout.

Text secrets: `.text cps` with `Model.Verify.utf8 cps = some b` is hashed as the bytes `b` (`secret.encode("utf-8")`); a text that
cannot be encoded (lone surrogate) is a `ValueError` (UnicodeEncodeError).
windows.py / mssql.py work on text through external codecs: the models take the UTF-16-LE bytes (see Model/Code/Digest.lean), the
theorems instantiate them with the specification's `utf16le` of the password given in UTF-8.
-/
namespace Props.C02CodeDigest
open Py Model.Code.Digest
open Spec.Formats hiding Bytes
open Model.Verify (Secret)
open Model.Code.Des (encodeSecret hexlify asciiUpper decodeAscii encodeAscii bytesUpper)
open Lemmas.C02CodeDigest Lemmas.C02CodeDes
open Lemmas.PbkdfLen (HashOK)
open Lemmas.C01Pbkdf (md5_ok sha1_ok sha256_ok sha512_ok)

/-! ### digests.py: `HexDigestHash._calc_checksum` -/

/-- every digest `H` that returns octets, every byte string -/
theorem hex_calc_eq_spec (H : Bytes → Bytes) (n : Nat) (hH : HashOK H n) (secret : Bytes) :
    hexCalc H (.bytes secret) = .ok (hexDigest H secret) := by
  simp only [hexCalc, encodeSecret_bytes, hexdigest_eq H n hH, hexDigest]

/-- a text secret is hashed as its UTF-8 encoding -/
theorem hex_calc_text_eq_spec (H : Bytes → Bytes) (n : Nat) (hH : HashOK H n) (cps b : List Nat) (hu : Model.Verify.utf8 cps = some b) :
    hexCalc H (.text cps) = .ok (hexDigest H b) := by
  simp only [hexCalc, encodeSecret_text cps b hu, hexdigest_eq H n hH, hexDigest]

/-- a text secret that cannot be encoded: `UnicodeEncodeError`, a `ValueError` -/
theorem hex_calc_text_unencodable (H : Bytes → Bytes) (cps : List Nat) (hu : Model.Verify.utf8 cps = none) :
    hexCalc H (.text cps) = .error .valueError := by
  simp only [hexCalc, encodeSecret_bad cps hu]

theorem hex_md4_eq_spec (secret : Bytes) : hexCalc Spec.MD4.md4 (.bytes secret) = .ok (hexDigest Spec.MD4.md4 secret) :=
  hex_calc_eq_spec _ 16 md4_ok secret
theorem hex_md5_eq_spec (secret : Bytes) : hexCalc Spec.MD5.md5 (.bytes secret) = .ok (hexDigest Spec.MD5.md5 secret) :=
  hex_calc_eq_spec _ 16 md5_ok secret
theorem hex_sha1_eq_spec (secret : Bytes) : hexCalc Spec.SHA1.sha1 (.bytes secret) = .ok (hexDigest Spec.SHA1.sha1 secret) :=
  hex_calc_eq_spec _ 20 sha1_ok secret
theorem hex_sha256_eq_spec (secret : Bytes) : hexCalc Spec.SHA256.sha256 (.bytes secret) = .ok (hexDigest Spec.SHA256.sha256 secret) :=
  hex_calc_eq_spec _ 32 sha256_ok secret
theorem hex_sha512_eq_spec (secret : Bytes) : hexCalc Spec.SHA512.sha512 (.bytes secret) = .ok (hexDigest Spec.SHA512.sha512 secret) :=
  hex_calc_eq_spec _ 64 sha512_ok secret

/-- non-vacuity: `hex_md5()._calc_checksum(b"p\xe4ss\x00w\xf6rd") == "5878eddf…"` (computed by /tmp/repo_clean) -/
example : hexCalc Spec.MD5.md5 (.bytes [0x70, 0xe4, 0x73, 0x73, 0x00, 0x77, 0xf6, 0x72, 0x64]) = .ok (ascii "5878eddff42d847a74e36a82f5334be1") := by
  rw [hex_md5_eq_spec]; decide +kernel

/-! ### digests.py: `htdigest.hash` (RFC 2617 `H(A1)`) -/

theorem validate_ok (s : Secret) (h : s.len ≤ 4096) : validateSecret s = .ok () := by
  unfold validateSecret Model.Verify.validateSecret
  rw [if_neg]
  show ¬ s.len > 4096
  omega

theorem validate_size (s : Secret) (h : 4096 < s.len) : validateSecret s = .error .sizeError := by
  unfold validateSecret Model.Verify.validateSecret
  rw [if_pos]
  show s.len > 4096
  omega

/-- `user ":" realm ":" password` in that order: every secret of at most 4096 bytes, every user and realm given as bytes -/
theorem htdigest_hash_eq_spec (secret user realm : Bytes) (hs : secret.length ≤ 4096) :
    htdigestHash (.bytes secret) (some (.bytes user)) (some (.bytes realm)) = .ok (htdigest secret user realm) := by
  have hv : validateSecret (.bytes secret) = .ok () := validate_ok _ hs
  simp only [htdigestHash, hv, encodeSecret_bytes, toBytes, Secret.toBytes, renderBytes3, hexdigest_eq _ 16 md5_ok, htdigest]

/-- text secret, user and realm are encoded as UTF-8 (the size limit counts characters of text) -/
theorem htdigest_hash_text_eq_spec (cs cu cr secret user realm : List Nat) (hs : Model.Verify.utf8 cs = some secret)
    (hu : Model.Verify.utf8 cu = some user) (hr : Model.Verify.utf8 cr = some realm) (hl : cs.length ≤ 4096) :
    htdigestHash (.text cs) (some (.text cu)) (some (.text cr)) = .ok (htdigest secret user realm) := by
  have hv : validateSecret (.text cs) = .ok () := validate_ok _ hl
  simp only [htdigestHash, hv, encodeSecret_text cs secret hs, toBytes, toBytes_text cu user hu, toBytes_text cr realm hr, renderBytes3,
    hexdigest_eq _ 16 md5_ok, htdigest]

/-- `validate_secret`: more than 4096 bytes is a `PasswordSizeError` -/
theorem htdigest_hash_size (secret : Bytes) (user realm : Option Secret) (hs : 4096 < secret.length) :
    htdigestHash (.bytes secret) user realm = .error .sizeError := by
  have hv : validateSecret (.bytes secret) = .error .sizeError := validate_size _ hs
  simp only [htdigestHash, hv]

/-- `user=None`: `TypeError` from `to_bytes(user, …, "user")` -/
theorem htdigest_hash_no_user (secret : Bytes) (realm : Option Secret) (hs : secret.length ≤ 4096) :
    htdigestHash (.bytes secret) none realm = .error .typeError := by
  have hv : validateSecret (.bytes secret) = .ok () := validate_ok _ hs
  simp only [htdigestHash, hv, encodeSecret_bytes, toBytes]

/-- non-vacuity: `htdigest.hash(b"p\xe4ss", b"us\xffer", b"re:alm") == "…"` (computed by /tmp/repo_clean) -/
example : htdigestHash (.bytes [0x70, 0xe4, 0x73, 0x73]) (some (.bytes [0x75, 0x73, 0xff, 0x65, 0x72])) (some (.bytes (ascii "re:alm")))
    = .ok (ascii "4cc4cdf4a1edf47fa1516ba6998d6018") := by
  rw [htdigest_hash_eq_spec _ _ _ (by decide)]; decide +kernel

/-! ### ldap_digests.py -/

/-- `{MD5}` / `{SHA}` (RFC 2307): base64 of the digest — every digest function, every byte string -/
theorem ldap_calc_eq_spec (H : Bytes → Bytes) (secret : Bytes) : ldapCalc H (.bytes secret) = .ok (ldapDigest H secret) := by
  simp only [ldapCalc, encodeSecret_bytes, b64encode_decode, ldapDigest]

theorem ldap_calc_text_eq_spec (H : Bytes → Bytes) (cps b : List Nat) (hu : Model.Verify.utf8 cps = some b) :
    ldapCalc H (.text cps) = .ok (ldapDigest H b) := by
  simp only [ldapCalc, encodeSecret_text cps b hu, b64encode_decode, ldapDigest]

theorem ldap_calc_text_unencodable (H : Bytes → Bytes) (cps : List Nat) (hu : Model.Verify.utf8 cps = none) :
    ldapCalc H (.text cps) = .error .valueError := by
  simp only [ldapCalc, encodeSecret_bad cps hu]

/-- non-vacuity: `ldap_sha1()._calc_checksum(b"p\xe4ss\x00") == "…"` -/
example : ldapCalc Spec.SHA1.sha1 (.bytes [0x70, 0xe4, 0x73, 0x73, 0x00]) = .ok (ascii "E/DlI/hXNn/2jaJE2d+RSWdKFDM=") := by
  rw [ldap_calc_eq_spec]; decide +kernel

/-- the raw checksum of `{SMD5}` / `{SSHA}` / `{SSHA256}` / `{SSHA512}`: H(password ‖ salt) — the salt goes AFTER the password;
    every digest function, every byte string, every salt (any length) -/
theorem ldap_salted_calc_eq (H : Bytes → Bytes) (secret salt : Bytes) :
    ldapSaltedCalc H (.bytes secret) salt = .ok (H (secret ++ salt)) := by
  simp only [ldapSaltedCalc, encodeSecret_bytes]

/-- … and `to_string` writes base64(checksum ‖ salt): the string after the ident is the specification's -/
theorem ldap_salted_string_eq_spec (H : Bytes → Bytes) (secret salt : Bytes) :
    ldapSaltedString H (.bytes secret) salt = .ok (ldapSalted H secret salt) := by
  simp only [ldapSaltedString, ldap_salted_calc_eq, ldapSaltedField, b64encode_decode, ldapSalted]

theorem ldap_salted_string_text_eq_spec (H : Bytes → Bytes) (cps b salt : List Nat) (hu : Model.Verify.utf8 cps = some b) :
    ldapSaltedString H (.text cps) salt = .ok (ldapSalted H b salt) := by
  simp only [ldapSaltedString, ldapSaltedCalc, encodeSecret_text cps b hu, ldapSaltedField, b64encode_decode, ldapSalted]

theorem ldap_salted_text_unencodable (H : Bytes → Bytes) (cps salt : List Nat) (hu : Model.Verify.utf8 cps = none) :
    ldapSaltedCalc H (.text cps) salt = .error .valueError := by
  simp only [ldapSaltedCalc, encodeSecret_bad cps hu]

/-- non-vacuity: `ldap_salted_md5(salt=b"\xff\x00sa")`: `to_string()` after `{SMD5}` -/
example : ldapSaltedString Spec.MD5.md5 (.bytes [0x70, 0xe4, 0x73, 0x73]) [0xff, 0x00, 0x73, 0x61] = .ok (ascii "5nCz8O+Kk034glO9YKNMqv8Ac2E=") := by
  rw [ldap_salted_string_eq_spec]; decide +kernel

/-! ### mysql.py, postgres.py, oracle.py -/

/-- MySQL 4.1 `PASSWORD()`: upper-case hex of SHA1(SHA1(password)) -/
theorem mysql41_calc_eq_spec (secret : Bytes) : mysql41Calc (.bytes secret) = .ok (mysql41 secret) := by
  simp only [mysql41Calc, encodeSecret_bytes, hexdigest_upper _ 20 sha1_ok, mysql41]

theorem mysql41_calc_text_eq_spec (cps b : List Nat) (hu : Model.Verify.utf8 cps = some b) :
    mysql41Calc (.text cps) = .ok (mysql41 b) := by
  simp only [mysql41Calc, encodeSecret_text cps b hu, hexdigest_upper _ 20 sha1_ok, mysql41]

theorem mysql41_calc_text_unencodable (cps : List Nat) (hu : Model.Verify.utf8 cps = none) :
    mysql41Calc (.text cps) = .error .valueError := by
  simp only [mysql41Calc, encodeSecret_bad cps hu]

example : mysql41Calc (.bytes [0x70, 0xe4, 0x73, 0x73, 0x00]) = .ok (ascii "A0A0C99014435BD8031F4E5F45C3A8C34B42FF77") := by
  rw [mysql41_calc_eq_spec]; decide +kernel

/-- PostgreSQL `pg_md5_encrypt`: MD5(password ‖ user name) — the user name goes AFTER the password -/
theorem postgres_calc_eq_spec (secret user : Bytes) :
    postgresCalc (.bytes secret) (some (.bytes user)) = .ok (postgresMd5 secret user) := by
  simp only [postgresCalc, encodeSecret_bytes, toBytes, Secret.toBytes, hexdigest_eq _ 16 md5_ok, postgresMd5]

theorem postgres_calc_text_eq_spec (cs cu secret user : List Nat) (hs : Model.Verify.utf8 cs = some secret)
    (hu : Model.Verify.utf8 cu = some user) : postgresCalc (.text cs) (some (.text cu)) = .ok (postgresMd5 secret user) := by
  simp only [postgresCalc, encodeSecret_text cs secret hs, toBytes, toBytes_text cu user hu, hexdigest_eq _ 16 md5_ok, postgresMd5]

/-- no `user` keyword: `TypeError` -/
theorem postgres_calc_no_user (secret : Bytes) : postgresCalc (.bytes secret) none = .error .typeError := by
  simp only [postgresCalc, encodeSecret_bytes, toBytes]

/-- non-vacuity: `postgres_md5(user="u\xe9")._calc_checksum(b"p\xe4ss")` (the user name reaches the digest as UTF-8) -/
example : postgresCalc (.bytes [0x70, 0xe4, 0x73, 0x73]) (some (.bytes [0x75, 0xc3, 0xa9])) = .ok (ascii "52e5df454ab8b977e5bf968498b9991b") := by
  rw [postgres_calc_eq_spec]; decide +kernel

/-- Oracle 11g: upper-case hex of SHA1(password ‖ salt), the salt given by its hexadecimal string `self.salt`:
    every byte string, every ASCII salt string that `unhexlify` accepts -/
theorem oracle11_calc_eq_spec (secret raw : Bytes) (salt : List Nat) (ha : ∀ c ∈ salt, c < 128)
    (hx : Model.Formats.unhexlify salt = some raw) : oracle11Calc (.bytes secret) salt = .ok (oracle11 secret raw) := by
  simp only [oracle11Calc, encodeSecret_bytes, encodeAscii_ok salt ha, unhexlify, hx, hexdigest_upper _ 20 sha1_ok, oracle11]

/-- … in particular the salt string `to_string` / `from_string` keep: the upper-case hex of the raw salt -/
theorem oracle11_calc_hex_eq_spec (secret raw : Bytes) (hw : Bytes.WF raw) :
    oracle11Calc (.bytes secret) (hexUpper raw) = .ok (oracle11 secret raw) :=
  oracle11_calc_eq_spec secret raw _ (hexUpper_lt raw) (Lemmas.Formats.unhexlify_hexlifyUpper raw hw)

/-- a salt string that is not hexadecimal (odd length, foreign character): `binascii.Error`, a `ValueError` -/
theorem oracle11_calc_bad_salt (secret : Bytes) (salt : List Nat) (ha : ∀ c ∈ salt, c < 128)
    (hx : Model.Formats.unhexlify salt = none) : oracle11Calc (.bytes secret) salt = .error .valueError := by
  simp only [oracle11Calc, encodeSecret_bytes, encodeAscii_ok salt ha, unhexlify, hx]

example : oracle11Calc (.bytes [0x70, 0xe4, 0x73, 0x73]) (ascii "AABBCCDDEEFF00112233") = .ok (ascii "4CA97DEFF14F6E474C948355E9B95CA71E0BEAC8") := by
  rw [oracle11_calc_eq_spec _ [0xAA, 0xBB, 0xCC, 0xDD, 0xEE, 0xFF, 0x00, 0x11, 0x22, 0x33] _ (by decide) (by decide)]; decide +kernel

/-! ### mssql.py -/

/-- UTF-16-LE bytes of a list of scalar values (what `str.encode("utf-16-le")` returns for them: RFC 2781) -/
def utf16leScalars (s : List Nat) : Bytes := (s.flatMap utf16Units).flatMap fun w => [w % 256, w / 256]

/-- `_raw_mssql`: SHA1(UTF-16-LE(password) ‖ salt) — the salt goes AFTER the password -/
theorem raw_mssql_eq_spec (scalars : List Nat) (salt : Bytes) : rawMssqlEnc (utf16leScalars scalars) salt = mssqlDigest scalars salt := rfl

/-- mssql2005: `_calc_checksum` + `to_string` = the whole `0x0100…` string of the specification: every password (given in UTF-8),
    every salt -/
theorem mssql2005_eq_spec (pwdUtf8 salt : Bytes) (hw : Bytes.WF salt) :
    mssql2005ToString salt (mssql2005CalcEnc (utf16le pwdUtf8) salt) = .ok (mssql2005 pwdUtf8 salt) := by
  have hwf : Bytes.WF (salt ++ rawMssqlEnc (utf16le pwdUtf8) salt) := by
    intro x hx
    rcases List.mem_append.1 hx with h | h
    · exact hw x h
    · exact (sha1_ok _).2 x h
  simp only [mssql2005ToString, mssql2005CalcEnc, hexlify_decode _ hwf]
  rw [← hexlify_eq _ hwf, asciiUpper_hexlify _ hwf]
  rfl

/-- mssql2000: the case-sensitive digest, then the digest of the upper-cased password (`encUpper` = UTF-16-LE of `secret.upper()`;
    the specification's case mapping covers ASCII letters) -/
theorem mssql2000_eq_spec (pwdUtf8 salt : Bytes) (hw : Bytes.WF salt) :
    mssql2000ToString salt (mssql2000CalcEnc (utf16le pwdUtf8) (utf16leScalars ((utf8Scalars pwdUtf8).map upperAscii)) salt)
      = .ok (mssql2000 pwdUtf8 salt) := by
  have hwf : Bytes.WF (salt ++ mssql2000CalcEnc (utf16le pwdUtf8) (utf16leScalars ((utf8Scalars pwdUtf8).map upperAscii)) salt) := by
    intro x hx
    rcases List.mem_append.1 hx with h | h
    · exact hw x h
    · rcases List.mem_append.1 h with h | h <;> exact (sha1_ok _).2 x h
  simp only [mssql2000ToString, bytesUpper_eq_asciiUpper, asciiUpper_hexlify _ hwf, decodeAscii_ok _ (hexUpper_lt _)]
  simp only [mssql2000, mssql2000CalcEnc, List.append_assoc]
  rfl

example : mssql2005ToString [0x6A, 0xCD, 0xF9, 0xFF] (mssql2005CalcEnc (utf16le (ascii "password")) [0x6A, 0xCD, 0xF9, 0xFF])
    = .ok (ascii "0x01006ACDF9FF5D2E211B392EEF1175EFFE13B3A368CE2F94038B") := by
  rw [mssql2005_eq_spec _ _ (by decide)]; decide +kernel

/-! ### windows.py -/

/-- `nthash.raw`: MD4 of the UTF-16-LE password (RFC 2433 `NtPasswordHash`) -/
theorem nthash_raw_eq_spec (pwdUtf8 : Bytes) : nthashRawEnc (utf16le pwdUtf8) = ntHashRaw pwdUtf8 := rfl

theorem nthash_calc_eq_spec (pwdUtf8 : Bytes) : nthashCalcEnc (utf16le pwdUtf8) = .ok (nthash pwdUtf8) := by
  simp only [nthashCalcEnc, nthashRawEnc, hexlify_decode _ (md4_ok _).2]; rfl

/-- `msdcc.raw`: MD4(NT hash ‖ user) — the user name goes AFTER the NT hash -/
theorem msdcc_raw_eq_spec (pwdUtf8 userUtf8 : Bytes) : msdccRawEnc (utf16le pwdUtf8) (dccUser userUtf8) = msdccRaw pwdUtf8 userUtf8 := rfl

theorem msdcc_calc_eq_spec (pwdUtf8 userUtf8 : Bytes) :
    msdccCalcEnc (utf16le pwdUtf8) (dccUser userUtf8) = .ok (msdcc pwdUtf8 userUtf8) := by
  simp only [msdccCalcEnc, msdccRawEnc, hexlify_decode _ (md4_ok _).2]; rfl

/-- `msdcc2.raw`: PBKDF2-HMAC-SHA1(DCC1, user, 10240, 16) — DCC1 is the password, the user name the salt -/
theorem msdcc2_raw_eq_spec (pwdUtf8 userUtf8 : Bytes) :
    msdcc2RawEnc (utf16le pwdUtf8) (dccUser userUtf8)
      = .ok (Spec.Pbkdf.pbkdf2 Spec.SHA1.sha1 64 20 (msdccRaw pwdUtf8 userUtf8) (dccUser userUtf8) 10240 16) := by
  simp only [msdcc2RawEnc, pbkdf2Hmac, Secret.toBytes, hashlibPbkdf2_ok _ _ _ 10240 16 (by decide) (by decide) (by decide)]
  rfl

theorem msdcc2_calc_eq_spec (pwdUtf8 userUtf8 : Bytes) :
    msdcc2CalcEnc (utf16le pwdUtf8) (dccUser userUtf8) = .ok (msdcc2 pwdUtf8 userUtf8) := by
  simp only [msdcc2CalcEnc, msdcc2_raw_eq_spec]
  exact hexlify_decode _ (Lemmas.C01Pbkdf.pbkdf2_shape algSha1 Lemmas.C01Pbkdf.algSha1_ok _ _ _ _).2

example : nthashCalcEnc (utf16le (ascii "password")) = .ok (ascii "8846f7eaee8fb117ad06bdd830b7586c") := by
  rw [nthash_calc_eq_spec]; decide +kernel

example : msdccCalcEnc (utf16le (ascii "password")) (dccUser (ascii "Administrator")) = .ok (ascii "25fd08fa89795ed54207e6e8442a6ca0") := by
  rw [msdcc_calc_eq_spec]; decide +kernel

#print axioms hex_calc_eq_spec
#print axioms hex_calc_text_eq_spec
#print axioms hex_calc_text_unencodable
#print axioms hex_md4_eq_spec
#print axioms hex_md5_eq_spec
#print axioms hex_sha1_eq_spec
#print axioms hex_sha256_eq_spec
#print axioms hex_sha512_eq_spec
#print axioms htdigest_hash_eq_spec
#print axioms htdigest_hash_text_eq_spec
#print axioms htdigest_hash_size
#print axioms htdigest_hash_no_user
#print axioms ldap_calc_eq_spec
#print axioms ldap_calc_text_eq_spec
#print axioms ldap_calc_text_unencodable
#print axioms ldap_salted_calc_eq
#print axioms ldap_salted_string_eq_spec
#print axioms ldap_salted_string_text_eq_spec
#print axioms ldap_salted_text_unencodable
#print axioms mysql41_calc_eq_spec
#print axioms mysql41_calc_text_eq_spec
#print axioms mysql41_calc_text_unencodable
#print axioms postgres_calc_eq_spec
#print axioms postgres_calc_text_eq_spec
#print axioms postgres_calc_no_user
#print axioms oracle11_calc_eq_spec
#print axioms oracle11_calc_hex_eq_spec
#print axioms oracle11_calc_bad_salt
#print axioms raw_mssql_eq_spec
#print axioms mssql2005_eq_spec
#print axioms mssql2000_eq_spec
#print axioms nthash_raw_eq_spec
#print axioms nthash_calc_eq_spec
#print axioms msdcc_raw_eq_spec
#print axioms msdcc_calc_eq_spec
#print axioms msdcc2_raw_eq_spec
#print axioms msdcc2_calc_eq_spec

end Props.C02CodeDigest
