import PasslibVerif.Lemmas.Md4
/-
C11 (MD4) — passlib's pure-python MD4 (`passlib/crypto/_md4.py`, class `md4`) is RFC 1320 MD4, and
hashing incrementally (`update` / `copy` / `digest` in ANY split) equals hashing in one shot.

Statements only; the proofs live in `Lemmas/Md4*.lean`.
  Gen.Md4      regenerated from the source (tables, constants, F/G/t-expressions, padding formulas)
  Model.Md4    control flow of `_process` / `update` / `copy` / `digest` on top of `Gen.Md4`
  Spec.MD4     executable transcription of RFC 1320 (checked against the RFC's test suite)
-/
namespace Props.C11Md4
open Model.Md4 Gen.Md4 Lemmas.Md4

/-! ### (a) tables and constants -/

/-- the three reflected round tables are the RFC's rounds: register roles `[abcd][dabc][cdab][bcda]`,
    k order (round 1: in order, round 2: column-wise, round 3: bit-reversed), shifts per round -/
theorem md4_tables_eq_rfc1320 :
    round1 = rfcRound rfcK1 [3, 7, 11, 19] ∧
    round2 = rfcRound rfcK2 [3, 5, 9, 13] ∧
    round3 = rfcRound rfcK3 [3, 9, 11, 15] := Lemmas.Md4.md4_tables_eq_rfc1320

theorem md4_k_orders :
    (List.range 16).map rfcK2 = [0, 4, 8, 12, 1, 5, 9, 13, 2, 6, 10, 14, 3, 7, 11, 15] ∧
    (List.range 16).map rfcK3 = [0, 8, 4, 12, 2, 10, 6, 14, 1, 9, 5, 13, 3, 11, 7, 15] := rfcK_orders

/-- … and they are the `kTab` / `sTab` / role rotation of the executable RFC transcription -/
theorem md4_tables_eq_spec : ∀ i, i < 48 →
    (round1 ++ round2 ++ round3).getD i [] = rfcRoles i ++ [Spec.MD4.kTab[i]!, Spec.MD4.sTab[i]!.toNat] ∧
    0 < Spec.MD4.sTab[i]!.toNat ∧ Spec.MD4.sTab[i]!.toNat < 32 := rows_spec

theorem md4_constants :
    K2 = 0x5A827999 ∧ K3 = 0x6ED9EBA1 ∧ MASK_32 = 2 ^ 32 - 1 ∧
    initState = Spec.MD4.init.toList.map UInt32.toNat :=
  ⟨consts_eq_rfc1320.1, consts_eq_rfc1320.2.1, consts_eq_rfc1320.2.2, initState_eq_spec⟩

/-! ### (b) the compression function -/

/-- `((t << s) & MASK_32) + (t >> (32 - s))` is the 32-bit rotation, for every 32-bit t and 0 < s < 32 -/
theorem rotate_identity (t s : UInt32) (hs0 : 0 < s.toNat) (hs : s.toNat < 32) :
    rotStore t.toNat s.toNat = (Spec.MD4.rotl t s).toNat := rotStore_eq_rotl t s hs0 hs

theorem F_eq_spec (x y z : UInt32) : (Spec.MD4.F x y z).toNat = F x.toNat y.toNat z.toNat := F_eq x y z
theorem G_eq_spec (x y z : UInt32) : (Spec.MD4.G x y z).toNat = G x.toNat y.toNat z.toNat := G_eq x y z

/-- `_process` = RFC 1320 §3.4 on one block -/
theorem process_eq_spec (regs block : List Nat) (hlen : regs.length = 4) (hregs : ∀ x ∈ regs, x < 2 ^ 32)
    (hblock : ∀ b ∈ block, b < 256) :
    process regs block =
      (Spec.MD4.compress (regs.map UInt32.ofNat).toArray (Spec.MD4.toWords block #[])).toList.map UInt32.toNat :=
  Lemmas.Md4.process_eq_spec regs block hlen hregs hblock

/-! ### (c) streaming -/

theorem md4_streaming (parts : List (List Nat)) :
    digest (parts.foldl update init) = md4OneShot parts.flatten := Lemmas.Md4.md4_streaming parts

theorem copy_is_identity (st : State) : copy st = st := copy_eq st

/-- after any updates: `_count*64 + len(_buf)` = bytes fed, `len(_buf) < 64`, the registers are the fold of
    `_process` over the completed 64-byte blocks of the concatenation (and `_process` only sees 64-byte blocks) -/
theorem md4_state_invariant (parts : List (List Nat)) :
    let st := parts.foldl update init
    let total := parts.flatten
    st.count * 64 + st.buf.length = total.length ∧ st.buf.length < 64 ∧
    st.regs = (blocksOf total).foldl process initState ∧
    (blocksOf total).flatten ++ st.buf = total ∧ (blocksOf total).length = st.count ∧
    ∀ b ∈ blocksOf total, b.length = 64 := Lemmas.Md4.md4_state_invariant parts

/-- copy()-then-diverge -/
theorem md4_fork (a b c : List Nat) :
    let h := update init a
    let g := copy h
    digest (update h b) = md4OneShot (a ++ b) ∧ digest (update g c) = md4OneShot (a ++ c) ∧
      digest g = md4OneShot a ∧ digest h = md4OneShot a := Lemmas.Md4.md4_fork a b c

/-- the `assert len(block) == 64` in `digest()` can never fire -/
theorem digest_final_block_length (parts : List (List Nat)) :
    (finalBlock (parts.foldl update init)).length = 64 ∨ (finalBlock (parts.foldl update init)).length = 128 :=
  Lemmas.Md4.digest_final_block_length parts

theorem digest_size (st : State) : (digest st).length = 16 ∧ ∀ b ∈ digest st, b < 256 :=
  ⟨digest_length st, digest_wf st⟩

/-! ### (d) end to end -/

theorem md4_eq_spec (msg : List Nat) (h : ∀ b ∈ msg, b < 256) : md4OneShot msg = Spec.MD4.md4 msg :=
  Lemmas.Md4.md4_eq_spec msg h

/-- every way of feeding the bytes gives RFC 1320's digest of the whole message -/
theorem md4_streaming_eq_spec (parts : List (List Nat)) (h : ∀ p ∈ parts, ∀ b ∈ p, b < 256) :
    digest (parts.foldl update init) = Spec.MD4.md4 parts.flatten :=
  Lemmas.Md4.md4_streaming_eq_spec parts h

end Props.C11Md4
