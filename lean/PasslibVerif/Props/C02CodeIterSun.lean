import PasslibVerif.Lemmas.C02CodeIterSun
/-
C02, group `Iter`, sun_md5_crypt: passlib's `raw_sun_md5_crypt` (inlined coin toss over the `_XY_ROUNDS` tables, `MAGIC_HAMLET`,
the `while round < real_rounds` loop, `h64.encode_transposed_bytes(result, _chk_offsets)`) and `sun_md5_crypt._calc_checksum`
(configuration string built by `to_string(_withchk=False)`, with and without `bare_salt`) equal the transcription of Solaris
`sunmd5.c` in Spec/Formats/Iterated.lean — for every password, salt, rounds value and both salt conventions.
(The companion file Props/C02CodeIter.lean holds phpass, mysql323, mysql41, sha1_crypt, fshp, cisco_pix / asa, cisco_type7.)
-/
namespace Props.C02CodeIter
open Py Model.Code.Iter Lemmas.C02CodeIter Lemmas.PbkdfLen Lemmas.C01MiscDigest
open Model.Verify (Secret)

/-- the phrase in the source is the phrase of `sunmd5.c`, NUL included (1517 bytes) -/
theorem sun_magic_hamlet : MAGIC_HAMLET = Spec.Formats.hamlet ∧ MAGIC_HAMLET.length = 1517 :=
  ⟨magic_hamlet_eq, by decide +kernel⟩

/-- passlib's coin (table-driven, 7-bit accumulators) is Muffett's coin toss, for every 16-byte value (indeed every list) and
    every round number -/
theorem sun_coin_eq_spec (d : Bytes) (round : Nat) : sunCoin d round = Spec.Formats.coinToss d round := sunCoin_eq d round

/-- `raw_sun_md5_crypt(secret, rounds, salt)`: every secret, every `rounds`, every configuration string — no hypothesis at all -/
theorem raw_sun_md5_crypt_eq_spec (secret config : Bytes) (rounds : Nat) :
    rawSunMd5Crypt Spec.MD5.md5 secret rounds config = .ok (Spec.Formats.sunMd5CryptOfConfig secret config rounds) := by
  unfold rawSunMd5Crypt Spec.Formats.sunMd5CryptOfConfig
  have h16 : ¬ (Spec.MD5.md5 (secret ++ config)).length ≠ 16 := by rw [Lemmas.DigestLen.md5_length]; simp
  simp only [bind, Except.bind, h16, if_false, pure, Except.pure]
  rw [sunWhile_eq _ _ 0 _ (Nat.zero_add _)]
  exact sunEncode_eq _
    (sunLoop_md5 (fun b => b.length = 16) Lemmas.DigestLen.md5_length _ _ _ (Lemmas.DigestLen.md5_length _))
    (sunLoop_md5 Bytes.WF Lemmas.DigestLen.md5_bytes _ _ _ (Lemmas.DigestLen.md5_bytes _))

/-- the `assert len(result) == 16` can never fire -/
theorem raw_sun_md5_crypt_total (secret config : Bytes) (rounds : Nat) :
    ∃ c, rawSunMd5Crypt Spec.MD5.md5 secret rounds config = .ok c := ⟨_, raw_sun_md5_crypt_eq_spec secret config rounds⟩

/-- `sun_md5_crypt._calc_checksum` = Solaris `crypt_sunmd5`: every secret (text or bytes, NUL included), every ASCII salt, every
    `rounds` (0 = the `$md5$` form, otherwise `$md5,rounds=N$`), `bare_salt` or not -/
theorem sun_md5_crypt_eq_spec (s : Secret) (b : Bytes) (salt : List Nat) (rounds : Nat) (bare : Bool)
    (hb : s.toBytes = .ok b) (hsalt : ∀ c ∈ salt, c < 128) :
    sunMd5CalcChecksum Spec.MD5.md5 salt rounds bare s = .ok (Spec.Formats.sunMd5Crypt b salt rounds bare) := by
  unfold sunMd5CalcChecksum Spec.Formats.sunMd5Crypt
  rw [hb]
  rw [encodeAscii_ok _ (sunConfig_ascii salt rounds bare hsalt), sunConfig_eq]
  exact raw_sun_md5_crypt_eq_spec b _ rounds

theorem sun_md5_crypt_refuses_unencodable (md5 : Bytes → Bytes) (s : Secret) (e : ErrKind) (salt : List Nat) (rounds : Nat)
    (bare : Bool) (hb : s.toBytes = .error e) : sunMd5CalcChecksum md5 salt rounds bare s = .error e := by
  unfold sunMd5CalcChecksum; rw [hb]; rfl

/-- `str_to_bascii` fails on a non-ASCII salt -/
theorem sun_md5_crypt_refuses_non_ascii_salt (md5 : Bytes → Bytes) (s : Secret) (b : Bytes) (salt : List Nat) (rounds c : Nat)
    (bare : Bool) (hb : s.toBytes = .ok b) (hc : c ∈ salt) (h : 128 ≤ c) :
    sunMd5CalcChecksum md5 salt rounds bare s = .error .valueError := by
  unfold sunMd5CalcChecksum
  rw [hb]
  have hm : c ∈ sunToStringNoChk salt rounds bare := by
    unfold sunToStringNoChk
    simp only []
    split <;> simp [hc]
  simp only [bind, Except.bind, encodeAscii_err _ c hm h]

-- non-vacuity: the hypotheses on a real case; `sun_md5_crypt(salt="abcd", rounds=7)._calc_checksum("pässword")` on
-- /tmp/repo_clean is "Vc6fWBiMN86rPmn43/eDz1" (4103 MD5 rounds: evaluated by the compiled model in the `citer` run and by `#guard`
-- here, not by the kernel); the coin equality itself is checked by the kernel on a digest of the real run
example : (Secret.text [112, 228, 115, 115, 119, 111, 114, 100]).toBytes = .ok [112, 195, 164, 115, 115, 119, 111, 114, 100] ∧
    (∀ c ∈ Spec.Formats.ascii "abcd", c < 128) ∧
    sunToStringNoChk (Spec.Formats.ascii "abcd") 7 false = Spec.Formats.ascii "$md5,rounds=7$abcd$" := by decide
example : sunCoin (Spec.MD5.md5 (Spec.Formats.ascii "pw$md5$ab$")) 5 = Spec.Formats.coinToss (Spec.MD5.md5 (Spec.Formats.ascii "pw$md5$ab$")) 5 ∧
    sunCoin [200, 2, 3, 77, 5, 6, 7, 8, 9, 10, 11, 12, 13, 14, 15, 255] 0 = 0 ∧
    sunCoin [200, 2, 3, 77, 5, 6, 7, 8, 9, 10, 11, 12, 13, 14, 15, 255] 1 = 1 := by decide +kernel
#guard sunMd5CalcChecksum Spec.MD5.md5 (Spec.Formats.ascii "abcd") 7 false (.text [112, 228, 115, 115, 119, 111, 114, 100])
  = .ok (Spec.Formats.ascii "Vc6fWBiMN86rPmn43/eDz1")

end Props.C02CodeIter
