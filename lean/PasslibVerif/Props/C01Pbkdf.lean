import PasslibVerif.Lemmas.C01PbkdfRaw
import PasslibVerif.Lemmas.C01PbkdfText
import PasslibVerif.Lemmas.C01PbkdfEx2
import PasslibVerif.Lemmas.C01PbkdfEx3
/-
C01 — "a hash verifies exactly the password it was made from", END TO END for the PBKDF family:

  pbkdf2_sha1 / _sha256 / _sha512 · ldap_pbkdf2_sha1 / _sha256 / _sha512 · cta_pbkdf2_sha1 · grub_pbkdf2_sha512 ·
  atlassian_pbkdf2_sha1 · sha1_crypt · dlitz_pbkdf2_sha1 · django_pbkdf2_sha1 / _sha256 · django_salted_md5 / _sha1

hasher = the C07 model of `from_string` / `to_string` (Model/Formats/Pbkdf.lean) + the published checksum specification
(Spec/Formats/Kdf.lean, Iterated.lean, Digests.lean over the RFC 8018 / RFC 2104 / FIPS 180-4 / RFC 1321 transcriptions),
assembled in Model/VerifyFmt/Pbkdf.lean.  Per format X, for ALL admissible settings (every salt over the format's alphabet and size
range, every rounds value 1 … 2^32-1) and every secret:

  X_roundtrips           `Props.C01.RoundTrips`: the format round-trips on every checksum the algorithm can produce
  X_verifies_own_hash    hash succeeded → verify of the same secret answers True
  X_hash_string          hash DOES succeed for every encodable secret within the size limit (NUL-free for sha1_crypt) — and the
                         string is: ident, rounds, salt field, the Spec checksum     (X_hash_succeeds: the ∃ form)
  X_identifies_own_hash  identify answers True on what hash returned
  X_verify_other         verify of another admissible secret answers exactly "the two checksums are equal"
                         (no collision-freeness is claimed: that is a property of the digests)

Text and its UTF-8 bytes are the same secret for every hasher (`Props.C01.text_and_bytes_agree`), oversized secrets are refused
before anything else (`Props.C01.oversized_refused`): those two are generic and need no instantiation.
None of these formats has a documented equivalence between different secrets (no truncation, no case folding).
-/
namespace Props.C01Pbkdf
open Py Model.Handler Model.Formats Model.Verify Model.VerifyFmt.Pbkdf Props.C01 Lemmas.C01Pbkdf Lemmas.FormatsPbkdf
open Spec.Formats (HashAlg algSha1 algSha256 algSha512)

/-! ## raw handlers on parse_mc3 — generic in separator, rounds base, field codec and key function -/
section raw
variable (sep : Nat) (hex : Bool) (ident : Str) (n : Nat) (enc : Bytes → Str) (dec : Str → Res Bytes)
  (kdf : Bytes → Bytes → Nat → Bytes)

theorem rawMc3_verifies_own_hash (hsep : sep < 48) (hn : n ≠ 0) (hcodec : CodecOK sep enc dec) (hk : KdfOK n kdf) (s : Secret)
    (salt : Bytes) (rounds : Nat) (hset : RawSettingsOK salt rounds) (hs : Str)
    (hh : hashSecret (rawMc3Hasher sep hex ident n enc dec kdf) s (mc3Settings ident salt rounds) = .ok hs) :
    verify (rawMc3Hasher sep hex ident n enc dec kdf) s hs = .ok true :=
  verify_own_hash _ s _ hs (rawMc3_roundtrips sep hex ident n enc dec kdf hsep hn hcodec hk salt rounds hset)
    (rawMc3_ignores sep hex ident n enc dec kdf) hh

theorem rawMc3_verify_other (hsep : sep < 48) (hn : n ≠ 0) (hcodec : CodecOK sep enc dec) (hk : KdfOK n kdf) (s s' : Secret)
    (b b' : Bytes) (salt : Bytes) (rounds : Nat) (hset : RawSettingsOK salt rounds) (hs : Str)
    (hh : hashSecret (rawMc3Hasher sep hex ident n enc dec kdf) s (mc3Settings ident salt rounds) = .ok hs)
    (hb : s.toBytes = .ok b) (hv' : s'.len ≤ MAX_PASSWORD_SIZE) (hb' : s'.toBytes = .ok b') :
    verify (rawMc3Hasher sep hex ident n enc dec kdf) s' hs = .ok (kdf b' salt rounds == kdf b salt rounds) :=
  verify_other _ s s' b b' _ hs _ _ (rawMc3_roundtrips sep hex ident n enc dec kdf hsep hn hcodec hk salt rounds hset)
    (rawMc3_ignores sep hex ident n enc dec kdf) hh hb hv' hb' rfl (Or.inl rfl) rfl rfl

end raw

/-! ### pbkdf2_sha1 / pbkdf2_sha256 / pbkdf2_sha512 (generic in the PRF hash) -/

theorem pbkdf2_roundtrips (a : HashAlg) (ha : AlgOK a) (ident : Str) (salt : Bytes) (rounds : Nat) (hset : RawSettingsOK salt rounds) :
    RoundTrips (pbkdf2Hasher a ident) (mc3Settings ident salt rounds) :=
  rawMc3_roundtrips DOLLAR false ident a.hLen _ _ _ (by decide) (Nat.pos_iff_ne_zero.1 ha.2) ab64_codec (pbkdf2Key_ok a ha) salt rounds hset

theorem pbkdf2_verifies_own_hash (a : HashAlg) (ha : AlgOK a) (ident : Str) (s : Secret) (salt : Bytes) (rounds : Nat)
    (hset : RawSettingsOK salt rounds) (hs : Str) (hh : hashSecret (pbkdf2Hasher a ident) s (mc3Settings ident salt rounds) = .ok hs) :
    verify (pbkdf2Hasher a ident) s hs = .ok true :=
  rawMc3_verifies_own_hash DOLLAR false ident a.hLen _ _ _ (by decide) (Nat.pos_iff_ne_zero.1 ha.2) ab64_codec (pbkdf2Key_ok a ha)
    s salt rounds hset hs hh

/-- `hash` succeeds for every encodable secret within the size limit (NUL bytes are data), any salt, any rounds, and returns
    `ident` + decimal rounds + `$` + ab64(salt) + `$` + the Spec checksum (`Spec.Formats.pbkdf2Digest`: ab64 of the PBKDF2 key) -/
theorem pbkdf2_hash_string (a : HashAlg) (ha : AlgOK a) (ident : Str) (s : Secret) (b salt : Bytes) (rounds : Nat)
    (hv : s.len ≤ MAX_PASSWORD_SIZE) (hb : s.toBytes = .ok b) :
    hashSecret (pbkdf2Hasher a ident) s (mc3Settings ident salt rounds) =
      .ok (ident ++ (fmtDec (rounds : Int) ++ DOLLAR :: (Spec.Formats.ab64 salt ++ DOLLAR :: Spec.Formats.pbkdf2Digest a b salt rounds))) :=
  rawMc3_hash_string DOLLAR false ident a.hLen _ _ _ (Nat.pos_iff_ne_zero.1 ha.2) ab64_codec (pbkdf2Key_ok a ha) s b salt rounds hv hb

theorem pbkdf2_hash_succeeds (a : HashAlg) (ha : AlgOK a) (ident : Str) (s : Secret) (b salt : Bytes) (rounds : Nat)
    (hv : s.len ≤ MAX_PASSWORD_SIZE) (hb : s.toBytes = .ok b) :
    ∃ hs, hashSecret (pbkdf2Hasher a ident) s (mc3Settings ident salt rounds) = .ok hs :=
  ⟨_, pbkdf2_hash_string a ha ident s b salt rounds hv hb⟩

theorem pbkdf2_identifies_own_hash (a : HashAlg) (ha : AlgOK a) (ident : Str) (hne : ident ≠ []) (s : Secret) (salt : Bytes)
    (rounds : Nat) (hs : Str) (hh : hashSecret (pbkdf2Hasher a ident) s (mc3Settings ident salt rounds) = .ok hs) :
    identByPrefix ident hs = true :=
  rawMc3_identifies DOLLAR false ident a.hLen _ _ _ hne (Nat.pos_iff_ne_zero.1 ha.2) ab64_codec (pbkdf2Key_ok a ha) s salt rounds hs hh

/-- another admissible secret verifies True exactly when its PBKDF2 key is the same -/
theorem pbkdf2_verify_other (a : HashAlg) (ha : AlgOK a) (ident : Str) (s s' : Secret) (b b' salt : Bytes) (rounds : Nat)
    (hset : RawSettingsOK salt rounds) (hs : Str) (hh : hashSecret (pbkdf2Hasher a ident) s (mc3Settings ident salt rounds) = .ok hs)
    (hb : s.toBytes = .ok b) (hv' : s'.len ≤ MAX_PASSWORD_SIZE) (hb' : s'.toBytes = .ok b') :
    verify (pbkdf2Hasher a ident) s' hs = .ok (pbkdf2Key a b' salt rounds == pbkdf2Key a b salt rounds) :=
  rawMc3_verify_other DOLLAR false ident a.hLen _ _ _ (by decide) (Nat.pos_iff_ne_zero.1 ha.2) ab64_codec (pbkdf2Key_ok a ha)
    s s' b b' salt rounds hset hs hh hb hv' hb'

/-! the three registered classes -/
theorem pbkdf2_sha1_roundtrips (salt : Bytes) (rounds : Nat) (h : RawSettingsOK salt rounds) :
    RoundTrips pbkdf2_sha1Hasher (mc3Settings PBKDF2_SHA1_IDENT salt rounds) := pbkdf2_roundtrips _ algSha1_ok _ salt rounds h
theorem pbkdf2_sha256_roundtrips (salt : Bytes) (rounds : Nat) (h : RawSettingsOK salt rounds) :
    RoundTrips pbkdf2_sha256Hasher (mc3Settings PBKDF2_SHA256_IDENT salt rounds) := pbkdf2_roundtrips _ algSha256_ok _ salt rounds h
theorem pbkdf2_sha512_roundtrips (salt : Bytes) (rounds : Nat) (h : RawSettingsOK salt rounds) :
    RoundTrips pbkdf2_sha512Hasher (mc3Settings PBKDF2_SHA512_IDENT salt rounds) := pbkdf2_roundtrips _ algSha512_ok _ salt rounds h

theorem pbkdf2_sha1_verifies_own_hash (s : Secret) (salt : Bytes) (rounds : Nat) (h : RawSettingsOK salt rounds) (hs : Str)
    (hh : hashSecret pbkdf2_sha1Hasher s (mc3Settings PBKDF2_SHA1_IDENT salt rounds) = .ok hs) :
    verify pbkdf2_sha1Hasher s hs = .ok true := pbkdf2_verifies_own_hash _ algSha1_ok _ s salt rounds h hs hh
theorem pbkdf2_sha256_verifies_own_hash (s : Secret) (salt : Bytes) (rounds : Nat) (h : RawSettingsOK salt rounds) (hs : Str)
    (hh : hashSecret pbkdf2_sha256Hasher s (mc3Settings PBKDF2_SHA256_IDENT salt rounds) = .ok hs) :
    verify pbkdf2_sha256Hasher s hs = .ok true := pbkdf2_verifies_own_hash _ algSha256_ok _ s salt rounds h hs hh
theorem pbkdf2_sha512_verifies_own_hash (s : Secret) (salt : Bytes) (rounds : Nat) (h : RawSettingsOK salt rounds) (hs : Str)
    (hh : hashSecret pbkdf2_sha512Hasher s (mc3Settings PBKDF2_SHA512_IDENT salt rounds) = .ok hs) :
    verify pbkdf2_sha512Hasher s hs = .ok true := pbkdf2_verifies_own_hash _ algSha512_ok _ s salt rounds h hs hh

theorem pbkdf2_sha1_hash_succeeds (s : Secret) (b salt : Bytes) (rounds : Nat) (hv : s.len ≤ MAX_PASSWORD_SIZE) (hb : s.toBytes = .ok b) :
    ∃ hs, hashSecret pbkdf2_sha1Hasher s (mc3Settings PBKDF2_SHA1_IDENT salt rounds) = .ok hs :=
  pbkdf2_hash_succeeds _ algSha1_ok _ s b salt rounds hv hb
theorem pbkdf2_sha256_hash_succeeds (s : Secret) (b salt : Bytes) (rounds : Nat) (hv : s.len ≤ MAX_PASSWORD_SIZE) (hb : s.toBytes = .ok b) :
    ∃ hs, hashSecret pbkdf2_sha256Hasher s (mc3Settings PBKDF2_SHA256_IDENT salt rounds) = .ok hs :=
  pbkdf2_hash_succeeds _ algSha256_ok _ s b salt rounds hv hb
theorem pbkdf2_sha512_hash_succeeds (s : Secret) (b salt : Bytes) (rounds : Nat) (hv : s.len ≤ MAX_PASSWORD_SIZE) (hb : s.toBytes = .ok b) :
    ∃ hs, hashSecret pbkdf2_sha512Hasher s (mc3Settings PBKDF2_SHA512_IDENT salt rounds) = .ok hs :=
  pbkdf2_hash_succeeds _ algSha512_ok _ s b salt rounds hv hb

theorem pbkdf2_sha1_identifies_own_hash (s : Secret) (salt : Bytes) (rounds : Nat) (hs : Str)
    (hh : hashSecret pbkdf2_sha1Hasher s (mc3Settings PBKDF2_SHA1_IDENT salt rounds) = .ok hs) :
    pbkdf2_sha1X.identify hs = true := pbkdf2_identifies_own_hash _ algSha1_ok _ (by decide) s salt rounds hs hh
theorem pbkdf2_sha256_identifies_own_hash (s : Secret) (salt : Bytes) (rounds : Nat) (hs : Str)
    (hh : hashSecret pbkdf2_sha256Hasher s (mc3Settings PBKDF2_SHA256_IDENT salt rounds) = .ok hs) :
    pbkdf2_sha256X.identify hs = true := pbkdf2_identifies_own_hash _ algSha256_ok _ (by decide) s salt rounds hs hh
theorem pbkdf2_sha512_identifies_own_hash (s : Secret) (salt : Bytes) (rounds : Nat) (hs : Str)
    (hh : hashSecret pbkdf2_sha512Hasher s (mc3Settings PBKDF2_SHA512_IDENT salt rounds) = .ok hs) :
    pbkdf2_sha512X.identify hs = true := pbkdf2_identifies_own_hash _ algSha512_ok _ (by decide) s salt rounds hs hh

/-! ### ldap_pbkdf2_sha1 / _sha256 / _sha512: `PrefixWrapper.hash` / `.verify` / `.identify` -/

/-- the wrappers of the family: an LDAP prefix around a pbkdf2 class -/
def LdapOf (w : Wrapped) (a : HashAlg) : Prop := AlgOK a ∧ w.inner = pbkdf2Hasher a w.orig ∧ w.orig ≠ []

theorem ldap_sha1 : LdapOf ldap_pbkdf2_sha1W algSha1 := ⟨algSha1_ok, rfl, by decide⟩
theorem ldap_sha256 : LdapOf ldap_pbkdf2_sha256W algSha256 := ⟨algSha256_ok, rfl, by decide⟩
theorem ldap_sha512 : LdapOf ldap_pbkdf2_sha512W algSha512 := ⟨algSha512_ok, rfl, by decide⟩

/-- whatever the wrapper's `hash` returns, the wrapper's `verify` answers True for the same secret -/
theorem ldap_pbkdf2_verifies_own_hash (w : Wrapped) (a : HashAlg) (hw : LdapOf w a) (s : Secret) (salt : Bytes) (rounds : Nat)
    (hset : RawSettingsOK salt rounds) (hs : Str) (hh : w.hash s (mc3Settings w.orig salt rounds) = .ok hs) :
    w.verify s hs = .ok true := by
  obtain ⟨ha, hi, _⟩ := hw
  unfold Wrapped.hash at hh
  unfold Wrapped.verify
  rw [hi] at hh ⊢
  exact wrap_verifies_own w.pfx w.orig _ s _ hs (pbkdf2_roundtrips a ha w.orig salt rounds hset) (fun _ _ _ => rfl) hh

/-- the wrapper's `hash` succeeds and returns the LDAP prefix + the wrapped hash without its `$pbkdf2…$` ident -/
theorem ldap_pbkdf2_hash_string (w : Wrapped) (a : HashAlg) (hw : LdapOf w a) (s : Secret) (b salt : Bytes) (rounds : Nat)
    (hv : s.len ≤ MAX_PASSWORD_SIZE) (hb : s.toBytes = .ok b) :
    w.hash s (mc3Settings w.orig salt rounds) =
      .ok (w.pfx ++ (fmtDec (rounds : Int) ++ DOLLAR :: (Spec.Formats.ab64 salt ++ DOLLAR :: Spec.Formats.pbkdf2Digest a b salt rounds))) := by
  obtain ⟨ha, hi, _⟩ := hw
  unfold Wrapped.hash
  rw [hi]
  exact wrapHash_string w.pfx w.orig _ s _ _ (pbkdf2_hash_string a ha w.orig s b salt rounds hv hb)

theorem ldap_pbkdf2_hash_succeeds (w : Wrapped) (a : HashAlg) (hw : LdapOf w a) (s : Secret) (b salt : Bytes) (rounds : Nat)
    (hv : s.len ≤ MAX_PASSWORD_SIZE) (hb : s.toBytes = .ok b) : ∃ hs, w.hash s (mc3Settings w.orig salt rounds) = .ok hs :=
  ⟨_, ldap_pbkdf2_hash_string w a hw s b salt rounds hv hb⟩

theorem ldap_pbkdf2_identifies_own_hash (w : Wrapped) (a : HashAlg) (hw : LdapOf w a) (s : Secret) (salt : Bytes) (rounds : Nat)
    (hs : Str) (hh : w.hash s (mc3Settings w.orig salt rounds) = .ok hs) : w.identify hs = true := by
  obtain ⟨ha, hi, hne⟩ := hw
  unfold Wrapped.hash wrapHash at hh
  rw [hi] at hh
  cases h0 : hashSecret (pbkdf2Hasher a w.orig) s (mc3Settings w.orig salt rounds) with
  | error e => simp [h0] at hh
  | ok hs0 =>
    have hid := pbkdf2_identifies_own_hash a ha w.orig hne s salt rounds hs0 h0
    simp only [h0, wrapStr] at hh
    cases hsp : stripPrefix w.orig hs0 with
    | none => simp [hsp] at hh
    | some rest =>
      simp only [hsp, Except.ok.injEq] at hh
      subst hh
      have hform : hs0 = w.orig ++ rest := by
        unfold stripPrefix at hsp
        split at hsp
        · rename_i hpre
          simp only [Option.some.injEq] at hsp
          subst hsp
          obtain ⟨t, rfl⟩ := List.isPrefixOf_iff_prefix.1 hpre
          simp
        · cases hsp
      unfold Wrapped.identify
      exact wrap_identify w.pfx w.orig _ rest (hform ▸ hid)

/-- another admissible secret: the wrapper's `verify` answers True exactly when the PBKDF2 keys are equal -/
theorem ldap_pbkdf2_verify_other (w : Wrapped) (a : HashAlg) (hw : LdapOf w a) (s s' : Secret) (b b' salt : Bytes) (rounds : Nat)
    (hset : RawSettingsOK salt rounds) (hs : Str) (hh : w.hash s (mc3Settings w.orig salt rounds) = .ok hs)
    (hb : s.toBytes = .ok b) (hv' : s'.len ≤ MAX_PASSWORD_SIZE) (hb' : s'.toBytes = .ok b') :
    w.verify s' hs = .ok (pbkdf2Key a b' salt rounds == pbkdf2Key a b salt rounds) := by
  obtain ⟨ha, hi, _⟩ := hw
  unfold Wrapped.hash at hh
  unfold Wrapped.verify
  rw [hi] at hh ⊢
  obtain ⟨rest, h0, rfl⟩ := wrapHash_inv _ _ _ _ _ _ hh
  rw [wrapVerify_wrapped]
  exact pbkdf2_verify_other a ha w.orig s s' b b' salt rounds hset _ h0 hb hv' hb'

/-- the verify of the wrapper differs from the generic one in the ORDER of its checks only: a string without the LDAP prefix is a
    ValueError even when the secret is oversized (the generic order would report the size first) -/
theorem ldap_verify_prefix_first (w : Wrapped) (s : Secret) (hs : Str) (h : stripPrefix w.pfx hs = none) :
    w.verify s hs = .error .valueError := by
  simp only [Wrapped.verify, wrapVerify, h]

/-! ### cta_pbkdf2_sha1 -/
theorem cta_roundtrips (salt : Bytes) (rounds : Nat) (h : RawSettingsOK salt rounds) :
    RoundTrips ctaHasher (mc3Settings P5K2_IDENT salt rounds) :=
  rawMc3_roundtrips DOLLAR true P5K2_IDENT 20 _ _ _ (by decide) (by decide) b64Alt_codec ctaKey_ok salt rounds h

theorem cta_verifies_own_hash (s : Secret) (salt : Bytes) (rounds : Nat) (h : RawSettingsOK salt rounds) (hs : Str)
    (hh : hashSecret ctaHasher s (mc3Settings P5K2_IDENT salt rounds) = .ok hs) : verify ctaHasher s hs = .ok true :=
  rawMc3_verifies_own_hash DOLLAR true P5K2_IDENT 20 _ _ _ (by decide) (by decide) b64Alt_codec ctaKey_ok s salt rounds h hs hh

/-- `$p5k2$` + lower-case hex rounds + `$` + base64url(salt) + `$` + the Spec checksum (base64url of the 20 byte key) -/
theorem cta_hash_string (s : Secret) (b salt : Bytes) (rounds : Nat) (hv : s.len ≤ MAX_PASSWORD_SIZE) (hb : s.toBytes = .ok b) :
    hashSecret ctaHasher s (mc3Settings P5K2_IDENT salt rounds) =
      .ok (P5K2_IDENT ++ (fmtHex (rounds : Int) ++ DOLLAR :: (b64AltEncode salt ++ DOLLAR :: Spec.Formats.ctaPbkdf2Sha1 b salt rounds))) :=
  rawMc3_hash_string DOLLAR true P5K2_IDENT 20 _ _ _ (by decide) b64Alt_codec ctaKey_ok s b salt rounds hv hb

theorem cta_hash_succeeds (s : Secret) (b salt : Bytes) (rounds : Nat) (hv : s.len ≤ MAX_PASSWORD_SIZE) (hb : s.toBytes = .ok b) :
    ∃ hs, hashSecret ctaHasher s (mc3Settings P5K2_IDENT salt rounds) = .ok hs := ⟨_, cta_hash_string s b salt rounds hv hb⟩

theorem cta_identifies_own_hash (s : Secret) (salt : Bytes) (rounds : Nat) (hs : Str)
    (hh : hashSecret ctaHasher s (mc3Settings P5K2_IDENT salt rounds) = .ok hs) : cta_pbkdf2_sha1X.identify hs = true :=
  rawMc3_identifies DOLLAR true P5K2_IDENT 20 _ _ _ (by decide) (by decide) b64Alt_codec ctaKey_ok s salt rounds hs hh

theorem cta_verify_other (s s' : Secret) (b b' salt : Bytes) (rounds : Nat) (h : RawSettingsOK salt rounds) (hs : Str)
    (hh : hashSecret ctaHasher s (mc3Settings P5K2_IDENT salt rounds) = .ok hs) (hb : s.toBytes = .ok b)
    (hv' : s'.len ≤ MAX_PASSWORD_SIZE) (hb' : s'.toBytes = .ok b') :
    verify ctaHasher s' hs = .ok (Spec.Formats.pbkdf2 algSha1 b' salt rounds 20 == Spec.Formats.pbkdf2 algSha1 b salt rounds 20) :=
  rawMc3_verify_other DOLLAR true P5K2_IDENT 20 _ _ _ (by decide) (by decide) b64Alt_codec ctaKey_ok s s' b b' salt rounds h hs hh hb hv' hb'

/-! ### grub_pbkdf2_sha512 -/
theorem grub_roundtrips (salt : Bytes) (rounds : Nat) (h : RawSettingsOK salt rounds) :
    RoundTrips grubHasher (mc3Settings GRUB_IDENT salt rounds) :=
  rawMc3_roundtrips DOT false GRUB_IDENT 64 _ _ _ (by decide) (by decide) hex_codec grubKey_ok salt rounds h

theorem grub_verifies_own_hash (s : Secret) (salt : Bytes) (rounds : Nat) (h : RawSettingsOK salt rounds) (hs : Str)
    (hh : hashSecret grubHasher s (mc3Settings GRUB_IDENT salt rounds) = .ok hs) : verify grubHasher s hs = .ok true :=
  rawMc3_verifies_own_hash DOT false GRUB_IDENT 64 _ _ _ (by decide) (by decide) hex_codec grubKey_ok s salt rounds h hs hh

/-- `grub.pbkdf2.sha512.` + decimal rounds + `.` + HEX(salt) + `.` + the Spec checksum (upper-case hex of the 64 byte key) -/
theorem grub_hash_string (s : Secret) (b salt : Bytes) (rounds : Nat) (hv : s.len ≤ MAX_PASSWORD_SIZE) (hb : s.toBytes = .ok b) :
    hashSecret grubHasher s (mc3Settings GRUB_IDENT salt rounds) =
      .ok (GRUB_IDENT ++ (fmtDec (rounds : Int) ++ DOT :: (pbHexlifyUpper salt ++ DOT :: Spec.Formats.grubPbkdf2Sha512 b salt rounds))) := by
  rw [← grub_field_eq_spec]
  exact rawMc3_hash_string DOT false GRUB_IDENT 64 _ _ _ (by decide) hex_codec grubKey_ok s b salt rounds hv hb

theorem grub_hash_succeeds (s : Secret) (b salt : Bytes) (rounds : Nat) (hv : s.len ≤ MAX_PASSWORD_SIZE) (hb : s.toBytes = .ok b) :
    ∃ hs, hashSecret grubHasher s (mc3Settings GRUB_IDENT salt rounds) = .ok hs := ⟨_, grub_hash_string s b salt rounds hv hb⟩

theorem grub_identifies_own_hash (s : Secret) (salt : Bytes) (rounds : Nat) (hs : Str)
    (hh : hashSecret grubHasher s (mc3Settings GRUB_IDENT salt rounds) = .ok hs) : grub_pbkdf2_sha512X.identify hs = true :=
  rawMc3_identifies DOT false GRUB_IDENT 64 _ _ _ (by decide) (by decide) hex_codec grubKey_ok s salt rounds hs hh

theorem grub_verify_other (s s' : Secret) (b b' salt : Bytes) (rounds : Nat) (h : RawSettingsOK salt rounds) (hs : Str)
    (hh : hashSecret grubHasher s (mc3Settings GRUB_IDENT salt rounds) = .ok hs) (hb : s.toBytes = .ok b)
    (hv' : s'.len ≤ MAX_PASSWORD_SIZE) (hb' : s'.toBytes = .ok b') :
    verify grubHasher s' hs = .ok (Spec.Formats.pbkdf2 algSha512 b' salt rounds 64 == Spec.Formats.pbkdf2 algSha512 b salt rounds 64) :=
  rawMc3_verify_other DOT false GRUB_IDENT 64 _ _ _ (by decide) (by decide) hex_codec grubKey_ok s s' b b' salt rounds h hs hh hb hv' hb'

/-! ### atlassian_pbkdf2_sha1 (salt of exactly 16 octets) -/
theorem atlassian_roundtrips (salt : Bytes) (hs : Bytes.WF salt) (hl : salt.length = 16) :
    RoundTrips atlassianHasher (atlassianSettings salt) := Lemmas.C01Pbkdf.atlassian_roundtrips salt hs hl

theorem atlassian_verifies_own_hash (s : Secret) (salt : Bytes) (hsw : Bytes.WF salt) (hl : salt.length = 16) (hs : Str)
    (hh : hashSecret atlassianHasher s (atlassianSettings salt) = .ok hs) : verify atlassianHasher s hs = .ok true :=
  verify_own_hash _ s _ hs (atlassian_roundtrips salt hsw hl) (fun _ _ _ => rfl) hh

/-- `{PKCS5S2}` + the Spec checksum field: base64(salt ‖ PBKDF2-HMAC-SHA1(secret, salt, 10000, 32)) -/
theorem atlassian_hash_string (s : Secret) (b salt : Bytes) (hv : s.len ≤ MAX_PASSWORD_SIZE) (hb : s.toBytes = .ok b) :
    hashSecret atlassianHasher s (atlassianSettings salt) = .ok (ATLASSIAN_IDENT ++ Spec.Formats.atlassianPbkdf2Sha1 b salt) := by
  rw [hashSecret_succeeds atlassianHasher s b _ _ hv hb rfl (Or.inl rfl) rfl, atlassian_render_string]
  rfl

theorem atlassian_hash_succeeds (s : Secret) (b salt : Bytes) (hv : s.len ≤ MAX_PASSWORD_SIZE) (hb : s.toBytes = .ok b) :
    ∃ hs, hashSecret atlassianHasher s (atlassianSettings salt) = .ok hs := ⟨_, atlassian_hash_string s b salt hv hb⟩

theorem atlassian_identifies_own_hash (s : Secret) (salt : Bytes) (hs : Str)
    (hh : hashSecret atlassianHasher s (atlassianSettings salt) = .ok hs) : atlassian_pbkdf2_sha1X.identify hs = true := by
  obtain ⟨b, c, hd, rfl⟩ := hashSecret_form _ s _ hs hh
  rw [atlassian_render_string]
  exact identByPrefix_append ATLASSIAN_IDENT (Spec.Rfc4648.base64 (salt ++ c)) (by decide)

theorem atlassian_verify_other (s s' : Secret) (b b' salt : Bytes) (hsw : Bytes.WF salt) (hl : salt.length = 16) (hs : Str)
    (hh : hashSecret atlassianHasher s (atlassianSettings salt) = .ok hs) (hb : s.toBytes = .ok b)
    (hv' : s'.len ≤ MAX_PASSWORD_SIZE) (hb' : s'.toBytes = .ok b') :
    verify atlassianHasher s' hs =
      .ok (Spec.Formats.pbkdf2 algSha1 b' salt 10000 32 == Spec.Formats.pbkdf2 algSha1 b salt 10000 32) :=
  verify_other _ s s' b b' _ hs _ _ (atlassian_roundtrips salt hsw hl) (fun _ _ _ => rfl) hh hb hv' hb' rfl (Or.inl rfl) rfl rfl

/-! ## text handlers -/

/-! ### sha1_crypt (salt: 0 … 64 hash64 characters; refuses NUL) -/
abbrev Sha1CryptSettingsOK := TextSettingsOK h64 0 (some 64)

theorem sha1_crypt_roundtrips (salt : Str) (rounds : Nat) (h : Sha1CryptSettingsOK salt rounds) :
    RoundTrips sha1CryptHasher (mc3Settings SHA1C_IDENT salt rounds) := sha1Crypt_roundtrips salt rounds h

theorem sha1_crypt_verifies_own_hash (s : Secret) (salt : Str) (rounds : Nat) (h : Sha1CryptSettingsOK salt rounds) (hs : Str)
    (hh : hashSecret sha1CryptHasher s (mc3Settings SHA1C_IDENT salt rounds) = .ok hs) : verify sha1CryptHasher s hs = .ok true :=
  verify_own_hash _ s _ hs (sha1Crypt_roundtrips salt rounds h) (fun _ _ _ => rfl) hh

/-- `$sha1$` + decimal rounds + `$` + salt + `$` + the Spec checksum, for every NUL-free encodable secret within the size limit -/
theorem sha1_crypt_hash_string (s : Secret) (b : Bytes) (salt : Str) (rounds : Nat) (hv : s.len ≤ MAX_PASSWORD_SIZE)
    (hb : s.toBytes = .ok b) (h0 : 0 ∉ b) :
    hashSecret sha1CryptHasher s (mc3Settings SHA1C_IDENT salt rounds) =
      .ok (SHA1C_IDENT ++ (fmtDec (rounds : Int) ++ DOLLAR :: (salt ++ DOLLAR :: Spec.Formats.sha1Crypt b salt rounds))) := by
  have hd : sha1CryptHasher.digest b (mc3Settings SHA1C_IDENT salt rounds) = .ok (Spec.Formats.sha1Crypt b salt rounds) := by
    simp only [sha1CryptHasher, saltOf_mc3, roundsOf_mc3]
  rw [hashSecret_succeeds sha1CryptHasher s b _ (Spec.Formats.sha1Crypt b salt rounds) hv hb rfl (Or.inr h0) hd]
  simp only [sha1CryptHasher, sha1cRender]
  rw [mc3Text_render_string false SHA1C_IDENT salt rounds _ (sha1Crypt_chk b salt rounds).1]
  simp only [roundsStr, Bool.false_eq_true, if_false]

theorem sha1_crypt_hash_succeeds (s : Secret) (b : Bytes) (salt : Str) (rounds : Nat) (hv : s.len ≤ MAX_PASSWORD_SIZE)
    (hb : s.toBytes = .ok b) (h0 : 0 ∉ b) : ∃ hs, hashSecret sha1CryptHasher s (mc3Settings SHA1C_IDENT salt rounds) = .ok hs :=
  ⟨_, sha1_crypt_hash_string s b salt rounds hv hb h0⟩

/-- a NUL byte in the secret: NullPasswordError from `hash` -/
theorem sha1_crypt_refuses_nul (s : Secret) (b : Bytes) (salt : Str) (rounds : Nat) (hv : s.len ≤ MAX_PASSWORD_SIZE)
    (hb : s.toBytes = .ok b) (h0 : 0 ∈ b) : hashSecret sha1CryptHasher s (mc3Settings SHA1C_IDENT salt rounds) = .error .nullError :=
  hashSecret_nul sha1CryptHasher s b _ hv hb rfl rfl h0

theorem sha1_crypt_identifies_own_hash (s : Secret) (salt : Str) (rounds : Nat) (hs : Str)
    (hh : hashSecret sha1CryptHasher s (mc3Settings SHA1C_IDENT salt rounds) = .ok hs) : sha1_cryptX.identify hs = true := by
  obtain ⟨b, c, _, rfl⟩ := hashSecret_form _ s _ hs hh
  exact mc3Text_identify_render false SHA1C_IDENT (by decide) { mc3Settings SHA1C_IDENT salt rounds with checksum := some c } rfl

theorem sha1_crypt_verify_other (s s' : Secret) (b b' : Bytes) (salt : Str) (rounds : Nat) (h : Sha1CryptSettingsOK salt rounds) (hs : Str)
    (hh : hashSecret sha1CryptHasher s (mc3Settings SHA1C_IDENT salt rounds) = .ok hs) (hb : s.toBytes = .ok b)
    (hv' : s'.len ≤ MAX_PASSWORD_SIZE) (hb' : s'.toBytes = .ok b') (h0 : 0 ∉ b) (h0' : 0 ∉ b') :
    verify sha1CryptHasher s' hs = .ok (Spec.Formats.sha1Crypt b' salt rounds == Spec.Formats.sha1Crypt b salt rounds) :=
  verify_other _ s s' b b' _ hs _ _ (sha1Crypt_roundtrips salt rounds h) (fun _ _ _ => rfl) hh hb hv' hb' rfl (Or.inr ⟨h0, h0'⟩) rfl rfl

/-! ### dlitz_pbkdf2_sha1 (salt: 0 … 1024 hash64 characters) -/
abbrev DlitzSettingsOK := TextSettingsOK h64 0 (some 1024)

theorem dlitz_roundtrips (salt : Str) (rounds : Nat) (h : DlitzSettingsOK salt rounds) :
    RoundTrips dlitzHasher (mc3Settings P5K2_IDENT salt rounds) := Lemmas.C01Pbkdf.dlitz_roundtrips salt rounds h

theorem dlitz_verifies_own_hash (s : Secret) (salt : Str) (rounds : Nat) (h : DlitzSettingsOK salt rounds) (hs : Str)
    (hh : hashSecret dlitzHasher s (mc3Settings P5K2_IDENT salt rounds) = .ok hs) : verify dlitzHasher s hs = .ok true :=
  verify_own_hash _ s _ hs (dlitz_roundtrips salt rounds h) (fun _ _ _ => rfl) hh

/-- `$p5k2$` + hex rounds (EMPTY for 400) + `$` + salt + `$` + the Spec checksum -/
theorem dlitz_hash_string (s : Secret) (b : Bytes) (salt : Str) (rounds : Nat) (hv : s.len ≤ MAX_PASSWORD_SIZE) (hb : s.toBytes = .ok b) :
    hashSecret dlitzHasher s (mc3Settings P5K2_IDENT salt rounds) =
      .ok (P5K2_IDENT ++ ((if rounds = 400 then [] else fmtHex (rounds : Int)) ++ DOLLAR ::
        (salt ++ DOLLAR :: Spec.Formats.dlitzPbkdf2Sha1 b salt rounds))) := by
  have hd : dlitzHasher.digest b (mc3Settings P5K2_IDENT salt rounds) = .ok (Spec.Formats.dlitzPbkdf2Sha1 b salt rounds) := by
    simp only [dlitzHasher, saltOf_mc3, roundsOf_mc3]
  rw [hashSecret_succeeds dlitzHasher s b _ (Spec.Formats.dlitzPbkdf2Sha1 b salt rounds) hv hb rfl (Or.inl rfl) hd]
  simp only [dlitzHasher]
  rw [dlitz_render_string salt rounds _ (dlitz_shape b salt rounds).1]

theorem dlitz_hash_succeeds (s : Secret) (b : Bytes) (salt : Str) (rounds : Nat) (hv : s.len ≤ MAX_PASSWORD_SIZE) (hb : s.toBytes = .ok b) :
    ∃ hs, hashSecret dlitzHasher s (mc3Settings P5K2_IDENT salt rounds) = .ok hs := ⟨_, dlitz_hash_string s b salt rounds hv hb⟩

theorem dlitz_identifies_own_hash (s : Secret) (salt : Str) (rounds : Nat) (hs : Str)
    (hh : hashSecret dlitzHasher s (mc3Settings P5K2_IDENT salt rounds) = .ok hs) : dlitz_pbkdf2_sha1X.identify hs = true := by
  obtain ⟨b, c, _, rfl⟩ := hashSecret_form _ s _ hs hh
  exact dlitz_identify_render { mc3Settings P5K2_IDENT salt rounds with checksum := some c } rfl

theorem dlitz_verify_other (s s' : Secret) (b b' : Bytes) (salt : Str) (rounds : Nat) (h : DlitzSettingsOK salt rounds) (hs : Str)
    (hh : hashSecret dlitzHasher s (mc3Settings P5K2_IDENT salt rounds) = .ok hs) (hb : s.toBytes = .ok b)
    (hv' : s'.len ≤ MAX_PASSWORD_SIZE) (hb' : s'.toBytes = .ok b') :
    verify dlitzHasher s' hs = .ok (Spec.Formats.dlitzPbkdf2Sha1 b' salt rounds == Spec.Formats.dlitzPbkdf2Sha1 b salt rounds) :=
  verify_other _ s s' b b' _ hs _ _ (dlitz_roundtrips salt rounds h) (fun _ _ _ => rfl) hh hb hv' hb' rfl (Or.inl rfl)
    (by simp only [dlitzHasher, saltOf_mc3, roundsOf_mc3]) (by simp only [dlitzHasher, saltOf_mc3, roundsOf_mc3])

/-! ### django_pbkdf2_sha1 / django_pbkdf2_sha256 (salt: at least one character of `a-zA-Z0-9`, no upper bound) -/
abbrev DjangoSettingsOK := TextSettingsOK DJANGO_SALT_CHARS 1 none

theorem django_pbkdf2_sha1_roundtrips (salt : Str) (rounds : Nat) (h : DjangoSettingsOK salt rounds) :
    RoundTrips django_pbkdf2_sha1Hasher (mc3Settings DJANGO_PBKDF2_SHA1_IDENT salt rounds) :=
  djangoPbkdf2_roundtrips algSha1 algSha1_ok _ 28 (by decide) (by decide) salt rounds h
theorem django_pbkdf2_sha256_roundtrips (salt : Str) (rounds : Nat) (h : DjangoSettingsOK salt rounds) :
    RoundTrips django_pbkdf2_sha256Hasher (mc3Settings DJANGO_PBKDF2_SHA256_IDENT salt rounds) :=
  djangoPbkdf2_roundtrips algSha256 algSha256_ok _ 44 (by decide) (by decide) salt rounds h

theorem django_pbkdf2_sha1_verifies_own_hash (s : Secret) (salt : Str) (rounds : Nat) (h : DjangoSettingsOK salt rounds) (hs : Str)
    (hh : hashSecret django_pbkdf2_sha1Hasher s (mc3Settings DJANGO_PBKDF2_SHA1_IDENT salt rounds) = .ok hs) :
    verify django_pbkdf2_sha1Hasher s hs = .ok true :=
  verify_own_hash _ s _ hs (django_pbkdf2_sha1_roundtrips salt rounds h) (fun _ _ _ => rfl) hh
theorem django_pbkdf2_sha256_verifies_own_hash (s : Secret) (salt : Str) (rounds : Nat) (h : DjangoSettingsOK salt rounds) (hs : Str)
    (hh : hashSecret django_pbkdf2_sha256Hasher s (mc3Settings DJANGO_PBKDF2_SHA256_IDENT salt rounds) = .ok hs) :
    verify django_pbkdf2_sha256Hasher s hs = .ok true :=
  verify_own_hash _ s _ hs (django_pbkdf2_sha256_roundtrips salt rounds h) (fun _ _ _ => rfl) hh

/-- ident + decimal rounds + `$` + salt + `$` + the Spec checksum (padded base64 of the PBKDF2 key) -/
theorem django_pbkdf2_hash_string (a : HashAlg) (ha : AlgOK a) (ident : Str) (n : Nat)
    (hn : (4 * a.hLen + 2) / 3 + Spec.Rfc4648.padLen64 a.hLen = n) (hn0 : n ≠ 0) (s : Secret) (b : Bytes) (salt : Str) (rounds : Nat)
    (hv : s.len ≤ MAX_PASSWORD_SIZE) (hb : s.toBytes = .ok b) :
    hashSecret (djangoPbkdf2Hasher a ident n) s (mc3Settings ident salt rounds) =
      .ok (ident ++ (fmtDec (rounds : Int) ++ DOLLAR :: (salt ++ DOLLAR :: Spec.Formats.djangoPbkdf2 a b salt rounds))) := by
  rw [hashSecret_succeeds (djangoPbkdf2Hasher a ident n) s b _ (Spec.Formats.djangoPbkdf2 a b salt rounds) hv hb rfl (Or.inl rfl) rfl]
  simp only [djangoPbkdf2Hasher, djPbkdf2Render]
  rw [mc3Text_render_string false ident salt rounds _ (djangoPbkdf2_chk a ha n hn hn0 b salt rounds).1]
  simp only [roundsStr, Bool.false_eq_true, if_false]

theorem django_pbkdf2_sha1_hash_succeeds (s : Secret) (b : Bytes) (salt : Str) (rounds : Nat) (hv : s.len ≤ MAX_PASSWORD_SIZE)
    (hb : s.toBytes = .ok b) : ∃ hs, hashSecret django_pbkdf2_sha1Hasher s (mc3Settings DJANGO_PBKDF2_SHA1_IDENT salt rounds) = .ok hs :=
  ⟨_, django_pbkdf2_hash_string algSha1 algSha1_ok _ 28 (by decide) (by decide) s b salt rounds hv hb⟩
theorem django_pbkdf2_sha256_hash_succeeds (s : Secret) (b : Bytes) (salt : Str) (rounds : Nat) (hv : s.len ≤ MAX_PASSWORD_SIZE)
    (hb : s.toBytes = .ok b) : ∃ hs, hashSecret django_pbkdf2_sha256Hasher s (mc3Settings DJANGO_PBKDF2_SHA256_IDENT salt rounds) = .ok hs :=
  ⟨_, django_pbkdf2_hash_string algSha256 algSha256_ok _ 44 (by decide) (by decide) s b salt rounds hv hb⟩

theorem django_pbkdf2_identifies_own_hash (a : HashAlg) (ident : Str) (hne : ident ≠ []) (n : Nat) (s : Secret) (salt : Str)
    (rounds : Nat) (hs : Str) (hh : hashSecret (djangoPbkdf2Hasher a ident n) s (mc3Settings ident salt rounds) = .ok hs) :
    identByPrefix ident hs = true := by
  obtain ⟨b, c, _, rfl⟩ := hashSecret_form _ s _ hs hh
  exact mc3Text_identify_render false ident hne { mc3Settings ident salt rounds with checksum := some c } rfl

theorem django_pbkdf2_sha1_identifies_own_hash (s : Secret) (salt : Str) (rounds : Nat) (hs : Str)
    (hh : hashSecret django_pbkdf2_sha1Hasher s (mc3Settings DJANGO_PBKDF2_SHA1_IDENT salt rounds) = .ok hs) :
    django_pbkdf2_sha1X.identify hs = true := django_pbkdf2_identifies_own_hash algSha1 _ (by decide) 28 s salt rounds hs hh
theorem django_pbkdf2_sha256_identifies_own_hash (s : Secret) (salt : Str) (rounds : Nat) (hs : Str)
    (hh : hashSecret django_pbkdf2_sha256Hasher s (mc3Settings DJANGO_PBKDF2_SHA256_IDENT salt rounds) = .ok hs) :
    django_pbkdf2_sha256X.identify hs = true := django_pbkdf2_identifies_own_hash algSha256 _ (by decide) 44 s salt rounds hs hh

theorem django_pbkdf2_verify_other (a : HashAlg) (ha : AlgOK a) (ident : Str) (n : Nat)
    (hn : (4 * a.hLen + 2) / 3 + Spec.Rfc4648.padLen64 a.hLen = n) (hn0 : n ≠ 0) (s s' : Secret) (b b' : Bytes) (salt : Str) (rounds : Nat)
    (h : DjangoSettingsOK salt rounds) (hs : Str) (hh : hashSecret (djangoPbkdf2Hasher a ident n) s (mc3Settings ident salt rounds) = .ok hs)
    (hb : s.toBytes = .ok b) (hv' : s'.len ≤ MAX_PASSWORD_SIZE) (hb' : s'.toBytes = .ok b') :
    verify (djangoPbkdf2Hasher a ident n) s' hs =
      .ok (Spec.Formats.djangoPbkdf2 a b' salt rounds == Spec.Formats.djangoPbkdf2 a b salt rounds) :=
  verify_other _ s s' b b' _ hs _ _ (djangoPbkdf2_roundtrips a ha ident n hn hn0 salt rounds h) (fun _ _ _ => rfl) hh hb hv' hb' rfl (Or.inl rfl)
    (by simp only [djangoPbkdf2Hasher, saltOf_mc3, roundsOf_mc3]) (by simp only [djangoPbkdf2Hasher, saltOf_mc3, roundsOf_mc3])

/-! ### django_salted_md5 / django_salted_sha1 (salt: any number of characters of `a-zA-Z0-9`) -/
theorem django_salted_md5_roundtrips (salt : Str) (h : allIn DJANGO_SALT_CHARS salt = true) :
    RoundTrips django_salted_md5Hasher (djSaltedSettings DJANGO_MD5_IDENT salt) :=
  djangoSalted_roundtrips Spec.MD5.md5 16 md5_ok _ 32 (by decide) (by decide) salt h
theorem django_salted_sha1_roundtrips (salt : Str) (h : allIn DJANGO_SALT_CHARS salt = true) :
    RoundTrips django_salted_sha1Hasher (djSaltedSettings DJANGO_SHA1_IDENT salt) :=
  djangoSalted_roundtrips Spec.SHA1.sha1 20 sha1_ok _ 40 (by decide) (by decide) salt h

theorem django_salted_md5_verifies_own_hash (s : Secret) (salt : Str) (h : allIn DJANGO_SALT_CHARS salt = true) (hs : Str)
    (hh : hashSecret django_salted_md5Hasher s (djSaltedSettings DJANGO_MD5_IDENT salt) = .ok hs) :
    verify django_salted_md5Hasher s hs = .ok true :=
  verify_own_hash _ s _ hs (django_salted_md5_roundtrips salt h) (fun _ _ _ => rfl) hh
theorem django_salted_sha1_verifies_own_hash (s : Secret) (salt : Str) (h : allIn DJANGO_SALT_CHARS salt = true) (hs : Str)
    (hh : hashSecret django_salted_sha1Hasher s (djSaltedSettings DJANGO_SHA1_IDENT salt) = .ok hs) :
    verify django_salted_sha1Hasher s hs = .ok true :=
  verify_own_hash _ s _ hs (django_salted_sha1_roundtrips salt h) (fun _ _ _ => rfl) hh

/-- ident + salt + `$` + the Spec checksum (lower-case hex of H(salt ‖ secret)) -/
theorem django_salted_hash_string (H : Bytes → Bytes) (d : Nat) (hH : Lemmas.PbkdfLen.HashOK H d) (hd : d ≠ 0) (ident : Str) (n : Nat)
    (s : Secret) (b : Bytes) (salt : Str) (hv : s.len ≤ MAX_PASSWORD_SIZE) (hb : s.toBytes = .ok b) :
    hashSecret (djangoSaltedHasher H ident n) s (djSaltedSettings ident salt) =
      .ok (ident ++ salt ++ DOLLAR :: Spec.Formats.djangoSalted H b salt) := by
  rw [hashSecret_succeeds (djangoSaltedHasher H ident n) s b _ (Spec.Formats.djangoSalted H b salt) hv hb rfl (Or.inl rfl) rfl]
  simp only [djangoSaltedHasher]
  rw [djSalted_render_string ident salt _ (ne_nil_of_length _ (2 * d) (djangoSalted_shape H d hH b salt).2 (by omega))]

theorem django_salted_md5_hash_succeeds (s : Secret) (b : Bytes) (salt : Str) (hv : s.len ≤ MAX_PASSWORD_SIZE) (hb : s.toBytes = .ok b) :
    ∃ hs, hashSecret django_salted_md5Hasher s (djSaltedSettings DJANGO_MD5_IDENT salt) = .ok hs :=
  ⟨_, django_salted_hash_string Spec.MD5.md5 16 md5_ok (by decide) _ 32 s b salt hv hb⟩
theorem django_salted_sha1_hash_succeeds (s : Secret) (b : Bytes) (salt : Str) (hv : s.len ≤ MAX_PASSWORD_SIZE) (hb : s.toBytes = .ok b) :
    ∃ hs, hashSecret django_salted_sha1Hasher s (djSaltedSettings DJANGO_SHA1_IDENT salt) = .ok hs :=
  ⟨_, django_salted_hash_string Spec.SHA1.sha1 20 sha1_ok (by decide) _ 40 s b salt hv hb⟩

theorem django_salted_identifies_own_hash (H : Bytes → Bytes) (ident : Str) (hne : ident ≠ []) (n : Nat) (s : Secret) (salt : Str)
    (hs : Str) (hh : hashSecret (djangoSaltedHasher H ident n) s (djSaltedSettings ident salt) = .ok hs) :
    identByPrefix ident hs = true := by
  obtain ⟨b, c, _, rfl⟩ := hashSecret_form _ s _ hs hh
  exact djSalted_identify_render ident hne { djSaltedSettings ident salt with checksum := some c } rfl

theorem django_salted_md5_identifies_own_hash (s : Secret) (salt : Str) (hs : Str)
    (hh : hashSecret django_salted_md5Hasher s (djSaltedSettings DJANGO_MD5_IDENT salt) = .ok hs) :
    django_salted_md5X.identify hs = true := django_salted_identifies_own_hash _ _ (by decide) 32 s salt hs hh
theorem django_salted_sha1_identifies_own_hash (s : Secret) (salt : Str) (hs : Str)
    (hh : hashSecret django_salted_sha1Hasher s (djSaltedSettings DJANGO_SHA1_IDENT salt) = .ok hs) :
    django_salted_sha1X.identify hs = true := django_salted_identifies_own_hash _ _ (by decide) 40 s salt hs hh

theorem django_salted_verify_other (H : Bytes → Bytes) (d : Nat) (hH : Lemmas.PbkdfLen.HashOK H d) (ident : Str) (n : Nat) (hn : 2 * d = n)
    (hn0 : n ≠ 0) (s s' : Secret) (b b' : Bytes) (salt : Str) (h : allIn DJANGO_SALT_CHARS salt = true) (hs : Str)
    (hh : hashSecret (djangoSaltedHasher H ident n) s (djSaltedSettings ident salt) = .ok hs)
    (hb : s.toBytes = .ok b) (hv' : s'.len ≤ MAX_PASSWORD_SIZE) (hb' : s'.toBytes = .ok b') :
    verify (djangoSaltedHasher H ident n) s' hs = .ok (Spec.Formats.djangoSalted H b' salt == Spec.Formats.djangoSalted H b salt) :=
  verify_other _ s s' b b' _ hs _ _ (djangoSalted_roundtrips H d hH ident n hn hn0 salt h) (fun _ _ _ => rfl) hh hb hv' hb' rfl (Or.inl rfl)
    rfl rfl

/-! ## non-vacuity: the hypotheses on REAL hashes

`Lemmas.C01Pbkdf.Real.*` (Lemmas/C01PbkdfEx1-3.lean) are kernel evaluations of the assembled hashers on the settings of hashes made
by /repo (`X.using(salt=…, rounds=1).hash("pw")`): the model returns the library's string.  Here the theorems are applied to them.
Formats whose real hash is too costly for the kernel (grub: SHA-512 with 64 byte key, dlitz: two SHA-1 blocks with a long salt,
atlassian: 10000 rounds) instantiate the settings hypotheses only; their strings are compared through the compiled driver in
the correspondence run (tools/corr/c01_pbkdf.py), like every other setting. -/
section examples
open Lemmas.C01Pbkdf.Real

example : RawSettingsOK S16 1 := by decide

-- pbkdf2_sha1 / _sha256 / _sha512
example : verify pbkdf2_sha1Hasher PW (ofString "$pbkdf2$1$MDEyMzQ1Njc4OWFiY2RlZg$6TwxOhjZZSKPsEY7DdOXPh.O0ys") = .ok true :=
  pbkdf2_sha1_verifies_own_hash PW S16 1 (by decide) _ Real.pbkdf2_sha1
example : pbkdf2_sha1X.identify (ofString "$pbkdf2$1$MDEyMzQ1Njc4OWFiY2RlZg$6TwxOhjZZSKPsEY7DdOXPh.O0ys") = true :=
  pbkdf2_sha1_identifies_own_hash PW S16 1 _ Real.pbkdf2_sha1
example : verify pbkdf2_sha256Hasher PW (ofString "$pbkdf2-sha256$1$MDEyMzQ1Njc4OWFiY2RlZg$miV12U28oLmGnCgxeNLhW0itUOzTifJEjH82QZpDV6g") = .ok true :=
  pbkdf2_sha256_verifies_own_hash PW S16 1 (by decide) _ Real.pbkdf2_sha256
example : pbkdf2_sha256X.identify (ofString "$pbkdf2-sha256$1$MDEyMzQ1Njc4OWFiY2RlZg$miV12U28oLmGnCgxeNLhW0itUOzTifJEjH82QZpDV6g") = true :=
  pbkdf2_sha256_identifies_own_hash PW S16 1 _ Real.pbkdf2_sha256
/-- … and the equivalent bytes verify as well (generic `text_and_bytes_agree`) -/
example : verify pbkdf2_sha256Hasher PWB (ofString "$pbkdf2-sha256$1$MDEyMzQ1Njc4OWFiY2RlZg$miV12U28oLmGnCgxeNLhW0itUOzTifJEjH82QZpDV6g") = .ok true := by
  show verify pbkdf2_sha256Hasher (.bytes [112, 119]) _ = _
  rw [← (text_and_bytes_agree pbkdf2_sha256Hasher [112, 119] [112, 119] (mc3Settings PBKDF2_SHA256_IDENT S16 1) _ (by decide) (by decide) (by decide)).2]
  exact pbkdf2_sha256_verifies_own_hash PW S16 1 (by decide) _ Real.pbkdf2_sha256
example : verify pbkdf2_sha512Hasher PW (ofString
    "$pbkdf2-sha512$1$MDEyMzQ1Njc4OWFiY2RlZg$Y7jC86CbgxP3gXcXA8vJn8QsO8JG0TALCNgbuxd91FDVbgVZRCeX6QcNFXO0T3U1J.GcedciCdWqKeMuAHyzPA") = .ok true :=
  pbkdf2_sha512_verifies_own_hash PW S16 1 (by decide) _ Real.pbkdf2_sha512
example : pbkdf2_sha512X.identify (ofString
    "$pbkdf2-sha512$1$MDEyMzQ1Njc4OWFiY2RlZg$Y7jC86CbgxP3gXcXA8vJn8QsO8JG0TALCNgbuxd91FDVbgVZRCeX6QcNFXO0T3U1J.GcedciCdWqKeMuAHyzPA") = true :=
  pbkdf2_sha512_identifies_own_hash PW S16 1 _ Real.pbkdf2_sha512
/-- the hash-string theorem on the real value: the checksum field of the real hash is `Spec.Formats.pbkdf2Digest` -/
example : ofString "$pbkdf2-sha256$1$MDEyMzQ1Njc4OWFiY2RlZg$miV12U28oLmGnCgxeNLhW0itUOzTifJEjH82QZpDV6g" =
    PBKDF2_SHA256_IDENT ++ (fmtDec 1 ++ DOLLAR :: (Spec.Formats.ab64 S16 ++ DOLLAR :: Spec.Formats.pbkdf2Digest algSha256 [112, 119] S16 1)) :=
  Except.ok.inj (Real.pbkdf2_sha256.symm.trans (pbkdf2_hash_string algSha256 algSha256_ok PBKDF2_SHA256_IDENT PW [112, 119] S16 1 (by decide) rfl))

-- ldap_pbkdf2_*: the wrapper's string is the LDAP prefix + the wrapped hash without its ident
theorem real_ldap_pbkdf2_sha1 : ldap_pbkdf2_sha1W.hash PW (mc3Settings PBKDF2_SHA1_IDENT S16 1) =
    .ok (ofString "{PBKDF2}1$MDEyMzQ1Njc4OWFiY2RlZg$6TwxOhjZZSKPsEY7DdOXPh.O0ys") := by
  have h := Real.pbkdf2_sha1
  rw [show ofString "$pbkdf2$1$MDEyMzQ1Njc4OWFiY2RlZg$6TwxOhjZZSKPsEY7DdOXPh.O0ys" =
    PBKDF2_SHA1_IDENT ++ ofString "1$MDEyMzQ1Njc4OWFiY2RlZg$6TwxOhjZZSKPsEY7DdOXPh.O0ys" by decide +kernel] at h
  rw [show ofString "{PBKDF2}1$MDEyMzQ1Njc4OWFiY2RlZg$6TwxOhjZZSKPsEY7DdOXPh.O0ys" =
    LDAP_PBKDF2_SHA1_PREFIX ++ ofString "1$MDEyMzQ1Njc4OWFiY2RlZg$6TwxOhjZZSKPsEY7DdOXPh.O0ys" by decide +kernel]
  exact wrapHash_string _ _ _ _ _ _ h
theorem real_ldap_pbkdf2_sha256 : ldap_pbkdf2_sha256W.hash PW (mc3Settings PBKDF2_SHA256_IDENT S16 1) =
    .ok (ofString "{PBKDF2-SHA256}1$MDEyMzQ1Njc4OWFiY2RlZg$miV12U28oLmGnCgxeNLhW0itUOzTifJEjH82QZpDV6g") := by
  have h := Real.pbkdf2_sha256
  rw [show ofString "$pbkdf2-sha256$1$MDEyMzQ1Njc4OWFiY2RlZg$miV12U28oLmGnCgxeNLhW0itUOzTifJEjH82QZpDV6g" =
    PBKDF2_SHA256_IDENT ++ ofString "1$MDEyMzQ1Njc4OWFiY2RlZg$miV12U28oLmGnCgxeNLhW0itUOzTifJEjH82QZpDV6g" by decide +kernel] at h
  rw [show ofString "{PBKDF2-SHA256}1$MDEyMzQ1Njc4OWFiY2RlZg$miV12U28oLmGnCgxeNLhW0itUOzTifJEjH82QZpDV6g" =
    LDAP_PBKDF2_SHA256_PREFIX ++ ofString "1$MDEyMzQ1Njc4OWFiY2RlZg$miV12U28oLmGnCgxeNLhW0itUOzTifJEjH82QZpDV6g" by decide +kernel]
  exact wrapHash_string _ _ _ _ _ _ h
theorem real_ldap_pbkdf2_sha512 : ldap_pbkdf2_sha512W.hash PW (mc3Settings PBKDF2_SHA512_IDENT S16 1) =
    .ok (ofString "{PBKDF2-SHA512}1$MDEyMzQ1Njc4OWFiY2RlZg$Y7jC86CbgxP3gXcXA8vJn8QsO8JG0TALCNgbuxd91FDVbgVZRCeX6QcNFXO0T3U1J.GcedciCdWqKeMuAHyzPA") := by
  have h := Real.pbkdf2_sha512
  rw [show ofString "$pbkdf2-sha512$1$MDEyMzQ1Njc4OWFiY2RlZg$Y7jC86CbgxP3gXcXA8vJn8QsO8JG0TALCNgbuxd91FDVbgVZRCeX6QcNFXO0T3U1J.GcedciCdWqKeMuAHyzPA" =
    PBKDF2_SHA512_IDENT ++ ofString "1$MDEyMzQ1Njc4OWFiY2RlZg$Y7jC86CbgxP3gXcXA8vJn8QsO8JG0TALCNgbuxd91FDVbgVZRCeX6QcNFXO0T3U1J.GcedciCdWqKeMuAHyzPA" by decide +kernel] at h
  rw [show ofString "{PBKDF2-SHA512}1$MDEyMzQ1Njc4OWFiY2RlZg$Y7jC86CbgxP3gXcXA8vJn8QsO8JG0TALCNgbuxd91FDVbgVZRCeX6QcNFXO0T3U1J.GcedciCdWqKeMuAHyzPA" =
    LDAP_PBKDF2_SHA512_PREFIX ++ ofString "1$MDEyMzQ1Njc4OWFiY2RlZg$Y7jC86CbgxP3gXcXA8vJn8QsO8JG0TALCNgbuxd91FDVbgVZRCeX6QcNFXO0T3U1J.GcedciCdWqKeMuAHyzPA" by decide +kernel]
  exact wrapHash_string _ _ _ _ _ _ h
example : ldap_pbkdf2_sha1W.verify PW (ofString "{PBKDF2}1$MDEyMzQ1Njc4OWFiY2RlZg$6TwxOhjZZSKPsEY7DdOXPh.O0ys") = .ok true :=
  ldap_pbkdf2_verifies_own_hash _ _ ldap_sha1 PW S16 1 (by decide) _ real_ldap_pbkdf2_sha1
example : ldap_pbkdf2_sha256W.verify PW (ofString "{PBKDF2-SHA256}1$MDEyMzQ1Njc4OWFiY2RlZg$miV12U28oLmGnCgxeNLhW0itUOzTifJEjH82QZpDV6g") = .ok true :=
  ldap_pbkdf2_verifies_own_hash _ _ ldap_sha256 PW S16 1 (by decide) _ real_ldap_pbkdf2_sha256
example : ldap_pbkdf2_sha256W.identify (ofString "{PBKDF2-SHA256}1$MDEyMzQ1Njc4OWFiY2RlZg$miV12U28oLmGnCgxeNLhW0itUOzTifJEjH82QZpDV6g") = true :=
  ldap_pbkdf2_identifies_own_hash _ _ ldap_sha256 PW S16 1 _ real_ldap_pbkdf2_sha256
example : ldap_pbkdf2_sha512W.verify PW (ofString
    "{PBKDF2-SHA512}1$MDEyMzQ1Njc4OWFiY2RlZg$Y7jC86CbgxP3gXcXA8vJn8QsO8JG0TALCNgbuxd91FDVbgVZRCeX6QcNFXO0T3U1J.GcedciCdWqKeMuAHyzPA") = .ok true :=
  ldap_pbkdf2_verifies_own_hash _ _ ldap_sha512 PW S16 1 (by decide) _ real_ldap_pbkdf2_sha512

-- cta_pbkdf2_sha1
example : verify ctaHasher PW (ofString "$p5k2$1$MDEyMzQ1Njc4OWFiY2RlZg==$6TwxOhjZZSKPsEY7DdOXPh-O0ys=") = .ok true :=
  cta_verifies_own_hash PW S16 1 (by decide) _ Real.cta_pbkdf2_sha1
example : cta_pbkdf2_sha1X.identify (ofString "$p5k2$1$MDEyMzQ1Njc4OWFiY2RlZg==$6TwxOhjZZSKPsEY7DdOXPh-O0ys=") = true :=
  cta_identifies_own_hash PW S16 1 _ Real.cta_pbkdf2_sha1

-- grub_pbkdf2_sha512 (real hash grub.pbkdf2.sha512.1.AB94.0F22ED78…: salt b"\xab\x94", rounds 1), atlassian (salt S16): settings only
example : RawSettingsOK [0xab, 0x94] 1 := by decide
example : RoundTrips grubHasher (mc3Settings GRUB_IDENT [0xab, 0x94] 1) := grub_roundtrips _ _ (by decide)
example : ∃ hs, hashSecret grubHasher PW (mc3Settings GRUB_IDENT [0xab, 0x94] 1) = .ok hs := grub_hash_succeeds PW [112, 119] _ _ (by decide) rfl
example : RoundTrips atlassianHasher (atlassianSettings S16) := atlassian_roundtrips S16 (by decide) (by decide)
example : ∃ hs, hashSecret atlassianHasher PW (atlassianSettings S16) = .ok hs := atlassian_hash_succeeds PW [112, 119] _ (by decide) rfl

-- sha1_crypt
example : Sha1CryptSettingsOK (ofString "8QBd3jkw") 1 := ⟨by decide, by decide, (by intro m e; cases e; decide), by decide, by decide⟩
example : verify sha1CryptHasher PW (ofString "$sha1$1$8QBd3jkw$JU8Im77web3ePbQBtw5O0LR5Edzo") = .ok true :=
  sha1_crypt_verifies_own_hash PW _ 1 ⟨by decide, by decide, (by intro m e; cases e; decide), by decide, by decide⟩ _ Real.sha1_crypt
example : sha1_cryptX.identify (ofString "$sha1$1$8QBd3jkw$JU8Im77web3ePbQBtw5O0LR5Edzo") = true :=
  sha1_crypt_identifies_own_hash PW _ 1 _ Real.sha1_crypt
example : hashSecret sha1CryptHasher (.bytes [112, 0, 119]) (mc3Settings SHA1C_IDENT (ofString "8QBd3jkw") 1) = .error .nullError :=
  sha1_crypt_refuses_nul _ [112, 0, 119] _ _ (by decide) rfl (by decide)

-- dlitz_pbkdf2_sha1 (real hashes $p5k2$1$mEOgYElUHFo6vg$dJIox67Y… and, rounds 400, $p5k2$$mEOgYElUHFo6vg$bCXmclOe…): settings only
example : DlitzSettingsOK (ofString "mEOgYElUHFo6vg") 400 := ⟨by decide, by decide, (by intro m e; cases e; decide), by decide, by decide⟩
example : RoundTrips dlitzHasher (mc3Settings P5K2_IDENT (ofString "mEOgYElUHFo6vg") 400) :=
  dlitz_roundtrips _ _ ⟨by decide, by decide, (by intro m e; cases e; decide), by decide, by decide⟩
/-- 400 rounds: the rounds field of the string is empty -/
example : ∃ c, hashSecret dlitzHasher PW (mc3Settings P5K2_IDENT (ofString "mEOgYElUHFo6vg") 400) =
    .ok (ofString "$p5k2$$mEOgYElUHFo6vg$" ++ c) :=
  by
  refine ⟨Spec.Formats.dlitzPbkdf2Sha1 [112, 119] (ofString "mEOgYElUHFo6vg") 400,
    (dlitz_hash_string PW [112, 119] (ofString "mEOgYElUHFo6vg") 400 (by decide) rfl).trans ?_⟩
  rw [if_pos rfl, show ofString "$p5k2$$mEOgYElUHFo6vg$" = P5K2_IDENT ++ ([] ++ DOLLAR :: (ofString "mEOgYElUHFo6vg" ++ [DOLLAR])) by decide]
  simp only [List.append_assoc, List.nil_append, List.cons_append]

-- django_pbkdf2_sha1 / _sha256
example : DjangoSettingsOK (ofString "RaKOYRTUzHPz") 1 := ⟨by decide, by decide, (by intro m e; cases e), by decide, by decide⟩
example : verify django_pbkdf2_sha1Hasher PW (ofString "pbkdf2_sha1$1$RaKOYRTUzHPz$9+DWTxOiBQ7OHf8wHCCnu8+dxxY=") = .ok true :=
  django_pbkdf2_sha1_verifies_own_hash PW _ 1 ⟨by decide, by decide, (by intro m e; cases e), by decide, by decide⟩ _ Real.django_pbkdf2_sha1
example : verify django_pbkdf2_sha256Hasher PW (ofString "pbkdf2_sha256$1$A86S0gQzxlcQ$QKUFhD0TVwYwExH4CXF/2V+D/cgQxRpM5PPs2hS7s6k=") = .ok true :=
  django_pbkdf2_sha256_verifies_own_hash PW _ 1 ⟨by decide, by decide, (by intro m e; cases e), by decide, by decide⟩ _ Real.django_pbkdf2_sha256
example : django_pbkdf2_sha256X.identify (ofString "pbkdf2_sha256$1$A86S0gQzxlcQ$QKUFhD0TVwYwExH4CXF/2V+D/cgQxRpM5PPs2hS7s6k=") = true :=
  django_pbkdf2_sha256_identifies_own_hash PW _ 1 _ Real.django_pbkdf2_sha256

-- django_salted_md5 / _sha1
example : verify django_salted_md5Hasher PW (ofString "md5$YUZOHljbYxfQ$df1a802adfa03338a280e1e2ef8e2c85") = .ok true :=
  django_salted_md5_verifies_own_hash PW _ (by decide) _ Real.django_salted_md5
example : verify django_salted_sha1Hasher PW (ofString "sha1$7D7FJw2WlwiN$65c720c7a9224db1c45837a9fab1c1c934d41d5a") = .ok true :=
  django_salted_sha1_verifies_own_hash PW _ (by decide) _ Real.django_salted_sha1
example : django_salted_sha1X.identify (ofString "sha1$7D7FJw2WlwiN$65c720c7a9224db1c45837a9fab1c1c934d41d5a") = true :=
  django_salted_sha1_identifies_own_hash PW _ _ Real.django_salted_sha1

end examples

end Props.C01Pbkdf
