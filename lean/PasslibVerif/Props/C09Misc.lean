import PasslibVerif.Lemmas.UsingMisc
import PasslibVerif.Props.C09Salt
/-
C09 — `using()` for the remaining settings: fshp `variant`, scrypt `parallelism` / `block_size`, bcrypt_sha256 `version`,
scram `algs` / `default_algs`, unix_disabled `marker`.

Every statement is about `Model.UsingMisc` (statement-order model of the five `using()` methods, their `_norm_*` helpers, the
constructors' default checks and the `_calc_needs_update` chains; `norm_integer` and the three update checks are GENERATED from the
source, the tables are read from the source on every run, the statement lists are compared by the translator unit `UsingMisc`) and holds
for EVERY argument value of every kind a caller can pass (None, int, text, bytes, other).

"Parent unchanged": the model's `using…` functions are pure — the parent description is an argument and cannot change; the
`…_frame` theorems say which attributes of the NEW class are the parent's; on the real classes the correspondence run compares every
parent attribute before and after every call.
-/
namespace Props.C09Misc
open Py Model.Handler Model.UsingMisc Lemmas.UsingMisc

/-! ## fshp: `using(variant=…)` -/

/-- `variant=None` keeps the parent's default -/
theorem variant_none (parent : Int) : usingVariant parent .none = .ok parent := rfl

/-- **accepted ⇒ supported**: whatever kind of value was passed, an accepted variant is a key of `_variant_info` -/
theorem variant_accepted_supported (parent : Int) (a : VariantArg) (v : Int) (ha : a ≠ .none) (h : usingVariant parent a = .ok v) :
    isVariant v = true := by
  cases a with
  | none => exact absurd rfl ha
  | int n =>
    simp only [usingVariant, normVariant] at h
    by_cases hv : isVariant n = true
    · simp only [hv, if_true, Except.ok.injEq] at h; subst h; exact hv
    · simp [hv] at h
  | str s =>
    simp only [usingVariant, normVariant] at h
    cases hl : variantAliases.lookup s with
    | none => simp [hl] at h
    | some w =>
      have hw := alias_is_variant s w hl
      simp only [hl, hw, if_true, Except.ok.injEq] at h; subst h; exact hw
  | bytes b =>
    simp only [usingVariant, normVariant] at h
    by_cases hb : (b.all (· < 128)) = true
    · simp only [hb, if_true] at h
      cases hl : variantAliases.lookup b with
      | none => simp [hl] at h
      | some w =>
        have hw := alias_is_variant b w hl
        simp only [hl, hw, if_true, Except.ok.injEq] at h; subst h; exact hw
    · simp [hb] at h
  | other => simp [usingVariant, normVariant] at h

/-- an int is taken exactly when it is a variant, as it is -/
theorem variant_int (parent n v : Int) : usingVariant parent (.int n) = .ok v ↔ (isVariant n = true ∧ v = n) := by
  simp only [usingVariant, normVariant]
  by_cases hv : isVariant n = true
  · simp [hv, eq_comm]
  · simp [hv]

/-- an int outside the table is a value error -/
theorem variant_int_refused (parent n : Int) (h : isVariant n = false) : usingVariant parent (.int n) = .error .valueError := by
  simp [usingVariant, normVariant, h]

/-- text is taken exactly when it is a key of `_variant_aliases` (no stripping, no case folding, no `int()`), and means its target -/
theorem variant_str (parent : Int) (s : Str) (v : Int) : usingVariant parent (.str s) = .ok v ↔ variantAliases.lookup s = some v := by
  simp only [usingVariant, normVariant]
  cases hl : variantAliases.lookup s with
  | none => simp
  | some w => simp [alias_is_variant s w hl]

theorem variant_str_refused (parent : Int) (s : Str) (h : variantAliases.lookup s = none) :
    usingVariant parent (.str s) = .error .valueError := by
  simp [usingVariant, normVariant, h]

/-- ASCII bytes mean what the same text means; bytes that are not ASCII are a value error (UnicodeDecodeError) -/
theorem variant_bytes (parent : Int) (b : Bytes) :
    usingVariant parent (.bytes b) = if b.all (· < 128) then usingVariant parent (.str b) else .error .valueError := by
  simp only [usingVariant, normVariant]

/-- the error kinds: a type error exactly for a value that is neither bytes, text nor int; a value error otherwise -/
theorem variant_error_kind (parent : Int) (a : VariantArg) (e : ErrKind) (h : usingVariant parent a = .error e) :
    (a = .other ∧ e = .typeError) ∨ (a ≠ .other ∧ e = .valueError) := by
  cases a with
  | none => simp [usingVariant] at h
  | other => simp only [usingVariant, normVariant, Except.error.injEq] at h; exact .inl ⟨rfl, h.symm⟩
  | int n =>
    right; refine ⟨by simp, ?_⟩
    simp only [usingVariant, normVariant] at h
    split at h <;> cases h; rfl
  | str s =>
    right; refine ⟨by simp, ?_⟩
    simp only [usingVariant, normVariant] at h
    repeat' split at h
    all_goals first | (cases h; rfl) | cases h
  | bytes b =>
    right; refine ⟨by simp, ?_⟩
    simp only [usingVariant, normVariant] at h
    repeat' split at h
    all_goals first | (cases h; rfl) | cases h

/-- every variant of the table can be asked for by number, by its decimal text and by its hash name -/
theorem variant_every_spelling (parent : Int) : ∀ e ∈ variantInfo,
    usingVariant parent (.int e.1) = .ok e.1 ∧ usingVariant parent (.str e.2.1) = .ok e.1 ∧
    usingVariant parent (.str (ofString (toString e.1))) = .ok e.1 := by
  intro e he
  have h := every_variant_has_aliases e he
  refine ⟨?_, (variant_str parent _ _).2 h.1, (variant_str parent _ _).2 h.2⟩
  have : isVariant e.1 = true := List.any_eq_true.2 ⟨e, he, by simp⟩
  exact (variant_int parent _ _).2 ⟨this, rfl⟩

/-- **the next hash carries the accepted variant** (the constructor's `assert _norm_variant(default) == default` holds) and the
    table knows its digest size -/
theorem variant_next_hash (parent : Int) (a : VariantArg) (v : Int) (ha : a ≠ .none) (h : usingVariant parent a = .ok v) :
    initVariant v = .ok v ∧ (variantDigestSize v).isSome = true := by
  have hv := variant_accepted_supported parent a v ha h
  refine ⟨by simp [initVariant, normVariant, hv], ?_⟩
  unfold variantDigestSize
  unfold isVariant at hv
  rcases List.any_eq_true.1 hv with ⟨e, he, hev⟩
  cases hf : variantInfo.find? (·.1 = v) with
  | some x => simp
  | none =>
    have := List.find?_eq_none.1 hf e he
    simp at hev
    simp [hev] at this

/-- **the update check does NOT look at the variant**: fshp has no `_calc_needs_update` of its own (the translator refuses the
    source otherwise), so a class configured with one variant answers for a hash of any other variant what `HasRounds` answers -/
theorem fshp_variant_never_flagged (configured own : Int) (roundsAnswer : Bool) :
    fshpNeedsUpdate configured own roundsAnswer = roundsAnswer := rfl

/-- the class default read from the source is a variant -/
example : isVariant Gen.UsingMisc.fshpDefaultVariant = true := by decide
example : usingVariant 1 (.str (ofString "sha512")) = .ok 3 ∧ usingVariant 1 (.str (ofString "2")) = .ok 2 ∧ usingVariant 1 (.bytes (ofString "sha1")) = .ok 0
    ∧ usingVariant 1 (.int 3) = .ok 3 ∧ initVariant 3 = .ok 3 ∧ variantDigestSize 3 = some 64 := by decide
example : usingVariant 1 (.int 4) = .error .valueError ∧ usingVariant 1 (.str (ofString " 2")) = .error .valueError
    ∧ usingVariant 1 (.str (ofString "SHA1")) = .error .valueError ∧ usingVariant 1 (.str [0x662]) = .error .valueError
    ∧ usingVariant 1 .other = .error .typeError ∧ usingVariant 1 (.bytes [0xff, 49]) = .error .valueError := by decide

/-! ## scrypt: `using(parallelism=…, block_size=…)` -/

/-- what the two integer settings mean: text goes through `int()`, the result through `norm_integer(min=lo)` -/
theorem normIntArg_int (lo n : Int) (relaxed : Bool) :
    normIntArg lo relaxed (.int n) = if n < lo then (if relaxed then .ok lo else .error .valueError) else .ok n := by
  simp only [normIntArg, normInteger_none]

theorem normIntArg_str (lo : Int) (relaxed : Bool) (s : Str) :
    normIntArg lo relaxed (.str s) = match pyIntOfStr s with
      | some n => normIntArg lo relaxed (.int n)
      | none => .error .valueError := by
  simp only [normIntArg]
  cases pyIntOfStr s <;> rfl

/-- **never below the hard minimum**, strict or relaxed, int or text -/
theorem normIntArg_ok_ge (lo : Int) (relaxed : Bool) (a : IntArg) (v : Int) (h : normIntArg lo relaxed a = .ok v) : lo ≤ v := by
  cases a with
  | none => simp [normIntArg] at h
  | other => simp [normIntArg] at h
  | int n => exact (normInteger_ok_ge n lo relaxed v h).1
  | str s =>
    simp only [normIntArg] at h
    cases hp : pyIntOfStr s with
    | none => simp [hp] at h
    | some n => simp only [hp] at h; exact (normInteger_ok_ge n lo relaxed v h).1

/-- strict mode takes exactly the requested number (text: the number `int()` reads) -/
theorem normIntArg_strict_exact (lo : Int) (a : IntArg) (v : Int) (h : normIntArg lo false a = .ok v) :
    a = .int v ∨ ∃ s, a = .str s ∧ pyIntOfStr s = some v := by
  cases a with
  | none => simp [normIntArg] at h
  | other => simp [normIntArg] at h
  | int n =>
    rw [normIntArg_int] at h
    by_cases hn : n < lo
    · simp [hn] at h
    · simp only [hn, if_false, Except.ok.injEq] at h; subst h; exact .inl rfl
  | str s =>
    rw [normIntArg_str] at h
    cases hp : pyIntOfStr s with
    | none => simp [hp] at h
    | some n =>
      simp only [hp, normIntArg_int] at h
      by_cases hn : n < lo
      · simp [hn] at h
      · simp only [hn, if_false, Except.ok.injEq] at h; subst h; exact .inr ⟨s, rfl, hp⟩

/-- the error kinds of one integer setting: a type error exactly for a value that is neither int nor text -/
theorem normIntArg_error_kind (lo : Int) (relaxed : Bool) (a : IntArg) (e : ErrKind) (h : normIntArg lo relaxed a = .error e) :
    ((a = .other ∨ a = .none) ∧ e = .typeError) ∨ (a ≠ .other ∧ a ≠ .none ∧ e = .valueError) := by
  cases a with
  | none => simp only [normIntArg, Except.error.injEq] at h; exact .inl ⟨.inr rfl, h.symm⟩
  | other => simp only [normIntArg, Except.error.injEq] at h; exact .inl ⟨.inl rfl, h.symm⟩
  | int n =>
    right; refine ⟨by simp, by simp, ?_⟩
    rw [normIntArg_int] at h
    repeat' split at h
    all_goals first | (cases h; rfl) | cases h
  | str s =>
    right; refine ⟨by simp, by simp, ?_⟩
    rw [normIntArg_str] at h
    cases hp : pyIntOfStr s with
    | none => simp only [hp, Except.error.injEq] at h; exact h.symm
    | some n =>
      simp only [hp, normIntArg_int] at h
      repeat' split at h
      all_goals first | (cases h; rfl) | cases h

theorem usingParallelism_ok (c c1 : ScryptCls) (relaxed : Bool) (p : IntArg) (h : usingParallelism c relaxed p = .ok c1) :
    (p = .none ∧ c1 = c) ∨ (p ≠ .none ∧ ∃ v, normIntArg Gen.UsingMisc.parallelismMin relaxed p = .ok v ∧ c1 = { c with parallelism := v }) := by
  cases p with
  | none => simp only [usingParallelism, Except.ok.injEq] at h; exact .inl ⟨rfl, h.symm⟩
  | int n =>
    simp only [usingParallelism] at h
    cases hn : normIntArg Gen.UsingMisc.parallelismMin relaxed (.int n) with
    | error e => simp [hn] at h
    | ok v => simp only [hn, Except.ok.injEq] at h; exact .inr ⟨by simp, v, rfl, h.symm⟩
  | str s =>
    simp only [usingParallelism] at h
    cases hn : normIntArg Gen.UsingMisc.parallelismMin relaxed (.str s) with
    | error e => simp [hn] at h
    | ok v => simp only [hn, Except.ok.injEq] at h; exact .inr ⟨by simp, v, rfl, h.symm⟩
  | other => simp [usingParallelism, normIntArg] at h

theorem usingBlockSize_ok (c c1 : ScryptCls) (relaxed : Bool) (b : IntArg) (h : usingBlockSize c relaxed b = .ok c1) :
    (b = .none ∧ c1 = c) ∨ (b ≠ .none ∧ ∃ v, normIntArg Gen.UsingMisc.scryptBlockSizeMin relaxed b = .ok v ∧ c1 = { c with blockSize := v }) := by
  cases b with
  | none => simp only [usingBlockSize, Except.ok.injEq] at h; exact .inl ⟨rfl, h.symm⟩
  | int n =>
    simp only [usingBlockSize] at h
    cases hn : normIntArg Gen.UsingMisc.scryptBlockSizeMin relaxed (.int n) with
    | error e => simp [hn] at h
    | ok v => simp only [hn, Except.ok.injEq] at h; exact .inr ⟨by simp, v, rfl, h.symm⟩
  | str s =>
    simp only [usingBlockSize] at h
    cases hn : normIntArg Gen.UsingMisc.scryptBlockSizeMin relaxed (.str s) with
    | error e => simp [hn] at h
    | ok v => simp only [hn, Except.ok.injEq] at h; exact .inr ⟨by simp, v, rfl, h.symm⟩
  | other => simp [usingBlockSize, normIntArg] at h

theorem usingParallelism_error (c : ScryptCls) (relaxed : Bool) (p : IntArg) (e : ErrKind) (h : usingParallelism c relaxed p = .error e) :
    normIntArg Gen.UsingMisc.parallelismMin relaxed p = .error e ∧ p ≠ .none := by
  cases p with
  | none => simp [usingParallelism] at h
  | int n =>
    simp only [usingParallelism] at h
    cases hn : normIntArg Gen.UsingMisc.parallelismMin relaxed (.int n) with
    | error e' => simp only [hn, Except.error.injEq] at h; subst h; exact ⟨rfl, by simp⟩
    | ok v => simp [hn] at h
  | str s =>
    simp only [usingParallelism] at h
    cases hn : normIntArg Gen.UsingMisc.parallelismMin relaxed (.str s) with
    | error e' => simp only [hn, Except.error.injEq] at h; subst h; exact ⟨rfl, by simp⟩
    | ok v => simp [hn] at h
  | other => simp only [usingParallelism, normIntArg, Except.error.injEq] at h; subst h; exact ⟨rfl, by simp⟩

theorem usingBlockSize_error (c : ScryptCls) (relaxed : Bool) (b : IntArg) (e : ErrKind) (h : usingBlockSize c relaxed b = .error e) :
    normIntArg Gen.UsingMisc.scryptBlockSizeMin relaxed b = .error e ∧ b ≠ .none := by
  cases b with
  | none => simp [usingBlockSize] at h
  | int n =>
    simp only [usingBlockSize] at h
    cases hn : normIntArg Gen.UsingMisc.scryptBlockSizeMin relaxed (.int n) with
    | error e' => simp only [hn, Except.error.injEq] at h; subst h; exact ⟨rfl, by simp⟩
    | ok v => simp [hn] at h
  | str s =>
    simp only [usingBlockSize] at h
    cases hn : normIntArg Gen.UsingMisc.scryptBlockSizeMin relaxed (.str s) with
    | error e' => simp only [hn, Except.error.injEq] at h; subst h; exact ⟨rfl, by simp⟩
    | ok v => simp [hn] at h
  | other => simp only [usingBlockSize, normIntArg, Except.error.injEq] at h; subst h; exact ⟨rfl, by simp⟩

/-- the shape of an accepted call -/
theorem usingScrypt_ok_shape (c c' : ScryptCls) (relaxed : Bool) (p b : IntArg) (h : usingScrypt c relaxed p b = .ok c') :
    (p = .none ∧ c'.parallelism = c.parallelism ∨ p ≠ .none ∧ normIntArg Gen.UsingMisc.parallelismMin relaxed p = .ok c'.parallelism) ∧
    (b = .none ∧ c'.blockSize = c.blockSize ∨ b ≠ .none ∧ normIntArg Gen.UsingMisc.scryptBlockSizeMin relaxed b = .ok c'.blockSize) ∧
    c'.defaultRounds = c.defaultRounds ∧
    validate (1 <<< c'.defaultRounds) c'.blockSize c'.parallelism = .ok () := by
  simp only [usingScrypt] at h
  cases hp : usingParallelism c relaxed p with
  | error e => simp [hp] at h
  | ok c1 =>
    simp only [hp] at h
    cases hb : usingBlockSize c1 relaxed b with
    | error e => simp [hb] at h
    | ok c2 =>
      simp only [hb] at h
      cases hv : validate (1 <<< c2.defaultRounds) c2.blockSize c2.parallelism with
      | error e => simp [hv] at h
      | ok u =>
        simp only [hv, Except.ok.injEq] at h
        subst h
        have h1 := usingParallelism_ok c c1 relaxed p hp
        have h2 := usingBlockSize_ok c1 c2 relaxed b hb
        refine ⟨?_, ?_, ?_, by cases u; exact hv⟩
        · rcases h1 with ⟨hp0, hc1⟩ | ⟨hp0, v, hv1, hc1⟩
          · left; refine ⟨hp0, ?_⟩
            rcases h2 with ⟨_, hc2⟩ | ⟨_, w, _, hc2⟩ <;> subst hc2 <;> subst hc1 <;> rfl
          · right; refine ⟨hp0, ?_⟩
            rcases h2 with ⟨_, hc2⟩ | ⟨_, w, _, hc2⟩ <;> subst hc2 <;> subst hc1 <;> exact hv1
        · rcases h2 with ⟨hb0, hc2⟩ | ⟨hb0, w, hw, hc2⟩
          · left; refine ⟨hb0, ?_⟩
            subst hc2
            rcases h1 with ⟨_, hc1⟩ | ⟨_, v, _, hc1⟩ <;> subst hc1 <;> rfl
          · right; refine ⟨hb0, ?_⟩
            subst hc2; exact hw
        · rcases h2 with ⟨_, hc2⟩ | ⟨_, w, _, hc2⟩ <;> rcases h1 with ⟨_, hc1⟩ | ⟨_, v, _, hc1⟩ <;> subst hc2 <;> subst hc1 <;> rfl

/-- **accepted ⇒ inside the hard limits**: both settings ≥ 1, the product within what `scrypt()` can run (`r·p ≤ MAX_RP`),
    hence each of them fits the 30-bit field of the `$7$` format; strict or relaxed, int or text -/
theorem usingScrypt_in_limits (c c' : ScryptCls) (relaxed : Bool) (p b : IntArg) (h : usingScrypt c relaxed p b = .ok c') :
    1 ≤ c'.parallelism ∧ 1 ≤ c'.blockSize ∧ c'.blockSize * c'.parallelism ≤ Gen.UsingMisc.scryptMaxRP ∧
    c'.blockSize < 2 ^ 30 ∧ c'.parallelism < 2 ^ 30 := by
  obtain ⟨_, _, _, hv⟩ := usingScrypt_ok_shape c c' relaxed p b h
  obtain ⟨h1, h2, h3⟩ := validate_ok _ _ _ hv
  have hm : Gen.UsingMisc.scryptMaxRP = 2 ^ 30 - 1 := by decide
  refine ⟨h2, h1, h3, ?_, ?_⟩
  · have : c'.blockSize * 1 ≤ c'.blockSize * c'.parallelism := Int.mul_le_mul_of_nonneg_left h2 (by omega)
    omega
  · have : 1 * c'.parallelism ≤ c'.blockSize * c'.parallelism := Int.mul_le_mul_of_nonneg_right h1 (by omega)
    omega

/-- **strict mode: the new class holds exactly the requested numbers** -/
theorem usingScrypt_strict_exact (c c' : ScryptCls) (p b : IntArg) (h : usingScrypt c false p b = .ok c') :
    (p = .none ∧ c'.parallelism = c.parallelism ∨ p = .int c'.parallelism ∨ ∃ s, p = .str s ∧ pyIntOfStr s = some c'.parallelism) ∧
    (b = .none ∧ c'.blockSize = c.blockSize ∨ b = .int c'.blockSize ∨ ∃ s, b = .str s ∧ pyIntOfStr s = some c'.blockSize) := by
  obtain ⟨hp, hb, _, _⟩ := usingScrypt_ok_shape c c' false p b h
  constructor
  · rcases hp with hp | ⟨_, hp⟩
    · exact .inl hp
    · exact .inr (normIntArg_strict_exact _ _ _ hp)
  · rcases hb with hb | ⟨_, hb⟩
    · exact .inl hb
    · exact .inr (normIntArg_strict_exact _ _ _ hb)

/-- **completeness**: every pair of numbers inside the limits is accepted (for a class whose cost is at least 1), in both modes -/
theorem usingScrypt_accepts (c : ScryptCls) (relaxed : Bool) (p b : Int) (hk : 1 ≤ c.defaultRounds)
    (hp : 1 ≤ p) (hb : 1 ≤ b) (hpb : b * p ≤ Gen.UsingMisc.scryptMaxRP) :
    usingScrypt c relaxed (.int p) (.int b) = .ok { c with parallelism := p, blockSize := b } := by
  have h1 : Gen.UsingMisc.parallelismMin = 1 := rfl
  have h2 : Gen.UsingMisc.scryptBlockSizeMin = 1 := rfl
  have e1 : normIntArg Gen.UsingMisc.parallelismMin relaxed (.int p) = .ok p := by
    rw [normIntArg_int, h1]; have : ¬ p < 1 := by omega
    simp [this]
  have e2 : normIntArg Gen.UsingMisc.scryptBlockSizeMin relaxed (.int b) = .ok b := by
    rw [normIntArg_int, h2]; have : ¬ b < 1 := by omega
    simp [this]
  simp only [usingScrypt, usingParallelism, usingBlockSize, e1, e2]
  rw [validate_shift _ hk]
  have : ¬ (b < 1 ∨ p < 1 ∨ b * p > Gen.UsingMisc.scryptMaxRP) := by omega
  simp only [this, if_false]

/-- **refusals (strict)**: a number below 1 and a product beyond MAX_RP are value errors -/
theorem usingScrypt_refuses (c : ScryptCls) (p b : Int) (hk : 1 ≤ c.defaultRounds)
    (hbad : p < 1 ∨ b < 1 ∨ b * p > Gen.UsingMisc.scryptMaxRP) :
    usingScrypt c false (.int p) (.int b) = .error .valueError := by
  have h1 : Gen.UsingMisc.parallelismMin = 1 := rfl
  have h2 : Gen.UsingMisc.scryptBlockSizeMin = 1 := rfl
  simp only [usingScrypt, usingParallelism, usingBlockSize, normIntArg_int, h1, h2]
  by_cases hp : p < 1
  · simp [hp]
  · by_cases hb : b < 1
    · simp [hp, hb]
    · have : b * p > Gen.UsingMisc.scryptMaxRP := by omega
      simp only [hp, hb, if_false, Bool.false_eq_true]
      rw [validate_shift _ hk]
      have h3 : (b < 1 ∨ p < 1 ∨ b * p > Gen.UsingMisc.scryptMaxRP) := .inr (.inr this)
      simp only [h3, if_true]

/-- relaxed mode clamps a number below 1 to 1 instead of refusing it -/
theorem usingScrypt_relaxed_clamps (c : ScryptCls) (p b : Int) (hk : 1 ≤ c.defaultRounds) (hp : p < 1) (hb : b < 1) :
    usingScrypt c true (.int p) (.int b) = .ok { c with parallelism := 1, blockSize := 1 } := by
  have h1 : Gen.UsingMisc.parallelismMin = 1 := rfl
  have h2 : Gen.UsingMisc.scryptBlockSizeMin = 1 := rfl
  simp only [usingScrypt, usingParallelism, usingBlockSize, normIntArg_int, h1, h2, hp, hb, if_true]
  rw [validate_shift _ hk]
  have : ¬ ((1 : Int) < 1 ∨ (1 : Int) < 1 ∨ (1 : Int) * 1 > Gen.UsingMisc.scryptMaxRP) := by decide
  simp only [this, if_false]

/-- every error of the call is a value error or a type error; a type error needs an argument that is neither int nor text -/
theorem usingScrypt_error_kind (c : ScryptCls) (relaxed : Bool) (p b : IntArg) (e : ErrKind) (h : usingScrypt c relaxed p b = .error e) :
    e = .valueError ∨ (e = .typeError ∧ (p = .other ∨ b = .other)) := by
  simp only [usingScrypt] at h
  cases hp : usingParallelism c relaxed p with
  | error e' =>
    simp only [hp, Except.error.injEq] at h; subst h
    obtain ⟨hn, h0⟩ := usingParallelism_error c relaxed p _ hp
    rcases normIntArg_error_kind _ _ _ _ hn with ⟨hx | hx, he⟩ | ⟨_, _, he⟩
    · exact .inr ⟨he, .inl hx⟩
    · exact absurd hx h0
    · exact .inl he
  | ok c1 =>
    simp only [hp] at h
    cases hb : usingBlockSize c1 relaxed b with
    | error e' =>
      simp only [hb, Except.error.injEq] at h; subst h
      obtain ⟨hn, h0⟩ := usingBlockSize_error c1 relaxed b _ hb
      rcases normIntArg_error_kind _ _ _ _ hn with ⟨hx | hx, he⟩ | ⟨_, _, he⟩
      · exact .inr ⟨he, .inr hx⟩
      · exact absurd hx h0
      · exact .inl he
    | ok c2 =>
      simp only [hb] at h
      cases hv : validate (1 <<< c2.defaultRounds) c2.blockSize c2.parallelism with
      | ok u => simp [hv] at h
      | error e' => simp only [hv, Except.error.injEq] at h; subst h; exact .inl (validate_error_kind _ _ _ _ hv)

/-- **the next hash carries the accepted settings** (both constructor asserts hold) -/
theorem usingScrypt_next_hash (c c' : ScryptCls) (relaxed : Bool) (p b : IntArg) (h : usingScrypt c relaxed p b = .ok c') :
    initScrypt c' = .ok (c'.blockSize, c'.parallelism) := by
  obtain ⟨h1, h2, _⟩ := usingScrypt_in_limits c c' relaxed p b h
  have e1 : Gen.UsingMisc.parallelismMin = 1 := rfl
  have e2 : Gen.UsingMisc.scryptBlockSizeMin = 1 := rfl
  have n1 : ¬ c'.parallelism < 1 := by omega
  have n2 : ¬ c'.blockSize < 1 := by omega
  simp [initScrypt, normInteger_none, e1, e2, n1, n2]

/-- **the derived class's update check**: a hash is flagged exactly when its block size or its parallelism differs from the
    configured one, or `HasRounds` flags its cost -/
theorem scrypt_needs_update (c : ScryptCls) (ownB ownP : Int) (ra : Bool) :
    scryptNeedsUpdate c ownB ownP ra = .ok (decide (ownB ≠ c.blockSize ∨ ownP ≠ c.parallelism) || ra) := by
  unfold scryptNeedsUpdate Gen.Decisions.parallelismNeedsUpdate Gen.Decisions.scryptNeedsUpdate
  by_cases h1 : ownP = c.parallelism <;> by_cases h2 : ownB = c.blockSize <;> simp [h1, h2]

/-- a hash carrying the new settings is accepted by the derived class (cost inside the window) … -/
theorem scrypt_own_hash_not_flagged (c : ScryptCls) : scryptNeedsUpdate c c.blockSize c.parallelism false = .ok false := by
  rw [scrypt_needs_update]; simp

/-- … and one carrying another block size or parallelism is flagged -/
theorem scrypt_other_hash_flagged (c : ScryptCls) (ownB ownP : Int) (ra : Bool) (h : ownB ≠ c.blockSize ∨ ownP ≠ c.parallelism) :
    scryptNeedsUpdate c ownB ownP ra = .ok true := by
  rw [scrypt_needs_update]; simp [h]

/-- frame: the two settings are independent and the cost is not touched -/
theorem usingScrypt_frame (c c' : ScryptCls) (relaxed : Bool) (p b : IntArg) (h : usingScrypt c relaxed p b = .ok c') :
    c'.defaultRounds = c.defaultRounds ∧ (p = .none → c'.parallelism = c.parallelism) ∧ (b = .none → c'.blockSize = c.blockSize) := by
  obtain ⟨hp, hb, hr, _⟩ := usingScrypt_ok_shape c c' relaxed p b h
  refine ⟨hr, ?_, ?_⟩
  · intro h0; rcases hp with hp | hp
    · exact hp.2
    · exact absurd h0 hp.1
  · intro h0; rcases hb with hb | hb
    · exact hb.2
    · exact absurd h0 hb.1

example : usingScrypt scryptBase false (.str (ofString " 2 ")) (.str [0x663, 0x662]) = .ok { scryptBase with parallelism := 2, blockSize := 32 } := by decide +kernel
example : usingScrypt scryptBase false (.int 32768) (.int 32768) = .error .valueError
    ∧ usingScrypt scryptBase false (.int 32767) (.int 32768) = .ok { scryptBase with parallelism := 32767, blockSize := 32768 }
    ∧ usingScrypt scryptBase false (.int 0) .none = .error .valueError ∧ usingScrypt scryptBase true (.int 0) .none = .ok scryptBase
    ∧ usingScrypt scryptBase false .none (.str (ofString "x")) = .error .valueError ∧ usingScrypt scryptBase false .other .none = .error .typeError := by
  decide +kernel
example : 1 ≤ scryptBase.defaultRounds := by decide

/-! ## bcrypt_sha256: `using(version=…)` -/

theorem versionOfArg_ok (a : VerArg) (v : Int) (h : versionOfArg a = .ok v) : v ∈ supportedVersions := by
  have key : ∀ n : Int, normVersion n = .ok v → v ∈ supportedVersions := by
    intro n hn
    unfold normVersion at hn
    by_cases hc : supportedVersions.contains n = true
    · simp only [hc, if_true, Except.ok.injEq] at hn; subst hn; simpa using hc
    · simp only [hc] at hn; cases hn
  cases a with
  | none => simp [versionOfArg] at h
  | int n => exact key n h
  | floatInt n => exact key n h
  | str s =>
    simp only [versionOfArg] at h
    cases hp : pyIntOfStr s with
    | none => simp [hp] at h
    | some n => simp only [hp] at h; exact key n h
  | other => simp [versionOfArg] at h
  | unhashable => simp [versionOfArg] at h

/-- an int is taken exactly when it is a supported version, as it is; text means what `int()` reads -/
theorem versionOfArg_int (n v : Int) : versionOfArg (.int n) = .ok v ↔ (n ∈ supportedVersions ∧ v = n) := by
  simp only [versionOfArg, normVersion]
  by_cases hc : supportedVersions.contains n = true
  · have : n ∈ supportedVersions := by simpa using hc
    simp [hc, this, eq_comm]
  · have : n ∉ supportedVersions := by simpa using hc
    simp [hc, this]

theorem versionOfArg_str (s : Str) : versionOfArg (.str s) = match pyIntOfStr s with
    | some n => versionOfArg (.int n)
    | none => .error .valueError := by
  simp only [versionOfArg]; cases pyIntOfStr s <;> rfl

/-- the shape of an accepted call: the ident mixin's answer, a supported version (or the parent's), and NEVER version 2 with
    an identifier other than `$2b$` -/
theorem usingBs_ok (c c' : BsCls) (di i : Option Str) (a : VerArg) (h : usingBs c di i a = .ok c') :
    Model.UsingSalt.usingIdent c.ident di i = .ok c'.ident ∧
    (a = .none ∧ c'.version = c.version ∨ a ≠ .none ∧ versionOfArg a = .ok c'.version ∧ c'.version ∈ supportedVersions) ∧
    (c'.version > 1 → c'.ident.default = IDENT_2B) := by
  simp only [usingBs] at h
  cases hi : Model.UsingSalt.usingIdent c.ident di i with
  | error e => simp [hi] at h
  | ok ic =>
    simp only [hi] at h
    cases hv : usingVersion c.version a with
    | error e => simp [hv] at h
    | ok v =>
    simp only [hv] at h
    by_cases hr : v > 1 ∧ ic.default ≠ IDENT_2B
    · simp [hr] at h
    · simp only [hr, if_false, Except.ok.injEq] at h
      subst h
      refine ⟨rfl, ?_, ?_⟩
      · cases a with
        | none => simp only [usingVersion, Except.ok.injEq] at hv; exact .inl ⟨rfl, hv.symm⟩
        | int n => exact .inr ⟨by simp, hv, versionOfArg_ok (.int n) v hv⟩
        | str s => exact .inr ⟨by simp, hv, versionOfArg_ok (.str s) v hv⟩
        | floatInt n => exact .inr ⟨by simp, hv, versionOfArg_ok (.floatInt n) v hv⟩
        | other => exact .inr ⟨by simp, hv, versionOfArg_ok .other v hv⟩
        | unhashable => exact .inr ⟨by simp, hv, versionOfArg_ok .unhashable v hv⟩
      · intro hgt
        simp only at hgt ⊢
        by_cases hd : ic.default = IDENT_2B
        · exact hd
        · exact absurd ⟨hgt, hd⟩ hr

/-- **the combination rule**: asking for a version above 1 while the (new or inherited) identifier is not `$2b$` is a value error -/
theorem usingBs_v2_requires_2b (c : BsCls) (di i : Option Str) (a : VerArg) (ic : Model.UsingSalt.IdentCls) (v : Int)
    (hi : Model.UsingSalt.usingIdent c.ident di i = .ok ic)
    (hv : (a = .none ∧ v = c.version) ∨ (a ≠ .none ∧ versionOfArg a = .ok v)) (hgt : v > 1) (hd : ic.default ≠ IDENT_2B) :
    usingBs c di i a = .error .valueError := by
  have : usingVersion c.version a = .ok v := by
    rcases hv with ⟨h0, hv⟩ | ⟨h0, hv⟩
    · subst h0; subst hv; rfl
    · cases a with
      | none => exact absurd rfl h0
      | _ => exact hv
  simp [usingBs, hi, this, hgt, hd]

/-- completeness: a supported version with a compatible identifier is accepted and stored as it is -/
theorem usingBs_accepts (c : BsCls) (n : Int) (hn : n ∈ supportedVersions) (hc : n > 1 → c.ident.default = IDENT_2B) :
    usingBs c none none (.int n) = .ok { c with version := n } := by
  have : versionOfArg (.int n) = .ok n := (versionOfArg_int n n).2 ⟨hn, rfl⟩
  simp only [usingBs, usingVersion, Model.UsingSalt.usingIdent, this]
  by_cases hgt : n > 1
  · simp [hgt, hc hgt]
  · simp [hgt]

/-- error kinds of the version argument: a type error only for an unhashable value; everything else that is refused is a value error -/
theorem versionOfArg_error_kind (a : VerArg) (e : ErrKind) (h : versionOfArg a = .error e) :
    ((a = .unhashable ∨ a = .none) ∧ e = .typeError) ∨ (a ≠ .unhashable ∧ a ≠ .none ∧ e = .valueError) := by
  have key : ∀ n : Int, normVersion n = .error e → e = .valueError := by
    intro n hn
    unfold normVersion at hn
    split at hn <;> cases hn; rfl
  cases a with
  | none => simp only [versionOfArg, Except.error.injEq] at h; exact .inl ⟨.inr rfl, h.symm⟩
  | unhashable => simp only [versionOfArg, Except.error.injEq] at h; exact .inl ⟨.inl rfl, h.symm⟩
  | other => simp only [versionOfArg, Except.error.injEq] at h; exact .inr ⟨by simp, by simp, h.symm⟩
  | int n => exact .inr ⟨by simp, by simp, key n h⟩
  | floatInt n => exact .inr ⟨by simp, by simp, key n h⟩
  | str s =>
    refine .inr ⟨by simp, by simp, ?_⟩
    simp only [versionOfArg] at h
    cases hp : pyIntOfStr s with
    | none => simp only [hp, Except.error.injEq] at h; exact h.symm
    | some n => simp only [hp] at h; exact key n h

/-- **the derived class's update check**: a hash of a LOWER version than the configured one is flagged; an equal OR HIGHER one is
    left to the bcrypt checks below (a class configured with version 1 does not flag version-2 hashes) -/
theorem bs_needs_update (c : BsCls) (own : Int) (sup : Bool) :
    bsNeedsUpdate c own sup = .ok (decide (own < c.version) || sup) := by
  unfold bsNeedsUpdate Gen.Decisions.bcryptSha256NeedsUpdate
  by_cases h : own < c.version <;> simp [h]

theorem bs_own_hash_not_flagged (c : BsCls) : bsNeedsUpdate c c.version false = .ok false := by
  rw [bs_needs_update]; simp

theorem bs_older_hash_flagged (c : BsCls) (own : Int) (sup : Bool) (h : own < c.version) : bsNeedsUpdate c own sup = .ok true := by
  rw [bs_needs_update]; simp [h]

/-- where the code does not flag: a hash of a higher version than configured -/
theorem bs_newer_hash_not_flagged (c : BsCls) (own : Int) (h : c.version ≤ own) : bsNeedsUpdate c own false = .ok false := by
  rw [bs_needs_update]
  have : ¬ own < c.version := by omega
  simp [this]

/-- frame: without `version=` the version is the parent's; the version never changes the identifiers -/
theorem usingBs_frame (c c' : BsCls) (a : VerArg) (h : usingBs c none none a = .ok c') : c'.ident = c.ident ∧ (a = .none → c'.version = c.version) := by
  obtain ⟨hi, hv, _⟩ := usingBs_ok c c' none none a h
  simp only [Model.UsingSalt.usingIdent, Except.ok.injEq] at hi
  refine ⟨hi.symm, ?_⟩
  intro h0
  rcases hv with hv | hv
  · exact hv.2
  · exact absurd h0 hv.1

example : usingBs bsBase none none (.str (ofString " 1 ")) = .ok { bsBase with version := 1 }
    ∧ usingBs bsBase none (some (ofString "2a")) (.int 1) = .ok { ident := { bsBase.ident with default := ofString "$2a$" }, version := 1 }
    ∧ usingBs bsBase none (some (ofString "2a")) .none = .error .valueError
    ∧ usingBs { bsBase with version := 1 } none (some (ofString "2a")) (.str [0x662]) = .error .valueError
    ∧ usingBs bsBase none none (.int 3) = .error .valueError ∧ usingBs bsBase none none (.floatInt 2) = .ok bsBase
    ∧ usingBs bsBase none none .unhashable = .error .typeError ∧ usingBs bsBase none none (.str (ofString "02")) = .ok bsBase := by decide +kernel

/-! ## scram: `using(algs=… / default_algs=…)` -/
open Model.Formats

/-- both spellings at once fail the `assert`, before anything else -/
theorem usingAlgs_both (parent : List Str) (d a : AlgsArg) (hd : d ≠ .none) (ha : a ≠ .none) : usingAlgs parent d a = .error .assertionError := by
  unfold usingAlgs
  cases a with
  | none => exact absurd rfl ha
  | list l => simp [hd]
  | text s => simp [hd]
  | other => simp [hd]

/-- both spellings mean the same -/
theorem usingAlgs_alias_same (parent : List Str) (a : AlgsArg) : usingAlgs parent a .none = usingAlgs parent .none a := by
  unfold usingAlgs
  cases a <;> simp

theorem usingAlgs_none (parent : List Str) : usingAlgs parent .none .none = .ok parent := rfl

/-- comma text means the list of its stripped pieces -/
theorem usingAlgs_text (parent : List Str) (s : Str) : usingAlgs parent .none (.text s) = usingAlgs parent .none (.list (splitComma s)) := rfl

/-- **accepted ⇒ the stored list is the sorted list of the IANA names of exactly the requested algorithms, contains "sha-1",
    and every name has at most 9 characters** -/
theorem usingAlgs_list_ok (parent req l : List Str) (h : usingAlgs parent .none (.list req) = .ok l) :
    ∃ l', mapMRes normIana req = .ok l' ∧ l = sortStrs l' ∧ (∀ a ∈ l, a.length ≤ 9) ∧ SHA1 ∈ l := by
  simp only [usingAlgs, normAlgs] at h
  exact scramNormAlgs_ok req l h

/-- **refusals**: once every name normalises, a name longer than 9 characters or a missing "sha-1" is a value error, and nothing
    else is refused (duplicates are kept) -/
theorem usingAlgs_list_cases (parent req l' : List Str) (hm : mapMRes normIana req = .ok l') :
    usingAlgs parent .none (.list req) =
      if (sortStrs l').any (·.length > 9) then .error .valueError
      else if !(sortStrs l').contains SHA1 then .error .valueError else .ok (sortStrs l') := by
  simp only [usingAlgs, normAlgs]
  exact scramNormAlgs_of_names req l' hm

/-- a value that cannot be iterated is a type error -/
theorem usingAlgs_other (parent : List Str) : usingAlgs parent .none .other = .error .typeError := rfl

/-- **the derived class's update check**: flagged exactly when some configured algorithm is missing from the hash (or the cost is
    outside the window); a hash carrying MORE algorithms than configured is not flagged -/
theorem scram_needs_update (cfg own : List Str) (ra : Bool) :
    scramNeedsUpdate cfg own ra = (decide (∃ a ∈ cfg, a ∉ own) || ra) := by
  unfold scramNeedsUpdate
  by_cases h : cfg.all own.contains = true
  · have : ¬ ∃ a ∈ cfg, a ∉ own := by
      rintro ⟨a, ha, hn⟩
      have := List.all_eq_true.1 h a ha
      exact hn (by simpa using this)
    simp [h, this]
  · have : ∃ a ∈ cfg, a ∉ own := by
      rw [Bool.not_eq_true] at h
      rcases List.all_eq_false.1 h with ⟨a, ha, hn⟩
      exact ⟨a, ha, by simpa using hn⟩
    simp [h, this]

theorem scram_own_hash_not_flagged (cfg : List Str) : scramNeedsUpdate cfg cfg false = false := by
  rw [scram_needs_update]
  have : ¬ ∃ a ∈ cfg, a ∉ cfg := by rintro ⟨a, ha, hn⟩; exact hn ha
  simp [this]

theorem scram_superset_not_flagged (cfg own : List Str) (h : ∀ a ∈ cfg, a ∈ own) : scramNeedsUpdate cfg own false = false := by
  rw [scram_needs_update]
  have : ¬ ∃ a ∈ cfg, a ∉ own := by rintro ⟨a, ha, hn⟩; exact hn (h a ha)
  simp [this]

theorem scram_missing_alg_flagged (cfg own : List Str) (ra : Bool) (a : Str) (ha : a ∈ cfg) (hn : a ∉ own) : scramNeedsUpdate cfg own ra = true := by
  rw [scram_needs_update]
  have : ∃ a ∈ cfg, a ∉ own := ⟨a, ha, hn⟩
  simp [this]

/-- real values: IANA / hashlib / SCRAM mechanism spellings, any order, list or comma text; the next hash carries the stored list -/
example : usingAlgs Gen.UsingMisc.scramDefaultAlgs .none (.text (ofString "sha-256, SHA1")) = .ok [ofString "sha-1", ofString "sha-256"]
    ∧ usingAlgs Gen.UsingMisc.scramDefaultAlgs (.list [ofString "SCRAM-SHA-512-PLUS", ofString "md5", ofString "sha_1"]) .none
        = .ok [ofString "md5", ofString "sha-1", ofString "sha-512"]
    ∧ initAlgs [ofString "md5", ofString "sha-1", ofString "sha-512"] = .ok [ofString "md5", ofString "sha-1", ofString "sha-512"]
    ∧ initAlgs Gen.UsingMisc.scramDefaultAlgs = .ok Gen.UsingMisc.scramDefaultAlgs
    ∧ usingAlgs Gen.UsingMisc.scramDefaultAlgs .none (.text (ofString "sha-256")) = .error .valueError
    ∧ usingAlgs Gen.UsingMisc.scramDefaultAlgs .none (.list [ofString "sha-1", ofString "sha-1"]) = .ok [ofString "sha-1", ofString "sha-1"]
    ∧ usingAlgs Gen.UsingMisc.scramDefaultAlgs .none (.list [ofString "sha-1", ofString "abcdefghij"]) = .error .valueError
    ∧ usingAlgs Gen.UsingMisc.scramDefaultAlgs .none (.list []) = .error .valueError := by decide +kernel

/-! ## unix_disabled: `using(marker=…)` -/

/-- a text marker is accepted exactly when `identify` recognises it: EMPTY, or starting with one of the marker characters -/
theorem usingMarker_str (parent : Marker) (s : Str) (m : Marker) :
    usingMarker parent (.str s) = .ok m ↔ (m = .str s ∧ ∃ c t, s = c :: t ∧ c ∈ Gen.Disabled.MARKER_CHARS) := by
  simp only [usingMarker, identifyStr, Model.Disabled.unixIdentify]
  cases s with
  | nil => simp
  | cons c t =>
    by_cases hc : Gen.Disabled.MARKER_CHARS.contains c = true
    · have : c ∈ Gen.Disabled.MARKER_CHARS := by simpa using hc
      simp [hc, this, eq_comm]
    · have : c ∉ Gen.Disabled.MARKER_CHARS := by simpa using hc
      simp [hc, this]

theorem usingMarker_str_refused (parent : Marker) (s : Str) (h : identifyStr s = false) : usingMarker parent (.str s) = .error .valueError := by
  cases s <;> simp [usingMarker, h]

theorem usingMarker_other (parent : Marker) : usingMarker parent .other = .error .typeError := rfl
theorem usingMarker_none (parent : Marker) : usingMarker parent .none = .ok parent := rfl

/-- **the next "hash" is the accepted marker itself** when the marker is not empty; it is recognised as a disabled-account
    string and never verifies -/
theorem marker_next_hash (parent : Marker) (s : Str) (m : Marker) (h : usingMarker parent (.str s) = .ok m) :
    hashOut m = .ok s ∧ Model.Disabled.unixIdentify s = true ∧ ∀ secret, Model.Disabled.unixVerify secret s = .ok false := by
  obtain ⟨hm, c, t, hs, hc⟩ := (usingMarker_str parent s m).1 h
  subst hm
  subst hs
  have hid : identifyStr (c :: t) = true := by
    simp only [usingMarker] at h
    by_cases hi : identifyStr (c :: t) = true
    · exact hi
    · simp [hi] at h
  refine ⟨by simp [hashOut, hid], hid, ?_⟩
  intro secret
  have : Model.Disabled.unixIdentify (c :: t) = true := hid
  simp [Model.Disabled.unixVerify, this]

/-- the empty marker is refused at `using()` (repaired by fix b91e8ff: it used to be accepted — `identify("")` is true — and the derived
    class could then only fail the `assert marker` of `hash()`) -/
theorem usingMarker_refuses_empty (parent : Marker) :
    usingMarker parent (.str []) = .error .valueError ∧ usingMarker parent (.bytes []) = .error .valueError := ⟨rfl, rfl⟩

/-- an accepted marker is what the class emits: a marker is accepted iff it starts with a marker character -/
theorem usingMarker_nonempty (parent : Marker) (c : Nat) (t : Str) :
    (usingMarker parent (.str (c :: t)) = .ok (.str (c :: t)) ∧ hashOut (.str (c :: t)) = .ok (c :: t)) ∨
    (c ∉ Gen.Disabled.MARKER_CHARS ∧ usingMarker parent (.str (c :: t)) = .error .valueError) := by
  by_cases hc : Gen.Disabled.MARKER_CHARS.contains c = true
  · left
    have : c ∈ Gen.Disabled.MARKER_CHARS := by simpa using hc
    simp [usingMarker, hashOut, identifyStr, Model.Disabled.unixIdentify, hc, this]
  · right
    have : c ∉ Gen.Disabled.MARKER_CHARS := by simpa using hc
    exact ⟨this, by simp [usingMarker, identifyStr, Model.Disabled.unixIdentify, hc, this]⟩

example : usingMarker unixBase (.str (ofString "*LK*")) = .ok (.str (ofString "*LK*")) ∧ hashOut (.str (ofString "*LK*")) = .ok (ofString "*LK*")
    ∧ usingMarker unixBase (.str (ofString "x")) = .error .valueError ∧ usingMarker unixBase (.str (ofString "$1$abc")) = .error .valueError
    ∧ usingMarker unixBase (.bytes (ofString "!")) = .ok (.bytes (ofString "!")) ∧ hashOut unixBase = .ok (ofString "!") := by decide

end Props.C09Misc
