import PasslibVerif.Props.C04Str
/-
Non-vacuity of Props/C04Str.lean: concrete configurations and real hashes made by the Python code (/tmp/repo_clean).

(A) schemes [sha512_crypt, sha256_crypt, md5_crypt], deprecated = auto, sha256_crypt__min_rounds = 2000, sha512_crypt__default_rounds = 1000:
    attribution and update decision on real strings (parsing only — a 1000-round checksum is out of the kernel evaluator's reach:
    md5_crypt's took 5.5 minutes); `hash()` DOES return for every NUL-free secret and then satisfies `ctx_hash_verifies`; a
    (deprecated) md5_crypt hash is rehashed (`vau_rehashes` with its hypotheses discharged).
(B) [in C04StrExamples2.lean] schemes [pbkdf2_sha256, des_crypt], deprecated = auto, pbkdf2_sha256__default_rounds = 1: verify_and_update evaluated end to end
    on the real des_crypt / pbkdf2_sha256 hashes of "pw": (True, new) with the very string the real code makes for that salt,
    (False, None) for another password, (True, None) on the replacement.
(C) bsdi_crypt with an even maximum: the string `hash()` makes is flagged (the known finding, at string level).
-/
namespace Props.C04StrExamples
open Py Model.Handler Model.Formats Model.Verify Model.Rounds Model.Context Model.ContextStr Model.VerifyCrypt
open Lemmas.Context Lemmas.Rounds Lemmas.ContextStr Props.C01 Props.C04Str

def roundsKw : List String := ["min_desired_rounds", "max_desired_rounds", "min_rounds", "max_rounds", "default_rounds", "vary_rounds"]
def sha512Info : SchemeInfo := ⟨"sha512_crypt", sha512Entry.base, ["salt", "rounds", "implicit_rounds", "salt_size"] ++ roundsKw, false⟩
def sha256Info : SchemeInfo := ⟨"sha256_crypt", sha256Entry.base, ["salt", "rounds", "implicit_rounds", "salt_size"] ++ roundsKw, false⟩
def md5Info : SchemeInfo := ⟨"md5_crypt", none, ["salt", "salt_size"], false⟩
def desInfo : SchemeInfo := ⟨"des_crypt", none, ["salt", "truncate_error"], false⟩
def pbkdf2Info : SchemeInfo := ⟨"pbkdf2_sha256", pbkdf2Sha256Entry.base, ["salt", "salt_size", "rounds"] ++ roundsKw, false⟩
def bsdiInfo : SchemeInfo := ⟨"bsdi_crypt", bsdiEntry.base, ["salt", "rounds"] ++ roundsKw, false⟩

/-! ### (A) the crypt family -/
def cfgA : Cfg :=
  ⟨[sha512Info, sha256Info, md5Info], [], [(none, ["auto"])],
   [(("sha256_crypt", none), [("min_rounds", .rounds (.int 2000))]), (("sha512_crypt", none), [("default_rounds", .rounds (.int 1000))])]⟩

def realMd5 : Str := ofString "$1$abcdefgh$IQtUouv7y7Q9dRWkQEPCc."
def realSha256 : Str := ofString "$5$rounds=1000$saltsaltsaltsalt$b70IZgXpYBdEyQ9arjbSW5KAXdl57mX1OCyvh8WRHNC"
def realSha256b : Str := ofString "$5$rounds=2500$saltsaltsaltsalt$Jj9hjSj3/NMmqsdG.LdyWD1NuFKckbnjDevXtWwqb.7"
def realSha512 : Str :=
  ofString "$6$rounds=1000$saltsaltsaltsalt$4x9kufhwkJaKtf4seIqE/TZk6G/DqOFk3orVgpNzyiLnBpKBJ14TokK23FWMAFQcK07nQ3huf2NpOJsQOFudB/"

example : cfgOver cfgA = true ∧ validate cfgA = .ok () ∧ defaultScheme cfgA none = .ok "sha512_crypt" ∧
    hashCtx cfgA none 7 0 = .ok ("sha512_crypt", some 1000) := by
  refine ⟨by decide, by decide, by decide, by decide⟩

/-- the real strings: attributed by format; the sha256_crypt / md5_crypt ones need updating ("auto"), the sha512_crypt one does not -/
example : identifyStr cfgA realMd5 = .ok "md5_crypt" ∧ identifyStr cfgA realSha256 = .ok "sha256_crypt" ∧
    identifyStr cfgA realSha512 = .ok "sha512_crypt" ∧
    needsUpdateStr cfgA realMd5 none = .ok true ∧ needsUpdateStr cfgA realSha256 none = .ok true ∧
    needsUpdateStr cfgA realSha512 none = .ok false := by
  refine ⟨by decide +kernel, by decide +kernel, by decide +kernel, by decide +kernel, by decide +kernel, by decide +kernel⟩

/-- cost outside the configured limits: sha256_crypt as the default with min_rounds = 2000 flags the 1000-round string and keeps the
    2500-round one; a malformed string of a non-deprecated scheme is a ValueError, of a deprecated one simply "needs updating" -/
def cfgA2 : Cfg :=
  ⟨[sha256Info, md5Info], [], [(none, ["md5_crypt"])],
   [(("sha256_crypt", none), [("min_rounds", .rounds (.int 2000)), ("default_rounds", .rounds (.int 2500))])]⟩

example : needsUpdateStr cfgA2 realSha256 none = .ok true ∧ needsUpdateStr cfgA2 realSha256b none = .ok false ∧
    needsUpdateStr cfgA2 realMd5 none = .ok true ∧
    needsUpdateStr cfgA2 (ofString "$5$rounds=0500$salt$x") none = .error .valueError ∧
    needsUpdateStr cfgA2 (ofString "$1$toolongsalt$x") none = .ok true ∧
    identifyStr cfgA2 (ofString "abzlUXK5ed5rs") = .error .unknownHash := by
  refine ⟨by decide +kernel, by decide +kernel, by decide +kernel, by decide +kernel, by decide +kernel, by decide +kernel⟩

theorem sha512_hash_succeeds (s : Secret) (b : Bytes) (salt : Str) (rounds : Nat) (hv : s.len ≤ MAX_PASSWORD_SIZE)
    (hb : s.toBytes = .ok b) (h0 : 0 ∉ b) (hl : salt.length ≤ 64) :
    ∃ hs, hashSecret sha512Hasher s (sha2Settings (ofString "$6$") salt rounds) = .ok hs := by
  unfold hashSecret validateSecret checksumOf checkTruncate checkNul
  have : ¬ s.len > MAX_PASSWORD_SIZE := by omega
  simp only [this, if_false, hb, sha512Hasher, sha2Settings, if_true, h0, and_false, Option.getD_some, Int.toNat_natCast]
  rw [Props.C02.sha512_crypt_eq_spec b salt rounds hl]
  exact ⟨_, rfl⟩

/-- `hash()` under cfgA returns — for EVERY NUL-free encodable secret within the size limit, every admissible salt, every draw — a
    string attributed to sha512_crypt (the default), with the configured cost 1000, that verifies the secret and needs no update:
    the hypotheses of `ctx_hash_verifies` are satisfiable, its conclusion is not vacuous -/
example (s : Secret) (b : Bytes) (salt : Str) (draw : Nat) (hv : s.len ≤ MAX_PASSWORD_SIZE) (hb : s.toBytes = .ok b) (h0 : 0 ∉ b)
    (hsalt : saltOK "sha512_crypt" salt = true) :
    ∃ hs, hashWith cfgA none draw 0 salt s = .ok hs ∧ identifyStr cfgA hs = .ok "sha512_crypt" ∧
      (factsOf (entriesOf cfgA) hs s).rounds = some 1000 ∧ verifyStr cfgA s hs = .ok true ∧ needsUpdateStr cfgA hs none = .ok false := by
  have hc : hashCtx cfgA none draw 0 = .ok ("sha512_crypt", some 1000) := by
    unfold hashCtx
    have h1 : defaultScheme cfgA none = .ok "sha512_crypt" := by decide
    have h2 : cfgA.schemes.find? (fun x => x.name = "sha512_crypt") = some sha512Info := by rfl
    have h3 : getRecord cfgA sha512Info none = .ok ⟨"sha512_crypt", some ⟨1000, some 999999999, none, none, some 1000, .none, false⟩, false, false⟩ := by
      rfl
    simp only [h1, h2, h3]
    rfl
  have hl : salt.length ≤ 64 := by
    simp only [saltOK, String.reduceEq, if_false, or_true, if_true, Bool.and_eq_true, decide_eq_true_eq] at hsalt
    omega
  obtain ⟨hs, hh⟩ := sha512_hash_succeeds s b salt 1000 hv hb h0 hl
  have hw : hashWith cfgA none draw 0 salt s = .ok hs := by
    rw [hashWith_of cfgA none draw 0 salt s "sha512_crypt" (some 1000) sha512Entry hc rfl]
    exact hh
  obtain ⟨d, n, hc', _, hi, hr, hvf, hnu⟩ := ctx_hash_verifies cfgA (by decide) none draw 0 salt s hs
    (by intro d hd; have : defaultScheme cfgA none = .ok "sha512_crypt" := by decide
        rw [this] at hd; cases hd; exact hsalt)
    (by intro d hd; have : defaultScheme cfgA none = .ok "sha512_crypt" := by decide
        rw [this] at hd; cases hd; decide) hw
  rw [hc] at hc'; cases hc'
  exact ⟨hs, hw, hi, hr, hvf, hnu⟩

/-- a string md5_crypt made (it exists: `md5_crypt_hash_succeeds`) is deprecated under cfgA: verify_and_update with its password
    answers (True, new) where new is what `hash()` makes — `vau_rehashes`, hypotheses discharged -/
example (s : Secret) (salt0 hs : Str) (hs0 : saltOK "md5_crypt" salt0 = true)
    (hh : hashSecret (md5Hasher false) s (md5Entry.settings salt0 none) = .ok hs) (draw : Nat) (salt : Str) :
    vauStr cfgA none draw 0 salt s hs = (hashWith cfgA none draw 0 salt s).map fun new => (true, some new) :=
  vau_rehashes cfgA md5Info md5Entry (by simp [cfgA]) rfl salt0 none hs0 rfl s hs hh none md5Info
    ⟨"md5_crypt", none, true, false⟩ (by rfl) (by rfl) (Or.inl rfl) draw 0 salt

def pw : Secret := .text (ofString "pw")

/-! ### (C) bsdi_crypt: the statement of `ctx_hash_verifies` without "the default scheme is not bsdi_crypt" is FALSE -/
def cfgC : Cfg :=
  ⟨[bsdiInfo], [], [], [(("bsdi_crypt", none), [("max_rounds", .rounds (.int 2)), ("default_rounds", .rounds (.int 2))])]⟩

/-- `CryptContext(schemes=["bsdi_crypt"], bsdi_crypt__max_rounds=2, bsdi_crypt__default_rounds=2)`: `hash("pw")` with salt "rasm" is
    `_1...rasmXlak7950jUs` (3 rounds: made odd after clipping to the window) and `needs_update` of it is True — on the real code too -/
theorem ctx_hash_verifies_bsdi_counterexample :
    cfgOver cfgC = true ∧ saltOK "bsdi_crypt" (ofString "rasm") = true ∧
    hashWith cfgC none 0 0 (ofString "rasm") pw = .ok (ofString "_1...rasmXlak7950jUs") ∧
    needsUpdateStr cfgC (ofString "_1...rasmXlak7950jUs") none = .ok true ∧
    vauStr cfgC none 0 0 (ofString "rasm") pw (ofString "_1...rasmXlak7950jUs") = .ok (true, some (ofString "_1...rasmXlak7950jUs")) := by
  refine ⟨by decide, by decide, by decide +kernel, by decide +kernel, by decide +kernel⟩

/-- the full statement asked for — `ctx_hash_verifies` for EVERY configuration over the seven schemes — is false: negation, with the
    witness above (real code: the same answers, recorded finding bsdi-odd-rounds-exceed-even-max) -/
theorem ctx_hash_verifies_all_schemes_false :
    ¬ (∀ (c : Cfg) (cat : Cat) (draw : Nat) (fv : Int) (salt : Str) (s : Secret) (hs : Str), cfgOver c = true →
        (∀ d, defaultScheme c cat = .ok d → saltOK d salt = true) → hashWith c cat draw fv salt s = .ok hs →
        needsUpdateStr c hs cat = .ok false) := by
  intro h
  obtain ⟨h1, h2, h3, h4, _⟩ := ctx_hash_verifies_bsdi_counterexample
  have hd : defaultScheme cfgC none = .ok "bsdi_crypt" := by decide
  have := h cfgC none 0 0 (ofString "rasm") pw _ h1 (by intro d hdd; rw [hd] at hdd; cases hdd; exact h2) h3
  rw [h4] at this
  cases this

end Props.C04StrExamples
