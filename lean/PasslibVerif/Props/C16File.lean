import PasslibVerif.Lemmas.ApacheFileStep
import PasslibVerif.Props.C16
/-
C16, the file side — HtpasswdFile / HtdigestFile bound to a path: `_path`, the `_mtime` cell, `load`, `load_if_changed`,
`save`, `_autosave`, over a file system and a clock that other processes change (Model/ApacheFile.lean).
Every theorem is for ALL states `s` (hence for the state after any history of object operations and environment steps)
or explicitly for all histories.
-/
namespace Props.C16File
open Py Model.ApacheFile Lemmas.Apache Lemmas.ApacheFile
open Model.Apache hiding Op step run

/-! ### 1. autosave: after every mutating operation the bound file IS the export -/

/-- With autosave on and a path bound, a mutator that gets as far as `self._autosave()` (i.e. that did not raise and did not
    return early: `reachesAutosave`) leaves the bound file equal to `to_string()`, stamped with the clock, and the `_mtime`
    cell equal to that stamp. -/
theorem autosave_disk_eq_export (digest : Bool) (vau : Vau) (s : Sys) (op : Op) (p : Path)
    (ha : s.o.autosave = true) (hp : s.o.path = some p) (hm : reachesAutosave vau s op = true) :
    ((step digest vau s op).1.w.fs.get p = some ⟨toString (step digest vau s op).1.o.st, s.w.now⟩) ∧
    (step digest vau s op).1.o.mtime = s.w.now ∧ (step digest vau s op).1.o.path = some p ∧
    (step digest vau s op).1.o.autosave = true := by
  obtain ⟨ao, hao⟩ := recordsOp_of_mutator op (reachesAutosave_mutator vau s op hm)
  rcases mutator_shape digest vau s op ao hao with ⟨hno, _⟩ | ⟨_, hshape⟩
  · rw [hm] at hno; cases hno
  · rw [hshape, autosave_on s.w _ p (by simpa using ha) (by simpa using hp)]
    simp [get_writeFile_self, hp, ha]

/-- … and a mutator that does NOT get there changed nothing at all (so a file that was equal to the export still is) -/
theorem mutator_without_autosave_is_noop (digest : Bool) (vau : Vau) (s : Sys) (op : Op)
    (hmut : isMutator op = true) (hm : reachesAutosave vau s op = false) : (step digest vau s op).1 = s := by
  obtain ⟨ao, hao⟩ := recordsOp_of_mutator op hmut
  rcases mutator_shape digest vau s op ao hao with ⟨_, h, _⟩ | ⟨hyes, _⟩
  · exact h
  · rw [hm] at hyes; cases hyes

theorem run_append (digest : Bool) (vau : Vau) (s : Sys) (a b : List Op) :
    run digest vau s (a ++ b) = run digest vau (run digest vau s a) b := by simp [run, List.foldl_append]

/-- the same over histories: whatever happened before (environment steps included), right after a mutator of an
    autosaving bound object the file equals the export -/
theorem autosave_disk_eq_export_history (digest : Bool) (vau : Vau) (s0 : Sys) (ops : List Op) (op : Op) (p : Path)
    (ha : (run digest vau s0 ops).o.autosave = true) (hp : (run digest vau s0 ops).o.path = some p)
    (hm : reachesAutosave vau (run digest vau s0 ops) op = true) :
    (run digest vau s0 (ops ++ [op])).w.fs.get p =
      some ⟨toString (run digest vau s0 (ops ++ [op])).o.st, (run digest vau s0 ops).w.now⟩ := by
  rw [run_append]
  exact (autosave_disk_eq_export digest vau _ op p ha hp hm).1

/-! ### 2. save, then load -/

/-- `save()` writes the export to the bound path, stamps the clock, remembers the stamp -/
theorem save_bound_spec (w : World) (o : Obj) (p : Path) (hp : o.path = some p) :
    save w o none = (writeFile w p (toString o.st), { o with mtime := w.now }, .unit) ∧
    (writeFile w p (toString o.st)).fs.get p = some ⟨toString o.st, w.now⟩ :=
  ⟨save_bound w o p hp, get_writeFile_self _ _ _⟩

/-- `save()` then `load()` on the same object IS `load_string(to_string())` (with the cell = the stamp) -/
theorem save_then_load_same_object (digest : Bool) (w : World) (o : Obj) (p : Path) (hp : o.path = some p) :
    load digest (save w o none).1 (save w o none).2.1 none =
      loadLinesInto digest { o with mtime := w.now } (toString o.st) (.bool true) := by
  rw [save_bound w o p hp]
  rw [load_bound digest _ _ p ⟨toString o.st, w.now⟩ (by simpa using hp) (get_writeFile_self _ _ _)]

/-- `save()` then a FRESH object on the same path: its records are the parse of the export too -/
theorem save_then_load_fresh_object (digest : Bool) (w : World) (o : Obj) (p : Path) (au : Bool) (st' : St)
    (hp : o.path = some p) (h : loadString digest (toString o.st) = .ok st') :
    construct digest (save w o none).1 (some p) false au = .ok ⟨st', some p, w.now, au⟩ := by
  rw [save_bound w o p hp]
  simp only [construct, Option.isSome_some, Bool.not_false, Bool.and_true, if_true]
  rw [load_bound digest _ _ p ⟨toString o.st, w.now⟩ rfl (get_writeFile_self _ _ _)]
  simp [loadLinesInto, h]

/-
ASKED: `save_then_load_is_identity` — "save followed by load (same or fresh object) gives the same records and export".
FALSE of the code as stated for the export (`save_then_load_export_counterexample`: blank lines that end up at the end of
the export are dropped by the reload), and for states holding a record that does not survive re-parsing (open findings
`set_hash-unvalidated-hash-text`, `user-name-starting-with-hash`).  Proved instead, for all states:
the file round trip adds NOTHING to the string round trip — both the same object and a fresh one end with exactly
`load_string(to_string())`, cell = the save stamp, file untouched by the load.
-/
theorem save_then_load_is_identity_partial (digest : Bool) (w : World) (o : Obj) (p : Path) (au : Bool) (st' : St)
    (hp : o.path = some p) (h : loadString digest (toString o.st) = .ok st') :
    load digest (save w o none).1 (save w o none).2.1 none = ({ o with st := st', mtime := w.now }, .bool true) ∧
    construct digest (save w o none).1 (some p) false au = .ok ⟨st', some p, w.now, au⟩ ∧
    (save w o none).1.fs.get p = some ⟨toString o.st, w.now⟩ := by
  refine ⟨?_, save_then_load_fresh_object digest w o p au st' hp h, ?_⟩
  · rw [save_then_load_same_object digest w o p hp]; simp [loadLinesInto, h]
  · rw [save_bound w o p hp]; exact get_writeFile_self _ _ _

/-- … in particular when the string round trip is the identity on the state, so is the file round trip -/
theorem save_then_load_is_identity_of_string_roundtrip (digest : Bool) (w : World) (o : Obj) (p : Path)
    (hp : o.path = some p) (h : loadString digest (toString o.st) = .ok o.st) :
    (load digest (save w o none).1 (save w o none).2.1 none).1.st = o.st ∧
    toString (load digest (save w o none).1 (save w o none).2.1 none).1.st = toString o.st := by
  rw [(save_then_load_is_identity_partial digest w o p false o.st hp h).1]; simp

def vau0 : Vau := fun _ _ => (false, none)
/-- "a:1", two blank lines, "b:2"; then delete b -/
def trailingBlank : St :=
  Model.Apache.run false vau0 St.empty [.load [97,58,49,10,10,10,98,58,50,10], .delete [98] none]

/-- the export of `trailingBlank` is "a:1\n\n\n"; its reload exports "a:1\n" — same records, different export -/
theorem save_then_load_export_counterexample :
    Inv trailingBlank ∧
    ∃ s', loadString false (toString trailingBlank) = .ok s' ∧ s'.records = trailingBlank.records ∧
      toString trailingBlank = [97,58,49,10,10,10] ∧ toString s' = [97,58,49,10] :=
  ⟨Props.C16.inv_reachable false vau0 _, ⟨[(⟨[97], none⟩, [49])], [.record ⟨[97], none⟩]⟩, by decide, by decide, by decide, by decide⟩

/-- non-vacuity of the positive case: comments, a blank line, two users — the string round trip is the identity -/
def sample : St :=
  ⟨[(⟨[117,49], none⟩, [104,49]), (⟨[117,50], none⟩, [104,50])],
   [.skipped [35,32,99,10,10], .record ⟨[117,49], none⟩, .record ⟨[117,50], none⟩, .skipped [35,116,10]]⟩
example : loadString false (toString sample) = .ok sample := by decide

/-! ### 3. load_if_changed -/
theorem load_answer_ne_false (digest : Bool) (o : Obj) (d : Bytes) : (loadLinesInto digest o d (.bool true)).2 ≠ .bool false := by
  cases h : loadString digest d <;> simp [loadLinesInto, h]

/-- unchanged: a non-zero remembered mtime EQUAL to the file's — returns False, touches nothing -/
theorem load_if_changed_unchanged (digest : Bool) (w : World) (o : Obj) (p : Path) (f : File)
    (hp : o.path = some p) (hf : w.fs.get p = some f) (h : o.mtime ≠ 0 ∧ o.mtime = f.mtime) :
    loadIfChanged digest w o = (o, .bool false) := by
  unfold loadIfChanged
  simp only [hp, getmtime, hf]
  rw [if_pos h.1, if_pos h.2]

/-- otherwise — nothing remembered, or ANY difference, older or newer — it reloads: records = the parse of the file's
    content (kept if the parse fails, the error propagates), cell = the file's mtime (also when the parse fails: the
    assignment precedes `_load_lines`) -/
theorem load_if_changed_reloads (digest : Bool) (w : World) (o : Obj) (p : Path) (f : File)
    (hp : o.path = some p) (hf : w.fs.get p = some f) (h : ¬(o.mtime ≠ 0 ∧ o.mtime = f.mtime)) :
    loadIfChanged digest w o =
      match loadString digest f.content with
      | .ok st => ({ o with st := st, mtime := f.mtime }, .bool true)
      | .error e => ({ o with mtime := f.mtime }, .err (.py e)) := by
  have hl := load_bound digest w o p f hp hf
  unfold loadIfChanged
  simp only [hp, getmtime, hf]
  by_cases h0 : o.mtime = 0
  · simp only [h0, ne_eq, not_true_eq_false, if_false]
    rw [hl]; cases hs : loadString digest f.content <;> simp [loadLinesInto, hs, hp]
  · have hne : o.mtime ≠ f.mtime := fun e => h ⟨h0, e⟩
    simp only [ne_eq, h0, not_false_eq_true, if_true, hne, if_false]
    rw [hl]; cases hs : loadString digest f.content <;> simp [loadLinesInto, hs, hp]

/-- returns False iff a mtime is remembered and equals the file's -/
theorem load_if_changed_spec (digest : Bool) (w : World) (o : Obj) (p : Path) (f : File)
    (hp : o.path = some p) (hf : w.fs.get p = some f) :
    ((loadIfChanged digest w o).2 = .bool false ↔ (o.mtime ≠ 0 ∧ o.mtime = f.mtime)) ∧
    ((loadIfChanged digest w o).2 = .bool false → (loadIfChanged digest w o).1 = o) := by
  by_cases h : o.mtime ≠ 0 ∧ o.mtime = f.mtime
  · rw [load_if_changed_unchanged digest w o p f hp hf h]
    exact ⟨⟨fun _ => h, fun _ => rfl⟩, fun _ => rfl⟩
  · rw [load_if_changed_reloads digest w o p f hp hf h]
    cases hs : loadString digest f.content <;> simp [h]

/-- a second call with no environment step in between returns False (the file's mtime being non-zero) -/
theorem load_if_changed_twice (digest : Bool) (w : World) (o : Obj) (p : Path) (f : File)
    (hp : o.path = some p) (hf : w.fs.get p = some f) (hf0 : f.mtime ≠ 0) :
    loadIfChanged digest w (loadIfChanged digest w o).1 = ((loadIfChanged digest w o).1, .bool false) := by
  by_cases h : o.mtime ≠ 0 ∧ o.mtime = f.mtime
  · rw [load_if_changed_unchanged digest w o p f hp hf h]
    exact load_if_changed_unchanged digest w o p f hp hf h
  · rw [load_if_changed_reloads digest w o p f hp hf h]
    cases hs : loadString digest f.content <;> simp only <;>
      exact load_if_changed_unchanged digest w _ p f (by simpa using hp) hf ⟨by simpa using hf0, rfl⟩

/-- a file whose mtime is 0 (the epoch) can never be remembered: every call reloads -/
theorem load_if_changed_epoch_file_always_reloads (digest : Bool) (w : World) (o : Obj) (p : Path) (f : File)
    (hp : o.path = some p) (hf : w.fs.get p = some f) (hf0 : f.mtime = 0) :
    (loadIfChanged digest w o).2 ≠ .bool false := by
  intro h
  have := ((load_if_changed_spec digest w o p f hp hf).1.1 h)
  exact this.1 (this.2.trans hf0)

/-- OBSERVATION (true of the code, confirmed on the real classes): the cell is assigned BEFORE `_load_lines` parses, so a
    reload that fails on a malformed file is nevertheless "remembered": the first call raises ValueError, the second call
    (file untouched) answers False — the object keeps its OLD records while reporting the file as unchanged -/
theorem failed_reload_is_remembered (digest : Bool) (w : World) (o : Obj) (p : Path) (f : File) (e : ErrKind)
    (hp : o.path = some p) (hf : w.fs.get p = some f) (hf0 : f.mtime ≠ 0) (hch : o.mtime ≠ f.mtime)
    (hbad : loadString digest f.content = .error e) :
    loadIfChanged digest w o = ({ o with mtime := f.mtime }, .err (.py e)) ∧
    loadIfChanged digest w { o with mtime := f.mtime } = ({ o with mtime := f.mtime }, .bool false) := by
  constructor
  · rw [load_if_changed_reloads digest w o p f hp hf (fun h => hch h.2), hbad]
  · exact load_if_changed_unchanged digest w _ p f (by simpa using hp) hf ⟨by simpa using hf0, rfl⟩

/-- instance: "u1:h1" read at mtime 5, the file becomes "broken" at mtime 8 -/
example :
    let s : Sys := ⟨⟨[(0, ⟨[98,114,111,107,101,110,10], 8⟩)], 9⟩, ⟨⟨[(⟨[117,49], none⟩, [104,49])], [.record ⟨[117,49], none⟩]⟩, some 0, 5, false⟩⟩
    runAns false vau0 s [.loadIfChanged, .getMtime, .loadIfChanged, .export] =
      [.err (.py .valueError), .int 8, .bool false, .bytes [117,49,58,104,49,10]] := by decide

theorem load_if_changed_errors (digest : Bool) (w : World) (o : Obj) :
    (o.path = none → loadIfChanged digest w o = (o, .err (.py .runtimeError))) ∧
    (∀ p, o.path = some p → w.fs.get p = none → loadIfChanged digest w o = (o, .err .osError)) := by
  refine ⟨fun hp => by simp [loadIfChanged, hp], fun p hp hf => ?_⟩
  unfold loadIfChanged
  simp only [hp, getmtime, hf, load_bound_missing digest w o p hp hf]
  split <;> rfl

/-- THE STALENESS WINDOW the equality test implies (the code's documented limit, not a defect): another process rewrites
    the bound file with ANY content but the same mtime (same-second rewrite) — `load_if_changed()` answers False and the
    object keeps its old records -/
theorem same_mtime_rewrite_unnoticed (digest : Bool) (vau : Vau) (s : Sys) (p : Path) (c : Bytes)
    (hp : s.o.path = some p) (hm : s.o.mtime ≠ 0) :
    step digest vau (step digest vau s (.envWrite p c s.o.mtime)).1 .loadIfChanged =
      ((step digest vau s (.envWrite p c s.o.mtime)).1, .bool false) ∧
    (step digest vau s (.envWrite p c s.o.mtime)).1.o = s.o ∧
    (step digest vau s (.envWrite p c s.o.mtime)).1.w.fs.get p = some ⟨c, s.o.mtime⟩ := by
  have hget : (FS.put p ⟨c, s.o.mtime⟩ s.w.fs).get p = some ⟨c, s.o.mtime⟩ := get_put_self _ _ _
  refine ⟨?_, rfl, hget⟩
  simp only [step]
  rw [load_if_changed_unchanged digest _ s.o p ⟨c, s.o.mtime⟩ hp hget ⟨hm, rfl⟩]

/-- a concrete instance: the object read "u1:h1" at mtime 5; the file becomes "u2:h2" at mtime 5; nothing is noticed -/
example :
    let s : Sys := ⟨⟨[(0, ⟨[117,49,58,104,49,10], 5⟩)], 9⟩, ⟨⟨[(⟨[117,49], none⟩, [104,49])], [.record ⟨[117,49], none⟩]⟩, some 0, 5, false⟩⟩
    runAns false vau0 s [.envWrite 0 [117,50,58,104,50,10] 5, .loadIfChanged, .export] =
      [.unit, .bool false, .bytes [117,49,58,104,49,10]] := by decide

/-! ### 4. an explicit-path save is a copy -/
theorem explicit_save_is_a_copy (w : World) (o : Obj) (q : Path) :
    (save w o (some q)).2.1 = o ∧ (save w o (some q)).2.2 = .unit ∧
    (save w o (some q)).1.fs.get q = some ⟨toString o.st, w.now⟩ ∧
    (∀ p, p ≠ q → (save w o (some q)).1.fs.get p = w.fs.get p) ∧ (save w o (some q)).1.now = w.now :=
  ⟨rfl, rfl, get_writeFile_self _ _ _, fun p hne => get_writeFile_other w q p _ hne, rfl⟩

/-- mutators of a non-autosaving object touch neither the world nor `_path` / `_mtime` / the flag -/
theorem mutators_off_frame (digest : Bool) (vau : Vau) : ∀ (ms : List Op) (s : Sys), s.o.autosave = false →
    (∀ m ∈ ms, isMutator m = true) →
    (run digest vau s ms).w = s.w ∧ (run digest vau s ms).o.path = s.o.path ∧
    (run digest vau s ms).o.mtime = s.o.mtime ∧ (run digest vau s ms).o.autosave = false
  | [], s, ha, _ => ⟨rfl, rfl, rfl, ha⟩
  | m :: ms, s, ha, hms => by
    obtain ⟨ao, hao⟩ := recordsOp_of_mutator m (hms m (by simp))
    have hstep : (step digest vau s m).1.w = s.w ∧ (step digest vau s m).1.o.path = s.o.path ∧
        (step digest vau s m).1.o.mtime = s.o.mtime ∧ (step digest vau s m).1.o.autosave = false := by
      rcases mutator_shape digest vau s m ao hao with ⟨_, h, _⟩ | ⟨_, h⟩
      · rw [h]; exact ⟨rfl, rfl, rfl, ha⟩
      · rw [h, autosave_off s.w _ (Or.inl (by simpa using ha))]; exact ⟨rfl, rfl, rfl, ha⟩
    have ih := mutators_off_frame digest vau ms (step digest vau s m).1 hstep.2.2.2 (fun x hx => hms x (by simp [hx]))
    simp only [run, List.foldl_cons] at ih ⊢
    exact ⟨ih.1.trans hstep.1, ih.2.1.trans hstep.2.1, ih.2.2.1.trans hstep.2.2.1, ih.2.2.2⟩

/-- unsaved edits survive: an object in step with its file (cell = file's mtime ≠ 0), any edits, `save(other)`:
    the following `load_if_changed()` answers False and the edited records stay; the bound file is as it was -/
theorem unsaved_edits_survive_explicit_save (digest : Bool) (vau : Vau) (s : Sys) (ms : List Op) (p q : Path) (f : File)
    (hp : s.o.path = some p) (hq : p ≠ q) (hoff : s.o.autosave = false) (hf : s.w.fs.get p = some f)
    (hcell : s.o.mtime ≠ 0 ∧ s.o.mtime = f.mtime) (hms : ∀ m ∈ ms, isMutator m = true) :
    step digest vau (step digest vau (run digest vau s ms) (.save (some q))).1 .loadIfChanged =
      ((step digest vau (run digest vau s ms) (.save (some q))).1, .bool false) ∧
    (step digest vau (run digest vau s ms) (.save (some q))).1.o = (run digest vau s ms).o ∧
    (step digest vau (run digest vau s ms) (.save (some q))).1.w.fs.get p = some f := by
  obtain ⟨hw, hpath, hmt, _⟩ := mutators_off_frame digest vau ms s hoff hms
  have hcopy := explicit_save_is_a_copy (run digest vau s ms).w (run digest vau s ms).o q
  have hfile : (save (run digest vau s ms).w (run digest vau s ms).o (some q)).1.fs.get p = some f := by
    rw [hcopy.2.2.2.1 p hq, hw]; exact hf
  refine ⟨?_, rfl, hfile⟩
  simp only [step]
  rw [load_if_changed_unchanged digest _ _ p f (by rw [← hpath] at hp; exact hp) hfile (by show (run digest vau s ms).o.mtime ≠ 0 ∧ (run digest vau s ms).o.mtime = f.mtime; rw [hmt]; exact hcell)]

/-! ### 5. the records change only by a mutator or a (re)load -/
theorem save_keeps_records (w : World) (o : Obj) (p : Option Path) : (save w o p).2.1.st = o.st := by
  cases p with
  | some q => rfl
  | none =>
    cases hp : o.path with
    | none => simp [save, hp]
    | some q => simp [save_bound w o q hp]

theorem records_change_only_by_mutator_or_load (digest : Bool) (vau : Vau) (s : Sys) (op : Op)
    (h : (step digest vau s op).1.o.st ≠ s.o.st) : isMutator op = true ∨ isLoad op = true := by
  cases op <;> simp [isMutator, isLoad] <;> apply h <;> simp [step, setPath, save_keeps_records]

/-- induction over histories: saves (to any path), the path setter, queries and ALL environment steps (files replaced,
    removed, the clock moved) never change the records: unsaved edits are lost only by a reload -/
theorem unsaved_edits_lost_only_by_reload (digest : Bool) (vau : Vau) : ∀ (ops : List Op) (s : Sys),
    (∀ op ∈ ops, isMutator op = false ∧ isLoad op = false) → (run digest vau s ops).o.st = s.o.st
  | [], _, _ => rfl
  | op :: ops, s, h => by
    have h1 : (step digest vau s op).1.o.st = s.o.st := by
      apply Classical.byContradiction
      intro hne
      rcases records_change_only_by_mutator_or_load digest vau s op hne with hm | hl
      · simp [(h op (by simp)).1] at hm
      · simp [(h op (by simp)).2] at hl
    have ih := unsaved_edits_lost_only_by_reload digest vau ops (step digest vau s op).1 (fun x hx => h x (by simp [hx]))
    simp only [run, List.foldl_cons] at ih ⊢
    exact ih.trans h1

/-- and `load_if_changed` itself loses them only when it answers True (or raises a parse error AFTER reading: never) -/
theorem load_if_changed_false_keeps_everything (digest : Bool) (vau : Vau) (s : Sys)
    (h : (step digest vau s .loadIfChanged).2 = .bool false) : (step digest vau s .loadIfChanged).1 = s := by
  simp only [step] at h ⊢
  cases hp : s.o.path with
  | none => simp [loadIfChanged, hp]
  | some p =>
    cases hf : s.w.fs.get p with
    | none => rw [(load_if_changed_errors digest s.w s.o).2 p hp hf]
    | some f => rw [(load_if_changed_spec digest s.w s.o p f hp hf).2 h]

/-! ### 6. the C16 invariant (Props/C16.lean) is preserved by every file operation and environment step -/
theorem inv_preserved_file (digest : Bool) (vau : Vau) (s : Sys) (op : Op) (h : Inv s.o.st) :
    Inv (step digest vau s op).1.o.st := by
  by_cases hm : isMutator op = true
  · obtain ⟨ao, hao⟩ := recordsOp_of_mutator op hm
    rcases mutator_shape digest vau s op ao hao with ⟨_, hs, _⟩ | ⟨_, hs⟩
    · rw [hs]; exact h
    · rw [hs]; simp only
      rw [(autosave_frame s.w _).1]
      exact inv_step digest vau s.o.st ao h
  · cases op <;> simp [isMutator] at hm <;> simp only [step]
    case loadString d => exact inv_loadLinesInto digest _ _ _ h
    case load p => exact inv_load_file digest s.w s.o p h
    case loadIfChanged => exact inv_loadIfChanged digest s.w s.o h
    case reopen path new au =>
      cases hc : construct digest s.w path new au with
      | ok o' => exact inv_construct digest s.w path new au o' hc
      | error e => exact h
    case save p => rw [save_keeps_records]; exact h
    all_goals exact h

/-- every history of object operations and environment steps, from any file system, keeps the invariant; so
    `Props.C16.each_key_once` / `export_is_current_db` apply to the export (and to every file the object writes) -/
theorem inv_history_file (digest : Bool) (vau : Vau) : ∀ (ops : List Op) (s : Sys), Inv s.o.st → Inv (run digest vau s ops).o.st
  | [], _, h => h
  | op :: ops, s, h => by
    have := inv_history_file digest vau ops (step digest vau s op).1 (inv_preserved_file digest vau s op h)
    simpa [run] using this

theorem inv_reachable_file (digest : Bool) (vau : Vau) (w : World) (path : Option Path) (new au : Bool) (o : Obj) (ops : List Op)
    (hc : construct digest w path new au = .ok o) : Inv (run digest vau ⟨w, o⟩ ops).o.st :=
  inv_history_file digest vau ops ⟨w, o⟩ (inv_construct digest w path new au o hc)

/-- hence what an autosaving object leaves on disk lists every current user exactly once with the current hash -/
theorem autosaved_file_is_current_db (digest : Bool) (vau : Vau) (s : Sys) (op : Op) (p : Path) (hi : Inv s.o.st)
    (ha : s.o.autosave = true) (hp : s.o.path = some p) (hm : reachesAutosave vau s op = true) :
    ∃ f, (step digest vau s op).1.w.fs.get p = some f ∧ f.content = toString (step digest vau s op).1.o.st ∧
      ((emitted (step digest vau s op).1.o.st).map (·.1)).Nodup ∧
      ∀ k v, (k, v) ∈ emitted (step digest vau s op).1.o.st ↔ lookup k (step digest vau s op).1.o.st.records = some v :=
  ⟨_, (autosave_disk_eq_export digest vau s op p ha hp hm).1, rfl,
    emitted_keys_nodup _ (inv_preserved_file digest vau s op hi),
    fun k v => mem_emitted_iff _ (inv_preserved_file digest vau s op hi) k v⟩

/-! ### non-vacuity on a real history (the one run on the real classes by tools/corr/c16_file.py, `directed`) -/
example :
    let w : World := ⟨[(0, ⟨[117,49,58,104,49,10], 5⟩)], 10⟩
    ∃ o, construct false w (some 0) false true = .ok o ∧
      runAns false vau0 ⟨w, o⟩ [.setHash [117,57] none [104,57], .getMtime, .envTick 3, .save (some 1), .loadIfChanged] =
        [.bool false, .int 10, .unit, .unit, .bool false] ∧
      (run false vau0 ⟨w, o⟩ [.setHash [117,57] none [104,57]]).w.fs.get 0 = some ⟨[117,49,58,104,49,10,117,57,58,104,57,10], 10⟩ :=
  ⟨_, rfl, by decide, by decide⟩

end Props.C16File
