import PasslibVerif.Props.C01Static
/-
C01, `Static` family — non-vacuity: the hypotheses of the theorems of Props/C01Static.lean instantiated on REAL hashes made by the
library (password "pw" unless said otherwise), evaluated by the kernel: `hash` of the model returns the library's string, `verify`
accepts it for the equivalent bytes / other-case string, the salts used satisfy the well-formedness hypotheses.
(msdcc2, oracle10, lmhash and the {CRYPT} wrappers are too slow for kernel evaluation: their real hashes go through the compiled driver
in tools/corr/c01_static.py; here only `identify` / the hypotheses are instantiated.)
-/
namespace Props.C01Static
open Py Model.Handler Model.Formats Model.Verify Model.VerifyCrypt Model.VerifyFmt.Static

example : hashSecret hex_md4Hasher (.text [112, 119]) noSettings = .ok (ofString "a8d1f20d9ceef04bba334fdc553a65f6") ∧
    verify hex_md4Hasher (.bytes [112, 119]) (ofString "A8D1F20D9CEEF04BBA334FDC553A65F6") = .ok true ∧
    hex_md4.identify (ofString "a8d1f20d9ceef04bba334fdc553a65f6") = true := by
  decide +kernel

example : hashSecret hex_md5Hasher (.text [112, 119]) noSettings = .ok (ofString "8fe4c11451281c094a6578e6ddbf5eed") ∧
    verify hex_md5Hasher (.bytes [112, 119]) (ofString "8FE4C11451281C094A6578E6DDBF5EED") = .ok true ∧
    hex_md5.identify (ofString "8fe4c11451281c094a6578e6ddbf5eed") = true := by
  decide +kernel

example : hashSecret hex_sha1Hasher (.text [112, 119]) noSettings = .ok (ofString "1a91d62f7ca67399625a4368a6ab5d4a3baa6073") ∧
    verify hex_sha1Hasher (.bytes [112, 119]) (ofString "1A91D62F7CA67399625A4368A6AB5D4A3BAA6073") = .ok true ∧
    hex_sha1.identify (ofString "1a91d62f7ca67399625a4368a6ab5d4a3baa6073") = true := by
  decide +kernel

example : hashSecret hex_sha256Hasher (.text [112, 119]) noSettings = .ok (ofString "30c952fab122c3f9759f02a6d95c3758b246b4fee239957b2d4fee46e26170c4") ∧
    verify hex_sha256Hasher (.bytes [112, 119]) (ofString "30C952FAB122C3F9759F02A6D95C3758B246B4FEE239957B2D4FEE46E26170C4") = .ok true ∧
    hex_sha256.identify (ofString "30c952fab122c3f9759f02a6d95c3758b246b4fee239957b2d4fee46e26170c4") = true := by
  decide +kernel

example : hashSecret hex_sha512Hasher (.text [112, 119]) noSettings = .ok (ofString "be196838736ddfd0007dd8b2e8f46f22d440d4c5959925cb49135abc9cdb01e84961aa43dd0ddb6ee59975eb649280d9f44088840af37451828a6412b9b574fc") ∧
    verify hex_sha512Hasher (.bytes [112, 119]) (ofString "BE196838736DDFD0007DD8B2E8F46F22D440D4C5959925CB49135ABC9CDB01E84961AA43DD0DDB6EE59975EB649280D9F44088840AF37451828A6412B9B574FC") = .ok true ∧
    hex_sha512.identify (ofString "be196838736ddfd0007dd8b2e8f46f22d440d4c5959925cb49135abc9cdb01e84961aa43dd0ddb6ee59975eb649280d9f44088840af37451828a6412b9b574fc") = true := by
  decide +kernel

example : hashSecret nthashHasher (.text [112, 119]) noSettings = .ok (ofString "8cc19b6a8cfeac299c2871c86b38de28") ∧
    verify nthashHasher (.bytes [112, 119]) (ofString "8cc19b6a8cfeac299c2871c86b38de28") = .ok true ∧
    hashSecret nthashHasher (.bytes [255]) noSettings = .error .valueError := by
  decide +kernel

example : lmhash.identify (ofString "e52cac67419a9a2238f10713b629b565") = true ∧
    lmhash.parse (ofString "E52CAC67419A9A2238F10713B629B565") = some { checksum := some (ofString "e52cac67419a9a2238f10713b629b565") } := by
  decide +kernel

example : hashSecret (msdccHasher (some (ofString "Admin"))) (.text [112, 119]) noSettings = .ok (ofString "551f9ce2cb8f76ab6c407cb0603acaca") ∧
    verify (msdccHasher (some (ofString "ADMIN"))) (.bytes [112, 119]) (ofString "551f9ce2cb8f76ab6c407cb0603acaca") = .ok true ∧
    hashSecret (msdccHasher none) (.text [112, 119]) noSettings = .error .typeError := by
  decide +kernel

example : msdcc2.identify (ofString "b4f45292132e4727c45da13f67afc304") = true ∧
    utf8Ok (ofString "Admin") = true := by
  decide +kernel

example : hashSecret mysql323Hasher (.text [112, 32, 119]) noSettings = .ok (ofString "077fdc814925fa67") ∧
    verify mysql323Hasher (.bytes [112, 119]) (ofString "077fdc814925fa67") = .ok true := by
  decide +kernel

example : hashSecret mysql41Hasher (.text [112, 119]) noSettings = .ok (ofString "*D821809F681A40A6E379B50D0463EFAE20BDD122") ∧
    verify mysql41Hasher (.bytes [112, 119]) (ofString "*d821809f681a40a6e379b50d0463efae20bdd122") = .ok true := by
  decide +kernel

example : hashSecret (postgres_md5Hasher (some (ofString "user"))) (.text [112, 119]) noSettings = .ok (ofString "md5871c429757b7a0bf1654fad112b77bd4") ∧
    verify (postgres_md5Hasher (some (ofString "user"))) (.bytes [112, 119]) (ofString "md5871c429757b7a0bf1654fad112b77bd4") = .ok true ∧
    verify (postgres_md5Hasher (some (ofString "User"))) (.bytes [112, 119]) (ofString "md5871c429757b7a0bf1654fad112b77bd4") = .ok false := by
  decide +kernel

example : oracle10.identify (ofString "F8E7579461F62E98") = true ∧
    utf8Ok (ofString "sys") = true := by
  decide +kernel

example : hashSecret oracle11Hasher (.text [112, 119]) (saltSettings [] (ofString "01234567890123456789")) = .ok (ofString "S:D15C78DC7829508F62B1F5E42FF6103959C4FA1001234567890123456789") ∧
    verify oracle11Hasher (.bytes [112, 119]) (ofString "s:d15c78dc7829508f62b1f5e42ff6103959c4fa1001234567890123456789") = .ok true ∧
    (ofString "01234567890123456789").length = 20 ∧ allIn upperHex (ofString "01234567890123456789") = true := by
  decide +kernel

example : ciscoHashSecret false (some (ofString "user")) (.text [112, 119]) = .ok (ofString "8KLjL71WlPe9WWcd") ∧
    verify (ciscoHasher false (some (ofString "user"))) (.bytes [112, 119]) (ofString "8KLjL71WlPe9WWcd") = .ok true ∧
    ciscoHashSecret true (some (ofString "365")) (.text (ofString "0123456789abcdefq")) = .ok (ofString "4fKSSUBHT1ChGqHp") ∧
    ciscoHashSecret false none (.text (ofString "0123456789abcdefq")) = .error .sizeError := by
  decide +kernel

end Props.C01Static
