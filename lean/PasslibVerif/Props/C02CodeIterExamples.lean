import PasslibVerif.Props.C02CodeIter
/-
C02, group `Iter`: non-vacuity of the theorems of Props/C02CodeIter.lean — for each function the hypotheses of its `…_eq_spec`
theorem on a concrete non-trivial input (non-ASCII text, a user name, …) together with the value the REAL function returned
on /tmp/repo_clean (current HEAD) for that input, evaluated by the kernel (`decide +kernel`: MD5 / SHA-1 inside).
(sun_md5_crypt: Props/C02CodeIterSun.lean.)
-/
namespace Props.C02CodeIter
open Py Model.Code.Iter Lemmas.C02CodeIter Lemmas.PbkdfLen Lemmas.C01MiscDigest
open Model.Verify (Secret)

-- `phpass(salt="ohUJ.1sd", rounds=0)._calc_checksum("pässword")` on /tmp/repo_clean = "08zuoVZWd/9iDrKm1MtVZ."
example : (Secret.text [112, 228, 115, 115, 119, 111, 114, 100]).toBytes = .ok [112, 195, 164, 115, 115, 119, 111, 114, 100] ∧
    (∀ c ∈ Spec.Formats.ascii "ohUJ.1sd", c < 128) ∧
    phpassCalcChecksum Spec.MD5.md5 (Spec.Formats.ascii "ohUJ.1sd") 0 (.text [112, 228, 115, 115, 119, 111, 114, 100])
      = .ok (Spec.Formats.ascii "08zuoVZWd/9iDrKm1MtVZ.") := by decide +kernel

-- `mysql323._calc_checksum("pass word\t€")` on /tmp/repo_clean = "15a025bd343354ec"
example : mysql323CalcChecksum (.text [112, 97, 115, 115, 32, 119, 111, 114, 100, 9, 8364]) = .ok (Spec.Formats.ascii "15a025bd343354ec") := by
  decide +kernel

-- `mysql41._calc_checksum("pässword")` on /tmp/repo_clean
example : mysql41CalcChecksum Spec.SHA1.sha1 (.text [112, 228, 115, 115, 119, 111, 114, 100])
    = .ok (Spec.Formats.ascii "809D64D632EB9BAB610456B482D94C2E267965C8") := by decide +kernel

-- `sha1_crypt(salt="abcd", rounds=1)._calc_checksum_builtin("pässword")` on /tmp/repo_clean = "rEos4ASZkq7Pg6nvL4cPqqs/XD61"
example : SecretWF (.text [112, 228, 115, 115, 119, 111, 114, 100]) ∧
    (Secret.text [112, 228, 115, 115, 119, 111, 114, 100]).toBytes = .ok [112, 195, 164, 115, 115, 119, 111, 114, 100] ∧
    0 ∉ [112, 195, 164, 115, 115, 119, 111, 114, 100] ∧ (∀ c ∈ Spec.Formats.ascii "abcd", c < 128) ∧
    sha1CryptCalcChecksumBuiltin Spec.SHA1.sha1 (Spec.Formats.ascii "abcd") 1 (.text [112, 228, 115, 115, 119, 111, 114, 100])
      = .ok (Spec.Formats.ascii "rEos4ASZkq7Pg6nvL4cPqqs/XD61") := by decide +kernel

end Props.C02CodeIter
