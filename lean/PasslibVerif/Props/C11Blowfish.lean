import PasslibVerif.Lemmas.Blowfish
/-
C11 (Blowfish / bcrypt part) — passlib's pure-Python bcrypt core equals the bcrypt of
Provos & Mazières as implemented by OpenBSD.

Property theorems only; definitions and helper lemmas live in
  Spec/Bcrypt.lean      executable specification (Schneier's Blowfish, EksBlowfishSetup, bcrypt)
  Spec/PiDigits.lean    exact-integer Machin computation of the hexadecimal digits of π
  Model/Blowfish.lean   transcription of base.py / the skeleton of unrolled.py / raw_bcrypt
  Gen/Blowfish.lean     REGENERATED from /repo on every run: BLOWFISH_P, BLOWFISH_S, BCRYPT_CDATA,
                        and the straight-line bodies of unrolled.py (`feistelRounds`,
                        `encipher`, `expandP`, `expandSBody`)
  Lemmas/Blowfish.lean, Lemmas/BlowfishPi.lean   proofs.

`WF st` = 18 sub-keys, each `< 2^32`;  `BytesWF bs` = every element `< 256`.
`Impl` selects the engine class (`base` = base.py loops, `unrolled` = what `raw_bcrypt` uses).
-/
namespace Props.C11Blowfish
open Spec.Bcrypt Model.Blowfish Gen.Blowfish Lemmas.Blowfish

/-! ### (a) one block -/

/-- the generated unrolled `encipher` equals base.py's loop for EVERY state and block -/
theorem unrolled_eq_loop (e : Engine) (l r : Nat) : encipherUnrolled e l r = encipherLoop e l r :=
  encipherUnrolled_eq_loop e l r

/-- on well-formed states and 32-bit halves both equal Blowfish encryption of the specification -/
theorem unrolled_eq_loop_eq_spec (e : Engine) (h : WF e) (l r : Nat) (hl : l < 4294967296) (hr : r < 4294967296) :
    encipherUnrolled e l r = encipherLoop e l r ∧ encipherLoop e l r = Spec.Bcrypt.encipher e (l, r) :=
  ⟨encipherUnrolled_eq_loop e l r, encipherLoop_eq_spec e h l r hl hr⟩

/-- in the literal form of the task statement: `P`, four S-boxes, `l`, `r` -/
theorem gen_encipher_eq_spec (P : List Nat) (S0 S1 S2 S3 : Array Nat) (l r : Nat)
    (hlen : P.length = 18) (hP : ∀ p ∈ P, p < 4294967296) (hl : l < 4294967296) (hr : r < 4294967296) :
    Gen.Blowfish.encipher P S0 S1 S2 S3 l r = Spec.Bcrypt.encipher ⟨P, #[S0, S1, S2, S3]⟩ (l, r) := by
  have h := encipherUnrolled_eq_loop ⟨P, #[S0, S1, S2, S3]⟩ l r
  rw [encipherLoop_eq_spec ⟨P, #[S0, S1, S2, S3]⟩ ⟨hlen, hP⟩ l r hl hr] at h
  exact h

/-- the cipher keeps 32-bit halves 32-bit -/
theorem encipher_lt (e : Engine) (h : WF e) (l r : Nat) (hl : l < 4294967296) (hr : r < 4294967296) :
    (Spec.Bcrypt.encipher e (l, r)).1 < 4294967296 ∧ (Spec.Bcrypt.encipher e (l, r)).2 < 4294967296 :=
  encipher_spec_lt e h l r hl hr

/-! ### (b) key schedule -/

/-- unrolled.py `expand` = base.py `expand` (run with the unrolled `encipher`) -/
theorem expand_unrolled_eq_base (e : Engine) (kw : List Nat) (hP : e.P.length = 18) :
    expandUnrolled e kw = expandBase encipherUnrolled e kw := expandUnrolled_eq_base e kw hP

/-- `expand(key_to_words(key))` = ExpandKey(state, 0, key), and the state stays well-formed -/
theorem expand_eq_spec (impl : Impl) (e : Engine) (h : WF e) (key : List Nat) (hk : BytesWF key) :
    Model.Blowfish.expand impl e (keyToWords key) = expandKey e zeroSalt key ∧ WF (expandKey e zeroSalt key) :=
  Lemmas.Blowfish.expand_eq_spec impl e h key hk

/-- `eks_salted_expand(key_to_words(key), key_to_words(salt)[:4])` = ExpandKey(state, salt, key) -/
theorem eks_salted_expand_eq_spec (impl : Impl) (e : Engine) (h : WF e) (key salt : List Nat)
    (hk : BytesWF key) (hs : BytesWF salt) (hlen : salt.length = 16) :
    eksSaltedExpand (Model.Blowfish.encipher impl) e (keyToWords key) ((keyToWords salt).take 4)
        = expandKey e salt key ∧ WF (expandKey e salt key) :=
  Lemmas.Blowfish.eks_salted_expand_eq_spec impl e h key salt hk hs hlen

/-- passlib's running salt index (`s += 2; if s == salt_size: s = 0`) is `2k mod salt_size`
    for every even non-zero `salt_size` -/
theorem salt_index (n k : Nat) (hn : 0 < n) (he : n % 2 = 0) :
    (2 * k + 1) % n = (2 * k) % n + 1 ∧
    (2 * (k + 1)) % n = (if (2 * k) % n + 2 = n then 0 else (2 * k) % n + 2) := cyc_idx n k hn he

/-- `eks_repeated_expand` = `rounds` x [ExpandKey(state, 0, key); ExpandKey(state, 0, salt)] -/
theorem eks_repeated_expand_eq_spec (impl : Impl) (key salt : List Nat) (hk : BytesWF key) (hs : BytesWF salt)
    (rounds : Nat) (e : Engine) (h : WF e) :
    eksRepeatedExpand (Model.Blowfish.expand impl) e (keyToWords key) (keyToWords salt) rounds
      = iter (fun st => expandKey (expandKey st zeroSalt key) zeroSalt salt) rounds e :=
  (Lemmas.Blowfish.eks_repeated_expand_eq_spec impl key salt hk hs rounds e h).1

/-! ### (c) `raw_bcrypt` -/

theorem raw_bcrypt_eq_spec (impl : Impl) (pwd : List Nat) (ident : String) (salt : List Nat) (cost : Nat)
    (nul : Bool) (raw : List Nat)
    (hpwd : BytesWF pwd)
    (hid : parseIdent ident = .ok nul)
    (hsalt : Model.B64.decodeBytes Model.B64.bcrypt64 salt = .ok raw)
    (hlen : 16 ≤ raw.length) (hc4 : 4 ≤ cost) (hc31 : cost ≤ 31) :
    rawBcrypt impl pwd ident salt cost =
      .ok (Model.B64.encodeBytes Model.B64.bcrypt64 (bcrypt nul cost (raw.take 16) pwd)) :=
  Lemmas.Blowfish.raw_bcrypt_eq_spec impl pwd ident salt cost nul raw hpwd hid hsalt hlen hc4 hc31

/-- the ident dispatch: NUL-terminated key for 2a / 2b / 2y, bare password for 2 -/
theorem parseIdent_values :
    parseIdent "2a" = .ok true ∧ parseIdent "2b" = .ok true ∧ parseIdent "2y" = .ok true ∧
    parseIdent "2" = .ok false := by decide

theorem raw_bcrypt_error_iff (impl : Impl) (pwd : List Nat) (ident : String) (salt : List Nat) (cost : Nat) :
    (∃ m, rawBcrypt impl pwd ident salt cost = .error m) ↔
      (ident ≠ "2" ∧ ident ≠ "2a" ∧ ident ≠ "2b" ∧ ident ≠ "2y") ∨
      (∀ raw, Model.B64.decodeBytes Model.B64.bcrypt64 salt = .ok raw → raw.length < 16) ∨
      cost < 4 ∨ 31 < cost :=
  Lemmas.Blowfish.raw_bcrypt_error_iff impl pwd ident salt cost

/-- both engine classes give the same result on every input (errors included) -/
theorem raw_bcrypt_impl_irrelevant (pwd : List Nat) (ident : String) (salt : List Nat) (cost : Nat)
    (hpwd : BytesWF pwd) :
    rawBcrypt .unrolled pwd ident salt cost = rawBcrypt .base pwd ident salt cost :=
  Lemmas.Blowfish.raw_bcrypt_impl_irrelevant pwd ident salt cost hpwd

/-! ### (d) `key_to_words` -/

/-- `key_to_words` = the specification's cyclic big-endian key stream -/
theorem key_to_words_eq_stream (data : List Nat) (h : BytesWF data) :
    keyToWords data = (List.range 18).map (streamWord data) := keyToWords_eq data h

/-- the 72-byte limit: bytes after the 72nd never influence the 18 key words -/
theorem key_to_words_72 (d1 d2 : List Nat) (h1 : 72 ≤ d1.length) (h2 : 72 ≤ d2.length)
    (h : d1.take 72 = d2.take 72) : keyToWords d1 = keyToWords d2 := keyToWords_prefix72 d1 d2 h1 h2 h

/-- … nor the specification's key stream -/
theorem stream_72 (data : List Nat) (h72 : 72 ≤ data.length) (i : Nat) (hi : i < 18) :
    streamWord (data.take 72) i = streamWord data i := streamWord_take72 data h72 i hi

/-! ### (e) the initial tables are π -/

/-- lower and upper Machin enclosures of π·2^(32·1042+64) agree on the 1042 words -/
theorem pi_enclosure_agrees : Spec.PiDigits.piFracWordsLo 1042 = Spec.PiDigits.piFracWordsHi 1042 :=
  Lemmas.BlowfishPi.pi_enclosure_agrees

/-- `BLOWFISH_P ++ BLOWFISH_S[0] ++ … ++ BLOWFISH_S[3]` = the first 1042 32-bit words of frac(π) -/
theorem blowfish_init_eq_pi :
    BLOWFISH_P ++ BLOWFISH_S.flatten = Spec.PiDigits.piFracWords 1042 :=
  Lemmas.BlowfishPi.blowfish_init_eq_pi

theorem init_state_eq_pi : initState = initStatePi ∧ Engine.init = initStatePi :=
  ⟨initState_eq_pi, initState_eq_pi⟩

end Props.C11Blowfish

