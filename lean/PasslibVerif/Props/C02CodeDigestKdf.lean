import PasslibVerif.Lemmas.C02CodeDigestKdf
/-
C02, code level, group `Digest`, part 2 — the `_calc_checksum` routines built on `pbkdf2_hmac` / the scrypt engine:
pbkdf2.py (pbkdf2_sha1/sha256/sha512, cta_pbkdf2_sha1, dlitz_pbkdf2_sha1 + `_get_config`, atlassian_pbkdf2_sha1, grub_pbkdf2_sha512),
django.py (django_salted_sha1/md5, django_pbkdf2_sha256/sha1), scram.py (`derive_digest`, `_calc_checksum`), scrypt.py.

`Model.Code.Digest.*` follows the Python statements (which value is the password and which the salt of the KDF, the literal key
lengths and iteration counts, the config string dlitz uses as salt, the encoder each `to_string` applies to the raw checksum); it is
compared with the real functions by tools/corr/c02_code_digest.py (driver suite `cdig`).  The theorems say that the code equals
`Spec.Formats.*` (Spec/Formats/Kdf.lean, Digests.lean) for EVERY secret (any length, any byte value, NUL included), every salt and
every iteration count `1 ≤ rounds ≤ 2^31 - 1` (what hashlib accepts); `rounds = 0` is a `ValueError`.
`hashlib.pbkdf2_hmac` is external: both sides use the RFC 8018 transcription `Spec.Pbkdf.pbkdf2`.  The scrypt engine is passlib's
own code: `Model.Scrypt.run`, equal to RFC 7914 by Props/C11Scrypt.lean (`run_eq_rfc7914`), used here.

The raw handlers (`HasRawChecksum`) return the raw key from `_calc_checksum` and encode it in `to_string`: `thenField calc field` is
the checksum field of the string `hash()` returns.
-/
namespace Props.C02CodeDigest
open Py Model.Code.Digest
open Spec.Formats hiding Bytes
open Model.Verify (Secret)
open Model.Code.Des (encodeSecret hexlify asciiUpper decodeAscii encodeAscii)
open Lemmas.C02CodeDigest Lemmas.C02CodeDes
open Lemmas.PbkdfLen (HashOK)
open Lemmas.C01Pbkdf (AlgOK pbkdf2_shape algSha1_ok algSha256_ok algSha512_ok md5_ok sha1_ok)

/-- the checksum field `to_string` makes of what `_calc_checksum` returned -/
def thenField {α β : Type} (r : Res α) (f : α → Res β) : Res β :=
  match r with
  | .ok x => f x
  | .error e => .error e

/-! ### pbkdf2.py: `Pbkdf2DigestHandler` (pbkdf2_sha1 / sha256 / sha512) -/

/-- the raw key: PBKDF2-HMAC-<digest>(password = secret, salt = salt, rounds, dkLen = digest size) -/
theorem pbkdf2_digest_calc_eq (a : HashAlg) (ha : AlgOK a) (secret salt : Bytes) (rounds : Nat) (hr : 1 ≤ rounds) (hr' : rounds ≤ 0x7FFFFFFF) :
    pbkdf2DigestCalc a (.bytes secret) salt rounds = .ok (pbkdf2 a secret salt rounds a.hLen) :=
  pbkdf2Hmac_bytes a secret salt rounds a.hLen hr hr' ha.2

/-- … written by `to_string` in adapted base64: the specification's checksum field -/
theorem pbkdf2_digest_eq_spec (a : HashAlg) (ha : AlgOK a) (secret salt : Bytes) (rounds : Nat) (hr : 1 ≤ rounds) (hr' : rounds ≤ 0x7FFFFFFF) :
    thenField (pbkdf2DigestCalc a (.bytes secret) salt rounds) ab64Field = .ok (pbkdf2Digest a secret salt rounds) := by
  simp only [thenField, pbkdf2_digest_calc_eq a ha secret salt rounds hr hr', ab64Field_eq, pbkdf2Digest]

theorem pbkdf2_digest_text_eq_spec (a : HashAlg) (ha : AlgOK a) (cps secret salt : Bytes) (hu : Model.Verify.utf8 cps = some secret)
    (rounds : Nat) (hr : 1 ≤ rounds) (hr' : rounds ≤ 0x7FFFFFFF) :
    thenField (pbkdf2DigestCalc a (.text cps) salt rounds) ab64Field = .ok (pbkdf2Digest a secret salt rounds) := by
  simp only [thenField, pbkdf2DigestCalc, pbkdf2Hmac_text a cps secret salt hu rounds a.hLen hr hr' ha.2, ab64Field_eq, pbkdf2Digest]

theorem pbkdf2_digest_text_unencodable (a : HashAlg) (cps salt : Bytes) (hu : Model.Verify.utf8 cps = none) (rounds : Nat) :
    pbkdf2DigestCalc a (.text cps) salt rounds = .error .valueError := pbkdf2Hmac_unencodable a cps _ hu rounds _

/-- `rounds = 0`: "iteration value must be greater than 0", a `ValueError` -/
theorem pbkdf2_digest_rounds_zero (a : HashAlg) (secret salt : Bytes) : pbkdf2DigestCalc a (.bytes secret) salt 0 = .error .valueError :=
  pbkdf2Hmac_zero a secret salt _

theorem pbkdf2_sha1_eq_spec (secret salt : Bytes) (rounds : Nat) (hr : 1 ≤ rounds) (hr' : rounds ≤ 0x7FFFFFFF) :
    thenField (pbkdf2DigestCalc algSha1 (.bytes secret) salt rounds) ab64Field = .ok (pbkdf2Digest algSha1 secret salt rounds) :=
  pbkdf2_digest_eq_spec _ algSha1_ok secret salt rounds hr hr'
theorem pbkdf2_sha256_eq_spec (secret salt : Bytes) (rounds : Nat) (hr : 1 ≤ rounds) (hr' : rounds ≤ 0x7FFFFFFF) :
    thenField (pbkdf2DigestCalc algSha256 (.bytes secret) salt rounds) ab64Field = .ok (pbkdf2Digest algSha256 secret salt rounds) :=
  pbkdf2_digest_eq_spec _ algSha256_ok secret salt rounds hr hr'
theorem pbkdf2_sha512_eq_spec (secret salt : Bytes) (rounds : Nat) (hr : 1 ≤ rounds) (hr' : rounds ≤ 0x7FFFFFFF) :
    thenField (pbkdf2DigestCalc algSha512 (.bytes secret) salt rounds) ab64Field = .ok (pbkdf2Digest algSha512 secret salt rounds) :=
  pbkdf2_digest_eq_spec _ algSha512_ok secret salt rounds hr hr'

/-! ### pbkdf2.py: cta_pbkdf2_sha1, grub_pbkdf2_sha512, atlassian_pbkdf2_sha1 -/

/-- Cryptacular: 20 byte key, RFC 4648 §5 alphabet with padding -/
theorem cta_eq_spec (secret salt : Bytes) (rounds : Nat) (hr : 1 ≤ rounds) (hr' : rounds ≤ 0x7FFFFFFF) :
    thenField (ctaCalc (.bytes secret) salt rounds) ctaField = .ok (ctaPbkdf2Sha1 secret salt rounds) := by
  simp only [thenField, ctaCalc, pbkdf2Hmac_bytes algSha1 secret salt rounds 20 hr hr' (by decide), ctaField_eq, ctaPbkdf2Sha1]

theorem cta_rounds_zero (secret salt : Bytes) : ctaCalc (.bytes secret) salt 0 = .error .valueError := pbkdf2Hmac_zero _ secret salt _

/-- GRUB 2: 64 byte key, upper-case hex -/
theorem grub_eq_spec (secret salt : Bytes) (rounds : Nat) (hr : 1 ≤ rounds) (hr' : rounds ≤ 0x7FFFFFFF) :
    thenField (grubCalc (.bytes secret) salt rounds) grubField = .ok (grubPbkdf2Sha512 secret salt rounds) := by
  have hw := (pbkdf2_shape algSha512 algSha512_ok secret salt rounds 64).2
  simp only [thenField, grubCalc, pbkdf2Hmac_bytes algSha512 secret salt rounds 64 hr hr' (by decide), grubField, hexlify_decode _ hw]
  rw [← hexlify_eq _ hw, asciiUpper_hexlify _ hw]; rfl

theorem grub_rounds_zero (secret salt : Bytes) : grubCalc (.bytes secret) salt 0 = .error .valueError := pbkdf2Hmac_zero _ secret salt _

/-- Atlassian PKCS5S2: 10000 iterations, 32 byte key, base64(salt ‖ key) — the salt goes BEFORE the key -/
theorem atlassian_eq_spec (secret salt : Bytes) :
    thenField (atlassianCalc (.bytes secret) salt) (atlassianField salt) = .ok (atlassianPbkdf2Sha1 secret salt) := by
  simp only [thenField, atlassianCalc, pbkdf2Hmac_bytes algSha1 secret salt 10000 32 (by decide) (by decide) (by decide), atlassianField,
    b64encode_decode, atlassianPbkdf2Sha1]

/-! ### pbkdf2.py: dlitz_pbkdf2_sha1 -/

/-- `_get_config()`: `$p5k2$` + the iteration count in lower-case hex (omitted when it is 400) + `$` + salt — every salt, every count -/
theorem dlitz_get_config_eq_spec (salt : List Nat) (rounds : Nat) : dlitzGetConfig salt rounds = dlitzSetting salt rounds :=
  dlitzGetConfig_eq salt rounds

/-- Litzenberger's `crypt()`: the PBKDF2 salt is the whole config string, 24 byte key, `b64encode(raw, "./")` without padding:
    every byte string, every ASCII salt string, every count -/
theorem dlitz_calc_eq_spec (secret : Bytes) (salt : List Nat) (rounds : Nat) (hs : ∀ c ∈ salt, c < 128) (hr : 1 ≤ rounds) (hr' : rounds ≤ 0x7FFFFFFF) :
    dlitzCalc (.bytes secret) salt rounds = .ok (dlitzPbkdf2Sha1 secret salt rounds) := by
  simp only [dlitzCalc, dlitzGetConfig_eq, pbkdf2Hmac_textsalt _ _ _ (dlitzSetting_lt salt rounds hs),
    hashlibPbkdf2_ok algSha1 secret _ rounds 24 hr hr' (by decide), ab64Encode_eq, decodeAscii_ok _ (ab64_lt _), dlitzPbkdf2Sha1]

theorem dlitz_calc_rounds_zero (secret : Bytes) (salt : List Nat) (hs : ∀ c ∈ salt, c < 128) : dlitzCalc (.bytes secret) salt 0 = .error .valueError := by
  simp only [dlitzCalc, dlitzGetConfig_eq, pbkdf2Hmac_textsalt _ _ _ (dlitzSetting_lt salt 0 hs), hashlibPbkdf2_zero]

/-! ### django.py -/

/-- Django `SHA1PasswordHasher` / `MD5PasswordHasher`: hex(H(salt ‖ password)) — the salt goes BEFORE the password -/
theorem django_salted_eq_spec (H : Bytes → Bytes) (n : Nat) (hH : HashOK H n) (secret : Bytes) (salt : List Nat) (hs : ∀ c ∈ salt, c < 128) :
    djangoSaltedCalc H (.bytes secret) salt = .ok (djangoSalted H secret salt) := by
  simp only [djangoSaltedCalc, Lemmas.C02CodeDigest.encodeSecret_bytes, encodeAscii_ok salt hs, hexdigest_eq H n hH, djangoSalted]

theorem django_salted_text_eq_spec (H : Bytes → Bytes) (n : Nat) (hH : HashOK H n) (cps secret : Bytes) (hu : Model.Verify.utf8 cps = some secret)
    (salt : List Nat) (hs : ∀ c ∈ salt, c < 128) : djangoSaltedCalc H (.text cps) salt = .ok (djangoSalted H secret salt) := by
  simp only [djangoSaltedCalc, encodeSecret_text cps secret hu, encodeAscii_ok salt hs, hexdigest_eq H n hH, djangoSalted]

/-- a salt with a non-ASCII character: `UnicodeEncodeError` (a `ValueError`) from `self.salt.encode("ascii")` -/
theorem django_salted_salt_not_ascii (H : Bytes → Bytes) (secret : Bytes) (salt : List Nat) (c : Nat) (hc : c ∈ salt) (h : 128 ≤ c) :
    djangoSaltedCalc H (.bytes secret) salt = .error .valueError := by
  simp only [djangoSaltedCalc, Lemmas.C02CodeDigest.encodeSecret_bytes, encodeAscii_bad salt c hc h]

theorem django_salted_sha1_eq_spec (secret : Bytes) (salt : List Nat) (hs : ∀ c ∈ salt, c < 128) :
    djangoSaltedCalc Spec.SHA1.sha1 (.bytes secret) salt = .ok (djangoSalted Spec.SHA1.sha1 secret salt) :=
  django_salted_eq_spec _ 20 sha1_ok secret salt hs
theorem django_salted_md5_eq_spec (secret : Bytes) (salt : List Nat) (hs : ∀ c ∈ salt, c < 128) :
    djangoSaltedCalc Spec.MD5.md5 (.bytes secret) salt = .ok (djangoSalted Spec.MD5.md5 secret salt) :=
  django_salted_eq_spec _ 16 md5_ok secret salt hs

/-- Django `PBKDF2PasswordHasher`: base64 (with padding) of PBKDF2-HMAC-<digest>(password, salt characters, rounds, digest size) -/
theorem django_pbkdf2_eq_spec (a : HashAlg) (ha : AlgOK a) (secret : Bytes) (salt : List Nat) (rounds : Nat) (hs : ∀ c ∈ salt, c < 128)
    (hr : 1 ≤ rounds) (hr' : rounds ≤ 0x7FFFFFFF) :
    djangoPbkdf2Calc a (.bytes secret) salt rounds = .ok (djangoPbkdf2 a secret salt rounds) := by
  simp only [djangoPbkdf2Calc, pbkdf2Hmac_textsalt _ _ _ hs, hashlibPbkdf2_default a secret salt rounds hr hr' ha.2, b64encode,
    rstripWs_id _ (base64_not_ws _), decodeAscii_ok _ (base64_lt _), djangoPbkdf2, b64]

theorem django_pbkdf2_rounds_zero (a : HashAlg) (secret : Bytes) (salt : List Nat) (hs : ∀ c ∈ salt, c < 128) :
    djangoPbkdf2Calc a (.bytes secret) salt 0 = .error .valueError := by
  simp only [djangoPbkdf2Calc, pbkdf2Hmac_textsalt _ _ _ hs, hashlibPbkdf2_zero]

theorem django_pbkdf2_sha256_eq_spec (secret : Bytes) (salt : List Nat) (rounds : Nat) (hs : ∀ c ∈ salt, c < 128) (hr : 1 ≤ rounds)
    (hr' : rounds ≤ 0x7FFFFFFF) : djangoPbkdf2Calc algSha256 (.bytes secret) salt rounds = .ok (djangoPbkdf2 algSha256 secret salt rounds) :=
  django_pbkdf2_eq_spec _ algSha256_ok secret salt rounds hs hr hr'
theorem django_pbkdf2_sha1_eq_spec (secret : Bytes) (salt : List Nat) (rounds : Nat) (hs : ∀ c ∈ salt, c < 128) (hr : 1 ≤ rounds)
    (hr' : rounds ≤ 0x7FFFFFFF) : djangoPbkdf2Calc algSha1 (.bytes secret) salt rounds = .ok (djangoPbkdf2 algSha1 secret salt rounds) :=
  django_pbkdf2_eq_spec _ algSha1_ok secret salt rounds hs hr hr'

/-! ### scram.py -/

/-- `derive_digest`: RFC 5802 `SaltedPassword := Hi(Normalize(password), salt, i)` — for every normalisation `prep` that succeeds
    (`nb` = the UTF-8 bytes of `saslprep(password)`), every salt, every count -/
theorem scram_derive_digest_eq_spec (prep : Secret → Res Bytes) (a : HashAlg) (ha : AlgOK a) (password : Secret) (nb salt : Bytes) (rounds : Nat)
    (hp : prep password = .ok nb) (hr : 1 ≤ rounds) (hr' : rounds ≤ 0x7FFFFFFF) :
    scramDeriveDigest prep a password salt rounds = .ok (scramSaltedPassword a nb salt rounds) := by
  simp only [scramDeriveDigest, hp, pbkdf2Hmac, Secret.toBytes, hashlibPbkdf2_default a nb salt rounds hr hr' ha.2, scramSaltedPassword]

/-- … written by `to_string` in adapted base64: one `alg=digest` element of the specification -/
theorem scram_digest_field_eq_spec (prep : Secret → Res Bytes) (a : HashAlg) (ha : AlgOK a) (password : Secret) (nb salt : Bytes) (rounds : Nat)
    (hp : prep password = .ok nb) (hr : 1 ≤ rounds) (hr' : rounds ≤ 0x7FFFFFFF) :
    thenField (scramDeriveDigest prep a password salt rounds) scramField = .ok (scramDigest a nb salt rounds) := by
  simp only [thenField, scram_derive_digest_eq_spec prep a ha password nb salt rounds hp hr hr', scramField, ab64Encode_eq,
    decodeAscii_ok _ (ab64_lt _), scramDigest]

/-- a password `saslprep` refuses is refused with the same error, before any digest is computed -/
theorem scram_derive_digest_prep_error (prep : Secret → Res Bytes) (a : HashAlg) (password : Secret) (salt : Bytes) (rounds : Nat) (e : ErrKind)
    (hp : prep password = .error e) : scramDeriveDigest prep a password salt rounds = .error e := by
  simp only [scramDeriveDigest, hp]

theorem scram_derive_digest_rounds_zero (prep : Secret → Res Bytes) (a : HashAlg) (password : Secret) (nb salt : Bytes) (hp : prep password = .ok nb) :
    scramDeriveDigest prep a password salt 0 = .error .valueError := by
  simp only [scramDeriveDigest, hp, pbkdf2Hmac, Secret.toBytes, hashlibPbkdf2_zero]

/-- `_calc_checksum`: one `SaltedPassword` per algorithm of `self.algs`, in that order, all from the same salt and count -/
theorem scram_calc_eq_spec (prep : Secret → Res Bytes) (password : Secret) (nb salt : Bytes) (rounds : Nat)
    (hp : prep password = .ok nb) (hr : 1 ≤ rounds) (hr' : rounds ≤ 0x7FFFFFFF) :
    ∀ (algs : List HashAlg), (∀ a ∈ algs, AlgOK a) →
      scramCalc prep algs password salt rounds = .ok (algs.map fun a => scramSaltedPassword a nb salt rounds)
  | [], _ => rfl
  | a :: rest, h => by
    have ih := scram_calc_eq_spec prep password nb salt rounds hp hr hr' rest (fun x hx => h x (List.mem_cons_of_mem _ hx))
    unfold scramCalc at ih ⊢
    rw [List.mapM_cons, scram_derive_digest_eq_spec prep a (h a (by simp)) password nb salt rounds hp hr hr', ih]
    rfl

/-! ### scrypt.py -/

/-- `scrypt._calc_checksum`: RFC 7914 scrypt(password, salt, N = 2^rounds, r = block_size, p = parallelism, dkLen = 32) — every byte
    string, every salt, every cost `1 ≤ rounds ≤ 32`, `r, p ≥ 1`, `r·p < 2^30` (what `validate` lets through, within the engine's proved range) -/
theorem scrypt_calc_eq_spec (secret salt : Bytes) (rounds r p : Nat) (he1 : 1 ≤ rounds) (he : rounds ≤ 32) (hr : 1 ≤ r) (hp : 1 ≤ p)
    (hrp : r * p ≤ 2 ^ 30 - 1) : scryptCalc (.bytes secret) salt rounds r p = .ok (Spec.Scrypt.scrypt secret salt (2 ^ rounds) r p 32) := by
  simp only [scryptCalc, Secret.toBytes, Nat.one_shiftLeft]
  exact scryptFront_ok secret salt rounds r p 32 he1 he hr hp hrp (by decide) (by decide)

theorem scrypt_calc_text_eq_spec (cps secret salt : Bytes) (hu : Model.Verify.utf8 cps = some secret) (rounds r p : Nat) (he1 : 1 ≤ rounds)
    (he : rounds ≤ 32) (hr : 1 ≤ r) (hp : 1 ≤ p) (hrp : r * p ≤ 2 ^ 30 - 1) :
    scryptCalc (.text cps) salt rounds r p = .ok (Spec.Scrypt.scrypt secret salt (2 ^ rounds) r p 32) := by
  simp only [scryptCalc, toBytes_text cps secret hu, Nat.one_shiftLeft]
  exact scryptFront_ok secret salt rounds r p 32 he1 he hr hp hrp (by decide) (by decide)

/-- parameters `validate` refuses (`r = 0`, `p = 0`, `r·p ≥ 2^30`, `N = 1`): `ValueError` -/
theorem scrypt_calc_bad_params (secret salt : Bytes) (rounds r p : Nat)
    (h : Model.Scrypt.validate ((1 <<< rounds : Nat) : Int) (r : Int) (p : Int) ≠ .ok ()) :
    scryptCalc (.bytes secret) salt rounds r p = .error .valueError := by
  simp only [scryptCalc, Secret.toBytes]
  exact scryptFront_bad _ _ _ r p 32 h

/-- the `$scrypt$` string shows the key in unpadded base64, the `$7$` string in little-endian hash64: the specification's fields -/
theorem scrypt_phc_eq_spec (secret salt : Bytes) (rounds r p : Nat) (he1 : 1 ≤ rounds) (he : rounds ≤ 32) (hr : 1 ≤ r) (hp : 1 ≤ p)
    (hrp : r * p ≤ 2 ^ 30 - 1) : thenField (scryptCalc (.bytes secret) salt rounds r p) scryptPhcField = .ok (scryptPhc secret salt rounds r p) := by
  simp only [thenField, scrypt_calc_eq_spec secret salt rounds r p he1 he hr hp hrp, scryptPhcField, Model.B64.b64sEncode,
    decodeAscii_ok _ (base64NoPad_lt _), scryptPhc, b64NoPad]

theorem scrypt7_eq_spec (secret salt : Bytes) (rounds r p : Nat) (he1 : 1 ≤ rounds) (he : rounds ≤ 32) (hr : 1 ≤ r) (hp : 1 ≤ p)
    (hrp : r * p ≤ 2 ^ 30 - 1) : thenField (scryptCalc (.bytes secret) salt rounds r p) scrypt7Field = .ok (scrypt7 secret salt rounds r p) := by
  simp only [thenField, scrypt_calc_eq_spec secret salt rounds r p he1 he hr hp hrp, scrypt7Field, h64_encodeBytes_eq _ (scrypt_wf _ _ _ _ _ _),
    decodeAscii_ok _ (h64le_lt _), scrypt7]

#print axioms pbkdf2_digest_calc_eq
#print axioms pbkdf2_digest_eq_spec
#print axioms pbkdf2_digest_text_eq_spec
#print axioms pbkdf2_digest_text_unencodable
#print axioms pbkdf2_digest_rounds_zero
#print axioms pbkdf2_sha1_eq_spec
#print axioms pbkdf2_sha256_eq_spec
#print axioms pbkdf2_sha512_eq_spec
#print axioms cta_eq_spec
#print axioms cta_rounds_zero
#print axioms grub_eq_spec
#print axioms grub_rounds_zero
#print axioms atlassian_eq_spec
#print axioms dlitz_get_config_eq_spec
#print axioms dlitz_calc_eq_spec
#print axioms dlitz_calc_rounds_zero
#print axioms django_salted_eq_spec
#print axioms django_salted_text_eq_spec
#print axioms django_salted_salt_not_ascii
#print axioms django_salted_sha1_eq_spec
#print axioms django_salted_md5_eq_spec
#print axioms django_pbkdf2_eq_spec
#print axioms django_pbkdf2_rounds_zero
#print axioms django_pbkdf2_sha256_eq_spec
#print axioms django_pbkdf2_sha1_eq_spec
#print axioms scram_derive_digest_eq_spec
#print axioms scram_digest_field_eq_spec
#print axioms scram_derive_digest_prep_error
#print axioms scram_derive_digest_rounds_zero
#print axioms scram_calc_eq_spec
#print axioms scrypt_calc_eq_spec
#print axioms scrypt_calc_text_eq_spec
#print axioms scrypt_calc_bad_params
#print axioms scrypt_phc_eq_spec
#print axioms scrypt7_eq_spec

end Props.C02CodeDigest
