import PasslibVerif.Lemmas.C04Kwds
/-
C04 / C10 — what a CryptContext passes on to its hashers (model: Model/ContextKwds.lean, correspondence suite `ckw`).
For EVERY scheme list, keyword list and history of load / update / copy.
-/
namespace Props.C04Kwds
open Py Model.ContextKwds Lemmas.C04Kwds

/-! ### kwds_after_reconfiguration -/

/-- After any history of loads/updates (failed ones included) the object is exactly the one a constructor builds from the
configuration of the last successful load: same configuration, same helper flag, dummy-hash cache flushed. -/
theorem reconfigured_eq_built (st : State) (hist : List Event) (c : Cfg) (h : lastLoad hist = some c) :
    run st hist = build c := by
  rw [run_eq, h]

/-- a history without a successful load changes nothing (C10: a failed change changes nothing) -/
theorem failed_history_changes_nothing (st : State) (hist : List Event) (h : lastLoad hist = none) :
    run st hist = st := by
  rw [run_eq, h]

/-- the helper flag equals "no scheme of the CURRENT configuration declares a context keyword" -/
theorem kwds_after_reconfiguration (st : State) (hist : List Event) (c : Cfg) (h : lastLoad hist = some c) :
    (run st hist).cfg = c ∧ (run st hist).instNone = (allKwds c).isEmpty := by
  rw [reconfigured_eq_built st hist c h]
  exact ⟨build_cfg c, build_instNone c⟩

/-- every state reachable from a fresh object satisfies the invariant, so keywords are passed as `strip` says -/
theorem reachable_good (hist : List Event) : Good (run State.raw hist) := by
  rw [run_eq]
  split
  · exact good_build _
  · exact good_raw

theorem reachable_passKwds (hist : List Event) (r : Rec) (kws : List Kw) :
    passKwds (run State.raw hist) r kws = strip (run State.raw hist).cfg r kws :=
  passKwds_eq_strip _ (reachable_good hist) r kws

example : lastLoad [.load ⟨[⟨"a", ["user"], []⟩], [], [], [], [(none, "a")]⟩, .failed, .load ⟨[⟨"c", [], []⟩], [], [], [], [(none, "c")]⟩, .failed]
    = some ⟨[⟨"c", [], []⟩], [], [], [], [(none, "c")]⟩ := by rfl

/-! ### strip_spec -/

/-- A keyword of the call reaches the chosen hasher iff that hasher declares it or NO scheme of the context declares it
(the code as it is: the context never rejects a keyword itself; an unknown one is handed on and the hasher raises). -/
theorem strip_spec (hist : List Event) (scheme cat : Arg) (kws : List Kw) (r : Rec)
    (hr : getRecord (run State.raw hist).cfg scheme cat = .ok r) :
    (ctxHash (run State.raw hist) scheme cat kws).1 = [callOf r .hash (passKwds (run State.raw hist) r kws)] ∧
    ∀ k, k ∈ passKwds (run State.raw hist) r kws ↔
      k ∈ kws ∧ (k ∈ r.hasher.contextKwds ∨ k ∉ allKwds (run State.raw hist).cfg) := by
  constructor
  · simp [ctxHash, hr]
  · intro k; rw [reachable_passKwds, strip_mem]

/-- a keyword that no scheme of the context declares: TypeError — raised by the hasher (the call is made, with the keyword) -/
theorem undeclared_everywhere_typeError (hist : List Event) (scheme cat : Arg) (kws : List Kw) (r : Rec) (k : Kw)
    (hr : getRecord (run State.raw hist).cfg scheme cat = .ok r)
    (hk : k ∈ kws) (hn : k ∉ allKwds (run State.raw hist).cfg) :
    (ctxHash (run State.raw hist) scheme cat kws).2 = .error .typeError ∧
    (ctxHash (run State.raw hist) scheme cat kws).1 ≠ [] := by
  have hmem : k ∈ passKwds (run State.raw hist) r kws := by
    rw [reachable_passKwds, strip_mem]; exact ⟨hk, Or.inr hn⟩
  have hnd : k ∉ r.hasher.contextKwds := fun hd => hn (declared_mem_allKwds _ _ (getRecord_hasher _ _ _ _ hr) k hd)
  have hp : r.hasher.problem (passKwds (run State.raw hist) r kws) = .undeclared := by
    unfold Hasher.problem
    split
    · rename_i hall
      have := List.all_eq_true.mp hall k hmem
      simp [hnd] at this
    · rfl
  simp [ctxHash, hr, Hasher.accepts, hp]

/-- keywords that some scheme declares never make the call fail for being undeclared: when every keyword of the call is declared by some
scheme of the context and the chosen hasher gets the ones it requires, the hasher call is accepted -/
theorem declared_somewhere_accepted (hist : List Event) (scheme cat : Arg) (kws : List Kw) (r : Rec)
    (hr : getRecord (run State.raw hist).cfg scheme cat = .ok r)
    (hall : ∀ k ∈ kws, k ∈ allKwds (run State.raw hist).cfg)
    (hreq : ∀ k ∈ r.hasher.required, k ∈ kws ∧ k ∈ r.hasher.contextKwds) :
    (ctxHash (run State.raw hist) scheme cat kws).2 = .ok () := by
  have h1 : (passKwds (run State.raw hist) r kws).all (fun k => r.hasher.contextKwds.contains k) = true := by
    rw [List.all_eq_true]; intro k hk
    rw [reachable_passKwds, strip_mem] at hk
    rcases hk with ⟨hk1, hd | hn⟩
    · simpa using hd
    · exact absurd (hall k hk1) hn
  have h2 : r.hasher.required.all (fun k => (passKwds (run State.raw hist) r kws).contains k) = true := by
    rw [List.all_eq_true]; intro k hk
    have := hreq k hk
    have hm : k ∈ passKwds (run State.raw hist) r kws := by
      rw [reachable_passKwds, strip_mem]; exact ⟨this.1, Or.inl this.2⟩
    simpa using hm
  simp only [ctxHash, hr, Hasher.accepts, Hasher.problem, h1, h2, if_true]

-- a context [sya(user), syc()] reconfigured from one without keywords: `user` is dropped for syc, `bogus` is passed on and refused
example : ctxHash (run State.raw [.load ⟨[⟨"syc", [], []⟩], [], [], [], [(none, "syc")]⟩,
      .load ⟨[⟨"sya", ["user"], []⟩, ⟨"syc", [], []⟩], [], [], [], [(none, "syc")]⟩]) .none .none ["user"]
    = ([⟨"syc", none, .hash, []⟩], .ok ()) := by decide
example : ctxHash (run State.raw [.load ⟨[⟨"sya", ["user"], []⟩, ⟨"syc", [], []⟩], [], [], [], [(none, "syc")]⟩]) .none .none ["user", "bogus"]
    = ([⟨"syc", none, .hash, ["bogus"]⟩], .error .typeError) := by decide

/-! ### vau_kwds -/

theorem clean_eq_passKwds (st : State) (r : Rec) (kws : List Kw) :
    (if !st.instNone && !kws.isEmpty then strip st.cfg r kws else kws) = passKwds st r kws := by
  unfold passKwds
  cases hi : st.instNone <;> cases kws <;> simp [strip_nil]

/-- In verify_and_update the verify call gets the keywords filtered for the HASH's scheme; every `hash` call it makes is the one of
the category's DEFAULT scheme record, with the ORIGINAL keywords filtered for that record. -/
theorem vau_kwds (st : State) (f df : String → SchemeFacts) (scheme cat : Arg) (kws : List Kw) (r : Rec)
    (hr : getOrIdentify st.cfg (.str f) scheme cat = .ok r) :
    ∃ rest, (ctxVau st (.str f) scheme cat kws df).1 = callOf r .verify (passKwds st r kws) :: rest ∧
      ∀ c ∈ rest, c.op = .hash →
        ∃ d, getRecord st.cfg .none cat = .ok d ∧ c = callOf d .hash (passKwds st d kws) := by
  simp only [ctxVau, hr, clean_eq_passKwds]
  split
  · exact ⟨[], rfl, by simp⟩
  · exact ⟨[], rfl, by simp⟩
  · split
    · refine ⟨_, rfl, ?_⟩
      rename_i hs
      intro c hc ho
      have : c ∈ (staleCheck r f).1 := by rw [hs]; simpa using hc
      unfold staleCheck at this; split at this
      · simp at this
      · simp at this; subst this; simp [callOf] at ho
    · refine ⟨_, rfl, ?_⟩
      rename_i hs
      intro c hc ho
      have : c ∈ (staleCheck r f).1 := by rw [hs]; simpa using hc
      unfold staleCheck at this; split at this
      · simp at this
      · simp at this; subst this; simp [callOf] at ho
    · rename_i t2 hs
      have hst : ∀ c ∈ t2, c.op ≠ .hash := by
        intro c hc
        have : c ∈ (staleCheck r f).1 := by rw [hs]; exact hc
        unfold staleCheck at this; split at this
        · simp at this
        · simp at this; subst this; simp [callOf]
      have hh : ∀ t3 res, ctxHash st .none cat kws = (t3, res) → ∀ c ∈ t3, 
          ∃ d, getRecord st.cfg .none cat = .ok d ∧ c = callOf d .hash (passKwds st d kws) := by
        intro t3 res h3 c hc
        unfold ctxHash at h3
        split at h3
        · cases h3; simp at hc
        · rename_i d hd
          cases h3; simp at hc; exact ⟨d, hd, hc⟩
      split
      · rename_i t3 e h3
        refine ⟨_, rfl, ?_⟩
        intro c hc ho
        have hc' : c ∈ t2 ∨ c ∈ t3 := by simpa using hc
        rcases hc' with hc | hc
        · exact absurd ho (hst c hc)
        · exact hh _ _ h3 c hc
      · rename_i t3 u h3
        refine ⟨_, rfl, ?_⟩
        intro c hc ho
        have hc' : c ∈ t2 ∨ c ∈ t3 := by simpa using hc
        rcases hc' with hc | hc
        · exact absurd ho (hst c hc)
        · exact hh _ _ h3 c hc

-- hash of sya (declares user) in a context whose default is syb (declares encoding), sya deprecated: verify gets `user`, the rehash `encoding`
def exCfg : Cfg := ⟨[⟨"sya", ["user"], []⟩, ⟨"syb", ["encoding"], []⟩], [], [], [("sya", none)], [(none, "syb")]⟩
def exFacts (n : String) : SchemeFacts :=
  if n = "sya" then ⟨true, .ok true, .ok false, .typeError, .typeError⟩ else ⟨false, .error .valueError, .error .valueError, .valueError, .valueError⟩

example : (ctxVau (build exCfg) (.str exFacts) .none .none ["user", "encoding"] exFacts).1
    = [⟨"sya", none, .verify, ["user"]⟩, ⟨"syb", none, .hash, ["encoding"]⟩] := by decide
example : (ctxVau (build exCfg) (.str exFacts) .none .none ["user", "encoding"] exFacts).2.1 = .ok .rehash := by decide

/-! ### hash=None: dummy_verify() hashes the dummy secret with the default scheme and NO keywords -/

theorem passKwds_nil (st : State) (r : Rec) : passKwds st r [] = [] := by
  unfold passKwds; split <;> rfl

/-- `verify(secret, None, **kwds)` returns False also when the default scheme cannot hash without a keyword (`user` of postgres_md5 /
oracle10 / msdcc, `user` + `realm` of htdigest): the dummy hash is made and verified with stand-in keywords (fix ff50ac0; before it the
first such call on an object was a TypeError — found by this model, reproduced on the real code).  The stand-ins are exactly the
keywords `user` / `realm` that some scheme of the context declares. -/
theorem dummyKwds_spec (st : State) (k : Kw) :
    k ∈ dummyKwds st ↔ (k = "user" ∨ k = "realm") ∧ k ∈ allKwds st.cfg := by
  simp [dummyKwds, List.mem_filter]

example : (ctxVerify (build ⟨[⟨"postgres_md5", ["user"], ["user"]⟩], [], [], [], [(none, "postgres_md5")]⟩) .none .none .none ["user"]
    (fun _ => ⟨true, .ok false, .ok false, .typeError, .typeError⟩)).2.1 = .ok false := by decide

example : (ctxVerify (build ⟨[⟨"htdigest", ["user", "realm", "encoding"], ["user", "realm"]⟩, ⟨"md5_crypt", [], []⟩], [], [], [], [(none, "htdigest")]⟩) .none .none .none []
    (fun _ => ⟨true, .ok false, .ok false, .typeError, .typeError⟩)).2.1 = .ok false := by decide

/-! ### category_fallback, category_type_error, scheme_keyword_spec -/

/-- a (non-empty) category without a record of its own for the scheme answers with the default category's record -/
theorem category_fallback (c : Cfg) (n k : String) (hk : k ≠ "")
    (hown : (c.cats.contains k && c.own.contains (n, k)) = false) :
    getRecordNamed c n (.str k) = getRecordNamed c n .none := by
  have hl : recordsLookup c n (some k) = none := by
    unfold recordsLookup; split
    · rfl
    · simp only [hown]; rfl
  simp only [getRecordNamed, hl, hk, ne_eq, not_false_eq_true, if_true]

/-- … for every scheme, through the public keyword as well -/
theorem category_fallback_all (c : Cfg) (k : String) (hk : k ≠ "") (hown : ∀ n, (c.cats.contains k && c.own.contains (n, k)) = false)
    (n : String) (hn : n ≠ "") : getRecord c (.str n) (.str k) = getRecord c (.str n) .none := by
  simp only [getRecord, hn, ne_eq, not_false_eq_true, if_true]
  exact category_fallback c n k hk (hown n)

/-- the empty string is a str but not a category: every lookup with a scheme ends in KeyError, also for a configured scheme
(stated as the code is; see the report) -/
theorem category_empty_string (c : Cfg) (n : String) (h : c.cats.contains "" = false) :
    getRecordNamed c n (.str "") = .error .keyError := by
  have hl : recordsLookup c n (some "") = none := by
    unfold recordsLookup; split
    · rfl
    · have : "" ∉ c.cats := by simpa using h
      simp [this]
  simp [getRecordNamed, hl]

/-- a category that is not a str: TypeError from every record lookup, whatever the scheme; no hasher is called -/
theorem category_type_error (st : State) (scheme : Arg) (kws : List Kw) :
    getRecord st.cfg scheme .other = .error .typeError ∧ ctxHash st scheme .other kws = ([], .error .typeError) := by
  have h : getRecord st.cfg scheme .other = .error .typeError := by
    unfold getRecord
    cases scheme with
    | none => rfl
    | other => rfl
    | str n => by_cases hn : n = "" <;> simp [hn, getRecordNamed]
  exact ⟨h, by simp [ctxHash, h]⟩

/-- identification checks the category only through the scheme list: with at least one scheme TypeError … -/
theorem category_type_error_identify (c : Cfg) (f : String → SchemeFacts) (req : Bool) (h : c.hashers ≠ []) :
    identifyRecord c (.str f) .other req = .error .typeError := by
  have : recordList c .other = .error .typeError := by
    unfold recordList
    cases hh : c.hashers with
    | nil => exact absurd hh h
    | cons a rest => simp [List.mapM_cons, getRecordNamed]; rfl
  simp [identifyRecord, this]

/-- … FULL statement "a non-str category is a TypeError in identify" is false for a context without schemes: -/
theorem category_type_error_identify_counterexample :
    identifyRecord Cfg.empty (.str (fun _ => ⟨false, .error .valueError, .error .valueError, .valueError, .valueError⟩)) .other false = .ok none := by
  rfl

/-- the (deprecated) `scheme=` keyword -/
theorem scheme_keyword_spec (c : Cfg) (cat : Arg) (f : String → SchemeFacts) (n : String) (hn : n ≠ "") :
    -- a named scheme is looked up by name; the hash's own claims are not consulted
    getOrIdentify c (.str f) (.str n) cat = getRecord c (.str n) cat ∧
    getRecord c (.str n) cat = getRecordNamed c n cat ∧
    -- a name that is not a scheme of the context: KeyError (TypeError when the category is not a str either)
    (findHasher c n = none → cat ≠ .other → getRecord c (.str n) cat = .error .keyError) ∧
    -- a non-str scheme: TypeError;  "" and None: the default scheme (hash) / identification (verify, needs_update)
    getRecord c .other cat = .error .typeError ∧
    getRecord c (.str "") cat = getRecord c .none cat ∧
    getOrIdentify c (.str f) (.str "") cat = getOrIdentify c (.str f) .none cat ∧
    -- with a scheme, a hash that is not a string is a TypeError before any lookup
    getOrIdentify c .other (.str n) cat = .error .typeError ∧ getOrIdentify c .none (.str n) cat = .error .typeError := by
  refine ⟨by simp [getOrIdentify, Arg.truthy, hn], by simp [getRecord, hn], ?_, rfl, by simp [getRecord], by simp [getOrIdentify, Arg.truthy],
    by simp [getOrIdentify, Arg.truthy, hn], by simp [getOrIdentify, Arg.truthy, hn]⟩
  intro hf hc
  have hl : ∀ k, recordsLookup c n k = none := by intro k; simp [recordsLookup, hf]
  simp only [getRecord, hn, ne_eq, not_false_eq_true, if_true]
  cases cat with
  | other => exact absurd rfl hc
  | none => simp [getRecordNamed, hl]
  | str k => by_cases hk : k = "" <;> simp [getRecordNamed, hl, hk]

/-- the scheme chosen when a named scheme is found: its own hasher — so `scheme=` forces the keywords of THAT scheme -/
theorem scheme_keyword_hasher (c : Cfg) (cat : Arg) (n : String) (hn : n ≠ "") (r : Rec)
    (h : getRecord c (.str n) cat = .ok r) : r.hasher.name = n ∧ r.hasher ∈ c.hashers := by
  simp only [getRecord, hn, ne_eq, not_false_eq_true, if_true] at h
  exact ⟨(getRecordNamed_hasher _ _ _ _ h).2, (getRecordNamed_hasher _ _ _ _ h).1⟩

example : getRecord ⟨[⟨"sya", ["user"], []⟩, ⟨"syb", [], []⟩], ["admin"], [("syb", "admin")], [("syb", some "admin")], [(none, "sya"), (some "admin", "syb")]⟩
    (.str "sya") (.str "admin") = .ok ⟨⟨"sya", ["user"], []⟩, none, false⟩ := by decide
example : getRecord ⟨[⟨"sya", ["user"], []⟩, ⟨"syb", [], []⟩], ["admin"], [("syb", "admin")], [("syb", some "admin")], [(none, "sya"), (some "admin", "syb")]⟩
    .none (.str "admin") = .ok ⟨⟨"syb", [], []⟩, some "admin", true⟩ := by decide

end Props.C04Kwds
