import PasslibVerif.Props.C02CodeDigestKdf
/-
C02, code level, group `Digest`, part 2: non-vacuity examples for Props/C02CodeDigestKdf.lean — each main theorem applied to a value
computed by the real code (/tmp/repo_clean), then the specification evaluated by the kernel (one PBKDF2 round: SHA-1 is slow there).
-/
namespace Props.C02CodeDigest
open Py Model.Code.Digest
open Spec.Formats hiding Bytes
open Model.Verify (Secret)
open Lemmas.C01Pbkdf (algSha1_ok)

example : dlitzGetConfig (ascii ".pPqsEwHD7MiECU0") 10000 = ascii "$p5k2$2710$.pPqsEwHD7MiECU0" := by decide +kernel
example : dlitzGetConfig (ascii "XXXXXXXX") 400 = ascii "$p5k2$$XXXXXXXX" := by decide +kernel

/-- `dlitz_pbkdf2_sha1(salt="sAlt", rounds=1)._calc_checksum(b"p\xe4ss")` -/
example : dlitzCalc (.bytes [0x70, 0xe4, 0x73, 0x73]) (ascii "sAlt") 1 = .ok (ascii "Qx1W9I61CS/9Ya0OpxKS3/u8DVYmTG05") := by
  rw [dlitz_calc_eq_spec _ _ _ (by decide) (by decide) (by decide)]; decide +kernel

end Props.C02CodeDigest
