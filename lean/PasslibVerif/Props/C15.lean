import PasslibVerif.Lemmas.TotpSerialWallet
/-
C15 — A TOTP configuration survives every serialisation.

Model: Model/TotpSerial.lean (`to_uri`/`from_uri`, `to_dict`/`from_dict`, `to_json`/`from_json`, `from_source`,
`urllib.parse.quote/unquote/urlsplit/parse_qsl`, UTF-8, the TOTP constructor, AppWallet), written against the statement
lists pinned by the translator unit `TotpSerial`; constants (safe sets, `_ALWAYS_SAFE`, `str.strip` whitespace, default
alg/digits/period, json versions, hash-name table) are regenerated from /repo and the interpreter on every run.

Statements quantify over ALL configurations / strings / class-level defaults.  `cls` is the class the loader is called
on (`TOTP` or any `TOTP.using(...)` subclass); the loaded issuer is `c.issuer <|> cls.clsIssuer`: an object never has
"no issuer" on a class that has a default one (attribute lookup), so for objects of `cls` itself this is `c.issuer`
(`from_to_uri_same_class`).  Things that turned out FALSE are stated as theorems too (section "findings").
-/
namespace Props.C15
open Py Model.Handler Model.TotpSerial Model.TotpKey Lemmas.TotpSerial

/-! ### UTF-8 and percent quoting -/

/-- `s.encode("utf-8").decode("utf-8") == s` for every string of Unicode scalar values -/
theorem utf8_decode_encode (s : Str) (h : s.all isScalar = true) : utf8Decode (utf8Encode s) = some s :=
  utf8_roundtrip s h

/-- `unquote(quote(s, safe)) == s` for every string of scalar values and every safe set that does not contain '%' -/
theorem unquote_quote (s : Str) (safe : List Nat) (hs : safe.contains 37 = false) (h : s.all isScalar = true) :
    (quote s safe).bind unquote = .ok s := Lemmas.TotpSerial.unquote_quote s safe hs h

/-- … and the hypothesis is needed: with '%' declared safe, "%41" is left alone and reads back as "A" -/
theorem unquote_quote_fails_if_percent_is_safe : (quote [37, 52, 49] [37]).bind unquote = .ok [65] :=
  Lemmas.TotpSerial.unquote_quote_fails_with_percent_safe

/-- quote emits only unreserved characters, ASCII characters of `safe`, and '%' … -/
theorem quote_alphabet (s : Str) (safe : List Nat) (q : Str) (h : quote s safe = .ok q) :
    ∀ c ∈ q, Gen.TotpSerial.alwaysSafe.contains c = true ∨ (c < 128 ∧ safe.contains c = true) ∨ c = 37 :=
  quote_chars s safe q h

/-- … and every '%' it emits is followed by two upper-case hex digits -/
theorem quote_escapes (s : Str) (safe : List Nat) (q : Str) (h : quote s safe = .ok q) :
    ∃ pieces : List Str, q = pieces.flatten ∧ ∀ p ∈ pieces,
      (∃ c, p = [c] ∧ (Gen.TotpSerial.alwaysSafe.contains c = true ∨ (c < 128 ∧ safe.contains c = true))) ∨
      (∃ x y, x < 16 ∧ y < 16 ∧ p = [37, hexDigitUpper x, hexDigitUpper y]) := quote_shape s safe q h

/-- a lone surrogate cannot be quoted (UnicodeEncodeError, a ValueError), everything else can -/
theorem quote_defined_iff (s : Str) (safe : List Nat) : (quote s safe).isOk = s.all isScalar := by
  unfold quote; split <;> simp_all [Out.isOk]

/-! ### uri -/

/-- the side conditions of the uri round trip, spelled out: what the constructor guarantees (non-empty key of bytes,
    a hash name `lookup_hash` knows, digits 6..10, period ≥ 1, no ':' in label / issuer, issuer not blank) plus
    a label that is PRESENT and text UTF-8 can encode -/
def UriRoundTrippable (c : Config) (l : Str) : Prop :=
  c.key ≠ [] ∧ Bytes.WF c.key ∧ c.alg ∈ Gen.TotpSerial.hashNames ∧ (6 ≤ c.digits ∧ c.digits ≤ 10) ∧ 1 ≤ c.period ∧
  c.label = some l ∧ l ≠ [] ∧ 58 ∉ l ∧ l.all isScalar = true ∧
  ∀ i, c.issuer = some i → i ≠ [] ∧ 58 ∉ i ∧ i.all isScalar = true

/-- `str.strip()` leaves the label alone: neither end is one of the code points Python strips (Gen.TotpSerial.stripWs) -/
def NoSurroundingWhitespace (l : Str) : Prop :=
  (∀ c, l.head? = some c → Gen.TotpSerial.stripWs.contains c = false) ∧
  (∀ c, l.getLast? = some c → Gen.TotpSerial.stripWs.contains c = false)

theorem uriOk_of {c : Config} {l : Str} (h : UriRoundTrippable c l) : UriOk c l :=
  ⟨h.1, h.2.1, h.2.2.1, h.2.2.2.1, h.2.2.2.2.1, h.2.2.2.2.2.1, h.2.2.2.2.2.2.1, h.2.2.2.2.2.2.2.1, h.2.2.2.2.2.2.2.2.1, h.2.2.2.2.2.2.2.2.2⟩

/-- **from_uri(to_uri()) gives the object back** — key, algorithm, digits, period, label, issuer — on EVERY class
    (every `using()` default of algorithm, digits, period, issuer, wallet), for every label without surrounding whitespace -/
theorem from_to_uri {E} (cls : Cls E) (c : Config) (l : Str) (h : UriRoundTrippable c l) (hws : NoSurroundingWhitespace l) :
    (toUri c).bind (fromUri cls) =
      .ok { key := c.key, alg := c.alg, digits := c.digits, period := c.period, label := some l,
            issuer := c.issuer <|> cls.clsIssuer, changed := false } :=
  fromUri_toUri cls c l (uriOk_of h) hws

/-- for an object of the class itself (an object has no issuer only if its class has none) the result is the object -/
theorem from_to_uri_same_class {E} (cls : Cls E) (c : Config) (l : Str) (h : UriRoundTrippable c l) (hws : NoSurroundingWhitespace l)
    (hreach : c.issuer = none → cls.clsIssuer = none) (hch : c.changed = false) :
    (toUri c).bind (fromUri cls) = .ok c := by
  rw [from_to_uri cls c l h hws]
  have e : (c.issuer <|> cls.clsIssuer) = c.issuer := by
    cases hi : c.issuer with
    | none => rw [hreach hi]; rfl
    | some _ => rfl
  rw [e, ← h.2.2.2.2.2.1, ← hch]

/-- what happens to ANY label: the loaded label is `label.strip()`; if nothing is left the uri is refused (ValueError) -/
theorem from_to_uri_strips {E} (cls : Cls E) (c : Config) (l : Str) (h : UriRoundTrippable c l) :
    (toUri c).bind (fromUri cls) =
      if (pyStrip l).isEmpty then .error .valueError else
      .ok { key := c.key, alg := c.alg, digits := c.digits, period := c.period, label := some (pyStrip l),
            issuer := c.issuer <|> cls.clsIssuer, changed := false } :=
  fromUri_toUri_gen cls c l (uriOk_of h)

/-- `to_uri()` is defined under these conditions and begins with "otpauth://totp/", so `from_source` hands it to `from_uri` -/
theorem from_source_uri {E} (cls : Cls E) (c : Config) (l : Str) (h : UriRoundTrippable c l) (parsed : JDoc E) :
    ∃ u, toUri c = .ok u ∧ fromSource cls (.text u parsed) = fromUri cls u := by
  refine ⟨_, toUri_eq c l (uriOk_of h), ?_⟩
  unfold fromSource
  have : sUriScheme.isPrefixOf (sUriHead ++ labelPart c l ++ 63 :: joinChar 38 ((allParams c).map field)) = true := by
    have e : sUriHead = sUriScheme ++ [116, 111, 116, 112, 47] := by decide
    rw [e, List.append_assoc, List.append_assoc]; exact Lemmas.Handler.prefix_append _ _
  simp only [this, if_true]

/-! ### dict / json -/

/-- the side conditions of the dict round trip: exactly what the constructor guarantees (label optional) -/
def DictRoundTrippable (c : Config) : Prop :=
  c.key ≠ [] ∧ Bytes.WF c.key ∧ c.alg ∈ Gen.TotpSerial.hashNames ∧ (6 ≤ c.digits ∧ c.digits ≤ 10) ∧ 1 ≤ c.period ∧
  (∀ l, c.label = some l → l ≠ [] ∧ 58 ∉ l) ∧ (∀ i, c.issuer = some i → i ≠ [] ∧ 58 ∉ i)

theorem dictOk_of {c : Config} (h : DictRoundTrippable c) : DictOk c :=
  ⟨h.1, h.2.1, h.2.2.1, h.2.2.2.1, h.2.2.2.2.1, h.2.2.2.2.2.1, h.2.2.2.2.2.2⟩

/-- **from_dict(to_dict(encrypt=False))** on every class: labels with any whitespace, lone surrogates, etc. included -/
theorem from_to_dict {E} (cls : Cls E) (c : Config) (h : DictRoundTrippable c) (seed : Nat) :
    (toDict cls c (some false) seed).bind (fromDict cls) =
      .ok { key := c.key, alg := c.alg, digits := c.digits, period := c.period, label := c.label,
            issuer := c.issuer <|> cls.clsIssuer, changed := false } :=
  fromDict_toDict_plain cls c (dictOk_of h) seed

theorem from_to_dict_same_class {E} (cls : Cls E) (c : Config) (h : DictRoundTrippable c) (seed : Nat)
    (hreach : c.issuer = none → cls.clsIssuer = none) (hch : c.changed = false) :
    (toDict cls c (some false) seed).bind (fromDict cls) = .ok c := by
  rw [from_to_dict cls c h seed]
  have e : (c.issuer <|> cls.clsIssuer) = c.issuer := by
    cases hi : c.issuer with
    | none => rw [hreach hi]; rfl
    | some _ => rfl
  rw [e, ← hch]

/-- loading on ANOTHER class (other algorithm / digits / period defaults, other wallet) with the same default issuer -/
theorem from_to_dict_other_class {E} (cls cls' : Cls E) (hiss : cls'.clsIssuer = cls.clsIssuer) (c : Config) (h : DictRoundTrippable c) (seed : Nat) :
    (toDict cls c (some false) seed).bind (fromDict cls') =
      .ok { key := c.key, alg := c.alg, digits := c.digits, period := c.period, label := c.label,
            issuer := c.issuer <|> cls.clsIssuer, changed := false } :=
  fromDict_toDict_other_class cls cls' hiss c (dictOk_of h) seed

/-- **from_json(to_json())**: `sort_keys=True` only reorders the entries (JSON text ↔ document is the `json` module) -/
theorem from_to_json {E} (cls : Cls E) (c : Config) (h : DictRoundTrippable c) (seed : Nat) :
    (toJson cls c (some false) seed).bind (fromJson cls) =
      .ok { key := c.key, alg := c.alg, digits := c.digits, period := c.period, label := c.label,
            issuer := c.issuer <|> cls.clsIssuer, changed := false } :=
  fromJson_toJson_plain cls c (dictOk_of h) seed

/-- `from_source` on a dict is `from_dict`; on text that does not start with "otpauth://" it is `from_json` -/
theorem from_source_dict_json {E} (cls : Cls E) (d : Dict E) (s : Str) (doc : JDoc E) (hs : sUriScheme.isPrefixOf s = false) :
    fromSource cls (.dict d) = fromDict cls d ∧ fromSource cls (.text s doc) = fromJson cls doc := by
  constructor
  · rfl
  · unfold fromSource; simp only [hs, Bool.false_eq_true, if_false]

/-- **encrypted key form**: all that is asked of the class wallet is `decrypt (encrypt key) = key`
    (`r` is its needs_recrypt verdict, which becomes `.changed`) -/
theorem from_to_dict_encrypted {E} (cls : Cls E) (w : Wallet E) (hw : cls.wallet = some w) (c : Config) (h : DictRoundTrippable c)
    (enc : Option Bool) (henc : wantEncrypt cls enc = true) (seed : Nat) (e : E) (r : Bool)
    (he : w.encrypt seed c.key = .ok e) (hd : w.decrypt e = .ok (c.key, r)) :
    (toDict cls c enc seed).bind (fromDict cls) =
      .ok { key := c.key, alg := c.alg, digits := c.digits, period := c.period, label := c.label,
            issuer := c.issuer <|> cls.clsIssuer, changed := r } :=
  fromDict_toDict_encrypted cls w hw c (dictOk_of h) enc henc seed e r he hd

/-! ### application secrets (AppWallet); the cipher is a parameter of which only `CipherOk` is assumed -/

/-- **an encrypted key decrypts to the original under any wallet that still lists the secret**, whatever its other
    secrets, default tag and cost; `needs_recrypt` is set exactly when cost or default tag differ -/
theorem wallet_decrypts_under_listed_secret (cipher : Cipher) (hc : CipherOk cipher) (w w' : AppWallet) (tag : Str) (secret salt key : Bytes)
    (hd : truthy w.defaultTag = some tag) (hs : lookupKey tag w.secrets = some secret)
    (hs' : lookupKey tag w'.secrets = some secret) (hk : key ≠ []) (hkw : Bytes.WF key) (hsw : Bytes.WF salt) (hcost : 0 ≤ w.cost) :
    (walletEncrypt cipher w salt key).bind (walletDecrypt cipher w') =
      .ok (key, decide (w.cost ≠ w'.cost) || decide (some tag ≠ w'.defaultTag)) :=
  wallet_roundtrip cipher hc w w' tag secret salt key hd hs hs' hk hkw hsw hcost

/-- the same through the TOTP class: `to_dict()` on a class with wallet `w`, `from_dict()` on a class with wallet `w'` -/
theorem from_to_dict_wallets (cipher : Cipher) (hc : CipherOk cipher) (salts : Nat → Bytes) (hsalts : ∀ n, Bytes.WF (salts n))
    (w w' : AppWallet) (tag : Str) (secret : Bytes)
    (hd : truthy w.defaultTag = some tag) (hs : lookupKey tag w.secrets = some secret) (hs' : lookupKey tag w'.secrets = some secret)
    (hcost : 0 ≤ w.cost)
    (cls cls' : Cls EncDict) (hw : cls.wallet = some (w.toWallet cipher salts)) (hw' : cls'.wallet = some (w'.toWallet cipher salts))
    (hiss : cls'.clsIssuer = cls.clsIssuer) (c : Config) (h : DictRoundTrippable c) (seed : Nat) :
    (toDict cls c none seed).bind (fromDict cls') =
      .ok { key := c.key, alg := c.alg, digits := c.digits, period := c.period, label := c.label,
            issuer := c.issuer <|> cls.clsIssuer,
            changed := decide (w.cost ≠ w'.cost) || decide (some tag ≠ w'.defaultTag) } :=
  totp_wallet_roundtrip cipher hc salts hsalts w w' tag secret hd hs hs' hcost cls cls' hw hw' hiss c (dictOk_of h) seed

/-- the default tag: one of the tags, numerically greatest when all are digit strings, else greatest as text -/
theorem default_tag_spec (tags : List Str) :
    (tags = [] → pickDefaultTag tags = none) ∧
    ∀ m, pickDefaultTag tags = some m → m ∈ tags ∧
      (tags.all allAsciiDigits = true → ∀ x ∈ tags, asciiNat x ≤ asciiNat m) ∧
      (tags.all allAsciiDigits = false → ∀ x ∈ tags, strLt m x = false) := pickDefaultTag_spec tags

/-! ### inconsistent or incomplete sources are refused -/

/-- wrong scheme / unknown type / hotp / no label — in terms of what `urlsplit(uri.strip())` finds -/
theorem uri_wrong_scheme {E} (cls : Cls E) (u : Str) (h : (urlsplit (pyStrip u)).scheme ≠ sOtpauth) :
    fromUri cls u = .error .valueError := fromUri_wrong_scheme cls u h
theorem uri_unknown_type {E} (cls : Cls E) (u : Str) (hs : (urlsplit (pyStrip u)).scheme = sOtpauth)
    (h1 : (urlsplit (pyStrip u)).netloc ≠ sTotp) (h2 : (urlsplit (pyStrip u)).netloc ≠ sHotp) :
    fromUri cls u = .error .valueError := fromUri_unknown_type cls u hs h1 h2
theorem uri_hotp_not_implemented {E} (cls : Cls E) (u : Str) (hs : (urlsplit (pyStrip u)).scheme = sOtpauth)
    (h : (urlsplit (pyStrip u)).netloc = sHotp) : fromUri cls u = .error .notImplemented := fromUri_hotp cls u hs h
theorem uri_missing_label {E} (cls : Cls E) (u : Str) (hs : (urlsplit (pyStrip u)).scheme = sOtpauth)
    (ht : (urlsplit (pyStrip u)).netloc = sTotp) (hp : (urlsplit (pyStrip u)).path = [] ∨ (urlsplit (pyStrip u)).path = [47]) :
    fromUri cls u = .error .valueError := fromUri_missing_label cls u hs ht hp

/-- a parameter name that occurs twice (or is `label`) → ValueError; conversely the check passes exactly the lists without repetition -/
theorem uri_duplicate_parameter {E} (cls : Cls E) (lp q label0 : Str) (il : Option Str × Str) (pairs : List (Str × Str))
    (h1 : unquote lp = .ok label0) (h2 : splitLabel label0 = .ok il) (h3 : parseQsl q = .ok pairs)
    (hdup : ¬ (sLabel :: pairs.map Prod.fst).Nodup) :
    fromLabelQuery cls lp q = .error .valueError := uri_duplicate_param cls lp q label0 il pairs h1 h2 h3 hdup
theorem duplicate_check_exact (acc ps : List (Str × Str)) (hacc : (acc.map Prod.fst).Nodup) :
    (((acc ++ ps).map Prod.fst).Nodup → addParams acc ps = .ok (acc ++ ps)) ∧
    (¬ ((acc ++ ps).map Prod.fst).Nodup → addParams acc ps = .error .valueError) :=
  ⟨addParams_nodup ps acc, addParams_dup ps acc hacc⟩

/-- issuer prefix of the label ≠ `issuer` parameter → ValueError -/
theorem uri_conflicting_issuers {E} (cls : Cls E) (lp q label0 i l i' : Str) (pairs : List (Str × Str))
    (h1 : unquote lp = .ok label0) (h2 : splitLabel label0 = .ok (some i, l)) (hi : i ≠ []) (h3 : parseQsl q = .ok pairs)
    (hiss : lookupKey sIssuer pairs = some i') (hne : i' ≠ i) :
    fromLabelQuery cls lp q = .error .valueError := uri_conflicting_issuer cls lp q label0 i l i' pairs h1 h2 hi h3 hiss hne

/-- no `secret` parameter → ValueError; a blank one (`secret=`) is dropped by `parse_qsl`, hence also missing -/
theorem uri_missing_secret {E} (cls : Cls E) (lp q label0 : Str) (il : Option Str × Str) (pairs : List (Str × Str))
    (h1 : unquote lp = .ok label0) (h2 : splitLabel label0 = .ok il) (h3 : parseQsl q = .ok pairs)
    (hs : lookupKey sSecret pairs = none) (hc : lookupKey sCls pairs = none) :
    fromLabelQuery cls lp q = .error .valueError := Lemmas.TotpSerial.uri_missing_secret cls lp q label0 il pairs h1 h2 h3 hs hc
theorem uri_blank_value_dropped (n : Str) (hn : 61 ∉ n) : qslField (n ++ [61]) = .ok none := qslField_blank n hn

/-- dict / json: no `type`, an unknown one, `hotp`; missing / null / zero / out-of-window version; neither `key` nor `enckey` -/
theorem dict_missing_type {E} (cls : Cls E) (d : Dict E) (h : lookupKey sType d = none) : fromDict cls d = .error .valueError :=
  Lemmas.TotpSerial.dict_missing_type cls d h
theorem dict_unknown_type {E} (cls : Cls E) (d : Dict E) (ty : JVal E) (h : lookupKey sType d = some ty) (hc : hasKey sCls d = false)
    (hty : ty ≠ .str sTotp) (hty' : ty ≠ .str sHotp) : fromDict cls d = .error .valueError := by
  cases ty with
  | str t => exact Lemmas.TotpSerial.dict_unknown_type cls d t h hc (fun e => hty (by rw [e])) (fun e => hty' (by rw [e]))
  | _ => exact dict_nontext_type cls d _ h hc (fun t => by intro e; cases e)
theorem dict_hotp_not_implemented {E} (cls : Cls E) (d : Dict E) (h : lookupKey sType d = some (.str sHotp)) (hc : hasKey sCls d = false) :
    fromDict cls d = .error .notImplemented := dict_hotp cls d h hc
theorem dict_bad_version {E} (cls : Cls E) (d : Dict E) (h : lookupKey sType d = some (.str sTotp)) (hc : hasKey sCls d = false)
    (hv : BadVersion (lookupKey sV d)) : fromDict cls d = .error .valueError := Lemmas.TotpSerial.dict_bad_version cls d h hc hv
theorem dict_missing_key {E} (cls : Cls E) (d : Dict E) (h : lookupKey sType d = some (.str sTotp)) (hc : hasKey sCls d = false)
    (ver : Int) (hv : dictVersion (lookupKey sV d) = .ok ver) (h1 : lookupKey sKey d = none) (h2 : lookupKey sEnckey d = none) :
    fromDict cls d = .error .valueError := Lemmas.TotpSerial.dict_missing_key cls d h hc ver hv h1 h2
theorem json_not_an_object {E} (cls : Cls E) :
    fromJson cls (JDoc.invalid (E := E)) = .error .valueError ∧ fromJson cls (JDoc.nonDict (E := E)) = .error .valueError := json_not_object cls

/-! ### findings: what does NOT hold (each with its witness; none is hidden by a hypothesis above) -/

def cfg0 : Config := { key := [48, 49, 50, 51, 52, 53, 54, 55, 56, 57], alg := Gen.TotpSerial.defaultAlg, digits := 6, period := 30,
                       label := some [32, 120], issuer := none }
def cls0 : Cls Unit := {}

/-- **label " x" comes back as "x"**: `from_uri` strips the label (KeyURI allows leading spaces), `to_uri` writes "%20x" -/
theorem label_whitespace_lost :
    toUri cfg0 = .ok (sUriHead ++ [37, 50, 48, 120, 63] ++ sSecret ++ 61 :: base32Key cfg0.key) ∧
    (toUri cfg0).bind (fromUri cls0) = .ok { cfg0 with label := some [120] } := by decide +kernel

/-- an all-whitespace label serialises to a uri that `from_uri` refuses -/
theorem blank_label_uri_refused : (toUri { cfg0 with label := some [32] }).bind (fromUri cls0) = .error .valueError := by decide +kernel

/-- an object without issuer loaded through a class with a default issuer gets that issuer (attribute lookup; by design) -/
theorem class_issuer_fills_in :
    (toUri { cfg0 with label := some [120] }).bind (fromUri { cls0 with clsIssuer := some [65] }) =
      .ok { cfg0 with label := some [120], issuer := some [65] } := by decide +kernel

/-- `TOTP(key="=")` has an empty key; its uri has a blank secret and is refused, its dict has `"key": ""` → TypeError -/
theorem empty_key_not_loadable :
    (toUri { cfg0 with key := [], label := some [120] }).bind (fromUri cls0) = .error .valueError ∧
    (toDict cls0 { cfg0 with key := [] } none 0).bind (fromDict cls0) = .error .typeError := by decide +kernel

/-- a uri parameter named `cls` makes `cls._adapt_uri_params(**params)` raise TypeError (other unknown names are ignored) -/
theorem uri_param_cls_typeError {E} (cls : Cls E) (params : List (Str × Str)) (h : hasKey sCls params = true) :
    adaptUriParams cls params = .error .typeError := by
  unfold adaptUriParams; simp only [h, if_true]
example : fromUri cls0 (sUriHead ++ [120, 63] ++ sSecret ++ [61, 65, 65, 65, 65, 65, 65, 65, 65, 38] ++ sCls ++ [61, 49]) = .error .typeError := by
  decide +kernel

/-- dict sources: blank key → TypeError, `key` together with `enckey` → AssertionError, an entry named `cls` → TypeError,
    an unknown entry → TypeError (none of them the documented ValueError) -/
theorem dict_blank_key_typeError :
    fromDict cls0 [(sType, .str sTotp), (sV, .int 1), (sKey, .str [])] = .error .typeError := by decide +kernel
theorem dict_key_and_enckey_assertionError {E} (cls : Cls E) (d : Dict E) (h : lookupKey sType d = some (.str sTotp)) (hc : hasKey sCls d = false)
    (ver : Int) (hv : dictVersion (lookupKey sV d) = .ok ver) (k e : JVal E) (h1 : lookupKey sKey d = some k) (h2 : lookupKey sEnckey d = some e) :
    fromDict cls d = .error .assertionError := by
  unfold fromDict
  simp only [h, hc, Bool.false_eq_true, if_false, dictType, checkOtpType, if_true, Out.bind, hv, h1, h2, dictKey]
theorem dict_entry_cls_typeError {E} (cls : Cls E) (d : Dict E) (ty : JVal E) (h : lookupKey sType d = some ty) (hc : hasKey sCls d = true) :
    fromDict cls d = .error .typeError := by
  unfold fromDict; simp only [h, hc, if_true]

/-- an "enckey" whose tag the wallet does not list → KeyError (not ValueError) -/
theorem wallet_unknown_tag_keyError (cipher : Cipher) (w' : AppWallet) (e : EncDict) (tag k : Str) (cost : Int) (ck : Bytes)
    (hv : encVersion e = .ok ()) (ht : encStr e sT = .ok tag) (hcst : encInt e sC = .ok cost) (hk : encStr e sK = .ok k)
    (hb : Model.B64.b32decode k = .ok ck) (hmiss : lookupKey tag w'.secrets = none) :
    walletDecrypt cipher w' e = .error .keyError := wallet_unknown_tag cipher w' e tag k cost ck hv ht hcst hk hb hmiss

/-! ### non-vacuity -/
def cfg1 : Config := { key := [1, 2, 3, 4, 5, 6, 7, 8, 9, 10, 11], alg := [115, 104, 97, 50, 53, 54], digits := 8, period := 60,
                       label := some [97, 32, 64, 47, 37, 38, 61, 233, 8364, 128512], issuer := some [66, 105, 103, 32, 67, 111] }
def cls1 : Cls Unit := { clsAlg := [115, 104, 97, 53, 49, 50], clsDigits := 7, clsPeriod := 15, clsIssuer := some [90] }

example : utf8Decode (utf8Encode [97, 233, 8364, 128512]) = some [97, 233, 8364, 128512] := by decide
example : (quote [32, 64, 47, 37, 38, 61, 233] [64]).bind unquote = .ok [32, 64, 47, 37, 38, 61, 233] := by decide
example : quote [32, 64, 233] [64] = .ok [37, 50, 48, 64, 37, 67, 51, 37, 65, 57] := by decide
example : UriRoundTrippable cfg1 [97, 32, 64, 47, 37, 38, 61, 233, 8364, 128512] ∧ NoSurroundingWhitespace [97, 32, 64, 47, 37, 38, 61, 233, 8364, 128512] := by
  refine ⟨⟨by decide, by decide, by decide, by decide, by decide, rfl, by decide, by decide, by decide, ?_⟩, by decide, by decide⟩
  intro i hi; injection hi with hi; subst hi; decide
example : (toUri cfg1).bind (fromUri cls1) = .ok cfg1 := by decide +kernel
example : (toDict cls1 cfg1 none 0).bind (fromDict cls1) = .ok cfg1 := by decide +kernel
example : (toJson cls1 cfg1 none 0).bind (fromJson cls1) = .ok cfg1 := by decide +kernel
example : DictRoundTrippable cfg1 := by
  refine ⟨by decide, by decide, by decide, by decide, by decide, ?_, ?_⟩
  · intro l hl; injection hl with hl; subst hl; decide
  · intro i hi; injection hi with hi; subst hi; decide
/-- a wallet with an XOR stream cipher: CipherOk is inhabited and the round trip is not vacuous -/
def xorCipher : Cipher := fun secret _ _ data => data.map (· ^^^ secret.headD 0 % 256)
def w1 : AppWallet := { secrets := [([49], [7]), ([50], [9])], defaultTag := some [50], cost := 14 }
def w2 : AppWallet := { secrets := [([51], [1]), ([50], [9])], defaultTag := some [51], cost := 15 }
example : (walletEncrypt xorCipher w1 [0, 1, 2] [10, 20, 30]).bind (walletDecrypt xorCipher w2) = .ok ([10, 20, 30], true) := by decide +kernel
example : (walletEncrypt xorCipher w1 [0, 1, 2] [10, 20, 30]).bind (walletDecrypt xorCipher { w2 with secrets := [([51], [1])] }) = .error .keyError := by
  decide +kernel
example : pickDefaultTag [[57], [49, 48]] = some [49, 48] ∧ pickDefaultTag [[57], [49, 48], [97]] = some [97] := by decide
example : fromUri cls0 (sUriHead ++ [120, 63] ++ sIssuer ++ [61, 97]) = .error .valueError := by decide +kernel
example : fromDict cls0 [(sType, .str sTotp), (sV, .int 2), (sKey, .str [65, 65])] = .error .valueError := by decide +kernel

end Props.C15
