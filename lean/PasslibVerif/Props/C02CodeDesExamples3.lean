import PasslibVerif.Props.C02CodeDes
/-
The statement-level model evaluated by the kernel on values computed by the real code (/tmp/repo_clean at HEAD) — independent of the
theorems (no rewriting through the specification): the model is executable inside the logic and agrees with passlib on these inputs.
-/
namespace Props.C02CodeDes
open Py Model.B64 Model.Code.Des Spec.Formats
open Model.Verify (Secret)

example : rawDesCrypt (.bytes (ascii "password")) (ascii "ab") = .ok (ascii "JnggxhB/yWI") := by decide +kernel
example : rawDesCrypt (.bytes [0x70, 0xe4, 0x73, 0x73, 0x77, 0xf6, 0x72, 0x64]) (ascii "ab") = .ok (ascii "UHWcN08ZKKc") := by decide +kernel
example : rawDesCrypt (.text [0x70, 0xe4, 0x73, 0x73, 0x77, 0xf6, 0x72, 0x64]) (ascii "z.") = .ok (ascii "f5UVCALch5Q") := by decide +kernel
example : rawDesCrypt (.bytes (ascii "pass" ++ [0] ++ ascii "word")) (ascii "ab") = .error .nullError := by decide +kernel
example : rawDesCrypt (.bytes (ascii "password")) (ascii "a!") = .error .valueError := by decide +kernel
example : rawDesCrypt (.bytes (ascii "password")) (ascii "abc") = .error .assertionError := by decide +kernel
example : bsdiSecretToKey (ascii "a much longer password, 37 bytes long") = .ok 10874469370015417689 := by decide +kernel
example : rawBsdiCrypt (.bytes (ascii "a much longer password, 37 bytes long")) 5 (ascii "rasm") = .ok (ascii "Iyi4/pPxeSM") := by
  decide +kernel
example : rawBsdiCrypt (.bytes (ascii "password")) 0 (ascii "rasm") = .error .valueError := by decide +kernel
example : desCryptCalcBuiltin (.bytes (ascii "password")) (ascii "ab") = .ok (ascii "JnggxhB/yWI") := by decide +kernel
example : bsdiCryptCalcBuiltin (.bytes (ascii "password")) 7 (ascii "rasm") = .ok (ascii "WYlW68OdpqA") := by decide +kernel
example : bigcryptCalc (.bytes (ascii "a much longer password, 37 bytes long")) (ascii "S/")
    = .ok (ascii "4uZZRqpls9g5cnipuT/rGwbqkni8iEYq.2WpexUuSMagbLECHtmZ6Ao") := by decide +kernel
example : crypt16Calc (.bytes (ascii "passphrase" ++ [0xff, 0x00] ++ ascii "abcdefgh")) (ascii "aa") = .ok (ascii "X/UmCcBrceQGwyZu6PTwpg") := by
  decide +kernel
example : crypt16Calc (.bytes (ascii "passphrase" ++ [0xff, 0x00] ++ ascii "abcdefgh")) (ascii "aa") true = .error .truncateError := by
  decide +kernel
example : lmhashCalcBytes (ascii "Passw" ++ [0xf6] ++ ascii "rd12345") = .ok (ascii "ab2445cb975ab06ce1c7c53891cb0efa") := by decide +kernel
example : desCbcEncrypt ORACLE10_MAGIC (ascii "hello world") = .ok [0xa3, 0x36, 0x4d, 0x28, 0x4b, 0x90, 0x25, 0xfe] := by decide +kernel
example : oracle10CalcInput ((ascii "SYSTEMMANAGER").flatMap fun c => [0, c]) = .ok (ascii "D4DF7931AB130E37") := by decide +kernel

end Props.C02CodeDes
