import PasslibVerif.Props.C01Crypt
import PasslibVerif.Props.C08
import PasslibVerif.Lemmas.C08Crypt
/-
C05 / C08 at hasher level for md5_crypt / apr_md5_crypt / sha256_crypt / sha512_crypt (the hashers of Model/VerifyCrypt.lean: C07 parser +
C02 checksum code), lifted from the generic theorems of Props/C08.lean and the round trips of Props/C01Crypt.lean:

 (a) `X_altered_checksum_never_verifies` — for a string `hash` produced for a secret, ANY string that parses to the same settings with a
     different checksum answers False for that secret;
 (b) `X_verify_total` — for EVERY string and EVERY secret `verify` answers a Boolean or raises the documented value / size / NUL error:
     never another error kind (the "never an internal error" half of C08; `Documented` is the four-way disjunction);
 (c) `X_config_string_is_value_error` — a string that parses to settings without checksum is a value error.
-/
namespace Props.C08Crypt
open Py Model.Handler Model.Formats Model.Verify Model.ShaCrypt Model.VerifyCrypt Props.C01 Props.C01Crypt Lemmas.C08Crypt

/-! ### md5_crypt / apr_md5_crypt -/

/-- (a) a hash made for `s`, its checksum altered (same ident and salt): False for `s` -/
theorem md5_crypt_altered_checksum_never_verifies (apr : Bool) (s : Secret) (salt hs hs' c' : Str) (hsalt : allIn h64 salt = true)
    (hl : salt.length ≤ 8) (hh : hashSecret (md5Hasher apr) s { ident := md5Ident apr, salt := some salt } = .ok hs)
    (hp' : (md5Hasher apr).parse hs' = .ok { ident := md5Ident apr, salt := some salt, checksum := some c' })
    (hne : (md5Hasher apr).parse hs' ≠ (md5Hasher apr).parse hs) : verify (md5Hasher apr) s hs' = .ok false :=
  altered_checksum_of_hash _ s _ hs hs' c' (md5_roundtrips apr salt hsalt hl) (fun _ _ _ => rfl) hh hp' hne

/-- (b) every string, every secret: an answer or a documented error -/
theorem md5_crypt_verify_total (apr : Bool) (s : Secret) (hs : Str) : Documented (verify (md5Hasher apr) s hs) :=
  verify_total_of _ (fun hs e h => toRes_error _ e h)
    (fun hs p b _ => ⟨_, Props.C02.md5_crypt_eq_spec apr b (p.salt.getD [])⟩) s hs

/-- (c) a configuration string (no checksum) is a value error -/
theorem md5_crypt_config_string_is_value_error (apr : Bool) (s : Secret) (hs : Str) (p : Parsed) (hl : s.len ≤ MAX_PASSWORD_SIZE)
    (hp : (md5Hasher apr).parse hs = .ok p) (hc : p.checksum = none) : verify (md5Hasher apr) s hs = .error .valueError :=
  Props.C08.config_string_is_value_error _ s hs p (by unfold validateSecret; simp; omega) hp hc

/-! ### sha256_crypt / sha512_crypt -/

theorem sha256_crypt_altered_checksum_never_verifies (s : Secret) (salt hs hs' c' : Str) (rounds : Nat) (hsalt : allIn h64 salt = true)
    (hl : salt.length ≤ 16) (hr : 1000 ≤ rounds ∧ rounds ≤ 999999999)
    (hh : hashSecret sha256Hasher s (sha2Settings (ofString "$5$") salt rounds) = .ok hs)
    (hp' : sha256Hasher.parse hs' = .ok { sha2Settings (ofString "$5$") salt rounds with checksum := some c' })
    (hne : sha256Hasher.parse hs' ≠ sha256Hasher.parse hs) : verify sha256Hasher s hs' = .ok false :=
  altered_checksum_of_hash _ s _ hs hs' c' (sha256_roundtrips salt rounds hsalt hl hr) (fun _ _ _ => rfl) hh hp' hne

theorem sha512_crypt_altered_checksum_never_verifies (s : Secret) (salt hs hs' c' : Str) (rounds : Nat) (hsalt : allIn h64 salt = true)
    (hl : salt.length ≤ 16) (hr : 1000 ≤ rounds ∧ rounds ≤ 999999999)
    (hh : hashSecret sha512Hasher s (sha2Settings (ofString "$6$") salt rounds) = .ok hs)
    (hp' : sha512Hasher.parse hs' = .ok { sha2Settings (ofString "$6$") salt rounds with checksum := some c' })
    (hne : sha512Hasher.parse hs' ≠ sha512Hasher.parse hs) : verify sha512Hasher s hs' = .ok false :=
  altered_checksum_of_hash _ s _ hs hs' c' (sha512_roundtrips salt rounds hsalt hl hr) (fun _ _ _ => rfl) hh hp' hne

theorem sha256_crypt_verify_total (s : Secret) (hs : Str) : Documented (verify sha256Hasher s hs) :=
  verify_total_of _ (fun hs e h => toRes_error _ e h)
    (fun hs p b hp => by
      obtain ⟨salt, hsalt, hlen⟩ := sha2_parse_salt _ _ hs p (toRes_ok _ p hp)
      exact ⟨_, by
        show rawSha256 Spec.SHA256.sha256 b (p.salt.getD []) (p.rounds.getD 0).toNat = _
        rw [hsalt]; exact Props.C02.sha256_crypt_eq_spec b salt _ (by omega)⟩) s hs

theorem sha512_crypt_verify_total (s : Secret) (hs : Str) : Documented (verify sha512Hasher s hs) :=
  verify_total_of _ (fun hs e h => toRes_error _ e h)
    (fun hs p b hp => by
      obtain ⟨salt, hsalt, hlen⟩ := sha2_parse_salt _ _ hs p (toRes_ok _ p hp)
      exact ⟨_, by
        show rawSha512 Spec.SHA512.sha512 b (p.salt.getD []) (p.rounds.getD 0).toNat = _
        rw [hsalt]; exact Props.C02.sha512_crypt_eq_spec b salt _ (by omega)⟩) s hs

theorem sha256_crypt_config_string_is_value_error (s : Secret) (hs : Str) (p : Parsed) (hl : s.len ≤ MAX_PASSWORD_SIZE)
    (hp : sha256Hasher.parse hs = .ok p) (hc : p.checksum = none) : verify sha256Hasher s hs = .error .valueError :=
  Props.C08.config_string_is_value_error _ s hs p (by unfold validateSecret; simp; omega) hp hc

theorem sha512_crypt_config_string_is_value_error (s : Secret) (hs : Str) (p : Parsed) (hl : s.len ≤ MAX_PASSWORD_SIZE)
    (hp : sha512Hasher.parse hs = .ok p) (hc : p.checksum = none) : verify sha512Hasher s hs = .error .valueError :=
  Props.C08.config_string_is_value_error _ s hs p (by unfold validateSecret; simp; omega) hp hc

/-! ### the hypotheses are satisfiable: real hashes of /repo for "pw" and altered / configuration forms of them -/

/-- `md5_crypt.using(salt="abcdefgh").hash("pw")`, its last checksum character changed: both parse, to the same ident and salt, with
    different checksums (hypotheses `hp'`, `hne` of (a)); the salt is admissible -/
example : allIn h64 (ofString "abcdefgh") = true ∧ (ofString "abcdefgh").length ≤ 8 ∧
    (md5Hasher false).parse (ofString "$1$abcdefgh$IQtUouv7y7Q9dRWkQEPCc.") =
      .ok { ident := md5Ident false, salt := some (ofString "abcdefgh"), checksum := some (ofString "IQtUouv7y7Q9dRWkQEPCc.") } ∧
    (md5Hasher false).parse (ofString "$1$abcdefgh$IQtUouv7y7Q9dRWkQEPCc/") =
      .ok { ident := md5Ident false, salt := some (ofString "abcdefgh"), checksum := some (ofString "IQtUouv7y7Q9dRWkQEPCc/") } ∧
    (md5Hasher false).parse (ofString "$1$abcdefgh$IQtUouv7y7Q9dRWkQEPCc/") ≠ (md5Hasher false).parse (ofString "$1$abcdefgh$IQtUouv7y7Q9dRWkQEPCc.") := by
  refine ⟨by decide, by decide, by decide +kernel, by decide +kernel, by decide +kernel⟩

example : (md5Hasher true).parse (ofString "$apr1$abcdefgh$5VEbMkemELfbhC5ck.U.z1") =
      .ok { ident := md5Ident true, salt := some (ofString "abcdefgh"), checksum := some (ofString "5VEbMkemELfbhC5ck.U.z1") } := by decide +kernel

/-- `sha256_crypt.using(salt="salt", rounds=1000).hash("pw")` and `sha512_crypt.using(salt="salt", rounds=5000).hash("pw")` parse to
    `sha2Settings` + checksum -/
example : sha256Hasher.parse (ofString "$5$rounds=1000$salt$gdEupGonUIiJCMc1vfHpiFjFhRA3Jf3USQ7IYKjZitD") =
      .ok { sha2Settings (ofString "$5$") (ofString "salt") 1000 with checksum := some (ofString "gdEupGonUIiJCMc1vfHpiFjFhRA3Jf3USQ7IYKjZitD") } ∧
    sha512Hasher.parse (ofString "$6$salt$AkOOBO38SQQ8T8Q46KuCONe.8zg41nvCDKDq7pVQd2n2hy8sf8aR3G89VY.57up0eSIa/69odCCcLT4hx7FpW/") =
      .ok { sha2Settings (ofString "$6$") (ofString "salt") 5000 with
            checksum := some (ofString "AkOOBO38SQQ8T8Q46KuCONe.8zg41nvCDKDq7pVQd2n2hy8sf8aR3G89VY.57up0eSIa/69odCCcLT4hx7FpW/") } := by
  refine ⟨by decide +kernel, by decide +kernel⟩

/-- configuration strings: they parse, without checksum, and `verify` answers the value error (hypotheses and conclusion of (c), computed) -/
example : ((md5Hasher false).parse (ofString "$1$abcdefgh")).map (·.checksum) = .ok none ∧
    verify (md5Hasher false) (.text [112, 119]) (ofString "$1$abcdefgh") = .error .valueError ∧
    (sha256Hasher.parse (ofString "$5$rounds=1000$salt")).map (·.checksum) = .ok none ∧
    verify sha256Hasher (.text [112, 119]) (ofString "$5$rounds=1000$salt") = .error .valueError ∧
    verify sha512Hasher (.bytes [112, 119]) (ofString "$6$salt") = .error .valueError := by
  refine ⟨by decide +kernel, by decide +kernel, by decide +kernel, by decide +kernel, by decide +kernel⟩

/-- (b) is about every error kind the enum has: e.g. an index / type / assertion error is excluded -/
example (apr : Bool) (s : Secret) (hs : Str) : verify (md5Hasher apr) s hs ≠ .error .indexError ∧ verify (md5Hasher apr) s hs ≠ .error .typeError ∧
    verify (md5Hasher apr) s hs ≠ .error .assertionError := by
  have h := md5_crypt_verify_total apr s hs
  refine ⟨?_, ?_, ?_⟩ <;> (intro e; rw [e] at h; rcases h with ⟨v, hv⟩ | hv | hv | hv <;> cases hv)

end Props.C08Crypt
