import PasslibVerif.Lemmas.Scrypt
/-
C11 (scrypt) — passlib's pure-Python scrypt backend computes RFC 7914 scrypt.

Property statements only; proofs live in Lemmas/Scrypt.lean.

  Spec.Scrypt.*   literal transcription of RFC 7914 §3–§6 (octet strings), PBKDF2-HMAC-SHA256 =
                  Spec.Pbkdf.pbkdf2 Spec.SHA256.sha256 64 32
  Gen.Scrypt.*    regenerated from /repo on every run: the straight-line body of `_salsa.salsa20`,
                  the sizes / struct format / integerify variants of `ScryptEngine.__init__`,
                  the raise-conditions of `validate`, MAX_RP, MAX_KEYLEN
  Model.Scrypt.*  `ScryptEngine.run / smix / bmix / _bmix_1`, `validate` (source text pinned by the extractor)

Hypotheses that appear below and why:
  * `input.length = 16`, `source.length = 32*r`, `input.length = 128*r`: the internal methods do no
    validation; with other lengths Python raises (unpack / struct.error), which is not modelled.
  * `W32 source`: `struct.pack("<I")` raises on items ≥ 2^32; all words the engine produces are < 2^32.
  * `e ≤ 32` (n ≤ 2^32): for larger n the engine is *wrong* (see `integerify_large_differs`).
-/
namespace Props.C11Scrypt
open Py Gen.Scrypt Spec.Scrypt Model.Scrypt Lemmas.Scrypt

/-! ### (a) the generated Salsa20/8 core -/

/-- the masked-shift expression of the generated code is the RFC's `R(a,b)`, for every `t` -/
theorem rot_gen (t k : Nat) (hk : k ≤ 32) :
    ((t &&& (2 ^ (32 - k) - 1)) <<< k) ||| (t >>> (32 - k)) = R t k := Lemmas.Scrypt.rot_gen t k hk

/-- `R` is left rotation of 32-bit words -/
theorem R_is_rotation (t k i : Nat) (ht : t < 2 ^ 32) (hk : 0 < k) (hk' : k < 32) (hi : i < 32) :
    (R t k).testBit i = t.testBit ((i + 32 - k) % 32) ∧ R t k < 2 ^ 32 :=
  ⟨R_testBit t k i ht hk hk' hi, R_lt t k ht hk (by omega)⟩

/-- one pass of the generated loop body (64 statements) = one RFC double round (32 statements) -/
theorem loop_body_eq_doubleRound (x : List Nat) (h : x.length = 16) :
    salsa20_loop_body x = doubleRound x := loop_body_eq' x h

theorem salsa_translated_eq_spec (input : List Nat) (h : input.length = 16) :
    Gen.Scrypt.salsa20 input = Spec.Scrypt.salsa20_8 input := Lemmas.Scrypt.salsa_translated_eq_spec input h

theorem salsa_loop_count : salsa20_loop_count = 4 := rfl

/-! ### (b) `bmix` (general method and the r = 1 fast path) = scryptBlockMix -/

theorem bmix_eq_blockmix (r : Nat) (source target : List Nat) (hr : 1 ≤ r)
    (hs : source.length = 32 * r) (ht : target.length = 32 * r) (hw : W32 source) :
    packU32le (bmix r source target) = blockMix r (packU32le source) :=
  Lemmas.Scrypt.bmix_eq_blockmix r source target hr hs ht hw

/-- the general method alone (fast path removed), any r ≥ 1 -/
theorem bmixGeneral_eq_blockmix (r : Nat) (source target : List Nat) (hr : 1 ≤ r)
    (hs : source.length = 32 * r) (ht : target.length = 32 * r) (hw : W32 source) :
    packU32le (bmixGeneral r source target) = blockMix r (packU32le source) := by
  rw [packU32le_eq, packU32le_eq, blockMix_bytes r source hw, bmixGeneral_eq r source target hr hs ht]

/-- the fast path is the general method at r = 1 -/
theorem bmix1_eq_bmixGeneral (source target : List Nat) (hs : source.length = 32) (ht : target.length = 32) :
    bmix1 source target = bmixGeneral 1 source target := (bmixGeneral_one source target hs ht).symm

/-- the previous contents of `target` never matter -/
theorem bmix_ignores_target (r : Nat) (source t1 t2 : List Nat) (hr : 1 ≤ r)
    (hs : source.length = 32 * r) (h1 : t1.length = 32 * r) (h2 : t2.length = 32 * r) :
    bmix r source t1 = bmix r source t2 := by
  rw [bmix_eq_blockMixW r source t1 hr hs h1, bmix_eq_blockMixW r source t2 hr hs h2]

/-- struct pack / unpack are the little-endian word codecs of the spec -/
theorem pack_unpack (bs : List Nat) (h : Bytes.WF bs) :
    unpackU32le bs = wordsOfBytes bs ∧ ∀ ws, packU32le ws = bytesOfWords ws :=
  ⟨unpackU32le_eq bs h, packU32le_eq⟩

theorem engine_sizes (r p : Nat) :
    smix_bytes r = 128 * r ∧ iv_bytes r p = 128 * r * p ∧ bmix_len r = 32 * r ∧ bmix_half_len r = 16 * r ∧
    struct_items r * struct_item_bytes = smix_bytes r ∧ struct_little_endian = true :=
  Lemmas.Scrypt.engine_sizes r p

/-! ### (c) `smix` = scryptROMix, `run` = scrypt -/

theorem smix_eq_romix (r e : Nat) (input : List Nat) (hr : 1 ≤ r) (he : e ≤ 32)
    (hwf : Bytes.WF input) (hlen : input.length = 128 * r) :
    smix (2 ^ e) r input = roMix r (2 ^ e) input := Lemmas.Scrypt.smix_eq_romix r e input hr he hwf hlen

/-- both installed `integerify` variants give `Integerify(X) mod n` while n ≤ 2^32 -/
theorem index_eq (r e : Nat) (X : List Nat) (hr : 1 ≤ r) (he : e ≤ 32) (hX : W32 X ∧ X.length = 32 * r) :
    smix_index (2 ^ e) (Model.Scrypt.integerify (2 ^ e) X) = Spec.Scrypt.integerify r (packU32le X) % 2 ^ e := by
  rw [packU32le_eq]; exact Lemmas.Scrypt.index_eq r e X hr he hX

theorem run_eq_rfc7914 (e r p : Nat) (secret salt : List Nat) (keylen : Nat)
    (he : e ≤ 32) (hr : 1 ≤ r) (hp : 1 ≤ p) :
    run (2 ^ e) r p secret salt keylen = scrypt secret salt (2 ^ e) r p keylen :=
  Lemmas.Scrypt.run_eq_rfc7914 e r p secret salt keylen he hr hp

/-- as used by the `scrypt()` front end: whatever `validate` lets through (n ≤ 2^32) -/
theorem run_eq_rfc7914_of_validate (n r p : Nat) (secret salt : List Nat) (keylen : Nat)
    (hv : validate n r p = .ok ()) (hn : n ≤ 2 ^ 32) :
    run n r p secret salt keylen = scrypt secret salt n r p keylen :=
  Lemmas.Scrypt.run_eq_rfc7914_of_validate n r p secret salt keylen hv hn

/-- PBKDF2-HMAC-SHA256 (c = 1) yields exactly the requested number of octets (used for `B`) -/
theorem pbkdf2_length (P S : List Nat) (dkLen : Nat) :
    (Spec.Scrypt.pbkdf2_hmac_sha256 P S 1 dkLen).length = dkLen ∧
    Bytes.WF (Spec.Scrypt.pbkdf2_hmac_sha256 P S 1 dkLen) := pbkdf2_props P S dkLen

/-! ### (d) `validate` -/

theorem validate_spec (n r p : Int) :
    validate n r p = .ok () ↔
      (1 ≤ r ∧ 1 ≤ p ∧ r * p ≤ 2 ^ 30 - 1 ∧ ∃ k : Nat, 1 ≤ k ∧ n = 2 ^ k) := Lemmas.Scrypt.validate_spec n r p

theorem validate_limits : MAX_RP = 2 ^ 30 - 1 ∧ MAX_KEYLEN = (2 ^ 32 - 1) * 32 := by decide

/-- `n & (n - 1) == 0` ⇔ power of two -/
theorem and_pred_eq_zero_iff (m : Nat) (hm : 1 ≤ m) : m &&& (m - 1) = 0 ↔ ∃ k, m = 2 ^ k :=
  Lemmas.Scrypt.and_pred_eq_zero_iff m hm

/-- the `r * p` limit is the RFC's limit on p -/
theorem rp_bound_eq_rfc (r p : Nat) (hr : 1 ≤ r) :
    r * p ≤ MAX_RP ↔ p ≤ ((2 ^ 32 - 1) * 32) / (128 * r) := Lemmas.Scrypt.rp_bound_eq_rfc r p hr

/-- `validate` = the RFC 7914 parameter domain, minus the (unchecked) `N < 2^(128·r/8)` -/
theorem validate_ok_iff_paramsOK (n r p : Nat) :
    (validate n r p = .ok () ∧ n < 2 ^ (128 * r / 8)) ↔ ParamsOK n r p :=
  Lemmas.Scrypt.validate_ok_iff_paramsOK n r p

/-! ### findings -/

/-- FINDING 1 (latent bug, unreachable in practice: needs n > 2^32, i.e. > 512 GiB of `V`):
    for n > 2^32 `ScryptEngine.__init__` builds `integerify` from `itemgetter(-16)` and
    `itemgetter(-17)`; RFC 7914 needs the words at -16 and -15 … -/
theorem integerify_rfc_words (r : Nat) (X : List Nat) (hr : 1 ≤ r) (hX : W32 X ∧ X.length = 32 * r) :
    Spec.Scrypt.integerify r (packU32le X) % 2 ^ 64 = itemBack 16 X + 2 ^ 32 * itemBack 15 X := by
  rw [packU32le_eq]; exact integerify_words r X hr hX

theorem integerify_large_uses_17 : integerify_large_back1 = 16 ∧ integerify_large_back2 = 17 := ⟨rfl, rfl⟩

/-- … and the index differs: r = 1, n = 2^33, X[-17] = 1, all other words 0 -/
theorem integerify_large_differs :
    let X := List.replicate 15 0 ++ [1] ++ List.replicate 16 0
    (W32 X ∧ X.length = 32 * 1) ∧ smix_index (2 ^ 33) (Model.Scrypt.integerify (2 ^ 33) X) = 2 ^ 32 ∧
    Spec.Scrypt.integerify 1 (bytesOfWords X) % 2 ^ 33 = 0 := Lemmas.Scrypt.integerify_large_differs

/-- FINDING 2 (minor): the documented limit `n < 2**(16*r)` is not enforced -/
theorem validate_accepts_outside_rfc : validate 65536 1 1 = .ok () ∧ ¬ ParamsOK 65536 1 1 :=
  Lemmas.Scrypt.validate_accepts_outside_rfc

end Props.C11Scrypt
