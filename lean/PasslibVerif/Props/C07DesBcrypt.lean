import PasslibVerif.Lemmas.FormatsDesBcrypt
/-
C07 (DES / bcrypt family) — hash strings parse and re-render without loss.
Formats: des_crypt, bsdi_crypt, bigcrypt, crypt16, django_des_crypt, bcrypt, bcrypt_sha256 (v1 and v2), django_bcrypt,
django_bcrypt_sha256, sun_md5_crypt, phpass  (Model/Formats/DesBcrypt.lean, tied to the code by `./check C07`).

  R1  parse(render x) = x                      for well-formed settings x (the `…WF` predicates; they cover what the hashers emit)
  R2  parse s = x → parse(render x) = x        (bcrypt: the padding-bit repaired string is the canonical form)
  WF  parse s = x → x well formed              (bcrypt)
  ID  parse s = x → identify s                 (with R1: identify(render x))

The well-formedness predicates spell out two findings about the code: a sun_md5_crypt *bare* salt must not be empty
(`$md5$$<chk>` reads back as an empty non-bare salt), and the `to_string` methods that print a missing checksum as the
text "None" only round-trip when a checksum is present (every WF predicate below asks for one, phpass excepted).
-/
namespace Props.C07DesBcrypt
open Py Model.Handler Model.Formats Lemmas.Formats Lemmas.Handler

/-! ### des_crypt / bigcrypt / crypt16 : `<salt:2><checksum>` -/
theorem des_crypt_parse_render (p : Parsed) (h : SaltChkWF 2 (· = 11) p) : des_crypt.parse (des_crypt.render p) = some p :=
  Lemmas.Formats.des_crypt_parse_render p h
theorem des_crypt_identify_render (p : Parsed) (h : SaltChkWF 2 (· = 11) p) : des_crypt.identify (des_crypt.render p) = true :=
  Lemmas.Formats.des_crypt_identify_render p h
theorem des_crypt_parse_wf (s : Str) (p : Parsed) (h : des_crypt.parse s = some p) :
    p.ident = [] ∧ p.rounds = none ∧ p.extra = [] ∧ (∃ t, p.salt = some t ∧ allIn h64 t = true ∧ t.length = 2) ∧
    (p.checksum = none ∨ ∃ c, p.checksum = some c ∧ allIn h64 c = true ∧ c.length = 11) :=
  Lemmas.Formats.des_crypt_parse_wf s p h
theorem des_crypt_render_parse_stable (s : Str) (p : Parsed) (h : des_crypt.parse s = some p) (hc : p.checksum ≠ none) :
    des_crypt.parse (des_crypt.render p) = some p := Lemmas.Formats.des_crypt_render_parse_stable s p h hc
theorem crypt16_parse_render (p : Parsed) (h : SaltChkWF 2 (· = 22) p) : crypt16.parse (crypt16.render p) = some p :=
  Lemmas.Formats.crypt16_parse_render p h
theorem crypt16_identify_of_parse (s : Str) (p : Parsed) (h : crypt16.parse s = some p) : crypt16.identify s = true :=
  Lemmas.Formats.crypt16_identify_of_parse s p h
/-- bigcrypt: any positive multiple of 11 checksum characters -/
theorem bigcrypt_parse_render (p : Parsed) (h : SaltChkWF 2 (fun n => 0 < n ∧ n % 11 = 0) p) :
    bigcrypt.parse (bigcrypt.render p) = some p := Lemmas.Formats.bigcrypt_parse_render p h
theorem bigcrypt_identify_of_parse (s : Str) (p : Parsed) (h : bigcrypt.parse s = some p) : bigcrypt.identify s = true :=
  Lemmas.Formats.bigcrypt_identify_of_parse s p h

/-! ### bsdi_crypt : `_<rounds:4 h64 int24><salt:4><checksum:11>` -/
/-- the 24-bit hash64 integer field: `decode_int24(encode_int24 n) = n`, four hash64 characters -/
theorem h64_int24_roundtrip (n : Nat) (hn : n ≤ 16777215) :
    ∃ e, Model.B64.encodeInt24 Model.B64.h64 n = .ok e ∧ e.length = 4 ∧ allIn h64 e = true ∧
      Model.B64.decodeInt24 Model.B64.h64 e = .ok n := Lemmas.Formats.int24_roundtrip n hn
theorem bsdi_parse_render (p : Parsed) (h : BsdiWF p) : bsdi_crypt.parse (bsdi_crypt.render p) = some p :=
  Lemmas.Formats.bsdi_parse_render p h
theorem bsdi_identify_of_parse (s : Str) (p : Parsed) (h : bsdi_crypt.parse s = some p) : bsdi_crypt.identify s = true :=
  Lemmas.Formats.bsdi_identify_of_parse s p h

/-! ### django_des_crypt : `crypt$<salt>$<salt[:2]><checksum:11>` -/
theorem django_des_parse_render (p : Parsed) (h : DjangoDesWF p) : django_des_crypt.parse (django_des_crypt.render p) = some p :=
  Lemmas.Formats.django_des_parse_render p h
theorem django_des_identify_of_parse (s : Str) (p : Parsed) (h : django_des_crypt.parse s = some p) :
    django_des_crypt.identify s = true := Lemmas.Formats.django_des_identify_of_parse s p h

/-! ### bcrypt : `$2?$<rounds:%02d>$<salt:22><checksum:31>`, padding bits of both fields repaired -/
/-- the repair succeeds on well-shaped bcrypt64 text, touches only the last character, and is idempotent -/
theorem bcRepair_spec (s : Str) (hs : allIn bc64 s = true) (ht : s.length % 4 = 2 ∨ s.length % 4 = 3) :
    ∃ r, bcRepair s = some r ∧ allIn bc64 r = true ∧ r.length = s.length ∧ r.dropLast = s.dropLast ∧ bcRepair r = some r :=
  Lemmas.Formats.bcRepair_spec s hs ht
/-- `final_salt_chars`: a 22-character salt ending in one of ".Oeu" is canonical -/
theorem bcCanon_salt_of_final (s : Str) (hs : allIn bc64 s = true) (hl : s.length = 22)
    (hlast : ∃ c ∈ ofString ".Oeu", s.getLast? = some c) : BcCanon 22 s := Lemmas.Formats.bcCanon_salt_of_final s hs hl hlast
theorem bcrypt_parse_render (p : Parsed) (h : BcryptWF p) : bcrypt.parse (bcrypt.render p) = some p :=
  Lemmas.Formats.bcrypt_parse_render p h
theorem bcrypt_parse_wf (s : Str) (p : Parsed) (h : bcrypt.parse s = some p) :
    p.ident ∈ bcryptOkIdents ∧ BcryptFieldsWF p.ident [] p := Lemmas.Formats.bcrypt_parse_wf s p h
theorem bcrypt_render_parse_stable (s : Str) (p : Parsed) (h : bcrypt.parse s = some p) (hc : p.checksum ≠ none) :
    bcrypt.parse (bcrypt.render p) = some p := Lemmas.Formats.bcrypt_render_parse_stable s p h hc
theorem bcrypt_identify_of_parse (s : Str) (p : Parsed) (h : bcrypt.parse s = some p) : bcrypt.identify s = true :=
  Lemmas.Formats.bcrypt_identify_of_parse s p h

/-! ### django_bcrypt / django_bcrypt_sha256 : prefix + bcrypt string -/
theorem django_bcrypt_parse_render (p : Parsed) (h : BcryptWF p) : django_bcrypt.parse (django_bcrypt.render p) = some p :=
  Lemmas.Formats.django_bcrypt_parse_render p h
theorem django_bcrypt_identify_of_parse (s : Str) (p : Parsed) (h : django_bcrypt.parse s = some p) :
    django_bcrypt.identify s = true := Lemmas.Formats.django_bcrypt_identify_of_parse s p h
theorem django_bcrypt_sha256_parse_render (p : Parsed) (h : BcryptWF p) :
    django_bcrypt_sha256.parse (django_bcrypt_sha256.render p) = some p :=
  Lemmas.Formats.django_bcrypt_sha256_parse_render p h
theorem django_bcrypt_sha256_identify_of_parse (s : Str) (p : Parsed) (h : django_bcrypt_sha256.parse s = some p) :
    django_bcrypt_sha256.identify s = true := Lemmas.Formats.django_bcrypt_sha256_identify_of_parse s p h

/-! ### bcrypt_sha256 : `$bcrypt-sha256$2a,12$salt$digest` (v1) and `$bcrypt-sha256$v=2,t=2b,r=12$salt$digest` (v2) -/
theorem bcrypt_sha256_parse_render (p : Parsed) (h : BcryptSha256WF p) : bcrypt_sha256.parse (bcrypt_sha256.render p) = some p :=
  Lemmas.Formats.bcrypt_sha256_parse_render p h
theorem bcrypt_sha256_identify_of_parse (s : Str) (p : Parsed) (h : bcrypt_sha256.parse s = some p) :
    bcrypt_sha256.identify s = true := Lemmas.Formats.bcrypt_sha256_identify_of_parse s p h

/-! ### sun_md5_crypt : `$md5$salt$$chk`, `$md5,rounds=N$salt$$chk`, and the bare-salt forms with a single `$` -/
theorem sun_parse_render (p : Parsed) (h : SunWF p) : sun_md5_crypt.parse (sun_md5_crypt.render p) = some p :=
  Lemmas.Formats.sun_parse_render p h
theorem sun_identify_of_parse (s : Str) (p : Parsed) (h : sun_md5_crypt.parse s = some p) : sun_md5_crypt.identify s = true :=
  Lemmas.Formats.sun_identify_of_parse s p h

/-! ### phpass : `$P$<rounds:1 h64 int6><salt:8><checksum>` (also config strings) -/
theorem phpass_parse_render (p : Parsed) (h : PhpassWF p) : phpass.parse (phpass.render p) = some p :=
  Lemmas.Formats.phpass_parse_render p h
theorem phpass_identify_of_parse (s : Str) (p : Parsed) (h : phpass.parse s = some p) : phpass.identify s = true :=
  Lemmas.Formats.phpass_identify_of_parse s p h

/-! ### non-vacuity: concrete hashes parse (test vectors of the passlib suite / generated by the hashers) -/
example : des_crypt.parse (ofString "abgOeLfPimXQo") =
    some { salt := some (ofString "ab"), checksum := some (ofString "gOeLfPimXQo") } := by decide
example : (bsdi_crypt.parse (ofString "_/...lLDAxARksGCHin.")).map (·.rounds) = some (some 1) := by decide
example : (bigcrypt.parse (ofString "qiyh4XPJGsOZ2MEAyLkfWqeQ")).map (·.salt) = some (some (ofString "qi")) := by decide
example : (crypt16.parse (ofString "aaX/UmCcBrceQ0kQGGWKTbuE")).map (·.salt) = some (some (ofString "aa")) := by decide
example : (django_des_crypt.parse (ofString "crypt$c2$c2M87q...WWcU")).map (·.checksum) = some (some (ofString "M87q...WWcU")) := by decide
example : (bcrypt.parse (ofString "$2a$04$5BJqKfqMQvV7nS.yUguNcueVirQqDBGaLXSqj.rs.pZPlNR0UX/HK")).map (·.rounds) = some (some 4) := by
  decide +kernel
/-- a salt with padding bits set (last character "f") is repaired to the canonical "e" -/
example : (bcrypt.parse (ofString "$2a$04$5BJqKfqMQvV7nS.yUguNcfeVirQqDBGaLXSqj.rs.pZPlNR0UX/HK")).map (·.salt) =
    some (some (ofString "5BJqKfqMQvV7nS.yUguNce")) := by decide +kernel
example : (bcrypt_sha256.parse (ofString "$bcrypt-sha256$v=2,t=2b,r=5$5Hg1DKFqPE8C2aflZ5vVoe$wOK1VFFtS8IGTrGa7.h5fs0u84qyPbS")).map (·.extra) =
    some (versionExtra 2) := by decide +kernel
example : (bcrypt_sha256.parse (ofString "$bcrypt-sha256$2a,5$5Hg1DKFqPE8C2aflZ5vVoe$12BjNE0p7axMg55.Y/mHsYiVuFBDQyu")).map (·.ident) =
    some IDENT_2A := by decide +kernel
example : (django_bcrypt.parse (ofString "bcrypt$$2a$04$5BJqKfqMQvV7nS.yUguNcueVirQqDBGaLXSqj.rs.pZPlNR0UX/HK")).map (·.ident) =
    some IDENT_2A := by decide +kernel
example : (django_bcrypt_sha256.parse (ofString "bcrypt_sha256$$2a$06$/3OeRpbOf8/l6nPPRdZPp.nRiyYqPobEZGdNRBWihQhiFDh1ws1tu")).map (·.rounds) =
    some (some 6) := by decide +kernel
example : (sun_md5_crypt.parse (ofString "$md5,rounds=5000$GUBv0xjJ$$mSwgIswdjlTY0YxV7HBVm0")).map (fun p => (p.rounds, p.extra)) =
    some (some 5000, bareFlag false) := by decide +kernel
example : (sun_md5_crypt.parse (ofString "$md5$RPgLF6IJ$WTvAlUJ7MqH5xak2FMEwS/")).map (fun p => (p.rounds, p.extra)) =
    some (some 0, bareFlag true) := by decide +kernel
example : (phpass.parse (ofString "$P$9IQRaTwmfeRo7ud9Fh4E2PdI0S3r.L0")).map (·.rounds) = some (some 11) := by decide
/-- the well-formedness predicates are inhabited -/
example : BcryptWF ⟨IDENT_2B, some 12, some (ofString "5BJqKfqMQvV7nS.yUguNce"), some (ofString "eVirQqDBGaLXSqj.rs.pZPlNR0UX/HK"), []⟩ :=
  ⟨by decide, rfl, ⟨12, rfl, by omega, by omega⟩, ⟨_, rfl, by decide, by decide, by decide⟩, ⟨_, rfl, by decide, by decide, by decide⟩⟩

end Props.C07DesBcrypt
