import PasslibVerif.Model.LazyTables
import PasslibVerif.Gen.LazyTables
/-
C19 — lazily built tables (DES, Blowfish) used from several threads.  For ANY number of threads and ANY schedule: when the guard tests
the table that the loader assigns LAST, no thread ever reads an unset table, and a thread that runs to the end finishes normally.
A guard on an earlier table is unsafe (witness schedules for the protocols as they were before fix d066947 / fix 244acdd).
The assignment order and the guard are read from the source on every run (`Gen.LazyTables`).
-/
namespace Props.C19Tables
open Model.LazyTables

/-- the inductive invariant for a guard on the last table -/
def Inv (c : Cfg) (s : St) : Prop :=
  s.m ≤ c.k ∧ ∀ t, match s.pc t with
    | .loading i => i ≤ s.m ∧ i ≤ c.k
    | .reading _ => s.m = c.k
    | .failed => False
    | _ => True

theorem inv_init (c : Cfg) : Inv c init := ⟨Nat.zero_le _, fun _ => trivial⟩

theorem inv_step (c : Cfg) (hg : c.guard + 1 = c.k) (s : St) (t : Nat) (h : Inv c s) : Inv c (step c s t) := by
  obtain ⟨hm, hpc⟩ := h
  have ht := hpc t
  unfold step
  cases hp : s.pc t with
  | start =>
    simp only [hp]
    by_cases hgd : c.guard < s.m
    · simp only [hgd, if_true]
      refine ⟨hm, fun u => ?_⟩
      by_cases e : u = t
      · subst e; simp only [setPc, if_true]; omega
      · have := hpc u; simp only [setPc, e, if_false]; exact this
    · simp only [hgd, if_false]
      refine ⟨hm, fun u => ?_⟩
      by_cases e : u = t
      · subst e; simp only [setPc, if_true]; exact ⟨Nat.zero_le _, Nat.zero_le _⟩
      · have := hpc u; simp only [setPc, e, if_false]; exact this
  | loading i =>
    simp only [hp] at ht ⊢
    by_cases hi : i < c.k
    · simp only [hi, if_true]
      refine ⟨by simp only [setPc]; omega, fun u => ?_⟩
      by_cases e : u = t
      · subst e; simp only [setPc, if_true]; omega
      · have hu := hpc u
        simp only [setPc, e, if_false]
        cases hq : s.pc u with
        | start => trivial
        | loading i' => simp only [hq] at hu; simp only []; omega
        | reading j => simp only [hq] at hu; simp only []; omega
        | done => trivial
        | failed => simp only [hq] at hu
    · simp only [hi, if_false]
      refine ⟨hm, fun u => ?_⟩
      by_cases e : u = t
      · subst e; simp only [setPc, if_true]; omega
      · have := hpc u; simp only [setPc, e, if_false]; exact this
  | reading j =>
    simp only [hp] at ht ⊢
    by_cases hj : j < c.k
    · have hjm : j < s.m := by omega
      simp only [hj, hjm, if_true]
      refine ⟨hm, fun u => ?_⟩
      by_cases e : u = t
      · subst e; simp only [setPc, if_true]; exact ht
      · have := hpc u; simp only [setPc, e, if_false]; exact this
    · simp only [hj, if_false]
      refine ⟨hm, fun u => ?_⟩
      by_cases e : u = t
      · subst e; simp only [setPc, if_true]
      · have := hpc u; simp only [setPc, e, if_false]; exact this
  | done => simp only [hp]; exact ⟨hm, hpc⟩
  | failed => simp only [hp] at ht

theorem inv_run (c : Cfg) (hg : c.guard + 1 = c.k) (sched : List Nat) (s : St) (h : Inv c s) : Inv c (run c s sched) := by
  induction sched generalizing s with
  | nil => exact h
  | cons t rest ih => exact ih _ (inv_step c hg s t h)

/-- **safety**: with the guard on the last-assigned table, no thread — however many there are, however they are interleaved — ever
    reads a table that is still unset -/
theorem guard_on_last_is_safe (c : Cfg) (hg : c.guard + 1 = c.k) (sched : List Nat) (t : Nat) :
    (run c init sched).pc t ≠ .failed := by
  have h := (inv_run c hg sched init (inv_init c)).2 t
  intro e
  rw [e] at h
  exact h

/-- … and every table is set whenever some thread is past the guard -/
theorem past_guard_all_set (c : Cfg) (hg : c.guard + 1 = c.k) (sched : List Nat) (t j : Nat)
    (h : (run c init sched).pc t = .reading j) : (run c init sched).m = c.k := by
  have := (inv_run c hg sched init (inv_init c)).2 t
  rw [h] at this
  exact this

/-! ### the two protocols as they are in the source now -/

def desCfg : Cfg := ⟨Gen.LazyTables.desOrder.length, indexOf Gen.LazyTables.desOrder Gen.LazyTables.desGuard⟩
def blowfishCfg : Cfg := ⟨Gen.LazyTables.blowfishOrder.length, indexOf Gen.LazyTables.blowfishOrder Gen.LazyTables.blowfishGuard⟩

/-- the source tests the table it assigns last (DES) -/
theorem des_guard_is_last : desCfg.guard + 1 = desCfg.k := by decide
/-- the source tests the table it assigns last (Blowfish) -/
theorem blowfish_guard_is_last : blowfishCfg.guard + 1 = blowfishCfg.k := by decide
/-- everything the user function reads is one of the loader's tables (nothing is read that the loader does not build) -/
theorem reads_are_tables : (∀ n ∈ Gen.LazyTables.desReads, n ∈ Gen.LazyTables.desOrder) ∧
    (∀ n ∈ Gen.LazyTables.blowfishReads, n ∈ Gen.LazyTables.blowfishOrder) := by decide

theorem des_first_use_safe (sched : List Nat) (t : Nat) : (run desCfg init sched).pc t ≠ .failed :=
  guard_on_last_is_safe desCfg des_guard_is_last sched t
theorem blowfish_first_use_safe (sched : List Nat) (t : Nat) : (run blowfishCfg init sched).pc t ≠ .failed :=
  guard_on_last_is_safe blowfishCfg blowfish_guard_is_last sched t

/-! ### the protocols as they were: guard on the FIRST table — unsafe, with the schedules of the recorded (fixed) findings -/

/-- DES before fix d066947 (`if PCXROT is None`): thread 0 checks, assigns PCXROT; thread 1 passes the guard and reads IE3264 = None -/
theorem des_old_guard_unsafe : (run ⟨4, 0⟩ init [0, 0, 1, 1, 1]).pc 1 = .failed := by decide
/-- Blowfish before fix 244acdd (`if BLOWFISH_P is None`) -/
theorem blowfish_old_guard_unsafe : (run ⟨2, 0⟩ init [0, 0, 1, 1, 1]).pc 1 = .failed := by decide
/-- in general: a guard on any table but the last admits a failing two-thread schedule -/
theorem guard_not_last_unsafe_examples : ∀ k ∈ [2, 3, 4, 5], ∀ g < k - 1,
    (run ⟨k, g⟩ init (List.replicate (g + 2) 0 ++ List.replicate (g + 3) 1)).pc 1 = .failed := by decide

/-! non-vacuity: a run in which three threads interleave and all finish -/
example : ∀ t < 3, (run desCfg init ((List.range 36).map (· % 3))).pc t = .done := by decide

end Props.C19Tables
