import PasslibVerif.Lemmas.FormatsStaticInst
/-
C07 — hash strings parse and re-render without loss: the `Static` family (Model/Formats/Static.lean).

Per format:  R1  parse(render x) = x for well-formed x      WF  parse s = x → x well-formed
             R2  parse s = x → parse(render x) = x           ID  identify(render x)
plus the canonical-form facts of the case-normalising formats (the re-rendered digest is the lower- or upper-cased
input; an ASCII hash and its other-case form parse alike), loss-freeness `render(parse s) = s` of the formats that
do not normalise, and the generic PrefixWrapper laws.
`str.lower()` / `str.upper()` are the full Unicode maps reflected from the interpreter (Gen.PyCase); the theorems
about "the other case" are stated for ASCII input because they are FALSE beyond it (`"ﬀ".upper() == "FF"`).
-/
namespace Props.C07Static
open Py Model.Handler Model.Formats Lemmas.Formats Lemmas.Handler Lemmas.PyStr

/-! ### `str.lower()` / `str.upper()` -/
theorem lower_of_ascii (s : Str) (h : Ascii s) : pyLower s = s.map asciiLower := Lemmas.PyStr.pyLower_ascii s h
theorem upper_of_ascii (s : Str) (h : Ascii s) : pyUpper s = s.map asciiUpper := Lemmas.PyStr.pyUpper_ascii s h
theorem lower_has_no_capitals (s : Str) : NoUpper (pyLower s) := Lemmas.PyStr.pyLower_noUpper s
theorem upper_has_no_smalls (s : Str) : NoLower (pyUpper s) := Lemmas.PyStr.pyUpper_noLower s
theorem lower_upper (s : Str) (h : Ascii s) : pyLower (pyUpper s) = pyLower s := Lemmas.PyStr.pyLower_pyUpper s h
theorem upper_lower (s : Str) (h : Ascii s) : pyUpper (pyLower s) = pyUpper s := Lemmas.PyStr.pyUpper_pyLower s h

/-! ### StaticHandler, generically -/
theorem static_parse_render (norm : CaseNorm) (ident pfx : Str) (size : Option Nat) (chars : Option (List Nat)) (p : Parsed)
    (h : ChkOnly ident (fun c => normChecksum size chars c = some c ∧ norm.apply (pfx ++ c) = pfx ++ c) p) :
    staticParse norm ident pfx size chars (staticRender pfx p) = some p :=
  Lemmas.Formats.static_parse_render norm ident pfx size chars p h
theorem static_parse_wf (norm : CaseNorm) (ident pfx : Str) (size : Option Nat) (chars : Option (List Nat)) (s : Str) (p : Parsed)
    (h : staticParse norm ident pfx size chars s = some p) :
    ChkOnly ident (fun c => normChecksum size chars c = some c ∧ norm.apply s = pfx ++ c) p :=
  Lemmas.Formats.static_parse_wf norm ident pfx size chars s p h

/-! ### hex_md4, hex_md5, hex_sha1, hex_sha256, hex_sha512, nthash, lmhash, msdcc, msdcc2, mysql323 -/
theorem hexLower_parse_render (fn : Format × Nat) (h : fn ∈ hexLowerFormats) (p : Parsed) (hp : HexLowerWF fn.2 p) :
    fn.1.parse (fn.1.render p) = some p := hexLowerAll_parse_render fn h p hp
/-- canonical form: what parses is lower-case hex of the right length, and its rendering is the lower-cased input -/
theorem hexLower_parse_wf (fn : Format × Nat) (h : fn ∈ hexLowerFormats) (s : Str) (p : Parsed) (hp : fn.1.parse s = some p) :
    HexLowerWF fn.2 p ∧ fn.1.render p = pyLower s := hexLowerAll_parse_wf fn h s p hp
theorem hexLower_stable (fn : Format × Nat) (h : fn ∈ hexLowerFormats) (s : Str) (p : Parsed) (hp : fn.1.parse s = some p) :
    fn.1.parse (fn.1.render p) = some p := hexLowerAll_stable fn h s p hp
/-- case-insensitive -/
theorem hexLower_parse_upper (fn : Format × Nat) (h : fn ∈ hexLowerFormats) (s : Str) (ha : Ascii s) :
    fn.1.parse (pyUpper s) = fn.1.parse s := hexLowerAll_parse_upper fn h s ha
theorem hexLower_identify_render (fn : Format × Nat) (h : fn ∈ hexLowerFormats) (p : Parsed) (hp : HexLowerWF fn.2 p) :
    fn.1.identify (fn.1.render p) = true := hexLowerAll_identify_render fn h p hp

/-! ### mysql41, oracle10 (upper-cased) -/
theorem mysql41_parse_render (p : Parsed) (h : HexUpperWF 40 p) : mysql41.parse (mysql41.render p) = some p :=
  Lemmas.Formats.mysql41_parse_render p h
theorem mysql41_parse_wf (s : Str) (p : Parsed) (h : mysql41.parse s = some p) :
    HexUpperWF 40 p ∧ pyUpper s = 42 :: p.checksum.getD [] := Lemmas.Formats.mysql41_parse_wf s p h
theorem mysql41_parse_lower (s : Str) (ha : Ascii s) : mysql41.parse (pyLower s) = mysql41.parse s :=
  Lemmas.Formats.mysql41_parse_lower s ha
theorem oracle10_parse_render (p : Parsed) (h : HexUpperWF 16 p) : oracle10.parse (oracle10.render p) = some p :=
  Lemmas.Formats.oracle10_parse_render p h
theorem oracle10_parse_wf (s : Str) (p : Parsed) (h : oracle10.parse s = some p) :
    HexUpperWF 16 p ∧ pyUpper s = p.checksum.getD [] := Lemmas.Formats.oracle10_parse_wf s p h
theorem oracle10_parse_lower (s : Str) (ha : Ascii s) : oracle10.parse (pyLower s) = oracle10.parse s :=
  Lemmas.Formats.oracle10_parse_lower s ha

/-! ### postgres_md5, cisco_pix, cisco_asa, ldap_md5, ldap_sha1, django_disabled (no normalisation: loss-free) -/
theorem postgres_md5_parse_render (p : Parsed) (h : FixedChk [] 32 hexChars p) :
    postgres_md5.parse (postgres_md5.render p) = some p := Lemmas.Formats.postgres_md5_parse_render p h
theorem postgres_md5_parse_wf (s : Str) (p : Parsed) (h : postgres_md5.parse s = some p) :
    FixedChk [] 32 hexChars p ∧ postgres_md5.render p = s := Lemmas.Formats.postgres_md5_parse_wf s p h
theorem cisco_pix_parse_render (p : Parsed) (h : FixedChk [] 16 h64 p) : cisco_pix.parse (cisco_pix.render p) = some p :=
  Lemmas.Formats.cisco_pix_parse_render p h
theorem cisco_pix_parse_wf (s : Str) (p : Parsed) (h : cisco_pix.parse s = some p) :
    FixedChk [] 16 h64 p ∧ cisco_pix.render p = s := Lemmas.Formats.cisco_pix_parse_wf s p h
theorem cisco_asa_parse_render (p : Parsed) (h : FixedChk [] 16 h64 p) : cisco_asa.parse (cisco_asa.render p) = some p :=
  Lemmas.Formats.cisco_asa_parse_render p h
theorem cisco_asa_parse_wf (s : Str) (p : Parsed) (h : cisco_asa.parse s = some p) :
    FixedChk [] 16 h64 p ∧ cisco_asa.render p = s := Lemmas.Formats.cisco_asa_parse_wf s p h
theorem ldap_md5_parse_render (p : Parsed) (h : LdapB64WF (ofString "{MD5}") p) : ldap_md5.parse (ldap_md5.render p) = some p :=
  Lemmas.Formats.ldap_md5_parse_render p h
theorem ldap_md5_parse_wf (s : Str) (p : Parsed) (h : ldap_md5.parse s = some p) :
    LdapB64WF (ofString "{MD5}") p ∧ ldap_md5.render p = s := Lemmas.Formats.ldap_md5_parse_wf s p h
theorem ldap_sha1_parse_render (p : Parsed) (h : LdapB64WF (ofString "{SHA}") p) : ldap_sha1.parse (ldap_sha1.render p) = some p :=
  Lemmas.Formats.ldap_sha1_parse_render p h
theorem ldap_sha1_parse_wf (s : Str) (p : Parsed) (h : ldap_sha1.parse s = some p) :
    LdapB64WF (ofString "{SHA}") p ∧ ldap_sha1.render p = s := Lemmas.Formats.ldap_sha1_parse_wf s p h
theorem ldapB64_identify_render (name : String) (ident : Str) (hne : ident ≠ []) (p : Parsed) :
    (ldapB64Format name ident).identify ((ldapB64Format name ident).render p) = true :=
  Lemmas.Formats.ldapB64_identify_render name ident hne p
theorem django_disabled_parse_render (p : Parsed) (h : ChkOnly [] (fun _ => True) p) :
    django_disabled.parse (django_disabled.render p) = some p := Lemmas.Formats.django_disabled_parse_render p h
theorem django_disabled_parse_wf (s : Str) (p : Parsed) (h : django_disabled.parse s = some p) :
    ChkOnly [] (fun _ => True) p ∧ django_disabled.render p = s := Lemmas.Formats.django_disabled_parse_wf s p h

/-! ### oracle11 -/
theorem oracle11_parse_render (p : Parsed) (h : Oracle11WF p) : oracle11.parse (oracle11.render p) = some p :=
  Lemmas.Formats.oracle11_parse_render p h
theorem oracle11_parse_wf (s : Str) (p : Parsed) (h : oracle11.parse s = some p) : Oracle11WF p :=
  Lemmas.Formats.oracle11_parse_wf s p h
theorem oracle11_stable (s : Str) (p : Parsed) (h : oracle11.parse s = some p) : oracle11.parse (oracle11.render p) = some p :=
  Lemmas.Formats.oracle11_stable s p h
theorem oracle11_identify_render (p : Parsed) (h : Oracle11WF p) : oracle11.identify (oracle11.render p) = true :=
  Lemmas.Formats.oracle11_identify_render p h

/-! ### mssql2000, mssql2005 -/
theorem mssql2000_parse_render (p : Parsed) (h : MssqlWF 40 p) : mssql2000.parse (mssql2000.render p) = some p :=
  Lemmas.Formats.mssql2000_parse_render p h
theorem mssql2000_parse_wf (s : Str) (p : Parsed) (h : mssql2000.parse s = some p) : MssqlWF 40 p :=
  Lemmas.Formats.mssql2000_parse_wf s p h
theorem mssql2005_parse_render (p : Parsed) (h : MssqlWF 20 p) : mssql2005.parse (mssql2005.render p) = some p :=
  Lemmas.Formats.mssql2005_parse_render p h
theorem mssql2005_parse_wf (s : Str) (p : Parsed) (h : mssql2005.parse s = some p) : MssqlWF 20 p :=
  Lemmas.Formats.mssql2005_parse_wf s p h
theorem mssql_stable (csize n : Nat) (hsz : csize = 14 + 2 * n) (hn : n ≠ 0) (s : Str) (p : Parsed)
    (h : mssqlParse csize n s = some p) : mssqlParse csize n (mssqlRender p) = some p :=
  Lemmas.Formats.mssql_stable csize n hsz hn s p h
theorem mssql_identify_render (csize n : Nat) (hsz : csize = 14 + 2 * n) (p : Parsed) (h : MssqlWF n p) :
    mssqlIdentify csize (mssqlRender p) = true := Lemmas.Formats.mssql_identify_render csize n hsz p h
/-- hex codec used by mssql -/
theorem unhexlify_hexlify (bs : Bytes) (h : Bytes.WF bs) : unhexlify (hexlifyUpper bs) = some bs :=
  Lemmas.Formats.unhexlify_hexlifyUpper bs h

/-! ### ldap_salted_md5, ldap_salted_sha1, ldap_salted_sha256, ldap_salted_sha512 -/
theorem ldapSalted_parse_render (f : Format × Str × Nat) (h : f ∈ ldapSaltedFormats) (p : Parsed)
    (hp : LdapSaltedWF f.2.1 f.2.2 p) : f.1.parse (f.1.render p) = some p := ldapSaltedAll_parse_render f h p hp
theorem ldapSalted_parse_wf (f : Format × Str × Nat) (h : f ∈ ldapSaltedFormats) (s : Str) (p : Parsed)
    (hp : f.1.parse s = some p) : LdapSaltedWF f.2.1 f.2.2 p := ldapSaltedAll_parse_wf f h s p hp
/-- non-canonical encodings (missing / surplus padding, stray low bits in the last character) re-render canonically -/
theorem ldapSalted_stable (f : Format × Str × Nat) (h : f ∈ ldapSaltedFormats) (s : Str) (p : Parsed)
    (hp : f.1.parse s = some p) : f.1.parse (f.1.render p) = some p := ldapSaltedAll_stable f h s p hp
theorem ldapSalted_identify_render (f : Format × Str × Nat) (h : f ∈ ldapSaltedFormats) (p : Parsed)
    (hp : p.ident = f.2.1) : f.1.identify (f.1.render p) = true := ldapSaltedAll_identify_render f h p hp

/-! ### cisco_type7 -/
theorem cisco7_parse_render (p : Parsed) (h : Cisco7WF p) : cisco_type7.parse (cisco_type7.render p) = some p :=
  Lemmas.Formats.cisco7_parse_render p h
theorem cisco7_parse_wf (s : Str) (p : Parsed) (h : cisco_type7.parse s = some p) : Cisco7WF p :=
  Lemmas.Formats.cisco7_parse_wf s p h
theorem cisco7_stable (s : Str) (p : Parsed) (h : cisco_type7.parse s = some p) :
    cisco_type7.parse (cisco_type7.render p) = some p := Lemmas.Formats.cisco7_stable s p h

/-! ### plaintext, ldap_plaintext, htdigest, unix_disabled (validation only; always loss-free) -/
theorem whole_parse_render (ok : Str → Bool) (p : Parsed) (h : ChkOnly [] (fun c => ok c = true) p) :
    wholeParse ok (wholeRender p) = some p := Lemmas.Formats.whole_parse_render ok p h
theorem whole_parse_wf (ok : Str → Bool) (s : Str) (p : Parsed) (h : wholeParse ok s = some p) :
    ChkOnly [] (fun c => ok c = true) p ∧ wholeRender p = s := Lemmas.Formats.whole_parse_wf ok s p h
theorem plaintext_parse (s : Str) : plaintext.parse s = some { checksum := some s } ∧ plaintext.identify s = true :=
  Lemmas.Formats.plaintext_parse s
theorem ldap_plaintext_parse_iff (s : Str) (p : Parsed) :
    ldap_plaintext.parse s = some p ↔ (ldap_plaintext.identify s = true ∧ p = { checksum := some s }) :=
  Lemmas.Formats.ldap_plaintext_parse_iff s p
theorem htdigest_parse_iff (s : Str) (p : Parsed) :
    htdigest.parse s = some p ↔ ((s.length = 32 ∧ allIn lowerHex s = true) ∧ p = { checksum := some s }) :=
  Lemmas.Formats.htdigest_parse_iff s p
theorem unix_disabled_parse_iff (s : Str) (p : Parsed) :
    unix_disabled.parse s = some p ↔ ((s = [] ∨ ∃ c rest, s = c :: rest ∧ (c = 42 ∨ c = 33)) ∧ p = { checksum := some s }) :=
  Lemmas.Formats.unix_disabled_parse_iff s p

/-! ### PrefixWrapper -/
theorem unwrap_wrap (pfx orig u h : Str) (hw : wrapHash pfx orig u = some h) : unwrapHash pfx orig h = some u :=
  Lemmas.Formats.unwrap_wrap pfx orig u h hw
theorem wrap_unwrap (pfx orig h u : Str) (hu : unwrapHash pfx orig h = some u) : wrapHash pfx orig u = some h :=
  Lemmas.Formats.wrap_unwrap pfx orig h u hu
/-- a wrapped format round-trips if the inner one does -/
theorem wrap_parse_render (name : String) (pfx orig : Str) (inner : Format) (p : Parsed)
    (hin : inner.parse (inner.render p) = some p) (hpre : ∃ r, inner.render p = orig ++ r) :
    (wrapFormat name pfx orig inner).parse ((wrapFormat name pfx orig inner).render p) = some p :=
  Lemmas.Formats.wrap_parse_render name pfx orig inner p hin hpre
theorem wrap_parse_iff (name : String) (pfx orig : Str) (inner : Format) (h : Str) (p : Parsed) :
    (wrapFormat name pfx orig inner).parse h = some p ↔ ∃ r, h = pfx ++ r ∧ inner.parse (orig ++ r) = some p :=
  Lemmas.Formats.wrap_parse_iff name pfx orig inner h p
theorem wrap_stable (name : String) (pfx orig : Str) (inner : Format)
    (hin : ∀ s p, inner.parse s = some p → inner.parse (inner.render p) = some p)
    (hpre : ∀ s p, inner.parse s = some p → ∃ r, inner.render p = orig ++ r)
    (h : Str) (p : Parsed) (hp : (wrapFormat name pfx orig inner).parse h = some p) :
    (wrapFormat name pfx orig inner).parse ((wrapFormat name pfx orig inner).render p) = some p :=
  Lemmas.Formats.wrap_stable name pfx orig inner hin hpre h p hp
theorem wrap_identify_render (name : String) (pfx orig : Str) (inner : Format) (p : Parsed)
    (hid : inner.identify (inner.render p) = true) (hpre : ∃ r, inner.render p = orig ++ r) :
    (wrapFormat name pfx orig inner).identify ((wrapFormat name pfx orig inner).render p) = true :=
  Lemmas.Formats.wrap_identify_render name pfx orig inner p hid hpre

theorem bsd_nthash_parse_render (p : Parsed) (h : HexLowerWF 32 p) : bsd_nthash.parse (bsd_nthash.render p) = some p :=
  Lemmas.Formats.bsd_nthash_parse_render p h
theorem bsd_nthash_stable (s : Str) (p : Parsed) (h : bsd_nthash.parse s = some p) : bsd_nthash.parse (bsd_nthash.render p) = some p :=
  Lemmas.Formats.bsd_nthash_stable s p h
theorem ldap_hex_md5_parse_render (p : Parsed) (h : HexLowerWF 32 p) : ldap_hex_md5.parse (ldap_hex_md5.render p) = some p :=
  Lemmas.Formats.ldap_hex_md5_parse_render p h
theorem ldap_hex_md5_stable (s : Str) (p : Parsed) (h : ldap_hex_md5.parse s = some p) :
    ldap_hex_md5.parse (ldap_hex_md5.render p) = some p := Lemmas.Formats.ldap_hex_md5_stable s p h
theorem ldap_hex_sha1_parse_render (p : Parsed) (h : HexLowerWF 40 p) : ldap_hex_sha1.parse (ldap_hex_sha1.render p) = some p :=
  Lemmas.Formats.ldap_hex_sha1_parse_render p h
theorem ldap_hex_sha1_stable (s : Str) (p : Parsed) (h : ldap_hex_sha1.parse s = some p) :
    ldap_hex_sha1.parse (ldap_hex_sha1.render p) = some p := Lemmas.Formats.ldap_hex_sha1_stable s p h
theorem roundup_plaintext_parse_render (p : Parsed) (h : ChkOnly [] (fun _ => True) p) :
    roundup_plaintext.parse (roundup_plaintext.render p) = some p := Lemmas.Formats.roundup_plaintext_parse_render p h
theorem ldap_md5_crypt_parse_render (p : Parsed) (h : Md5WF (ofString "$1$") p) :
    ldap_md5_crypt.parse (ldap_md5_crypt.render p) = some p := Lemmas.Formats.ldap_md5_crypt_parse_render p h
theorem ldap_md5_crypt_stable (s : Str) (p : Parsed) (h : ldap_md5_crypt.parse s = some p) :
    ldap_md5_crypt.parse (ldap_md5_crypt.render p) = some p := Lemmas.Formats.ldap_md5_crypt_stable s p h
theorem ldap_md5_crypt_identify_render (p : Parsed) (h : p.ident = ofString "$1$") :
    ldap_md5_crypt.identify (ldap_md5_crypt.render p) = true := Lemmas.Formats.ldap_md5_crypt_identify_render p h
theorem ldap_sha256_crypt_parse_render (p : Parsed) (h : Sha2WF (ofString "$5$") 43 p) :
    ldap_sha256_crypt.parse (ldap_sha256_crypt.render p) = some p := Lemmas.Formats.ldap_sha256_crypt_parse_render p h
theorem ldap_sha512_crypt_parse_render (p : Parsed) (h : Sha2WF (ofString "$6$") 86 p) :
    ldap_sha512_crypt.parse (ldap_sha512_crypt.render p) = some p := Lemmas.Formats.ldap_sha512_crypt_parse_render p h

/-! ### non-vacuity: a concrete hash of every format parses (and the transcribed regexes are the ones in the source) -/
example : Gen.StaticFmt.oracle11Regex = "^S:(?P<chk>[0-9a-f]{40})(?P<salt>[0-9a-f]{20})$" ∧ Gen.StaticFmt.oracle11RegexIgnoreCase = true ∧
    Gen.StaticFmt.ldap_salted_md5_regex = "^\\{SMD5\\}(?P<tmp>[+/a-zA-Z0-9]{27,}={0,2})$" ∧
    Gen.StaticFmt.ldap_salted_sha1_regex = "^\\{SSHA\\}(?P<tmp>[+/a-zA-Z0-9]{32,}={0,2})$" ∧
    Gen.StaticFmt.ldap_salted_sha256_regex = "^\\{SSHA256\\}(?P<tmp>[+/a-zA-Z0-9]{48,}={0,2})$" ∧
    Gen.StaticFmt.ldap_salted_sha512_regex = "^\\{SSHA512\\}(?P<tmp>[+/a-zA-Z0-9]{91,}={0,2})$" ∧
    Gen.StaticFmt.ldapPlaintextRegex = "^\\{\\w+\\}.*$" := by decide

def okParse (f : Format) (s : String) : Bool := (f.parse (ofString s)).isSome && f.identify (ofString s)
def chkOf (f : Format) (s : String) : Option Str := (f.parse (ofString s)).bind (·.checksum)

example : okParse hex_md4 "A8D1F20D9CEEF04BBA334FDC553A65F6" = true := by decide +kernel
example : chkOf hex_md5 "8FE4C11451281C094A6578E6DDBF5EED" = some (ofString "8fe4c11451281c094a6578e6ddbf5eed") := by decide +kernel
example : okParse hex_sha1 "1a91d62f7ca67399625a4368a6ab5d4a3baa6073" = true := by decide +kernel
example : okParse hex_sha256 "30c952fab122c3f9759f02a6d95c3758b246b4fee239957b2d4fee46e26170c4" = true := by decide +kernel
example : okParse hex_sha512 "be196838736ddfd0007dd8b2e8f46f22d440d4c5959925cb49135abc9cdb01e84961aa43dd0ddb6ee59975eb649280d9f44088840af37451828a6412b9b574fc" = true := by decide +kernel
example : okParse nthash "8cc19b6a8cfeac299c2871c86b38de28" = true := by decide +kernel
example : okParse lmhash "297f0bb5924fca91aad3b435b51404ee" = true := by decide +kernel
example : okParse bsd_nthash "$3$$8cc19b6a8cfeac299c2871c86b38de28" = true := by decide +kernel
example : okParse msdcc "5bf0e5aae7bdd706a00c4798ce7a6c47" = true := by decide +kernel
example : okParse msdcc2 "68e787ae1b4526f758ade639188c6521" = true := by decide +kernel
example : okParse mysql323 "077fdc814925fa67" = true := by decide +kernel
example : chkOf mysql41 "*d821809f681a40a6e379b50d0463efae20bdd122" = some (ofString "D821809F681A40A6E379B50D0463EFAE20BDD122") := by decide +kernel
example : okParse oracle10 "40C1A637389C7F6B" = true := by decide +kernel
example : okParse oracle11 "S:2240855C2881BA1A5F202539E99F9F7B8BEF65D13DFA64636377CE197235" = true := by decide +kernel
example : okParse postgres_md5 "md5871c429757b7a0bf1654fad112b77bd4" = true := by decide +kernel
example : okParse mssql2000 "0x01000102030432F1A7FF6BE56CE182D19F7E1A05275E22845B30A8FE54AAE472CFFC679BB1F1CA152EEA24BCFCCB" = true := by decide +kernel
example : okParse mssql2005 "0x01006ED7A79E9F0672FEBB8D2BAAC805EF40FE34B24ECEE5BD84" = true := by decide +kernel
example : okParse ldap_md5 "{MD5}j+TBFFEoHAlKZXjm3b9e7Q==" = true := by decide +kernel
example : okParse ldap_sha1 "{SHA}GpHWL3ymc5liWkNopqtdSjuqYHM=" = true := by decide +kernel
example : okParse ldap_salted_md5 "{SMD5}63wPbEHLjY7AsIDYo8skRc+phO8=" = true := by decide +kernel
example : (ldap_salted_sha1.parse (ofString "{SSHA}BoW9z99bGk4LdMuYfMxdgV6hBEXc9dDc")).map (·.salt) = some (some [0xdc, 0xf5, 0xd0, 0xdc]) := by decide +kernel
example : okParse ldap_salted_sha256 "{SSHA256}c6Z5w7ok8njSP7PNtDyXLovaBXiHfXmhaX/tD7Gl3m86qeUiZPU/rQ==" = true := by decide +kernel
example : okParse ldap_salted_sha512 "{SSHA512}JnaN4qf/XuCDxVL77GW4TcO68aFdw6Lb+OM+VexJs9uXK7DsYu4EYsPStcR51CCL0MWv/t6SXi2/OqDba6hx6wECAwQF" = true := by decide +kernel
example : okParse ldap_plaintext "pw" = true ∧ okParse ldap_plaintext "{x}pw" = false := by decide +kernel
example : okParse plaintext "pw" = true := by decide
example : okParse roundup_plaintext "{plaintext}pw" = true := by decide +kernel
example : okParse ldap_hex_md5 "{MD5}8fe4c11451281c094a6578e6ddbf5eed" = true := by decide +kernel
example : okParse ldap_hex_sha1 "{SHA}1a91d62f7ca67399625a4368a6ab5d4a3baa6073" = true := by decide +kernel
example : okParse ldap_md5_crypt "{CRYPT}$1$PI36KWLn$FcaVk4CGx6akB5cJ.VSOG/" = true := by decide +kernel
example : okParse ldap_sha256_crypt "{CRYPT}$5$rounds=535000$dX8C5LM4xF3jkTnv$.R7UJrgrMc6UnxlYx3yD8c4m3ASADZAKjb4nF5ldwb3" = true := by decide +kernel
example : okParse ldap_sha512_crypt "{CRYPT}$6$abc$MtSdWSZbhct2oe.SOqOUM2M/GA/uj5.vyVtJgRHgKi9uqXuWuJqOYE7H/YlsYGVg/YYzDV0xt3fEIwYt580.5." = true := by decide +kernel
example : okParse cisco_pix "8KLjL71WlPe9WWcd" = true ∧ okParse cisco_asa "8KLjL71WlPe9WWcd" = true := by decide +kernel
example : (cisco_type7.parse (ofString "140705")).map (·.salt) = some (some [14]) := by decide +kernel
example : okParse htdigest "fa13f41f94e1fd29a1193553d0117491" = true := by decide +kernel
example : okParse unix_disabled "!" = true ∧ okParse unix_disabled "x" = false := by decide +kernel
example : okParse django_disabled "!CNT5VESku0XwcslLrtwFN3V8TTwD5dCeEgCeW3d1" = true := by decide +kernel

end Props.C07Static
