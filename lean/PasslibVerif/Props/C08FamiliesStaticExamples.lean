import PasslibVerif.Props.C08FamiliesStatic
/-
Non-vacuity of Props/C08FamiliesStatic.lean on real hashes of /tmp/repo_clean (hand-written: tools/dev/c08_families_parts/Static.examples.lean).
The behaviour of the real code on each string is quoted in the comments (run 2026-09-28).
-/
namespace Props.C08Families.Static
open Py Model.Handler Model.Formats Model.Verify Model.VerifyFmt.Static Props.C01 Props.C01Static Lemmas.Formats Lemmas.C08Families
  Lemmas.C08FamiliesStatic Lemmas.PyStr

/-- `hex_md5.hash("pw")` = "8fe4c11451281c094a6578e6ddbf5eed" (kernel-evaluated); last digit `d` → `0`: False (real code: False);
    the upper-case spelling: True, by the documented equivalence (real code: True); 31 digits: ValueError (real code: ValueError
    "checksum must be exactly 32 chars") -/
example : verify hex_md5Hasher (.text (ofString "pw")) (ofString "8fe4c11451281c094a6578e6ddbf5ee0") = .ok false :=
  hex_md5_altered_hash_rejected_on (.text (ofString "pw")) (ofString "8fe4c11451281c094a6578e6ddbf5eed") _
    (ofString "8fe4c11451281c094a6578e6ddbf5ee0") (by decide +kernel) (by decide +kernel) (by decide +kernel)
example (s : Secret) : verify hex_md5Hasher s (ofString "8FE4C11451281C094A6578E6DDBF5EED") =
    verify hex_md5Hasher s (ofString "8fe4c11451281c094a6578e6ddbf5eed") :=
  hex_md5_same_parse_same_answer s _ _ (by decide +kernel)
example : verify hex_md5Hasher (.text (ofString "pw")) (ofString "8FE4C11451281C094A6578E6DDBF5EED") = .ok true ∧
    verify hex_md5Hasher (.text (ofString "pw")) (ofString "8fe4c11451281c094a6578e6ddbf5ee") = .error .valueError := by
  refine ⟨by decide +kernel, by decide +kernel⟩

/-- ldap_hex_md5 (PrefixWrapper): altered (real code: False); without `{MD5}` (real code: ValueError "not a valid ldap_hex_md5 hash") -/
example : wrapVerify LDAP_MD5 hex_md5Hasher (.text (ofString "pw")) (ofString "{MD5}8fe4c11451281c094a6578e6ddbf5ee0") = .ok false ∧
    wrapVerify LDAP_MD5 hex_md5Hasher (.text (ofString "pw")) (ofString "{MD5}8fe4c11451281c094a6578e6ddbf5eed") = .ok true := by
  refine ⟨by decide +kernel, by decide +kernel⟩
example (s : Secret) : wrapVerify LDAP_MD5 hex_md5Hasher s (ofString "8fe4c11451281c094a6578e6ddbf5eed") = .error .valueError :=
  ldap_hex_md5_no_prefix_value_error s _ (by decide +kernel)

/-- postgres_md5 without a user: the TypeError of `Total [.typeError]` (real code: TypeError "user must be str or bytes, not None") -/
example : verify (postgres_md5Hasher none) (.text (ofString "pw")) (ofString "md58fe4c11451281c094a6578e6ddbf5eed") = .error .typeError := by
  decide +kernel

/-- mssql2000: `mssql2000.using(salt=b"\x01\x02\x03\x04").hash("pw")`; a digit of the FIRST half altered: still True (real code: True) —
    the counterexample to the generic `X_altered_checksum_rejected` for this class; a digit of the second half: False (real code: False) -/
theorem mssql2000_altered_checksum_rejected_counterexample :
    mssql2000Verify (.text (ofString "pw")) (ofString "0x01000102030432F1A7FF6BE56CE182D19F7E1A05275E22845B30A8FE54AAE472CFFC679BB1F1CA152EEA24BCFCCB") = .ok true ∧
    mssql2000Verify (.text (ofString "pw")) (ofString "0x01000102030402F1A7FF6BE56CE182D19F7E1A05275E22845B30A8FE54AAE472CFFC679BB1F1CA152EEA24BCFCCB") = .ok true ∧
    mssql2000Hasher.parse (ofString "0x01000102030402F1A7FF6BE56CE182D19F7E1A05275E22845B30A8FE54AAE472CFFC679BB1F1CA152EEA24BCFCCB") ≠
      mssql2000Hasher.parse (ofString "0x01000102030432F1A7FF6BE56CE182D19F7E1A05275E22845B30A8FE54AAE472CFFC679BB1F1CA152EEA24BCFCCB") ∧
    mssql2000Verify (.text (ofString "pw")) (ofString "0x01000102030432F1A7FF6BE56CE182D19F7E1A05275E22845B30A8FE54AAE472CFFC679BB1F1CA152EEA24BCFCC0") = .ok false := by
  refine ⟨by decide +kernel, by decide +kernel, by decide +kernel, by decide +kernel⟩

/-- htdigest: `htdigest.hash("pw", "u", "r")` = "16cf8470b801169c6eade4e217f239e9"; altered: False -/
example : htdigestVerify (ofString "u") (ofString "r") (.text (ofString "pw")) (ofString "16cf8470b801169c6eade4e217f239e9") = .ok true ∧
    htdigestVerify (ofString "u") (ofString "r") (.text (ofString "pw")) (ofString "16cf8470b801169c6eade4e217f239e0") = .ok false := by
  refine ⟨by decide +kernel, by decide +kernel⟩

end Props.C08Families.Static
