import PasslibVerif.Lemmas.C02CodeWrapNorm
import PasslibVerif.Lemmas.C01PbkdfBase
/-
C02, code level, group `Wrap`, part 1 — "the code computes the published algorithm" for bcrypt on passlib's builtin backend and the two
hashers that put a pre-hash in front of it:

  bcrypt._calc_checksum (builtin backend) = `_prepare_digest_args` → `_norm_digest_args` → `raw_bcrypt` → `.decode("ascii")`
  bcrypt_sha256._calc_checksum   (v1: b64encode(sha256(secret)), v2: b64encode(HMAC-SHA256(key = salt text, secret)))
  django_bcrypt_sha256._calc_checksum    (hexlify(sha256(secret)))

`Model.Code.Wrap.*` follows the Python statements; it is compared with the real functions by tools/corr/c02_code_wrap.py (driver suite
`cwrap`).  The theorems say that this code equals `Spec.Formats.bcrypt / bcryptSha256V1 / bcryptSha256V2 / djangoBcryptSha256`
(Spec/Formats/BcryptFamily.lean) for EVERY secret the code accepts (bcrypt: no NUL, at most 4096 encoded bytes; the pre-hashing classes:
every byte string, NUL and any length included), every 22-character salt over the bcrypt alphabet, every cost 4..31, every ident of
the corrected algorithm — and for EVERY combination of the backend flags `_norm_digest_args` reads (the `secret[:72]` of the wraparound
workaround and the emulation of `$2$` by repeating the password under `$2a$` / `$2b$` change nothing).
The Eks-Blowfish core is `Model.Blowfish.rawBcrypt` (= the published algorithm by Props/C11Blowfish.lean `raw_bcrypt_eq_spec`).
-/
namespace Props.C02CodeWrap
open Py Model.Code.Wrap Lemmas.C02CodeWrap
open Model.Verify (Secret MAX_PASSWORD_SIZE)
open Model.Code.Des (encodeSecret hexlify decodeAscii encodeAscii slice)
open Model.Code.Digest (b64encode)
open Model.Formats (IDENT_2 IDENT_2A IDENT_2B IDENT_2X IDENT_2Y bc64)
open Model.Handler (Str ofString allIn)

/-- admissible bcrypt settings: 22 salt characters of the bcrypt alphabet, cost 4..31 -/
def SettingsOK (salt : Str) (rounds : Nat) : Prop := allIn bc64 salt = true ∧ salt.length = 22 ∧ 4 ≤ rounds ∧ rounds ≤ 31

theorem spec_defined (ident salt : Str) (rounds : Nat) (pwd : Bytes) (hid : ident ∈ okIdents) (hs : SettingsOK salt rounds) :
    ∃ c, Spec.Formats.bcrypt (inner ident) rounds salt pwd = some c := by
  have hstrip : Model.Formats.stripDollars ident = inner ident ∧ ident ∈ Lemmas.Formats.bcryptOkIdents := by
    simp only [okIdents, List.mem_cons, List.not_mem_nil, or_false] at hid
    rcases hid with rfl | rfl | rfl | rfl <;> exact ⟨by decide, by decide⟩
  rw [← hstrip.1]
  exact Lemmas.C01DesBcrypt.spec_bcrypt_some ident salt rounds pwd hstrip.2 hs.1 hs.2.1 ⟨hs.2.2.1, hs.2.2.2⟩

theorem salt_ascii (salt : Str) (h : allIn bc64 salt = true) : ∀ c ∈ salt, c < 128 := by
  intro c hc
  have hm : c ∈ bc64 := by
    have := List.all_eq_true.1 h c hc
    simpa using this
  rw [Lemmas.C01DesBcrypt.bc64_eq] at hm
  exact (alphabet_lt c hm).1

/-! ### `_norm_digest_args` -/

/-- on the builtin backend (nothing lacking) an admissible secret and ident come back unchanged -/
theorem norm_digest_args_builtin (cls : Cls) (s : Secret) (b : Bytes) (ident : Str) (new : Bool)
    (hb : encodeSecret s = .ok b) (hlen : b.length ≤ MAX_PASSWORD_SIZE) (hnul : 0 ∉ b)
    (htr : new = true → checkTruncatePolicy cls b = .ok ()) (hid : ident ∈ okIdents) :
    normDigestArgs builtinFlags cls s ident new = .ok (b, ident) := by
  have hsz : ¬ b.length > MAX_PASSWORD_SIZE := by omega
  have hcon : b.contains 0 = false := by simpa using hnul
  have htr' : (if new = true then checkTruncatePolicy cls b else Except.ok ()) = .ok () := by
    cases new with
    | false => rfl
    | true => simpa using htr rfl
  unfold normDigestArgs
  simp only [hb, hsz, if_false, htr', hcon, Bool.false_eq_true, builtinFlags, false_and]
  simp only [okIdents, List.mem_cons, List.not_mem_nil, or_false] at hid
  rcases hid with rfl | rfl | rfl | rfl <;> simp +decide

/-- the size limit is applied to the ENCODED secret -/
theorem norm_refuses_oversize (fl : Flags) (cls : Cls) (s : Secret) (b : Bytes) (ident : Str) (new : Bool)
    (hb : encodeSecret s = .ok b) (hlen : b.length > MAX_PASSWORD_SIZE) : normDigestArgs fl cls s ident new = .error .sizeError := by
  unfold normDigestArgs; simp only [hb, hlen, if_true]

/-- under `hash()` (`new`) with `truncate_error`, more than 72 bytes: PasswordTruncateError — before the NUL check -/
theorem norm_refuses_truncation (fl : Flags) (s : Secret) (b : Bytes) (ident : Str)
    (hb : encodeSecret s = .ok b) (hlen : b.length ≤ MAX_PASSWORD_SIZE) (h72 : b.length > 72) :
    normDigestArgs fl (bcryptCls true) s ident true = .error .truncateError := by
  have hsz : ¬ b.length > MAX_PASSWORD_SIZE := by omega
  unfold normDigestArgs
  simp only [hb, hsz, if_false, if_true, checkTruncatePolicy, bcryptCls, Bool.false_eq_true, h72, and_self]

/-- a NUL byte: NullPasswordError, whatever the ident and the flags -/
theorem norm_refuses_nul (fl : Flags) (cls : Cls) (s : Secret) (b : Bytes) (ident : Str) (new : Bool)
    (hb : encodeSecret s = .ok b) (hlen : b.length ≤ MAX_PASSWORD_SIZE) (htr : new = true → checkTruncatePolicy cls b = .ok ())
    (hnul : 0 ∈ b) : normDigestArgs fl cls s ident new = .error .nullError := by
  have hsz : ¬ b.length > MAX_PASSWORD_SIZE := by omega
  have hcon : b.contains 0 = true := by simpa using hnul
  have htr' : (if new = true then checkTruncatePolicy cls b else Except.ok ()) = .ok () := by
    cases new with
    | false => rfl
    | true => simpa using htr rfl
  unfold normDigestArgs
  simp only [hb, hsz, if_false, htr', hcon, if_true]

/-- `$2x$`: RuntimeError -/
theorem norm_refuses_2x (fl : Flags) (cls : Cls) (s : Secret) (b : Bytes) (new : Bool)
    (hb : encodeSecret s = .ok b) (hlen : b.length ≤ MAX_PASSWORD_SIZE) (htr : new = true → checkTruncatePolicy cls b = .ok ())
    (hnul : 0 ∉ b) : normDigestArgs fl cls s IDENT_2X new = .error .runtimeError := by
  have hsz : ¬ b.length > MAX_PASSWORD_SIZE := by omega
  have hcon : b.contains 0 = false := by simpa using hnul
  have htr' : (if new = true then checkTruncatePolicy cls b else Except.ok ()) = .ok () := by
    cases new with
    | false => rfl
    | true => simpa using htr rfl
  have n1 : IDENT_2X ≠ IDENT_2A := by decide
  have n2 : IDENT_2X ≠ IDENT_2B := by decide
  have n3 : IDENT_2X ≠ IDENT_2Y := by decide
  have n4 : IDENT_2X ≠ IDENT_2 := by decide
  unfold normDigestArgs
  simp only [hb, hsz, if_false, htr', hcon, Bool.false_eq_true, n1, n2, n3, n4, if_true]

/-! ### `bcrypt._calc_checksum` on the builtin backend -/

/-- MAIN: for every combination of backend flags (fallback ident `$2a$` or `$2b$`), every ident of the corrected algorithm, every
    admissible salt and cost, every secret without NUL whose encoding has at most 4096 bytes (and passes the truncation policy when
    hashing), the code returns the specification's checksum -/
theorem calc_checksum_eq_spec (fl : Flags) (hfl : FlagsOK fl) (cls : Cls) (ident salt : Str) (rounds : Nat) (ud : Bool) (s : Secret) (b : Bytes)
    (hid : ident ∈ okIdents) (hs : SettingsOK salt rounds)
    (hb : encodeSecret s = .ok b) (hwf : Bytes.WF b) (hlen : b.length ≤ MAX_PASSWORD_SIZE) (hnul : 0 ∉ b)
    (htr : ud = true → checkTruncatePolicy cls b = .ok ()) :
    ∃ c, Spec.Formats.bcrypt (inner ident) rounds salt b = some c ∧ builtinCalcChecksum fl cls ident salt rounds ud s = .ok c := by
  obtain ⟨c, hc⟩ := spec_defined ident salt rounds b hid hs
  obtain ⟨b', id', hn, hwf', hid', hsp⟩ := norm_ok fl hfl cls s b ident ud hb hwf hlen hnul htr hid
  refine ⟨c, hc, ?_⟩
  have hc' : Spec.Formats.bcrypt (inner id') rounds salt b' = some c := by rw [hsp]; exact hc
  have hraw := rawBcrypt_eq_spec b' id' salt rounds c hwf' hid' hc'
  obtain ⟨_, _, _, _, _, _, _, hcv⟩ := spec_bcrypt_some _ _ _ _ _ hc'
  unfold builtinCalcChecksum
  simp only [hn, Lemmas.C02CodeDigest.encodeAscii_ok salt (salt_ascii salt hs.1)]
  unfold inner at hraw
  rw [hraw]
  exact Lemmas.C02CodeDigest.decodeAscii_ok c (by rw [hcv]; exact bcrypt64_lt _)

/-- the builtin backend as loaded -/
theorem builtin_calc_checksum_eq_spec (te : Bool) (ident salt : Str) (rounds : Nat) (ud : Bool) (s : Secret) (b : Bytes)
    (hid : ident ∈ okIdents) (hs : SettingsOK salt rounds)
    (hb : encodeSecret s = .ok b) (hwf : Bytes.WF b) (hlen : b.length ≤ MAX_PASSWORD_SIZE) (hnul : 0 ∉ b)
    (htr : ¬ (ud = true ∧ te = true ∧ b.length > 72)) :
    ∃ c, Spec.Formats.bcrypt (inner ident) rounds salt b = some c ∧
      builtinCalcChecksum builtinFlags (bcryptCls te) ident salt rounds ud s = .ok c := by
  refine calc_checksum_eq_spec builtinFlags (Or.inr rfl) _ ident salt rounds ud s b hid hs hb hwf hlen hnul ?_
  intro hud
  unfold checkTruncatePolicy bcryptCls
  have : ¬ (te = true ∧ b.length > 72) := fun h => htr ⟨hud, h.1, h.2⟩
  simp only [Bool.false_eq_true, if_false, this]

/-- errors of the argument preparation are the errors of `_calc_checksum` -/
theorem calc_checksum_refuses_nul (fl : Flags) (cls : Cls) (ident salt : Str) (rounds : Nat) (ud : Bool) (s : Secret) (b : Bytes)
    (hb : encodeSecret s = .ok b) (hlen : b.length ≤ MAX_PASSWORD_SIZE) (htr : ud = true → checkTruncatePolicy cls b = .ok ())
    (hnul : 0 ∈ b) : builtinCalcChecksum fl cls ident salt rounds ud s = .error .nullError := by
  unfold builtinCalcChecksum; rw [norm_refuses_nul fl cls s b ident ud hb hlen htr hnul]

/-- non-vacuity: `bcrypt(ident="$2a$", salt="."*22, rounds=4)._calc_checksum(b"abc") == "ini1L2hXWkegMV822DC6vks..mWmZHK"` on the builtin
    backend of /tmp/repo_clean satisfies the hypotheses (the Eks-Blowfish evaluation itself is compared through the compiled model) -/
example : IDENT_2A ∈ okIdents ∧ SettingsOK (ofString "......................") 4 ∧ encodeSecret (.bytes [97, 98, 99]) = .ok [97, 98, 99] ∧
    Bytes.WF [97, 98, 99] ∧ (0 : Nat) ∉ [97, 98, 99] ∧ FlagsOK builtinFlags ∧ FlagsOK ⟨true, true, true, true, IDENT_2A⟩ :=
  ⟨by decide, ⟨by decide, by decide, by omega, by omega⟩, rfl, by decide, by decide, Or.inr rfl, Or.inl rfl⟩

/-! ### the pre-hashing classes -/

theorem sha256_ok : Lemmas.PbkdfLen.HashOK Spec.SHA256.sha256 32 := Lemmas.C01Pbkdf.sha256_ok

theorem std_nonzero : ∀ c ∈ Spec.Rfc4648.stdAlphabet ++ [61], c ≠ 0 ∧ c < 256 := by decide +kernel

theorem b64_key_ok (d : Bytes) (hd : d.length = 32) :
    Bytes.WF (b64encode d) ∧ (b64encode d).length ≤ MAX_PASSWORD_SIZE ∧ 0 ∉ b64encode d := by
  refine ⟨fun c hc => (std_nonzero c (Lemmas.FormatsPbkdf.mem_base64 d c hc)).2, ?_, ?_⟩
  · unfold b64encode Spec.Rfc4648.base64 Spec.Rfc4648.base64NoPad
    simp only [List.length_append, List.length_map, Lemmas.B64.groups64_length, hd, List.length_replicate, Spec.Rfc4648.padLen64]
    decide
  · intro h0
    exact (std_nonzero 0 (Lemmas.FormatsPbkdf.mem_base64 d 0 h0)).1 rfl

theorem hexlify_length : ∀ d : Bytes, (hexlify d).length = 2 * d.length
  | [] => rfl
  | x :: rest => by
    have ih := hexlify_length rest
    unfold hexlify at ih ⊢
    simp only [List.flatMap_cons, List.length_append, List.length_cons, List.length_nil, ih]; omega

theorem hex_key_ok (d : Bytes) (hw : Bytes.WF d) (hd : d.length = 32) :
    Bytes.WF (hexlify d) ∧ (hexlify d).length ≤ MAX_PASSWORD_SIZE ∧ 0 ∉ hexlify d := by
  have hmem : ∀ c ∈ hexlify d, 48 ≤ c ∧ c < 256 := by
    intro c hc
    unfold hexlify at hc
    obtain ⟨x, hx, hcx⟩ := List.mem_flatMap.1 hc
    have := hw x hx
    simp only [List.mem_cons, List.not_mem_nil, or_false] at hcx
    rcases hcx with rfl | rfl <;> (split <;> omega)
  refine ⟨fun c hc => (hmem c hc).2, ?_, fun h0 => by have := (hmem 0 h0).1; omega⟩
  rw [hexlify_length, hd]; decide

theorem wrapped_policy (b : Bytes) (ud : Bool) : ud = true → checkTruncatePolicy wrappedCls b = .ok () := fun _ => rfl

/-- bcrypt_sha256 version 1, EVERY secret (NUL, any length): `bcrypt(base64(SHA-256(secret)))` -/
theorem bcrypt_sha256_v1_eq_spec (fl : Flags) (hfl : FlagsOK fl) (ident salt : Str) (rounds : Nat) (ud : Bool) (s : Secret) (b : Bytes)
    (hid : ident ∈ okIdents) (hs : SettingsOK salt rounds) (hb : encodeSecret s = .ok b) :
    ∃ c, Spec.Formats.bcryptSha256V1 (inner ident) rounds salt b = some c ∧
      bcryptSha256CalcChecksum fl 1 ident salt rounds ud s = .ok c := by
  have hk := b64_key_ok (sha256 b) (sha256_ok b).1
  unfold bcryptSha256CalcChecksum Spec.Formats.bcryptSha256V1
  simp only [hb, if_true]
  exact calc_checksum_eq_spec fl hfl wrappedCls ident salt rounds ud (.bytes (b64encode (sha256 b))) _ hid hs rfl hk.1 hk.2.1 hk.2.2
    (wrapped_policy _ ud)

/-- bcrypt_sha256 version 2 (any version other than 1 takes this branch), EVERY secret, salt ending in one of `.Oeu`:
    `bcrypt(base64(HMAC-SHA-256(key = the salt text, secret)))` -/
theorem bcrypt_sha256_v2_eq_spec (fl : Flags) (hfl : FlagsOK fl) (version : Nat) (hv : version ≠ 1) (ident salt : Str) (rounds : Nat) (ud : Bool)
    (s : Secret) (b : Bytes) (last : Nat)
    (hid : ident ∈ okIdents) (hs : SettingsOK salt rounds) (hlast : salt.getLast? = some last) (hfin : last ∈ FINAL_SALT_CHARS)
    (hb : encodeSecret s = .ok b) :
    ∃ c, Spec.Formats.bcryptSha256V2 (inner ident) rounds salt b = some c ∧
      bcryptSha256CalcChecksum fl version ident salt rounds ud s = .ok c := by
  have hsa := salt_ascii salt hs.1
  have hswf : Bytes.WF salt := fun c hc => by have := hsa c hc; omega
  have hmac : Model.Hmac.compileHmac sha256 64 32 salt b = Spec.Hmac.hmac Spec.SHA256.sha256 64 salt b :=
    Lemmas.Hmac.hmac_eq_rfc2104 sha256 64 32 (fun x => ⟨(sha256_ok x).2, (sha256_ok x).1⟩) salt b hswf
  have hdl : (Spec.Hmac.hmac Spec.SHA256.sha256 64 salt b).length = 32 := by
    unfold Spec.Hmac.hmac; exact (sha256_ok _).1
  have hk := b64_key_ok _ hdl
  have hcon : FINAL_SALT_CHARS.contains last = true := by simpa using hfin
  unfold bcryptSha256CalcChecksum Spec.Formats.bcryptSha256V2
  simp only [hb, hv, if_false, hlast, hcon, not_true_eq_false, Lemmas.C02CodeDigest.encodeAscii_ok salt hsa, hmac]
  exact calc_checksum_eq_spec fl hfl wrappedCls ident salt rounds ud (.bytes (b64encode _)) _ hid hs rfl hk.1 hk.2.1 hk.2.2
    (wrapped_policy _ ud)

/-- version 2 refuses a salt whose last character has padding bits set (`ValueError("invalid salt string")`) -/
theorem bcrypt_sha256_v2_refuses_padding (fl : Flags) (version : Nat) (hv : version ≠ 1) (ident salt : Str) (rounds : Nat) (ud : Bool)
    (s : Secret) (b : Bytes) (last : Nat) (hlast : salt.getLast? = some last) (hfin : last ∉ FINAL_SALT_CHARS) (hb : encodeSecret s = .ok b) :
    bcryptSha256CalcChecksum fl version ident salt rounds ud s = .error .valueError := by
  have hcon : FINAL_SALT_CHARS.contains last = false := by simpa using hfin
  unfold bcryptSha256CalcChecksum
  simp only [hb, hv, if_false, hlast, hcon, Bool.false_eq_true, not_false_eq_true, if_true]

/-- django_bcrypt_sha256, EVERY secret: `bcrypt(hexlify(SHA-256(secret)))` -/
theorem django_bcrypt_sha256_eq_spec (fl : Flags) (hfl : FlagsOK fl) (ident salt : Str) (rounds : Nat) (ud : Bool) (s : Secret) (b : Bytes)
    (hid : ident ∈ okIdents) (hs : SettingsOK salt rounds) (hb : encodeSecret s = .ok b) :
    ∃ c, Spec.Formats.djangoBcryptSha256 (inner ident) rounds salt b = some c ∧
      djangoBcryptSha256CalcChecksum fl ident salt rounds ud s = .ok c := by
  have hk := hex_key_ok (sha256 b) (sha256_ok b).2 (sha256_ok b).1
  have hhex : hexlify (sha256 b) = Spec.Formats.hexLower (Spec.SHA256.sha256 b) := Lemmas.C02CodeDes.hexlify_eq _ (sha256_ok b).2
  unfold djangoBcryptSha256CalcChecksum Spec.Formats.djangoBcryptSha256
  simp only [hb]
  rw [← hhex]
  exact calc_checksum_eq_spec fl hfl wrappedCls ident salt rounds ud (.bytes (hexlify (sha256 b))) _ hid hs rfl hk.1 hk.2.1 hk.2.2
    (wrapped_policy _ ud)

/-- an unencodable text secret (lone surrogate): UnicodeEncodeError, a ValueError — all three classes -/
theorem prehash_text_unencodable (fl : Flags) (version : Nat) (ident salt : Str) (rounds : Nat) (ud : Bool) (cps : List Nat)
    (hu : Model.Verify.utf8 cps = none) :
    bcryptSha256CalcChecksum fl version ident salt rounds ud (.text cps) = .error .valueError ∧
    djangoBcryptSha256CalcChecksum fl ident salt rounds ud (.text cps) = .error .valueError := by
  unfold bcryptSha256CalcChecksum djangoBcryptSha256CalcChecksum
  simp only [Lemmas.C02CodeDigest.encodeSecret_bad cps hu, and_self]

/-- non-vacuity: `bcrypt_sha256(version=2, ident="$2b$", salt="."*22, rounds=4)._calc_checksum(b"abc") == "4EW1r7bUUtl9DuhdeLkoEsQe.E2ty4O"`
    and `django_bcrypt_sha256(…)._calc_checksum(b"abc") == "dzlQ23vAb66uUfws5gHVa7iSzfg1pj6"` on /tmp/repo_clean: the hypotheses hold -/
example : IDENT_2B ∈ okIdents ∧ SettingsOK (ofString "......................") 4 ∧
    (ofString "......................").getLast? = some 46 ∧ 46 ∈ FINAL_SALT_CHARS ∧ (2 : Nat) ≠ 1 :=
  ⟨by decide, ⟨by decide, by decide, by omega, by omega⟩, by decide, by decide, by decide⟩

end Props.C02CodeWrap
