import PasslibVerif.Lemmas.Threads
import PasslibVerif.Gen.Threads
import PasslibVerif.Model.ThreadsOld
/-
C19 — "first use from several threads behaves like first use from one".

For every protocol the translator extracts from the CURRENT source (`Gen.Threads`: LazyCryptContext without / with `onload`,
LazyBase64Engine, the HasManyBackends lazy stub, bcrypt's `_NoBackend` stub, `get_crypt_handler` of an unloaded name), for
EVERY number of threads and EVERY schedule of single shared accesses (`Model.Threads.step`):

  * `first_use_linearizable_*`   a thread that finishes, finishes with the outcome a single thread gets (no exception kind,
                                 the completely initialised value);
  * `init_once_*`                the slow initialiser (and `onload`) is started at most once;
  * `mutual_exclusion_*`         two threads are never both about to write shared state (lock based protocols);
  * `no_deadlock_*`              whenever the lock is held its holder is unfinished and can move;
  * `post_init_independent_*`    once initialised, what a call does depends only on that thread's own steps — no step of
                                 another thread changes it, the shared state does not change any more.

Method: `Lemmas.Threads.Inv R w := ∀ t, view w t ∈ R` is an inductive invariant of `step` (`inv_init`, `inv_step`, lifted to
schedules in `inv_run`) whenever the finite set of views `R` passes the check `closed`; `R` is computed (`reach`) from the
instruction list, the checks are evaluated by the kernel (`decide +kernel`).  Nothing enumerates schedules.

The protocols as they were BEFORE the fix commits 7db893c / 5aea019 / 9b8d3f5 (`Model.ThreadsOld`, same translator, old
text) are unsafe: `*_old_unsafe` give explicit two-thread schedules after which a thread holds an exception (or a wrong
value).  If the source regresses to the old text the translator emits the old instruction lists and the `*_checks`
theorems below stop checking.

Assumptions (see MANIFEST): each single shared access is atomic (GIL); `__import__` runs a module body once under the
import system's own lock (`Instr.importOnce`); the slow initialisers themselves succeed as they do for a single thread.
-/
namespace Props.C19
open Model.Threads Lemmas.Threads

/-- everything that is read off the computed invariant, in one kernel evaluation (the cheap tests first, so that an unsafe
    protocol is rejected quickly) -/
def checks (p : Prog) (want : Outcome) (locked : Bool) (R : List View) : Bool :=
  outcomesOk want R && initOnce R && (!locked || writesLocked p R) && holderMoves p R && closed p R

def fuel : Nat := 1500

structure Verified (p : Prog) (want : Outcome) (locked : Bool) : Prop where
  ok : checks p want locked (reachFor p want fuel) = true

section generic
variable {p : Prog} {want : Outcome} {locked : Bool}

theorem Verified.closed (h : Verified p want locked) : closed p (reachFor p want fuel) = true := by
  have := h.ok; simp only [checks, Bool.and_eq_true] at this; exact this.2
theorem Verified.outcomes (h : Verified p want locked) : outcomesOk want (reachFor p want fuel) = true := by
  have := h.ok; simp only [checks, Bool.and_eq_true] at this; exact this.1.1.1.1
theorem Verified.once (h : Verified p want locked) : initOnce (reachFor p want fuel) = true := by
  have := h.ok; simp only [checks, Bool.and_eq_true] at this; exact this.1.1.1.2
theorem Verified.moves (h : Verified p want locked) : holderMoves p (reachFor p want fuel) = true := by
  have := h.ok; simp only [checks, Bool.and_eq_true] at this; exact this.1.2
theorem Verified.wlocked (h : Verified p want true) : writesLocked p (reachFor p want fuel) = true := by
  have := h.ok; simp only [checks, Bool.and_eq_true, Bool.not_true, Bool.false_or] at this; exact this.1.1.2

/-- every thread that finishes, in any schedule with any number of threads, finishes with the single-thread outcome -/
theorem linearizable (h : Verified p want locked) (s : List Tid) (t : Tid) (o : Outcome)
    (hf : ((run p (init p) s).loc t).out = some o) : o = want :=
  outcome_of_check h.closed h.outcomes s t o hf

theorem initOnce' (h : Verified p want locked) (s : List Tid) :
    getF (run p (init p) s).sh 0 ≤ 1 ∧ getF (run p (init p) s).sh 3 ≤ 1 :=
  init_once_of_check h.closed h.once s

theorem mutex (h : Verified p want true) (s : List Tid) (t u : Tid)
    (ht : AboutToWrite p (run p (init p) s) t) (hu : AboutToWrite p (run p (init p) s) u) : t = u :=
  mutex_of_check h.closed h.wlocked s t u ht hu

theorem noDeadlock (h : Verified p want locked) (s : List Tid) (t : Tid) (hl : (run p (init p) s).lock = some t) :
    ((run p (init p) s).loc t).out = none ∧ view (step p (run p (init p) s) t) t ≠ view (run p (init p) s) t :=
  holder_moves_of_check h.closed h.moves s t hl
end generic

/-! ### the current protocols -/
open Gen.Threads

set_option maxRecDepth 100000 in
theorem ctx_checks : Verified ctx ctxWant true := ⟨by decide +kernel⟩
set_option maxRecDepth 100000 in
theorem ctxOnload_checks : Verified ctxOnload ctxOnloadWant true := ⟨by decide +kernel⟩
set_option maxRecDepth 100000 in
theorem eng_checks : Verified eng engWant true := ⟨by decide +kernel⟩
set_option maxRecDepth 100000 in
theorem stub_checks : Verified stub stubWant true := ⟨by decide +kernel⟩
set_option maxRecDepth 100000 in
theorem bcStub_checks : Verified bcStub bcStubWant true := ⟨by decide +kernel⟩
/-- the registry takes no lock (its writes are idempotent), so no mutual-exclusion claim -/
theorem reg_checks : Verified reg regWant false := ⟨by decide +kernel⟩

/-- LazyCryptContext without `onload` -/
theorem first_use_linearizable_ctx (s : List Tid) (t : Tid) (o : Outcome)
    (h : ((run ctx (init ctx) s).loc t).out = some o) : o = ctxWant := linearizable ctx_checks s t o h
/-- LazyCryptContext with `onload`: every thread sees the configuration `onload` returned -/
theorem first_use_linearizable_ctxOnload (s : List Tid) (t : Tid) (o : Outcome)
    (h : ((run ctxOnload (init ctxOnload) s).loc t).out = some o) : o = ctxOnloadWant := linearizable ctxOnload_checks s t o h
theorem first_use_linearizable_eng (s : List Tid) (t : Tid) (o : Outcome)
    (h : ((run eng (init eng) s).loc t).out = some o) : o = engWant := linearizable eng_checks s t o h
theorem first_use_linearizable_stub (s : List Tid) (t : Tid) (o : Outcome)
    (h : ((run stub (init stub) s).loc t).out = some o) : o = stubWant := linearizable stub_checks s t o h
theorem first_use_linearizable_bcStub (s : List Tid) (t : Tid) (o : Outcome)
    (h : ((run bcStub (init bcStub) s).loc t).out = some o) : o = bcStubWant := linearizable bcStub_checks s t o h
theorem first_use_linearizable_reg (s : List Tid) (t : Tid) (o : Outcome)
    (h : ((run reg (init reg) s).loc t).out = some o) : o = regWant := linearizable reg_checks s t o h

/-- the initialiser (field 0) and `onload` (field 3) are started at most once, whatever the threads do -/
theorem init_once_ctx (s : List Tid) : getF (run ctx (init ctx) s).sh 0 ≤ 1 ∧ getF (run ctx (init ctx) s).sh 3 ≤ 1 := initOnce' ctx_checks s
theorem init_once_ctxOnload (s : List Tid) :
    getF (run ctxOnload (init ctxOnload) s).sh 0 ≤ 1 ∧ getF (run ctxOnload (init ctxOnload) s).sh 3 ≤ 1 := initOnce' ctxOnload_checks s
theorem init_once_eng (s : List Tid) : getF (run eng (init eng) s).sh 0 ≤ 1 ∧ getF (run eng (init eng) s).sh 3 ≤ 1 := initOnce' eng_checks s
theorem init_once_stub (s : List Tid) : getF (run stub (init stub) s).sh 0 ≤ 1 ∧ getF (run stub (init stub) s).sh 3 ≤ 1 := initOnce' stub_checks s
theorem init_once_bcStub (s : List Tid) : getF (run bcStub (init bcStub) s).sh 0 ≤ 1 ∧ getF (run bcStub (init bcStub) s).sh 3 ≤ 1 := initOnce' bcStub_checks s
theorem init_once_reg (s : List Tid) : getF (run reg (init reg) s).sh 0 ≤ 1 ∧ getF (run reg (init reg) s).sh 3 ≤ 1 := initOnce' reg_checks s

theorem mutual_exclusion_ctx (s : List Tid) (t u : Tid) (ht : AboutToWrite ctx (run ctx (init ctx) s) t)
    (hu : AboutToWrite ctx (run ctx (init ctx) s) u) : t = u := mutex ctx_checks s t u ht hu
theorem mutual_exclusion_ctxOnload (s : List Tid) (t u : Tid) (ht : AboutToWrite ctxOnload (run ctxOnload (init ctxOnload) s) t)
    (hu : AboutToWrite ctxOnload (run ctxOnload (init ctxOnload) s) u) : t = u := mutex ctxOnload_checks s t u ht hu
theorem mutual_exclusion_eng (s : List Tid) (t u : Tid) (ht : AboutToWrite eng (run eng (init eng) s) t)
    (hu : AboutToWrite eng (run eng (init eng) s) u) : t = u := mutex eng_checks s t u ht hu
theorem mutual_exclusion_stub (s : List Tid) (t u : Tid) (ht : AboutToWrite stub (run stub (init stub) s) t)
    (hu : AboutToWrite stub (run stub (init stub) s) u) : t = u := mutex stub_checks s t u ht hu
theorem mutual_exclusion_bcStub (s : List Tid) (t u : Tid) (ht : AboutToWrite bcStub (run bcStub (init bcStub) s) t)
    (hu : AboutToWrite bcStub (run bcStub (init bcStub) s) u) : t = u := mutex bcStub_checks s t u ht hu

theorem no_deadlock_ctx (s : List Tid) (t : Tid) (hl : (run ctx (init ctx) s).lock = some t) :
    ((run ctx (init ctx) s).loc t).out = none ∧ view (step ctx (run ctx (init ctx) s) t) t ≠ view (run ctx (init ctx) s) t :=
  noDeadlock ctx_checks s t hl
theorem no_deadlock_eng (s : List Tid) (t : Tid) (hl : (run eng (init eng) s).lock = some t) :
    ((run eng (init eng) s).loc t).out = none ∧ view (step eng (run eng (init eng) s) t) t ≠ view (run eng (init eng) s) t :=
  noDeadlock eng_checks s t hl
theorem no_deadlock_stub (s : List Tid) (t : Tid) (hl : (run stub (init stub) s).lock = some t) :
    ((run stub (init stub) s).loc t).out = none ∧ view (step stub (run stub (init stub) s) t) t ≠ view (run stub (init stub) s) t :=
  noDeadlock stub_checks s t hl
theorem no_deadlock_bcStub (s : List Tid) (t : Tid) (hl : (run bcStub (init bcStub) s).lock = some t) :
    ((run bcStub (init bcStub) s).loc t).out = none ∧
      view (step bcStub (run bcStub (init bcStub) s) t) t ≠ view (run bcStub (init bcStub) s) t :=
  noDeadlock bcStub_checks s t hl

/-! ### after the initialisation -/

/-- the shared state a single thread leaves behind -/
def finalSh (p : Prog) : Nat := (run p (init p) (List.replicate 400 0)).sh

/-- the views of a call made after that -/
def quietViews (p : Prog) : List View := orbit p (finalSh p) Local.start 60

structure QuietVerified (p : Prog) (want : Outcome) : Prop where
  ok : quietOk p (finalSh p) (quietViews p) = true
  /-- a call made after the initialisation ends with the same outcome (within 60 own steps) -/
  fresh : (soloLoc p (finalSh p) Local.start 60).out = some want
  /-- the single thread that initialised got that outcome too, and left the lock free -/
  single : ((run p (init p) (List.replicate 400 0)).loc 0).out = some want ∧ (run p (init p) (List.replicate 400 0)).lock = none

/-- `post_init_independent`: in a world after the initialisation (final shared state, lock free, every thread finished or
    not started) and for every further schedule, the local state — hence the outcome — of thread `u` is the one it reaches by
    its own `count u` steps alone; steps of other threads do not change it, and the shared state stays what it is. -/
theorem postInit {p : Prog} {want : Outcome} (h : QuietVerified p want) (w : World) (hw : Quiet (finalSh p) (quietViews p) w)
    (s : List Tid) :
    (run p w s).sh = finalSh p ∧ (run p w s).lock = none ∧
      ∀ u, (run p w s).loc u = soloLoc p (finalSh p) (w.loc u) (s.count u) :=
  quiet_run h.ok s w hw

theorem ctx_quiet : QuietVerified ctx ctxWant := ⟨by decide +kernel, by decide +kernel, by decide +kernel⟩
theorem ctxOnload_quiet : QuietVerified ctxOnload ctxOnloadWant := ⟨by decide +kernel, by decide +kernel, by decide +kernel⟩
theorem eng_quiet : QuietVerified eng engWant := ⟨by decide +kernel, by decide +kernel, by decide +kernel⟩
theorem stub_quiet : QuietVerified stub stubWant := ⟨by decide +kernel, by decide +kernel, by decide +kernel⟩
theorem bcStub_quiet : QuietVerified bcStub bcStubWant := ⟨by decide +kernel, by decide +kernel, by decide +kernel⟩
theorem reg_quiet : QuietVerified reg regWant := ⟨by decide +kernel, by decide +kernel, by decide +kernel⟩

theorem post_init_independent_ctx (w : World) (hw : Quiet (finalSh ctx) (quietViews ctx) w) (s : List Tid) :
    (run ctx w s).sh = finalSh ctx ∧ (run ctx w s).lock = none ∧
      ∀ u, (run ctx w s).loc u = soloLoc ctx (finalSh ctx) (w.loc u) (s.count u) := postInit ctx_quiet w hw s
theorem post_init_independent_ctxOnload (w : World) (hw : Quiet (finalSh ctxOnload) (quietViews ctxOnload) w) (s : List Tid) :
    (run ctxOnload w s).sh = finalSh ctxOnload ∧ (run ctxOnload w s).lock = none ∧
      ∀ u, (run ctxOnload w s).loc u = soloLoc ctxOnload (finalSh ctxOnload) (w.loc u) (s.count u) := postInit ctxOnload_quiet w hw s
theorem post_init_independent_eng (w : World) (hw : Quiet (finalSh eng) (quietViews eng) w) (s : List Tid) :
    (run eng w s).sh = finalSh eng ∧ (run eng w s).lock = none ∧
      ∀ u, (run eng w s).loc u = soloLoc eng (finalSh eng) (w.loc u) (s.count u) := postInit eng_quiet w hw s
theorem post_init_independent_stub (w : World) (hw : Quiet (finalSh stub) (quietViews stub) w) (s : List Tid) :
    (run stub w s).sh = finalSh stub ∧ (run stub w s).lock = none ∧
      ∀ u, (run stub w s).loc u = soloLoc stub (finalSh stub) (w.loc u) (s.count u) := postInit stub_quiet w hw s
theorem post_init_independent_bcStub (w : World) (hw : Quiet (finalSh bcStub) (quietViews bcStub) w) (s : List Tid) :
    (run bcStub w s).sh = finalSh bcStub ∧ (run bcStub w s).lock = none ∧
      ∀ u, (run bcStub w s).loc u = soloLoc bcStub (finalSh bcStub) (w.loc u) (s.count u) := postInit bcStub_quiet w hw s
theorem post_init_independent_reg (w : World) (hw : Quiet (finalSh reg) (quietViews reg) w) (s : List Tid) :
    (run reg w s).sh = finalSh reg ∧ (run reg w s).lock = none ∧
      ∀ u, (run reg w s).loc u = soloLoc reg (finalSh reg) (w.loc u) (s.count u) := postInit reg_quiet w hw s

/-! ### non-vacuity -/

theorem run_loc_other (p : Prog) (u : Tid) (s : List Tid) (w : World) (h : ∀ x ∈ s, x ≠ u) : (run p w s).loc u = w.loc u := by
  induction s generalizing w with
  | nil => rfl
  | cons t ts ih =>
    have ht : t ≠ u := h t (by simp)
    have : (step p w t).loc u = w.loc u := by
      have : ¬ u = t := fun e => ht e.symm
      simp [step, this]
    show (run p (step p w t) ts).loc u = _
    rw [ih (step p w t) (fun x hx => h x (by simp [hx])), this]

/-- the world a single initialising thread leaves behind IS a world "after the initialisation" -/
theorem quiet_after_single {p : Prog} {want : Outcome} (h : QuietVerified p want) :
    Quiet (finalSh p) (quietViews p) (run p (init p) (List.replicate 400 0)) := by
  refine ⟨rfl, h.single.2, fun t => ?_⟩
  by_cases e : t = 0
  · right; subst e; rw [h.single.1]; rfl
  · left
    rw [run_loc_other p t _ _ (by intro x hx; rw [List.eq_of_mem_replicate hx]; exact fun e' => e e'.symm)]
    have hq := h.ok
    simp only [quietOk, Bool.and_eq_true, List.elem_eq_mem, decide_eq_true_eq] at hq
    exact hq.1

/-- three threads, an arbitrary looking schedule: everybody ends with the single-thread answer (ctx with onload) -/
example : let w := run ctxOnload (init ctxOnload) ((List.replicate 12 0) ++ (List.replicate 9 1) ++ (List.replicate 6 2) ++
    (List.replicate 200 0) ++ (List.replicate 200 2) ++ (List.replicate 200 1))
    ((w.loc 0).out, (w.loc 1).out, (w.loc 2).out) = (some ctxOnloadWant, some ctxOnloadWant, some ctxOnloadWant) := by
  decide +kernel

/-- a thread that finds the lock taken really waits (the model does block): for some number of steps of thread 0, thread 1
    — given 60 steps — is unfinished, thread 0 holds the lock and a further step of thread 1 changes nothing -/
example : ((List.range 40).any fun k =>
    let w := run eng (init eng) ((List.replicate k 0) ++ (List.replicate 60 1))
    decide (w.lock = some 0 ∧ (w.loc 1).out = none ∧ (step eng w 1).loc 1 = w.loc 1)) = true := by
  decide +kernel

/-! ### the protocols before the repairs are unsafe (witness schedules found by `modeldrv threads witness`) -/
open Model.ThreadsOld

/-- a schedule after which thread `t` holds outcome `o` refutes linearizability -/
theorem not_linearizable_of_witness (p : Prog) (want : Outcome) (s : List Tid) (t : Tid) (o : Outcome)
    (h : ((run p (init p) s).loc t).out = some o) (hne : o ≠ want) :
    ¬ ∀ (s : List Tid) (t : Tid) (o : Outcome), ((run p (init p) s).loc t).out = some o → o = want :=
  fun hall => hne (hall s t o h)

/-- old LazyCryptContext: thread 0 has deleted `_lazy_kwds` and not yet run `CryptContext.__init__`; thread 1 sees "nothing to
    do" and uses the unbuilt object -/
theorem ctx_old_unsafe : ((run ctxOld (init ctxOld) ctxOldWitness).loc 1).out = some (.exc .attributeError) := by decide +kernel

/-- … or both threads enter `_lazy_init` and the later one finds the keywords gone -/
theorem ctx_old_unsafe_typeError : ((run ctxOld (init ctxOld) ctxOldWitness2).loc 1).out = some (.exc .typeError) := by
  decide +kernel

/-- old LazyCryptContext with `onload`: thread 0 popped `onload` out of the shared dict; thread 1 initialises the context
    WITHOUT calling `onload` — a wrong value (`ok 4` instead of `ok 5`), no exception at all -/
theorem ctxOnload_old_wrong_value :
    ((run ctxOnloadOld (init ctxOnloadOld) ctxOnloadOldWitness).loc 1).out = some (.ok 4) := by decide +kernel

theorem ctxOnload_old_unsafe :
    ((run ctxOnloadOld (init ctxOnloadOld) ctxOnloadOldWitness2).loc 1).out = some (.exc .attributeError) := by decide +kernel

/-- old LazyBase64Engine: thread 1 calls `super().__init__` on an instance whose class was switched meanwhile … -/
theorem eng_old_unsafe : ((run engOld (init engOld) engOldWitness).loc 1).out = some (.exc .typeError) := by decide +kernel

/-- … or looks `_lazy_init` up on the switched class -/
theorem eng_old_unsafe_attributeError :
    ((run engOld (init engOld) engOldWitness2).loc 1).out = some (.exc .attributeError) := by decide +kernel

/-- old lazy backend stub: thread 1 picked the stub up before thread 0 committed the backend, then trips the
    "failed to replace lazy loader" assertion -/
theorem stub_old_unsafe : ((run stubOld (init stubOld) stubOldWitness).loc 1).out = some (.exc .assertionError) := by
  decide +kernel

theorem bcStub_old_unsafe : ((run bcStubOld (init bcStubOld) bcStubOldWitness).loc 1).out = some (.exc .assertionError) := by
  decide +kernel

theorem ctx_old_not_linearizable :
    ¬ ∀ (s : List Tid) (t : Tid) (o : Outcome), ((run ctxOld (init ctxOld) s).loc t).out = some o → o = ctxOldWant :=
  not_linearizable_of_witness _ _ _ _ _ ctx_old_unsafe (by decide)
theorem ctxOnload_old_not_linearizable :
    ¬ ∀ (s : List Tid) (t : Tid) (o : Outcome), ((run ctxOnloadOld (init ctxOnloadOld) s).loc t).out = some o → o = ctxOnloadOldWant :=
  not_linearizable_of_witness _ _ _ _ _ ctxOnload_old_wrong_value (by decide)
theorem eng_old_not_linearizable :
    ¬ ∀ (s : List Tid) (t : Tid) (o : Outcome), ((run engOld (init engOld) s).loc t).out = some o → o = engOldWant :=
  not_linearizable_of_witness _ _ _ _ _ eng_old_unsafe (by decide)
theorem stub_old_not_linearizable :
    ¬ ∀ (s : List Tid) (t : Tid) (o : Outcome), ((run stubOld (init stubOld) s).loc t).out = some o → o = stubOldWant :=
  not_linearizable_of_witness _ _ _ _ _ stub_old_unsafe (by decide)
theorem bcStub_old_not_linearizable :
    ¬ ∀ (s : List Tid) (t : Tid) (o : Outcome), ((run bcStubOld (init bcStubOld) s).loc t).out = some o → o = bcStubOldWant :=
  not_linearizable_of_witness _ _ _ _ _ bcStub_old_unsafe (by decide)

/-- the invariant check rejects the old protocols (this is what a regression to the old text does to `*_checks`; the
    exploration stops at the first view of a thread that finished with something else than the single-thread outcome) -/
theorem old_checks_fail :
    checks ctxOld ctxOldWant true (reachFor ctxOld ctxOldWant fuel) = false ∧
      checks ctxOnloadOld ctxOnloadOldWant true (reachFor ctxOnloadOld ctxOnloadOldWant fuel) = false ∧
      checks engOld engOldWant true (reachFor engOld engOldWant fuel) = false := by decide +kernel

end Props.C19
