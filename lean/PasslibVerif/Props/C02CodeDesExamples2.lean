import PasslibVerif.Props.C02CodeDes
/-
Non-vacuity of Props.C02CodeDes (bigcrypt, crypt16, lmhash, des_cbc_encrypt, oracle10): every main theorem applied to a concrete value computed by the real code (/tmp/repo_clean at HEAD);
the hypotheses are discharged by `decide`, the specification side is evaluated by the kernel.
-/
namespace Props.C02CodeDes
open Py Model.B64 Model.Code.Des Spec.Formats
open Model.Verify (Secret)
open Lemmas.C02CodeDes

/-- `bigcrypt(salt="S/")._calc_checksum(b"a longer password")` == "qkHb6diYxyg2ZetEt2brckT0Pc..GTjqQ"` (three segments; computed by /tmp/repo_clean) -/
example : bigcryptCalc (.bytes (ascii "a longer password")) (ascii "S/")
    = .ok (ascii "qkHb6diYxyg2ZetEt2brckT0Pc..GTjqQ") := by
  rw [bigcrypt_calc_eq_spec _ _ (by decide) (by decide) (by decide)]; decide +kernel

/-- `crypt16(salt="aa")._calc_checksum(b"passphrase\xff\x00abcdefgh") == "X/UmCcBrceQGwyZu6PTwpg"` (a NUL and a high byte in the
    second half, bytes beyond 16 ignored) -/
example : crypt16Calc (.bytes (ascii "passphrase" ++ [0xff, 0x00] ++ ascii "abcdefgh")) (ascii "aa") = .ok (ascii "X/UmCcBrceQGwyZu6PTwpg") := by
  rw [crypt16_calc_eq_spec _ _ (by decide) (by decide) false (Or.inl rfl)]; decide +kernel

/-- `lmhash()._calc_checksum(b"Passw\xf6rd12345") == "ab2445cb975ab06ce1c7c53891cb0efa"` (15 bytes: truncated to 14) -/
example : lmhashCalcBytes (ascii "Passw" ++ [0xf6] ++ ascii "rd12345") = .ok (ascii "ab2445cb975ab06ce1c7c53891cb0efa") := by
  rw [lmhash_calc_eq_spec]; decide +kernel

/-- `des_cbc_encrypt(ORACLE10_MAGIC, b"hello world").hex() == "a3364d284b9025fe"`;
    `oracle10(user="system")._calc_checksum("manager") == "D4DF7931AB130E37"` (computed by /tmp/repo_clean) -/
example : desCbcEncrypt ORACLE10_MAGIC (ascii "hello world") = .ok [0xa3, 0x36, 0x4d, 0x28, 0x4b, 0x90, 0x25, 0xfe] := by
  rw [des_cbc_encrypt_eq_spec _ _ (by decide) (by decide) (by decide)]; decide +kernel

example : oracle10CalcInput (oracleRaw (ascii "manager") (ascii "system")) = .ok (ascii "D4DF7931AB130E37") := by
  rw [oracle10_calc_eq_spec _ _ (by decide)]; decide +kernel

example : oracleRaw (ascii "manager") (ascii "system") = (ascii "SYSTEMMANAGER").flatMap fun c => [0, c] := by decide


end Props.C02CodeDes
