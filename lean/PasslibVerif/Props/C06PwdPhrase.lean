import PasslibVerif.Props.C06Pwd
/-
C06 — the passphrase generator of passlib/pwd.py (Model.PwdGen.phraseNext): word sequences ↔ phrases.
`sep.join(words)` loses nothing when the separator is ONE symbol that occurs in no word (the default " " with every named wordset:
checked on every run by tools/corr/c06_pwd.py `pgen wsok`).  Counterexamples: a separator that occurs in a word; a separator of
several symbols that occurs in NO word (the hypothesis "occurs in no word" alone is not enough); the empty separator.
-/
namespace Props.C06Pwd
open Py Model.PwdGen Lemmas.PwdGen

theorem append_sep_inj (c : Nat) : ∀ (w w' t t' : List Nat), c ∉ w → c ∉ w' → w ++ c :: t = w' ++ c :: t' → w = w' ∧ t = t'
  | [], [], t, t', _, _, h => by simp only [List.nil_append, List.cons.injEq, true_and] at h; exact ⟨rfl, h⟩
  | [], a :: w', t, t', _, h', h => by
    simp only [List.nil_append, List.cons_append, List.cons.injEq] at h
    exact absurd (by simp [h.1]) h'
  | a :: w, [], t, t', h', _, h => by
    simp only [List.nil_append, List.cons_append, List.cons.injEq] at h
    exact absurd (by simp [h.1]) h'
  | a :: w, b :: w', t, t', hw, hw', h => by
    simp only [List.cons_append, List.cons.injEq] at h
    have := append_sep_inj c w w' t t' (fun hm => hw (by simp [hm])) (fun hm => hw' (by simp [hm])) h.2
    exact ⟨by rw [h.1, this.1], this.2⟩

/-- `sep.join` is injective on sequences of the same length of words that do not contain the one-symbol separator -/
theorem joinSep_injective (c : Nat) : ∀ (ws ws' : List Word), ws.length = ws'.length → (∀ w ∈ ws, c ∉ w) → (∀ w ∈ ws', c ∉ w) →
    joinSep [c] ws = joinSep [c] ws' → ws = ws'
  | [], [], _, _, _, _ => rfl
  | [], _ :: _, hl, _, _, _ => by simp at hl
  | _ :: _, [], hl, _, _, _ => by simp at hl
  | [w], [w'], _, _, _, h => by simp only [joinSep] at h; rw [h]
  | [_], _ :: _ :: _, hl, _, _, _ => by simp at hl
  | _ :: _ :: _, [_], hl, _, _, _ => by simp at hl
  | w :: x :: r, w' :: x' :: r', hl, hw, hw', h => by
    simp only [joinSep, List.append_assoc, List.singleton_append] at h
    have := append_sep_inj c w w' _ _ (hw w (by simp)) (hw' w' (by simp)) h
    have ih := joinSep_injective c (x :: r) (x' :: r') (by simpa using hl) (fun v hv => hw v (by simp [hv]))
      (fun v hv => hw' v (by simp [hv])) this.2
    rw [this.1, ih]

theorem chooseAll_ok (words : List Word) : ∀ (idxs : List Nat), (∀ i ∈ idxs, i < words.length) →
    chooseAll words idxs = .ok (idxs.map (fun i => words.getD i []))
  | [], _ => rfl
  | i :: is, h => by
    have hi : i < words.length := h i (by simp)
    simp only [chooseAll, choice, List.getElem?_eq_getElem hi, bind, Except.bind, pure, Except.pure,
      chooseAll_ok words is (fun j hj => h j (by simp [hj])), List.map_cons, List.getD, Option.getD_some]

/-- declared shape: `length` words of the list, joined by the separator — the source is asked `length` indices below `len(words)` -/
theorem phrase_has_declared_shape (g : PhraseGen) (h0 : 0 < g.words.length) (idxs : List Nat) (hl : idxs.length = g.length)
    (hi : ∀ i ∈ idxs, i < g.words.length) :
    ∃ ws, phraseNext g idxs = .ok (joinSep g.sep ws) ∧ ws.length = g.length ∧ (∀ w ∈ ws, w ∈ g.words) ∧
      phraseDemand g = List.replicate g.length g.words.length := by
  have h0' : g.words.length ≠ 0 := by omega
  refine ⟨idxs.map (fun i => g.words.getD i []), ?_, by simp [hl], ?_, by simp [phraseDemand, h0']⟩
  · simp only [phraseNext, chooseAll_ok g.words idxs hi, bind, Except.bind, pure, Except.pure]
  · intro w hw
    rcases List.mem_map.1 hw with ⟨i, hi', rfl⟩
    have := hi i hi'
    simp only [List.getD, List.getElem?_eq_getElem this, Option.getD_some]
    exact List.getElem_mem _

theorem map_getD_injective (words : List Word) (hnd : words.Nodup) : ∀ (a b : List Nat), (∀ i ∈ a, i < words.length) →
    (∀ i ∈ b, i < words.length) → a.map (fun i => words.getD i []) = b.map (fun i => words.getD i []) → a = b
  | [], [], _, _, _ => rfl
  | [], _ :: _, _, _, h => by simp at h
  | _ :: _, [], _, _, h => by simp at h
  | x :: a, y :: b, ha, hb, h => by
    simp only [List.map_cons, List.cons.injEq] at h
    have hx := ha x (by simp); have hy := hb y (by simp)
    have hxy : x = y := (List.getD_inj hx hy hnd).1 h.1
    rw [hxy, map_getD_injective words hnd a b (fun i hi => ha i (by simp [hi])) (fun i hi => hb i (by simp [hi])) h.2]

/-- uniformity for phrases: over a duplicate-free word list and a one-symbol separator that occurs in no word, two different
    sequences of source outcomes (indices below `len(words)`) give two different phrases … -/
theorem phrase_generator_injective (g : PhraseGen) (c : Nat) (hsep : g.sep = [c]) (hnd : g.words.Nodup)
    (hfree : ∀ w ∈ g.words, c ∉ w) (a b : List Nat) (hla : a.length = g.length) (hlb : b.length = g.length)
    (ha : ∀ i ∈ a, i < g.words.length) (hb : ∀ i ∈ b, i < g.words.length) (h : phraseNext g a = phraseNext g b) : a = b := by
  simp only [phraseNext, chooseAll_ok g.words a ha, chooseAll_ok g.words b hb, bind, Except.bind, pure, Except.pure,
    Except.ok.injEq, hsep] at h
  have hmem : ∀ (l : List Nat), (∀ i ∈ l, i < g.words.length) → ∀ w ∈ l.map (fun i => g.words.getD i []), c ∉ w := by
    intro l hl w hw
    rcases List.mem_map.1 hw with ⟨i, hi', rfl⟩
    have := hl i hi'
    simp only [List.getD, List.getElem?_eq_getElem this, Option.getD_some]
    exact hfree _ (List.getElem_mem _)
  exact map_getD_injective g.words hnd a b ha hb
    (joinSep_injective c _ _ (by simp [hla, hlb]) (hmem a ha) (hmem b hb) h)

/-- … and every sequence of `length` words of the list is produced by a sequence of source outcomes -/
theorem phrase_generator_surjective (g : PhraseGen) (ws : List Word) (hl : ws.length = g.length) (hw : ∀ w ∈ ws, w ∈ g.words) :
    ∃ idxs, idxs.length = g.length ∧ (∀ i ∈ idxs, i < g.words.length) ∧ phraseNext g idxs = .ok (joinSep g.sep ws) := by
  refine ⟨ws.map (g.words.idxOf ·), by simp [hl], ?_, ?_⟩
  · intro i hi
    rcases List.mem_map.1 hi with ⟨w, hw', rfl⟩
    exact List.idxOf_lt_length_of_mem (hw w hw')
  · have hi : ∀ i ∈ ws.map (g.words.idxOf ·), i < g.words.length := by
      intro i hi
      rcases List.mem_map.1 hi with ⟨w, hw', rfl⟩
      exact List.idxOf_lt_length_of_mem (hw w hw')
    have hmap : (ws.map (g.words.idxOf ·)).map (fun i => g.words.getD i []) = ws := by
      clear hi hl
      induction ws with
      | nil => rfl
      | cons w ws ih =>
        simp only [List.map_cons, List.cons.injEq]
        refine ⟨?_, ih (fun v hv => hw v (by simp [hv]))⟩
        have hlt : g.words.idxOf w < g.words.length := List.idxOf_lt_length_of_mem (hw w (by simp))
        simp only [List.getD, List.getElem?_eq_getElem hlt, Option.getD_some]
        exact List.getElem_idxOf hlt
    simp only [phraseNext, chooseAll_ok g.words _ hi, hmap, bind, Except.bind, pure, Except.pure]

/-- the constructor refuses a word list with a repeated word -/
theorem phrase_generator_refuses_duplicates (minLen : Nat → Nat → Nat) (table : Wordset → List Word) (ws : List Word) (sep : Option Word)
    (seq : SeqOpts) (hd : ¬ ws.Nodup) : phraseInit minLen table { words := some ws, sep, seq } = .error .valueError := by
  simp only [phraseInit, bind, Except.bind, pure, Except.pure, ne_eq, not_true_eq_false, if_false, ensureUnique_error ws hd]

/-! ### counterexamples: two word sequences, one phrase -/
def gen (words : List Word) (sep : Word) : PhraseGen := { words, wordset := none, sep, length := 2, requestedEntropy := none }

/-- the separator " " occurs in a word: ("a b","a") and ("a","b a") are both "a b a" -/
theorem phrase_separator_in_word_counterexample :
    phraseNext (gen [[97, 32, 98], [97], [98, 32, 97]] [32]) [0, 1] = phraseNext (gen [[97, 32, 98], [97], [98, 32, 97]] [32]) [1, 2] ∧
    phraseNext (gen [[97, 32, 98], [97], [98, 32, 97]] [32]) [0, 1] = .ok [97, 32, 98, 32, 97] := by decide

/-- a separator of SEVERAL symbols that occurs in no word is not enough: words b, ab, ba with sep "aa": (b, ab) and (ba, b) are
    both "baaab" -/
theorem phrase_multi_symbol_separator_counterexample :
    phraseNext (gen [[98], [97, 98], [98, 97]] [97, 97]) [0, 1] = phraseNext (gen [[98], [97, 98], [98, 97]] [97, 97]) [2, 0] ∧
    phraseNext (gen [[98], [97, 98], [98, 97]] [97, 97]) [0, 1] = .ok [98, 97, 97, 97, 98] := by decide

/-- the empty separator: words a, ab, b, bb: (a, bb) and (ab, b) are both "abb" -/
theorem phrase_empty_separator_counterexample :
    phraseNext (gen [[97], [97, 98], [98], [98, 98]] []) [0, 3] = phraseNext (gen [[97], [97, 98], [98], [98, 98]] []) [1, 2] ∧
    phraseNext (gen [[97], [97, 98], [98], [98, 98]] []) [0, 3] = .ok [97, 98, 98] := by decide

/-! ### non-vacuity -/
-- PhraseGenerator(words=["a","bc","d"], length=3) with the source answering 0,1,2: "a bc d"
example : phraseNext { words := [[97], [98, 99], [100]], wordset := none, sep := [32], length := 3, requestedEntropy := none } [0, 1, 2] =
    .ok [97, 32, 98, 99, 32, 100] := by decide
example : phraseInit exactMinLen (fun _ => []) { words := some [[97], [98, 99], [100]], seq := { length := some 3 } } =
    .ok { words := [[97], [98, 99], [100]], wordset := none, sep := [32], length := 3, requestedEntropy := none } := by decide +kernel
example : phraseInit exactMinLen (fun _ => []) { words := some [[97], [97]] } = .error .valueError := by decide +kernel

end Props.C06Pwd
