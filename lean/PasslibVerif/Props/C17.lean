import PasslibVerif.Lemmas.ShapesOut
import PasslibVerif.Model.Context
import PasslibVerif.Lemmas.Context
/-
C17 — every shipped context recognises the hashes of each of its own schemes.

The contexts are the LOADED objects' scheme lists, reflected into `Gen.Contexts` on every run (passlib.apps, passlib.hosts,
passlib.apache.htpasswd_context, the presets of passlib.ext.django) together with the registry table.  Every registered name
has a row in `Model.Shapes.scheme`: its format model (tied to the real hasher by `./check C07` and by this check's
`shape` / `identify` comparison), an identify-shape and an output-shape.

  shape_disjoint_sound     `Shape.disjoint s t = true → ¬ (s.accepts h ∧ t.accepts h)`
  identify_in_shape        f.identify h = true → (idShape f).accepts h                  (all 76 names)
  render_in_shape          WF x → (outShape f).accepts (f.render x)                     (all modelled names)
  render_self_identified   WF x → f.identify (f.render x) = true
  shipped_tables_ok        kernel `decide` over ALL reflected contexts: no earlier identify-shape meets a later output-shape
  no_shadowing             … hence `t.identify (s.render x) = false` for every earlier t
  attributed               … hence `Model.Context.identify` (first claimer wins) returns s
  overlaps, with witnesses: hex_md4 / hex_md5 and cta_pbkdf2_sha1 / dlitz_pbkdf2_sha1 in master_context; the password-
  echoing schemes (plaintext in htpasswd_context, ldap_plaintext in the LDAP contexts).
-/
namespace Props.C17
open Py Model.Handler Model.Formats Model.Shapes Lemmas.Shapes Lemmas.Formats
open Gen.Contexts

/-! ### the calculus and the two lemma families -/
theorem shape_disjoint_sound (s t : Shape) (h : Str) (hd : Shape.disjoint s t = true) :
    ¬ (s.accepts h = true ∧ t.accepts h = true) := disjoint_sound s t h hd

theorem identify_in_shape (n : Name) (h : Str) (hi : (scheme n).fmt.identify h = true) : (scheme n).idShape.accepts h = true :=
  id_sound n h hi

theorem render_in_shape (n : Name) (x : Parsed) (hw : wf n x) : (scheme n).outShape.accepts ((scheme n).fmt.render x) = true :=
  out_sound n x hw

theorem render_self_identified (n : Name) (x : Parsed) (hw : wf n x) : (scheme n).fmt.identify ((scheme n).fmt.render x) = true :=
  self_id n x hw

/-! ### scheme options of a context that restrict the emitted strings (`bcrypt__ident="2y"`, `phpass__ident="H"`) -/
/-- well-formed settings of scheme `n` as configured in context `c` -/
def wfIn (c : Ctx) (n : Name) (x : Parsed) : Prop := wf n x ∧ ∀ i, c.idents.lookup n = some i → x.ident = ofString i

/-- the reflected ident options only concern hashers that print `ident` first, and each alternative of their output
    shape either lies below the configured ident or clashes with it -/
def identsOk (c : Ctx) : Bool :=
  c.idents.all fun e => (e.1 == Name.bcrypt || e.1 == Name.phpass) &&
    (scheme e.1).outShape.all fun b => (ofString e.2).isPrefixOf b.pre || clash (ofString e.2) b.pre

theorem lookup_mem {α β} [BEq α] [LawfulBEq α] (k : α) (v : β) : ∀ (l : List (α × β)), l.lookup k = some v → (k, v) ∈ l
  | [], h => by simp [List.lookup] at h
  | (a, b) :: rest, h => by
    simp only [List.lookup] at h
    split at h
    · rename_i heq
      have : k = a := by simpa using heq
      simp only [Option.some.injEq] at h
      subst this h; exact List.mem_cons_self
    · exact List.mem_cons_of_mem _ (lookup_mem k v rest h)

theorem render_in_shape_of_context (c : Ctx) (hc : identsOk c = true) (n : Name) (x : Parsed) (hw : wfIn c n x) :
    (outShapeIn c n).accepts ((scheme n).fmt.render x) = true := by
  unfold outShapeIn
  cases hl : c.idents.lookup n with
  | none => exact out_sound n x hw.1
  | some i =>
    have hm := lookup_mem n i c.idents hl
    unfold identsOk at hc
    rw [List.all_eq_true] at hc
    have := hc (n, i) hm
    simp only [Bool.and_eq_true, Bool.or_eq_true, beq_iff_eq, List.all_eq_true] at this
    obtain ⟨hn, hcl⟩ := this
    have hpre : (ofString i).isPrefixOf ((scheme n).fmt.render x) = true := by
      rw [← hw.2 i hl]; exact ident_prefix n hn x
    exact under_accepts (ofString i) (scheme n).outShape _ (out_sound n x hw.1) hpre hcl

/-! ### the reflected tables -/
/-- pairs (earlier, later) that genuinely overlap on the code (witnesses below); both occur in master_context only -/
def knownOverlaps : List (Name × Name) := [(.cta_pbkdf2_sha1, .dlitz_pbkdf2_sha1), (.hex_md4, .hex_md5)]

set_option maxRecDepth 100000 in
/-- THE TABLE CHECK (kernel): in every exported context, in configured order, the identify-shape of each earlier scheme
    is disjoint from the output-shape of each later one — known overlaps and password-echoing schemes excepted -/
theorem shipped_tables_ok : (shipped.all fun c => ctxOk c knownOverlaps && identsOk c) = true := by decide +kernel

/-- the excepted pairs occur in `passlib.apps.master_context` and nowhere else -/
theorem overlaps_only_in_master :
    (shipped.filter fun c => knownOverlaps.any fun e => c.schemes.contains e.1 && c.schemes.contains e.2).map (·.label) =
      ["passlib.apps.master_context"] := by decide +kernel

theorem okFrom_spec (c : Ctx) (exc : List (Name × Name)) : ∀ (rest earlier : List Name), okFrom c exc earlier rest = true →
    ∀ pre s post, rest = pre ++ s :: post → ∀ t, t ∈ earlier ++ pre →
      (scheme s).plain = true ∨ (t, s) ∈ exc ∨ Shape.disjoint (scheme t).idShape (outShapeIn c s) = true
  | [], _, _, pre, s, post, hsp, _, _ => by cases pre <;> simp at hsp
  | r :: rest, earlier, hok, pre, s, post, hsp, t, ht => by
    simp only [okFrom, Bool.and_eq_true, Bool.or_eq_true, List.all_eq_true] at hok
    obtain ⟨hhead, htail⟩ := hok
    cases pre with
    | nil =>
      simp only [List.nil_append, List.cons.injEq] at hsp
      obtain ⟨rfl, _⟩ := hsp
      rcases hhead with hp | hall
      · exact Or.inl hp
      · simp only [List.append_nil] at ht
        rcases hall t ht with h1 | h1
        · right; left; simpa using h1
        · exact Or.inr (Or.inr h1)
    | cons p pre' =>
      simp only [List.cons_append, List.cons.injEq] at hsp
      obtain ⟨rfl, hrest⟩ := hsp
      refine okFrom_spec c exc rest (earlier ++ [r]) htail pre' s post hrest t ?_
      simp only [List.mem_append, List.mem_cons, List.not_mem_nil, or_false] at ht ⊢
      rcases ht with h1 | h1 | h1
      · exact Or.inl (Or.inl h1)
      · exact Or.inl (Or.inr h1)
      · exact Or.inr h1

/-- NO SHADOWING for any scheme list that passes the table check: a hash rendered by scheme `s` (from well-formed
    settings, under the context's options) is rejected by the `identify` of every scheme configured before it -/
theorem no_shadowing_of_ok (c : Ctx) (exc : List (Name × Name)) (hok : ctxOk c exc = true) (hio : identsOk c = true)
    (pre : List Name) (s : Name) (post : List Name)
    (hsplit : c.schemes = pre ++ s :: post) (t : Name) (ht : t ∈ pre)
    (hplain : (scheme s).plain = false) (hexc : (t, s) ∉ exc) (x : Parsed) (hw : wfIn c s x) :
    (scheme t).fmt.identify ((scheme s).fmt.render x) = false := by
  have := okFrom_spec c exc c.schemes [] hok pre s post hsplit t (by simpa using ht)
  rcases this with h1 | h1 | h1
  · rw [hplain] at h1; cases h1
  · exact absurd h1 hexc
  · cases hid : (scheme t).fmt.identify ((scheme s).fmt.render x) with
    | false => rfl
    | true =>
      exact absurd ⟨id_sound t _ hid, render_in_shape_of_context c hio s x hw⟩ (disjoint_sound _ _ _ h1)

/-- NO SHADOWING in every exported context -/
theorem no_shadowing (c : Ctx) (hc : c ∈ shipped) (pre : List Name) (s : Name) (post : List Name)
    (hsplit : c.schemes = pre ++ s :: post) (t : Name) (ht : t ∈ pre)
    (hplain : (scheme s).plain = false) (hexc : (t, s) ∉ knownOverlaps) (x : Parsed) (hw : wfIn c s x) :
    (scheme t).fmt.identify ((scheme s).fmt.render x) = false := by
  have hall := List.all_eq_true.1 shipped_tables_ok c hc
  simp only [Bool.and_eq_true] at hall
  exact no_shadowing_of_ok c knownOverlaps hall.1 hall.2 pre s post hsplit t ht hplain hexc x hw

/-! ### through `CryptContext.identify` (Model.Context: the FIRST configured scheme whose identify accepts wins) -/
def nameOf (s : String) : Option Name := allNames.find? (·.str == s)

set_option maxRecDepth 100000 in
theorem nameOf_str : (allNames.all fun n => nameOf n.str == some n) = true := by decide +kernel

theorem mem_allNames (n : Name) : n ∈ allNames := by cases n <;> decide

theorem nameOf_str' (n : Name) : nameOf n.str = some n := by
  have := List.all_eq_true.1 nameOf_str n (mem_allNames n)
  simpa using this

/-- what each configured hasher answers for the string `h` -/
def factsOf (h : Str) : Model.Context.HashFacts :=
  ⟨fun nm => match nameOf nm with | some n => (scheme n).fmt.identify h | none => false, none, false, .ok true⟩

def infoOf (n : Name) : Model.Context.SchemeInfo := ⟨n.str, none, [], false⟩
def cfgOf (c : Ctx) : Model.Context.Cfg := ⟨c.schemes.map infoOf, [], [], []⟩

theorem find_first {α} (p : α → Bool) : ∀ (pre : List α) (s : α) (post : List α), (∀ t ∈ pre, p t = false) → p s = true →
    (pre ++ s :: post).find? p = some s
  | [], s, post, _, hs => by simp [List.find?, hs]
  | a :: pre, s, post, hpre, hs => by
    have ha := hpre a List.mem_cons_self
    simp only [List.cons_append, List.find?, ha]
    exact find_first p pre s post (fun t ht => hpre t (List.mem_cons_of_mem _ ht)) hs

/-- ATTRIBUTION: `ctx.identify(hash)` of a hash made by scheme `s` of a shipped context is `s` -/
theorem attributed (c : Ctx) (hc : c ∈ shipped) (pre : List Name) (s : Name) (post : List Name)
    (hsplit : c.schemes = pre ++ s :: post) (hplain : (scheme s).plain = false)
    (hexc : ∀ t ∈ pre, (t, s) ∉ knownOverlaps) (x : Parsed) (hw : wfIn c s x) :
    Model.Context.identify (cfgOf c) (factsOf ((scheme s).fmt.render x)) = .ok (infoOf s) := by
  unfold Model.Context.identify cfgOf
  simp only [hsplit, List.map_append, List.map_cons]
  rw [find_first _ (pre.map infoOf) (infoOf s) (post.map infoOf)]
  · intro t ht
    obtain ⟨n, hn, rfl⟩ := List.mem_map.1 ht
    simp only [factsOf, infoOf, nameOf_str']
    exact no_shadowing c hc pre s post hsplit n hn hplain (hexc n hn) x hw
  · simp only [factsOf, infoOf, nameOf_str']
    exact self_id s x hw.1

/-- conversely (C04's `identify_first_claimer` instantiated): whatever `ctx.identify` answers was claimed by that scheme
    and by no earlier one -/
theorem identify_is_first_claimer (c : Ctx) (h : Str) (s : Model.Context.SchemeInfo)
    (hi : Model.Context.identify (cfgOf c) (factsOf h) = .ok s) :
    ∃ pre post, (cfgOf c).schemes = pre ++ s :: post ∧ (factsOf h).claims s.name = true ∧ ∀ t ∈ pre, (factsOf h).claims t.name = false :=
  Lemmas.Context.identify_first_claimer (cfgOf c) (factsOf h) s hi

/-! ### catch-all schemes never shadow a real one; the order matters -/
/-- `_init_htpasswd_context` as transcribed reproduces the loaded context on this host -/
theorem htpasswd_build_matches : htpasswdBuild true hostSupported = apache_htpasswd_context.schemes := by decide +kernel

def htpasswdCtx (schemes : List Name) : Ctx := ⟨"htpasswd", schemes, none, apache_htpasswd_context.idents, []⟩

set_option maxRecDepth 100000 in
/-- whatever subset of `unix_crypt_schemes` the host's crypt() supports, htpasswd_context passes the table check -/
theorem htpasswd_any_host : ((sublists unixCryptSchemes).all fun host => ctxOk (htpasswdCtx (htpasswdBuild true host))) = true := by
  decide +kernel

/-- the order before commit 79f0ca1 (plaintext sorted in front of the host's crypt() schemes) is REJECTED -/
theorem htpasswd_old_order_rejected :
    htpasswdBuild false hostSupported =
      [.bcrypt, .sha256_crypt, .sha512_crypt, .apr_md5_crypt, .des_crypt, .ldap_sha1, .plaintext, .sha1_crypt, .md5_crypt, .bsdi_crypt] ∧
    ctxOk (htpasswdCtx (htpasswdBuild false hostSupported)) = false ∧
    (overlaps (htpasswdCtx (htpasswdBuild false hostSupported))).filter (fun e => !(scheme e.2).plain) =
      [(.plaintext, .sha1_crypt), (.plaintext, .md5_crypt), (.plaintext, .bsdi_crypt)] := by decide +kernel

/-- … and really was wrong: plaintext claims an md5_crypt hash -/
theorem plaintext_claims_everything (n : Name) (x : Parsed) : (scheme .plaintext).fmt.identify ((scheme n).fmt.render x) = true := rfl

set_option maxRecDepth 100000 in
/-- passlib.hosts.host_context on ANY host: the supported part of `unix_crypt_schemes`, then unix_disabled -/
theorem host_context_any_host :
    ((sublists unixCryptSchemes).all fun host => ctxOk ⟨"host", host ++ [.unix_disabled], none, [], []⟩) = true := by decide +kernel

theorem host_context_matches : hosts_host_context.schemes = hostSupported ++ [.unix_disabled] := by decide

/-- … so on ANY host no scheme of htpasswd_context / host_context shadows a later one -/
theorem htpasswd_no_shadowing_any_host (host : List Name) (hh : host ∈ sublists unixCryptSchemes)
    (pre : List Name) (s : Name) (post : List Name) (hsplit : htpasswdBuild true host = pre ++ s :: post) (t : Name) (ht : t ∈ pre)
    (hplain : (scheme s).plain = false) (x : Parsed) (hw : wfIn (htpasswdCtx (htpasswdBuild true host)) s x) :
    (scheme t).fmt.identify ((scheme s).fmt.render x) = false :=
  no_shadowing_of_ok (htpasswdCtx (htpasswdBuild true host)) [] (List.all_eq_true.1 htpasswd_any_host host hh)
    (show identsOk (htpasswdCtx []) = true by decide) pre s post hsplit t ht hplain (by simp) x hw

theorem host_context_no_shadowing_any_host (host : List Name) (hh : host ∈ sublists unixCryptSchemes)
    (pre : List Name) (s : Name) (post : List Name) (hsplit : host ++ [.unix_disabled] = pre ++ s :: post) (t : Name) (ht : t ∈ pre)
    (x : Parsed) (hw : wf s x) : (scheme t).fmt.identify ((scheme s).fmt.render x) = false := by
  have hok := List.all_eq_true.1 host_context_any_host host hh
  have hpl : (scheme s).plain = false := by
    have hs : s ∈ host ++ [Name.unix_disabled] := by rw [hsplit]; simp
    have hsub : ∀ l ∈ sublists unixCryptSchemes, ∀ n ∈ l, n ∈ unixCryptSchemes := by decide +kernel
    rcases List.mem_append.1 hs with h1 | h1
    · have := hsub host hh s h1
      simp only [unixCryptSchemes, List.mem_cons, List.not_mem_nil, or_false] at this
      rcases this with rfl | rfl | rfl | rfl | rfl | rfl | rfl <;> rfl
    · simp only [List.mem_singleton] at h1; subst h1; rfl
  exact no_shadowing_of_ok ⟨"host", host ++ [.unix_disabled], none, [], []⟩ [] hok rfl pre s post hsplit t ht hpl (by simp) x
    ⟨hw, fun i hi => by simp [List.lookup] at hi⟩

/-- moving any catch-all in front of a real scheme fails the check (each line is a context that must NOT pass) -/
theorem catch_all_first_rejected :
    ctxOk ⟨"", [.plaintext, .md5_crypt], none, [], []⟩ = false ∧
    ctxOk ⟨"", [.ldap_plaintext, .ldap_salted_sha1], none, [], []⟩ = false ∧
    ctxOk ⟨"", [.roundup_plaintext, .ldap_hex_sha1], none, [], []⟩ = true ∧      -- `{plaintext}` is a real prefix
    ctxOk ⟨"", [.unix_disabled, .des_crypt], none, [], []⟩ = true ∧              -- `!` / `*` never start a des_crypt hash
    ctxOk ⟨"", [.django_disabled, .hex_md5], none, [], []⟩ = true ∧
    ctxOk ⟨"", [.hex_md5, .django_salted_md5], none, [], []⟩ = true ∧
    ctxOk ⟨"", [.des_crypt, .cisco_asa, .bigcrypt], none, [], []⟩ = false ∧      -- bigcrypt: any multiple of 11, incl. des_crypt's
    ctxOk ⟨"", [.hex_md5, .nthash], none, [], []⟩ = false := by decide +kernel

/-! ### overlaps on the real code, with witnesses -/
/-- master_context: hex_md4 is configured before hex_md5 and claims every hex_md5 hash -/
theorem overlap_hex_md4_hex_md5 (x : Parsed) (hw : wf .hex_md5 x) :
    (scheme .hex_md4).fmt.identify ((scheme .hex_md5).fmt.render x) = true := self_id .hex_md4 x hw

/-- master_context: cta_pbkdf2_sha1 is configured before dlitz_pbkdf2_sha1; both are recognised by `$p5k2$` alone -/
theorem overlap_cta_dlitz (x : Parsed) (hw : wf .dlitz_pbkdf2_sha1 x) :
    (scheme .cta_pbkdf2_sha1).fmt.identify ((scheme .dlitz_pbkdf2_sha1).fmt.render x) = true := self_id .dlitz_pbkdf2_sha1 x hw

def md5OfPassword : Parsed := { checksum := some (ofString "5f4dcc3b5aa765d61d8327deb882cf99") }
def dlitzOfPassword : Parsed :=
  { ident := P5K2_IDENT, rounds := some 1000, salt := some (ofString "XTvXyOsw"), checksum := some (ofString "yg8vyXWKTdYlc3xyU6wxdGdQ1.tNer0D") }

/-- concrete witnesses (the strings are in KNOWN_FINDINGS.jsonl and are replayed on the real code) -/
theorem overlap_witnesses :
    hex_md5.render md5OfPassword = ofString "5f4dcc3b5aa765d61d8327deb882cf99" ∧
    hex_md4.identify (ofString "5f4dcc3b5aa765d61d8327deb882cf99") = true ∧
    (scheme .dlitz_pbkdf2_sha1).fmt.render dlitzOfPassword = ofString "$p5k2$3e8$XTvXyOsw$yg8vyXWKTdYlc3xyU6wxdGdQ1.tNer0D" ∧
    (scheme .cta_pbkdf2_sha1).fmt.identify (ofString "$p5k2$3e8$XTvXyOsw$yg8vyXWKTdYlc3xyU6wxdGdQ1.tNer0D") = true := by
  decide +kernel

/-- the password-echoing schemes: the stored string IS the password, so a password that looks like another scheme's
    hash is attributed to that scheme (htpasswd_context: plaintext; LDAP contexts: ldap_plaintext, where even a string
    ldap_plaintext itself identifies is claimed first by ldap_salted_sha1) -/
theorem plain_overlap_witnesses :
    wf .plaintext { checksum := some (ofString "$1$abc") } ∧
    md5_crypt.identify (plaintext.render { checksum := some (ofString "$1$abc") }) = true ∧
    des_crypt.identify (plaintext.render { checksum := some (ofString "ab") }) = true ∧
    wf .ldap_plaintext { checksum := some (ofString "{SSHA}a\nb") } ∧
    ldap_plaintext.identify (ofString "{SSHA}a\nb") = true ∧
    ldap_salted_sha1.identify (ldap_plaintext.render { checksum := some (ofString "{SSHA}a\nb") }) = true := by
  refine ⟨⟨rfl, rfl, rfl, rfl, _, rfl, trivial⟩, by decide +kernel, by decide +kernel, ⟨rfl, rfl, rfl, rfl, _, rfl, by decide +kernel⟩,
    by decide +kernel, by decide +kernel⟩

theorem infoOf_inj (a b : Name) (h : infoOf a = infoOf b) : a = b := by
  have h1 := nameOf_str' a
  have h2 := nameOf_str' b
  simp only [infoOf, Model.Context.SchemeInfo.mk.injEq] at h
  rw [h.1, h2] at h1
  exact (Option.some.inj h1).symm

theorem claims_infoOf (h : Str) (n : Name) : (factsOf h).claims (infoOf n).name = (scheme n).fmt.identify h := by
  simp [factsOf, infoOf, nameOf_str']

theorem first_claimer_in (h : Str) : ∀ (l r : List Name), (∃ u ∈ l, (scheme u).fmt.identify h = true) →
    ∃ u ∈ l, ((l ++ r).map infoOf).find? (fun v => (factsOf h).claims v.name) = some (infoOf u)
  | [], _, ⟨_, hu, _⟩ => by cases hu
  | y :: ys, r, ⟨u, hu, huc⟩ => by
    cases hy : (scheme y).fmt.identify h with
    | true =>
      refine ⟨y, List.mem_cons_self, ?_⟩
      simp only [List.cons_append, List.map_cons, List.find?, claims_infoOf, hy]
    | false =>
      rcases List.mem_cons.1 hu with rfl | hu'
      · rw [hy] at huc; cases huc
      · obtain ⟨v, hv, hvf⟩ := first_claimer_in h ys r ⟨u, hu', huc⟩
        refine ⟨v, List.mem_cons_of_mem _ hv, ?_⟩
        simp only [List.cons_append, List.map_cons, List.find?, claims_infoOf, hy]
        exact hvf

/-- exactly when does a password-echoing scheme keep its own string: when no earlier scheme identifies it -/
theorem plain_attributed_iff (c : Ctx) (pre : List Name) (s : Name) (post : List Name) (hsplit : c.schemes = pre ++ s :: post)
    (hfirst : s ∉ pre) (h : Str) (hs : (scheme s).fmt.identify h = true) :
    Model.Context.identify (cfgOf c) (factsOf h) = .ok (infoOf s) ↔ ∀ t ∈ pre, (scheme t).fmt.identify h = false := by
  constructor
  · intro hi t ht
    cases hc : (scheme t).fmt.identify h with
    | false => rfl
    | true =>
      exfalso
      obtain ⟨u, hu, huf⟩ := first_claimer_in h pre (s :: post) ⟨t, ht, hc⟩
      unfold Model.Context.identify cfgOf at hi
      simp only [hsplit, huf, Except.ok.injEq] at hi
      exact hfirst (infoOf_inj u s hi ▸ hu)
  · intro hall
    unfold Model.Context.identify cfgOf
    simp only [hsplit, List.map_append, List.map_cons]
    rw [find_first _ (pre.map infoOf) (infoOf s) (post.map infoOf)]
    · intro t ht
      obtain ⟨n, hn, rfl⟩ := List.mem_map.1 ht
      rw [claims_infoOf]
      exact hall n hn
    · rw [claims_infoOf]
      exact hs

/-! ### the registry table (reflected): every name loads a hasher carrying that name -/
theorem registry_names :
    registry.map (·.1) = allNames ∧ (registry.all fun r => r.2.1 == r.1.str) = true ∧ allNames.length = 76 ∧
    (allNames.map Name.str).Nodup := by
  refine ⟨by decide +kernel, by decide +kernel, by decide +kernel, by decide +kernel⟩

/-- every scheme of every shipped context has a row with a parse / render model, except the argon2 ones (no backend in
    the sandbox) and — in master_context only — fshp, scram, scrypt, which are identify-only rows -/
theorem unmodelled_in_contexts :
    ((shipped.flatMap (·.schemes)).filter fun n => !(scheme n).modelled).eraseDups = [.django_argon2, .argon2, .fshp, .scram, .scrypt] ∧
    ((shipped.filter fun c => c.label != "passlib.apps.master_context").flatMap (·.schemes)).all (fun n => (scheme n).modelled || n == .django_argon2) = true := by
  decide +kernel

/-! ### non-vacuity: concrete well-formed settings of shipped schemes, their renderings, and the attribution they get -/
def md5Sample : Parsed := { ident := ofString "$1$", salt := some (ofString "abcdefgh"), checksum := some (ofString "G//4keteveJp0qb8z2DxG/") }
def bcrypt2ySample : Parsed :=
  { ident := IDENT_2Y, rounds := some 4, salt := some (ofString "5BJqKfqMQvV7nS.yUguNcu"), checksum := some (ofString "ILW9FGllxJaVx5khwqoFfXDmHlUe9M6") }
def desSample : Parsed := { salt := some (ofString "ab"), checksum := some (ofString "JnggxhB/yWI") }
def phpassHSample : Parsed := { ident := ofString "$H$", rounds := some 7, salt := some (ofString "abcdefgh"), checksum := some (ofString "TirbPJao7vjX0d/TOtGeU/") }

theorem md5Sample_wf : wf .md5_crypt md5Sample := ⟨rfl, rfl, rfl, ⟨_, rfl, by decide, by decide⟩, Or.inr ⟨_, rfl, by decide, by decide⟩⟩
theorem desSample_wf : wf .des_crypt desSample := ⟨rfl, rfl, rfl, ⟨_, rfl, by decide, by decide⟩, ⟨_, rfl, by decide, by decide⟩⟩
theorem phpassHSample_wf : wf .phpass phpassHSample :=
  ⟨Or.inr rfl, rfl, ⟨7, rfl, by omega, by omega⟩, ⟨_, rfl, by decide, by decide⟩, Or.inr ⟨_, rfl, by decide, by decide⟩⟩

example : md5_crypt.render md5Sample = ofString "$1$abcdefgh$G//4keteveJp0qb8z2DxG/" := by decide
example : des_crypt.render desSample = ofString "abJnggxhB/yWI" := by decide
example : phpass.render phpassHSample = ofString "$H$5abcdefghTirbPJao7vjX0d/TOtGeU/" := by decide +kernel

/-- linux_context = [sha512_crypt, sha256_crypt, md5_crypt, des_crypt, unix_disabled]: an md5_crypt hash is attributed to md5_crypt -/
example : Model.Context.identify (cfgOf hosts_linux_context) (factsOf (md5_crypt.render md5Sample)) = .ok (infoOf .md5_crypt) :=
  attributed hosts_linux_context (by simp [shipped]) [.sha512_crypt, .sha256_crypt] .md5_crypt [.des_crypt, .unix_disabled] rfl rfl
    (by decide) md5Sample ⟨md5Sample_wf, fun i hi => by simp [hosts_linux_context, List.lookup] at hi⟩

/-- htpasswd_context: a des_crypt hash is not claimed by bcrypt, sha256_crypt, sha512_crypt, apr_md5_crypt -/
example : apr_md5_crypt.identify (des_crypt.render desSample) = false :=
  no_shadowing apache_htpasswd_context (by simp [shipped]) [.bcrypt, .sha256_crypt, .sha512_crypt, .apr_md5_crypt] .des_crypt
    [.ldap_sha1, .sha1_crypt, .md5_crypt, .bsdi_crypt, .plaintext] rfl .apr_md5_crypt (by decide) rfl (by decide) desSample
    ⟨desSample_wf, fun i hi => by
      rw [show apache_htpasswd_context.idents.lookup Name.des_crypt = none by decide] at hi; cases hi⟩

/-- phpbb3_context is configured with `phpass__ident="H"`: the settings it renders carry `$H$`, and the output shape used
    for it is the `$H$` alternative alone -/
example : outShapeIn apps_phpbb3_context .phpass = [{ pre := ofString "$H$" }] ∧ wfIn apps_phpbb3_context .phpass phpassHSample :=
  ⟨by decide, phpassHSample_wf, fun i hi => by
    have : i = "$H$" := by simpa [apps_phpbb3_context, List.lookup] using hi.symm
    subst this; rfl⟩
example : outShapeIn apache_htpasswd_context .bcrypt = [{ pre := IDENT_2Y, cls := .noneOf [NL] }] := by decide

/-- the direct evaluation agrees with what the theorems say (and with the real code, see tools/corr/C17.py) -/
example : (apache_htpasswd_context.schemes.map fun n => (scheme n).fmt.identify (des_crypt.render desSample)) =
    [false, false, false, false, true, false, false, false, false, true] := by decide +kernel

end Props.C17
