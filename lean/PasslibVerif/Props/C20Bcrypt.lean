import PasslibVerif.Model.LibpassBcrypt
import PasslibVerif.Lemmas.FormatsMiscLibpass
import PasslibVerif.Lemmas.FormatsStatic
/-
C20 — libpass `BcryptHasher` decision logic, for EVERY string and secret; `bcrypt.checkpw` is a parameter (external code, shared with
passlib's bcrypt hasher — what it computes is C02/C11's business).
-/
namespace Props.C20Bcrypt
open Py Model.Handler Model.Formats Model.Libpass Lemmas.FormatsMisc

/-- a string in the package's output layout `$<2a|2b|2y>$<cost:02>$<22 chars><31 chars>` is inspected back field by field -/
theorem inspect_rendered (h : BcHasher) (p : Parsed) (hs : Str) (hwf : LpBcryptWF p) (hr : lpBcryptRender p = .ok hs) :
    h.inspect hs = .ok (some p) := by
  have := lp_bcrypt_roundtrip p hwf
  rw [hr] at this
  simpa [resBind, BcHasher.inspect] using this

/-- **own hashes**: whatever the package made (`hashpw` output in its documented layout) is identified, and verifies exactly as
    the package's `checkpw` answers — in particular True for the password it was made from -/
theorem libpass_bcrypt_own (h : BcHasher) (p : Parsed) (hs : Str) (secret : Bytes) (hwf : LpBcryptWF p) (hr : lpBcryptRender p = .ok hs) :
    h.identify hs = .ok true ∧ h.verify hs secret = h.checkpw secret hs := by
  have hi := inspect_rendered h p hs hwf hr
  unfold BcHasher.verify BcHasher.identify
  simp [hi]

/-- update check on a recognised string: exactly "another cost" -/
theorem libpass_bcrypt_needs_update (h : BcHasher) (p : Parsed) (hs : Str) (r : Nat) (hwf : LpBcryptWF p) (hpr : p.rounds = some (r : Int))
    (hr : lpBcryptRender p = .ok hs) : h.needsUpdate hs = .ok (decide (r ≠ h.rounds)) := by
  have hi := inspect_rendered h p hs hwf hr
  unfold BcHasher.needsUpdate
  rw [hi]
  by_cases e : r = h.rounds
  · subst e; simp [hpr]
  · have : ¬ ((r : Int) = (h.rounds : Int)) := by omega
    simp [hpr, e, this]

/-- unrecognised strings: never verified (the package is not even asked), always due for an update -/
theorem libpass_bcrypt_foreign (h : BcHasher) (hs : Str) (secret : Bytes) (hi : h.inspect hs = .ok none) :
    h.identify hs = .ok false ∧ h.verify hs secret = .ok false ∧ h.needsUpdate hs = .ok true := by
  unfold BcHasher.verify BcHasher.identify BcHasher.needsUpdate
  simp [hi]

/-- identification implies the layout: one of the three prefixes libpass writes or accepts, then exactly 53 characters after the
    cost field.  passlib's legacy `$2$` / `$2x$` strings, bcrypt-sha256 records and crypt strings of other formats are foreign. -/
theorem libpass_bcrypt_identify_prefix (h : BcHasher) (hs : Str) (hi : h.identify hs = .ok true) :
    ∃ rest, hs = DOLLAR :: rest ∧ rest.take 2 ∈ lpBcryptPrefixes := by
  unfold BcHasher.identify BcHasher.inspect lpBcryptParse at hi
  cases hl : lit [DOLLAR] hs with
  | none => simp [hl] at hi
  | some rest =>
    have hspec : hs = [DOLLAR] ++ rest := Lemmas.Formats.stripPrefix_spec [DOLLAR] hs rest hl
    refine ⟨rest, hspec, ?_⟩
    simp only [hl] at hi
    by_cases hp : rest.take 2 ∈ lpBcryptPrefixes
    · exact hp
    · simp [hp] at hi

theorem libpass_bcrypt_rejects_legacy_idents (h : BcHasher) (rest : Str) (secret : Bytes) :
    h.verify (ofString "$2$" ++ rest) secret = .ok false ∧ h.verify (ofString "$2x$" ++ rest) secret = .ok false ∧
    h.needsUpdate (ofString "$2$" ++ rest) = .ok true ∧ h.needsUpdate (ofString "$2x$" ++ rest) = .ok true := by
  have a : h.inspect (ofString "$2$" ++ rest) = .ok none := by
    unfold BcHasher.inspect lpBcryptParse
    have e : ofString "$2$" ++ rest = [DOLLAR] ++ (50 :: DOLLAR :: rest) := rfl
    rw [e, lit_append]
    have hp : ¬ ([50, DOLLAR] ∈ lpBcryptPrefixes) := by decide
    simp [hp]
  have b : h.inspect (ofString "$2x$" ++ rest) = .ok none := by
    unfold BcHasher.inspect lpBcryptParse
    have e : ofString "$2x$" ++ rest = [DOLLAR] ++ (50 :: 120 :: DOLLAR :: rest) := rfl
    rw [e, lit_append]
    have hp : ¬ ([50, 120] ∈ lpBcryptPrefixes) := by decide
    simp [hp]
  exact ⟨(libpass_bcrypt_foreign h _ secret a).2.1, (libpass_bcrypt_foreign h _ secret b).2.1,
    (libpass_bcrypt_foreign h _ secret a).2.2, (libpass_bcrypt_foreign h _ secret b).2.2⟩

/-! non-vacuity: a real string made by /repo (`BcryptHasher(rounds=4).hash("pw")`) -/
def sample : Parsed :=
  { ident := ofString "2b", rounds := some 4, salt := some (ofString "XEhA5oOR57fq6MfsLuPoJu"), checksum := some (ofString "Co7lDgAEG0EvJwoXGdcf9BSFooNFxty") }

example : lpBcryptRender sample = .ok (ofString "$2b$04$XEhA5oOR57fq6MfsLuPoJuCo7lDgAEG0EvJwoXGdcf9BSFooNFxty") := by decide
example : LpBcryptWF sample := ⟨by decide, rfl, ⟨4, rfl⟩, ⟨_, rfl, by decide, by decide⟩, ⟨_, rfl, by decide, by decide⟩⟩

end Props.C20Bcrypt
