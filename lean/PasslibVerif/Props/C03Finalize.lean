import PasslibVerif.Lemmas.C03Finalize
import PasslibVerif.Props.C02CodeWrap
/-
C03 — "every advertised backend works; a backend that cannot is worked around or not advertised", the part that DECIDES it for bcrypt:
`_BcryptCommon._finalize_backend_mixin` (Model/BcryptFinalize.lean, compared with the real function on synthetic and real mixin
classes by tools/corr/c03_finalize.py, driver suite `bfin`).  The backend is a parameter `B` (= `mixin_cls.verify`); every theorem is
for EVERY `B`, the documented kinds of backend are explicit predicates on `B`'s answers to the probe vectors only.

  finalize_sound              a backend of one of the 16 documented kinds (with / without `$2$`, `$2y$`, `$2b$`; `$2a$` sound or with the
                              bsd wraparound bug): the call returns True and leaves exactly the flags that describe the kind
  finalize_8bit_*             the crypt_blowfish 8-bit bug under `$2a$` / `$2y$` / `$2b$`: PasslibSecurityError; for EVERY backend with
                              that bug under any of the three idents the call never returns flags
  finalize_total              every backend: flags, or one of the listed failures, each justified by an answer of `B`
  finalize_fallback_supported whenever flags are returned, `verify("test", <test hash under _fallback_ident>)` returned True
  finalize_feeds_wrap         the flags satisfy `FlagsOK`, so `Props.C02CodeWrap.calc_checksum_eq_spec` applies: `finalize_then_calc_eq_spec`
  finalize_builtin            a backend right on all 16 vectors (the builtin one: checked on the real class by the correspondence run)
                              gets `builtinFlags`
  early exits                 an initialised class: True, nothing asked, nothing written; `dryrun` is not read
-/
namespace Props.C03Finalize
open Py Model.BcryptFinalize Lemmas.C03Finalize
open Model.Verify (Secret MAX_PASSWORD_SIZE)
open Model.Code.Wrap (Flags builtinFlags Cls builtinCalcChecksum checkTruncatePolicy)
open Model.Code.Des (encodeSecret)
open Model.Formats (IDENT_2 IDENT_2A IDENT_2B IDENT_2Y)
open Model.Handler (Str ofString)
open Lemmas.C02CodeWrap (FlagsOK okIdents inner)

/-! ### the chain of blocks -/

/-- the statements after the early exit -/
def chain (B : Backend) (os : Bool) : Step :=
  ((((check20 B).andThen (check2a B os)).andThen (check2y B)).andThen (check2b B)).andThen setInitialized

theorem finalizeFrom_eq (B : Backend) (os d : Bool) (a : Attrs) (h : a.initialized = false) :
    finalizeFrom B os d a = ⟨(chain B os ⟨a, false⟩).1.attrs, (chain B os ⟨a, false⟩).1.warned, (chain B os ⟨a, false⟩).2⟩ := by
  unfold finalizeFrom chain; simp only [h, Bool.false_eq_true, if_false]

theorem finalize_eq (B : Backend) (os d : Bool) :
    finalize B os d = match (chain B os ⟨defaultAttrs, false⟩).2 with
      | none => .ok (chain B os ⟨defaultAttrs, false⟩).1.attrs.flags
      | some f => .error f := by
  unfold finalize; rw [finalizeFrom_eq B os d defaultAttrs rfl]; rfl

/-! ### early exits -/

/-- `if mixin_cls._workrounds_initialized: return True` — whatever the backend, nothing is asked and nothing written -/
theorem finalizeFrom_initialized (B : Backend) (os d : Bool) (a : Attrs) (h : a.initialized = true) :
    finalizeFrom B os d a = ⟨a, false, none⟩ := by
  unfold finalizeFrom; simp only [h, if_true]

/-- `dryrun` is never read -/
theorem finalizeFrom_dryrun (B : Backend) (os d d' : Bool) (a : Attrs) : finalizeFrom B os d a = finalizeFrom B os d' a := rfl

/-! ### the documented kinds of backend -/

/-- a documented kind: does it know `$2$`; does its `$2a$` have the bsd wraparound bug; does it know `$2y$`, `$2b$` -/
structure Kind where
  has20 : Bool
  wrap2a : Bool
  has2y : Bool
  has2b : Bool
  deriving DecidableEq, Repr

/-- `B` answers the probe vectors the way a backend of kind `k` does (a statement about at most 16 answers of `B`) -/
def Describes (k : Kind) (B : Backend) : Prop :=
  (if k.has20 then Accepts B SECRET_TEST TEST_HASH_20 else Refuses B SECRET_TEST TEST_HASH_20) ∧
  (if k.wrap2a then WrapBugOn B IDENT_2A else SoundOn B IDENT_2A) ∧
  (if k.has2y then SoundOn B IDENT_2Y else Refuses B SECRET_TEST (testHash IDENT_2Y)) ∧
  (if k.has2b then SoundOn B IDENT_2B else Refuses B SECRET_TEST (testHash IDENT_2B))

/-- the flags that describe a kind: the fallback ident is `$2b$` when the backend knows it, else `$2a$` (which every kind knows) -/
def kindFlags (k : Kind) : Flags := ⟨k.wrap2a, !k.has20, !k.has2y, !k.has2b, if k.has2b then IDENT_2B else IDENT_2A⟩

private def t20 (k : Kind) (s : St) : St := if k.has20 then s else { s with attrs.flags.lacks20Support := true }
private def t2a (k : Kind) (os : Bool) (s : St) : St :=
  if k.wrap2a then { attrs := { s.attrs with flags.has2aWraparoundBug := true }, warned := s.warned || !os } else s
private def t2y (k : Kind) (s : St) : St := if k.has2y then s else { s with attrs.flags.lacks2ySupport := true }
private def t2b (k : Kind) (s : St) : St :=
  if k.has2b then { s with attrs.flags.fallbackIdent := IDENT_2B } else { s with attrs.flags.lacks2bSupport := true }

/-- the whole outcome on a documented kind, from the declared attributes: True, `_workrounds_initialized` set, the kind's flags, and the
    PasslibSecurityWarning exactly for a wraparound-bugged backend other than os_crypt -/
theorem finalizeFrom_sound (k : Kind) (B : Backend) (os d : Bool) (h : Describes k B) :
    finalizeFrom B os d defaultAttrs = ⟨⟨true, kindFlags k⟩, k.wrap2a && !os, none⟩ := by
  obtain ⟨h20, h2a, h2y, h2b⟩ := h
  let s0 : St := ⟨defaultAttrs, false⟩
  have e1 : check20 B s0 = (t20 k s0, none) := by
    unfold t20; cases hk : k.has20 <;> simp only [hk, if_true, if_false, Bool.false_eq_true] at h20 ⊢
    · exact check20_lacks B s0 h20
    · exact check20_has B s0 h20
  have e2 : (check20 B).andThen (check2a B os) s0 = (t2a k os (t20 k s0), none) := by
    rw [andThen_ok _ _ _ _ e1]
    unfold t2a; cases hk : k.wrap2a <;> simp only [hk, if_true, if_false, Bool.false_eq_true] at h2a ⊢
    · exact check2a_sound B os _ h2a
    · exact check2a_wrap B os _ h2a
  have e3 : ((check20 B).andThen (check2a B os)).andThen (check2y B) s0 = (t2y k (t2a k os (t20 k s0)), none) := by
    rw [andThen_ok _ _ _ _ e2]
    unfold t2y; cases hk : k.has2y <;> simp only [hk, if_true, if_false, Bool.false_eq_true] at h2y ⊢
    · exact check2y_lacks B _ h2y
    · exact check2y_sound B _ h2y
  have e4 : (((check20 B).andThen (check2a B os)).andThen (check2y B)).andThen (check2b B) s0 =
      (t2b k (t2y k (t2a k os (t20 k s0))), none) := by
    rw [andThen_ok _ _ _ _ e3]
    unfold t2b; cases hk : k.has2b <;> simp only [hk, if_true, if_false, Bool.false_eq_true] at h2b ⊢
    · exact check2b_lacks B _ h2b
    · exact check2b_sound B _ h2b
  have e5 : chain B os s0 = setInitialized (t2b k (t2y k (t2a k os (t20 k s0)))) := andThen_ok _ _ _ _ e4
  rw [finalizeFrom_eq B os d defaultAttrs rfl, e5]
  rcases k with ⟨a, b, c, e⟩
  cases a <;> cases b <;> cases c <;> cases e <;> cases os <;> rfl

/-- MAIN (soundness of the detection): for every backend that answers the probe vectors like one of the 16 documented kinds, the first
    call returns the flags that describe the kind -/
theorem finalize_sound (k : Kind) (B : Backend) (os d : Bool) (h : Describes k B) : finalize B os d = .ok (kindFlags k) := by
  unfold finalize; rw [finalizeFrom_sound k B os d h]

/-- the four readings of `finalize_sound` the property names: (iii) the wraparound bug ⇒ `_has_2a_wraparound_bug`; (iv) no `$2$` / `$2y$` /
    `$2b$` ⇒ the matching `_lacks_*` flag (and only then) -/
theorem finalize_sound_flags (k : Kind) (B : Backend) (os d : Bool) (h : Describes k B) :
    ∃ fl, finalize B os d = .ok fl ∧ fl.has2aWraparoundBug = k.wrap2a ∧ fl.lacks20Support = !k.has20 ∧
      fl.lacks2ySupport = !k.has2y ∧ fl.lacks2bSupport = !k.has2b ∧ (fl.fallbackIdent = if k.has2b then IDENT_2B else IDENT_2A) :=
  ⟨_, finalize_sound k B os d h, rfl, rfl, rfl, rfl, rfl⟩

/-- non-vacuity: the table of answers the bcrypt package of this host gives (`VTFTFTTFTFTTFTFT`: `$2$` refused with ValueError, the rest
    right) is of kind "no `$2$`"; the table of a pybcrypt-like backend (wraparound bug, `$2a$` only) is of kind ⟨false, true, false, false⟩ -/
example : Describes ⟨false, false, true, true⟩ (tableBackend (Probe.all.zip
    [.error .valueError, .ok true, .ok false, .ok true, .ok false, .ok true, .ok true, .ok false, .ok true, .ok false, .ok true,
     .ok true, .ok false, .ok true, .ok false, .ok true])) := by
  refine ⟨⟨.valueError, by decide, rfl⟩, ⟨?_, ?_, ?_, ?_, ?_⟩, ⟨?_, ?_, ?_, ?_, ?_⟩, ⟨?_, ?_, ?_, ?_, ?_⟩⟩ <;> decide +kernel

example : Describes ⟨false, true, false, false⟩ (tableBackend (Probe.all.zip
    [.error .valueError, .ok true, .ok false, .ok true, .ok true, .ok false, .error .valueError, .ok false, .ok false, .ok false, .ok false,
     .error .internalBackend, .ok false, .ok false, .ok false, .ok false])) := by
  refine ⟨⟨.valueError, by decide, rfl⟩, ⟨?_, ?_, ?_, ?_⟩, ⟨.valueError, ?_, rfl⟩, ⟨.internalBackend, ?_, rfl⟩⟩ <;> decide +kernel

/-! ### the 8-bit bug -/

/-- what comes before the `$2y$` / `$2b$` blocks went through: `$2$` known or refused, `$2a$` sound or wraparound-bugged -/
def Pre2a (B : Backend) : Prop :=
  (Accepts B SECRET_TEST TEST_HASH_20 ∨ Refuses B SECRET_TEST TEST_HASH_20) ∧ (SoundOn B IDENT_2A ∨ WrapBugOn B IDENT_2A)

private theorem pre2a_chain (B : Backend) (os : Bool) (s : St) (h : Pre2a B) :
    ∃ s', (check20 B).andThen (check2a B os) s = (s', none) := by
  obtain ⟨h20, h2a⟩ := h
  have ⟨s1, e1⟩ : ∃ s1, check20 B s = (s1, none) := by
    rcases h20 with h | h
    · exact ⟨_, check20_has B s h⟩
    · exact ⟨_, check20_lacks B s h⟩
  rcases h2a with h | h
  · exact ⟨_, (andThen_ok _ _ _ _ e1).trans (check2a_sound B os s1 h)⟩
  · exact ⟨_, (andThen_ok _ _ _ _ e1).trans (check2a_wrap B os s1 h)⟩

/-- (ii) under `$2a$`: `$2$` known or refused, then a `$2a$` that verifies the bug hash ⇒ PasslibSecurityError, no flags -/
theorem finalize_8bit_2a (B : Backend) (os d : Bool)
    (h20 : Accepts B SECRET_TEST TEST_HASH_20 ∨ Refuses B SECRET_TEST TEST_HASH_20) (h : EightBitBugOn B IDENT_2A) :
    finalize B os d = .error (.security IDENT_2A) := by
  have ⟨s1, e1⟩ : ∃ s1, check20 B ⟨defaultAttrs, false⟩ = (s1, none) := by
    rcases h20 with h | h
    · exact ⟨_, check20_has B _ h⟩
    · exact ⟨_, check20_lacks B _ h⟩
  have e2 := (andThen_ok _ (check2a B os) _ _ e1).trans (check2a_8bit B os s1 h)
  have e5 : chain B os ⟨defaultAttrs, false⟩ = (s1, some (.security IDENT_2A)) :=
    andThen_fail _ _ _ _ _ (andThen_fail _ _ _ _ _ (andThen_fail _ _ _ _ _ e2))
  rw [finalize_eq, e5]

/-- (ii) under `$2y$` -/
theorem finalize_8bit_2y (B : Backend) (os d : Bool) (hp : Pre2a B) (h : EightBitBugOn B IDENT_2Y) :
    finalize B os d = .error (.security IDENT_2Y) := by
  obtain ⟨s2, e2⟩ := pre2a_chain B os ⟨defaultAttrs, false⟩ hp
  have e3 := (andThen_ok _ (check2y B) _ _ e2).trans (check2y_8bit B s2 h)
  have e5 : chain B os ⟨defaultAttrs, false⟩ = (s2, some (.security IDENT_2Y)) :=
    andThen_fail _ _ _ _ _ (andThen_fail _ _ _ _ _ e3)
  rw [finalize_eq, e5]

/-- (ii) under `$2b$` -/
theorem finalize_8bit_2b (B : Backend) (os d : Bool) (hp : Pre2a B)
    (h2y : SoundOn B IDENT_2Y ∨ Refuses B SECRET_TEST (testHash IDENT_2Y)) (h : EightBitBugOn B IDENT_2B) :
    finalize B os d = .error (.security IDENT_2B) := by
  obtain ⟨s2, e2⟩ := pre2a_chain B os ⟨defaultAttrs, false⟩ hp
  have ⟨s3, e3⟩ : ∃ s3, ((check20 B).andThen (check2a B os)).andThen (check2y B) ⟨defaultAttrs, false⟩ = (s3, none) := by
    rcases h2y with h | h
    · exact ⟨_, (andThen_ok _ _ _ _ e2).trans (check2y_sound B s2 h)⟩
    · exact ⟨_, (andThen_ok _ _ _ _ e2).trans (check2y_lacks B s2 h)⟩
  have e4 := (andThen_ok _ (check2b B) _ _ e3).trans (check2b_8bit B s3 h)
  have e5 : chain B os ⟨defaultAttrs, false⟩ = (_, some (.security IDENT_2B)) := andThen_fail _ _ _ _ _ e4
  rw [finalize_eq, e5]

/-! ### every backend -/

private theorem andThen_allowed (B : Backend) (p q : Step) (hp : ∀ s f, (p s).2 = some f → Allowed B f)
    (hq : ∀ s f, (q s).2 = some f → Allowed B f) : ∀ s f, (p.andThen q s).2 = some f → Allowed B f := by
  intro s f h
  rcases andThen_cases p q s with ⟨s', _, h2⟩ | ⟨s', f', h1, h2⟩
  · rw [h2] at h; exact hq s' f h
  · rw [h2] at h; exact hp s f (by rw [h1]; exact h)

theorem chain_allowed (B : Backend) (os : Bool) (s : St) (f : Fail) (h : (chain B os s).2 = some f) : Allowed B f :=
  andThen_allowed B _ _
    (andThen_allowed B _ _ (andThen_allowed B _ _ (andThen_allowed B _ _ (check20_allowed B) (check2a_allowed B os)) (check2y_allowed B))
      (check2b_allowed B))
    (fun s f h => by simp [setInitialized] at h) s f h

/-- MAIN (totality): for EVERY backend the first call ends in exactly one of these ways — flags; PasslibSecurityError for an ident under
    which `B` verified the test hash AND the 8-bit bug hash; one of the eight RuntimeErrors, each with the answers of `B` that cause it
    (`Allowed`); or an exception `e` that `B` itself raised on a probe, let through because it is not one `safe_verify` traps or because
    the probe is one of the twelve asked without `safe_verify` -/
theorem finalize_total (B : Backend) (os d : Bool) :
    (∃ fl, finalize B os d = .ok fl) ∨ (∃ f, finalize B os d = .error f ∧ Allowed B f) := by
  rw [finalize_eq]
  cases h : (chain B os ⟨defaultAttrs, false⟩).2 with
  | none => exact .inl ⟨_, rfl⟩
  | some f => exact .inr ⟨f, rfl, chain_allowed B os _ f h⟩

/-- the same for a call on a class in any state (a class left half-configured by an earlier failing call included) -/
theorem finalizeFrom_total (B : Backend) (os d : Bool) (a : Attrs) (f : Fail) (h : (finalizeFrom B os d a).raised = some f) : Allowed B f := by
  cases hi : a.initialized
  · rw [finalizeFrom_eq B os d a hi] at h; exact chain_allowed B os _ f h
  · rw [finalizeFrom_initialized B os d a hi] at h; simp at h

/-- a call that returns True went through the four blocks -/
theorem chain_none (B : Backend) (os : Bool) (s : St) (h : (chain B os s).2 = none) :
    ∃ s1 s2 s3 s4, check20 B s = (s1, none) ∧ check2a B os s1 = (s2, none) ∧ check2y B s2 = (s3, none) ∧ check2b B s3 = (s4, none) ∧
      chain B os s = setInitialized s4 := by
  obtain ⟨s4, h4, e5⟩ := andThen_none _ setInitialized s h
  obtain ⟨s3, h3, e4⟩ := andThen_none _ (check2b B) s (by rw [h4])
  obtain ⟨s2, h2, e3⟩ := andThen_none _ (check2y B) s (by rw [h3])
  obtain ⟨s1, h1, e2⟩ := andThen_none (check20 B) (check2a B os) s (by rw [h2])
  exact ⟨s1, s2, s3, s4, h1, e2 ▸ h2, e3 ▸ h3, e4 ▸ h4, e5⟩

/-- flags are returned exactly when the chain raised nothing -/
theorem finalize_ok (B : Backend) (os d : Bool) (fl : Flags) (h : finalize B os d = .ok fl) :
    (chain B os ⟨defaultAttrs, false⟩).2 = none ∧ fl = (chain B os ⟨defaultAttrs, false⟩).1.attrs.flags := by
  rw [finalize_eq] at h
  split at h
  · next hn => simp only [Except.ok.injEq] at h; exact ⟨hn, h.symm⟩
  · simp at h

/-- (ii) for EVERY backend: one that verifies the 8-bit bug hash under any ident whose test hash it accepts never gets flags
    (whatever else it answers: it is never advertised) -/
theorem finalize_8bit_never_flags (B : Backend) (os d : Bool) (i : Str) (hi : i ∈ probedIdents) (h : EightBitBugOn B i) :
    ∀ fl, finalize B os d ≠ .ok fl := by
  intro fl hf
  obtain ⟨hn, _⟩ := finalize_ok B os d fl hf
  obtain ⟨s1, s2, s3, s4, _, h2, h3, h4, _⟩ := chain_none B os _ hn
  simp only [probedIdents, List.mem_cons, List.not_mem_nil, or_false] at hi
  rcases hi with rfl | rfl | rfl
  · exact check2a_pass_no8bit B os s1 (by rw [h2]) h
  · exact check2y_pass_no8bit B s2 (by rw [h3]) h
  · exact check2b_pass_no8bit B s3 (by rw [h4]) h

/-- the fallback ident after a call that returned True, for EVERY backend and every starting state -/
theorem chain_fallback (B : Backend) (os : Bool) (s : St) (h : (chain B os s).2 = none) :
    Accepts B SECRET_TEST (testHash IDENT_2A) ∧
    (fb (chain B os s).1 = fb s ∨ (fb (chain B os s).1 = IDENT_2B ∧ Accepts B SECRET_TEST (testHash IDENT_2B))) ∧
    (chain B os s).1.attrs.initialized = true := by
  obtain ⟨s1, s2, s3, s4, h1, h2, h3, h4, e5⟩ := chain_none B os s h
  have f1 : fb s1 = fb s := by have := (check20_fb B s).1; rwa [h1] at this
  have f2 : fb s2 = fb s1 := by have := (check2a_fb B os s1).1; rwa [h2] at this
  have f3 : fb s3 = fb s2 := by have := (check2y_fb B s2).1; rwa [h3] at this
  have f4 := (check2b_fb B s3).1; rw [h4] at f4
  refine ⟨check2a_passes B os s1 s2 h2, ?_, by rw [e5]; rfl⟩
  rw [e5]
  show fb s4 = fb s ∨ _
  rcases f4 with f4 | f4
  · exact .inl (by rw [f4, f3, f2, f1])
  · exact .inr f4

/-- MAIN: whenever flags are returned — by ANY backend — `_fallback_ident` is `$2a$` or `$2b$`, and `verify("test", …)` of the test hash
    under that ident returned True during the call: the workarounds of `_norm_digest_args` never send the backend an ident it did not
    verify a vector for -/
theorem finalize_fallback_supported (B : Backend) (os d : Bool) (fl : Flags) (h : finalize B os d = .ok fl) :
    (fl.fallbackIdent = IDENT_2A ∨ fl.fallbackIdent = IDENT_2B) ∧ Accepts B SECRET_TEST (testHash fl.fallbackIdent) := by
  obtain ⟨hn, rfl⟩ := finalize_ok B os d fl h
  obtain ⟨h2a, hfb, _⟩ := chain_fallback B os _ hn
  rcases hfb with hfb | ⟨hfb, h2b⟩
  · have : (chain B os ⟨defaultAttrs, false⟩).1.attrs.flags.fallbackIdent = IDENT_2A := hfb
    rw [this]; exact ⟨.inl rfl, h2a⟩
  · have : (chain B os ⟨defaultAttrs, false⟩).1.attrs.flags.fallbackIdent = IDENT_2B := hfb
    rw [this]; exact ⟨.inr rfl, h2b⟩

/-- and a `_lacks_*` flag is only ever set because the backend refused the ident's test hash (never on a backend that accepts it) -/
theorem finalize_feeds_wrap (B : Backend) (os d : Bool) (fl : Flags) (h : finalize B os d = .ok fl) : FlagsOK fl :=
  (finalize_fallback_supported B os d fl h).1

/-- the two theorems composed: a backend that passes the probes, then the modelled argument preparation + `raw_bcrypt`, computes the
    specification's checksum for every ident, salt, cost and admissible secret — whatever flags the probes produced -/
theorem finalize_then_calc_eq_spec (B : Backend) (os d : Bool) (fl : Flags) (h : finalize B os d = .ok fl)
    (cls : Cls) (ident salt : Str) (rounds : Nat) (ud : Bool) (s : Secret) (b : Bytes)
    (hid : ident ∈ okIdents) (hs : Props.C02CodeWrap.SettingsOK salt rounds)
    (hb : encodeSecret s = .ok b) (hwf : Bytes.WF b) (hlen : b.length ≤ MAX_PASSWORD_SIZE) (hnul : 0 ∉ b)
    (htr : ud = true → checkTruncatePolicy cls b = .ok ()) :
    ∃ c, Spec.Formats.bcrypt (inner ident) rounds salt b = some c ∧ builtinCalcChecksum fl cls ident salt rounds ud s = .ok c :=
  Props.C02CodeWrap.calc_checksum_eq_spec fl (finalize_feeds_wrap B os d fl h) cls ident salt rounds ud s b hid hs hb hwf hlen hnul htr

/-- a call that raises does not set `_workrounds_initialized`; one that returns True does (any starting state that is not initialised) -/
theorem finalizeFrom_initialized_iff (B : Backend) (os d : Bool) (a : Attrs) (hi : a.initialized = false) :
    (finalizeFrom B os d a).raised = none → (finalizeFrom B os d a).attrs.initialized = true := by
  rw [finalizeFrom_eq B os d a hi]
  intro h
  exact (chain_fallback B os _ h).2.2

/-! ### the builtin backend -/

/-- right on all 16 vectors: knows `$2$`, sound under `$2a$`, `$2y$`, `$2b$` — what passlib's own `raw_bcrypt` answers (the correspondence
    run asks the real `_BuiltinBackend.verify` the 16 questions on every run: `TTFTFTTFTFTTFTFT`) -/
def CorrectBcrypt (B : Backend) : Prop :=
  Accepts B SECRET_TEST TEST_HASH_20 ∧ SoundOn B IDENT_2A ∧ SoundOn B IDENT_2Y ∧ SoundOn B IDENT_2B

theorem correct_describes (B : Backend) (h : CorrectBcrypt B) : Describes ⟨true, false, true, true⟩ B := h

/-- a backend right on the 16 vectors ends with `builtinFlags` (nothing lacking, no bug, `_fallback_ident = "$2b$"`), no warning -/
theorem finalize_builtin (B : Backend) (os d : Bool) (h : CorrectBcrypt B) : finalize B os d = .ok builtinFlags :=
  finalize_sound ⟨true, false, true, true⟩ B os d (correct_describes B h)

example : CorrectBcrypt (tableBackend (Probe.all.zip
    [.ok true, .ok true, .ok false, .ok true, .ok false, .ok true, .ok true, .ok false, .ok true, .ok false, .ok true,
     .ok true, .ok false, .ok true, .ok false, .ok true])) := by
  refine ⟨?_, ⟨?_, ?_, ?_, ?_, ?_⟩, ⟨?_, ?_, ?_, ?_, ?_⟩, ⟨?_, ?_, ?_, ?_, ?_⟩⟩ <;> decide +kernel

end Props.C03Finalize
