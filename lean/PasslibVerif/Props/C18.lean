import PasslibVerif.Model.Disabled
/-
C18 — A disabled account can never log in and can be restored intact.
Marker characters, prefixes and the default marker are regenerated from the source.
-/
namespace Props.C18
open Py Gen.Disabled Model.Disabled

/-- the two marker styles -/
def IsMarker (m : Str) : Prop := m ∈ disablePrefixes
instance (m : Str) : Decidable (IsMarker m) := by unfold IsMarker; infer_instance

theorem markers_are : disablePrefixes = [[42], [33]] ∧ defaultMarker ∈ disablePrefixes ∧
    (∀ p ∈ disablePrefixes, p.length = 1 ∧ ∀ c ∈ p, c ∈ MARKER_CHARS) := by decide

/-! ### unix_disabled -/
theorem marker_cases (m : Str) (hm : IsMarker m) : m = [42] ∨ m = [33] := by
  unfold IsMarker at hm; rw [markers_are.1] at hm; simpa using hm

/-- shape of every disabled string: the marker followed by something that is not empty-after-marker-stripping -/
theorem disable_form (m : Str) (hm : IsMarker m) (hash : Option Str) :
    ∃ rest, unixDisable m hash = m ++ rest := by
  unfold unixDisable
  cases hash with
  | none => exact ⟨[], by simp⟩
  | some h =>
    simp only
    split
    · rename_i o _; split
      · exact ⟨[], by simp⟩
      · exact ⟨o, rfl⟩
    · exact ⟨[], by simp⟩

theorem disabled_is_identified (m : Str) (hm : IsMarker m) (hash : Option Str) :
    unixIdentify (unixDisable m hash) = true := by
  obtain ⟨rest, hr⟩ := disable_form m hm hash
  rw [hr]
  rcases marker_cases m hm with rfl | rfl <;> simp [unixIdentify, MARKER_CHARS]

/-- verifies False for EVERY password (the empty one and the hash text itself included) -/
theorem disabled_never_verifies (m : Str) (hm : IsMarker m) (hash : Option Str) (secret : Str) :
    unixVerify secret (unixDisable m hash) = .ok false := by
  unfold unixVerify; rw [disabled_is_identified m hm hash]; rfl

theorem stripPrefixes_marker (m : Str) (hm : IsMarker m) (rest : Str) : stripPrefixes disablePrefixes (m ++ rest) = some rest := by
  rcases marker_cases m hm with rfl | rfl <;> simp [stripPrefixes, disablePrefixes, List.isPrefixOf]

/-- enabling returns exactly the embedded hash -/
theorem enable_disable (m : Str) (hm : IsMarker m) (h : Str) (hne : h ≠ []) (hnm : unixIdentify h = false) :
    unixEnable (unixDisable m (some h)) = .ok h := by
  have hd : unixDisable m (some h) = m ++ h := by
    unfold unixDisable
    simp only [hnm, Bool.false_eq_true, if_false]
    have : h.isEmpty = false := by cases h <;> simp_all
    simp [this]
  rw [hd]; unfold unixEnable; rw [stripPrefixes_marker m hm h]
  have : h.isEmpty = false := by cases h <;> simp_all
  simp [this]

/-- a bare marker (disabled without a previous hash) cannot be enabled -/
theorem enable_bare_marker_error (m : Str) (hm : IsMarker m) : unixEnable (unixDisable m none) = .error .valueError := by
  have : unixDisable m none = m := rfl
  rw [this]
  rcases marker_cases m hm with rfl | rfl <;> decide

theorem unixEnable_marker_led (m : Str) (hm : IsMarker m) (rest : Str) :
    unixEnable (m ++ rest) = if rest.isEmpty then .error .valueError else .ok rest := by
  unfold unixEnable; rw [stripPrefixes_marker m hm rest]

/-- a string that is already disabled with EITHER marker style stays disabled, normalised to `m` -/
theorem disable_already_disabled (m m2 : Str) (hm : IsMarker m) (hm2 : IsMarker m2) (rest : Str) :
    unixDisable m (some (m2 ++ rest)) = if rest.isEmpty then m else m ++ rest := by
  have hid : unixIdentify (m2 ++ rest) = true := by
    rcases marker_cases m2 hm2 with rfl | rfl <;> simp [unixIdentify, MARKER_CHARS]
  unfold unixDisable
  simp only [hid, if_true]
  rw [unixEnable_marker_led m2 hm2 rest]
  cases hre : rest.isEmpty <;> simp [hre]

/-- disabling twice is disabling once -/
theorem disable_idempotent (m : Str) (hm : IsMarker m) (hash : Option Str) :
    unixDisable m (some (unixDisable m hash)) = unixDisable m hash := by
  obtain ⟨rest, hr⟩ := disable_form m hm hash
  rw [hr, disable_already_disabled m m hm hm rest]
  cases hre : rest.isEmpty
  · simp
  · have : rest = [] := by simpa using hre
    subst this; simp

/-! ### inside a context: first claimer wins, so nothing before the disabled hasher may claim marker-led text -/
def NoEarlierClaimer (pre : List Scheme) : Prop :=
  (∀ s ∈ pre, ∀ h, unixIdentify h = true → s.claims h = false) ∧ (∀ s ∈ pre, s.isDisabled = false)

theorem find_skip {α} (p : α → Bool) : ∀ (pre : List α) (x : α) (post : List α),
    (∀ s ∈ pre, p s = false) → p x = true → (pre ++ x :: post).find? p = some x
  | [], x, post, _, hx => by simp [List.find?, hx]
  | a :: pre, x, post, h, hx => by
    simp only [List.cons_append, List.find?, h a (by simp)]
    exact find_skip p pre x post (fun s hs => h s (by simp [hs])) hx

theorem ctx_disabled_identified (pre post : List Scheme) (m : Str) (hm : IsMarker m) (hpre : NoEarlierClaimer pre)
    (hash : Option Str) :
    isEnabled (pre ++ unixScheme m :: post) (unixDisable m hash) = .ok false := by
  unfold isEnabled identifyRecord
  have hid := disabled_is_identified m hm hash
  rw [find_skip (fun s => s.claims (unixDisable m hash)) pre (unixScheme m) post
    (fun s hs => hpre.1 s hs _ hid) hid]
  rfl

theorem ctx_disable_uses_unix (pre post : List Scheme) (m : Str) (hpre : NoEarlierClaimer pre) (sfx : Str) (hash : Option Str) :
    ctxDisable (pre ++ unixScheme m :: post) sfx hash = .ok (unixDisable m hash) := by
  unfold ctxDisable disabledRecord
  rw [find_skip (fun s => s.isDisabled) pre (unixScheme m) post (fun s hs => hpre.2 s hs) rfl]
  rfl

theorem ctx_disabled_never_verifies (pre post : List Scheme) (m : Str) (hm : IsMarker m) (hpre : NoEarlierClaimer pre)
    (hash : Option Str) (secret : Str) :
    ctxVerify (pre ++ unixScheme m :: post) secret (some (unixDisable m hash)) = .ok (false, []) := by
  unfold ctxVerify identifyRecord
  have hid := disabled_is_identified m hm hash
  simp only
  rw [find_skip (fun s => s.claims (unixDisable m hash)) pre (unixScheme m) post
    (fun s hs => hpre.1 s hs _ hid) hid]
  show (unixVerify secret (unixDisable m hash)).map _ = _
  rw [disabled_never_verifies m hm hash secret]; rfl

theorem ctx_enable_disable (pre post : List Scheme) (m : Str) (hm : IsMarker m) (hpre : NoEarlierClaimer pre)
    (h : Str) (hne : h ≠ []) (hnm : unixIdentify h = false) :
    ctxEnable (pre ++ unixScheme m :: post) (unixDisable m (some h)) = .ok h := by
  unfold ctxEnable identifyRecord
  have hid := disabled_is_identified m hm (some h)
  rw [find_skip (fun s => s.claims (unixDisable m (some h))) pre (unixScheme m) post
    (fun s hs => hpre.1 s hs _ hid) hid]
  exact enable_disable m hm h hne hnm

/-- enabling a normal hash returns it unchanged -/
theorem ctx_enable_normal_id (ctx : List Scheme) (h : Str) (s : Scheme) (hs : identifyRecord ctx h = .ok s)
    (hk : s.isDisabled = false) : ctxEnable ctx h = .ok h := by
  unfold ctxEnable; rw [hs]
  cases hkind : s.kind <;> simp_all [Scheme.isDisabled]

/-- verification against a missing hash: always False, at the cost of one dummy verification -/
theorem verify_none_false_and_dummy (ctx : List Scheme) (secret : Str) :
    ctxVerify ctx secret none = .ok (false, [.dummyVerify]) := rfl

/-! ### django_disabled -/
theorem django_disabled_identified (sfx : Str) : djangoIdentify (djangoDisable sfx) = true := by
  simp [djangoIdentify, djangoDisable, djangoPrefix, List.isPrefixOf]
theorem django_never_verifies (sfx secret : Str) : djangoVerify secret (djangoDisable sfx) = .ok false := by
  unfold djangoVerify; rw [django_disabled_identified]; rfl
theorem django_enable_error (h : Str) : djangoEnable h = .error .valueError := rfl

/-! ### non-vacuity -/
example : IsMarker [33] ∧ unixDisable [33] (some [36, 49, 36, 97]) = [33, 36, 49, 36, 97] ∧
    unixEnable [33, 36, 49, 36, 97] = .ok [36, 49, 36, 97] := by decide
example : NoEarlierClaimer [⟨"md5_crypt", .normal, fun h => [36, 49, 36].isPrefixOf h, fun _ _ => .ok false⟩] := by
  refine ⟨?_, by simp [Scheme.isDisabled]⟩
  intro s hs h hid
  simp at hs; subst hs
  simp only [unixIdentify, MARKER_CHARS] at hid
  cases h with
  | nil => rfl
  | cons c rest =>
    simp at hid
    rcases hid with rfl | rfl <;> simp [List.isPrefixOf]

end Props.C18
