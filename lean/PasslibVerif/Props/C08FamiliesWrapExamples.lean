import PasslibVerif.Props.C08FamiliesWrap
/-
Non-vacuity of Props/C08FamiliesWrap.lean on real hashes of /tmp/repo_clean (hand-written: tools/dev/c08_families_parts/Wrap.examples.lean).
The behaviour of the real code on each string is quoted in the comments (run 2026-09-28).
-/
namespace Props.C08Families.Wrap
open Py Model.Handler Model.Formats Model.Verify Model.VerifyFmt.Wrap Props.C01 Lemmas.C08Families Lemmas.C08FamiliesWrap
open Model.VerifyFmt.DesBcrypt Model.VerifyCrypt Model.VerifyFmt.Static

/-- ldap_des_crypt: `{CRYPT}` + `des_crypt.using(salt="ab").hash("password")`; last character altered: False (real code: False) — through the
    theorem (hypotheses kernel-checked) and by evaluation; without `{CRYPT}`: ValueError for EVERY secret (real code: ValueError "not a valid
    ldap_des_crypt hash", also for a 5000-character secret); `{CRYPT}ab`: the wrapped class's configuration string (real code: ValueError) -/
example : (ldap_des_cryptI false).wVerify (.text (ofString "password")) (ofString "{CRYPT}abJnggxhB/yWJ") = .ok false :=
  ldap_des_crypt_altered_checksum_rejected false (.text (ofString "password")) (ofString "{CRYPT}abJnggxhB/yWI") _
    (ofString "abJnggxhB/yWI") (ofString "abJnggxhB/yWJ") (desSettings (ofString "ab")) (ofString "JnggxhB/yWI") (ofString "JnggxhB/yWJ")
    (by decide +kernel) (by decide +kernel) (by decide +kernel) (by decide +kernel) (by decide) (by decide +kernel)
example (te : Bool) (s : Secret) : (ldap_des_cryptI te).wVerify s (ofString "abJnggxhB/yWI") = .error .valueError :=
  ldap_des_crypt_no_prefix_value_error te s _ (by decide +kernel)
example : (ldap_des_cryptI false).wVerify (.text (ofString "password")) (ofString "{CRYPT}ab") = .error .valueError :=
  ldap_des_crypt_config_string_value_error false _ _ (ofString "ab") (desSettings (ofString "ab")) (by decide) (by decide +kernel)
    (by decide +kernel) rfl

/-- ldap_md5_crypt: `ldap_md5_crypt.using(salt="abcdefgh").hash("pw")` = "{CRYPT}$1$abcdefgh$IQtUouv7y7Q9dRWkQEPCc." and its last character
    altered: hypotheses `hu`, `hu'`, `hp`, `hp'`, `hne` of `ldap_md5_crypt_altered_checksum_rejected` (real code: True / False) -/
example : unwrapOf CRYPT [] (ofString "{CRYPT}$1$abcdefgh$IQtUouv7y7Q9dRWkQEPCc/") = some (ofString "$1$abcdefgh$IQtUouv7y7Q9dRWkQEPCc/") ∧
    (md5Hasher false).parse (ofString "$1$abcdefgh$IQtUouv7y7Q9dRWkQEPCc/") =
      .ok { ident := md5Ident false, salt := some (ofString "abcdefgh"), checksum := some (ofString "IQtUouv7y7Q9dRWkQEPCc/") } ∧
    (md5Hasher false).parse (ofString "$1$abcdefgh$IQtUouv7y7Q9dRWkQEPCc.") =
      .ok { ident := md5Ident false, salt := some (ofString "abcdefgh"), checksum := some (ofString "IQtUouv7y7Q9dRWkQEPCc.") } := by
  refine ⟨by decide +kernel, by decide +kernel, by decide +kernel⟩

/-- ldap_bcrypt / django_bcrypt: the padding-bit spellings of a real bcrypt hash are indistinguishable under the wrapper too
    (real code: True for both under ldap_bcrypt) -/
example (te : Bool) (s : Secret) :
    (ldap_bcryptI te).wVerify s (ofString "{CRYPT}$2a$04$CCCCCCCCCCCCCCCCCCCCC/FXJHjF.8tyWAsIeGLxC7hC/nyX4QxgD") =
    (ldap_bcryptI te).wVerify s (ofString "{CRYPT}$2a$04$CCCCCCCCCCCCCCCCCCCCC.FXJHjF.8tyWAsIeGLxC7hC/nyX4QxgC") :=
  ldap_bcrypt_same_parse_same_answer te s _ _ (ofString "$2a$04$CCCCCCCCCCCCCCCCCCCCC/FXJHjF.8tyWAsIeGLxC7hC/nyX4QxgD")
    (ofString "$2a$04$CCCCCCCCCCCCCCCCCCCCC.FXJHjF.8tyWAsIeGLxC7hC/nyX4QxgC") (by decide +kernel) (by decide +kernel)
    (by cases te <;> decide +kernel)
example (te : Bool) (s : Secret) :
    (django_bcryptI te).wVerify s (ofString "$2a$04$CCCCCCCCCCCCCCCCCCCCC.FXJHjF.8tyWAsIeGLxC7hC/nyX4QxgC") = .error .valueError :=
  django_bcrypt_no_prefix_value_error te s _ (by decide +kernel)

/-- plaintext / roundup_plaintext, evaluated (real code: True, False, ValueError "not a valid roundup_plaintext hash") -/
example : plaintextVerify (.text (ofString "password")) (ofString "password") = .ok true ∧
    plaintextVerify (.text (ofString "password")) (ofString "passwore") = .ok false ∧
    roundup_plaintextI.wVerify (.text (ofString "password")) (ofString "{plaintext}password") = .ok true ∧
    roundup_plaintextI.wVerify (.bytes (ofString "password")) (ofString "{plaintext}passwore") = .ok false ∧
    roundup_plaintextI.wVerify (.text (ofString "password")) (ofString "password") = .error .valueError := by
  refine ⟨by decide +kernel, by decide +kernel, by decide +kernel, by decide +kernel, by decide +kernel⟩
example : plaintextVerify (.text (ofString "password")) (ofString "passwore") = .ok false :=
  plaintext_altered_rejected_partial _ (ofString "password") _ (ofString "passwore") (by decide +kernel) (by decide +kernel) (by decide +kernel)

end Props.C08Families.Wrap
