import PasslibVerif.Lemmas.CtxIni
import PasslibVerif.Gen.Handlers
/-
C10 — the text form of a configuration: what `to_string()` writes for a VALUE and what `from_string()` makes of it again.

Scope (see Model/CtxIni.lean): passlib's own statements are modelled; configparser enters through the four assumed behaviours
A1–A4 (`Cfgp.*`), floats are opaque atoms, the registry is a parameter.  The theorems speak about the configuration dictionary
(`_init_scheme_list` + `_init_options`), item by item; what a hasher's `using()` does with a value is outside.
-/
namespace Props.C10Ini
open Py Model.CtxKey Model.CtxIni Lemmas.CtxIni
open Model.UsingSalt (strip isWs usingTruncate BoolArg)

/-- one option through the text form: `_render_ini_value` → configparser (A1–A4) → `_norm_scheme_option` on the text -/
def throughText (floatOk : Str → Bool) (k : Key) (v : Val) : Res Val := do
  let t ← renderIniValue k v
  let kv ← Cfgp.channel (renderKey k, t)
  normSchemeOption floatOk k.option (.str kv.2)

/-- an option name that configparser hands back unchanged: lower-case letters, digits, '_' -/
def IniKey (k : Key) : Prop := renderKey k ≠ [] ∧ (renderKey k).all lowKeyChar = true

/-- text that the write/read cycle hands back unchanged: one line, no blank at either end -/
def TextOK (t : Str) : Prop := NL ∉ t ∧ edgeClean t = true

theorem fmtDec_text (n : Int) : strip (fmtDec n) = fmtDec n ∧ NL ∉ fmtDec n ∧ PCT ∉ fmtDec n ∧ (fmtDec n).getLast? ≠ some PCT := by
  have hc := fmtDec_chars n
  refine ⟨?_, ?_, ?_, ?_⟩
  · apply strip_id
    · intro c h; have := hc c (mem_of_head? h); exact isWs_graph c (by omega) (by omega)
    · intro c h; have := hc c (mem_of_getLast? h); exact isWs_graph c (by omega) (by omega)
  · intro h; have := hc _ h; unfold NL at this; omega
  · intro h; have := hc _ h; unfold PCT at this; omega
  · intro h; have := hc _ (mem_of_getLast? h); unfold PCT at this; omega

theorem channel_int (k : Key) (hk : IniKey k) (n : Int) :
    Cfgp.channel (renderKey k, pctEscape (fmtDec n)) = .ok (renderKey k, fmtDec n) := by
  have h := fmtDec_text n
  rw [channel_value _ _ (readKey_low _ hk.1 hk.2) h.2.1, h.1]

/-! ### integers -/

/-- `int_option_roundtrip`: an int under `min_rounds` / `max_rounds` / `default_rounds` / `salt_size` / `vary_rounds` (any category, any
    scheme) is written in decimal and read back by `int()` as the same int — every integer, negative and huge ones included -/
theorem int_option_roundtrip (floatOk : Str → Bool) (k : Key) (hk : IniKey k) (ho : k.option ∈ intCoerced ∨ k.option = sVaryRounds) (n : Int) :
    throughText floatOk k (.int n) = .ok (.int n) := by
  have h := fmtDec_text n
  unfold throughText
  simp only [renderIniValue, valueText, Except.map, channel_int k hk n, bind, Except.bind]
  have hp := pyInt_fmtDec_int n
  rcases ho with ho | ho
  · have hf : forbidden.contains k.option = false := by
      simp only [intCoerced, List.mem_cons, List.not_mem_nil, or_false] at ho
      rcases ho with e | e | e | e <;> rw [e] <;> decide
    have hi : intCoerced.contains k.option = true := by simpa using ho
    simp only [normSchemeOption, hf, Bool.false_eq_true, if_false, hi, if_true, hp]
  · have hf : forbidden.contains sVaryRounds = false := by decide
    have hi : intCoerced.contains sVaryRounds = false := by decide
    simp only [normSchemeOption, ho, hf, Bool.false_eq_true, if_false, hi, if_true, coerceVaryRounds, h.2.2.2, hp]

/-- under any other option the int comes back as its decimal TEXT (the documented text typing: `rounds = 5000` is `'5000'` after a reload);
    the consumer reads it with `int()`, which gives the same int -/
theorem int_other_option_becomes_text (floatOk : Str → Bool) (k : Key) (hk : IniKey k)
    (hf : forbidden.contains k.option = false) (hi : intCoerced.contains k.option = false) (hv : k.option ≠ sVaryRounds) (n : Int) :
    throughText floatOk k (.int n) = .ok (.str (fmtDec n)) ∧ pyIntOfStr (fmtDec n) = some n := by
  refine ⟨?_, pyInt_fmtDec_int n⟩
  unfold throughText
  simp only [renderIniValue, valueText, Except.map, channel_int k hk n, bind, Except.bind, normSchemeOption, hf, hi, hv,
    Bool.false_eq_true, if_false]

example : IniKey ⟨some (cp "admin"), some (cp "sha256_crypt"), cp "min_rounds"⟩ ∧ (cp "min_rounds") ∈ intCoerced := by
  refine ⟨⟨by decide, by decide⟩, by decide⟩
example : throughText (fun _ => false) ⟨some (cp "admin"), some (cp "sha256_crypt"), cp "min_rounds"⟩ (.int (-10000000000000000000000000000000000000000))
    = .ok (.int (-10000000000000000000000000000000000000000)) :=
  int_option_roundtrip _ _ ⟨by decide, by decide⟩ (Or.inl (by decide)) _

/-! ### lists of scheme names -/

/-- `scheme_list_roundtrip`: `splitcomma(", ".join(l)) == l` for every list of names without comma, without blank at either end, not empty —
    the empty list included (rendered as the empty text, read back as `[]`) -/
theorem scheme_list_roundtrip (l : List Str) (h : ∀ n ∈ l, nameOK n = true) : splitcomma (joinCS l) = l := splitcomma_joinCS l h

theorem empty_list_roundtrip : joinCS [] = [] ∧ splitcomma [] = [] := ⟨rfl, splitcomma_nil⟩

/-- every registered name qualifies -/
theorem registry_names_ok : ∀ n ∈ Gen.Handlers.names, nameOK (cp n) = true := by decide +kernel

/-- and what does not qualify does not come back: an empty name, a name with a comma, a name with a blank at an end -/
theorem bad_names_counterexample :
    splitcomma (joinCS [[]]) = [] ∧ splitcomma (joinCS [cp "a,b"]) = [cp "a", cp "b"] ∧ splitcomma (joinCS [cp " a"]) = [cp "a"] := by decide +kernel

theorem resolveAll_id (resolve : Str → Option Str) : ∀ (l acc : List Str), (∀ n ∈ l, resolve n = some n) → (acc.reverse ++ l).Nodup →
    resolveAll resolve l acc = .ok (acc.reverse ++ l)
  | [], acc, _, _ => by simp [resolveAll]
  | e :: rest, acc, hr, hd => by
    have he : acc.contains e = false := by
      rw [List.nodup_append] at hd
      have := hd.2.2 e
      simp only [List.contains_eq_mem, decide_eq_false_iff_not]
      intro hm
      exact this (by simpa using hm) e (by simp) rfl
    simp only [resolveAll, hr e (by simp), he, Bool.false_eq_true, if_false]
    rw [resolveAll_id resolve rest (e :: acc) (fun n hn => hr n (by simp [hn])) (by simpa using hd)]
    simp

/-- the `schemes` option as a whole: the exported list, written, read, split and resolved, is the list again -/
theorem schemes_option_roundtrip (resolve : Str → Option Str) (l : List Str) (h : ∀ n ∈ l, nameOK n = true)
    (hr : ∀ n ∈ l, resolve n = some n) (hd : l.Nodup) :
    initSchemeList resolve (some (.str (joinCS l))) = .ok l := by
  simp only [initSchemeList, splitcomma_joinCS l h]
  simpa using resolveAll_id resolve l [] hr (by simpa using hd)

example : splitcomma (joinCS [cp "sha256_crypt", cp "ldap_pbkdf2_sha1", cp "v9_x_2"]) = [cp "sha256_crypt", cp "ldap_pbkdf2_sha1", cp "v9_x_2"] :=
  scheme_list_roundtrip _ (by decide +kernel)

/-! ### "auto" -/

/-- `auto_roundtrip`: `deprecated = ["auto"]` is written `auto` and read back as `["auto"]`, whatever the schemes are -/
theorem auto_roundtrip (schemes : List Str) :
    renderIniValue ⟨none, none, sDeprecated⟩ (.names [sAuto]) = .ok sAuto ∧
    normContextOption schemes sDeprecated (.str sAuto) = .ok (.names [sAuto]) := by
  refine ⟨by decide, ?_⟩
  have h1 : splitcomma sAuto = [sAuto] := by decide +kernel
  have h2 : (sDeprecated = sDefaultOpt) = False := by simp; decide
  simp only [normContextOption, h2, if_false, if_true, h1]
  rw [if_pos (by decide), if_neg (by decide)]

/-- "auto" next to other names is refused before and after the text form alike -/
theorem auto_with_others_refused (schemes : List Str) :
    normContextOption schemes sDeprecated (.names [sAuto, cp "md5_crypt"]) = .error .valueError ∧
    normContextOption schemes sDeprecated (.str (joinCS [sAuto, cp "md5_crypt"])) = .error .valueError := by
  have h1 : splitcomma (joinCS [sAuto, cp "md5_crypt"]) = [sAuto, cp "md5_crypt"] := by decide +kernel
  have h2 : (sDeprecated = sDefaultOpt) = False := by simp; decide
  constructor
  · simp only [normContextOption, h2, if_false, if_true]; rw [if_pos (by decide), if_pos (by decide)]
  · simp only [normContextOption, h2, if_false, if_true, h1]; rw [if_pos (by decide), if_pos (by decide)]

/-! ### booleans -/

/-- `bool_text_semantics`: a bool is written `True` / `False`; `truncate_error` is NOT coerced at load time (it stays text) and the
    consumer `TruncateMixin.using` reads that text through `as_bool` as the same boolean, whatever the inherited value is -/
theorem bool_text_semantics (floatOk : Str → Bool) (k : Key) (b parent : Bool) :
    renderIniValue k (.bool b) = .ok (boolText b) ∧
    normSchemeOption floatOk sTruncateError (.str (boolText b)) = .ok (.str (boolText b)) ∧
    usingTruncate parent (.str (boolText b)) = .ok b ∧ usingTruncate parent (.bool b) = .ok b := by
  refine ⟨by cases b <;> rfl, by cases b <;> rfl, ?_, ?_⟩
  · cases b <;> cases parent <;> decide +kernel
  · cases b <;> cases parent <;> rfl

/-- FINDING (kept as a theorem of the model, observed on the real code): a bool under an int-coerced option (`salt_size = True` is accepted
    by the constructor, `True` being an int) is written `True`, which `int()` refuses: the exported text cannot be loaded -/
theorem bool_in_int_option_counterexample (floatOk : Str → Bool) (b : Bool) :
    ∀ key ∈ intCoerced, normSchemeOption floatOk key (.str (boolText b)) = .error .valueError := by
  intro key hk
  have hT : pyIntOfStr (boolText b) = none := by cases b <;> decide +kernel
  have hi : intCoerced.contains key = true := by simpa using hk
  have hf : forbidden.contains key = false := by
    simp only [intCoerced, List.mem_cons, List.not_mem_nil, or_false] at hk
    rcases hk with e | e | e | e <;> rw [e] <;> decide
  simp only [normSchemeOption, hf, hi, hT, Bool.false_eq_true, if_false, if_true]

/-- for an option that is read by truthiness the text `False` would mean true: text typing is safe only because every consumer of a
    boolean setting goes through `as_bool` (previous theorem) -/
theorem false_text_is_truthy : truthy (.str (boolText false)) = true ∧ truthy (.bool false) = false := by decide

/-! ### percent signs and other text -/

/-- `percent_escaping`: for every text `t` (any number of '%' anywhere) of one line, the doubled text is accepted by `set` (A1), and what
    `items()` returns after write/read (A2) and interpolation (A4) is `t.strip()` -/
theorem percent_escaping (k t : Str) (hk : Cfgp.readKey k = .ok k) (hnl : NL ∉ t) :
    Cfgp.beforeSet (pctEscape t) = .ok () ∧ Cfgp.interp (pctEscape t) = .ok t ∧ Cfgp.channel (k, pctEscape t) = .ok (k, strip t) :=
  ⟨beforeSet_escape t, interp_escape t, channel_value k t hk hnl⟩

/-- without the doubling a lone '%' would not come back (it is an InterpolationSyntaxError): the doubling is needed -/
theorem percent_unescaped_counterexample : Cfgp.interp (cp "100%") = .error .valueError ∧ Cfgp.interp (pctEscape (cp "100%")) = .ok (cp "100%") := by
  decide

/-- text under an option that is not coerced comes back as the same text when it is one line without blanks at its ends -/
theorem text_option_roundtrip (floatOk : Str → Bool) (k : Key) (hk : IniKey k)
    (hf : forbidden.contains k.option = false) (hi : intCoerced.contains k.option = false) (hv : k.option ≠ sVaryRounds)
    (t : Str) (ht : TextOK t) : throughText floatOk k (.str t) = .ok (.str t) := by
  unfold throughText
  simp only [renderIniValue, valueText, Except.map, channel_value _ _ (readKey_low _ hk.1 hk.2) ht.1, strip_of_edgeClean t ht.2,
    bind, Except.bind, normSchemeOption, hf, hi, hv, Bool.false_eq_true, if_false]

/-- FINDING: blanks at the ends of a text value are lost (configparser strips values) -/
theorem edge_blank_counterexample :
    throughText (fun _ => true) ⟨none, some (cp "verif_ini_any"), cp "foo"⟩ (.str (cp " x ")) = .ok (.str (cp "x")) := by decide +kernel

example : throughText (fun _ => true) ⟨none, some (cp "bcrypt"), cp "ident"⟩ (.str (cp "a%b %% 100%")) = .ok (.str (cp "a%b %% 100%")) :=
  text_option_roundtrip _ _ ⟨by decide, by decide⟩ (by decide) (by decide) (by decide) _ ⟨by decide, by decide +kernel⟩

/-! ### floats: excluded, and why -/

/-- the float 0.125 (`not f` = False, `f"{f:.2f}"` = "0.12", `str(f)` = "0.125") and the float 0.12 -/
def f0125 : FloatAtom := .obj false (cp "0.12") (cp "0.125")
def f012 : FloatAtom := .obj false (cp "0.12") (cp "0.12")

/-- KNOWN FINDING (two-decimal rendering of a float `vary_rounds`): two different floats are written as the same text … -/
theorem float_two_decimals_counterexample (c s : Option Str) :
    f0125 ≠ f012 ∧
    renderIniValue ⟨c, s, sVaryRounds⟩ (.float f0125) = .ok (cp "0.12") ∧
    renderIniValue ⟨c, s, sVaryRounds⟩ (.float f012) = .ok (cp "0.12") := by
  refine ⟨by decide, rfl, rfl⟩

/-- … so NO reading of the text can give back every float: the full statement `render_parse_same_config` is false with floats in it -/
theorem float_roundtrip_impossible (c s : Option Str) :
    ¬ ∃ parse : Str → Val, ∀ a : FloatAtom, ∀ t, renderIniValue ⟨c, s, sVaryRounds⟩ (.float a) = .ok t → parse t = .float a := by
  intro ⟨parse, h⟩
  have h1 := h f0125 _ (float_two_decimals_counterexample c s).2.1
  have h2 := h f012 _ (float_two_decimals_counterexample c s).2.2
  rw [h1] at h2
  exact absurd h2 (by decide)

/-- the coercion tables are the ones of the source (`_coerce_scheme_options`, read on every run) -/
theorem coercion_table_is_the_sources :
    Gen.Ctx.coercedOptions = ["default_rounds", "max_rounds", "min_rounds", "salt_size", "vary_rounds"] ∧
    (∀ o ∈ Gen.Ctx.coercedOptions, cp o ∈ intCoerced ∨ cp o = sVaryRounds) ∧
    (∀ o ∈ intCoerced, o ∈ Gen.Ctx.coercedOptions.map cp) ∧ sVaryRounds ∈ Gen.Ctx.coercedOptions.map cp := by decide

end Props.C10Ini
