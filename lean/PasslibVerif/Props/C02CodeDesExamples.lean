import PasslibVerif.Props.C02CodeDes
/-
Non-vacuity of Props.C02CodeDes: every main theorem applied to a concrete value computed by the real code (/tmp/repo_clean at HEAD);
the hypotheses are discharged by `decide`, the specification side is evaluated by the kernel.
-/
namespace Props.C02CodeDes
open Py Model.B64 Model.Code.Des Spec.Formats
open Model.Verify (Secret)
open Lemmas.C02CodeDes

/-- `_raw_des_crypt("pässwörd", b"z.") == b"f5UVCALch5Q"` (text secret) -/
example : rawDesCrypt (.text [0x70, 0xe4, 0x73, 0x73, 0x77, 0xf6, 0x72, 0x64]) (ascii "z.") = .ok (ascii "f5UVCALch5Q") := by
  rw [raw_des_crypt_text_eq_spec _ [0x70, 0xc3, 0xa4, 0x73, 0x73, 0x77, 0xc3, 0xb6, 0x72, 0x64] _ (by decide) (by decide) (by decide)
    (by decide)]
  decide +kernel

/-- `_bsdi_secret_to_key(b"a longer password") == 6321364128888922002`,
    `_raw_bsdi_crypt(…, 3, b"rasm") == b"lTZ6GP5.ZWc"` (computed by /tmp/repo_clean; three blocks) -/
example : bsdiSecretToKey (ascii "a longer password") = .ok 6321364128888922002 := by
  rw [bsdi_secret_to_key_eq_spec]; decide +kernel

example : rawBsdiCrypt (.bytes (ascii "a longer password")) 3 (ascii "rasm") = .ok (ascii "lTZ6GP5.ZWc") := by
  rw [raw_bsdi_crypt_eq_spec _ _ _ (by decide) (by decide) (by decide) (by decide)]; decide +kernel

/-- `des_crypt(salt="ab")._calc_checksum_builtin(b"password") == "JnggxhB/yWI"`,
    `bsdi_crypt(salt="rasm", rounds=7)._calc_checksum_builtin(b"password") == "WYlW68OdpqA"` -/
example : desCryptCalcBuiltin (.bytes (ascii "password")) (ascii "ab") = .ok (ascii "JnggxhB/yWI") := by
  rw [des_crypt_calc_builtin_eq_spec _ _ (by decide) (by decide) (by decide)]; decide +kernel

example : bsdiCryptCalcBuiltin (.bytes (ascii "password")) 7 (ascii "rasm") = .ok (ascii "WYlW68OdpqA") := by
  rw [bsdi_crypt_calc_builtin_eq_spec _ _ _ (by decide) (by decide) (by decide) (by decide)]; decide +kernel

end Props.C02CodeDes
