import PasslibVerif.Lemmas.C20BcryptStr
import PasslibVerif.Lemmas.C02CodeDigest
import PasslibVerif.Model.Code.Wrap
/-
C20 — the libpass bcrypt hashers' `hash()` / `verify()` STRING ASSEMBLY (libpass/hashers/bcrypt.py, model Model/LibpassBcryptStr.lean),
for every secret, every hasher cost A and every caller-supplied bcrypt salt of ANY cost B.  The `bcrypt` package is a parameter `L`;
what is assumed about it is `Lemmas.C20BcryptStr.BcryptLib` (layout of `hashpw`'s output, `checkpw = (hashpw == hash)`, only 22 salt
characters are read, 72-byte refusal).  The theorems named `…_assembles` / `…_verify_other` / `…_separator_shift…` hold for EVERY `L`.

FINDINGS (also in the report):
  * `bsha_needs_update_iff` as asked ("False iff B = A and v = 2 and t = 2b") is FALSE of the code: `needs_update` never reads `t`
    (`bsha_needs_update_t_counterexample`); the true statement is `bsha_needs_update_iff_partial`.
  * the hasher cost A plays no role in `hash(secret, salt=…)`: the record carries the cost B of the supplied salt.
-/
namespace Props.C20BcryptStr
open Py Model.Handler Model.Formats Model.Libpass Model.LibpassBcryptStr Lemmas.FormatsMisc Lemmas.C20BcryptStr
open Model.Verify (Secret)
open Model.Code.Digest (b64encode)

theorem recWF_of_bc64 (pfx s22 d : Str) (hp : pfx ∈ lpBcryptPrefixes) (hs : Bc64Text 22 s22) (hd : Bc64Text 31 d) : RecWF pfx s22 d :=
  ⟨⟨(prefix_facts pfx hp).2.1, (prefix_facts pfx hp).2.2⟩, ⟨by rw [hs.1]; decide, by rw [hs.1]; decide, bc64_phc s22 hs.2⟩,
   ⟨by rw [hd.1]; decide, by rw [hd.1]; decide, bc64_phc d hd.2⟩⟩

/-! ## BcryptSHA256Hasher -/

/-- `hash` for EVERY package `L`: when `hashpw` (asked with the pre-hash keyed by the salt's last field) answers a string in its layout,
    the result is the PHC record built from the PARSED answer: version 2, the answer's prefix, the answer's cost, salt and digest. -/
theorem bsha_hash_assembles (L : Lib) (secret : Secret) (b : Bytes) (salt : Bytes) (pfx : Str) (B : Nat) (s22 d : Str)
    (hne : salt ≠ []) (hb : asBytes secret = .ok b) (hp : pfx ∈ lpBcryptPrefixes) (hs : Bc64Text 22 s22) (hd : Bc64Text 31 d)
    (hh : L.hashpw (prehash b (saltKey salt)) salt = .ok (bcStr pfx B s22 d)) :
    bshaHash L secret salt = lpPhcRender bcryptSha256Phc (phcRec 2 pfx B s22 d) := by
  have hne' : salt.isEmpty = false := by cases salt <;> simp_all
  have h2 : ofString "2" = fmtDec (((2 : Nat) : Int)) := by decide
  unfold bshaHash prepareSecret
  simp only [hne', Bool.false_eq_true, if_false, hb, hh, asStr, bcStr_ascii pfx B s22 d hp hs.2 hd.2, if_true,
    bcParse_bcStr pfx B s22 d hp hs hd, phcRecord, phcRec, h2]

/-- **well-formed**: under `BcryptLib`, for every secret, every prefix libpass handles, every cost B in 4..31 and every canonical salt,
    `hash` returns the record `$bcrypt-sha256$v=2,t=<prefix>,r=<B>$<the salt's 22 characters>$<31 digest characters>`, where the digest
    characters are what the package answered for the 44-byte pre-hash (never refused: 44 ≤ 72).  The hasher's own cost does not occur. -/
theorem bsha_hash_wellformed (L : Lib) (hL : BcryptLib L) (secret : Secret) (b : Bytes) (pfx : Str) (B : Nat) (s22 : Str) (last : Nat)
    (hb : asBytes secret = .ok b) (hp : pfx ∈ lpBcryptPrefixes) (hB : 4 ≤ B ∧ B ≤ 31) (hs : Bc64Text 22 s22)
    (hl : s22.getLast? = some last) (hf : last ∈ FINAL) :
    ∃ d hs', Bc64Text 31 d ∧ L.hashpw (prehash b s22) (saltOf pfx B s22) = .ok (bcStr pfx B s22 d) ∧
      lpPhcRender bcryptSha256Phc (phcRec 2 pfx B s22 d) = .ok hs' ∧ bshaHash L secret (saltOf pfx B s22) = .ok hs' := by
  obtain ⟨d, hd, hh⟩ := hL.shape (prehash b s22) pfx B s22 last hp hB.1 hB.2 hs hl hf (by rw [prehash_length]; decide)
  refine ⟨d, _, hd, hh, rfl, ?_⟩
  have := bsha_hash_assembles L secret b (saltOf pfx B s22) pfx B s22 d (by simp [saltOf]) hb hp hs hd
    (by rw [saltKey_saltOf pfx B s22 hs]; exact hh)
  rw [this]; rfl

/-- **a whole bcrypt string handed over as `salt=`** (the package accepts one wherever it expects a salt and reads its first 29
    characters): the hasher makes exactly the record it makes for that string's salt — hence one that verifies (`bsha_verifies_own`).
    Before fix 0142233 the pre-hash was keyed with the 53 characters after the last "$" and the record did not verify its own secret. -/
theorem bsha_hash_of_whole_string (L : Lib) (hL : BcryptLib L) (secret : Secret) (pfx : Str) (B : Nat) (s22 d0 : Str)
    (hs : Bc64Text 22 s22) (hd : Bc64Text 31 d0) :
    bshaHash L secret (bcStr pfx B s22 d0) = bshaHash L secret (saltOf pfx B s22) := by
  unfold bshaHash
  have e1 : (bcStr pfx B s22 d0).isEmpty = false := by simp [bcStr]
  have e2 : (saltOf pfx B s22).isEmpty = false := by simp [saltOf]
  simp only [e1, e2, Bool.false_eq_true, if_false, saltKey_bcStr pfx B s22 d0 hs hd.2, saltKey_saltOf pfx B s22 hs]
  cases prepareSecret secret s22 with
  | error e => rfl
  | ok p => simp only [hL.salt29 p pfx B s22 d0 hs.1 hd.1]

/-- **verify, every package, every well-formed version-2 record** (any type text, any cost, salt of 11..64 and digest of 16..86 PHC
    characters): exactly `checkpw(pre-hash keyed with the record's salt field, "$<t>$<r:02>$<salt><digest>")` -/
theorem bsha_verify_other (L : Lib) (secret : Secret) (b : Bytes) (t : Str) (r : Nat) (s c hs : Str) (hwf : RecWF t s c)
    (hr : lpPhcRender bcryptSha256Phc (phcRec 2 t r s c) = .ok hs) (hb : asBytes secret = .ok b) :
    bshaVerify L hs secret = L.checkpw (prehash b s) (bcStr t r s c) := by
  unfold bshaVerify
  rw [inspect_rendered 2 t r s c hs hwf hr]
  simp only [if_true, field_type, field_rounds]
  simp only [phcRec, pyInt_fmtDec, prepareSecret, hb, rejoin, bcStr]

/-- records of another version are not verified (the package is not asked) -/
theorem bsha_verify_other_version (L : Lib) (secret : Secret) (v : Nat) (hv : v ≠ 2) (t : Str) (r : Nat) (s c hs : Str) (hwf : RecWF t s c)
    (hr : lpPhcRender bcryptSha256Phc (phcRec v t r s c) = .ok hs) :
    bshaVerify L hs secret = .ok false ∧ bshaIdentify hs = .ok false ∧ ∀ A, bshaNeedsUpdate A hs = .ok true := by
  unfold bshaVerify bshaIdentify bshaNeedsUpdate
  rw [inspect_rendered v t r s c hs hwf hr]
  simp [hv]

/-- **own hashes verify**: under `BcryptLib` the string `hash` made verifies for the secret it was made from, whatever cost B the
    supplied salt had and whatever the cost of the verifying hasher is (`verify` does not read `self._rounds`) -/
theorem bsha_verifies_own (L : Lib) (hL : BcryptLib L) (secret : Secret) (b : Bytes) (pfx : Str) (B : Nat) (s22 : Str) (last : Nat) (hs' : Str)
    (hb : asBytes secret = .ok b) (hp : pfx ∈ lpBcryptPrefixes) (hB : 4 ≤ B ∧ B ≤ 31) (hs : Bc64Text 22 s22)
    (hl : s22.getLast? = some last) (hf : last ∈ FINAL) (hh : bshaHash L secret (saltOf pfx B s22) = .ok hs') :
    bshaVerify L hs' secret = .ok true := by
  obtain ⟨d, hs2, hd, hpw, hr, hh2⟩ := bsha_hash_wellformed L hL secret b pfx B s22 last hb hp hB hs hl hf
  rw [hh] at hh2
  have e : hs' = hs2 := by injection hh2
  subst e
  rw [bsha_verify_other L secret b pfx B s22 d hs' (recWF_of_bc64 pfx s22 d hp hs hd) hr hb, hL.check,
    hL.salt29 _ pfx B s22 d hs.1 hd.1, hpw]
  simp [Except.map]

/-- **update check** on a well-formed version-2 record with cost r: False exactly when r is the hasher's cost — for EVERY type text.
    (the statement asked for, "False iff B = A and v = 2 and t = 2b", is false of the code: see the counterexample below) -/
theorem bsha_needs_update_iff_partial (A : Nat) (t : Str) (r : Nat) (s c hs : Str) (hwf : RecWF t s c)
    (hr : lpPhcRender bcryptSha256Phc (phcRec 2 t r s c) = .ok hs) :
    bshaNeedsUpdate A hs = .ok (decide (r ≠ A)) := by
  unfold bshaNeedsUpdate
  rw [inspect_rendered 2 t r s c hs hwf hr]
  simp only [if_true, field_rounds]
  by_cases e : r = A
  · subst e; simp
  · have : ¬ fmtDec (r : Int) = fmtDec (A : Int) := fun h => e (fmtDec_inj r A h)
    simp [e, this]

/-- the record libpass itself made with a salt of cost B: due for an update iff B ≠ A -/
theorem bsha_needs_update_own (L : Lib) (hL : BcryptLib L) (A : Nat) (secret : Secret) (b : Bytes) (pfx : Str) (B : Nat) (s22 : Str) (last : Nat)
    (hs' : Str) (hb : asBytes secret = .ok b) (hp : pfx ∈ lpBcryptPrefixes) (hB : 4 ≤ B ∧ B ≤ 31) (hs : Bc64Text 22 s22)
    (hl : s22.getLast? = some last) (hf : last ∈ FINAL) (hh : bshaHash L secret (saltOf pfx B s22) = .ok hs') :
    bshaNeedsUpdate A hs' = .ok (decide (B ≠ A)) ∧ bshaIdentify hs' = .ok true := by
  obtain ⟨d, hs2, hd, _, hr, hh2⟩ := bsha_hash_wellformed L hL secret b pfx B s22 last hb hp hB hs hl hf
  rw [hh] at hh2
  have e : hs' = hs2 := by injection hh2
  subst e
  refine ⟨bsha_needs_update_iff_partial A pfx B s22 d hs' (recWF_of_bc64 pfx s22 d hp hs hd) hr, ?_⟩
  unfold bshaIdentify
  rw [inspect_rendered 2 pfx B s22 d hs' (recWF_of_bc64 pfx s22 d hp hs hd) hr]
  simp

/-- **identifies exactly its own version**: a well-formed record is identified iff its version is 2 -/
theorem bsha_identifies_exactly_own (v : Nat) (t : Str) (r : Nat) (s c hs : Str) (hwf : RecWF t s c)
    (hr : lpPhcRender bcryptSha256Phc (phcRec v t r s c) = .ok hs) : bshaIdentify hs = .ok (decide (v = 2)) := by
  unfold bshaIdentify
  rw [inspect_rendered v t r s c hs hwf hr]
  by_cases hv : v = 2 <;> simp [hv]

/-- **the pre-hash is passlib's**: for a salt of byte values, `_prepare_secret` = base64 of passlib's `compile_hmac("sha256", salt)(secret)`,
    the `key` that `bcrypt_sha256._calc_checksum` (version 2, `Model.Code.Wrap.bcryptSha256CalcChecksum`) hands to bcrypt -/
theorem bsha_prehash_eq_passlib (b salt : Bytes) (hw : Bytes.WF salt) :
    prehash b salt = b64encode (Model.Hmac.compileHmac Model.Code.Wrap.sha256 64 32 salt b) := by
  unfold prehash
  rw [Lemmas.Hmac.hmac_eq_rfc2104 Model.Code.Wrap.sha256 64 32 (fun x => ⟨(sha256_ok x).2, (sha256_ok x).1⟩) salt b hw]
  rfl

/-- **field boundaries**: moving the "$" one character to the right (salt field 23 characters, digest field 30) re-joins to the SAME
    bcrypt string, but the pre-hash is keyed with the 23 characters: the code accepts the shifted record exactly when the package
    accepts the genuine bcrypt string for THAT other pre-hash — for every package.  (Nothing in libpass checks the field widths.) -/
theorem bsha_separator_shift_right (L : Lib) (secret : Secret) (b : Bytes) (t : Str) (r : Nat) (s22 d' hs : Str) (x : Nat)
    (hwf : RecWF t (s22 ++ [x]) d') (hr : lpPhcRender bcryptSha256Phc (phcRec 2 t r (s22 ++ [x]) d') = .ok hs) (hb : asBytes secret = .ok b) :
    bshaVerify L hs secret = L.checkpw (prehash b (s22 ++ [x])) (bcStr t r s22 (x :: d')) := by
  rw [bsha_verify_other L secret b t r (s22 ++ [x]) d' hs hwf hr hb]
  simp [bcStr]

/-- the same, one character to the left (salt field 21 characters, digest field 32) -/
theorem bsha_separator_shift_left (L : Lib) (secret : Secret) (b : Bytes) (t : Str) (r : Nat) (s21 d hs : Str) (x : Nat)
    (hwf : RecWF t s21 (x :: d)) (hr : lpPhcRender bcryptSha256Phc (phcRec 2 t r s21 (x :: d)) = .ok hs) (hb : asBytes secret = .ok b) :
    bshaVerify L hs secret = L.checkpw (prehash b s21) (bcStr t r (s21 ++ [x]) d) := by
  rw [bsha_verify_other L secret b t r s21 (x :: d) hs hwf hr hb]
  simp [bcStr]

/-- under `BcryptLib`: a shifted record is rejected unless bcrypt of the differently keyed pre-hash, under the same 22-character salt,
    happens to give the same 31 digest characters -/
theorem bsha_separator_shift_rejected (L : Lib) (hL : BcryptLib L) (secret : Secret) (b : Bytes) (t : Str) (r : Nat) (s22 d' hs : Str) (x : Nat)
    (hwf : RecWF t (s22 ++ [x]) d') (hr : lpPhcRender bcryptSha256Phc (phcRec 2 t r (s22 ++ [x]) d') = .ok hs) (hb : asBytes secret = .ok b)
    (hsl : s22.length = 22) (hd : d'.length = 30)
    (hne : L.hashpw (prehash b (s22 ++ [x])) (saltOf t r s22) ≠ .ok (bcStr t r s22 (x :: d'))) :
    bshaVerify L hs secret = .ok false ∨ ∃ e, bshaVerify L hs secret = .error e := by
  rw [bsha_separator_shift_right L secret b t r s22 d' hs x hwf hr hb, hL.check, hL.salt29 _ t r s22 (x :: d') hsl (by simp [hd])]
  cases hq : L.hashpw (prehash b (s22 ++ [x])) (saltOf t r s22) with
  | error e => exact Or.inr ⟨e, rfl⟩
  | ok out =>
    left
    have : out ≠ bcStr t r s22 (x :: d') := fun e => hne (by rw [hq, e])
    simp [Except.map, this]

/-! ## BcryptHasher -/

/-- **well-formed**: under `BcryptLib`, secrets of at most 72 bytes: `hash` returns `$<prefix>$<B:02>$<salt 22><digest 31>` — the cost
    is the SALT's (the hasher's cost is not read when a salt is supplied) -/
theorem bc_hash_wellformed (L : Lib) (hL : BcryptLib L) (secret : Secret) (b : Bytes) (pfx : Str) (B : Nat) (s22 : Str) (last : Nat)
    (hb : asBytes secret = .ok b) (h72 : b.length ≤ 72) (hp : pfx ∈ lpBcryptPrefixes) (hB : 4 ≤ B ∧ B ≤ 31) (hs : Bc64Text 22 s22)
    (hl : s22.getLast? = some last) (hf : last ∈ FINAL) :
    ∃ d, Bc64Text 31 d ∧ L.hashpw b (saltOf pfx B s22) = .ok (bcStr pfx B s22 d) ∧ bcHash L secret (saltOf pfx B s22) = .ok (bcStr pfx B s22 d) := by
  obtain ⟨d, hd, hh⟩ := hL.shape b pfx B s22 last hp hB.1 hB.2 hs hl hf h72
  refine ⟨d, hd, hh, ?_⟩
  have hne : (saltOf pfx B s22).isEmpty = false := by simp [saltOf]
  unfold bcHash
  simp only [hne, Bool.false_eq_true, if_false, hb, hh, asStr, bcStr_ascii pfx B s22 d hp hs.2 hd.2, if_true]

/-- longer secrets are refused by the package, and `hash` passes the refusal on -/
theorem bc_hash_refuses_long (L : Lib) (hL : BcryptLib L) (secret : Secret) (b : Bytes) (salt : Bytes) (hne : salt ≠ [])
    (hb : asBytes secret = .ok b) (h72 : b.length > 72) : bcHash L secret salt = .error .valueError := by
  have hne' : salt.isEmpty = false := by cases salt <;> simp_all
  unfold bcHash
  simp only [hne', Bool.false_eq_true, if_false, hb, hL.refuse72 b salt h72]

/-- every string in the package's layout: identified; verified exactly as `checkpw` answers on its bytes; update iff another cost -/
theorem bc_verify_other (L : Lib) (A : Nat) (secret : Secret) (b : Bytes) (pfx : Str) (B : Nat) (s22 d : Str)
    (hb : asBytes secret = .ok b) (hp : pfx ∈ lpBcryptPrefixes) (hs : Bc64Text 22 s22) (hd : Bc64Text 31 d) :
    bcIdentify (bcStr pfx B s22 d) = .ok true ∧ bcVerify L (bcStr pfx B s22 d) secret = L.checkpw b (bcStr pfx B s22 d) ∧
    bcNeedsUpdate A (bcStr pfx B s22 d) = .ok (decide (B ≠ A)) := by
  have hpar := bcParse_bcStr pfx B s22 d hp hs hd
  have hi : bcIdentify (bcStr pfx B s22 d) = .ok true := by unfold bcIdentify; rw [hpar]; rfl
  have hasc : ∀ c ∈ bcStr pfx B s22 d, c < 128 := by
    intro c hc; simpa using List.all_eq_true.1 (bcStr_ascii pfx B s22 d hp hs.2 hd.2) c hc
  have htx : asBytes (.text (bcStr pfx B s22 d)) = .ok (bcStr pfx B s22 d) :=
    Lemmas.C02CodeDigest.toBytes_text _ _ (Lemmas.C02CodeDigest.utf8_ascii _ hasc)
  refine ⟨hi, ?_, ?_⟩
  · unfold bcVerify
    simp only [hi, hb, htx]
  · unfold bcNeedsUpdate
    rw [hpar]
    by_cases e : B = A
    · subst e; simp
    · have : ¬ ((B : Int) = (A : Int)) := by omega
      simp [e, this]

/-- **own hashes verify** under `BcryptLib` -/
theorem bc_verifies_own (L : Lib) (hL : BcryptLib L) (secret : Secret) (b : Bytes) (pfx : Str) (B : Nat) (s22 : Str) (last : Nat) (hs' : Str)
    (hb : asBytes secret = .ok b) (h72 : b.length ≤ 72) (hp : pfx ∈ lpBcryptPrefixes) (hB : 4 ≤ B ∧ B ≤ 31) (hs : Bc64Text 22 s22)
    (hl : s22.getLast? = some last) (hf : last ∈ FINAL) (hh : bcHash L secret (saltOf pfx B s22) = .ok hs') :
    bcVerify L hs' secret = .ok true ∧ bcIdentify hs' = .ok true ∧ ∀ A, bcNeedsUpdate A hs' = .ok (decide (B ≠ A)) := by
  obtain ⟨d, hd, hpw, hh2⟩ := bc_hash_wellformed L hL secret b pfx B s22 last hb h72 hp hB hs hl hf
  rw [hh] at hh2
  have e : hs' = bcStr pfx B s22 d := by injection hh2
  subst e
  refine ⟨?_, (bc_verify_other L 0 secret b pfx B s22 d hb hp hs hd).1, fun A => (bc_verify_other L A secret b pfx B s22 d hb hp hs hd).2.2⟩
  rw [(bc_verify_other L 0 secret b pfx B s22 d hb hp hs hd).2.1, hL.check, hL.salt29 _ pfx B s22 d hs.1 hd.1, hpw]
  simp [Except.map]

/-! ## non-vacuity and counterexamples: real strings made by /tmp/repo_clean
`BcryptSHA256Hasher(rounds=5).hash("pw", salt=b"$2b$04$abcdefghijklmnopqrstuu")` (hasher cost 5, salt cost 4) and
`bcrypt.hashpw(b"pw", b"$2b$04$abcdefghijklmnopqrstuu")` -/
def exSalt : Str := ofString "abcdefghijklmnopqrstuu"
def exDigest : Str := ofString "0.ED/heDpApO92hrXu8CZN87Y.pGr7O"
def exRecord : Str := ofString "$bcrypt-sha256$v=2,t=2b,r=4$abcdefghijklmnopqrstuu$0.ED/heDpApO92hrXu8CZN87Y.pGr7O"
def exRecord2a : Str := ofString "$bcrypt-sha256$v=2,t=2a,r=4$abcdefghijklmnopqrstuu$0.ED/heDpApO92hrXu8CZN87Y.pGr7O"

example : Bc64Text 22 exSalt ∧ Bc64Text 31 exDigest ∧ exSalt.getLast? = some 117 ∧ 117 ∈ FINAL ∧ ofString "2b" ∈ lpBcryptPrefixes := by decide
example : lpPhcRender bcryptSha256Phc (phcRec 2 (ofString "2b") 4 exSalt exDigest) = .ok exRecord := by decide
example : saltOf (ofString "2b") 4 exSalt = ofString "$2b$04$abcdefghijklmnopqrstuu" := by decide
example : bcStr (ofString "2b") 4 exSalt (ofString "yvPXIbu7xe6/CED2DzX8z6Si09MlzlW") =
    ofString "$2b$04$abcdefghijklmnopqrstuuyvPXIbu7xe6/CED2DzX8z6Si09MlzlW" := by decide
theorem exWF (t : Str) (ht : t ∈ lpBcryptPrefixes) : RecWF t exSalt exDigest := recWF_of_bc64 t exSalt exDigest ht (by decide) (by decide)
/-- the hasher of cost 5 made this record of cost 4: due for an update under cost 5, not under cost 4 -/
example : bshaNeedsUpdate 5 exRecord = .ok true ∧ bshaNeedsUpdate 4 exRecord = .ok false ∧ bshaIdentify exRecord = .ok true :=
  ⟨bsha_needs_update_iff_partial 5 (ofString "2b") 4 exSalt exDigest exRecord (exWF _ (by decide)) (by decide),
   bsha_needs_update_iff_partial 4 (ofString "2b") 4 exSalt exDigest exRecord (exWF _ (by decide)) (by decide),
   bsha_identifies_exactly_own 2 (ofString "2b") 4 exSalt exDigest exRecord (exWF _ (by decide)) (by decide)⟩

/-- the statement asked for — `needs_update` False iff (B = A and v = 2 and t = 2b) — FAILS: a version-2 record of type 2a and the
    hasher's cost is NOT due for an update, although the hasher itself only ever writes `t=2b` with its own salts
    (real code: `BcryptSHA256Hasher(rounds=4).needs_update(exRecord2a)` is False) -/
theorem bsha_needs_update_t_counterexample :
    ∃ (A : Nat) (t : Str) (hs : Str), t ≠ ofString "2b" ∧ lpPhcRender bcryptSha256Phc (phcRec 2 t A exSalt exDigest) = .ok hs ∧
      bshaNeedsUpdate A hs = .ok false :=
  ⟨4, ofString "2a", exRecord2a, by decide, by decide,
    bsha_needs_update_iff_partial 4 (ofString "2a") 4 exSalt exDigest exRecord2a (exWF _ (by decide)) (by decide)⟩

/-- a `$2b$…` string and a version-1 record are not identified by the bcrypt-sha256 hasher; the bcrypt hasher does not identify the record -/
example : bshaIdentify (ofString "$2b$04$abcdefghijklmnopqrstuuyvPXIbu7xe6/CED2DzX8z6Si09MlzlW") = .ok false := by decide +kernel
example : bshaIdentify (ofString "$bcrypt-sha256$v=1,t=2b,r=4$abcdefghijklmnopqrstuu$0.ED/heDpApO92hrXu8CZN87Y.pGr7O") = .ok false :=
  bsha_identifies_exactly_own 1 (ofString "2b") 4 exSalt exDigest _ (exWF _ (by decide)) (by decide)
example : bcIdentify exRecord = .ok false := by decide +kernel
/-- the shifted records are well-formed records for the inspector (23 + 30 and 21 + 32 characters) -/
example : RecWF (ofString "2b") (exSalt ++ [48]) (exDigest.drop 1) ∧ RecWF (ofString "2b") (exSalt.take 21) (117 :: exDigest) := by
  refine ⟨⟨by decide, ⟨by decide, by decide, by decide⟩, ⟨by decide, by decide, by decide⟩⟩,
          ⟨by decide, ⟨by decide, by decide, by decide⟩, ⟨by decide, by decide, by decide⟩⟩⟩

end Props.C20BcryptStr

#print axioms Props.C20BcryptStr.bsha_hash_assembles
#print axioms Props.C20BcryptStr.bsha_hash_wellformed
#print axioms Props.C20BcryptStr.bsha_verify_other
#print axioms Props.C20BcryptStr.bsha_verify_other_version
#print axioms Props.C20BcryptStr.bsha_verifies_own
#print axioms Props.C20BcryptStr.bsha_needs_update_iff_partial
#print axioms Props.C20BcryptStr.bsha_needs_update_own
#print axioms Props.C20BcryptStr.bsha_needs_update_t_counterexample
#print axioms Props.C20BcryptStr.bsha_identifies_exactly_own
#print axioms Props.C20BcryptStr.bsha_prehash_eq_passlib
#print axioms Props.C20BcryptStr.bsha_separator_shift_right
#print axioms Props.C20BcryptStr.bsha_separator_shift_left
#print axioms Props.C20BcryptStr.bsha_separator_shift_rejected
#print axioms Props.C20BcryptStr.bc_hash_wellformed
#print axioms Props.C20BcryptStr.bc_hash_refuses_long
#print axioms Props.C20BcryptStr.bc_verify_other
#print axioms Props.C20BcryptStr.bc_verifies_own
