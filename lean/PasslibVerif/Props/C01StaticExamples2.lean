import PasslibVerif.Props.C01Static
/-
C01, `Static` family — non-vacuity (second half: LDAP digests, MS-SQL, wrappers, htdigest): the hypotheses of the theorems of Props/C01Static.lean instantiated on REAL hashes made by the
library (password "pw" unless said otherwise), evaluated by the kernel: `hash` of the model returns the library's string, `verify`
accepts it for the equivalent bytes / other-case string, the salts used satisfy the well-formedness hypotheses.
(msdcc2, oracle10, lmhash and the {CRYPT} wrappers are too slow for kernel evaluation: their real hashes go through the compiled driver
in tools/corr/c01_static.py; here only `identify` / the hypotheses are instantiated.)
-/
namespace Props.C01Static
open Py Model.Handler Model.Formats Model.Verify Model.VerifyCrypt Model.VerifyFmt.Static

example : hashSecret ldap_md5Hasher (.text [112, 119]) (noSettings LDAP_MD5) = .ok (ofString "{MD5}j+TBFFEoHAlKZXjm3b9e7Q==") ∧
    verify ldap_md5Hasher (.bytes [112, 119]) (ofString "{MD5}j+TBFFEoHAlKZXjm3b9e7Q==") = .ok true := by
  decide +kernel

example : hashSecret ldap_sha1Hasher (.text [112, 119]) (noSettings LDAP_SHA) = .ok (ofString "{SHA}GpHWL3ymc5liWkNopqtdSjuqYHM=") ∧
    verify ldap_sha1Hasher (.bytes [112, 119]) (ofString "{SHA}GpHWL3ymc5liWkNopqtdSjuqYHM=") = .ok true := by
  decide +kernel

example : hashSecret ldap_salted_md5Hasher (.text [112, 119]) (saltSettings (ofString "{SMD5}") [1, 2, 3, 4, 250]) = .ok (ofString "{SMD5}NgLDU3+avA3WVShdcOXkyAECAwT6") ∧
    verify ldap_salted_md5Hasher (.bytes [112, 119]) (ofString "{SMD5}NgLDU3+avA3WVShdcOXkyAECAwT6") = .ok true := by
  decide +kernel

example : hashSecret ldap_salted_sha1Hasher (.text [112, 119]) (saltSettings (ofString "{SSHA}") [1, 2, 3, 4, 250]) = .ok (ofString "{SSHA}MjmZ8dk60LXG8pbPwbcbjnhItwQBAgME+g==") ∧
    verify ldap_salted_sha1Hasher (.bytes [112, 119]) (ofString "{SSHA}MjmZ8dk60LXG8pbPwbcbjnhItwQBAgME+g==") = .ok true := by
  decide +kernel

example : hashSecret ldap_salted_sha256Hasher (.text [112, 119]) (saltSettings (ofString "{SSHA256}") [1, 2, 3, 4, 250]) = .ok (ofString "{SSHA256}G2LUdhppp2RGO9OmpCHwxM95NTj9bnbXhT1dF2yjwMMBAgME+g==") ∧
    verify ldap_salted_sha256Hasher (.bytes [112, 119]) (ofString "{SSHA256}G2LUdhppp2RGO9OmpCHwxM95NTj9bnbXhT1dF2yjwMMBAgME+g==") = .ok true := by
  decide +kernel

example : hashSecret ldap_salted_sha512Hasher (.text [112, 119]) (saltSettings (ofString "{SSHA512}") [1, 2, 3, 4, 250]) = .ok (ofString "{SSHA512}eBEuNtvt9Vfn/fb3czjfNHzZ02cZq4eCYKfWJ6wg6RCHWcvbmbf042YMG9atzSGs23lt3ZiCj+ffctpXm0cQLwECAwT6") ∧
    verify ldap_salted_sha512Hasher (.bytes [112, 119]) (ofString "{SSHA512}eBEuNtvt9Vfn/fb3czjfNHzZ02cZq4eCYKfWJ6wg6RCHWcvbmbf042YMG9atzSGs23lt3ZiCj+ffctpXm0cQLwECAwT6") = .ok true := by
  decide +kernel

example : hashSecret mssql2005Hasher (.text [112, 119]) (saltSettings [] [1, 2, 3, 4]) = .ok (ofString "0x01000102030432F1A7FF6BE56CE182D19F7E1A05275E22845B30") ∧
    verify mssql2005Hasher (.bytes [112, 119]) (ofString "0x01000102030432F1A7FF6BE56CE182D19F7E1A05275E22845B30") = .ok true := by
  decide +kernel

example : hashSecret mssql2000Hasher (.text [112, 119]) (saltSettings [] [1, 2, 3, 4]) = .ok (ofString "0x01000102030432F1A7FF6BE56CE182D19F7E1A05275E22845B30A8FE54AAE472CFFC679BB1F1CA152EEA24BCFCCB") ∧
    mssql2000Verify (.bytes [80, 87]) (ofString "0x01000102030432F1A7FF6BE56CE182D19F7E1A05275E22845B30A8FE54AAE472CFFC679BB1F1CA152EEA24BCFCCB") = .ok true := by
  decide +kernel

example : wrapHashSecret BSD_NT nthashHasher (.text [112, 119]) noSettings = .ok (ofString "$3$$8cc19b6a8cfeac299c2871c86b38de28") ∧
    wrapVerify BSD_NT nthashHasher (.bytes [112, 119]) (ofString "$3$$8cc19b6a8cfeac299c2871c86b38de28") = .ok true ∧
    bsd_nthash.identify (ofString "$3$$8cc19b6a8cfeac299c2871c86b38de28") = true := by
  decide +kernel

example : wrapHashSecret LDAP_MD5 hex_md5Hasher (.text [112, 119]) noSettings = .ok (ofString "{MD5}8fe4c11451281c094a6578e6ddbf5eed") ∧
    wrapVerify LDAP_MD5 hex_md5Hasher (.bytes [112, 119]) (ofString "{MD5}8fe4c11451281c094a6578e6ddbf5eed") = .ok true ∧
    ldap_hex_md5.identify (ofString "{MD5}8fe4c11451281c094a6578e6ddbf5eed") = true := by
  decide +kernel

example : wrapHashSecret LDAP_SHA hex_sha1Hasher (.text [112, 119]) noSettings = .ok (ofString "{SHA}1a91d62f7ca67399625a4368a6ab5d4a3baa6073") ∧
    wrapVerify LDAP_SHA hex_sha1Hasher (.bytes [112, 119]) (ofString "{SHA}1a91d62f7ca67399625a4368a6ab5d4a3baa6073") = .ok true ∧
    ldap_hex_sha1.identify (ofString "{SHA}1a91d62f7ca67399625a4368a6ab5d4a3baa6073") = true := by
  decide +kernel

example : ldap_md5_crypt.identify (ofString "{CRYPT}$1$ab$b2XAKzcGJvTR.javvk3280") = true ∧
    allIn h64 (ofString "ab") = true := by
  decide +kernel

example : htdigestHash (ofString "user") (ofString "realm") (.text [112, 119]) = .ok (ofString "fa13f41f94e1fd29a1193553d0117491") ∧
    htdigestVerify (ofString "user") (ofString "realm") (.bytes [112, 119]) (ofString "fa13f41f94e1fd29a1193553d0117491") = .ok true ∧
    htdigestVerify (ofString "user") (ofString "realm") (.bytes [112, 119]) (ofString "FA13F41F94E1FD29A1193553D0117491") = .error .valueError := by
  decide +kernel

end Props.C01Static
