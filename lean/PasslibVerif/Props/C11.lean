import PasslibVerif.Lemmas.DesEquiv
import PasslibVerif.Lemmas.Hmac
/-
C11 — the built-in cryptographic primitives equal their standards.
This file: DES (FIPS 46-3, salted multi-round crypt(3) variant, 7→8 byte key expansion),
HMAC (RFC 2104) and PBKDF1 (RFC 8018 §5.1) for every digest.
MD4 / scrypt / Blowfish live in Props/C11Md4, C11Scrypt, C11Blowfish.
The DES tables and masks are reflected from the running module on every run (Gen.Des).
-/
namespace Props.C11
open Spec.Des Model.Des Lemmas.DesTables Lemmas.DesEquiv DesLayout

/-! ### DES -/

/-- passlib's table-driven, salted, multi-round DES equals the textbook FIPS 46-3 construction
    (one IP, `rounds` × 16 Feistel rounds with the crypt(3) salt swap, halves swapped between passes, one FP)
    for EVERY key, block, 24-bit salt and round count -/
theorem des_model_eq_spec (key input salt rounds : Nat)
    (hk : key < 2^64) (hi : input < 2^64) (hs : salt < 2^24) (hr : 1 ≤ rounds) :
    desEncryptIntBlock key input salt rounds = .ok (desCryptCore key input salt rounds) :=
  Lemmas.DesEquiv.des_model_eq_spec key input salt rounds hk hi hs hr

/-- with salt 0 and one round it is FIPS 46-3 DES -/
theorem des_model_eq_fips (key input : Nat) (hk : key < 2^64) (hi : input < 2^64) :
    desEncryptIntBlock key input = .ok (desEncrypt key input) := Lemmas.DesEquiv.des_model_eq_fips key input hk hi

/-- exactly the out-of-range argument tuples are refused -/
theorem des_model_error_iff (key input salt rounds : Nat) :
    (∃ e, desEncryptIntBlock key input salt rounds = .error e) ↔
      (rounds < 1 ∨ salt ≥ 2^24 ∨ key ≥ 2^64 ∨ input ≥ 2^64) := Lemmas.DesEquiv.des_model_error_iff key input salt rounds

/-- every one of the 512 SPE entries is S-box ∘ P ∘ E of FIPS 46-3 in passlib's layout -/
theorem spe_eq_fips : Gen.Des.SPE = specSPE := Lemmas.DesTables.spe_eq_fips

theorem ie_eq_fips (input : Nat) (h : input < 2^64) :
    initLR input = (expand (perm input IP 64 >>> 32), expand (perm input IP 64 &&& 0xFFFFFFFF)) :=
  Lemmas.DesTables.ie_eq_fips input h

theorem cf_eq_fips (l r : Nat) (hl : l < 2^32) (hr : r < 2^32) :
    finalCF (expand l, expand r) = perm ((l <<< 32) ||| r) FP 64 := Lemmas.DesTables.cf_eq_fips l r hl hr

theorem ks_eq_fips (key : Nat) (h : key < 2^64) : flat (ksList key) = (subkeys key).map place :=
  Lemmas.DesTables.ks_eq_fips key h

/-- 7→8 byte key expansion and its inverse -/
theorem expand_shrink_inverse (k : Nat) (h : k < 2^56) : (expandDesKeyInt k >>= shrinkDesKeyInt) = .ok k :=
  Lemmas.DesTables.expand_shrink_inverse k h

/-- the parity bit of every key byte is ignored -/
theorem des_ignores_parity (key input salt rounds : Nat) (h : key < 2^64) :
    desCore (key &&& Gen.Des._KDATA_MASK) input salt rounds = desCore key input salt rounds :=
  Lemmas.DesTables.desCore_ignores_parity key input salt rounds h

/-- bytes-level entry point, 8-byte and 7-byte keys -/
theorem des_encrypt_block_key8 (key input : List Nat) (salt rounds : Nat)
    (hk : key.length = 8) (hi : input.length = 8)
    (hkb : ∀ b ∈ key, b < 256) (hib : ∀ b ∈ input, b < 256) (hs : salt < 2^24) (hr : 1 ≤ rounds) :
    desEncryptBlock key input salt rounds =
      .ok (pack64 (desCryptCore (unpack64 key) (unpack64 input) salt rounds)) :=
  Lemmas.DesEquiv.desEncryptBlock_key8 key input salt rounds hk hi hkb hib hs hr

theorem fips_test_vector : desEncrypt 0x133457799BBCDFF1 0x0123456789ABCDEF = 0x85E813540F0AB405 :=
  Lemmas.DesEquiv.fips_test_vector

/-! ### HMAC and PBKDF1 for an arbitrary digest -/
open Py Model.Hmac in
theorem hmac_eq_rfc2104 (H : Bytes → Bytes) (B D : Nat) (hH : ∀ x, Bytes.WF (H x) ∧ (H x).length = D)
    (key msg : Bytes) (hk : Bytes.WF key) :
    compileHmac H B D key msg = Spec.Hmac.hmac H B key msg := Lemmas.Hmac.hmac_eq_rfc2104 H B D hH key msg hk

open Py Model.Hmac in
theorem iterH_eq (H : Bytes → Bytes) : ∀ (n : Nat) (b : Bytes), iterH H n b = Spec.Pbkdf.iter H n b
  | 0, _ => rfl
  | n+1, b => by simp only [iterH, Spec.Pbkdf.iter, iterH_eq H n]

open Py Model.Hmac in
/-- passlib's pbkdf1 loop is RFC 8018 PBKDF1 -/
theorem pbkdf1_eq_spec (H : Bytes → Bytes) (D : Nat) (secret salt : Bytes) (rounds k : Nat) (hr : 1 ≤ rounds) (hk : k ≤ D) :
    pbkdf1 H D secret salt rounds (some k) = .ok (Spec.Pbkdf.pbkdf1 H secret salt rounds k) := by
  unfold pbkdf1 Spec.Pbkdf.pbkdf1
  have h1 : ¬ rounds < 1 := by omega
  have h2 : ¬ k > D := by omega
  simp only [h1, h2, if_false]
  obtain ⟨n, rfl⟩ : ∃ n, rounds = n + 1 := ⟨rounds - 1, by omega⟩
  simp only [iterH, iterH_eq, Nat.add_sub_cancel]

end Props.C11
