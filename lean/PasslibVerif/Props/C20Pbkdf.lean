import PasslibVerif.Model.Libpass
import PasslibVerif.Model.LibpassCodec
import PasslibVerif.Lemmas.FormatsMiscLibpass
import PasslibVerif.Lemmas.FormatsPbkdfCodec
import PasslibVerif.Lemmas.PbkdfLen
import PasslibVerif.Lemmas.DigestLen
/-
C20 — the libpass PBKDF2 hashers (libpass/hashers/pbkdf2.py `PBKDF2SHAHandler`): decision logic over the inspector model of C07,
for EVERY secret, every non-empty salt and every non-zero cost.  The key-derivation function is a parameter of the generic
theorems (both libraries call `hashlib.pbkdf2_hmac`); the instances at the end plug in the RFC 8018 transcription over the
FIPS 180-4 digests and the ab64 codec model of C12, which is what the compiled driver runs against the real hashers.
-/
namespace Props.C20Pbkdf
open Py Model.Handler Model.Formats Model.Libpass Model.B64 Lemmas.FormatsMisc Lemmas.FormatsPbkdf

/-- what the hasher needs of its field codec (`ab64_encode` / `ab64_decode`) -/
structure LpCodecOK (enc : Bytes → Str) (dec : Str → Res Bytes) : Prop where
  roundtrip : ∀ bs, Bytes.WF bs → dec (enc bs) = .ok bs
  nonEmpty : ∀ bs, bs ≠ [] → enc bs ≠ []
  dot : ∀ bs, (enc bs).all isDot = true
  noDollar : ∀ bs, DOLLAR ∉ enc bs

/-- the digest name is a legal `[a-z0-9-]+` -/
def NameOK (dn : Str) : Prop := dn ≠ [] ∧ ∀ x ∈ dn, isLowerDigitDash x = true

/-- the record `hash()` renders for a non-empty salt and non-empty derived key is well formed for the inspector -/
theorem hashWith_wf (h : PbkdfHasher) (hc : LpCodecOK h.enc h.dec) (secret salt : Bytes) (rounds : Nat)
    (hsalt : salt ≠ []) (hkey : h.prf secret salt rounds ≠ []) :
    LpPbkdf2WF h.digestName
      { ident := h.ident, rounds := some (rounds : Int), salt := some (h.enc salt), checksum := some (h.enc (h.prf secret salt rounds)) } :=
  ⟨rfl, rfl, ⟨rounds, rfl⟩, ⟨_, rfl, hc.nonEmpty _ hsalt, hc.dot _⟩, ⟨_, rfl, hc.nonEmpty _ hkey, hc.dot _, hc.noDollar _⟩⟩

/-- what the inspector reads back from a string `hash()` made -/
theorem inspect_hashWith (h : PbkdfHasher) (hc : LpCodecOK h.enc h.dec) (hn : NameOK h.digestName) (secret salt : Bytes) (rounds : Nat)
    (hs : Str) (hsalt : salt ≠ []) (hkey : h.prf secret salt rounds ≠ []) (hh : h.hashWith secret salt rounds = .ok hs) :
    h.inspect hs = .ok (some { ident := h.ident, rounds := some (rounds : Int), salt := some (h.enc salt),
                               checksum := some (h.enc (h.prf secret salt rounds)) }) := by
  have hrt := lp_pbkdf2_roundtrip h.digestName hn.1 hn.2 _ (hashWith_wf h hc secret salt rounds hsalt hkey)
  unfold PbkdfHasher.hashWith at hh
  rw [hh] at hrt
  simpa [resBind, PbkdfHasher.inspect] using hrt

/-- **a libpass PBKDF2 hasher verifies its own hashes** — every secret, every non-empty salt, every non-zero cost (whatever the
    hasher's own configured cost is) -/
theorem libpass_pbkdf2_verifies_own (h : PbkdfHasher) (hc : LpCodecOK h.enc h.dec) (hn : NameOK h.digestName)
    (secret salt : Bytes) (rounds : Nat) (hs : Str) (hsalt : salt ≠ []) (hwf : Bytes.WF salt) (hr : rounds ≠ 0)
    (hkey : h.prf secret salt rounds ≠ []) (hh : h.hashWith secret salt rounds = .ok hs) :
    h.verify hs secret = .ok true := by
  have hi := inspect_hashWith h hc hn secret salt rounds hs hsalt hkey hh
  unfold PbkdfHasher.verify
  have hne : salt.isEmpty = false := by cases salt <;> simp_all
  have hr' : ¬ ((rounds : Int) = 0) := by omega
  simp only [hi, Option.getD_some, hc.roundtrip salt hwf, hne, Bool.false_eq_true, if_false, orDefault, hr', Int.toNat_natCast, hh,
    beq_self_eq_true]

/-- a different secret verifies exactly when it derives the same key (`verify` re-hashes and compares the strings): nothing
    but the derived key decides -/
theorem libpass_pbkdf2_verify_other (h : PbkdfHasher) (hc : LpCodecOK h.enc h.dec) (hn : NameOK h.digestName)
    (secret other salt : Bytes) (rounds : Nat) (hs : Str) (hsalt : salt ≠ []) (hwf : Bytes.WF salt) (hr : rounds ≠ 0)
    (hkey : h.prf secret salt rounds ≠ []) (hinj : ∀ a b, h.enc a = h.enc b → a = b)
    (hh : h.hashWith secret salt rounds = .ok hs) :
    h.verify hs other = .ok (decide (h.prf other salt rounds = h.prf secret salt rounds)) := by
  have hi := inspect_hashWith h hc hn secret salt rounds hs hsalt hkey hh
  unfold PbkdfHasher.verify
  have hne : salt.isEmpty = false := by cases salt <;> simp_all
  have hr' : ¬ ((rounds : Int) = 0) := by omega
  simp only [hi, Option.getD_some, hc.roundtrip salt hwf, hne, Bool.false_eq_true, if_false, orDefault, hr', Int.toNat_natCast]
  unfold PbkdfHasher.hashWith at hh ⊢
  simp only [lpPbkdf2Render, Option.getD_some, Except.ok.injEq] at hh ⊢
  subst hh
  by_cases e : h.prf other salt rounds = h.prf secret salt rounds
  · simp [e]
  · have : h.enc (h.prf other salt rounds) ≠ h.enc (h.prf secret salt rounds) := fun x => e (hinj _ _ x)
    simp only [e, decide_false, beq_eq_false_iff_ne, ne_eq, List.append_cancel_left_eq, List.cons.injEq, true_and]
    intro x; exact this x.symm

/-- the libpass hasher identifies what it made -/
theorem libpass_pbkdf2_identifies_own (h : PbkdfHasher) (hc : LpCodecOK h.enc h.dec) (hn : NameOK h.digestName)
    (secret salt : Bytes) (rounds : Nat) (hs : Str) (hsalt : salt ≠ []) (hkey : h.prf secret salt rounds ≠ [])
    (hh : h.hashWith secret salt rounds = .ok hs) : (h.inspect hs).map Option.isSome = .ok true := by
  rw [inspect_hashWith h hc hn secret salt rounds hs hsalt hkey hh]; rfl

/-- update check: a hash made with the hasher's own cost is current; any other cost asks for an update -/
theorem libpass_pbkdf2_needs_update (h : PbkdfHasher) (hc : LpCodecOK h.enc h.dec) (hn : NameOK h.digestName)
    (secret salt : Bytes) (rounds : Nat) (hs : Str) (hsalt : salt ≠ []) (hkey : h.prf secret salt rounds ≠ [])
    (hh : h.hashWith secret salt rounds = .ok hs) : h.needsUpdate hs = .ok (decide (rounds ≠ h.rounds)) := by
  unfold PbkdfHasher.needsUpdate
  rw [inspect_hashWith h hc hn secret salt rounds hs hsalt hkey hh]
  by_cases e : rounds = h.rounds
  · subst e; simp
  · have : ¬ ((rounds : Int) = (h.rounds : Int)) := by omega
    simp [e, this]

/-- whatever the inspector does not recognise as this digest's record is foreign: not verified, needs an update -/
theorem libpass_pbkdf2_foreign (h : PbkdfHasher) (hs : Str) (secret : Bytes) (hi : h.inspect hs = .ok none) :
    h.verify hs secret = .ok false ∧ h.needsUpdate hs = .ok true := by
  unfold PbkdfHasher.verify PbkdfHasher.needsUpdate
  simp [hi]

/-- a record of ANOTHER digest name is foreign (a pbkdf2-sha512 string under the sha256 hasher and vice versa) -/
theorem libpass_pbkdf2_other_digest_foreign (h : PbkdfHasher) (other : Str) (p : Parsed) (hs : Str)
    (hno : NameOK other) (hne : other ≠ h.digestName) (hwf : LpPbkdf2WF other p) (hr : lpPbkdf2Render p = .ok hs) :
    h.inspect hs = .ok none := by
  -- the string parses under its own name …
  have hown := lp_pbkdf2_roundtrip other hno.1 hno.2 p hwf
  rw [hr] at hown
  simp only [resBind] at hown
  -- … and the parser reads the name before it compares it
  unfold PbkdfHasher.inspect
  unfold lpPbkdf2Parse at hown ⊢
  cases h0 : lit [DOLLAR] hs with
  | none => rfl
  | some r0 =>
    simp only [h0] at hown ⊢
    by_cases e1 : (r0.takeWhile isLowerDigitDash).isEmpty
    · simp [e1]
    · simp only [e1, Bool.false_eq_true, if_false] at hown ⊢
      cases h1 : lit [DOLLAR] (r0.dropWhile isLowerDigitDash) with
      | none => rfl
      | some r1 =>
        simp only [h1] at hown ⊢
        by_cases e2 : (r1.takeWhile isUDigit).isEmpty
        · simp [e2]
        · simp only [e2, Bool.false_eq_true, if_false] at hown ⊢
          cases h2 : (lit [DOLLAR] (r1.dropWhile isUDigit)).bind lpSplitSaltHash with
          | none => rfl
          | some sh =>
            obtain ⟨salt, hash⟩ := sh
            simp only [h2] at hown ⊢
            by_cases e3 : r0.takeWhile isLowerDigitDash = other
            · have : r0.takeWhile isLowerDigitDash ≠ h.digestName := e3 ▸ hne
              simp [this]
            · simp [e3] at hown

/-! ### the two shipped hashers: ab64 codec of C12, PBKDF2 of RFC 8018 over FIPS 180-4 -/

theorem ab64_no_newline (bs : Bytes) : (ab64Encode bs).all isDot = true := by
  rw [List.all_eq_true]
  intro c hc
  unfold ab64Encode at hc
  rcases List.mem_map.1 hc with ⟨d, hd, rfl⟩
  have hm : d ∈ Spec.Rfc4648.stdAlphabet := mem_base64NoPad bs d hd
  have hall : ∀ x ∈ Spec.Rfc4648.stdAlphabet, isDot (plusToDot x) = true := by decide +kernel
  exact hall d hm

theorem lpAb64Dec_encode (bs : Bytes) (h : Bytes.WF bs) : lpAb64Dec (ab64Encode bs) = .ok bs := by
  unfold lpAb64Dec
  rw [Lemmas.B64.ab64_roundtrip bs h]

theorem ab64_lpcodec : LpCodecOK ab64Encode lpAb64Dec where
  roundtrip := lpAb64Dec_encode
  nonEmpty := ab64_codec.nonEmpty
  dot := ab64_no_newline
  noDollar := ab64_codec.noSep

theorem ab64Encode_injective (a b : Bytes) (ha : Bytes.WF a) (hb : Bytes.WF b) (h : ab64Encode a = ab64Encode b) : a = b := by
  have h1 := lpAb64Dec_encode a ha
  rw [h, lpAb64Dec_encode b hb] at h1
  exact (Except.ok.inj h1).symm

theorem name256_ok : NameOK (ofString "pbkdf2-sha256") := ⟨by decide, by decide⟩
theorem name512_ok : NameOK (ofString "pbkdf2-sha512") := ⟨by decide, by decide⟩

theorem sha256_hashOK : Lemmas.PbkdfLen.HashOK Spec.SHA256.sha256 32 :=
  fun x => ⟨Lemmas.DigestLen.sha256_length x, Lemmas.DigestLen.sha256_bytes x⟩
theorem sha512_hashOK : Lemmas.PbkdfLen.HashOK Spec.SHA512.sha512 64 :=
  fun x => ⟨Lemmas.DigestLen.sha512_length x, Lemmas.DigestLen.sha512_bytes x⟩

theorem key256_ne (p s : Bytes) (r : Nat) : lpPrf256 p s r ≠ [] := by
  intro e
  have := (Lemmas.PbkdfLen.pbkdf2_props Spec.SHA256.sha256 64 32 sha256_hashOK (by decide) p s r 32).1
  unfold lpPrf256 at e
  rw [e] at this; cases this
theorem key512_ne (p s : Bytes) (r : Nat) : lpPrf512 p s r ≠ [] := by
  intro e
  have := (Lemmas.PbkdfLen.pbkdf2_props Spec.SHA512.sha512 128 64 sha512_hashOK (by decide) p s r 64).1
  unfold lpPrf512 at e
  rw [e] at this; cases this

/-- PBKDF2SHA256Handler: hash then verify, for every secret, non-empty salt, non-zero cost -/
theorem libpass_pbkdf2_sha256_verifies_own (R : Nat) (secret salt : Bytes) (rounds : Nat) (hs : Str) (hsalt : salt ≠ [])
    (hwf : Bytes.WF salt) (hr : rounds ≠ 0) (hh : (lpPbkdf256 R).hashWith secret salt rounds = .ok hs) :
    (lpPbkdf256 R).verify hs secret = .ok true :=
  libpass_pbkdf2_verifies_own (lpPbkdf256 R) ab64_lpcodec name256_ok secret salt rounds hs hsalt hwf hr (key256_ne _ _ _) hh

theorem libpass_pbkdf2_sha512_verifies_own (R : Nat) (secret salt : Bytes) (rounds : Nat) (hs : Str) (hsalt : salt ≠ [])
    (hwf : Bytes.WF salt) (hr : rounds ≠ 0) (hh : (lpPbkdf512 R).hashWith secret salt rounds = .ok hs) :
    (lpPbkdf512 R).verify hs secret = .ok true :=
  libpass_pbkdf2_verifies_own (lpPbkdf512 R) ab64_lpcodec name512_ok secret salt rounds hs hsalt hwf hr (key512_ne _ _ _) hh

/-- … and the hash always exists (rendering cannot fail) -/
theorem libpass_pbkdf2_hash_total (h : PbkdfHasher) (secret salt : Bytes) (rounds : Nat) : ∃ hs, h.hashWith secret salt rounds = .ok hs :=
  ⟨_, rfl⟩

theorem libpass_pbkdf2_sha256_needs_update (R : Nat) (secret salt : Bytes) (rounds : Nat) (hs : Str) (hsalt : salt ≠ [])
    (hh : (lpPbkdf256 R).hashWith secret salt rounds = .ok hs) : (lpPbkdf256 R).needsUpdate hs = .ok (decide (rounds ≠ R)) :=
  libpass_pbkdf2_needs_update (lpPbkdf256 R) ab64_lpcodec name256_ok secret salt rounds hs hsalt (key256_ne _ _ _) hh

theorem libpass_pbkdf2_sha512_needs_update (R : Nat) (secret salt : Bytes) (rounds : Nat) (hs : Str) (hsalt : salt ≠ [])
    (hh : (lpPbkdf512 R).hashWith secret salt rounds = .ok hs) : (lpPbkdf512 R).needsUpdate hs = .ok (decide (rounds ≠ R)) :=
  libpass_pbkdf2_needs_update (lpPbkdf512 R) ab64_lpcodec name512_ok secret salt rounds hs hsalt (key512_ne _ _ _) hh

/-- the sha256 hasher does not take a sha512 record for its own, nor the other way round -/
theorem libpass_pbkdf2_sha256_rejects_sha512 (R R' : Nat) (secret salt : Bytes) (rounds : Nat) (hs : Str) (hsalt : salt ≠ [])
    (hh : (lpPbkdf512 R').hashWith secret salt rounds = .ok hs) :
    (lpPbkdf256 R).inspect hs = .ok none ∧ (lpPbkdf256 R).verify hs secret = .ok false ∧ (lpPbkdf256 R).needsUpdate hs = .ok true := by
  have hi := libpass_pbkdf2_other_digest_foreign (lpPbkdf256 R) (ofString "pbkdf2-sha512") _ hs name512_ok
    (by show ofString "pbkdf2-sha512" ≠ ofString "pbkdf2-sha256"; decide)
    (hashWith_wf (lpPbkdf512 R') ab64_lpcodec secret salt rounds hsalt (key512_ne _ _ _)) hh
  exact ⟨hi, libpass_pbkdf2_foreign _ hs secret hi⟩

theorem libpass_pbkdf2_sha512_rejects_sha256 (R R' : Nat) (secret salt : Bytes) (rounds : Nat) (hs : Str) (hsalt : salt ≠ [])
    (hh : (lpPbkdf256 R').hashWith secret salt rounds = .ok hs) :
    (lpPbkdf512 R).inspect hs = .ok none ∧ (lpPbkdf512 R).verify hs secret = .ok false ∧ (lpPbkdf512 R).needsUpdate hs = .ok true := by
  have hi := libpass_pbkdf2_other_digest_foreign (lpPbkdf512 R) (ofString "pbkdf2-sha256") _ hs name256_ok
    (by show ofString "pbkdf2-sha256" ≠ ofString "pbkdf2-sha512"; decide)
    (hashWith_wf (lpPbkdf256 R') ab64_lpcodec secret salt rounds hsalt (key256_ne _ _ _)) hh
  exact ⟨hi, libpass_pbkdf2_foreign _ hs secret hi⟩

/-! non-vacuity: a real record made by /repo (`PBKDF2SHA256Handler(rounds=3).hash("pw", salt=b"ab", rounds=2)`) -/
example : (lpPbkdf256 3).hashWith (ofString "pw") (ofString "ab") 2 =
    .ok (ofString "$pbkdf2-sha256$2$YWI$xAkXXeqBnPJpY3DHQ3Dk1Mu.fHQm17FeR0d/CVU6I0M") := by decide +kernel

end Props.C20Pbkdf
