import PasslibVerif.Props.C10Ini
import PasslibVerif.Lemmas.CtxKey
/-
C10 — `render_parse_same_config`: a whole exported configuration through `to_string()` → configparser (A1–A4) → `from_string()` up to the
configuration dictionary, item by item.
-/
namespace Props.C10Ini
open Py Model.CtxKey Model.CtxIni Lemmas.CtxIni
open Model.UsingSalt (strip isWs)

def schemesKey : Key := ⟨none, none, sSchemes⟩

/-- the documented text typing: what a value IS after a reload.  Context options and the coerced scheme options come back as they were;
    under every other scheme option an int / a bool comes back as its text (`rounds = 5000` → `'5000'`, `truncate_error = True` → `'True'`),
    which the consumers read as the same value (`int_other_option_becomes_text`, `bool_text_semantics`) -/
def asLoaded (k : Key) (v : Val) : Val :=
  match k.scheme with
  | none => v
  | some _ =>
    if intCoerced.contains k.option || k.option = sVaryRounds then v
    else match v with
      | .int n => .str (fmtDec n)
      | .bool b => .str (boolText b)
      | v => v

/-- the typing predicate of an exported item other than `schemes` itself (what `iter_config` can yield; FLOATS EXCLUDED — see
    `float_roundtrip_impossible` — and None excluded: `_render_ini_value` asserts), given the context's schemes -/
inductive ItemOK (schemes : List Str) : Key × Val → Prop
  | default (c : Option Str) (t : Str) : TextOK t → (schemes = [] ∨ t ∈ schemes) → ItemOK schemes (⟨c, none, sDefaultOpt⟩, .str t)
  | deprecated (c : Option Str) (l : List Str) : (∀ n ∈ l, nameOK n = true) → NL ∉ joinCS l →
      (l = [sAuto] ∨ (sAuto ∉ l ∧ (schemes = [] ∨ ∀ n ∈ l, n ∈ schemes))) → ItemOK schemes (⟨c, none, sDeprecated⟩, .names l)
  | coerced (c : Option Str) (sc o : Str) (n : Int) : sc ≠ [] → (o ∈ intCoerced ∨ o = sVaryRounds) → ItemOK schemes (⟨c, some sc, o⟩, .int n)
  | otherInt (c : Option Str) (sc o : Str) (n : Int) : sc ≠ [] → forbidden.contains o = false → intCoerced.contains o = false → o ≠ sVaryRounds →
      ItemOK schemes (⟨c, some sc, o⟩, .int n)
  | otherBool (c : Option Str) (sc o : Str) (b : Bool) : sc ≠ [] → forbidden.contains o = false → intCoerced.contains o = false → o ≠ sVaryRounds →
      ItemOK schemes (⟨c, some sc, o⟩, .bool b)
  | otherText (c : Option Str) (sc o t : Str) : sc ≠ [] → forbidden.contains o = false → intCoerced.contains o = false → o ≠ sVaryRounds → TextOK t →
      ItemOK schemes (⟨c, some sc, o⟩, .str t)

/-- one item through the text form: `_write_to_parser` → configparser (A1–A4) → `_parse_config_key` → the body of `_init_options` -/
def throughItem (floatOk : Str → Bool) (schemes : List Str) (kv : Key × Val) : Res (Key × Val) := do
  let line ← renderItem kv
  let line' ← Cfgp.channel line
  let k ← parseKey line'.1
  initOption floatOk schemes k (.str line'.2)

theorem mapM_ok {α β} (f : α → Res β) (g : α → β) : ∀ l : List α, (∀ x ∈ l, f x = .ok (g x)) → l.mapM f = .ok (l.map g)
  | [], _ => rfl
  | x :: xs, h => by
    rw [List.mapM_cons, h x (by simp), mapM_ok f g xs (fun y hy => h y (by simp [hy]))]
    rfl

theorem throughItem_eq (floatOk : Str → Bool) (schemes : List Str) (kv : Key × Val) (t : Str) (hv : valueText kv.1 kv.2 = .ok t)
    (hnl : NL ∉ t) (hs : strip t = t) (hk : KeyOK kv.1) (hik : IniKey kv.1) :
    throughItem floatOk schemes kv = initOption floatOk schemes kv.1 (.str t) := by
  unfold throughItem renderItem renderIniValue
  simp only [hv, Except.map, bind, Except.bind, channel_value _ _ (readKey_low _ hik.1 hik.2) hnl, hs,
    Lemmas.CtxKey.parse_render_key kv.1 hk]

theorem initOption_scheme (floatOk : Str → Bool) (schemes : List Str) (c : Option Str) (sc o : Str) (v : Val) (hsc : sc ≠ []) :
    initOption floatOk schemes ⟨c, some sc, o⟩ v = (normSchemeOption floatOk o v).map fun v' => (⟨c, some sc, o⟩, v') := by
  have h : catTruthy (some sc) = true := by cases sc with | nil => exact absurd rfl hsc | cons _ _ => rfl
  simp only [initOption, h, Bool.not_true, Bool.and_false, Bool.false_and, Bool.false_eq_true, if_false, if_true]

theorem initOption_ctx (floatOk : Str → Bool) (schemes : List Str) (c : Option Str) (o : Str) (v : Val)
    (hg : globalSettings.contains o = false) (ho : o ≠ sSchemes) :
    initOption floatOk schemes ⟨c, none, o⟩ v = (normContextOption schemes o v).map fun v' => (⟨c, none, o⟩, v') := by
  have h : catTruthy (none : Option Str) = false := rfl
  simp only [initOption, hg, h, Bool.and_false, Bool.false_eq_true, if_false, ho, decide_false]

theorem normCtx_default (schemes : List Str) (t : Str) (h : schemes = [] ∨ t ∈ schemes) :
    normContextOption schemes sDefaultOpt (.str t) = .ok (.str t) := by
  have : (!schemes.isEmpty && !schemes.contains t) = false := by
    rcases h with e | e
    · subst e; rfl
    · simp [e]
  simp only [normContextOption, if_true, this, Bool.false_eq_true, if_false]

theorem normCtx_deprecated (schemes : List Str) (l : List Str) (hn : ∀ n ∈ l, nameOK n = true)
    (h : l = [sAuto] ∨ (sAuto ∉ l ∧ (schemes = [] ∨ ∀ n ∈ l, n ∈ schemes))) :
    normContextOption schemes sDeprecated (.str (joinCS l)) = .ok (.names l) := by
  have h2 : (sDeprecated = sDefaultOpt) = False := by simp; decide
  simp only [normContextOption, h2, if_false, if_true, splitcomma_joinCS l hn]
  rcases h with e | ⟨ha, hs⟩
  · subst e; rw [if_pos (by decide), if_neg (by decide)]
  · have hc : l.contains sAuto = false := by simpa using ha
    have : (!schemes.isEmpty && !l.all schemes.contains) = false := by
      rcases hs with e | e
      · subst e; rfl
      · have : l.all schemes.contains = true := by
          rw [List.all_eq_true]; intro n hn; simpa using e n hn
        simp [this]
    simp only [hc, Bool.false_eq_true, if_false, this]

theorem strip_joinCS (l : List Str) (hn : ∀ n ∈ l, nameOK n = true) : strip (joinCS l) = joinCS l := by
  cases l with
  | nil => rfl
  | cons a r =>
    obtain ⟨_, h2, h3⟩ := joinCS_edges (a :: r) (by simp) hn
    exact strip_id _ h2 (fun c hc => (h3 c hc).1)

/-- one exported item through the text form comes back under the same key with the value of the documented text typing -/
theorem item_render_parse (floatOk : Str → Bool) (schemes : List Str) (kv : Key × Val) (h : ItemOK schemes kv)
    (hk : KeyOK kv.1) (hik : IniKey kv.1) : throughItem floatOk schemes kv = .ok (kv.1, asLoaded kv.1 kv.2) := by
  cases h with
  | default c t ht hs =>
    rw [throughItem_eq floatOk schemes _ t rfl ht.1 (strip_of_edgeClean t ht.2) hk hik,
      initOption_ctx _ _ _ _ _ (by decide) (by decide), normCtx_default schemes t hs]
    rfl
  | deprecated c l hn hnl hs =>
    rw [throughItem_eq floatOk schemes _ (joinCS l) rfl hnl (strip_joinCS l hn) hk hik,
      initOption_ctx _ _ _ _ _ (by decide) (by decide), normCtx_deprecated schemes l hn hs]
    rfl
  | coerced c sc o n hsc ho =>
    have ht := fmtDec_text n
    rw [throughItem_eq floatOk schemes _ (fmtDec n) rfl ht.2.1 ht.1 hk hik, initOption_scheme _ _ _ _ _ _ hsc]
    have hp := pyInt_fmtDec_int n
    have hl : asLoaded ⟨c, some sc, o⟩ (.int n) = .int n := by
      rcases ho with ho | ho
      · have hi : intCoerced.contains o = true := by simpa using ho
        simp [asLoaded, hi, ho]
      · simp [asLoaded, ho]
    rw [hl]
    rcases ho with ho | ho
    · have hf : forbidden.contains o = false := by
        simp only [intCoerced, List.mem_cons, List.not_mem_nil, or_false] at ho
        rcases ho with e | e | e | e <;> rw [e] <;> decide
      have hi : intCoerced.contains o = true := by simpa using ho
      simp only [normSchemeOption, hf, Bool.false_eq_true, if_false, hi, if_true, hp, Except.map]
    · have hf : forbidden.contains sVaryRounds = false := by decide
      have hi : intCoerced.contains sVaryRounds = false := by decide
      simp only [normSchemeOption, ho, hf, Bool.false_eq_true, if_false, hi, if_true, coerceVaryRounds, ht.2.2.2, hp, Except.map]
  | otherInt c sc o n hsc hf hi hv =>
    have hf' : o ∉ forbidden := by simpa using hf
    have hi' : o ∉ intCoerced := by simpa using hi
    have ht := fmtDec_text n
    rw [throughItem_eq floatOk schemes _ (fmtDec n) rfl ht.2.1 ht.1 hk hik, initOption_scheme _ _ _ _ _ _ hsc]
    simp [normSchemeOption, hf', hi', hv, Except.map, asLoaded]
  | otherBool c sc o b hsc hf hi hv =>
    have hf' : o ∉ forbidden := by simpa using hf
    have hi' : o ∉ intCoerced := by simpa using hi
    have hb : NL ∉ boolText b ∧ strip (boolText b) = boolText b := by cases b <;> exact ⟨by decide, by decide +kernel⟩
    rw [throughItem_eq floatOk schemes _ (boolText b) rfl hb.1 hb.2 hk hik, initOption_scheme _ _ _ _ _ _ hsc]
    simp [normSchemeOption, hf', hi', hv, Except.map, asLoaded]
  | otherText c sc o t hsc hf hi hv ht =>
    have hf' : o ∉ forbidden := by simpa using hf
    have hi' : o ∉ intCoerced := by simpa using hi
    rw [throughItem_eq floatOk schemes _ t rfl ht.1 (strip_of_edgeClean t ht.2) hk hik, initOption_scheme _ _ _ _ _ _ hsc]
    simp [normSchemeOption, hf', hi', hv, Except.map, asLoaded]

/-- `render_parse_same_config` (item-wise form): every item of an exported configuration (the `schemes` item aside: `schemes_option_roundtrip`),
    written by `_write_to_parser`, carried by configparser as assumed (A1–A4), read by `_parse_config_key` and normalised by `_init_options`,
    is the same key with the same value up to the documented text typing `asLoaded`; floats excluded (`float_roundtrip_impossible`) -/
theorem render_parse_same_config (floatOk : Str → Bool) (schemes : List Str) (cfg : List (Key × Val))
    (h : ∀ kv ∈ cfg, ItemOK schemes kv ∧ KeyOK kv.1 ∧ IniKey kv.1) :
    cfg.mapM (throughItem floatOk schemes) = .ok (cfg.map fun kv => (kv.1, asLoaded kv.1 kv.2)) :=
  mapM_ok _ _ cfg fun kv hkv => item_render_parse floatOk schemes kv (h kv hkv).1 (h kv hkv).2.1 (h kv hkv).2.2

/-- the text typing is reached after ONE reload: a reloaded value is its own reload (what `to_string()` of the reloaded context writes is
    the same text again) -/
theorem asLoaded_idem (k : Key) (v : Val) : asLoaded k (asLoaded k v) = asLoaded k v := by
  unfold asLoaded
  cases k.scheme with
  | none => rfl
  | some s =>
    by_cases hc : (intCoerced.contains k.option || k.option = sVaryRounds) = true
    · simp only [hc, if_true]
    · simp only [hc, if_false]
      cases v <;> rfl

/-- with strings where the code keeps text (no int / bool under an uncoerced option) the reload is exact -/
theorem asLoaded_exact (k : Key) (v : Val) (h : (∀ n, v ≠ .int n) ∧ (∀ b, v ≠ .bool b)) : asLoaded k v = v := by
  unfold asLoaded
  cases k.scheme with
  | none => rfl
  | some s =>
    by_cases hc : (intCoerced.contains k.option || k.option = sVaryRounds) = true
    · simp only [hc, if_true]
    · simp only [hc, if_false]
      cases v with
      | int n => exact absurd rfl (h.1 n)
      | bool b => exact absurd rfl (h.2 b)
      | _ => rfl

end Props.C10Ini

namespace Props.C10Ini
open Py Model.CtxKey Model.CtxIni Lemmas.CtxIni

/-- non-vacuity: an exported configuration with a category default, a deprecated list, a coerced int, an uncoerced int, a bool and a
    text with percent signs satisfies the hypotheses (the schemes being sha256_crypt, md5_crypt) -/
def exampleCfg : List (Key × Val) :=
  [(⟨some (cp "admin"), none, sDefaultOpt⟩, .str (cp "sha256_crypt")),
   (⟨none, none, sDeprecated⟩, .names [cp "md5_crypt"]),
   (⟨none, some (cp "sha256_crypt"), cp "min_rounds"⟩, .int (-5)),
   (⟨some (cp "admin"), some (cp "sha256_crypt"), cp "rounds"⟩, .int 5000),
   (⟨none, some (cp "des_crypt"), sTruncateError⟩, .bool false),
   (⟨none, some (cp "bcrypt"), cp "ident"⟩, .str (cp "2%a"))]

theorem keyOK_of_dec (k : Key) (h1 : k.option ≠ [] ∧ DOT ∉ k.option ∧ noDunder k.option = true ∧ k.option.getLast? ≠ some US)
    (h2 : ∀ c, k.cat = some c → (c ≠ [] ∧ DOT ∉ c ∧ noDunder c = true ∧ c.getLast? ≠ some US) ∧ c ≠ sDefault)
    (h3 : ∀ s, k.scheme = some s → (s ≠ [] ∧ DOT ∉ s ∧ noDunder s = true ∧ s.getLast? ≠ some US) ∧ s ≠ sContext) : KeyOK k := ⟨h1, h2, h3⟩

theorem exampleCfg_ok : ∀ kv ∈ exampleCfg, ItemOK [cp "sha256_crypt", cp "md5_crypt"] kv ∧ KeyOK kv.1 ∧ IniKey kv.1 := by
  intro kv hkv
  simp only [exampleCfg, List.mem_cons, List.not_mem_nil, or_false] at hkv
  rcases hkv with e | e | e | e | e | e <;> subst e
  · exact ⟨.default _ _ ⟨by decide, by decide +kernel⟩ (Or.inr (by decide)), keyOK_of_dec _ (by decide) (by intro c hc; cases hc; decide) (by intro s hs; cases hs), ⟨by decide, by decide⟩⟩
  · exact ⟨.deprecated _ _ (by decide +kernel) (by decide) (Or.inr ⟨by decide, Or.inr (by decide)⟩), keyOK_of_dec _ (by decide) (by intro c hc; cases hc) (by intro s hs; cases hs), ⟨by decide, by decide⟩⟩
  · exact ⟨.coerced _ _ _ _ (by decide) (Or.inl (by decide)), keyOK_of_dec _ (by decide) (by intro c hc; cases hc) (by intro s hs; cases hs; decide), ⟨by decide, by decide⟩⟩
  · exact ⟨.otherInt _ _ _ _ (by decide) (by decide) (by decide) (by decide), keyOK_of_dec _ (by decide) (by intro c hc; cases hc; decide) (by intro s hs; cases hs; decide), ⟨by decide, by decide⟩⟩
  · exact ⟨.otherBool _ _ _ _ (by decide) (by decide) (by decide) (by decide), keyOK_of_dec _ (by decide) (by intro c hc; cases hc) (by intro s hs; cases hs; decide), ⟨by decide, by decide⟩⟩
  · exact ⟨.otherText _ _ _ _ (by decide) (by decide) (by decide) (by decide) ⟨by decide, by decide +kernel⟩, keyOK_of_dec _ (by decide) (by intro c hc; cases hc) (by intro s hs; cases hs; decide), ⟨by decide, by decide⟩⟩

example : exampleCfg.mapM (throughItem (fun _ => true) [cp "sha256_crypt", cp "md5_crypt"]) =
    .ok (exampleCfg.map fun kv => (kv.1, asLoaded kv.1 kv.2)) := render_parse_same_config _ _ _ exampleCfg_ok

end Props.C10Ini
