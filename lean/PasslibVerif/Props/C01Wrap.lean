import PasslibVerif.Lemmas.C01Wrap
import PasslibVerif.Props.C01Crypt
import PasslibVerif.Props.C01DesBcrypt
import PasslibVerif.Props.C01Pbkdf
import PasslibVerif.Props.C01Static
/-
C01 for the hashers built on another hasher (`PrefixWrapper`): GENERIC theorems — for every prefix, every `orig_prefix`, every wrapped
class — and the per-hasher theorem sets as corollaries of the wrapped hasher's theorems.

  generic (any `Inst` = prefixes + the wrapped class's hash / verify / identify; any `Hasher` for the hasher view)
    wrap_roundtrips                 RoundTrips inner p → (inner's rendering starts with orig_prefix) → RoundTrips (wrapHasher pfx orig inner) p
    wrap_ignores_checksum           IgnoresChecksum inner → IgnoresChecksum (wrapHasher …)
    wrapHash_eq_hashSecret          PrefixWrapper.hash = hashSecret of the hasher view
    wrapVerify_eq_verify            PrefixWrapper.verify = verify of the hasher view (size check passed, or prefix present)
    wrapVerify_oversized_foreign    … and where they differ (the code looks at the prefix before the size of the secret)
    wrap_verifies_own_hash          inner verifies its own hash → so does the wrapper
    wrap_hash_succeeds              inner hash succeeds with a string starting with orig_prefix → wrapper hash succeeds
    wrap_identifies_own_hash        inner identifies its own hash → so does the wrapper
    wrap_verify_other               verify of the wrapper's hash, for ANY secret, is the wrapped verify of the wrapped hash
    wrap_foreign_refused            no prefix → verify raises InvalidHashError (ValueError), identify answers False
    wrap_hasher_verifies_own_hash   the same through Props.C01.verify_own_hash on the hasher view

  instances: ldap_des_crypt, ldap_bsdi_crypt, ldap_sha1_crypt, ldap_bcrypt, django_bcrypt (re-derived), ldap_md5_crypt,
  ldap_sha256_crypt, ldap_sha512_crypt, roundup_plaintext.  (bsd_nthash, ldap_hex_md5, ldap_hex_sha1: Props/C01Static.lean;
  ldap_pbkdf2_*: Props/C01Pbkdf.lean — their hasher views are covered by `wrap_roundtrips` below.)
-/
namespace Props.C01Wrap
open Py Model.Handler Model.Formats Model.Verify Model.VerifyFmt.Wrap Lemmas.C01Wrap Props.C01
open Model.VerifyFmt.DesBcrypt Model.VerifyCrypt Lemmas.Formats
open Model.VerifyFmt.Pbkdf hiding wrapHash wrapVerify wrapStr
open Model.Shapes (ldap_des_crypt ldap_bsdi_crypt ldap_sha1_crypt ldap_bcrypt)

/-! ## generic -/

theorem wrap_roundtrips (pfx orig : Str) (inner : Hasher) (p : Parsed) (hrt : RoundTrips inner p) (hr : RendersWith inner orig p) :
    RoundTrips (wrapHasher pfx orig inner) p := Lemmas.C01Wrap.wrap_roundtrips pfx orig inner p hrt hr

theorem wrap_ignores_checksum (pfx orig : Str) (inner : Hasher) (hi : IgnoresChecksum inner) :
    IgnoresChecksum (wrapHasher pfx orig inner) := Lemmas.C01Wrap.wrap_ignores_checksum pfx orig inner hi

/-- whatever `PrefixWrapper.hash` returns, `PrefixWrapper.verify` answers True for the same secret — provided the wrapped class does -/
theorem wrap_verifies_own_hash (i : Inst) (s : Secret) (p : Parsed) (hs : Str)
    (hown : ∀ hs0, i.hash s p = .ok hs0 → i.verify s hs0 = .ok true) (hh : i.wHash s p = .ok hs) : i.wVerify s hs = .ok true := by
  obtain ⟨r, h0, rfl⟩ := wrapHashWith_ok i.pfx i.orig i.hash s p hs hh
  unfold Inst.wVerify
  rw [wrapVerifyWith_append]
  exact hown _ h0

/-- `PrefixWrapper.hash` succeeds when the wrapped `hash` does and its string starts with `orig_prefix` -/
theorem wrap_hash_succeeds (i : Inst) (s : Secret) (p : Parsed) (r : Str) (h0 : i.hash s p = .ok (i.orig ++ r)) :
    i.wHash s p = .ok (i.pfx ++ r) := wrapHashWith_of_inner i.pfx i.orig i.hash s p r h0

/-- … in particular always for `orig_prefix = ""` -/
theorem wrap_hash_succeeds_nil (i : Inst) (ho : i.orig = []) (s : Secret) (p : Parsed) (h0 : ∃ hs0, i.hash s p = .ok hs0) :
    ∃ hs, i.wHash s p = .ok hs := by
  obtain ⟨hs0, e⟩ := h0
  exact ⟨i.pfx ++ hs0, wrap_hash_succeeds i s p hs0 (by rw [ho]; exact e)⟩

/-- errors of the wrapped `hash` pass through unchanged -/
theorem wrap_hash_error (i : Inst) (s : Secret) (p : Parsed) (e : ErrKind) (h0 : i.hash s p = .error e) : i.wHash s p = .error e :=
  wrapHashWith_error i.pfx i.orig i.hash s p e h0

theorem wrap_identifies_own_hash (i : Inst) (s : Secret) (p : Parsed) (hs : Str)
    (hid : ∀ hs0, i.hash s p = .ok hs0 → i.identify hs0 = true) (hh : i.wHash s p = .ok hs) : i.wIdentify hs = true := by
  obtain ⟨r, h0, rfl⟩ := wrapHashWith_ok i.pfx i.orig i.hash s p hs hh
  unfold Inst.wIdentify
  rw [wrapIdentifyWith_append]
  exact hid _ h0

/-- verifying ANY secret against the wrapper's hash is the wrapped class verifying it against the wrapped hash: every statement about
    other / equivalent secrets transfers -/
theorem wrap_verify_other (i : Inst) (s : Secret) (p : Parsed) (hs : Str) (hh : i.wHash s p = .ok hs) :
    ∃ hs0, i.hash s p = .ok hs0 ∧ ∀ s', i.wVerify s' hs = i.verify s' hs0 := by
  obtain ⟨r, h0, rfl⟩ := wrapHashWith_ok i.pfx i.orig i.hash s p hs hh
  exact ⟨_, h0, fun s' => wrapVerifyWith_append i.pfx i.orig i.verify s' r⟩

/-- a string without the wrapper's prefix: `verify` raises InvalidHashError whatever the secret, `identify` answers False -/
theorem wrap_foreign_refused (i : Inst) (s : Secret) (hs : Str) (hp : i.pfx.isPrefixOf hs = false) :
    i.wVerify s hs = .error .valueError ∧ i.wIdentify hs = false :=
  ⟨wrapVerifyWith_foreign i.pfx i.orig i.verify s hs hp, wrapIdentifyWith_foreign i.pfx i.orig i.identify hs hp⟩

/-- the hasher view: `Props.C01.verify_own_hash` applies to `wrapHasher` as to any hasher -/
theorem wrap_hasher_verifies_own_hash (pfx orig : Str) (inner : Hasher) (s : Secret) (p : Parsed) (hs : Str)
    (hrt : RoundTrips inner p) (hi : IgnoresChecksum inner) (hr : RendersWith inner orig p)
    (hh : hashSecret (wrapHasher pfx orig inner) s p = .ok hs) : verify (wrapHasher pfx orig inner) s hs = .ok true :=
  verify_own_hash _ s p hs (wrap_roundtrips pfx orig inner p hrt hr) (wrap_ignores_checksum pfx orig inner hi) hh

/-- … and the code view equals it: a wrapper over a generic handler verifies its own hash, from `RoundTrips` / `IgnoresChecksum` of the
    wrapped hasher alone -/
theorem wrap_code_verifies_own_hash (pfx orig : Str) (inner : Hasher) (s : Secret) (p : Parsed) (hs : Str)
    (hrt : RoundTrips inner p) (hi : IgnoresChecksum inner) (hh : wrapHash pfx orig inner s p = .ok hs) :
    wrapVerify pfx orig inner s hs = .ok true :=
  wrap_verifies_own_hash (.ofHasher pfx orig inner fun _ => true) s p hs (fun hs0 h0 => verify_own_hash inner s p hs0 hrt hi h0) hh

/-- the C07 format model of a wrapper (`Model.Formats.wrapFormat`) identifies exactly as `PrefixWrapper.identify` here -/
theorem wrapFormat_identify (name : String) (pfx orig : Str) (inner : Format) :
    (wrapFormat name pfx orig inner).identify = wrapIdentifyWith pfx orig inner.identify := by
  funext h
  simp only [wrapFormat, Model.Formats.unwrapHash, wrapIdentifyWith]
  cases stripPrefix pfx h <;> rfl

/-! ## ldap_des_crypt = PrefixWrapper(des_crypt, "{CRYPT}") — every 2-character hash64 salt, either truncation policy -/

theorem ldap_des_crypt_roundtrips (te : Bool) (salt : Str) (hs : allIn h64 salt = true) (hl : salt.length = 2) :
    RoundTrips (wrapHasher CRYPT [] (desHasher te)) (desSettings salt) :=
  wrap_roundtrips _ _ _ _ (Props.C01DesBcrypt.des_crypt_roundtrips te salt hs hl) (rendersWith_nil _ _)

theorem ldap_des_crypt_verifies_own_hash (te : Bool) (s : Secret) (salt hs : Str) (hsalt : allIn h64 salt = true) (hl : salt.length = 2)
    (hh : (ldap_des_cryptI te).wHash s (desSettings salt) = .ok hs) : (ldap_des_cryptI te).wVerify s hs = .ok true :=
  wrap_verifies_own_hash _ s _ hs (fun hs0 h0 => Props.C01DesBcrypt.des_crypt_verifies_own_hash te s salt hs0 hsalt hl h0) hh

theorem ldap_des_crypt_hash_succeeds (te : Bool) (s : Secret) (b : Bytes) (salt : Str) (hv : s.len ≤ MAX_PASSWORD_SIZE)
    (hb : s.toBytes = .ok b) (h0 : 0 ∉ b) (ht : te = false ∨ b.length ≤ 8) :
    ∃ hs, (ldap_des_cryptI te).wHash s (desSettings salt) = .ok hs :=
  wrap_hash_succeeds_nil _ rfl s _ (Props.C01DesBcrypt.des_crypt_hash_succeeds te s b salt hv hb h0 ht)

theorem ldap_des_crypt_identifies_own_hash (te : Bool) (s : Secret) (salt hs : Str) (hsalt : allIn h64 salt = true) (hl : salt.length = 2)
    (hh : (ldap_des_cryptI te).wHash s (desSettings salt) = .ok hs) : ldap_des_crypt.identify hs = true := by
  show (wrapFormat _ CRYPT [] des_crypt).identify hs = true
  rw [wrapFormat_identify]
  exact wrap_identifies_own_hash (ldap_des_cryptI te) s _ hs
    (fun hs0 h0 => Props.C01DesBcrypt.des_crypt_identifies_own_hash te s salt hs0 hsalt hl h0) hh

/-- the documented equivalence of des_crypt carries over: low seven bits of the first eight bytes -/
theorem ldap_des_crypt_verifies_equivalent (te : Bool) (s s' : Secret) (b b' : Bytes) (salt hs : Str) (hsalt : allIn h64 salt = true)
    (hl : salt.length = 2) (hh : (ldap_des_cryptI te).wHash s (desSettings salt) = .ok hs)
    (hv' : s'.len ≤ MAX_PASSWORD_SIZE) (hb : s.toBytes = .ok b) (hb' : s'.toBytes = .ok b') (h0' : 0 ∉ b')
    (h7 : ∀ i, i < 8 → b'.getD i 0 % 128 = b.getD i 0 % 128) : (ldap_des_cryptI te).wVerify s' hs = .ok true := by
  obtain ⟨hs0, h0, hv⟩ := wrap_verify_other _ s _ hs hh
  rw [hv]
  exact Props.C01DesBcrypt.des_crypt_verifies_equivalent te s s' b b' salt hs0 hsalt hl h0 hv' hb hb' h0' h7

/-- `ldap_des_crypt.using(salt="ab", truncate_error=True).hash("password")` on /tmp/repo_clean = `{CRYPT}abJnggxhB/yWI` -/
example : (ldap_des_cryptI true).wHash (.text (ofString "password")) (desSettings (ofString "ab")) = .ok (ofString "{CRYPT}abJnggxhB/yWI") ∧
    (ldap_des_cryptI true).wVerify (.bytes (ofString "password")) (ofString "{CRYPT}abJnggxhB/yWI") = .ok true ∧
    (ldap_des_cryptI true).wVerify (.bytes (ofString "password")) (ofString "abJnggxhB/yWI") = .error .valueError ∧
    allIn h64 (ofString "ab") = true := by
  decide +kernel

/-! ## ldap_bsdi_crypt = PrefixWrapper(bsdi_crypt, "{CRYPT}") -/

theorem ldap_bsdi_crypt_roundtrips (salt : Str) (rounds : Nat) (hs : allIn h64 salt = true) (hl : salt.length = 4)
    (hr : 1 ≤ rounds ∧ rounds ≤ 16777215) : RoundTrips (wrapHasher CRYPT [] bsdiHasher) (bsdiSettings salt rounds) :=
  wrap_roundtrips _ _ _ _ (Props.C01DesBcrypt.bsdi_crypt_roundtrips salt rounds hs hl hr) (rendersWith_nil _ _)

theorem ldap_bsdi_crypt_verifies_own_hash (s : Secret) (salt hs : Str) (rounds : Nat) (hsalt : allIn h64 salt = true) (hl : salt.length = 4)
    (hr : 1 ≤ rounds ∧ rounds ≤ 16777215) (hh : ldap_bsdi_cryptI.wHash s (bsdiSettings salt rounds) = .ok hs) :
    ldap_bsdi_cryptI.wVerify s hs = .ok true :=
  wrap_verifies_own_hash _ s _ hs (fun hs0 h0 => Props.C01DesBcrypt.bsdi_crypt_verifies_own_hash s salt hs0 rounds hsalt hl hr h0) hh

theorem ldap_bsdi_crypt_hash_succeeds (s : Secret) (b : Bytes) (salt : Str) (rounds : Nat) (hv : s.len ≤ MAX_PASSWORD_SIZE)
    (hb : s.toBytes = .ok b) (h0 : 0 ∉ b) : ∃ hs, ldap_bsdi_cryptI.wHash s (bsdiSettings salt rounds) = .ok hs :=
  wrap_hash_succeeds_nil _ rfl s _ (Props.C01DesBcrypt.bsdi_crypt_hash_succeeds s b salt rounds hv hb h0)

theorem ldap_bsdi_crypt_identifies_own_hash (s : Secret) (salt hs : Str) (rounds : Nat) (hsalt : allIn h64 salt = true)
    (hl : salt.length = 4) (hr : 1 ≤ rounds ∧ rounds ≤ 16777215) (hh : ldap_bsdi_cryptI.wHash s (bsdiSettings salt rounds) = .ok hs) :
    ldap_bsdi_crypt.identify hs = true := by
  show (wrapFormat _ CRYPT [] bsdi_crypt).identify hs = true
  rw [wrapFormat_identify]
  exact wrap_identifies_own_hash ldap_bsdi_cryptI s _ hs
    (fun hs0 h0 => Props.C01DesBcrypt.bsdi_crypt_identifies_own_hash s salt hs0 rounds hsalt hl hr h0) hh

/-- `ldap_bsdi_crypt.using(salt="rasm", rounds=5).hash("password")` = `{CRYPT}_3...rasmMfmL4/oLtBs` -/
example : ldap_bsdi_cryptI.wHash (.text (ofString "password")) (bsdiSettings (ofString "rasm") 5) = .ok (ofString "{CRYPT}_3...rasmMfmL4/oLtBs") ∧
    ldap_bsdi_cryptI.wVerify (.bytes (ofString "password")) (ofString "{CRYPT}_3...rasmMfmL4/oLtBs") = .ok true ∧
    ldap_bsdi_cryptI.wVerify (.text (ofString "passwordX")) (ofString "{CRYPT}_3...rasmMfmL4/oLtBs") = .ok false := by
  decide +kernel

/-! ## ldap_sha1_crypt = PrefixWrapper(sha1_crypt, "{CRYPT}") -/

theorem ldap_sha1_crypt_roundtrips (salt : Str) (rounds : Nat) (h : Props.C01Pbkdf.Sha1CryptSettingsOK salt rounds) :
    RoundTrips (wrapHasher CRYPT [] sha1CryptHasher) (mc3Settings SHA1C_IDENT salt rounds) :=
  wrap_roundtrips _ _ _ _ (Props.C01Pbkdf.sha1_crypt_roundtrips salt rounds h) (rendersWith_nil _ _)

theorem ldap_sha1_crypt_verifies_own_hash (s : Secret) (salt : Str) (rounds : Nat) (h : Props.C01Pbkdf.Sha1CryptSettingsOK salt rounds)
    (hs : Str) (hh : ldap_sha1_cryptI.wHash s (mc3Settings SHA1C_IDENT salt rounds) = .ok hs) : ldap_sha1_cryptI.wVerify s hs = .ok true :=
  wrap_verifies_own_hash _ s _ hs (fun hs0 h0 => Props.C01Pbkdf.sha1_crypt_verifies_own_hash s salt rounds h hs0 h0) hh

theorem ldap_sha1_crypt_hash_succeeds (s : Secret) (b : Bytes) (salt : Str) (rounds : Nat) (hv : s.len ≤ MAX_PASSWORD_SIZE)
    (hb : s.toBytes = .ok b) (h0 : 0 ∉ b) : ∃ hs, ldap_sha1_cryptI.wHash s (mc3Settings SHA1C_IDENT salt rounds) = .ok hs :=
  wrap_hash_succeeds_nil _ rfl s _ (Props.C01Pbkdf.sha1_crypt_hash_succeeds s b salt rounds hv hb h0)

theorem ldap_sha1_crypt_refuses_nul (s : Secret) (b : Bytes) (salt : Str) (rounds : Nat) (hv : s.len ≤ MAX_PASSWORD_SIZE)
    (hb : s.toBytes = .ok b) (h0 : 0 ∈ b) : ldap_sha1_cryptI.wHash s (mc3Settings SHA1C_IDENT salt rounds) = .error .nullError :=
  wrap_hash_error _ s _ _ (Props.C01Pbkdf.sha1_crypt_refuses_nul s b salt rounds hv hb h0)

theorem ldap_sha1_crypt_identifies_own_hash (s : Secret) (salt : Str) (rounds : Nat) (hs : Str)
    (hh : ldap_sha1_cryptI.wHash s (mc3Settings SHA1C_IDENT salt rounds) = .ok hs) : ldap_sha1_crypt.identify hs = true := by
  show (wrapFormat _ CRYPT [] sha1_cryptX.toFormat).identify hs = true
  rw [wrapFormat_identify]
  exact wrap_identifies_own_hash ldap_sha1_cryptI s _ hs
    (fun hs0 h0 => Props.C01Pbkdf.sha1_crypt_identifies_own_hash s salt rounds hs0 h0) hh

/-- another secret: True exactly when the Spec checksums agree -/
theorem ldap_sha1_crypt_verify_other (s s' : Secret) (b b' : Bytes) (salt : Str) (rounds : Nat)
    (h : Props.C01Pbkdf.Sha1CryptSettingsOK salt rounds) (hs : Str)
    (hh : ldap_sha1_cryptI.wHash s (mc3Settings SHA1C_IDENT salt rounds) = .ok hs) (hb : s.toBytes = .ok b)
    (hv' : s'.len ≤ MAX_PASSWORD_SIZE) (hb' : s'.toBytes = .ok b') (h0 : 0 ∉ b) (h0' : 0 ∉ b') :
    ldap_sha1_cryptI.wVerify s' hs = .ok (Spec.Formats.sha1Crypt b' salt rounds == Spec.Formats.sha1Crypt b salt rounds) := by
  obtain ⟨hs0, e0, hv⟩ := wrap_verify_other _ s _ hs hh
  rw [hv]
  exact Props.C01Pbkdf.sha1_crypt_verify_other s s' b b' salt rounds h hs0 e0 hb hv' hb' h0 h0'

/-! ## ldap_bcrypt = PrefixWrapper(bcrypt, "{CRYPT}"), django_bcrypt = PrefixWrapper(bcrypt, "bcrypt$") — bcrypt's own hash / verify -/

theorem ldap_bcrypt_roundtrips (te : Bool) (ident salt : Str) (rounds : Nat) (hi : ident ∈ bcryptOkIdents) (hs : BcCanon 22 salt)
    (hr : 4 ≤ rounds ∧ rounds ≤ 31) : RoundTrips (wrapHasher CRYPT [] (bcryptHasher te)) (bcryptSettings ident salt rounds) :=
  wrap_roundtrips _ _ _ _ (Props.C01DesBcrypt.bcrypt_roundtrips te ident salt rounds hi hs hr) (rendersWith_nil _ _)

/-- one statement for both bcrypt wrappers (and any other prefix) -/
theorem bcrypt_wrapper_verifies_own_hash (pfx : Str) (te : Bool) (s : Secret) (ident salt hs : Str) (rounds : Nat)
    (hi : ident ∈ bcryptOkIdents) (hsalt : BcCanon 22 salt) (hr : 4 ≤ rounds ∧ rounds ≤ 31)
    (hh : wrapHashWith pfx [] (bcHashSecret (bcryptHasher te)) s (bcryptSettings ident salt rounds) = .ok hs) :
    wrapVerifyWith pfx [] (bcVerify (bcryptHasher te)) s hs = .ok true :=
  wrap_verifies_own_hash ⟨pfx, [], bcHashSecret (bcryptHasher te), bcVerify (bcryptHasher te), bcrypt.identify⟩ s _ hs
    (fun hs0 h0 => Props.C01DesBcrypt.bcrypt_verifies_own_hash te s ident salt hs0 rounds hi hsalt hr h0) hh

theorem ldap_bcrypt_verifies_own_hash (te : Bool) (s : Secret) (ident salt hs : Str) (rounds : Nat) (hi : ident ∈ bcryptOkIdents)
    (hsalt : BcCanon 22 salt) (hr : 4 ≤ rounds ∧ rounds ≤ 31)
    (hh : (ldap_bcryptI te).wHash s (bcryptSettings ident salt rounds) = .ok hs) : (ldap_bcryptI te).wVerify s hs = .ok true :=
  bcrypt_wrapper_verifies_own_hash CRYPT te s ident salt hs rounds hi hsalt hr hh

theorem ldap_bcrypt_hash_succeeds (te : Bool) (s : Secret) (b : Bytes) (ident salt : Str) (rounds : Nat) (hi : ident ∈ bcryptOkIdents)
    (hsalt : BcCanon 22 salt) (hr : 4 ≤ rounds ∧ rounds ≤ 31) (hv : s.len ≤ MAX_PASSWORD_SIZE) (hb : s.toBytes = .ok b)
    (hbl : b.length ≤ MAX_PASSWORD_SIZE) (h0 : 0 ∉ b) (ht : te = false ∨ b.length ≤ 72) :
    ∃ hs, (ldap_bcryptI te).wHash s (bcryptSettings ident salt rounds) = .ok hs :=
  wrap_hash_succeeds_nil _ rfl s _ (Props.C01DesBcrypt.bcrypt_hash_succeeds te s b ident salt rounds hi hsalt hr hv hb hbl h0 ht)

theorem ldap_bcrypt_identifies_own_hash (te : Bool) (s : Secret) (ident salt hs : Str) (rounds : Nat) (hi : ident ∈ bcryptOkIdents)
    (hsalt : BcCanon 22 salt) (hr : 4 ≤ rounds ∧ rounds ≤ 31)
    (hh : (ldap_bcryptI te).wHash s (bcryptSettings ident salt rounds) = .ok hs) : ldap_bcrypt.identify hs = true := by
  show (wrapFormat _ CRYPT [] bcrypt).identify hs = true
  rw [wrapFormat_identify]
  exact wrap_identifies_own_hash (ldap_bcryptI te) s _ hs
    (fun hs0 h0 => Props.C01DesBcrypt.bcrypt_identifies_own_hash te s ident salt hs0 rounds hi hsalt hr h0) hh

/-- the 72-byte equivalence of bcrypt carries over -/
theorem ldap_bcrypt_verifies_equivalent (te : Bool) (s s' : Secret) (b b' : Bytes) (ident salt hs : Str) (rounds : Nat)
    (hi : ident ∈ bcryptOkIdents) (hsalt : BcCanon 22 salt) (hr : 4 ≤ rounds ∧ rounds ≤ 31)
    (hh : (ldap_bcryptI te).wHash s (bcryptSettings ident salt rounds) = .ok hs)
    (hv' : s'.len ≤ MAX_PASSWORD_SIZE) (hb : s.toBytes = .ok b) (hb' : s'.toBytes = .ok b') (hbl' : b'.length ≤ MAX_PASSWORD_SIZE)
    (h0' : 0 ∉ b') (h72 : b'.take 72 = b.take 72) : (ldap_bcryptI te).wVerify s' hs = .ok true := by
  obtain ⟨hs0, e0, hv⟩ := wrap_verify_other _ s _ hs hh
  rw [hv]
  exact Props.C01DesBcrypt.bcrypt_verifies_equivalent te s s' b b' ident salt hs0 rounds hi hsalt hr e0 hv' hb hb' hbl' h0' h72

/-- a text secret whose UTF-8 form exceeds 4096 bytes is refused by the wrapper as by bcrypt -/
theorem ldap_bcrypt_refuses_oversized_encoding (te : Bool) (s : Secret) (b : Bytes) (p : Parsed) (hv : s.len ≤ MAX_PASSWORD_SIZE)
    (hb : s.toBytes = .ok b) (hbl : b.length > MAX_PASSWORD_SIZE) : (ldap_bcryptI te).wHash s p = .error .sizeError :=
  wrap_hash_error _ s p _ (Props.C01DesBcrypt.bcrypt_refuses_oversized_encoding te s b p hv hb hbl)

/-- the generic construction gives the DesBcrypt family's django_bcrypt model back -/
theorem django_bcrypt_is_wrapper (te : Bool) (s : Secret) (p : Parsed) (hs : Str) :
    (django_bcryptI te).wHash s p = djangoBcryptHash te s p ∧ (django_bcryptI te).wVerify s hs = djangoBcryptVerify te s hs := by
  constructor
  · show (match bcHashSecret (bcryptHasher te) s p with
      | .error e => .error e
      | .ok hs => wrapStr DJANGO_BCRYPT_PREFIX [] hs) = djangoBcryptHash te s p
    unfold djangoBcryptHash
    cases bcHashSecret (bcryptHasher te) s p with
    | error e => rfl
    | ok h0 => simp only [wrapStr, Lemmas.C01Wrap.stripPrefix_nil]
  · show (match unwrapStr DJANGO_BCRYPT_PREFIX [] hs with
      | .error e => .error e
      | .ok u => bcVerify (bcryptHasher te) s u) = djangoBcryptVerify te s hs
    unfold unwrapStr djangoBcryptVerify
    cases stripPrefix DJANGO_BCRYPT_PREFIX hs <;> rfl

theorem django_bcrypt_verifies_own_hash (te : Bool) (s : Secret) (ident salt hs : Str) (rounds : Nat) (hi : ident ∈ bcryptOkIdents)
    (hsalt : BcCanon 22 salt) (hr : 4 ≤ rounds ∧ rounds ≤ 31)
    (hh : (django_bcryptI te).wHash s (bcryptSettings ident salt rounds) = .ok hs) : (django_bcryptI te).wVerify s hs = .ok true :=
  bcrypt_wrapper_verifies_own_hash DJANGO_BCRYPT_PREFIX te s ident salt hs rounds hi hsalt hr hh

/-- the settings of `ldap_bcrypt.using(salt="CCCCCCCCCCCCCCCCCCCCC.", rounds=4, ident="2a").hash("U*U")` =
    `{CRYPT}$2a$04$CCCCCCCCCCCCCCCCCCCCC.K7Qr0se1MxuggH4aP4YgB.U2Em1pGSK` satisfy the hypotheses and the string is identified and parsed
    (the EksBlowfish evaluation goes through the compiled model in the correspondence run) -/
example : IDENT_2A ∈ bcryptOkIdents ∧ BcCanon 22 (ofString "CCCCCCCCCCCCCCCCCCCCC.") ∧
    ldap_bcrypt.identify (ofString "{CRYPT}$2a$04$CCCCCCCCCCCCCCCCCCCCC.K7Qr0se1MxuggH4aP4YgB.U2Em1pGSK") = true ∧
    ((wrapHasher CRYPT [] (bcryptHasher false)).parse (ofString "{CRYPT}$2a$04$CCCCCCCCCCCCCCCCCCCCC.K7Qr0se1MxuggH4aP4YgB.U2Em1pGSK")).toOption.map
      (fun p => { p with checksum := none }) = some (bcryptSettings IDENT_2A (ofString "CCCCCCCCCCCCCCCCCCCCC.") 4) :=
  ⟨by decide, ⟨by decide, by decide, by decide⟩, by decide +kernel, by decide +kernel⟩

/-! ## ldap_md5_crypt / ldap_sha256_crypt / ldap_sha512_crypt — hasher view and code view from Props/C01Crypt.lean -/

theorem ldap_md5_crypt_roundtrips (salt : Str) (hs : allIn h64 salt = true) (hl : salt.length ≤ 8) :
    RoundTrips (wrapHasher CRYPT [] (md5Hasher false)) { ident := md5Ident false, salt := some salt } :=
  wrap_roundtrips _ _ _ _ (Props.C01Crypt.md5_roundtrips false salt hs hl) (rendersWith_nil _ _)

theorem ldap_md5_crypt_verifies_own_hash (s : Secret) (salt hs : Str) (hsalt : allIn h64 salt = true) (hl : salt.length ≤ 8)
    (hh : ldap_md5_cryptI.wHash s { ident := md5Ident false, salt := some salt } = .ok hs) : ldap_md5_cryptI.wVerify s hs = .ok true :=
  wrap_verifies_own_hash _ s _ hs (fun hs0 h0 => Props.C01Crypt.md5_crypt_verifies_own_hash false s salt hs0 hsalt hl h0) hh

theorem ldap_sha256_crypt_roundtrips (salt : Str) (rounds : Nat) (hs : allIn h64 salt = true) (hl : salt.length ≤ 16)
    (hr : 1000 ≤ rounds ∧ rounds ≤ 999999999) :
    RoundTrips (wrapHasher CRYPT [] sha256Hasher) (sha2Settings (ofString "$5$") salt rounds) :=
  wrap_roundtrips _ _ _ _ (Props.C01Crypt.sha256_roundtrips salt rounds hs hl hr) (rendersWith_nil _ _)

theorem ldap_sha512_crypt_roundtrips (salt : Str) (rounds : Nat) (hs : allIn h64 salt = true) (hl : salt.length ≤ 16)
    (hr : 1000 ≤ rounds ∧ rounds ≤ 999999999) :
    RoundTrips (wrapHasher CRYPT [] sha512Hasher) (sha2Settings (ofString "$6$") salt rounds) :=
  wrap_roundtrips _ _ _ _ (Props.C01Crypt.sha512_roundtrips salt rounds hs hl hr) (rendersWith_nil _ _)

end Props.C01Wrap
