import PasslibVerif.Lemmas.Saslprep
/-
C11 (SASLprep) — "The pure-Python implementations the library falls back on compute exactly the standard functions: … and the
SASLprep string preparation."

  Gen.Saslprep     regenerated on every run: the 13 `stringprep.in_table_*` predicates of the interpreter as range lists, and the
                   structure of `passlib.utils.saslprep` read from its source (table names of the mapping stage, of the asserts,
                   of `forbidden_` in order, the bidi branch: deciding table, indices 0 / -1, table per branch, raise kinds)
  Model.Saslprep   `saslprep nfkc s`: the function statement by statement, driven by that data (`nfkc` = unicodedata.normalize)
  Spec.Saslprep    RFC 4013 over RFC 3454 §§3–6, written from the RFCs (tables and `nfkc` are parameters)

Statements only; proofs in `Lemmas/Saslprep.lean` (logic) and `Lemmas/SaslprepTables.lean` (`decide +kernel` on the tables).
A text is its list of code points.  `rfcTables` = the interpreter's tables in the role of the RFC's appendix tables.
-/
namespace Props.C11Saslprep
open Model.Saslprep Lemmas.Saslprep Py
open Gen.Saslprep (a1 b1 c12 c21_c22 c3 c4 c5 c6 c7 c8 c9 d1 d2)

/-! ### (a) the function is the standard's -/

/-- For EVERY text `s` and EVERY normalisation function: if normalising the mapped text does not re-introduce a B.1 / C.1.2
    character (`NfkcClean`: exactly what the code's two `assert`s take for granted), passlib's `saslprep` returns what RFC 4013
    prescribes — the same accepted texts with the same result, the same rejected texts, and every rejection is a ValueError.
    In particular the one-loop bidi shortcut (the FIRST character decides whether D.2 or D.1 is forbidden; a RandAL first
    character needs a RandAL last one) is RFC 3454 §6 (2)+(3) on every text, and listing C.4 three times and leaving C.1.2
    to an `assert` loses nothing. -/
theorem saslprep_eq_spec (nfkc : List Nat → List Nat) (s : List Nat) (h : NfkcClean nfkc (mapStage s)) :
    saslprep nfkc s = Spec.Saslprep.saslprep rfcTables nfkc s := by
  unfold saslprep Spec.Saslprep.saslprep Spec.Saslprep.saslprepWith
  rw [← mapStage_eq_spec]
  exact afterNormalize_eq_spec (h (mapStage_clean s))

/-- the hypothesis speaks about the same text in the Spec's own words: the model's mapping stage is RFC 4013 §2.1 -/
theorem mapStage_is_rfc_mapping (s : List Nat) : mapStage s = s.flatMap (Spec.Saslprep.mapChar rfcTables) :=
  mapStage_eq_spec s

/-- the mapping stage leaves no B.1 / C.1.2 character behind (so `NfkcClean` is a condition on `nfkc` alone) -/
theorem mapStage_output_clean (s : List Nat) : Clean (mapStage s) := mapStage_clean s

/-- the bidi shortcut alone, on any clean text (whatever produced it): accepted ⇔ no prohibited output ∧ RFC 3454 §6 -/
theorem bidi_shortcut_iff_rfc (data : List Nat) (h : Clean data) :
    afterNormalize data = .ok data ↔
      (data.any (Spec.Saslprep.prohibited rfcTables) = false ∧ Spec.Saslprep.bidiOk rfcTables data = true) := by
  rw [afterNormalize_eq_spec h]
  cases data.any (Spec.Saslprep.prohibited rfcTables) <;> cases Spec.Saslprep.bidiOk rfcTables data <;> simp

-- non-vacuity: "user name" with a no-break space and a soft hyphen; an Arabic word; a rejected mixed-direction text
example : saslprep id [0x75, 0x73, 0x65, 0x72, 0xA0, 0x6E, 0xAD, 0x61, 0x6D, 0x65] = .ok [0x75, 0x73, 0x65, 0x72, 0x20, 0x6E, 0x61, 0x6D, 0x65] := by
  decide +kernel
example : NfkcClean id (mapStage [0x75, 0x73, 0x65, 0x72, 0xA0, 0x6E, 0xAD, 0x61, 0x6D, 0x65]) := fun h => h
example : saslprep id [0x627, 0x628] = .ok [0x627, 0x628] ∧ saslprep id [0x627, 0x61, 0x628] = .error .valueError ∧
    saslprep id [0x627, 0x31] = .error .valueError ∧ saslprep id [0x31, 0x627] = .error .valueError ∧
    Spec.Saslprep.saslprep rfcTables id [0x627, 0x31] = .error .valueError := by decide +kernel

/-- U+200B is in B.1 AND in C.1.2 (RFC 3454 prints it in both).  Reading RFC 4013 §2.1 with C.1.2 first, the equality holds
    for every text without U+200B … -/
theorem saslprep_eq_specAlt_partial (nfkc : List Nat → List Nat) (s : List Nat) (h : NfkcClean nfkc (mapStage s))
    (h200B : 0x200B ∉ s) : saslprep nfkc s = Spec.Saslprep.saslprepAlt rfcTables nfkc s := by
  unfold saslprep Spec.Saslprep.saslprepAlt Spec.Saslprep.saslprepWith
  rw [← mapStage_eq_specAlt s h200B]
  exact afterNormalize_eq_spec (h (mapStage_clean s))

/-- … and fails for U+200B itself: passlib drops it, that reading makes it a SPACE.
    (FULL statement that is false: `∀ nfkc s, NfkcClean nfkc (mapStage s) → saslprep nfkc s = saslprepAlt rfcTables nfkc s`.) -/
theorem saslprep_eq_specAlt_counterexample :
    NfkcClean id (mapStage [0x200B]) ∧ saslprep id [0x200B] = .ok [] ∧
    Spec.Saslprep.saslprepAlt rfcTables id [0x200B] = .ok [0x20] :=
  ⟨fun h => h, by decide +kernel, by decide +kernel⟩

/-! ### (b) what an accepted result looks like -/

/-- an accepted result is the normalised mapped text; it contains no character of B.1 or of any prohibited table
    (C.1.2, C.2.1, C.2.2, C.3–C.9, A.1) and satisfies RFC 3454 §6 — for every `nfkc`, no hypothesis -/
theorem saslprep_output_clean (nfkc : List Nat → List Nat) (s r : List Nat) (h : saslprep nfkc s = .ok r) :
    r = nfkc (mapStage s) ∧
    (∀ c ∈ r, inTable b1 c = false ∧ Spec.Saslprep.prohibited rfcTables c = false) ∧
    Spec.Saslprep.bidiOk rfcTables r = true := by
  obtain ⟨hr, hc, _⟩ := afterNormalize_ok h
  subst hr
  have h2 := h
  unfold saslprep at h2
  rw [afterNormalize_eq_spec hc] at h2
  refine ⟨rfl, ?_, ?_⟩
  · intro c hcm
    have hd := hc c hcm
    simp only [dirty, Bool.or_eq_false_iff] at hd
    refine ⟨hd.1, ?_⟩
    cases hp : (nfkc (mapStage s)).any (Spec.Saslprep.prohibited rfcTables)
    · cases hx : Spec.Saslprep.prohibited rfcTables c
      · rfl
      · rw [List.any_eq_true.2 ⟨c, hcm, hx⟩] at hp; cases hp
    · rw [hp] at h2; simp at h2
  · cases hp : (nfkc (mapStage s)).any (Spec.Saslprep.prohibited rfcTables) <;> rw [hp] at h2
    · cases hb : Spec.Saslprep.bidiOk rfcTables (nfkc (mapStage s))
      · rw [hb] at h2; simp at h2
      · rfl
    · simp at h2

example : saslprep id [0x5D0, 0x31, 0x5D1] = .ok [0x5D0, 0x31, 0x5D1] := by decide +kernel

/-! ### (c) the two `assert`s -/

/-- EXACTLY when the AssertionError arises: the bidi initialisation passed, and the first character of the normalised text
    that the loop objects to is a B.1 / C.1.2 character (an earlier forbidden character would have raised ValueError). -/
theorem saslprep_assert_iff (nfkc : List Nat → List Nat) (s : List Nat) :
    saslprep nfkc s = .error .assertionError ↔
      ∃ bidi, bidiInit (nfkc (mapStage s)) = .ok bidi ∧
        ∃ pre c post, nfkc (mapStage s) = pre ++ c :: post ∧ dirty c = true ∧ ∀ x ∈ pre, bad bidi x = false :=
  afterNormalize_assert_iff _

/-- hence only if `nfkc` produced a B.1 / C.1.2 character … -/
theorem saslprep_assert_only_if (nfkc : List Nat → List Nat) (s : List Nat)
    (h : saslprep nfkc s = .error .assertionError) :
    ∃ c ∈ nfkc (mapStage s), inTable b1 c = true ∨ inTable c12 c = true := by
  obtain ⟨_, _, pre, c, post, e, hd, _⟩ := (saslprep_assert_iff nfkc s).1 h
  refine ⟨c, by rw [e]; simp, ?_⟩
  simpa [dirty] using hd

/-- … it cannot arise under `NfkcClean` … -/
theorem saslprep_no_assert (nfkc : List Nat → List Nat) (s : List Nat) (h : NfkcClean nfkc (mapStage s)) :
    saslprep nfkc s ≠ .error .assertionError :=
  afterNormalize_clean_no_assert (h (mapStage_clean s))

/-- … and conversely a B.1 / C.1.2 character produced by `nfkc` is never let through: the call fails (with the assertion, or
    with the ValueError of an earlier check), and these are the only two error kinds of the function -/
theorem saslprep_dirty_rejected (nfkc : List Nat → List Nat) (s : List Nat)
    (h : ∃ c ∈ nfkc (mapStage s), inTable b1 c = true ∨ inTable c12 c = true) :
    saslprep nfkc s = .error .assertionError ∨ saslprep nfkc s = .error .valueError := by
  have hn : ¬ Clean (nfkc (mapStage s)) := by
    intro hc
    obtain ⟨c, hm, hd⟩ := h
    have := hc c hm
    simp only [dirty, Bool.or_eq_false_iff] at this
    rcases hd with hd | hd
    · rw [this.1] at hd; cases hd
    · rw [this.2] at hd; cases hd
  obtain ⟨e, he⟩ := afterNormalize_dirty_rejected hn
  rcases afterNormalize_error_kinds he with rfl | rfl
  · exact Or.inl he
  · exact Or.inr he

theorem saslprep_error_kinds (nfkc : List Nat → List Nat) (s : List Nat) (e : ErrKind) (h : saslprep nfkc s = .error e) :
    e = .assertionError ∨ e = .valueError := afterNormalize_error_kinds h

-- non-vacuity: a normalisation that emits a soft hyphen / a no-break space trips the assert; behind a control character it
-- is the ValueError that arrives
example : saslprep (fun _ => [0x61, 0xAD]) [0x61] = .error .assertionError ∧
    saslprep (fun _ => [0x61, 0xA0]) [0x61] = .error .assertionError ∧
    saslprep (fun _ => [0x07, 0xAD]) [0x61] = .error .valueError ∧
    saslprep (fun _ => [0x627, 0xAD]) [0x61] = .error .valueError := by decide +kernel

/-! ### (d) ASCII, empty text, idempotence -/

/-- printable ASCII is left alone (for every `nfkc` that leaves this text alone) -/
theorem saslprep_ascii (nfkc : List Nat → List Nat) (s : List Nat) (h : ∀ c ∈ s, 0x20 ≤ c ∧ c ≤ 0x7E)
    (hn : nfkc s = s) : saslprep nfkc s = .ok s := by
  have hc : Clean s := fun c hc => (ascii_facts (h c hc).1 (h c hc).2).1
  unfold saslprep
  rw [mapStage_of_clean hc, hn]
  exact afterNormalize_ascii h

example : saslprep id ("correct horse battery staple ~!".toList.map Char.toNat) =
    .ok ("correct horse battery staple ~!".toList.map Char.toNat) :=
  saslprep_ascii id ("correct horse battery staple ~!".toList.map Char.toNat) (by decide) rfl

/-- the early `return ""`: whenever the normalised mapped text is empty the result is the empty text — in particular for the
    empty text and for a text made of B.1 characters only -/
theorem saslprep_empty (nfkc : List Nat → List Nat) (s : List Nat) (h : nfkc (mapStage s) = []) :
    saslprep nfkc s = .ok [] := by
  unfold saslprep; rw [h]; rfl

theorem saslprep_empty_text (nfkc : List Nat → List Nat) (h : nfkc [] = []) : saslprep nfkc [] = .ok [] :=
  saslprep_empty nfkc [] h

example : saslprep id [] = .ok [] ∧ saslprep id [0xAD, 0x200B, 0xFE0F, 0xFEFF] = .ok [] := by decide +kernel

/-- idempotence: an accepted result is accepted again and unchanged — for every `nfkc` that is idempotent at this input
    (no cleanliness hypothesis is needed: acceptance implies the result is clean) -/
theorem saslprep_idempotent (nfkc : List Nat → List Nat) (s r : List Nat)
    (hn : nfkc (nfkc (mapStage s)) = nfkc (mapStage s)) (h : saslprep nfkc s = .ok r) :
    saslprep nfkc r = .ok r := by
  obtain ⟨hr, hc, _⟩ := afterNormalize_ok h
  subst hr
  unfold saslprep
  rw [mapStage_of_clean hc, hn]
  exact h

/-- the same as one equation over results -/
theorem saslprep_idempotent_bind (nfkc : List Nat → List Nat) (s : List Nat)
    (hn : nfkc (nfkc (mapStage s)) = nfkc (mapStage s)) :
    (saslprep nfkc s).bind (saslprep nfkc) = saslprep nfkc s := by
  cases h : saslprep nfkc s with
  | error e => rfl
  | ok r => exact saslprep_idempotent nfkc s r hn h

example : saslprep id [0x49, 0xAD, 0x58] = .ok [0x49, 0x58] ∧ saslprep id [0x49, 0x58] = .ok [0x49, 0x58] := by
  decide +kernel

/-! ### (e) the tables -/

/-- look-up by ranges is membership in a listed range … -/
theorem inTable_means (t : Table) (c : Nat) : inTable t c = true ↔ ∃ r ∈ t, r.1 ≤ c ∧ c ≤ r.2 := inTable_iff t c

/-- … every reflected table is in canonical form (non-empty ranges, strictly increasing, not adjacent), inside the code space … -/
theorem tables_sorted : ∀ p ∈ Gen.Saslprep.tables, sortedT p.2 = true ∧ boundedT p.2 = true := by
  have hs := all_sorted
  have hb := List.all_eq_true.1 all_bounded
  intro p hp
  refine ⟨?_, hb p hp⟩
  simp only [Gen.Saslprep.tables, List.mem_cons, List.not_mem_nil, or_false] at hp
  rcases hp with rfl | rfl | rfl | rfl | rfl | rfl | rfl | rfl | rfl | rfl | rfl | rfl | rfl
  · exact hs.1
  · exact hs.2.1
  · exact hs.2.2.1
  · exact hs.2.2.2.1
  · exact hs.2.2.2.2.1
  · exact hs.2.2.2.2.2.1
  · exact hs.2.2.2.2.2.2.1
  · exact hs.2.2.2.2.2.2.2.1
  · exact hs.2.2.2.2.2.2.2.2.1
  · exact hs.2.2.2.2.2.2.2.2.2.1
  · exact hs.2.2.2.2.2.2.2.2.2.2.1
  · exact hs.2.2.2.2.2.2.2.2.2.2.2.1
  · exact hs.2.2.2.2.2.2.2.2.2.2.2.2

/-- … so a code point lies in at most one range of a table -/
theorem table_range_unique (p : String × Table) (hp : p ∈ Gen.Saslprep.tables) (c : Nat) (r q : Nat × Nat)
    (hr : r ∈ p.2) (hq : q ∈ p.2) (rc : r.1 ≤ c ∧ c ≤ r.2) (qc : q.1 ≤ c ∧ c ≤ q.2) : r = q :=
  sorted_unique (tables_sorted p hp).1 hr hq rc qc

/-- every table name the source of `saslprep` mentions is a reflected table, and the structure read from the source is the
    one the theorems above are about (an edit of the source changes `Gen.Saslprep` and breaks this) -/
theorem source_structure :
    tableOf Gen.Saslprep.mapDropTable = b1 ∧ tableOf Gen.Saslprep.mapSpaceTable = c12 ∧
    Gen.Saslprep.mapReplacement = [0x20] ∧ Gen.Saslprep.normalForm = "NFKC" ∧ Gen.Saslprep.emptyResult = [] ∧
    tableOf Gen.Saslprep.ralTable = d1 ∧ Gen.Saslprep.bidiFirstIdx = 0 ∧ Gen.Saslprep.bidiLastIdx = -1 ∧
    tableOf Gen.Saslprep.ralBranchForbidden = d2 ∧ tableOf Gen.Saslprep.nonRalBranchForbidden = d1 ∧
    Gen.Saslprep.nonRalBranchForbidsRal = true ∧
    errOf Gen.Saslprep.bidiMalformedRaises = .valueError ∧ errOf Gen.Saslprep.forbiddenRaises = .valueError ∧
    assertTables = [b1, c12] ∧
    (∀ bidi, forbiddenTables bidi = [a1, c21_c22, c3, c4, c4, c4, c5, c6, c7, c8, c9, bidi]) :=
  ⟨rfl, rfl, rfl, rfl, rfl, rfl, rfl, rfl, rfl, rfl, rfl, rfl, rfl, rfl, fun _ => rfl⟩

/-- D.1 ∩ D.2 = ∅ -/
theorem d1_d2_disjoint (c : Nat) : ¬ (inTable d1 c = true ∧ inTable d2 c = true) :=
  disjoint_sound Lemmas.Saslprep.d1_d2_disjoint c

/-- C.1.2 and B.1 do not contain U+0020 (the mapping stage's replacement is final) -/
theorem space_not_mapped : inTable c12 0x20 = false ∧ inTable b1 0x20 = false := ⟨space_not_c12, space_not_b1⟩

/-- FULL statement asked for: B.1 ∩ C.1.2 = ∅.  It is FALSE of the tables (and of RFC 3454 as printed): -/
theorem b1_c12_disjoint_counterexample : inTable b1 0x200B = true ∧ inTable c12 0x200B = true := by decide +kernel

/-- strongest true version: U+200B ZERO WIDTH SPACE is the only common member -/
theorem b1_c12_disjoint_partial (c : Nat) : (inTable b1 c = true ∧ inTable c12 c = true) ↔ c = 0x200B := b1_c12_inter c

/-- the ten small tables are literally the lists printed in RFC 3454 (B.1, C.1.2, C.2.1 ∪ C.2.2, C.3 – C.9) -/
theorem small_tables_eq_rfc3454 :
    b1 = [(0x00AD, 0x00AD), (0x034F, 0x034F), (0x1806, 0x1806), (0x180B, 0x180D), (0x200B, 0x200D), (0x2060, 0x2060),
          (0xFE00, 0xFE0F), (0xFEFF, 0xFEFF)] ∧
    c12 = [(0x00A0, 0x00A0), (0x1680, 0x1680), (0x2000, 0x200B), (0x202F, 0x202F), (0x205F, 0x205F), (0x3000, 0x3000)] ∧
    c21_c22 = [(0x0000, 0x001F), (0x007F, 0x009F), (0x06DD, 0x06DD), (0x070F, 0x070F), (0x180E, 0x180E), (0x200C, 0x200D),
          (0x2028, 0x2029), (0x2060, 0x2063), (0x206A, 0x206F), (0xFEFF, 0xFEFF), (0xFFF9, 0xFFFC), (0x1D173, 0x1D17A)] ∧
    c3 = [(0xE000, 0xF8FF), (0xF0000, 0xFFFFD), (0x100000, 0x10FFFD)] ∧
    c4 = (0xFDD0, 0xFDEF) :: (List.range 17).map (fun p => (p * 0x10000 + 0xFFFE, p * 0x10000 + 0xFFFF)) ∧
    c5 = [(0xD800, 0xDFFF)] ∧ c6 = [(0xFFF9, 0xFFFD)] ∧ c7 = [(0x2FF0, 0x2FFB)] ∧
    c8 = [(0x0340, 0x0341), (0x200E, 0x200F), (0x202A, 0x202E), (0x206A, 0x206F)] ∧
    c9 = [(0xE0001, 0xE0001), (0xE0020, 0xE007F)] :=
  ⟨b1_eq_rfc, c12_eq_rfc, c21_c22_eq_rfc, c3_eq_rfc, c4_eq_rfc, c5_eq_rfc, c6_eq_rfc, c7_eq_rfc, c8_eq_rfc, c9_eq_rfc⟩

/-- members and non-members of the three big tables that RFC 3454 prints (first and last lines of A.1, D.1, D.2 and a few
    well-known characters) -/
theorem big_tables_rfc_members :
    -- A.1: "0221", "0234-024F", …, "E0080-EFFFD"; assigned characters are not in it
    inTable a1 0x0221 = true ∧ inTable a1 0x0234 = true ∧ inTable a1 0x024F = true ∧ inTable a1 0xE0080 = true ∧
    inTable a1 0xEFFFD = true ∧ inTable a1 0x0220 = false ∧ inTable a1 0x0041 = false ∧ inTable a1 0x0627 = false ∧
    -- D.1: "05BE", "05C0", "05C3", "05D0-05EA", …, "FE76-FEFC"; U+200F RIGHT-TO-LEFT MARK
    inTable d1 0x05BE = true ∧ inTable d1 0x05C0 = true ∧ inTable d1 0x05D0 = true ∧ inTable d1 0x05EA = true ∧
    inTable d1 0x0627 = true ∧ inTable d1 0x200F = true ∧ inTable d1 0xFE76 = true ∧ inTable d1 0xFEFC = true ∧
    inTable d1 0x0041 = false ∧ inTable d1 0x0661 = false ∧
    -- D.2: "0041-005A", "0061-007A", "00AA", "00B5", "00BA", …, "F0000-FFFFD", "100000-10FFFD"; U+200E LEFT-TO-RIGHT MARK
    inTable d2 0x0041 = true ∧ inTable d2 0x005A = true ∧ inTable d2 0x0061 = true ∧ inTable d2 0x007A = true ∧
    inTable d2 0x00AA = true ∧ inTable d2 0x00B5 = true ∧ inTable d2 0x00BA = true ∧ inTable d2 0x200E = true ∧
    inTable d2 0xF0000 = true ∧ inTable d2 0x10FFFD = true ∧
    inTable d2 0x0030 = false ∧ inTable d2 0x0020 = false ∧ inTable d2 0x05D0 = false := by decide +kernel

end Props.C11Saslprep
