import PasslibVerif.Props.C08FamiliesDesBcrypt
/-
Non-vacuity of Props/C08FamiliesDesBcrypt.lean on real hashes of /tmp/repo_clean (hand-written: tools/dev/c08_families_parts/DesBcrypt.examples.lean).
The behaviour of the real code on each string is quoted in the comments (run 2026-09-28).
-/
namespace Props.C08Families.DesBcrypt
open Py Model.Handler Model.Formats Model.Verify Model.VerifyFmt.DesBcrypt Lemmas.Formats Lemmas.Handler Lemmas.C01DesBcrypt Props.C01
  Props.C01DesBcrypt Lemmas.C08Families Lemmas.C08FamiliesDesBcrypt

/-- `des_crypt.using(salt="ab").hash("password")` = "abJnggxhB/yWI" (kernel-evaluated); last character `I` → `J`: False
    (real code: False); "ab" alone is a configuration string (real code: ValueError "expected des_crypt hash, got des_crypt config
    string"); NUL in the secret (real code: NullPasswordError) -/
example : verify (desHasher false) (.text (ofString "password")) (ofString "abJnggxhB/yWJ") = .ok false :=
  des_crypt_altered_hash_rejected_on false (ofString "ab") (by decide) (by decide) (.text (ofString "password")) (ofString "abJnggxhB/yWI") _
    (ofString "JnggxhB/yWJ") (by decide +kernel) (by decide +kernel) (by decide +kernel)
example : verify (desHasher false) (.text (ofString "password")) (ofString "ab") = .error .valueError :=
  des_crypt_config_string_value_error false _ _ (desSettings (ofString "ab")) (by decide) (by decide +kernel) rfl
example : verify (desHasher false) (.bytes [112, 0]) (ofString "abJnggxhB/yWI") = .error .nullError := by decide +kernel

/-- bsdi_crypt: `bsdi_crypt.using(salt="rasm", rounds=5).hash("password")` = "_3...rasmMfmL4/oLtBs"; `s` → `t` (real code: False) -/
example : verify bsdiHasher (.text (ofString "password")) (ofString "_3...rasmMfmL4/oLtBt") = .ok false :=
  bsdi_crypt_altered_hash_rejected_on (ofString "rasm") 5 (by decide) (by decide) (by decide) (.text (ofString "password"))
    (ofString "_3...rasmMfmL4/oLtBs") _ (ofString "MfmL4/oLtBt") (by decide +kernel) (by decide +kernel) (by decide +kernel)

/-- bcrypt: the documented equivalence is the unused bits of the last salt character (4 bits) and of the last checksum character (2 bits),
    which `from_string` repairs.  `$2a$04$CCCCCCCCCCCCCCCCCCCCC.FXJH…QxgC` (made by /tmp/repo_clean for "password") with the salt ending in
    `/` instead of `.`, or the checksum ending in `D` instead of `C`, parses to the same record — so `verify` cannot tell them apart, for any
    secret (real code: True for all three); `…Qxga` is another checksum (real code: False): hypotheses of
    `bcrypt_altered_checksum_rejected` (the EksBlowfish evaluation itself is not run in the kernel) -/
example (te : Bool) (s : Secret) :
    bcVerify (bcryptHasher te) s (ofString "$2a$04$CCCCCCCCCCCCCCCCCCCCC/FXJHjF.8tyWAsIeGLxC7hC/nyX4QxgD") =
    bcVerify (bcryptHasher te) s (ofString "$2a$04$CCCCCCCCCCCCCCCCCCCCC.FXJHjF.8tyWAsIeGLxC7hC/nyX4QxgC") :=
  bcrypt_same_parse_same_answer te s _ _ (by cases te <;> decide +kernel)
example : (bcryptHasher false).parse (ofString "$2a$04$CCCCCCCCCCCCCCCCCCCCC.FXJHjF.8tyWAsIeGLxC7hC/nyX4QxgC") =
      .ok { bcryptSettings IDENT_2A (ofString "CCCCCCCCCCCCCCCCCCCCC.") 4 with checksum := some (ofString "FXJHjF.8tyWAsIeGLxC7hC/nyX4QxgC") } ∧
    (bcryptHasher false).parse (ofString "$2a$04$CCCCCCCCCCCCCCCCCCCCC.FXJHjF.8tyWAsIeGLxC7hC/nyX4Qxga") =
      .ok { bcryptSettings IDENT_2A (ofString "CCCCCCCCCCCCCCCCCCCCC.") 4 with checksum := some (ofString "FXJHjF.8tyWAsIeGLxC7hC/nyX4Qxga") } ∧
    ofString "FXJHjF.8tyWAsIeGLxC7hC/nyX4Qxga" ≠ ofString "FXJHjF.8tyWAsIeGLxC7hC/nyX4QxgC" := by
  refine ⟨by decide +kernel, by decide +kernel, by decide⟩
/-- `$2x$` and a configuration string are ValueErrors at the parser (real code: ValueError "crypt_blowfish's buggy '2x' hashes are not
    currently supported" / "expected bcrypt hash, got bcrypt config string") -/
example : (bcryptHasher false).parse (ofString "$2x$04$CCCCCCCCCCCCCCCCCCCCC.FXJHjF.8tyWAsIeGLxC7hC/nyX4QxgC") = .error .valueError ∧
    bcVerify (bcryptHasher false) (.text (ofString "password")) (ofString "$2a$04$CCCCCCCCCCCCCCCCCCCCC.") = .error .valueError := by
  refine ⟨by decide +kernel, by decide +kernel⟩
/-- django_bcrypt without its prefix: ValueError whatever the secret (real code: ValueError "not a valid django_bcrypt hash") -/
example (te : Bool) (s : Secret) :
    djangoBcryptVerify te s (ofString "$2a$04$CCCCCCCCCCCCCCCCCCCCC.FXJHjF.8tyWAsIeGLxC7hC/nyX4QxgC") = .error .valueError :=
  django_bcrypt_no_prefix_value_error te s _ (by decide +kernel)

end Props.C08Families.DesBcrypt
