import PasslibVerif.Model.OsCryptBackend
import PasslibVerif.Props.C05Util
/-
C03 — "all backends agree; every advertised backend works", for the os_crypt back ends of des_crypt, bsdi_crypt, md5_crypt, sha1_crypt,
sha256_crypt, sha512_crypt (Model/OsCryptBackend.lean).  Everything is for EVERY `crypt` (the C library's function is a parameter) and
every builtin routine.
-/
namespace Props.C03OsCrypt
open Py Model.PyUtil Model.OsCryptBackend Props.C05Util Lemmas.PyUtil
open Model.Handler (DOLLAR)

attribute [local simp] Gen.OsCrypt.des_crypt_len Gen.OsCrypt.des_crypt_drop Gen.OsCrypt.bsdi_crypt_len Gen.OsCrypt.bsdi_crypt_pfx
  Gen.OsCrypt.bsdi_crypt_tail Gen.OsCrypt.md5_crypt_extra Gen.OsCrypt.md5_crypt_tail Gen.OsCrypt.sha1_crypt_extra Gen.OsCrypt.sha1_crypt_tail
  Gen.OsCrypt.sha256_crypt_cs Gen.OsCrypt.sha512_crypt_cs

/-! ## the probe vectors (read from the source by tools/extract_units_oscrypt.py) -/

def s (x : String) : Str := x.toList.map Char.toNat

theorem probe_vectors :
    probeVector .des_crypt = (s "test", s "abgOeLfPimXQo") ∧
    probeVector .bsdi_crypt = (s "test", s "_/...lLDAxARksGCHin.") ∧
    probeVector .md5_crypt = (s "test", s "$1$test$pi/xDtU5WFVRqYS6BMU8X/") ∧
    probeVector .sha1_crypt = (s "test", s "$sha1$1$Wq3GL2Vp$C8U25GvfHS8qGHimExLaiSFlGkAe") ∧
    probeVector .sha256_crypt = (s "test", s "$5$rounds=1000$test$QmQADEXMG8POI5WDsaeho0P36yK3Tcrgboabng6bkb/") ∧
    probeVector .sha512_crypt = (s "test", s "$6$rounds=1000$test$2M/Lx6MtobqjLjobw0Wmo4Q5OFx5nVLJvmgseatA6oMnyWeBdRDx4DU.1H3eGmse6pgsOgDisWBGI5c7TZauS0") := by
  decide

/-- every probe secret is "test" (no NUL), every known hash is non-empty -/
theorem probe_vector_wf (c : Cls) : (probeVector c).2 ≠ [] ∧ 0 ∉ (probeVector c).1 := by
  cases c <;> decide

/-- an answer that `safe_crypt` passes on as `h` was the str `h` or the (ASCII) bytes `h` -/
theorem checkResult_some (r : CryptRet) (h : Str) (hr : checkResult r = .ok (some h)) : r = .text h ∨ r = .bytes h := by
  cases r with
  | null => simp [checkResult] at hr
  | osError => simp [checkResult] at hr
  | raises e => simp [checkResult] at hr
  | text t =>
    cases t with
    | nil => simp [checkResult] at hr
    | cons a b =>
      simp only [checkResult] at hr
      split at hr
      · simp at hr
      · simp only [Except.ok.injEq, Option.some.injEq] at hr; exact .inl (by rw [hr])
  | bytes t =>
    simp only [checkResult, pyDecodeAscii] at hr
    split at hr
    · simp at hr
    · rename_i x hx
      split at hx
      · simp only [Except.ok.injEq] at hx; subst hx
        cases t with
        | nil => simp at hr
        | cons a b =>
          simp only at hr
          split at hr
          · simp at hr
          · simp only [Except.ok.injEq, Option.some.injEq] at hr; exact .inr (by rw [hr])
      · simp at hx

/-- `probe_advertises_only_working`: the os_crypt backend is advertised (the loader returns True) only if crypt(), called with the
    class's test secret and known hash as the setting, answered with exactly that known hash -/
theorem probe_advertises_only_working (crypt : Crypt) (c : Cls) (h : loadOsCrypt crypt c = true) :
    crypt (probeVector c).1 (probeVector c).2 = .text (probeVector c).2 ∨ crypt (probeVector c).1 (probeVector c).2 = .bytes (probeVector c).2 := by
  obtain ⟨hne, h0⟩ := probe_vector_wf c
  have ht : testCrypt crypt (.text (probeVector c).1) (.text (probeVector c).2) = .ok true := by
    simp only [loadOsCrypt, loadOsCryptT] at h
    simp only [testCrypt]
    rcases hr : testCryptT crypt (.text (probeVector c).1) (.text (probeVector c).2) with ⟨calls, r⟩
    rw [hr] at h
    cases r with
    | error e => simp at h
    | ok b => cases b <;> simp_all
  have hs := (test_crypt_true_iff crypt _ _ hne).mp ht
  have hc := (safe_crypt_calls_crypt_once_with crypt (.text (probeVector c).1) (.text (probeVector c).2) _ _ rfl h0 rfl).1
  simp only [safeCrypt, hc] at hs
  exact checkResult_some _ _ hs

/-- and conversely a crypt() that answers the vector is advertised -/
theorem probe_advertises_working (crypt : Crypt) (c : Cls) (h : crypt (probeVector c).1 (probeVector c).2 = .text (probeVector c).2)
    (hf : isFailure (.text (probeVector c).2) = false) : loadOsCrypt crypt c = true := by
  obtain ⟨hne, h0⟩ := probe_vector_wf c
  have hs := safe_crypt_returns_unchanged crypt (.text (probeVector c).1) (.text (probeVector c).2) _ _ _ rfl h0 rfl h hf
  have ht := (test_crypt_true_iff crypt (.text (probeVector c).1) _ hne).mpr hs
  simp only [testCrypt] at ht
  simp only [loadOsCrypt, loadOsCryptT]
  rcases hr : testCryptT crypt (.text (probeVector c).1) (.text (probeVector c).2) with ⟨calls, r⟩
  rw [hr] at ht
  simp only at ht
  subst ht
  rfl

/-- what the loader assigns: `_calc_checksum_backend` becomes the os_crypt routine exactly when the loader returns True and the call is
    not a dry run; otherwise it is left as it was -/
theorem probe_assigns (crypt : Crypt) (c : Cls) (dry : Bool) (cur : Calc) (b : Bool) (sel : Calc)
    (h : (loadOsCryptT crypt c dry cur).2 = .ok (b, sel)) : sel = (if b && !dry then .osCrypt else cur) := by
  simp only [loadOsCryptT] at h
  rcases hr : testCryptT crypt (.text (probeVector c).1) (.text (probeVector c).2) with ⟨calls, r⟩
  rw [hr] at h
  cases r with
  | error e => simp at h
  | ok t =>
    cases t <;> cases dry <;> simp at h <;> obtain ⟨h1, h2⟩ := h <;> subst h1 <;> subst h2 <;> rfl

-- a crypt() that knows only des_crypt: des_crypt is advertised, md5_crypt is not
example : loadOsCrypt (fun _ _ => .text (s "abgOeLfPimXQo")) .des_crypt = true := by decide
example : loadOsCrypt (fun _ _ => .text (s "abgOeLfPimXQo")) .md5_crypt = false := by decide
example : loadOsCrypt (fun _ _ => .text (s "*0")) .sha256_crypt = false := by decide
example : loadOsCrypt (fun _ _ => .null) .sha512_crypt = false := by decide

/-! ## the checksum routine -/

/-- `oscrypt_falls_back`: when `safe_crypt` gives None (bytes secret that is not UTF-8, crypt() returned NULL / a failure token /
    raised OSError) the result is EXACTLY the builtin routine's, whatever that is -/
theorem oscrypt_falls_back (crypt : Crypt) (builtin : Arg → PRes Str) (c : Cls) (i : Inst) (secret : Arg)
    (h : safeCrypt crypt secret (.text (config c i)) = .ok none) :
    calcChecksumOsCrypt crypt builtin c i secret = liftP (builtin secret) := by
  simp only [safeCrypt] at h
  simp only [calcChecksumOsCrypt, calcChecksumOsCryptT]
  rcases hr : safeCryptT crypt secret (.text (config c i)) with ⟨calls, r⟩
  rw [hr] at h; simp only at h; subst h; rfl

/-- bytes that are not UTF-8 never reach crypt(): no call, the builtin routine answers -/
theorem oscrypt_non_utf8 (crypt : Crypt) (builtin : Arg → PRes Str) (c : Cls) (i : Inst) (b : Bytes)
    (h : Model.TotpSerial.utf8Decode b = none) :
    calcChecksumOsCryptT crypt builtin c i (.bytes b) = ([], liftP (builtin (.bytes b))) := by
  simp [calcChecksumOsCryptT, safeCryptT, decode_secret_eq, secretText, h]

/-- otherwise the answer is `sliceChecksum` of what `safe_crypt` passed on -/
theorem oscrypt_slices (crypt : Crypt) (builtin : Arg → PRes Str) (c : Cls) (i : Inst) (secret : Arg) (hash : Str)
    (h : safeCrypt crypt secret (.text (config c i)) = .ok (some hash)) :
    calcChecksumOsCrypt crypt builtin c i secret = sliceChecksum c i hash := by
  simp only [safeCrypt] at h
  simp only [calcChecksumOsCrypt, calcChecksumOsCryptT]
  rcases hr : safeCryptT crypt secret (.text (config c i)) with ⟨calls, r⟩
  rw [hr] at h; simp only at h; subst h; rfl

/-- a NUL in a text secret: ValueError without calling crypt() and without consulting the builtin routine -/
theorem oscrypt_refuses_nul_text (crypt : Crypt) (builtin : Arg → PRes Str) (c : Cls) (i : Inst) (t : Str) (h : 0 ∈ t) :
    calcChecksumOsCryptT crypt builtin c i (.text t) = ([], .error (.py .valueError)) := by
  simp only [calcChecksumOsCryptT, safe_crypt_refuses_nul_text crypt t _ h]

/-- … and in a UTF-8 bytes secret -/
theorem oscrypt_refuses_nul_bytes (crypt : Crypt) (builtin : Arg → PRes Str) (c : Cls) (i : Inst) (b : Bytes)
    (hv : (Model.TotpSerial.utf8Decode b).isSome = true) (h : 0 ∈ b) :
    calcChecksumOsCryptT crypt builtin c i (.bytes b) = ([], .error (.py .valueError)) := by
  simp only [calcChecksumOsCryptT, safe_crypt_refuses_nul_bytes_partial crypt b _ hv h]

/-! ### the shape test -/

/-- the length of the class's checksum -/
def chkLen : Cls → Nat
  | .des_crypt => 11 | .bsdi_crypt => 11 | .md5_crypt => 22 | .sha1_crypt => 28 | .sha256_crypt => 43 | .sha512_crypt => 86

theorem negIndex_some (n : Nat) (h : Str) (ch : Nat) (hn : negIndex n h = some ch) : n ≤ h.length ∧ h[h.length - n]? = some ch := by
  unfold negIndex at hn
  by_cases hl : h.length < n
  · simp [hl] at hn
  · simp only [hl, ↓reduceIte] at hn; exact ⟨by omega, hn⟩

theorem negIndex_none (n : Nat) (h : Str) (hp : 0 < n) (hn : negIndex n h = none) : h.length < n := by
  unfold negIndex at hn
  by_cases hl : h.length < n
  · exact hl
  · simp only [hl, ↓reduceIte] at hn
    have := List.getElem?_eq_none_iff.mp hn
    omega

/-- the errors of the shape test: the documented InternalBackendError and nothing else (an answer too short to hold a checksum included:
    fix d9967b3 — the sha2 classes used to raise IndexError there) -/
theorem slice_errors (c : Cls) (i : Inst) (hash : Str) (e : OcErr) (h : sliceChecksum c i hash = .error e) :
    e = .internalBackendError := by
  cases c <;> simp only [sliceChecksum] at h
  all_goals first
    | (split at h
       · simp only [Except.error.injEq] at h; exact h.symm
       · simp at h)
    | (split at h
       · simp only [Except.error.injEq] at h; exact h.symm
       · split at h
         · simp only [Except.error.injEq] at h; exact h.symm
         · split at h
           · simp only [Except.error.injEq] at h; exact h.symm
           · simp at h)

/-- `oscrypt_wrong_shape_raises`: whatever comes out of the slice is the LAST `chkLen` characters of crypt()'s answer, and that answer
    passed the class's test: des_crypt 13 long starting with the salt; bsdi_crypt 20 long starting with the first 9 of the config;
    md5_crypt / sha1_crypt config + 23 / + 29 long starting with the config; sha2: starting with the ident, `$` before the checksum.
    Any other answer is never sliced into a checksum (`slice_errors`: InternalBackendError, or IndexError in the sha2 classes). -/
theorem oscrypt_wrong_shape_raises (c : Cls) (i : Inst) (hash chk : Str) (h : sliceChecksum c i hash = .ok chk) :
    chk = lastN (chkLen c) hash ∧ chkLen c < hash.length ∧
    (match c with
      | .des_crypt => hash.length = 13 ∧ pyStartsWith hash i.salt = true
      | .bsdi_crypt => hash.length = 20 ∧ pyStartsWith hash ((config c i).take 9) = true
      | .md5_crypt => hash.length = (config c i).length + 23 ∧ pyStartsWith hash (config c i) = true
      | .sha1_crypt => hash.length = (config c i).length + 29 ∧ pyStartsWith hash (config c i) = true
      | .sha256_crypt | .sha512_crypt => pyStartsWith hash (ident c) = true ∧ hash[hash.length - (chkLen c + 1)]? = some DOLLAR) := by
  cases c <;> simp only [sliceChecksum] at h
  case des_crypt =>
    split at h
    · simp at h
    · rename_i hc
      simp only [Bool.or_eq_true, Bool.not_eq_eq_eq_not, Bool.not_true, bne_iff_ne, ne_eq, not_or, Bool.not_eq_false, Decidable.not_not] at hc
      simp only [Except.ok.injEq] at h
      simp only [Gen.OsCrypt.des_crypt_len] at hc
      refine ⟨?_, by simp [chkLen, hc.2], hc.2, hc.1⟩
      simp [← h, lastN, chkLen, hc.2]
  case bsdi_crypt =>
    split at h
    · simp at h
    · rename_i hc
      simp only [Bool.or_eq_true, Bool.not_eq_eq_eq_not, Bool.not_true, bne_iff_ne, ne_eq, not_or, Bool.not_eq_false, Decidable.not_not] at hc
      simp only [Except.ok.injEq] at h
      simp only [Gen.OsCrypt.bsdi_crypt_len, Gen.OsCrypt.bsdi_crypt_pfx] at hc
      exact ⟨by simp [← h, chkLen], by simp [chkLen, hc.2], hc.2, hc.1⟩
  case md5_crypt =>
    split at h
    · simp at h
    · rename_i hc
      simp only [Bool.or_eq_true, Bool.not_eq_eq_eq_not, Bool.not_true, bne_iff_ne, ne_eq, not_or, Bool.not_eq_false, Decidable.not_not] at hc
      simp only [Except.ok.injEq] at h
      simp only [Gen.OsCrypt.md5_crypt_extra] at hc
      exact ⟨by simp [← h, chkLen], (by simp [chkLen, hc.2] <;> omega), hc.2, hc.1⟩
  case sha1_crypt =>
    split at h
    · simp at h
    · rename_i hc
      simp only [Bool.or_eq_true, Bool.not_eq_eq_eq_not, Bool.not_true, bne_iff_ne, ne_eq, not_or, Bool.not_eq_false, Decidable.not_not] at hc
      simp only [Except.ok.injEq] at h
      simp only [Gen.OsCrypt.sha1_crypt_extra] at hc
      exact ⟨by simp [← h, chkLen], (by simp [chkLen, hc.2] <;> omega), hc.2, hc.1⟩
  all_goals
    split at h
    · simp at h
    · rename_i hc
      simp only [Bool.not_eq_true', Bool.not_eq_false] at hc
      split at h
      · simp at h
      · rename_i ch hn
        split at h
        · simp at h
        · rename_i hd
          simp only [bne_iff_ne, ne_eq, Decidable.not_not] at hd
          simp only [Except.ok.injEq] at h
          obtain ⟨hl, hn⟩ := negIndex_some _ _ _ hn
          subst hd
          simp only [csSize, Gen.OsCrypt.sha256_crypt_cs, Gen.OsCrypt.sha512_crypt_cs] at hl hn h
          exact ⟨by simp [← h, chkLen], (by simp only [chkLen]; omega), hc, by simpa [chkLen] using hn⟩

/-- a sha256_crypt answer that starts with `$5$` but is too short to hold a checksum is refused with the documented error -/
theorem sha2_short_answer_refused (i : Inst) :
    sliceChecksum .sha256_crypt i (s "$5$") = .error .internalBackendError ∧ sliceChecksum .sha512_crypt i (s "$6$rounds=1000$x") = .error .internalBackendError := by
  constructor <;> simp [sliceChecksum, ident, pyStartsWith, s, negIndex, csSize, Gen.OsCrypt.sha256_crypt_ident, Gen.OsCrypt.sha512_crypt_ident] <;> decide

-- the source's own vectors pass the shape test and come out as their checksum
example : sliceChecksum .des_crypt { salt := s "ab" } (s "abgOeLfPimXQo") = .ok (s "gOeLfPimXQo") := by decide
example : sliceChecksum .des_crypt { salt := s "ab" } (s "abgOeLfPimXQ") = .error .internalBackendError := by decide
example : sliceChecksum .des_crypt { salt := s "ab" } (s "xbgOeLfPimXQo") = .error .internalBackendError := by decide
example : sliceChecksum .md5_crypt { salt := s "test" } (s "$1$test$pi/xDtU5WFVRqYS6BMU8X/") = .ok (s "pi/xDtU5WFVRqYS6BMU8X/") := by decide
example : sliceChecksum .sha256_crypt { salt := s "test", rounds := 1000 } (s "$5$rounds=1000$test$QmQADEXMG8POI5WDsaeho0P36yK3Tcrgboabng6bkb/") =
    .ok (s "QmQADEXMG8POI5WDsaeho0P36yK3Tcrgboabng6bkb/") := by decide

/-! ### agreement with the builtin backend -/

/-- `oscrypt_agrees_or_falls_back`: for an admissible secret (text or UTF-8 bytes, no NUL): if crypt() fails, or if it returns a str
    of the right shape whose last `chkLen` characters are what the builtin routine computes (crypt() computes the format's function on
    this config: `hok`), then the os_crypt backend returns exactly what the builtin backend returns -/
theorem oscrypt_agrees_or_falls_back (crypt : Crypt) (builtin : Arg → PRes Str) (c : Cls) (i : Inst) (secret : Arg) (t chk : Str)
    (hs : secretText secret = some t) (h0 : 0 ∉ t)
    (hb : builtin secret = .ok chk)
    (hok : isFailure (crypt t (config c i)) = true ∨
      ∃ hash, crypt t (config c i) = .text hash ∧ isFailure (.text hash) = false ∧ sliceChecksum c i hash = .ok chk) :
    calcChecksumOsCrypt crypt builtin c i secret = liftP (builtin secret) := by
  have h0' : 0 ∉ secret.items := by
    cases secret with
    | text x => simp only [secretText, Option.some.injEq] at hs; subst hs; exact h0
    | bytes b =>
      simp only [secretText] at hs
      obtain ⟨h1, h2⟩ := decode_encode b t hs
      intro hm; exact h0 ((mem_zero_encode t).mp (by rw [h2]; exact hm))
  rcases hok with hf | ⟨hash, hc, hnf, hsl⟩
  · exact oscrypt_falls_back crypt builtin c i secret
      ((safe_crypt_none_iff crypt secret (.text (config c i)) (config c i) h0' rfl).mpr (.inr ⟨t, hs, hf⟩))
  · rw [oscrypt_slices crypt builtin c i secret hash (safe_crypt_returns_unchanged crypt secret _ t _ hash hs h0 rfl hc hnf), hsl, hb]; rfl

-- satisfiable: the des_crypt vector, a crypt() that answers it and a builtin routine that computes the same checksum
example : calcChecksumOsCrypt (fun _ _ => .text (s "abgOeLfPimXQo")) (fun _ => .ok (s "gOeLfPimXQo")) .des_crypt { salt := s "ab" } (.text (s "test")) =
    .ok (s "gOeLfPimXQo") := by decide
-- the failure token "*0": the builtin routine's answer
example : calcChecksumOsCrypt (fun _ _ => .text (s "*0")) (fun _ => .ok (s "gOeLfPimXQo")) .des_crypt { salt := s "ab" } (.text (s "test")) =
    .ok (s "gOeLfPimXQo") := by decide

end Props.C03OsCrypt
