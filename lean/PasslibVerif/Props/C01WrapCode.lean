import PasslibVerif.Model.VerifyFmt.WrapCode
import PasslibVerif.Props.C02CodeWrap
import PasslibVerif.Props.C01DesBcrypt
/-
C01 for django_bcrypt_sha256 with the CODE model of its checksum (`Model.Code.Wrap.djangoBcryptSha256CalcChecksum`, every combination
of backend flags with fallback ident `$2a$` / `$2b$`): on admissible settings its digest IS the Spec-checksum hasher's
(`Props.C02CodeWrap.django_bcrypt_sha256_eq_spec`), so the theorem set of Props/C01DesBcrypt.lean carries over.
-/
namespace Props.C01WrapCode
open Py Model.Handler Model.Formats Model.Verify Model.VerifyFmt.Wrap Model.VerifyFmt.DesBcrypt Model.Code.Wrap Props.C01
open Lemmas.Formats Lemmas.C02CodeWrap

theorem okIdents_of (ident : Str) (hi : ident ∈ bcryptOkIdents) : ident ∈ okIdents := by
  simp only [bcryptOkIdents, List.mem_cons, List.mem_nil_iff, or_false] at hi
  rcases hi with h | h | h | h <;> subst h <;> decide

theorem stripDollars_inner (ident : Str) (hi : ident ∈ bcryptOkIdents) : stripDollars ident = inner ident := by
  simp only [bcryptOkIdents, List.mem_cons, List.mem_nil_iff, or_false] at hi
  rcases hi with h | h | h | h <;> subst h <;> decide

/-- the code's checksum is the Spec hasher's, for every secret and every admissible setting -/
theorem django_code_digest_eq (fl : Flags) (hfl : FlagsOK fl) (ident salt : Str) (rounds : Nat) (hi : ident ∈ bcryptOkIdents)
    (hs : BcCanon 22 salt) (hr : 4 ≤ rounds ∧ rounds ≤ 31) (b : Bytes) :
    (djangoBcryptSha256CodeHasher fl).digest b (bcryptSettings ident salt rounds) =
      djangoBcryptSha256Hasher.digest b (bcryptSettings ident salt rounds) := by
  obtain ⟨c, hspec, hcode⟩ := Props.C02CodeWrap.django_bcrypt_sha256_eq_spec fl hfl ident salt rounds false (.bytes b) b
    (okIdents_of ident hi) ⟨hs.1, hs.2.1, hr.1, hr.2⟩ rfl
  have h1 : (djangoBcryptSha256CodeHasher fl).digest b (bcryptSettings ident salt rounds) = .ok c := by
    simpa [djangoBcryptSha256CodeHasher, bcryptSettings] using hcode
  rw [h1]
  show _ = bcryptCore _ _
  rw [Props.C01DesBcrypt.bcrypt_digest_is_spec_of_whole_secret]
  unfold Spec.Formats.djangoBcryptSha256 at hspec
  simp only [bcryptSettings, Option.getD_some, Int.toNat_natCast, stripDollars_inner ident hi, hspec]

theorem django_bcrypt_sha256_code_roundtrips (fl : Flags) (hfl : FlagsOK fl) (ident salt : Str) (rounds : Nat)
    (hi : ident ∈ bcryptOkIdents) (hs : BcCanon 22 salt) (hr : 4 ≤ rounds ∧ rounds ≤ 31) :
    RoundTrips (djangoBcryptSha256CodeHasher fl) (bcryptSettings ident salt rounds) := by
  intro b c hc
  rw [django_code_digest_eq fl hfl ident salt rounds hi hs hr b] at hc
  exact Props.C01DesBcrypt.django_bcrypt_sha256_roundtrips ident salt rounds hi hs hr b c hc

theorem django_bcrypt_sha256_code_ignores_checksum (fl : Flags) : IgnoresChecksum (djangoBcryptSha256CodeHasher fl) := fun _ _ _ => rfl

/-- django_bcrypt_sha256 over the code's `_calc_checksum`: whatever `hash` returns verifies True for the same secret -/
theorem django_bcrypt_sha256_code_verifies_own_hash (fl : Flags) (hfl : FlagsOK fl) (s : Secret) (ident salt hs : Str) (rounds : Nat)
    (hi : ident ∈ bcryptOkIdents) (hsalt : BcCanon 22 salt) (hr : 4 ≤ rounds ∧ rounds ≤ 31)
    (hh : hashSecret (djangoBcryptSha256CodeHasher fl) s (bcryptSettings ident salt rounds) = .ok hs) :
    verify (djangoBcryptSha256CodeHasher fl) s hs = .ok true :=
  verify_own_hash _ s _ hs (django_bcrypt_sha256_code_roundtrips fl hfl ident salt rounds hi hsalt hr)
    (django_bcrypt_sha256_code_ignores_checksum fl) hh

/-- hashers that differ only in a digest which agrees on `p` hash alike -/
theorem hashSecret_congr (h1 h2 : Hasher) (s : Secret) (p : Parsed) (hr : h1.render = h2.render)
    (ht : h1.truncateSize = h2.truncateSize) (hte : h1.truncateError = h2.truncateError) (hn : h1.rejectsNul = h2.rejectsNul)
    (hd : ∀ b, h1.digest b p = h2.digest b p) : hashSecret h1 s p = hashSecret h2 s p := by
  unfold hashSecret checksumOf checkTruncate checkNul
  simp only [hr, ht, hte, hn, hd]

/-- `hash` over the code checksum = `hash` over the Spec checksum: same string, same error, every secret -/
theorem django_bcrypt_sha256_code_hash_eq (fl : Flags) (hfl : FlagsOK fl) (s : Secret) (ident salt : Str) (rounds : Nat)
    (hi : ident ∈ bcryptOkIdents) (hsalt : BcCanon 22 salt) (hr : 4 ≤ rounds ∧ rounds ≤ 31) :
    hashSecret (djangoBcryptSha256CodeHasher fl) s (bcryptSettings ident salt rounds) =
      hashSecret djangoBcryptSha256Hasher s (bcryptSettings ident salt rounds) :=
  hashSecret_congr _ _ s _ rfl rfl rfl rfl (django_code_digest_eq fl hfl ident salt rounds hi hsalt hr)

/-- hence it succeeds and is identified exactly as Props/C01DesBcrypt.lean says -/
theorem django_bcrypt_sha256_code_hash_succeeds (fl : Flags) (hfl : FlagsOK fl) (s : Secret) (b : Bytes) (ident salt : Str) (rounds : Nat)
    (hi : ident ∈ bcryptOkIdents) (hsalt : BcCanon 22 salt) (hr : 4 ≤ rounds ∧ rounds ≤ 31) (hv : s.len ≤ MAX_PASSWORD_SIZE)
    (hb : s.toBytes = .ok b) : ∃ hs, hashSecret (djangoBcryptSha256CodeHasher fl) s (bcryptSettings ident salt rounds) = .ok hs := by
  rw [django_bcrypt_sha256_code_hash_eq fl hfl s ident salt rounds hi hsalt hr]
  exact Props.C01DesBcrypt.django_bcrypt_sha256_hash_succeeds s b ident salt rounds hi hsalt hr hv hb

theorem django_bcrypt_sha256_code_identifies_own_hash (fl : Flags) (hfl : FlagsOK fl) (s : Secret) (ident salt hs : Str) (rounds : Nat)
    (hi : ident ∈ bcryptOkIdents) (hsalt : BcCanon 22 salt) (hr : 4 ≤ rounds ∧ rounds ≤ 31)
    (hh : hashSecret (djangoBcryptSha256CodeHasher fl) s (bcryptSettings ident salt rounds) = .ok hs) :
    django_bcrypt_sha256.identify hs = true := by
  rw [django_bcrypt_sha256_code_hash_eq fl hfl s ident salt rounds hi hsalt hr] at hh
  exact Props.C01DesBcrypt.django_bcrypt_sha256_identifies_own_hash s ident salt hs rounds hi hsalt hr hh

/-- the builtin backend's flags and the settings of
    `django_bcrypt_sha256.using(salt="CCCCCCCCCCCCCCCCCCCCC.", rounds=4, ident="2a")` satisfy the hypotheses -/
example : FlagsOK builtinFlags ∧ IDENT_2A ∈ bcryptOkIdents ∧ BcCanon 22 (ofString "CCCCCCCCCCCCCCCCCCCCC.") ∧ (4 ≤ 4 ∧ 4 ≤ 31) :=
  ⟨Or.inr rfl, by decide, ⟨by decide, by decide, by decide⟩, by omega⟩

end Props.C01WrapCode
