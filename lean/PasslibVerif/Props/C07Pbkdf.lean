import PasslibVerif.Lemmas.FormatsPbkdf
import PasslibVerif.Lemmas.FormatsPbkdfWF
/-
C07 — hash strings parse and re-render without loss: the PBKDF family.

  sha1_crypt · pbkdf2_sha1 / _sha256 / _sha512 · ldap_pbkdf2_sha1 / _sha256 / _sha512 · cta_pbkdf2_sha1 ·
  dlitz_pbkdf2_sha1 · atlassian_pbkdf2_sha1 · grub_pbkdf2_sha512 · django_pbkdf2_sha1 / _sha256 ·
  django_salted_md5 / _sha1

Models: Model/Formats/Pbkdf.lean (`FormatX`: `from_string` / `to_string` with their exact error class; `Format` is the
projection).  Per format:
  R1  parse(render x) = x   for the explicit well-formedness predicate (everything the hasher generates satisfies it)
  WF  parse s = x → x well-formed;   R2  parse s = x → parse(render x) = x
  ID  identify(render x)
Generic ingredients: int(format(n,"x"),16) = n and hex renderings are never zero-padded (dlitz / cta), the lenient
C decoder `a2b_base64` inverts RFC 4648 base64 (pbkdf2 / cta / atlassian), pbUnhexlify ∘ hexlify.upper = id (grub).
`to_string` of the raw-checksum handlers raises TypeError for an object parsed from a config string (no checksum):
the WF predicates of those formats therefore require a checksum.
-/
namespace Props.C07Pbkdf
open Py Model.Handler Model.Formats Lemmas.Formats Lemmas.Handler Lemmas.FormatsPbkdf

/-! ### generic -/
theorem int_of_hex (n : Nat) : pyIntOfStr16 (fmtHex (n : Int)) = some (n : Int) := int_of_fmtHex n

theorem hex_never_zero_padded (n : Nat) :
    zeroPadded (fmtHex (n : Int)) = false ∧ (fmtHex (n : Int)).isEmpty = false ∧
    (fmtHex (n : Int) = [48] ∨ (fmtHex (n : Int)).head? ≠ some 48) := fmtHex_not_padded n

/-- the lenient `binascii.a2b_base64` inverts padded RFC 4648 base64 -/
theorem a2b_base64_roundtrip (bs : Bytes) (h : Bytes.WF bs) : a2bBase64 (Spec.Rfc4648.base64 bs) = some bs :=
  Lemmas.FormatsPbkdf.a2b_base64 bs h

/-- whatever the lenient decoder returns is a byte string -/
theorem a2b_base64_bytes (s out : Bytes) (h : a2bBase64 s = some out) : Bytes.WF out := a2bBase64_wf s out h

theorem ab64_field_codec : CodecOK DOLLAR Model.B64.ab64Encode ab64Field := ab64_codec
theorem b64alt_field_codec : CodecOK DOLLAR b64AltEncode (fun s => toRes (b64AltField s)) := b64Alt_codec
theorem hex_field_codec : CodecOK DOT pbHexlifyUpper (fun s => toRes (unhexField s)) := hex_codec

/-- the `Format` projection inherits R1 from the error-precise layer -/
theorem format_of_formatX (f : FormatX) (p : Parsed) (h : (f.renderX p).bind f.parseX = .ok p) :
    f.toFormat.parse (f.toFormat.render p) = some p := toFormat_parse_render f p h

/-! ### text handlers on parse_mc3: sha1_crypt, django_pbkdf2_sha1 / _sha256 (generic in the limits) -/
theorem mc3Text_parse_render (hex : Bool) (ident : Str) (dflt : Option Int) (cs : Option Nat) (cc : Option (List Nat))
    (sc : List Nat) (mn : Nat) (mx : Option Nat) (hsc : DOLLAR ∉ sc) (p : Parsed) (h : Mc3TextWF ident cs cc sc mn mx p) :
    mc3TextParse hex ident dflt cs cc sc mn mx (mc3TextRender hex p) = some p :=
  Lemmas.FormatsPbkdf.mc3Text_parse_render hex ident dflt cs cc sc mn mx hsc p h

theorem mc3Text_parse_wf (hex : Bool) (ident : Str) (dflt : Option Int) (cs : Option Nat) (cc : Option (List Nat))
    (sc : List Nat) (mn : Nat) (mx : Option Nat) (hcs : cs ≠ some 0) (hcc : cc ≠ some []) (hmx : mx ≠ some 0)
    (s : Str) (p : Parsed) (h : mc3TextParse hex ident dflt cs cc sc mn mx s = some p) : Mc3TextWF ident cs cc sc mn mx p :=
  Lemmas.FormatsPbkdf.mc3Text_parse_wf hex ident dflt cs cc sc mn mx hcs hcc hmx s p h

theorem mc3Text_identify_render (hex : Bool) (ident : Str) (hne : ident ≠ []) (p : Parsed) (h : p.ident = ident) :
    identByPrefix ident (mc3TextRender hex p) = true := Lemmas.FormatsPbkdf.mc3Text_identify_render hex ident hne p h

/-! sha1_crypt -/
abbrev Sha1CryptWF := Mc3TextWF SHA1C_IDENT (some 28) (some h64) h64 0 (some 64)

theorem sha1_crypt_parse_render (p : Parsed) (h : Sha1CryptWF p) : sha1cParse (sha1cRender p) = some p :=
  Lemmas.FormatsPbkdf.mc3Text_parse_render false _ none _ _ _ _ _ dollar_not_h64 p h
theorem sha1_crypt_parse_wf (s : Str) (p : Parsed) (h : sha1cParse s = some p) : Sha1CryptWF p :=
  Lemmas.FormatsPbkdf.mc3Text_parse_wf false _ none _ _ _ _ _ (by decide) (by decide) (by decide) s p h
theorem sha1_crypt_render_parse_stable (s : Str) (p : Parsed) (h : sha1cParse s = some p) : sha1cParse (sha1cRender p) = some p :=
  sha1_crypt_parse_render p (sha1_crypt_parse_wf s p h)
theorem sha1_crypt_identify_render (p : Parsed) (h : p.ident = SHA1C_IDENT) : identByPrefix SHA1C_IDENT (sha1cRender p) = true :=
  Lemmas.FormatsPbkdf.mc3Text_identify_render false _ (by decide) p h

/-! django_pbkdf2_sha1 / django_pbkdf2_sha256 -/
abbrev DjPbkdf2WF (ident : Str) (chkSize : Nat) := Mc3TextWF ident (some chkSize) (some PADDED_BASE64_CHARS) DJANGO_SALT_CHARS 1 none

theorem django_pbkdf2_parse_render (ident : Str) (chkSize : Nat) (p : Parsed) (h : DjPbkdf2WF ident chkSize p) :
    djPbkdf2Parse ident chkSize (djPbkdf2Render p) = some p :=
  Lemmas.FormatsPbkdf.mc3Text_parse_render false _ none _ _ _ _ _ dollar_not_djsalt p h
theorem django_pbkdf2_parse_wf (ident : Str) (chkSize : Nat) (hcs : chkSize ≠ 0) (s : Str) (p : Parsed)
    (h : djPbkdf2Parse ident chkSize s = some p) : DjPbkdf2WF ident chkSize p :=
  Lemmas.FormatsPbkdf.mc3Text_parse_wf false _ none _ _ _ _ _ (by simpa using hcs) (by decide) (by decide) s p h
theorem django_pbkdf2_render_parse_stable (ident : Str) (chkSize : Nat) (hcs : chkSize ≠ 0) (s : Str) (p : Parsed)
    (h : djPbkdf2Parse ident chkSize s = some p) : djPbkdf2Parse ident chkSize (djPbkdf2Render p) = some p :=
  django_pbkdf2_parse_render ident chkSize p (django_pbkdf2_parse_wf ident chkSize hcs s p h)
theorem django_pbkdf2_identify_render (ident : Str) (hne : ident ≠ []) (p : Parsed) (h : p.ident = ident) :
    identByPrefix ident (djPbkdf2Render p) = true := Lemmas.FormatsPbkdf.mc3Text_identify_render false ident hne p h

/-! ### dlitz_pbkdf2_sha1: hex rounds, 400 elided -/
abbrev DlitzWF := Mc3TextWF P5K2_IDENT none none h64 0 (some 1024)

theorem dlitz_parse_render (p : Parsed) (h : DlitzWF p) : dlitzParse (dlitzRender p) = some p :=
  Lemmas.FormatsPbkdf.dlitz_parse_render p h
theorem dlitz_parse_wf (s : Str) (p : Parsed) (h : dlitzParse s = some p) : DlitzWF p :=
  Lemmas.FormatsPbkdf.mc3Text_parse_wf true _ (some 400) _ _ _ _ _ (by decide) (by decide) (by decide) s p h
theorem dlitz_render_parse_stable (s : Str) (p : Parsed) (h : dlitzParse s = some p) : dlitzParse (dlitzRender p) = some p :=
  dlitz_parse_render p (dlitz_parse_wf s p h)
theorem dlitz_identify_render (p : Parsed) (h : p.ident = P5K2_IDENT) : identByPrefix P5K2_IDENT (dlitzRender p) = true :=
  Lemmas.FormatsPbkdf.dlitz_identify_render p h
/-- the elided default: an empty rounds field is 400, and 400 is rendered as the empty field -/
theorem dlitz_elided_default (s : Str) (chk : Option Str) :
    dlitzRender { ident := P5K2_IDENT, rounds := some 400, salt := some s, checksum := chk } =
      renderMc3G DOLLAR true P5K2_IDENT none s chk ∧ parseIntFieldG true [] (some 400) = some 400 := ⟨rfl, rfl⟩

/-! ### raw handlers on parse_mc3: pbkdf2_* , cta_pbkdf2_sha1, grub_pbkdf2_sha512 (generic in the field codec) -/
theorem rawMc3_parse_render (sep : Nat) (hex : Bool) (ident : Str) (chkSize : Nat) (enc : Bytes → Str) (dec : Str → Res Bytes)
    (hsep : sep < 48) (hcs : chkSize ≠ 0) (hcodec : CodecOK sep enc dec) (p : Parsed) (h : RawMc3WF ident chkSize p) :
    (rawMc3RenderX sep hex enc p).bind (rawMc3ParseX sep hex ident chkSize dec) = .ok p :=
  Lemmas.FormatsPbkdf.rawMc3_parse_render sep hex ident chkSize enc dec hsep hcs hcodec p h

theorem rawMc3_identify_render (sep : Nat) (hex : Bool) (enc : Bytes → Str) (ident : Str) (hne : ident ≠ []) (p : Parsed)
    (h : p.ident = ident) (s : Str) (hr : rawMc3RenderX sep hex enc p = .ok s) : identByPrefix ident s = true :=
  Lemmas.FormatsPbkdf.rawMc3_identify_render sep hex enc ident hne p h s hr

/-- a config string parses, but `to_string` of the result raises TypeError -/
theorem rawMc3_render_config_typeError (sep : Nat) (hex : Bool) (enc : Bytes → Str) (p : Parsed) (h : p.checksum = none) :
    rawMc3RenderX sep hex enc p = .error .typeError := by unfold rawMc3RenderX; rw [h]

theorem pbkdf2_parse_render (ident : Str) (chkSize : Nat) (hcs : chkSize ≠ 0) (p : Parsed) (h : RawMc3WF ident chkSize p) :
    (pbkdf2RenderX p).bind (pbkdf2ParseX ident chkSize) = .ok p :=
  Lemmas.FormatsPbkdf.rawMc3_parse_render DOLLAR false ident chkSize _ _ (by decide) hcs ab64_codec p h
theorem pbkdf2_parse_wf (ident : Str) (chkSize : Nat) (hcs : chkSize ≠ 0) (s : Str) (p : Parsed)
    (h : pbkdf2ParseX ident chkSize s = .ok p) : p.checksum = none ∨ RawMc3WF ident chkSize p :=
  Lemmas.FormatsPbkdf.rawMc3_parse_wf DOLLAR false ident chkSize hcs ab64Field ab64Field_wf s p h
theorem pbkdf2_render_parse_stable (ident : Str) (chkSize : Nat) (hcs : chkSize ≠ 0) (s : Str) (p : Parsed)
    (h : pbkdf2ParseX ident chkSize s = .ok p) (hc : p.checksum ≠ none) :
    (pbkdf2RenderX p).bind (pbkdf2ParseX ident chkSize) = .ok p :=
  pbkdf2_parse_render ident chkSize hcs p ((pbkdf2_parse_wf ident chkSize hcs s p h).resolve_left hc)

theorem cta_parse_render (p : Parsed) (h : RawMc3WF P5K2_IDENT 20 p) : (ctaRenderX p).bind ctaParseX = .ok p :=
  Lemmas.FormatsPbkdf.rawMc3_parse_render DOLLAR true P5K2_IDENT 20 _ _ (by decide) (by decide) b64Alt_codec p h
theorem cta_parse_wf (s : Str) (p : Parsed) (h : ctaParseX s = .ok p) : p.checksum = none ∨ RawMc3WF P5K2_IDENT 20 p :=
  Lemmas.FormatsPbkdf.rawMc3_parse_wf DOLLAR true P5K2_IDENT 20 (by decide) _ b64AltField_wf s p h

theorem grub_parse_render (p : Parsed) (h : RawMc3WF GRUB_IDENT 64 p) : (grubRenderX p).bind grubParseX = .ok p :=
  Lemmas.FormatsPbkdf.rawMc3_parse_render DOT false GRUB_IDENT 64 _ _ (by decide) (by decide) hex_codec p h
theorem grub_parse_wf (s : Str) (p : Parsed) (h : grubParseX s = .ok p) : p.checksum = none ∨ RawMc3WF GRUB_IDENT 64 p :=
  Lemmas.FormatsPbkdf.rawMc3_parse_wf DOT false GRUB_IDENT 64 (by decide) _ unhexField_wf s p h

/-! ### ldap_pbkdf2_* (PrefixWrapper) -/
theorem ldap_pbkdf2_parse_render (pfx ident : Str) (chkSize : Nat) (hcs : chkSize ≠ 0) (p : Parsed) (h : RawMc3WF ident chkSize p) :
    (wrapRenderX pfx ident pbkdf2RenderX p).bind (wrapParseX pfx ident (pbkdf2ParseX ident chkSize)) = .ok p :=
  Lemmas.FormatsPbkdf.ldap_pbkdf2_parse_render pfx ident chkSize hcs p h

theorem ldap_pbkdf2_identify_render (pfx ident : Str) (hne : ident ≠ []) (chkSize : Nat) (hcs : chkSize ≠ 0) (p : Parsed)
    (h : RawMc3WF ident chkSize p) :
    ∃ s, wrapRenderX pfx ident pbkdf2RenderX p = .ok s ∧ wrapIdentify pfx ident (identByPrefix ident) s = true :=
  Lemmas.FormatsPbkdf.ldap_pbkdf2_identify_render pfx ident hne chkSize hcs p h

theorem wrap_identify (pfx orig : Str) (inner : Str → Bool) (rest : Str) (h : inner (orig ++ rest) = true) :
    wrapIdentify pfx orig inner (pfx ++ rest) = true := Lemmas.FormatsPbkdf.wrap_identify pfx orig inner rest h

/-! ### atlassian_pbkdf2_sha1 -/
theorem atlassian_parse_render (p : Parsed) (h : AtlassianWF p) :
    (atlassianRenderX p).bind (fun s => toRes (atlassianParse s)) = .ok p := Lemmas.FormatsPbkdf.atlassian_parse_render p h
theorem atlassian_parse_wf (s : Str) (p : Parsed) (h : atlassianParse s = some p) : AtlassianWF p :=
  Lemmas.FormatsPbkdf.atlassian_parse_wf s p h
theorem atlassian_identify_render (p : Parsed) (h : p.ident = ATLASSIAN_IDENT) (s : Str) (hr : atlassianRenderX p = .ok s) :
    identByPrefix ATLASSIAN_IDENT s = true := Lemmas.FormatsPbkdf.atlassian_identify_render p h s hr

/-! ### django_salted_md5 / django_salted_sha1 -/
theorem django_salted_parse_render (ident : Str) (chkSize : Nat) (hcs : chkSize ≠ 0) (p : Parsed) (h : DjSaltedWF ident chkSize p) :
    djSaltedParse ident chkSize (djSaltedRender p) = some p := Lemmas.FormatsPbkdf.djSalted_parse_render ident chkSize hcs p h
theorem django_salted_parse_wf (ident : Str) (chkSize : Nat) (hcs : chkSize ≠ 0) (s : Str) (p : Parsed)
    (h : djSaltedParse ident chkSize s = some p) : DjSaltedWF ident chkSize p :=
  Lemmas.FormatsPbkdf.djSalted_parse_wf ident chkSize hcs s p h
theorem django_salted_render_parse_stable (ident : Str) (chkSize : Nat) (hcs : chkSize ≠ 0) (s : Str) (p : Parsed)
    (h : djSaltedParse ident chkSize s = some p) : djSaltedParse ident chkSize (djSaltedRender p) = some p :=
  django_salted_parse_render ident chkSize hcs p (django_salted_parse_wf ident chkSize hcs s p h)
theorem django_salted_identify_render (ident : Str) (hne : ident ≠ []) (p : Parsed) (h : p.ident = ident) :
    identByPrefix ident (djSaltedRender p) = true := Lemmas.FormatsPbkdf.djSalted_identify_render ident hne p h

/-! ### R1 on the registered `Format` values (what the driver runs), one per hasher -/
theorem r1_sha1_crypt (p : Parsed) (h : Sha1CryptWF p) :
    sha1_cryptX.toFormat.parse (sha1_cryptX.toFormat.render p) = some p := Lemmas.FormatsPbkdf.r1_sha1_crypt p h
theorem r1_pbkdf2_sha1 (p : Parsed) (h : RawMc3WF PBKDF2_SHA1_IDENT 20 p) :
    pbkdf2_sha1X.toFormat.parse (pbkdf2_sha1X.toFormat.render p) = some p := Lemmas.FormatsPbkdf.r1_pbkdf2_sha1 p h
theorem r1_pbkdf2_sha256 (p : Parsed) (h : RawMc3WF PBKDF2_SHA256_IDENT 32 p) :
    pbkdf2_sha256X.toFormat.parse (pbkdf2_sha256X.toFormat.render p) = some p := Lemmas.FormatsPbkdf.r1_pbkdf2_sha256 p h
theorem r1_pbkdf2_sha512 (p : Parsed) (h : RawMc3WF PBKDF2_SHA512_IDENT 64 p) :
    pbkdf2_sha512X.toFormat.parse (pbkdf2_sha512X.toFormat.render p) = some p := Lemmas.FormatsPbkdf.r1_pbkdf2_sha512 p h
theorem r1_ldap_pbkdf2_sha1 (p : Parsed) (h : RawMc3WF PBKDF2_SHA1_IDENT 20 p) :
    ldap_pbkdf2_sha1X.toFormat.parse (ldap_pbkdf2_sha1X.toFormat.render p) = some p := Lemmas.FormatsPbkdf.r1_ldap_pbkdf2_sha1 p h
theorem r1_ldap_pbkdf2_sha256 (p : Parsed) (h : RawMc3WF PBKDF2_SHA256_IDENT 32 p) :
    ldap_pbkdf2_sha256X.toFormat.parse (ldap_pbkdf2_sha256X.toFormat.render p) = some p := Lemmas.FormatsPbkdf.r1_ldap_pbkdf2_sha256 p h
theorem r1_ldap_pbkdf2_sha512 (p : Parsed) (h : RawMc3WF PBKDF2_SHA512_IDENT 64 p) :
    ldap_pbkdf2_sha512X.toFormat.parse (ldap_pbkdf2_sha512X.toFormat.render p) = some p := Lemmas.FormatsPbkdf.r1_ldap_pbkdf2_sha512 p h
theorem r1_cta_pbkdf2_sha1 (p : Parsed) (h : RawMc3WF P5K2_IDENT 20 p) :
    cta_pbkdf2_sha1X.toFormat.parse (cta_pbkdf2_sha1X.toFormat.render p) = some p := Lemmas.FormatsPbkdf.r1_cta_pbkdf2_sha1 p h
theorem r1_dlitz_pbkdf2_sha1 (p : Parsed) (h : DlitzWF p) :
    dlitz_pbkdf2_sha1X.toFormat.parse (dlitz_pbkdf2_sha1X.toFormat.render p) = some p := Lemmas.FormatsPbkdf.r1_dlitz_pbkdf2_sha1 p h
theorem r1_atlassian_pbkdf2_sha1 (p : Parsed) (h : AtlassianWF p) :
    atlassian_pbkdf2_sha1X.toFormat.parse (atlassian_pbkdf2_sha1X.toFormat.render p) = some p := Lemmas.FormatsPbkdf.r1_atlassian_pbkdf2_sha1 p h
theorem r1_grub_pbkdf2_sha512 (p : Parsed) (h : RawMc3WF GRUB_IDENT 64 p) :
    grub_pbkdf2_sha512X.toFormat.parse (grub_pbkdf2_sha512X.toFormat.render p) = some p := Lemmas.FormatsPbkdf.r1_grub_pbkdf2_sha512 p h
theorem r1_django_pbkdf2_sha1 (p : Parsed) (h : DjPbkdf2WF DJANGO_PBKDF2_SHA1_IDENT 28 p) :
    django_pbkdf2_sha1X.toFormat.parse (django_pbkdf2_sha1X.toFormat.render p) = some p := Lemmas.FormatsPbkdf.r1_django_pbkdf2_sha1 p h
theorem r1_django_pbkdf2_sha256 (p : Parsed) (h : DjPbkdf2WF DJANGO_PBKDF2_SHA256_IDENT 44 p) :
    django_pbkdf2_sha256X.toFormat.parse (django_pbkdf2_sha256X.toFormat.render p) = some p := Lemmas.FormatsPbkdf.r1_django_pbkdf2_sha256 p h
theorem r1_django_salted_md5 (p : Parsed) (h : DjSaltedWF DJANGO_MD5_IDENT 32 p) :
    django_salted_md5X.toFormat.parse (django_salted_md5X.toFormat.render p) = some p := Lemmas.FormatsPbkdf.r1_django_salted_md5 p h
theorem r1_django_salted_sha1 (p : Parsed) (h : DjSaltedWF DJANGO_SHA1_IDENT 40 p) :
    django_salted_sha1X.toFormat.parse (django_salted_sha1X.toFormat.render p) = some p := Lemmas.FormatsPbkdf.r1_django_salted_sha1 p h

/-- the alphabets written out in the model are the ones reflected from the handler classes -/
theorem alphabets_reflected : AlphabetsReflected := Lemmas.FormatsPbkdf.alphabets_reflected

/-! ### non-vacuity: a concrete hash of every format parses (hashes of the password "pw" made by /repo) -/
example : (sha1_cryptX.parseX (ofString "$sha1$5$8QBd3jkw$HVEEkVWSi6MpWguF/wrPKzvb/lOL")).toOption.map (·.rounds) = some (some 5) := by decide +kernel
example : (pbkdf2_sha1X.parseX (ofString "$pbkdf2$5$MDEyMzQ1Njc4OWFiY2RlZg$RQUiL8fLUuoFx1cm7juMWC2gA4k")).toOption.map
    (fun p => (p.rounds, p.salt.map List.length, p.checksum.map List.length)) = some (some 5, some 16, some 20) := by decide +kernel
example : (pbkdf2_sha256X.parseX (ofString "$pbkdf2-sha256$5$MDEyMzQ1Njc4OWFiY2RlZg$yGlt2Up7axJ9TB/POZje1JSSfQSpKa24FVw.oheNSuQ")).toOption.map
    (fun p => (p.rounds, p.salt.map List.length, p.checksum.map List.length)) = some (some 5, some 16, some 32) := by decide +kernel
example : (pbkdf2_sha512X.parseX (ofString
    "$pbkdf2-sha512$5$MDEyMzQ1Njc4OWFiY2RlZg$Ewy3H3K8XNS/v7SctLofw4S1rH9gdq/kBzG5bjUH.AcDJDBw8FuSHrCilCNjfzGlh6P9uSvY9LSb1w8XmOdhHw")).toOption.map
    (fun p => (p.rounds, p.salt.map List.length, p.checksum.map List.length)) = some (some 5, some 16, some 64) := by decide +kernel
example : (ldap_pbkdf2_sha1X.parseX (ofString "{PBKDF2}3$MDEyMzQ1Njc4OWFiY2RlZg$YMFFAcPTHhlehBU0CD8tYp7Wthw")).toOption.map
    (fun p => (p.ident, p.rounds)) = some (PBKDF2_SHA1_IDENT, some 3) := by decide +kernel
example : (ldap_pbkdf2_sha256X.parseX (ofString "{PBKDF2-SHA256}3$MDEyMzQ1Njc4OWFiY2RlZg$OIRyLPx2in2o5Hqnb7EOWAQvFxyZShs/FvkHBXAWan0")).toOption.map
    (fun p => (p.ident, p.rounds)) = some (PBKDF2_SHA256_IDENT, some 3) := by decide +kernel
example : (ldap_pbkdf2_sha512X.parseX (ofString
    "{PBKDF2-SHA512}3$MDEyMzQ1Njc4OWFiY2RlZg$SsgJ9DsCNnS6LrqD6uZYzIJxDtXx75vIewr7Qw19Gg6yoEo91kRQwPA6DSb/pgnFPW1j3Z0KbB9OVFoXcDhvIg")).toOption.map
    (fun p => (p.ident, p.rounds)) = some (PBKDF2_SHA512_IDENT, some 3) := by decide +kernel
example : (cta_pbkdf2_sha1X.parseX (ofString "$p5k2$1f4$MDEyMzQ1Njc4OWFiY2Rl_w==$J4hsR97h5Vhq_2-3AHm_upXBMkU=")).toOption.map
    (fun p => (p.rounds, p.salt.map List.length, p.checksum.map List.length)) = some (some 500, some 16, some 20) := by decide +kernel
example : (dlitz_pbkdf2_sha1X.parseX (ofString "$p5k2$$mEOgYElUHFo6vg$bCXmclOepOxTecFeXBjXT/huoA0ONRJx")).toOption.map (·.rounds)
    = some (some 400) := by decide +kernel
example : (atlassian_pbkdf2_sha1X.parseX (ofString "{PKCS5S2}MDEyMzQ1Njc4OWFiY2RlZlAzzzbXTZnpBH4jJVWePIg2jWwiuFNxvl9/VEVbEyYv")).toOption.map
    (fun p => (p.salt.map List.length, p.checksum.map List.length)) = some (some 16, some 32) := by decide +kernel
example : (grub_pbkdf2_sha512X.parseX (ofString
    "grub.pbkdf2.sha512.5.AB94.DEA07B7D6D5ED56AF7B9184D6359D9DA42521B238BABE7B68C2E6084A36CBC18A57B90E90B836C09DE474A28E08718EE1DDD222ED1DEA0F01014D301A3C0C901")).toOption.map
    (fun p => (p.rounds, p.salt, p.checksum.map List.length)) = some (some 5, some [171, 148], some 64) := by decide +kernel
example : (django_pbkdf2_sha1X.parseX (ofString "pbkdf2_sha1$5$RaKOYRTUzHPz$h3FqLm5dzilvy3clzydjcOkvL2g=")).toOption.map (·.rounds)
    = some (some 5) := by decide +kernel
example : (django_pbkdf2_sha256X.parseX (ofString "pbkdf2_sha256$5$A86S0gQzxlcQ$I8NIKI+o5BdAlcBQvlUbA6LBjK8bUxJLngltqx494AY=")).toOption.map (·.rounds)
    = some (some 5) := by decide +kernel
example : (django_salted_md5X.parseX (ofString "md5$YUZOHljbYxfQ$df1a802adfa03338a280e1e2ef8e2c85")).toOption.map (·.salt)
    = some (some (ofString "YUZOHljbYxfQ")) := by decide +kernel
example : (django_salted_sha1X.parseX (ofString "sha1$7D7FJw2WlwiN$65c720c7a9224db1c45837a9fab1c1c934d41d5a")).toOption.map (·.salt)
    = some (some (ofString "7D7FJw2WlwiN")) := by decide +kernel
/-- the WF predicates are inhabited (R1 is not vacuous) -/
def sha1cSample : Parsed :=
  { ident := SHA1C_IDENT, rounds := some 480000, salt := some (ofString "8QBd3jkw"), checksum := some (ofString "HVEEkVWSi6MpWguF/wrPKzvb/lOL") }
example : Sha1CryptWF sha1cSample :=
  ⟨rfl, ⟨480000, rfl, by decide, by decide⟩, ⟨_, rfl, by decide, by decide, by intro m e; cases e; decide⟩,
   Or.inr ⟨_, rfl, by decide, by decide, by unfold SizeOK; decide, by unfold CharsOK; decide⟩, rfl⟩
def pbkdf2Sample : Parsed :=
  { ident := PBKDF2_SHA1_IDENT, rounds := some 131000, salt := some [1, 2, 255], checksum := some (List.replicate 20 7) }
example : RawMc3WF PBKDF2_SHA1_IDENT 20 pbkdf2Sample :=
  ⟨rfl, ⟨131000, rfl, by decide, by decide⟩, ⟨_, rfl, by decide, by decide⟩, ⟨_, rfl, by decide, by decide⟩, rfl⟩

end Props.C07Pbkdf
