import PasslibVerif.Model.Libpass
import PasslibVerif.Props.C01Crypt
import PasslibVerif.Lemmas.FormatsMiscLibpass
/-
C20 — libpass hashers and classic passlib hashers understand each other.  For sha256-crypt / sha512-crypt everything is proved end
to end in Lean: the libpass hasher (inspector model of C07 + C02's model of libpass' `_sha_crypt`) and the passlib hasher (C07 parser +
C02's model of `_raw_sha2_crypt`) both compute the checksum the published algorithm defines, each one's strings parse under the other,
so each verifies the other's hashes — for every secret, every salt over the hash64 alphabet of 1..16 characters and every rounds value,
including passlib's implicit-5000 strings.  Update-check and identification laws are proved for the libpass hashers' decision logic.
-/
namespace Props.C20
open Py Model.Handler Model.Formats Model.Verify Model.ShaCrypt Model.VerifyCrypt Model.Libpass Lemmas.Formats Lemmas.FormatsMisc Props.C01 Props.C01Crypt

def lp256 (R : Nat) : ShaHasher := ⟨ofString "$5$", 43, R, fun b salt r => lpSha256 Spec.SHA256.sha256 b salt r⟩
def lp512 (R : Nat) : ShaHasher := ⟨ofString "$6$", 86, R, fun b salt r => lpSha512 Spec.SHA512.sha512 b salt r⟩

theorem allIn_h64_isDot (s : Str) (h : allIn h64 s = true) : s.all isDot = true := by
  unfold allIn at h
  rw [List.all_eq_true] at h ⊢
  intro x hx
  have := h x hx
  have h10 : h64.contains 10 = false := by decide
  unfold isDot
  by_cases e : x = 10
  · subst e; rw [h10] at this; cases this
  · simpa using e

theorem lpRender_explicit (ident salt c : Str) (R : Nat) :
    lpShaRender { ident := ident, rounds := some (R : Int), salt := some salt, checksum := some c } =
      .ok (sha2Render { ident := ident, rounds := some (R : Int), salt := some salt, checksum := some c, extra := implicitFlag false }) := by
  have hne : ¬ ((some (R : Int) = some 5000) ∧ implicitFlag false = implicitFlag true) := by
    intro h; exact absurd h.2 (by decide)
  simp only [lpShaRender, sha2Render, Option.getD_some, hne, if_false, ROUNDS_PREFIX, List.append_assoc]

theorem lpRender_implicit (ident salt c : Str) :
    lpShaRender { ident := ident, rounds := none, salt := some salt, checksum := some c } =
      .ok (sha2Render { ident := ident, rounds := some 5000, salt := some salt, checksum := some c, extra := implicitFlag true }) := by
  simp [lpShaRender, sha2Render, List.append_assoc]

theorem orDefault_nat (R : Nat) (h : R ≠ 0) (d : Int) : (orDefault (some (R : Int)) d).toNat = R := by
  have h1 : ¬ ((R : Int) = 0) := by omega
  show (if (R : Int) = 0 then d else (R : Int)).toNat = R
  rw [if_neg h1]
  exact Int.toNat_natCast R

/-! ### sha256-crypt -/

/-- the libpass hasher verifies its own hashes (every secret, salt of 1..16 characters without newline, every rounds value) -/
theorem libpass_sha256_verifies_own (R : Nat) (hR : R ≠ 0) (b : Bytes) (salt hs : Str)
    (h1 : 1 ≤ salt.length) (h2 : salt.length ≤ 16) (hd : salt.all isDot = true)
    (hh : (lp256 R).hash b salt = .ok hs) : (lp256 R).verify hs b = .ok true := by
  unfold ShaHasher.hash lp256 at hh
  simp only [Props.C02.libpass_sha256_eq_spec b salt R (by omega)] at hh
  have hok := encode256_ok (fun i => (Spec.ShaCrypt.digestC Spec.SHA256.sha256 b salt R).getD i 0)
  simp only [Spec.ShaCrypt.sha256Crypt] at hh
  generalize hc : Spec.ShaCrypt.encode256 _ = c at hh hok
  have hrt := lp_sha_roundtrip 53 43 { ident := ofString "$5$", rounds := some (R : Int), salt := some salt, checksum := some c }
    ⟨rfl, rfl, Or.inr ⟨R, rfl⟩, ⟨salt, rfl, h1, h2, hd, by intro h; cases h⟩, ⟨c, rfl, hok.2, allIn_h64_isDot c hok.1⟩⟩
  have hident : ([DOLLAR, 53, DOLLAR] : Str) = ofString "$5$" := by decide
  rw [hident, hh] at hrt
  simp only [resBind] at hrt
  unfold ShaHasher.verify ShaHasher.inspect lp256
  simp only [hrt, Option.getD_some, orDefault_nat R hR, Props.C02.libpass_sha256_eq_spec b salt R (by omega), Spec.ShaCrypt.sha256Crypt, hc]
  simp

/-- a hash made by the libpass hasher verifies under the passlib hasher -/
theorem passlib_verifies_libpass_sha256 (R : Nat) (hR : 1000 ≤ R ∧ R ≤ 999999999) (b : Bytes) (salt hs : Str)
    (hs64 : allIn h64 salt = true) (h2 : salt.length ≤ 16) (hlen : b.length ≤ MAX_PASSWORD_SIZE) (h0 : 0 ∉ b)
    (hh : (lp256 R).hash b salt = .ok hs) : Model.Verify.verify sha256Hasher (.bytes b) hs = .ok true := by
  unfold ShaHasher.hash lp256 at hh
  simp only [Props.C02.libpass_sha256_eq_spec b salt R (by omega)] at hh
  have hok := encode256_ok (fun i => (Spec.ShaCrypt.digestC Spec.SHA256.sha256 b salt R).getD i 0)
  simp only [Spec.ShaCrypt.sha256Crypt] at hh
  generalize hc : Spec.ShaCrypt.encode256 _ = c at hh hok
  rw [lpRender_explicit] at hh
  simp only [Except.ok.injEq] at hh
  have hp := sha2_parse_render (ofString "$5$") 43 (by decide)
    { ident := ofString "$5$", rounds := some (R : Int), salt := some salt, checksum := some c, extra := implicitFlag false }
    ⟨rfl, ⟨R, rfl, hR.1, hR.2⟩, ⟨salt, rfl, hs64, h2⟩, ⟨c, rfl, hok.1, hok.2⟩, Or.inr rfl⟩
  rw [hh] at hp
  have hv : validateSecret (.bytes b) = .ok () := by unfold validateSecret Secret.len; simp; omega
  unfold Model.Verify.verify
  simp only [hv, sha256Hasher, hp, toRes, checksumOf, Secret.toBytes, Bool.false_eq_true, if_false, checkNul, h0, and_false,
    Option.getD_some, Int.toNat_natCast, Props.C02.sha256_crypt_eq_spec b salt R (by omega), Spec.ShaCrypt.sha256Crypt, hc]
  simp

/-- a hash made by the passlib hasher (explicit rounds, or the implicit form for 5000) verifies under ANY libpass sha256 hasher -/
theorem libpass_verifies_passlib_sha256 (R R' : Nat) (hR : 1000 ≤ R ∧ R ≤ 999999999) (s : Secret) (b : Bytes) (salt hs : Str)
    (hb : s.toBytes = .ok b) (hs64 : allIn h64 salt = true) (h1 : 1 ≤ salt.length) (h2 : salt.length ≤ 16)
    (hh : hashSecret sha256Hasher s (sha2Settings (ofString "$5$") salt R) = .ok hs) : (lp256 R').verify hs b = .ok true := by
  unfold hashSecret at hh
  cases hv : validateSecret s with
  | error e => simp [hv] at hh
  | ok u =>
    simp only [hv] at hh
    unfold checksumOf at hh
    simp only [hb, if_true] at hh
    cases ht : checkTruncate sha256Hasher b with
    | error e => simp [ht] at hh
    | ok u2 =>
      simp only [ht] at hh
      cases hn : checkNul sha256Hasher b with
      | error e => simp [hn] at hh
      | ok u3 =>
        simp only [hn] at hh
        simp only [sha256Hasher, sha2Settings, Option.getD_some, Int.toNat_natCast,
          Props.C02.sha256_crypt_eq_spec b salt R (by omega), Spec.ShaCrypt.sha256Crypt, Except.ok.injEq] at hh
        have hok := encode256_ok (fun i => (Spec.ShaCrypt.digestC Spec.SHA256.sha256 b salt R).getD i 0)
        generalize hc : Spec.ShaCrypt.encode256 _ = c at hh hok
        have hsd := allIn_h64_isDot salt hs64
        have hcd := allIn_h64_isDot c hok.1
        have hident : ([DOLLAR, 53, DOLLAR] : Str) = ofString "$5$" := by decide
        by_cases h5 : R = 5000
        · subst h5
          have hr := lpRender_implicit (ofString "$5$") salt c
          have hrt := lp_sha_roundtrip 53 43 { ident := ofString "$5$", rounds := none, salt := some salt, checksum := some c }
            ⟨rfl, rfl, Or.inl rfl, ⟨salt, rfl, h1, h2, hsd, fun _ => rounds_prefix_not_h64 salt hs64⟩, ⟨c, rfl, hok.2, hcd⟩⟩
          rw [hident, hr] at hrt
          simp only [resBind] at hrt
          have hhs : hs = sha2Render { ident := ofString "$5$", rounds := some 5000, salt := some salt, checksum := some c, extra := implicitFlag true } := by
            rw [← hh]; rfl
          unfold ShaHasher.verify ShaHasher.inspect lp256
          rw [hhs]
          simp only [hrt, Option.getD_some, orDefault, DEFAULT_ROUNDS]
          have hd : ((Gen.ShaCrypt.lpDefaultRounds : Nat) : Int).toNat = 5000 := by decide
          simp only [hd, Props.C02.libpass_sha256_eq_spec b salt 5000 (by omega), Spec.ShaCrypt.sha256Crypt, hc]
          simp
        · have hne : (R == 5000) = false := by simpa using h5
          have hr := lpRender_explicit (ofString "$5$") salt c R
          have hrt := lp_sha_roundtrip 53 43 { ident := ofString "$5$", rounds := some (R : Int), salt := some salt, checksum := some c }
            ⟨rfl, rfl, Or.inr ⟨R, rfl⟩, ⟨salt, rfl, h1, h2, hsd, by intro h; cases h⟩, ⟨c, rfl, hok.2, hcd⟩⟩
          rw [hident, hr] at hrt
          simp only [resBind] at hrt
          have hhs : hs = sha2Render { ident := ofString "$5$", rounds := some (R : Int), salt := some salt, checksum := some c, extra := implicitFlag false } := by
            rw [← hh, hne]
          unfold ShaHasher.verify ShaHasher.inspect lp256
          rw [hhs]
          simp only [hrt, Option.getD_some, orDefault_nat R (by omega), Props.C02.libpass_sha256_eq_spec b salt R (by omega),
            Spec.ShaCrypt.sha256Crypt, hc]
          simp

/-- update check: False for the hasher's own fresh hashes, True for another cost, True for anything it does not recognise -/
theorem libpass_sha256_needs_update (R R' : Nat) (hR : R ≠ 0) (b : Bytes) (salt hs : Str)
    (h1 : 1 ≤ salt.length) (h2 : salt.length ≤ 16) (hd : salt.all isDot = true)
    (hh : (lp256 R).hash b salt = .ok hs) : (lp256 R').needsUpdate hs = .ok (decide (R ≠ R')) := by
  unfold ShaHasher.hash lp256 at hh
  simp only [Props.C02.libpass_sha256_eq_spec b salt R (by omega)] at hh
  have hok := encode256_ok (fun i => (Spec.ShaCrypt.digestC Spec.SHA256.sha256 b salt R).getD i 0)
  simp only [Spec.ShaCrypt.sha256Crypt] at hh
  generalize hc : Spec.ShaCrypt.encode256 _ = c at hh hok
  have hrt := lp_sha_roundtrip 53 43 { ident := ofString "$5$", rounds := some (R : Int), salt := some salt, checksum := some c }
    ⟨rfl, rfl, Or.inr ⟨R, rfl⟩, ⟨salt, rfl, h1, h2, hd, by intro h; cases h⟩, ⟨c, rfl, hok.2, allIn_h64_isDot c hok.1⟩⟩
  have hident : ([DOLLAR, 53, DOLLAR] : Str) = ofString "$5$" := by decide
  rw [hident, hh] at hrt
  simp only [resBind] at hrt
  unfold ShaHasher.needsUpdate ShaHasher.inspect lp256
  simp only [hrt, orDefault]
  have : ¬ ((R : Int) = 0) := by omega
  simp only [this, if_false, Except.ok.injEq]
  by_cases e : R = R'
  · subst e; simp
  · have : ((R : Int) != (R' : Int)) = true := by simp; omega
    simp [this, e]

/-! ### sha512-crypt -/

/-- the libpass hasher verifies its own hashes (every secret, salt of 1..16 characters without newline, every rounds value) -/
theorem libpass_sha512_verifies_own (R : Nat) (hR : R ≠ 0) (b : Bytes) (salt hs : Str)
    (h1 : 1 ≤ salt.length) (h2 : salt.length ≤ 16) (hd : salt.all isDot = true)
    (hh : (lp512 R).hash b salt = .ok hs) : (lp512 R).verify hs b = .ok true := by
  unfold ShaHasher.hash lp512 at hh
  simp only [Props.C02.libpass_sha512_eq_spec b salt R (by omega)] at hh
  have hok := encode512_ok (fun i => (Spec.ShaCrypt.digestC Spec.SHA512.sha512 b salt R).getD i 0)
  simp only [Spec.ShaCrypt.sha512Crypt] at hh
  generalize hc : Spec.ShaCrypt.encode512 _ = c at hh hok
  have hrt := lp_sha_roundtrip 54 86 { ident := ofString "$6$", rounds := some (R : Int), salt := some salt, checksum := some c }
    ⟨rfl, rfl, Or.inr ⟨R, rfl⟩, ⟨salt, rfl, h1, h2, hd, by intro h; cases h⟩, ⟨c, rfl, hok.2, allIn_h64_isDot c hok.1⟩⟩
  have hident : ([DOLLAR, 54, DOLLAR] : Str) = ofString "$6$" := by decide
  rw [hident, hh] at hrt
  simp only [resBind] at hrt
  unfold ShaHasher.verify ShaHasher.inspect lp512
  simp only [hrt, Option.getD_some, orDefault_nat R hR, Props.C02.libpass_sha512_eq_spec b salt R (by omega), Spec.ShaCrypt.sha512Crypt, hc]
  simp

/-- a hash made by the libpass hasher verifies under the passlib hasher -/
theorem passlib_verifies_libpass_sha512 (R : Nat) (hR : 1000 ≤ R ∧ R ≤ 999999999) (b : Bytes) (salt hs : Str)
    (hs64 : allIn h64 salt = true) (h2 : salt.length ≤ 16) (hlen : b.length ≤ MAX_PASSWORD_SIZE) (h0 : 0 ∉ b)
    (hh : (lp512 R).hash b salt = .ok hs) : Model.Verify.verify sha512Hasher (.bytes b) hs = .ok true := by
  unfold ShaHasher.hash lp512 at hh
  simp only [Props.C02.libpass_sha512_eq_spec b salt R (by omega)] at hh
  have hok := encode512_ok (fun i => (Spec.ShaCrypt.digestC Spec.SHA512.sha512 b salt R).getD i 0)
  simp only [Spec.ShaCrypt.sha512Crypt] at hh
  generalize hc : Spec.ShaCrypt.encode512 _ = c at hh hok
  rw [lpRender_explicit] at hh
  simp only [Except.ok.injEq] at hh
  have hp := sha2_parse_render (ofString "$6$") 86 (by decide)
    { ident := ofString "$6$", rounds := some (R : Int), salt := some salt, checksum := some c, extra := implicitFlag false }
    ⟨rfl, ⟨R, rfl, hR.1, hR.2⟩, ⟨salt, rfl, hs64, h2⟩, ⟨c, rfl, hok.1, hok.2⟩, Or.inr rfl⟩
  rw [hh] at hp
  have hv : validateSecret (.bytes b) = .ok () := by unfold validateSecret Secret.len; simp; omega
  unfold Model.Verify.verify
  simp only [hv, sha512Hasher, hp, toRes, checksumOf, Secret.toBytes, Bool.false_eq_true, if_false, checkNul, h0, and_false,
    Option.getD_some, Int.toNat_natCast, Props.C02.sha512_crypt_eq_spec b salt R (by omega), Spec.ShaCrypt.sha512Crypt, hc]
  simp

/-- a hash made by the passlib hasher (explicit rounds, or the implicit form for 5000) verifies under ANY libpass sha512 hasher -/
theorem libpass_verifies_passlib_sha512 (R R' : Nat) (hR : 1000 ≤ R ∧ R ≤ 999999999) (s : Secret) (b : Bytes) (salt hs : Str)
    (hb : s.toBytes = .ok b) (hs64 : allIn h64 salt = true) (h1 : 1 ≤ salt.length) (h2 : salt.length ≤ 16)
    (hh : hashSecret sha512Hasher s (sha2Settings (ofString "$6$") salt R) = .ok hs) : (lp512 R').verify hs b = .ok true := by
  unfold hashSecret at hh
  cases hv : validateSecret s with
  | error e => simp [hv] at hh
  | ok u =>
    simp only [hv] at hh
    unfold checksumOf at hh
    simp only [hb, if_true] at hh
    cases ht : checkTruncate sha512Hasher b with
    | error e => simp [ht] at hh
    | ok u2 =>
      simp only [ht] at hh
      cases hn : checkNul sha512Hasher b with
      | error e => simp [hn] at hh
      | ok u3 =>
        simp only [hn] at hh
        simp only [sha512Hasher, sha2Settings, Option.getD_some, Int.toNat_natCast,
          Props.C02.sha512_crypt_eq_spec b salt R (by omega), Spec.ShaCrypt.sha512Crypt, Except.ok.injEq] at hh
        have hok := encode512_ok (fun i => (Spec.ShaCrypt.digestC Spec.SHA512.sha512 b salt R).getD i 0)
        generalize hc : Spec.ShaCrypt.encode512 _ = c at hh hok
        have hsd := allIn_h64_isDot salt hs64
        have hcd := allIn_h64_isDot c hok.1
        have hident : ([DOLLAR, 54, DOLLAR] : Str) = ofString "$6$" := by decide
        by_cases h5 : R = 5000
        · subst h5
          have hr := lpRender_implicit (ofString "$6$") salt c
          have hrt := lp_sha_roundtrip 54 86 { ident := ofString "$6$", rounds := none, salt := some salt, checksum := some c }
            ⟨rfl, rfl, Or.inl rfl, ⟨salt, rfl, h1, h2, hsd, fun _ => rounds_prefix_not_h64 salt hs64⟩, ⟨c, rfl, hok.2, hcd⟩⟩
          rw [hident, hr] at hrt
          simp only [resBind] at hrt
          have hhs : hs = sha2Render { ident := ofString "$6$", rounds := some 5000, salt := some salt, checksum := some c, extra := implicitFlag true } := by
            rw [← hh]; rfl
          unfold ShaHasher.verify ShaHasher.inspect lp512
          rw [hhs]
          simp only [hrt, Option.getD_some, orDefault, DEFAULT_ROUNDS]
          have hd : ((Gen.ShaCrypt.lpDefaultRounds : Nat) : Int).toNat = 5000 := by decide
          simp only [hd, Props.C02.libpass_sha512_eq_spec b salt 5000 (by omega), Spec.ShaCrypt.sha512Crypt, hc]
          simp
        · have hne : (R == 5000) = false := by simpa using h5
          have hr := lpRender_explicit (ofString "$6$") salt c R
          have hrt := lp_sha_roundtrip 54 86 { ident := ofString "$6$", rounds := some (R : Int), salt := some salt, checksum := some c }
            ⟨rfl, rfl, Or.inr ⟨R, rfl⟩, ⟨salt, rfl, h1, h2, hsd, by intro h; cases h⟩, ⟨c, rfl, hok.2, hcd⟩⟩
          rw [hident, hr] at hrt
          simp only [resBind] at hrt
          have hhs : hs = sha2Render { ident := ofString "$6$", rounds := some (R : Int), salt := some salt, checksum := some c, extra := implicitFlag false } := by
            rw [← hh, hne]
          unfold ShaHasher.verify ShaHasher.inspect lp512
          rw [hhs]
          simp only [hrt, Option.getD_some, orDefault_nat R (by omega), Props.C02.libpass_sha512_eq_spec b salt R (by omega),
            Spec.ShaCrypt.sha512Crypt, hc]
          simp

/-- update check: False for the hasher's own fresh hashes, True for another cost, True for anything it does not recognise -/
theorem libpass_sha512_needs_update (R R' : Nat) (hR : R ≠ 0) (b : Bytes) (salt hs : Str)
    (h1 : 1 ≤ salt.length) (h2 : salt.length ≤ 16) (hd : salt.all isDot = true)
    (hh : (lp512 R).hash b salt = .ok hs) : (lp512 R').needsUpdate hs = .ok (decide (R ≠ R')) := by
  unfold ShaHasher.hash lp512 at hh
  simp only [Props.C02.libpass_sha512_eq_spec b salt R (by omega)] at hh
  have hok := encode512_ok (fun i => (Spec.ShaCrypt.digestC Spec.SHA512.sha512 b salt R).getD i 0)
  simp only [Spec.ShaCrypt.sha512Crypt] at hh
  generalize hc : Spec.ShaCrypt.encode512 _ = c at hh hok
  have hrt := lp_sha_roundtrip 54 86 { ident := ofString "$6$", rounds := some (R : Int), salt := some salt, checksum := some c }
    ⟨rfl, rfl, Or.inr ⟨R, rfl⟩, ⟨salt, rfl, h1, h2, hd, by intro h; cases h⟩, ⟨c, rfl, hok.2, allIn_h64_isDot c hok.1⟩⟩
  have hident : ([DOLLAR, 54, DOLLAR] : Str) = ofString "$6$" := by decide
  rw [hident, hh] at hrt
  simp only [resBind] at hrt
  unfold ShaHasher.needsUpdate ShaHasher.inspect lp512
  simp only [hrt, orDefault]
  have : ¬ ((R : Int) = 0) := by omega
  simp only [this, if_false, Except.ok.injEq]
  by_cases e : R = R'
  · subst e; simp
  · have : ((R : Int) != (R' : Int)) = true := by simp; omega
    simp [this, e]

theorem needs_update_of_unrecognised (h : ShaHasher) (hs : Str) (hi : h.inspect hs = .ok none) :
    h.needsUpdate hs = .ok true ∧ h.identify hs = .ok false ∧ ∀ b, h.verify hs b = .ok false := by
  unfold ShaHasher.needsUpdate ShaHasher.identify ShaHasher.verify
  simp [hi]

/-- a libpass sha-crypt hasher recognises nothing that does not start with its own two-character prefix: the strings of the other
    five formats (`$6…`, `$5…`, `$pbkdf2-…`, `$2b$…`, `$bcrypt-sha256$…`) are foreign to it -/
theorem sha_identifies_only_own_prefix (h : ShaHasher) (hs : Str) (hp : (h.ident.take 2).isPrefixOf hs = false) :
    h.inspect hs = .ok none := by
  unfold ShaHasher.inspect lpShaParse lit stripPrefix
  simp [hp]

example : (lp256 5000).inspect (ofString "$6$abc$x") = .ok none ∧ (lp256 5000).inspect (ofString "$pbkdf2-sha256$1$a$b") = .ok none ∧
    (lp256 5000).inspect (ofString "$2b$04$x") = .ok none ∧ (lp512 5000).inspect (ofString "$5$abc$x") = .ok none := by
  refine ⟨sha_identifies_only_own_prefix _ _ (by decide), sha_identifies_only_own_prefix _ _ (by decide),
    sha_identifies_only_own_prefix _ _ (by decide), sha_identifies_only_own_prefix _ _ (by decide)⟩

/-! ### bcrypt-sha256: only the version the hasher implements is its own format -/

/-- what is identified as the hasher's own is a PHC record of the bcrypt-sha256 definition **with v = 2** -/
theorem bcsha_identify_requires_v2 (h : BcSha256Hasher) (s : Str) (hi : h.identify s = .ok true) :
    ∃ info, h.inspect s = .ok (some info) ∧ phcField info "version_" = some (ofString "2") := by
  unfold BcSha256Hasher.identify at hi
  split at hi
  · cases hi
  · cases hi
  · rename_i info hinfo
    refine ⟨info, hinfo, ?_⟩
    have : ownVersion info = true := by simpa using hi
    unfold ownVersion at this
    simpa using this

/-- a record of any other version (an altered `v=` field) is foreign: not identified, verifies no password, asks for an update -/
theorem bcsha_other_version_is_foreign (h : BcSha256Hasher) (s : Str) (info : Parsed) (hp : h.inspect s = .ok (some info))
    (hv : phcField info "version_" ≠ some (ofString "2")) :
    h.identify s = .ok false ∧ (∀ b, h.verify s b = .ok false) ∧ h.needsUpdate s = .ok true := by
  have hown : ownVersion info = false := by
    unfold ownVersion
    simpa using hv
  unfold BcSha256Hasher.identify BcSha256Hasher.verify BcSha256Hasher.needsUpdate
  simp [hp, hown]

/-- a string the inspector does not parse is foreign too, and parse errors propagate unchanged -/
theorem bcsha_unparsed_is_foreign (h : BcSha256Hasher) (s : Str) (hp : h.inspect s = .ok none) :
    h.identify s = .ok false ∧ (∀ b, h.verify s b = .ok false) ∧ h.needsUpdate s = .ok true := by
  unfold BcSha256Hasher.identify BcSha256Hasher.verify BcSha256Hasher.needsUpdate
  simp [hp]

/-- own version: the answer is bcrypt's, and the update check compares the cost only -/
theorem bcsha_own_version (h : BcSha256Hasher) (s : Str) (info : Parsed) (hp : h.inspect s = .ok (some info))
    (hv : phcField info "version_" = some (ofString "2")) :
    h.identify s = .ok true ∧
    (∀ b, h.verify s b = .ok (h.check ((phcField info "type").getD []) (info.salt.getD []) (info.checksum.getD []) ((phcField info "rounds").getD []) b)) ∧
    h.needsUpdate s = .ok (phcField info "rounds" != some (fmtDec (h.rounds : Int))) := by
  have hown : ownVersion info = true := by
    unfold ownVersion
    simp [hv]
  unfold BcSha256Hasher.identify BcSha256Hasher.verify BcSha256Hasher.needsUpdate
  simp [hp, hown]

/-- the hypotheses are met by concrete records: v=2 is own, v=0 parses but is foreign -/
example : (match lpPhcParse bcryptSha256Phc (ofString "$bcrypt-sha256$v=2,t=2b,r=4$/vA2nrnSOqPYkI5hvvXaS.$Kf.zvUf1gDawJP6jX2Y/LTLb6P4hKBK") with
    | .ok (some i) => phcField i "version_" | _ => none) = some (ofString "2") := by decide +kernel
example : (match lpPhcParse bcryptSha256Phc (ofString "$bcrypt-sha256$v=0,t=2b,r=4$/vA2nrnSOqPYkI5hvvXaS.$Kf.zvUf1gDawJP6jX2Y/LTLb6P4hKBK") with
    | .ok (some i) => phcField i "version_" | _ => none) = some (ofString "0") := by decide +kernel

end Props.C20
