import PasslibVerif.Lemmas.ContextFresh
import PasslibVerif.Model.LibpassCtx
/-
C04 — CryptContext identifies, verifies, flags and rehashes exactly per its policy.
Facts about individual hash strings (who claims it, parsed cost, scheme flag, verifies) are atoms.
-/
namespace Props.C04
open Py Model.Rounds Model.Context Lemmas.Context Lemmas.Rounds

/-- the hash is attributed to the FIRST configured scheme that claims it -/
theorem identify_first_claimer (c : Cfg) (h : HashFacts) (s : SchemeInfo) (hi : identify c h = .ok s) :
    ∃ pre post, c.schemes = pre ++ s :: post ∧ h.claims s.name = true ∧ ∀ t ∈ pre, h.claims t.name = false :=
  Lemmas.Context.identify_first_claimer c h s hi

theorem identify_unknown (c : Cfg) (h : HashFacts) (hn : ∀ s ∈ c.schemes, h.claims s.name = false) :
    identify c h = .error .unknownHash := Lemmas.Context.identify_unknown c h hn

/-- new hashes are made with the category's default scheme and the cost its record generates -/
theorem hash_by_default_scheme (c : Cfg) (cat : Cat) (draw : Nat) (fv : Int) (d : String) (n : Option Int)
    (hh : hashCtx c cat draw fv = .ok (d, n)) :
    defaultScheme c cat = .ok d ∧ ∃ s r, s ∈ c.schemes ∧ s.name = d ∧ getRecord c s cat = .ok r ∧
      (match r.cls with | none => n = none | some cls => ∃ k, generateRounds cls draw fv = .ok k ∧ n = some k) :=
  Lemmas.Context.hash_by_default_scheme c cat draw fv d n hh

/-- needs updating ⇔ scheme deprecated for the category ∨ the scheme itself flags it ∨ cost outside the limits -/
theorem needs_update_iff (c : Cfg) (h : HashFacts) (cat : Cat) (b : Bool) (hn : needsUpdateCtx c h cat = .ok b) :
    ∃ s r, identify c h = .ok s ∧ getRecord c s cat = .ok r ∧
      b = (r.deprecated || h.selfFlag ||
        (match r.cls, h.rounds with | some cls, some n => needsUpdate cls n | _, _ => false)) :=
  Lemmas.Context.needs_update_iff c h cat b hn

/-- "cost outside the configured limits", spelled out -/
theorem cost_flag_is_outside_window (cls : Cls) (hodd : cls.forceOdd = false) (n : Int) :
    needsUpdate cls n = false ↔ InWindow cls.minDesired cls.maxDesired n := by
  unfold needsUpdate; simp only [hodd, Bool.false_and, Bool.false_or]; exact outsideWin_iff _ _ n

/-- (False, None) | (True, None) | (True, new) with `new` = what hash() produces for the category -/
theorem vau_trichotomy (c : Cfg) (h : HashFacts) (cat : Cat) (draw : Nat) (fv : Int) (o : VauOut)
    (hv : verifyAndUpdate c h cat draw fv = .ok o) :
    ∃ s r, identify c h = .ok s ∧ getRecord c s cat = .ok r ∧
      ((h.verifies = .ok false ∧ o = .fail) ∨
       (h.verifies = .ok true ∧ recordNeedsUpdate r h = false ∧ o = .ok) ∨
       (h.verifies = .ok true ∧ recordNeedsUpdate r h = true ∧
          ∃ d n, hashCtx c cat draw fv = .ok (d, n) ∧ o = .rehash d n)) :=
  Lemmas.Context.vau_trichotomy c h cat draw fv o hv

/-- a category's default scheme is never deprecated for that category ('auto' included) -/
theorem default_not_deprecated (c : Cfg) (cat : Cat) (d : String) (hd : defaultScheme c cat = .ok d) :
    (isDeprecatedWithFlag c d cat).1 = false := Lemmas.Context.default_not_deprecated c cat d hd

/-- a hash the context has just produced never needs updating under the same context and category.
    Hypotheses: the hashers' own classes have sane limits and do not post-process generated costs; the fresh
    hash is attributed to the scheme that made it and reports the cost it was made with (C01/C07/C17). -/
theorem fresh_never_flagged (c : Cfg) (cat : Cat) (draw : Nat) (fv : Int) (d : String) (n : Option Int) (h : HashFacts)
    (hbase : ∀ s ∈ c.schemes, ∀ b, s.base = some b → BaseOK b ∧ b.forceOdd = false)
    (hh : hashCtx c cat draw fv = .ok (d, n))
    (hid : ∀ s, c.schemes.find? (·.name = d) = some s → identify c h = .ok s)
    (hrounds : h.rounds = n) (hflag : h.selfFlag = false) :
    needsUpdateCtx c h cat = .ok false :=
  Lemmas.Context.fresh_never_flagged c cat draw fv d n h hbase hh hid hrounds hflag

/-- hence verify_and_update reaches its fixed point in one step: the replacement hash it returns
    (same hypotheses about that hash) gives (True, None) next time -/
theorem vau_fixed_point_in_one_step (c : Cfg) (cat : Cat) (draw : Nat) (fv : Int) (d : String) (n : Option Int)
    (hnew : HashFacts) (draw2 : Nat)
    (hbase : ∀ s ∈ c.schemes, ∀ b, s.base = some b → BaseOK b ∧ b.forceOdd = false)
    (hh : hashCtx c cat draw fv = .ok (d, n))
    (hid : ∀ s, c.schemes.find? (·.name = d) = some s → identify c hnew = .ok s)
    (hrounds : hnew.rounds = n) (hflag : hnew.selfFlag = false) (hver : hnew.verifies = .ok true) :
    verifyAndUpdate c hnew cat draw2 fv = .ok .ok := by
  have hnu := fresh_never_flagged c cat draw fv d n hnew hbase hh hid hrounds hflag
  obtain ⟨s, r, hi, hr, hb⟩ := Lemmas.Context.needs_update_iff c hnew cat false hnu
  unfold verifyAndUpdate
  simp only [hi, hr, hver]
  have : recordNeedsUpdate r hnew = false := by unfold recordNeedsUpdate; exact hb.symm
  simp [this]

/-! ### recorded finding: bsdi_crypt's forced-odd rounds against an even maximum -/
def bsdiInfo : SchemeInfo :=
  ⟨"bsdi_crypt", some ⟨1, some 16777215, none, none, some 5001, .none, true⟩,
   ["salt", "rounds", "min_desired_rounds", "max_desired_rounds", "min_rounds", "max_rounds", "default_rounds", "vary_rounds"], false⟩

def bsdiCfg : Cfg :=
  ⟨[bsdiInfo], [], [], [(("bsdi_crypt", none), [("max_rounds", .rounds (.int 6000)), ("default_rounds", .rounds (.int 6000))])]⟩

theorem bsdi_fresh_hash_flagged_counterexample :
    hashCtx bsdiCfg none 0 0 = .ok ("bsdi_crypt", some 6001) ∧
    needsUpdateCtx bsdiCfg ⟨fun s => s == "bsdi_crypt", some 6001, false, .ok true⟩ none = .ok true := by
  constructor <;> decide

/-! ### libpass.context.CryptContext -/
open Model.LibpassCtx in
theorem libpass_hash_first (schemes : List Hasher) (s : Hasher) (rest : List Hasher) (h : schemes = s :: rest) :
    Model.LibpassCtx.defaultScheme schemes = some s := by subst h; rfl

open Model.LibpassCtx in
theorem libpass_verify_any (schemes : List Hasher) (secret hash : List Nat) :
    verifyCtx schemes secret hash = true ↔ ∃ s ∈ schemes, s.verify secret hash = true := by
  unfold verifyCtx; simp [List.any_eq_true]

open Model.LibpassCtx in
/-- update needed ⇔ the hash is not in the first scheme's format (schemes pairwise distinct objects) -/
theorem libpass_needs_update_iff_not_first_format (s : Hasher) (rest : List Hasher) (hash : List Nat)
    (hdist : ∀ t ∈ rest, t.id ≠ s.id) :
    Model.LibpassCtx.needsUpdate (s :: rest) hash = !s.identify hash := by
  unfold Model.LibpassCtx.needsUpdate deprecatedSchemes
  simp only [List.tail_cons, List.filter_cons]
  have h1 : (rest.any fun x => x.id == s.id) = false := by
    rw [List.any_eq_false]; intro t ht; simpa using hdist t ht
  simp only [h1, Bool.not_false, if_true, List.all_cons]
  have h2 : (rest.filter fun x => !(rest.any fun y => y.id == x.id)) = [] := by
    rw [List.filter_eq_nil_iff]; intro t ht
    simp only [Bool.not_eq_true, Bool.not_eq_false', List.any_eq_true]
    exact ⟨t, ht, by simp⟩
  simp [h2]

/-! non-vacuity -/
def shaInfo : SchemeInfo :=
  ⟨"sha256_crypt", some ⟨1000, some 999999999, none, none, some 535000, .none, false⟩,
   ["salt", "rounds", "min_rounds", "max_rounds", "default_rounds", "vary_rounds"], false⟩
example : hashCtx ⟨[shaInfo], [], [], [(("sha256_crypt", none), [("min_rounds", .rounds (.int 2000)), ("max_rounds", .rounds (.int 3000)),
    ("default_rounds", .rounds (.int 2500))])]⟩ none 7 0 = .ok ("sha256_crypt", some 2500) := by decide

end Props.C04
