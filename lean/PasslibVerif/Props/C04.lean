import PasslibVerif.Model.Context
namespace Props.C04
open Model.Context
theorem placeholder : (none : Cat) = none := rfl
end Props.C04
