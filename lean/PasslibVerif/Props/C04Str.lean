import PasslibVerif.Lemmas.ContextStrCtx
import PasslibVerif.Props.C04
/-
C04 at the level of real hash strings.

`Props/C04.lean` proves the policy of `passlib/context.py` over ATOMS (who claims a string, its parsed cost, whether the password
verifies).  Here the atoms are computed by the hasher models of C01 / C07 (`Model.ContextStr.factsOf`) and the clauses of the property
are stated about strings, for EVERY configuration over md5_crypt, sha256_crypt, sha512_crypt, des_crypt, bsdi_crypt, phpass and
pbkdf2_sha256 (`cfgOver c`: any scheme order / sub-list, any default, deprecated list or "auto", any per-scheme and per-category
min / max / default / vary rounds, any categories), every secret, every salt `hash()` can draw (`saltOK`), every value of the
random draw behind the cost variation.

  identify_disjoint        no string is claimed by two of the seven hashers (`$1$` / `$5$` / `$6$` / `$P$`,`$H$` / `$pbkdf2-sha256$` /
                           `_` + 8|19 hash64 characters / 2|13 hash64 characters): attribution never depends on the scheme order
  attributed_to_maker      a string made by scheme X of the context is attributed to X (general form: to X or an EARLIER claimer —
                           `attributed_to_first_claimer`; with disjoint formats: to X)
  ctx_hash_verifies        what `hash()` returns is attributed to the category's default scheme, carries the generated cost, verifies
                           its secret and needs no update      (bsdi_crypt as default: `ctx_hash_verifies_partial` + counterexample)
  vau_keeps / vau_rehashes / vau_replacement_ok / vau_wrong_secret       verify_and_update at string level
-/
namespace Props.C04Str
open Py Model.Handler Model.Formats Model.Verify Model.Rounds Model.Context Model.ContextStr
open Lemmas.Context Lemmas.Rounds Lemmas.ContextStr Props.C01

/-! ### attribution -/

/-- no string is claimed by two different hashers of the registry: their formats are pairwise disjoint -/
theorem identify_disjoint (hs : Str) (n1 n2 : String) (e1 e2 : HasherEntry) (h1 : entryOf n1 = some e1) (h2 : entryOf n2 = some e2)
    (c1 : e1.identify hs = true) (c2 : e2.identify hs = true) : n1 = n2 :=
  cl_unique hs n1 n2 (by unfold cl; rw [h1]; exact c1) (by unfold cl; rw [h2]; exact c2)

/-- general form (holds for any registry, overlapping formats included): a string that scheme X of the context claims is attributed to X
    or to a scheme listed BEFORE X that claims it too; nothing listed before the chosen scheme claims it -/
theorem attributed_to_first_claimer (c : Cfg) (hs : Str) (secret : Secret) (x : SchemeInfo) (e : HasherEntry) (hx : x ∈ c.schemes)
    (he : entryOf x.name = some e) (hcl : e.identify hs = true) :
    ∃ y ey, identify c (factsOf (entriesOf c) hs secret) = .ok y ∧ entryOf y.name = some ey ∧ ey.identify hs = true ∧
      ∃ pre post, c.schemes = pre ++ y :: post ∧ (y = x ∨ x ∈ post) ∧
        ∀ t ∈ pre, ∀ et, entryOf t.name = some et → et.identify hs = false := by
  obtain ⟨y, hi, hy, pre, post, hsplit, hpre, hpos⟩ := identify_of_claim c hs secret x hx (by unfold cl; rw [he]; exact hcl)
  cases hey : entryOf y.name with
  | none => unfold cl at hy; simp [hey] at hy
  | some ey =>
    refine ⟨y, ey, hi, hey, by unfold cl at hy; simpa [hey] using hy, pre, post, hsplit, hpos, ?_⟩
    intro t ht et het
    have := hpre t ht
    unfold cl at this
    simpa [het] using this

/-- a string `hash` made with scheme X of the context (any admissible salt and cost) is attributed to X — whatever the scheme order,
    since no other modelled hasher can claim it -/
theorem attributed_to_maker (c : Cfg) (x : SchemeInfo) (e : HasherEntry) (hx : x ∈ c.schemes) (he : entryOf x.name = some e)
    (salt : Str) (n : Option Int) (hsalt : saltOK x.name salt = true) (hcost : CostOK e n) (s secret' : Secret) (hs : Str)
    (hh : hashSecret e.hasher s (e.settings salt n) = .ok hs) :
    (identify c (factsOf (entriesOf c) hs secret')).map (·.name) = .ok x.name := by
  obtain ⟨y, _, hyn, hiy, _⟩ := made_by_facts c x hx e he salt n (entry_sound x.name e salt n he hsalt hcost) s hs hh secret'
  rw [hiy]; simp [Except.map, hyn]

/-! ### hash() -/

/-- `hash()` at string level, every scheme (general form): for any default scheme whose record accepts the cost it generated.
    The result is attributed to the category's default scheme, carries the configured (generated) cost, verifies the secret it was
    made from, and needs no update under the same context and category. -/
theorem ctx_hash_verifies_of (c : Cfg) (hover : cfgOver c = true) (cat : Cat) (draw : Nat) (fv : Int) (salt : Str) (s : Secret) (hs : Str)
    (hsalt : ∀ d, defaultScheme c cat = .ok d → saltOK d salt = true)
    (hacc : ∀ d n si r cls k, hashCtx c cat draw fv = .ok (d, n) → c.schemes.find? (fun x => x.name = d) = some si →
      getRecord c si cat = .ok r → r.cls = some cls → n = some k → needsUpdate cls k = false)
    (hh : hashWith c cat draw fv salt s = .ok hs) :
    ∃ d n, hashCtx c cat draw fv = .ok (d, n) ∧ defaultScheme c cat = .ok d ∧
      identifyStr c hs = .ok d ∧ (factsOf (entriesOf c) hs s).rounds = n ∧
      verifyStr c s hs = .ok true ∧ needsUpdateStr c hs cat = .ok false := by
  obtain ⟨d, n, e, hc, he, hsec⟩ := hashWith_ok c cat draw fv salt s hs hh
  obtain ⟨hd, si, r, hf, hmem, hname, hr, _⟩ := hashCtx_parts c cat draw fv d n hc
  obtain ⟨e', he', hcost⟩ := hashCtx_cost c hover cat draw fv d n hc
  rw [he] at he'; cases he'
  have hsound := entry_sound d e salt n he (hsalt d hd) hcost
  have he2 : entryOf si.name = some e := by rw [hname]; exact he
  have hfind : c.schemes.find? (fun t => decide (t.name = si.name)) = some si := by rw [hname]; exact hf
  refine ⟨d, n, hc, hd, ?_, ?_, ?_, ?_⟩
  · obtain ⟨y, _, hyn, hiy, _⟩ := made_by_facts c si hmem e he2 salt n hsound s hs hsec (.bytes [])
    unfold identifyStr; rw [hiy]; simp [Except.map, hyn, hname]
  · obtain ⟨_, _, _, _, _, hrn, _⟩ := made_by_facts c si hmem e he2 salt n hsound s hs hsec s
    exact hrn
  · obtain ⟨y, _, _, hiy, _, _, _, hv, _⟩ := made_by_facts c si hmem e he2 salt n hsound s hs hsec s
    unfold verifyStr
    simp only [hiy, hv]
    exact (own_hash e salt n hsound s hs hsec).2.1
  · obtain ⟨y, hfy, _, hiy, hfc, hrn, hflag, _, cc, _, hparse⟩ := made_by_facts c si hmem e he2 salt n hsound s hs hsec (.bytes [])
    rw [hfind] at hfy; cases hfy
    obtain ⟨hnd, hnu⟩ := default_record_accepts c cat draw fv d n hc si r hf hr (fun cls k => hacc d n si r cls k hc hf hr)
      (factsOf (entriesOf c) hs (.bytes [])) hrn hflag
    unfold needsUpdateStr
    simp only [hiy, hr, hnd, Bool.false_eq_true, if_false, hfc, hparse, hnu]

/-- `hash()` at string level: for every configuration whose default scheme (for the category) is not bsdi_crypt, every secret, every
    admissible salt, every draw — the result is attributed to the category's default scheme, carries the generated cost, verifies its
    secret, and needs no update.  (Uses the window theorems behind `Props.C04.fresh_never_flagged` and the C01 own-hash theorems.) -/
theorem ctx_hash_verifies (c : Cfg) (hover : cfgOver c = true) (cat : Cat) (draw : Nat) (fv : Int) (salt : Str) (s : Secret) (hs : Str)
    (hsalt : ∀ d, defaultScheme c cat = .ok d → saltOK d salt = true)
    (hnb : ∀ d, defaultScheme c cat = .ok d → d ≠ "bsdi_crypt")
    (hh : hashWith c cat draw fv salt s = .ok hs) :
    ∃ d n, hashCtx c cat draw fv = .ok (d, n) ∧ defaultScheme c cat = .ok d ∧
      identifyStr c hs = .ok d ∧ (factsOf (entriesOf c) hs s).rounds = n ∧
      verifyStr c s hs = .ok true ∧ needsUpdateStr c hs cat = .ok false := by
  refine ctx_hash_verifies_of c hover cat draw fv salt s hs hsalt ?_ hh
  intro d n si r cls k hc hf hr
  obtain ⟨hd, si', _, hf', hmem, hname, _, _⟩ := hashCtx_parts c cat draw fv d n hc
  rw [hf] at hf'; cases hf'
  obtain ⟨e, he, hb⟩ := cfgOver_mem c hover si hmem
  refine default_window_accepts c cat draw fv d n hc si r hf hr ?_ cls k
  intro b hsb
  obtain ⟨h1, h2⟩ := entry_base_ok si.name e b he (by rw [← hb]; exact hsb)
  exact ⟨h1, h2 (by rw [hname]; exact hnb d hd)⟩

/-- FALSE for bsdi_crypt as the default scheme (`_generate_rounds` makes the cost odd AFTER clipping to the window):
      theorem ctx_hash_verifies_all_schemes … (same statement without `hnb`)
    — negation with a concrete witness: `Props.C04StrExamples.ctx_hash_verifies_all_schemes_false` / `…_bsdi_counterexample`.
    Strongest true version: the explicit hypothesis that the record accepts the odd cost it generated. -/
theorem ctx_hash_verifies_partial (c : Cfg) (hover : cfgOver c = true) (cat : Cat) (draw : Nat) (fv : Int) (salt : Str) (s : Secret) (hs : Str)
    (hsalt : ∀ d, defaultScheme c cat = .ok d → saltOK d salt = true)
    (hwin : ∀ si r cls k, hashCtx c cat draw fv = .ok ("bsdi_crypt", some k) → c.schemes.find? (fun x => x.name = "bsdi_crypt") = some si →
      getRecord c si cat = .ok r → r.cls = some cls → needsUpdate cls k = false)
    (hh : hashWith c cat draw fv salt s = .ok hs) :
    ∃ d n, hashCtx c cat draw fv = .ok (d, n) ∧ defaultScheme c cat = .ok d ∧
      identifyStr c hs = .ok d ∧ (factsOf (entriesOf c) hs s).rounds = n ∧
      verifyStr c s hs = .ok true ∧ needsUpdateStr c hs cat = .ok false := by
  refine ctx_hash_verifies_of c hover cat draw fv salt s hs hsalt ?_ hh
  intro d n si r cls k hc hf hr hcls hn
  by_cases hbs : d = "bsdi_crypt"
  · subst hbs; subst hn; exact hwin si r cls k hc hf hr hcls
  · obtain ⟨hd, si', _, hf', hmem, hname, _, _⟩ := hashCtx_parts c cat draw fv d n hc
    rw [hf] at hf'; cases hf'
    obtain ⟨e, he, hb⟩ := cfgOver_mem c hover si hmem
    refine default_window_accepts c cat draw fv d n hc si r hf hr ?_ cls k hcls hn
    intro b hsb
    obtain ⟨h1, h2⟩ := entry_base_ok si.name e b he (by rw [← hb]; exact hsb)
    exact ⟨h1, h2 (by rw [hname]; exact hbs)⟩

/-! ### verify_and_update -/

/-- (True, None): a string made by scheme X of the context with secret `s`, X not deprecated for the category and the cost inside
    the record's window -/
theorem vau_keeps (c : Cfg) (x : SchemeInfo) (e : HasherEntry) (hx : x ∈ c.schemes) (he : entryOf x.name = some e)
    (salt0 : Str) (n0 : Option Int) (hsalt : saltOK x.name salt0 = true) (hcost : CostOK e n0) (s : Secret) (hs : Str)
    (hh : hashSecret e.hasher s (e.settings salt0 n0) = .ok hs)
    (cat : Cat) (y : SchemeInfo) (r : Record) (hy : c.schemes.find? (fun t => t.name = x.name) = some y) (hr : getRecord c y cat = .ok r)
    (hdep : r.deprecated = false) (hwin : ∀ cls k, r.cls = some cls → n0 = some k → needsUpdate cls k = false)
    (draw : Nat) (fv : Int) (salt : Str) :
    vauStr c cat draw fv salt s hs = .ok (true, none) := by
  have hsound := entry_sound x.name e salt0 n0 he hsalt hcost
  obtain ⟨y', hfy, _, hiy, _, hrn, hflag, hv, _⟩ := made_by_facts c x hx e he salt0 n0 hsound s hs hh s
  rw [hy] at hfy; cases hfy
  have hver := (own_hash e salt0 n0 hsound s hs hh).2.1
  have hnu : recordNeedsUpdate r (factsOf (entriesOf c) hs s) = false := by
    unfold recordNeedsUpdate
    simp only [hdep, hflag, Bool.false_or, hrn]
    cases hc : r.cls with
    | none => rfl
    | some cls => cases hn : n0 with
      | none => rfl
      | some k => exact hwin cls k hc hn
  unfold vauStr verifyAndUpdate
  simp only [hiy, hr, hv, hver, hnu, Bool.false_eq_true, if_false]

/-- (True, new): X deprecated for the category, or the cost outside the record's window — the answer is (True, new) with `new` =
    what `hash()` makes for the category (default scheme, generated cost, drawn salt), and fails exactly when that fails -/
theorem vau_rehashes (c : Cfg) (x : SchemeInfo) (e : HasherEntry) (hx : x ∈ c.schemes) (he : entryOf x.name = some e)
    (salt0 : Str) (n0 : Option Int) (hsalt : saltOK x.name salt0 = true) (hcost : CostOK e n0) (s : Secret) (hs : Str)
    (hh : hashSecret e.hasher s (e.settings salt0 n0) = .ok hs)
    (cat : Cat) (y : SchemeInfo) (r : Record) (hy : c.schemes.find? (fun t => t.name = x.name) = some y) (hr : getRecord c y cat = .ok r)
    (hold : r.deprecated = true ∨ ∃ cls k, r.cls = some cls ∧ n0 = some k ∧ needsUpdate cls k = true)
    (draw : Nat) (fv : Int) (salt : Str) :
    vauStr c cat draw fv salt s hs = (hashWith c cat draw fv salt s).map fun new => (true, some new) := by
  have hsound := entry_sound x.name e salt0 n0 he hsalt hcost
  obtain ⟨y', hfy, _, hiy, _, hrn, hflag, hv, _⟩ := made_by_facts c x hx e he salt0 n0 hsound s hs hh s
  rw [hy] at hfy; cases hfy
  have hver := (own_hash e salt0 n0 hsound s hs hh).2.1
  have hvs := (hash_parts _ s _ hs hh).1
  have hnu : recordNeedsUpdate r (factsOf (entriesOf c) hs s) = true := by
    unfold recordNeedsUpdate
    rcases hold with h | ⟨cls, k, hc, hn, hw⟩
    · simp [h]
    · simp [hc, hrn, hn, hw]
  unfold vauStr verifyAndUpdate
  simp only [hiy, hr, hv, hver, hnu, if_true]
  cases hc : hashCtx c cat draw fv with
  | error err => simp only [Except.map]; rw [hashWith_err c cat draw fv salt s err hvs hc]
  | ok p => simp only [Except.map]

/-- … and that replacement comes from the category's default scheme, verifies the same password and needs no further update
    (so the next verify_and_update answers (True, None): `vau_fixed_point`) -/
theorem vau_replacement_ok (c : Cfg) (hover : cfgOver c = true) (cat : Cat) (draw : Nat) (fv : Int) (salt : Str) (s : Secret) (hs new : Str)
    (hsalt : ∀ d, defaultScheme c cat = .ok d → saltOK d salt = true) (hnb : ∀ d, defaultScheme c cat = .ok d → d ≠ "bsdi_crypt")
    (hv : vauStr c cat draw fv salt s hs = .ok (true, some new)) :
    hashWith c cat draw fv salt s = .ok new ∧
    ∃ d, defaultScheme c cat = .ok d ∧ identifyStr c new = .ok d ∧ verifyStr c s new = .ok true ∧ needsUpdateStr c new cat = .ok false := by
  have hw : hashWith c cat draw fv salt s = .ok new := by
    unfold vauStr at hv
    cases hva : verifyAndUpdate c (factsOf (entriesOf c) hs s) cat draw fv with
    | error e => simp [hva] at hv
    | ok o =>
      cases o with
      | fail => simp [hva] at hv
      | ok => simp [hva] at hv
      | rehash d n =>
        simp only [hva] at hv
        cases hw : hashWith c cat draw fv salt s with
        | error e => simp [hw, Except.map] at hv
        | ok new' => simp [hw, Except.map] at hv; rw [hv]
  obtain ⟨d, n, _, hd, hi, _, hver, hnu⟩ := ctx_hash_verifies c hover cat draw fv salt s new hsalt hnb hw
  exact ⟨hw, d, hd, hi, hver, hnu⟩

/-- the fixed point is reached in one step: verify_and_update on the replacement answers (True, None) -/
theorem vau_fixed_point (c : Cfg) (hover : cfgOver c = true) (cat : Cat) (draw : Nat) (fv : Int) (salt : Str) (s : Secret) (new : Str)
    (hsalt : ∀ d, defaultScheme c cat = .ok d → saltOK d salt = true) (hnb : ∀ d, defaultScheme c cat = .ok d → d ≠ "bsdi_crypt")
    (hw : hashWith c cat draw fv salt s = .ok new) (draw2 : Nat) (fv2 : Int) (salt2 : Str) :
    vauStr c cat draw2 fv2 salt2 s new = .ok (true, none) := by
  obtain ⟨d, n, e, hc, he, hsec⟩ := hashWith_ok c cat draw fv salt s new hw
  obtain ⟨hd, si, r, hf, hmem, hname, hr, _⟩ := hashCtx_parts c cat draw fv d n hc
  obtain ⟨e', he', hcost⟩ := hashCtx_cost c hover cat draw fv d n hc
  rw [he] at he'; cases he'
  have he2 : entryOf si.name = some e := by rw [hname]; exact he
  have hacc : ∀ cls k, r.cls = some cls → n = some k → needsUpdate cls k = false := by
    obtain ⟨e3, he3, hb⟩ := cfgOver_mem c hover si hmem
    refine default_window_accepts c cat draw fv d n hc si r hf hr ?_
    intro b hsb
    obtain ⟨h1, h2⟩ := entry_base_ok si.name e3 b he3 (by rw [← hb]; exact hsb)
    exact ⟨h1, h2 (by rw [hname]; exact hnb d hd)⟩
  have hnd : r.deprecated = false := getRecord_default_not_dep c si cat r (by rw [hname]; exact hd) hr
  exact vau_keeps c si e hmem he2 salt n (by rw [hname]; exact hsalt d hd) hcost s new hsec cat si r (by rw [hname]; exact hf) hr hnd hacc
    draw2 fv2 salt2

/-- (False, None): another secret — one whose checksum for the settings of the string differs -/
theorem vau_wrong_secret (c : Cfg) (x : SchemeInfo) (e : HasherEntry) (hx : x ∈ c.schemes) (he : entryOf x.name = some e)
    (salt0 : Str) (n0 : Option Int) (hsalt : saltOK x.name salt0 = true) (hcost : CostOK e n0) (s s' : Secret) (hs : Str)
    (hh : hashSecret e.hasher s (e.settings salt0 n0) = .ok hs)
    (cat : Cat) (y : SchemeInfo) (r : Record) (hy : c.schemes.find? (fun t => t.name = x.name) = some y) (hr : getRecord c y cat = .ok r)
    (hv' : validateSecret s' = .ok ()) (ck ck' : Str) (hck : checksumOf e.hasher true s (e.settings salt0 n0) = .ok ck)
    (hck' : checksumOf e.hasher false s' (e.settings salt0 n0) = .ok ck') (hne : ck' ≠ ck)
    (draw : Nat) (fv : Int) (salt : Str) :
    vauStr c cat draw fv salt s' hs = .ok (false, none) := by
  have hsound := entry_sound x.name e salt0 n0 he hsalt hcost
  obtain ⟨y', hfy, _, hiy, _, _, _, hv, _⟩ := made_by_facts c x hx e he salt0 n0 hsound s hs hh s'
  rw [hy] at hfy; cases hfy
  obtain ⟨ck2, h1, h2⟩ := verify_of_hash e.hasher s s' _ hs ck' hsound.rt hsound.ic hh hv' hck'
  rw [hck] at h1; cases h1
  have hf : (ck' == ck) = false := by simpa using hne
  unfold vauStr verifyAndUpdate
  simp only [hiy, hr, hv, h2, hf]

end Props.C04Str
