import PasslibVerif.Model.Backend
/-
C03 — "all backends of a hash agree and every advertised backend works": the part that is decision logic and state.
Theorems about the backend state machine, for every host (which loaders succeed), every declared backend list and every
history of calls.  That two *different* backends compute the same digest is not a theorem here: the pure-Python back ends
are proved equal to the published algorithms under C02/C11, the operating system's crypt(), the bcrypt package and
hashlib.scrypt are external code compared on every run (corr/C03.py).
-/
namespace Props.C03
open Model.Backend Gen.Backend

/-- a failed `set_backend` leaves the class exactly as it was -/
theorem failed_set_keeps_state (h : Host) (bs : List String) (st : St) (name : String) (d : Bool) (e : Err)
    (hf : (setBackend h bs st name d).1 = .error e) : (setBackend h bs st name d).2 = st := by
  have named : ∀ n, (setNamed h bs st n d).1 = .error e → (setNamed h bs st n d).2 = st := by
    intro n hn
    unfold setNamed at hn ⊢
    by_cases c1 : n ≠ "" ∧ st = some n
    · simp [c1] at hn
    · simp only [c1, if_false] at hn ⊢
      by_cases c2 : n ∉ bs
      · simp [c2]
      · simp only [c2, if_false] at hn ⊢
        cases hl : h.load n <;> simp [hl] at hn ⊢
  have each : ∀ l fe, (tryEach h bs st d l fe).1 = .error e → (tryEach h bs st d l fe).2 = st := by
    intro l
    induction l with
    | nil => intro fe _; rfl
    | cons n rest ih =>
      intro fe hh
      unfold tryEach at hh ⊢
      rcases hs : setNamed h bs st n d with ⟨r, st'⟩
      rw [hs] at hh
      cases r with
      | ok v => simp at hh
      | error er =>
        cases er with
        | securityError => simp only at hh ⊢; exact ih _ hh
        | missingBackend => simp only at hh ⊢; exact ih _ hh
        | unknownBackend => rfl
        | assertion => rfl
  unfold setBackend at hf ⊢
  by_cases c1 : name = "any" ∧ st.isSome
  · simp [c1] at hf
  · simp only [c1, if_false] at hf ⊢
    by_cases c2 : name = "any" ∨ name = "default"
    · simp only [c2, if_true] at hf ⊢; exact each _ _ hf
    · simp only [c2, if_false] at hf ⊢; exact named _ hf

/-- a dry run (and therefore `has_backend`) never changes the class -/
theorem dryrun_keeps_state (h : Host) (bs : List String) (st : St) (name : String) :
    (setBackend h bs st name true).2 = st := by
  have named : ∀ n, (setNamed h bs st n true).2 = st := by
    intro n
    unfold setNamed
    by_cases c1 : n ≠ "" ∧ st = some n
    · simp [c1]
    · simp only [c1, if_false]
      by_cases c2 : n ∉ bs
      · simp [c2]
      · simp only [c2, if_false]
        cases hl : h.load n <;> simp
  have each : ∀ l fe, (tryEach h bs st true l fe).2 = st := by
    intro l
    induction l with
    | nil => intro fe; rfl
    | cons n rest ih =>
      intro fe
      unfold tryEach
      have hn := named n
      rcases hs : setNamed h bs st n true with ⟨r, st'⟩
      rw [hs] at hn
      cases r with
      | ok v => exact hn
      | error er => cases er <;> simp only <;> first | exact ih _ | rfl
  unfold setBackend
  by_cases c1 : name = "any" ∧ st.isSome
  · simp [c1]
  · simp only [c1, if_false]
    by_cases c2 : name = "any" ∨ name = "default"
    · simp only [c2, if_true]; exact each _ _
    · simp only [c2, if_false]; exact named _

/-- a successful (non-dry) `set_backend` leaves the class on the backend it reports -/
theorem set_reports_active_backend (h : Host) (bs : List String) (st : St) (name r : String)
    (hs : (setBackend h bs st name false).1 = .ok r) : (setBackend h bs st name false).2 = some r := by
  have named : ∀ n r, (setNamed h bs st n false).1 = .ok r → (setNamed h bs st n false).2 = some r := by
    intro n r hn
    unfold setNamed at hn ⊢
    by_cases c1 : n ≠ "" ∧ st = some n
    · obtain ⟨c1a, rfl⟩ := c1
      simp only [c1a, ne_eq, not_false_eq_true, and_self, if_true, Except.ok.injEq] at hn ⊢
      rw [hn]
    · simp only [c1, if_false] at hn ⊢
      by_cases c2 : n ∉ bs
      · simp [c2] at hn
      · simp only [c2, if_false] at hn ⊢
        cases hl : h.load n <;> simp [hl] at hn ⊢
        exact hn
  have each : ∀ l fe r, (tryEach h bs st false l fe).1 = .ok r → (tryEach h bs st false l fe).2 = some r := by
    intro l
    induction l with
    | nil => intro fe r hh; simp [tryEach] at hh
    | cons n rest ih =>
      intro fe r hh
      unfold tryEach at hh ⊢
      have hn := named n
      rcases hs : setNamed h bs st n false with ⟨r', st'⟩
      rw [hs] at hh hn
      cases r' with
      | ok v => simp only at hh ⊢; exact hn _ hh
      | error er =>
        cases er with
        | securityError => simp only at hh ⊢; exact ih _ _ hh
        | missingBackend => simp only at hh ⊢; exact ih _ _ hh
        | unknownBackend => simp at hh
        | assertion => simp at hh
  unfold setBackend at hs ⊢
  by_cases c1 : name = "any" ∧ st.isSome
  · simp only [c1, and_self, if_true, Except.ok.injEq] at hs ⊢
    cases st with
    | none => simp at c1
    | some b => simp at hs; rw [hs]
  · simp only [c1, if_false] at hs ⊢
    by_cases c2 : name = "any" ∨ name = "default"
    · simp only [c2, if_true] at hs ⊢; exact each _ _ _ hs
    · simp only [c2, if_false] at hs ⊢; exact named _ _ hs

/-- on a class with no backend yet, "default"/"any" selects the FIRST declared backend the host can load -/
theorem default_is_first_available (h : Host) (bs : List String) (d : Bool) (name : String)
    (hn : name = "any" ∨ name = "default") :
    (setBackend h bs none name d).1 =
      (match bs.find? (fun b => h.load b = .ok) with
        | some b => .ok b
        | none => .error (if bs.any (fun b => h.load b = .security) then .securityError else .missingBackend)) := by
  have each : ∀ l fe, (∀ n ∈ l, n ∈ bs) →
      (tryEach h bs none d l fe).1 =
        (match l.find? (fun b => h.load b = .ok) with
          | some b => .ok b
          | none => .error (fe.getD (if l.any (fun b => h.load b = .security) then .securityError else .missingBackend))) := by
    intro l
    induction l with
    | nil => intro fe _; simp [tryEach]
    | cons n rest ih =>
      intro fe hsub
      have hnb : n ∈ bs := hsub n (by simp)
      have ih' := fun fe => ih fe (fun x hx => hsub x (by simp [hx]))
      unfold tryEach setNamed
      have c1 : ¬ (n ≠ "" ∧ (none : St) = some n) := by simp
      simp only [c1, if_false, hnb, not_true_eq_false]
      cases hl : h.load n with
      | ok => simp [List.find?, hl]
      | missing =>
        simp only [List.find?, hl]
        rw [ih' fe]
        simp [List.any, hl]
      | security =>
        simp only [List.find?, hl]
        rw [ih' (some (fe.getD .securityError))]
        cases hf : rest.find? (fun b => h.load b = .ok) with
        | some b => simp
        | none => cases fe <;> simp [List.any, hl]
  unfold setBackend
  have c1 : ¬ (name = "any" ∧ (none : St).isSome) := by simp
  simp only [c1, if_false, hn, if_true]
  have := each bs none (fun _ hx => hx)
  simpa using this

/-- a backend the host demonstrably supports is reported available and can be selected -/
theorem supported_backend_available_and_selectable (h : Host) (bs : List String) (st : St) (name : String)
    (hin : name ∈ bs) (hne : name ≠ "any" ∧ name ≠ "default") (hl : h.load name = .ok) :
    hasBackend h bs st name = .ok true ∧ setBackend h bs st name false = (.ok name, some name) := by
  have key : ∀ d, (setBackend h bs st name d).1 = .ok name := by
    intro d
    unfold setBackend setNamed
    have c1 : ¬ (name = "any" ∧ st.isSome) := by simp [hne.1]
    have c2 : ¬ (name = "any" ∨ name = "default") := by simp [hne.1, hne.2]
    simp only [c1, c2, if_false]
    by_cases c3 : name ≠ "" ∧ st = some name
    · simp [c3]
    · simp [c3, hin, hl]
  refine ⟨by unfold hasBackend; rw [key true], ?_⟩
  have h1 := key false
  have h2 := set_reports_active_backend h bs st name name h1
  exact Prod.ext h1 h2

/-- a backend whose loader fails is reported unavailable, and selecting it is refused without touching the class -/
theorem unsupported_backend_refused (h : Host) (bs : List String) (st : St) (name : String)
    (hin : name ∈ bs) (hne : name ≠ "any" ∧ name ≠ "default") (hcur : st ≠ some name) (hl : h.load name = .missing) :
    hasBackend h bs st name = .ok false ∧ setBackend h bs st name false = (.error .missingBackend, st) := by
  have key : ∀ d, setBackend h bs st name d = (.error .missingBackend, st) := by
    intro d
    unfold setBackend setNamed
    have c1 : ¬ (name = "any" ∧ st.isSome) := by simp [hne.1]
    have c2 : ¬ (name = "any" ∨ name = "default") := by simp [hne.1, hne.2]
    have c3 : ¬ (name ≠ "" ∧ st = some name) := by simp [hcur]
    simp [c1, c2, c3, hin, hl]
  exact ⟨by unfold hasBackend; rw [key true], key false⟩

/-- an unknown backend name is a value error, for `set_backend` and `has_backend` alike -/
theorem unknown_backend_is_value_error (h : Host) (bs : List String) (st : St) (name : String)
    (hin : name ∉ bs) (hne : name ≠ "any" ∧ name ≠ "default") (hcur : st ≠ some name) (d : Bool) :
    setBackend h bs st name d = (.error .unknownBackend, st) ∧ hasBackend h bs st name = .error .unknownBackend := by
  have key : ∀ d, setBackend h bs st name d = (.error .unknownBackend, st) := by
    intro d
    unfold setBackend setNamed
    have c1 : ¬ (name = "any" ∧ st.isSome) := by simp [hne.1]
    have c2 : ¬ (name = "any" ∨ name = "default") := by simp [hne.1, hne.2]
    have c3 : ¬ (name ≠ "" ∧ st = some name) := by simp [hcur]
    simp [c1, c2, c3, hin]
  exact ⟨key d, by unfold hasBackend; rw [key true]⟩

/-! ### which code computes the checksum -/

/-- once a backend is active, every checksum is computed by that backend and the class stays on it -/
theorem calc_uses_active_backend (stub : StubKind) (h : Host) (bs : List String) (b : String) (layers : Nat) :
    calcMany h bs (some b) = (.ok ⟨b, 0⟩, some b) ∧ calcSubclass stub h bs (some b) layers = (.ok ⟨b, layers⟩, some b) :=
  ⟨rfl, rfl⟩

/-- the first checksum of a process loads the default backend and is computed by it; the class then stays there -/
theorem first_calc_loads_default (h : Host) (bs : List String) (c : Calc) (st' : St)
    (hc : calcMany h bs none = (.ok c, st')) :
    st' = some c.backend ∧ (setBackend h bs none "any" false).1 = .ok c.backend ∧ c.prehashes = 0 := by
  unfold calcMany at hc
  simp only at hc
  rcases hs : setBackend h bs none "any" false with ⟨r, s⟩
  have hrep := set_reports_active_backend h bs none "any"
  rw [hs] at hc hrep
  cases r with
  | error e => simp at hc
  | ok v =>
    have hsv := hrep v rfl
    simp only at hsv
    subst hsv
    simp only [Prod.mk.injEq, Except.ok.injEq] at hc
    obtain ⟨rfl, rfl⟩ := hc
    exact ⟨rfl, rfl, rfl⟩

/-- the bcrypt family applies a class's pre-hash wrapper exactly once per wrapper layer, whether or not a backend had been
    loaded before the call — provided the lazy stub continues with the backend's own method -/
theorem prehash_exact (h : Host) (bs : List String) (st : St) (layers : Nat) (c : Calc) (st' : St)
    (hc : calcSubclass .superOfOwner h bs st layers = (.ok c, st')) : c.prehashes = layers ∧ st' = some c.backend := by
  unfold calcSubclass at hc
  cases st with
  | some b => simp only [Prod.mk.injEq, Except.ok.injEq] at hc; obtain ⟨rfl, rfl⟩ := hc; exact ⟨rfl, rfl⟩
  | none =>
    simp only at hc
    rcases hs : setBackend h bs none "any" false with ⟨r, s⟩
    rw [hs] at hc
    cases r with
    | error e => simp at hc
    | ok v =>
      cases s with
      | none => simp at hc
      | some b => simp only [Prod.mk.injEq, Except.ok.injEq] at hc; obtain ⟨rfl, rfl⟩ := hc; exact ⟨rfl, rfl⟩

/-- … and that is how the stub found in the source continues -/
theorem source_stub_continues_with_backend : bcryptStub = .superOfOwner := by decide

/-- the source's stub: history-independent pre-hash count for bcrypt / bcrypt_sha256 / django_bcrypt_sha256 -/
theorem bcrypt_family_prehash_exact (h : Host) (bs : List String) (st : St) (layers : Nat) (c : Calc) (st' : St)
    (hc : calcSubclass bcryptStub h bs st layers = (.ok c, st')) : c.prehashes = layers := by
  rw [source_stub_continues_with_backend] at hc
  exact (prehash_exact h bs st layers c st' hc).1

/-- the defect this guards against (repaired by a `fix:` commit): a stub that re-enters `self._calc_checksum` pre-hashes
    the first secret of a process twice -/
theorem self_dispatch_double_prehash_counterexample :
    (calcSubclass .selfDispatch ⟨fun _ => .ok⟩ ["bcrypt", "os_crypt", "builtin"] none 1).1 = .ok ⟨"bcrypt", 2⟩ ∧
    (calcSubclass .selfDispatch ⟨fun _ => .ok⟩ ["bcrypt", "os_crypt", "builtin"] (some "bcrypt") 1).1 = .ok ⟨"bcrypt", 1⟩ := by
  decide

/-- every os_crypt code path of the HasManyBackends hashers hands passwords crypt() cannot take to the builtin code -/
theorem os_crypt_falls_back_everywhere : osCryptFallsBack.all (·.2) = true := by decide

theorem fallback_is_transparent (backend : String) (utf8 : Bool) :
    effectiveCode true backend utf8 = some (if backend = "os_crypt" ∧ utf8 = false then "builtin" else backend) := by
  unfold effectiveCode
  by_cases hb : backend = "os_crypt" <;> cases utf8 <;> simp [hb]

/-! ### isolation between hashers -/

theorem lookup_update_other (w : World) (o o' : String) (s : St) (hne : o' ≠ o) :
    lookupSt (updateSt w o s) o' = lookupSt w o' := by
  unfold lookupSt updateSt
  simp only [List.lookup]
  have : (o' == o) = false := by simpa using hne
  rw [this]
  simp only
  congr 1
  induction w with
  | nil => rfl
  | cons p rest ih =>
    by_cases hp : p.1 = o
    · have hpf : (decide (p.1 ≠ o)) = false := by simp [hp]
      have hpo : (o' == p.1) = false := by rw [hp]; simpa using hne
      simp only [List.filter, hpf, List.lookup]
      rcases p with ⟨a, b⟩
      simp only at hpo hp
      simp only [List.lookup, hpo]
      exact ih
    · have hpf : (decide (p.1 ≠ o)) = true := by simp [hp]
      rcases p with ⟨a, b⟩
      simp only [List.filter, hpf, List.lookup]
      cases hab : (o' == a) <;> simp only
      exact ih

theorem lookup_update_same (w : World) (o : String) (s : St) : lookupSt (updateSt w o s) o = s := by
  unfold lookupSt updateSt
  simp [List.lookup]

def opOwner : Op → String
  | .set o _ _ => o | .get o => o | .has o _ => o | .checksum o _ => o

/-- selecting (or lazily loading) a backend on one hasher never changes the state of another -/
theorem step_frame (stub : StubKind) (h : String → Host) (owners : List Owner) (w : World) (op : Op) (o' : String)
    (hne : o' ≠ opOwner op) : lookupSt (step stub h owners w op).2 o' = lookupSt w o' := by
  cases op with
  | set o n d =>
    simp only [step]
    cases owners.find? (·.name = o) with
    | none => rfl
    | some ow => exact lookup_update_other _ _ _ _ hne
  | get o =>
    simp only [step]
    cases owners.find? (·.name = o) with
    | none => rfl
    | some ow => exact lookup_update_other _ _ _ _ hne
  | has o n =>
    simp only [step]
    cases owners.find? (·.name = o) <;> rfl
  | checksum o l =>
    simp only [step]
    cases owners.find? (·.name = o) with
    | none => rfl
    | some ow => exact lookup_update_other _ _ _ _ hne

/-- the answer of an operation depends only on the state of the hasher it is called on -/
theorem step_local (stub : StubKind) (h : String → Host) (owners : List Owner) (w1 w2 : World) (op : Op)
    (heq : lookupSt w1 (opOwner op) = lookupSt w2 (opOwner op)) :
    (step stub h owners w1 op).1 = (step stub h owners w2 op).1 ∧
    lookupSt (step stub h owners w1 op).2 (opOwner op) = lookupSt (step stub h owners w2 op).2 (opOwner op) := by
  cases op with
  | set o n d =>
    simp only [step, opOwner] at heq ⊢
    cases owners.find? (·.name = o) with
    | none => exact ⟨rfl, heq⟩
    | some ow => rw [heq]; exact ⟨rfl, by simp only [lookup_update_same]⟩
  | get o =>
    simp only [step, opOwner] at heq ⊢
    cases owners.find? (·.name = o) with
    | none => exact ⟨rfl, heq⟩
    | some ow => rw [heq]; exact ⟨rfl, by simp only [lookup_update_same]⟩
  | has o n =>
    simp only [step, opOwner] at heq ⊢
    cases owners.find? (·.name = o) with
    | none => exact ⟨rfl, heq⟩
    | some ow => rw [heq]; exact ⟨rfl, heq ▸ rfl⟩
  | checksum o l =>
    simp only [step, opOwner] at heq ⊢
    cases owners.find? (·.name = o) with
    | none => exact ⟨rfl, heq⟩
    | some ow => rw [heq]; exact ⟨rfl, by simp only [lookup_update_same]⟩

/-- the outputs of the operations on hasher `o` within a history -/
def outsOf (o : String) : List Op → List Out → List Out
  | op :: ops, out :: outs => if opOwner op = o then out :: outsOf o ops outs else outsOf o ops outs
  | _, _ => []

/-- for EVERY history: what a hasher answers is what it would answer had the calls on all other hashers never happened -/
theorem history_isolation (stub : StubKind) (h : String → Host) (owners : List Owner) (o : String) :
    ∀ (ops : List Op) (w1 w2 : World), lookupSt w1 o = lookupSt w2 o →
      outsOf o ops (run stub h owners w1 ops).1 =
        (run stub h owners w2 (ops.filter (fun op => opOwner op = o))).1 := by
  intro ops
  induction ops with
  | nil => intro w1 w2 _; rfl
  | cons op rest ih =>
    intro w1 w2 heq
    by_cases hop : opOwner op = o
    · have hl := step_local stub h owners w1 w2 op (by rw [hop]; exact heq)
      simp only [run, outsOf, hop, if_true, List.filter, decide_true]
      rw [hl.1]
      congr 1
      exact ih _ _ (by rw [← hop]; exact hl.2)
    · have hf := step_frame stub h owners w1 op o (fun e => hop e.symm)
      simp only [run, outsOf, hop, if_false, List.filter, decide_false]
      exact ih _ _ (by rw [hf]; exact heq)

/-! non-vacuity -/
example : (run bcryptStub (fun _ => ⟨fun b => if b = "os_crypt" then .missing else .ok⟩)
    [⟨"bcrypt", ["bcrypt", "os_crypt", "builtin"]⟩, ⟨"sha256_crypt", ["os_crypt", "builtin"]⟩] []
    [.checksum "bcrypt" 1, .set "sha256_crypt" "default" false, .has "sha256_crypt" "os_crypt", .get "bcrypt", .set "bcrypt" "builtin" false,
     .checksum "bcrypt" 1, .set "bcrypt" "nope" false]).1 =
    [.checksum (.ok ⟨"bcrypt", 1⟩), .name (.ok "builtin"), .bool (.ok false), .name (.ok "bcrypt"), .name (.ok "builtin"),
     .checksum (.ok ⟨"builtin", 1⟩), .name (.error .unknownBackend)] := by decide

end Props.C03
