import PasslibVerif.Lemmas.C02CodeDesLm
/-
C02, code level, group `Des` — "the code computes the published algorithm" for passlib's own pure-Python DES based checksum code.

`Model.Code.Des.*` follows the Python statements of passlib/handlers/des_crypt.py (`_crypt_secret_to_key`, `_raw_des_crypt`,
`_bsdi_secret_to_key`, `_raw_bsdi_crypt`, the two `_calc_checksum_builtin` wrappers, `bigcrypt._calc_checksum`,
`crypt16._calc_checksum`), windows.py (`lmhash.raw`, `lmhash._calc_checksum`) and oracle.py (`des_cbc_encrypt`,
`oracle10._calc_checksum`); it is compared with the real functions by tools/corr/c02_code_des.py (driver suite `cdes`).
The theorems below say that this code equals the specification `Spec.Formats.DesBased` for EVERY password (any length, any
byte value the code admits), every salt over the hash64 alphabet and every round count: the DES block function goes through
`Props.C11.des_model_eq_spec` (table-driven code = FIPS 46-3 + crypt(3) salt), the loops by induction over the block list.

  hash64 alphabet: `c ∈ itoa64` (`./0-9A-Za-z`);   "no NUL": `0 ∉ secret`.
Non-vacuity: one `example` per main theorem on a value computed by the real code — the first two below, the others in
Props/C02CodeDesExamples.lean, C02CodeDesExamples2.lean (through the theorem + kernel evaluation of the specification) and
C02CodeDesExamples3.lean (the model itself evaluated by the kernel).
-/
namespace Props.C02CodeDes
open Py Model.B64 Model.Code.Des Spec.Formats
open Model.Verify (Secret)
open Lemmas.C02CodeDes

/-! ### `_crypt_secret_to_key` -/

/-- `sum((c & 0x7F) << (57 - i*8) …)` over the first eight bytes is FreeSec's key (`*q++ = *key << 1`, zero padded):
    every byte string, no hypothesis -/
theorem crypt_secret_to_key_eq_spec (secret : List Nat) : cryptSecretToKey secret = desKeyOfChars secret :=
  cryptSecretToKey_eq secret

/-! ### `_raw_des_crypt` -/

/-- traditional crypt(3): every NUL-free byte string, every two-character hash64 salt -/
theorem raw_des_crypt_eq_spec (secret salt : List Nat) (hnul : 0 ∉ secret) (hl : salt.length = 2) (hc : ∀ c ∈ salt, c ∈ itoa64) :
    rawDesCrypt (.bytes secret) salt = .ok (desCrypt secret salt) :=
  rawDesCrypt_bytes_eq_spec secret salt hnul hl hc

/-- a text secret is hashed as its UTF-8 encoding -/
theorem raw_des_crypt_text_eq_spec (cps b salt : List Nat) (hu : Model.Verify.utf8 cps = some b) (hnul : 0 ∉ b) (hl : salt.length = 2)
    (hc : ∀ c ∈ salt, c ∈ itoa64) : rawDesCrypt (.text cps) salt = .ok (desCrypt b salt) := by
  rw [rawDesCrypt_text cps b salt hu]; exact rawDesCrypt_bytes_eq_spec b salt hnul hl hc

/-- `NullPasswordError` exactly when the (well-salted) secret contains a NUL -/
theorem raw_des_crypt_refuses_nul (secret salt : List Nat) (hnul : 0 ∈ secret) (hl : salt.length = 2) (hc : ∀ c ∈ salt, c ∈ itoa64) :
    rawDesCrypt (.bytes secret) salt = .error .nullError := rawDesCrypt_nul secret salt hnul hl hc

/-- `assert len(salt) == 2` -/
theorem raw_des_crypt_salt_size (secret : Secret) (salt : List Nat) (hl : salt.length ≠ 2) :
    rawDesCrypt secret salt = .error .assertionError := rawDesCrypt_salt_size secret salt hl

/-- a salt character outside the hash64 alphabet: `ValueError` from `h64.decode_int12` -/
theorem raw_des_crypt_salt_char (secret : Secret) (salt : List Nat) (hl : salt.length = 2) (c : Nat) (hc : c ∈ salt) (hn : c ∉ itoa64) :
    rawDesCrypt secret salt = .error .valueError := rawDesCrypt_salt_char secret salt hl c hc hn


/-- a text secret that cannot be encoded (lone surrogate, code point ≥ 0x110000): `UnicodeEncodeError`, a `ValueError` -/
theorem raw_des_crypt_text_unencodable (cps salt : List Nat) (hu : Model.Verify.utf8 cps = none) (hl : salt.length = 2)
    (hc : ∀ c ∈ salt, c ∈ itoa64) : rawDesCrypt (.text cps) salt = .error .valueError := by
  match salt, hl with
  | [a, b], _ =>
    simp only [rawDesCrypt, List.length_cons, List.length_nil, ne_eq, not_true_eq_false, if_false, Nat.reduceAdd,
      decodeInt12_h64 a b (hc a (by simp)) (hc b (by simp)), encodeSecret, Secret.toBytes, hu]

example : cryptSecretToKey [0x70, 0xe4, 0x73, 0x73, 0x77, 0xf6, 0x72, 0x64, 0x21, 0x21] = 16197449939363357896 := by decide +kernel

/-- non-vacuity: `_raw_des_crypt(b"p\xe4ssw\xf6rd", b"ab") == b"UHWcN08ZKKc"` (computed by /tmp/repo_clean) -/
example : rawDesCrypt (.bytes [0x70, 0xe4, 0x73, 0x73, 0x77, 0xf6, 0x72, 0x64]) (ascii "ab") = .ok (ascii "UHWcN08ZKKc") := by
  rw [raw_des_crypt_eq_spec _ _ (by decide) (by decide) (by decide)]; decide +kernel

/-! ### `_bsdi_secret_to_key`, `_raw_bsdi_crypt` -/

/-- the `while idx < end` loop is FreeSec's "encrypt the key with itself, xor the next 8 characters" over every further block:
    every byte string, no hypothesis (the loop never runs out of fuel, `des_encrypt_int_block` never refuses) -/
theorem bsdi_secret_to_key_eq_spec (secret : List Nat) : bsdiSecretToKey secret = .ok (bsdiKey secret) := bsdiSecretToKey_eq secret

/-- BSDi extended DES: every NUL-free byte string, every four-character hash64 salt, every round count ≥ 1 -/
theorem raw_bsdi_crypt_eq_spec (secret salt : List Nat) (rounds : Nat) (hnul : 0 ∉ secret) (hl : salt.length = 4)
    (hc : ∀ c ∈ salt, c ∈ itoa64) (hr : 1 ≤ rounds) :
    rawBsdiCrypt (.bytes secret) rounds salt = .ok (bsdiCrypt secret salt rounds) :=
  rawBsdiCrypt_bytes_eq_spec secret salt rounds hnul hl hc hr

theorem raw_bsdi_crypt_text_eq_spec (cps b salt : List Nat) (rounds : Nat) (hu : Model.Verify.utf8 cps = some b) (hnul : 0 ∉ b)
    (hl : salt.length = 4) (hc : ∀ c ∈ salt, c ∈ itoa64) (hr : 1 ≤ rounds) :
    rawBsdiCrypt (.text cps) rounds salt = .ok (bsdiCrypt b salt rounds) := by
  rw [rawBsdiCrypt_text cps b salt rounds hu]; exact rawBsdiCrypt_bytes_eq_spec b salt rounds hnul hl hc hr

theorem raw_bsdi_crypt_refuses_nul (secret salt : List Nat) (rounds : Nat) (hnul : 0 ∈ secret) (hl : salt.length = 4)
    (hc : ∀ c ∈ salt, c ∈ itoa64) : rawBsdiCrypt (.bytes secret) rounds salt = .error .nullError :=
  rawBsdiCrypt_nul secret salt rounds hnul hl hc

/-- `rounds = 0`: `ValueError("rounds must be positive integer")` from `des_encrypt_int_block` -/
theorem raw_bsdi_crypt_rounds_zero (secret salt : List Nat) (hnul : 0 ∉ secret) (hl : salt.length = 4) (hc : ∀ c ∈ salt, c ∈ itoa64) :
    rawBsdiCrypt (.bytes secret) 0 salt = .error .valueError := rawBsdiCrypt_rounds_zero secret salt hnul hl hc

theorem raw_bsdi_crypt_salt_size (secret : Secret) (salt : List Nat) (rounds : Nat) (hl : salt.length ≠ 4) :
    rawBsdiCrypt secret rounds salt = .error .valueError := rawBsdiCrypt_salt_size secret salt rounds hl

/-! ### `des_crypt._calc_checksum_builtin`, `bsdi_crypt._calc_checksum_builtin` -/

theorem des_crypt_calc_builtin_eq_spec (secret salt : List Nat) (hnul : 0 ∉ secret) (hl : salt.length = 2) (hc : ∀ c ∈ salt, c ∈ itoa64) :
    desCryptCalcBuiltin (.bytes secret) salt = .ok (desCrypt secret salt) := desCryptCalcBuiltin_eq_spec secret salt hnul hl hc

theorem bsdi_crypt_calc_builtin_eq_spec (secret salt : List Nat) (rounds : Nat) (hnul : 0 ∉ secret) (hl : salt.length = 4)
    (hc : ∀ c ∈ salt, c ∈ itoa64) (hr : 1 ≤ rounds) :
    bsdiCryptCalcBuiltin (.bytes secret) rounds salt = .ok (bsdiCrypt secret salt rounds) :=
  bsdiCryptCalcBuiltin_eq_spec secret salt rounds hnul hl hc hr

/-- a non-ASCII salt: `UnicodeEncodeError` (a `ValueError`) from `self.salt.encode("ascii")` -/
theorem des_crypt_calc_builtin_salt_not_ascii (secret : Secret) (salt : List Nat) (c : Nat) (hc : c ∈ salt) (h : 128 ≤ c) :
    desCryptCalcBuiltin secret salt = .error .valueError := by
  simp only [desCryptCalcBuiltin, encodeAscii_bad salt c hc h]

/-! ### `bigcrypt._calc_checksum` -/

/-- bigcrypt: every NUL-free byte string (any number of 8-byte segments), every two-character hash64 salt -/
theorem bigcrypt_calc_eq_spec (secret salt : List Nat) (hnul : 0 ∉ secret) (hl : salt.length = 2) (hc : ∀ c ∈ salt, c ∈ itoa64) :
    bigcryptCalc (.bytes secret) salt = .ok (bigcrypt secret salt) := bigcryptCalc_bytes_eq_spec secret salt hnul hl hc

theorem bigcrypt_calc_text_eq_spec (cps b salt : List Nat) (hu : Model.Verify.utf8 cps = some b) (hnul : 0 ∉ b) (hl : salt.length = 2)
    (hc : ∀ c ∈ salt, c ∈ itoa64) : bigcryptCalc (.text cps) salt = .ok (bigcrypt b salt) := by
  rw [bigcryptCalc_text cps b salt hu]; exact bigcryptCalc_bytes_eq_spec b salt hnul hl hc

/-- a NUL anywhere in the secret (any segment) is refused -/
theorem bigcrypt_calc_refuses_nul (secret salt : List Nat) (hnul : 0 ∈ secret) (hl : salt.length = 2) (hc : ∀ c ∈ salt, c ∈ itoa64) :
    bigcryptCalc (.bytes secret) salt = .error .nullError := bigcryptCalc_nul secret salt hnul hl hc

/-! ### `crypt16._calc_checksum` -/

/-- crypt16: EVERY byte string (NUL included: this code path does not look for it), every two-character hash64 salt;
    `checkTruncate` (= `use_defaults and truncate_error`) off, or the secret within 16 bytes -/
theorem crypt16_calc_eq_spec (secret salt : List Nat) (hl : salt.length = 2) (hc : ∀ c ∈ salt, c ∈ itoa64) (chk : Bool)
    (ht : chk = false ∨ secret.length ≤ 16) :
    crypt16Calc (.bytes secret) salt chk = .ok (crypt16 secret salt) := crypt16Calc_core secret salt hl hc chk ht

theorem crypt16_calc_text_eq_spec (cps b salt : List Nat) (hu : Model.Verify.utf8 cps = some b) (hl : salt.length = 2)
    (hc : ∀ c ∈ salt, c ∈ itoa64) (chk : Bool) (ht : chk = false ∨ b.length ≤ 16) :
    crypt16Calc (.text cps) salt chk = .ok (crypt16 b salt) := by
  rw [crypt16Calc_text cps b salt chk hu]; exact crypt16Calc_core b salt hl hc chk ht

/-- a salt character outside the hash64 alphabet: `ValueError("invalid chars in salt")` -/
theorem crypt16_calc_salt_char (secret salt : List Nat) (hl : salt.length = 2) (hs : ∀ c ∈ salt, c < 128) (c : Nat) (hc : c ∈ salt)
    (hn : c ∉ itoa64) : crypt16Calc (.bytes secret) salt false = .error .valueError := by
  have ha : encodeAscii salt = .ok salt := by
    unfold encodeAscii
    have : salt.all (· < 128) = true := by simpa using hs
    simp only [this, if_true]
  match salt, hl with
  | [a, b], _ =>
    have : decodeInt12 h64 [a, b] = .error .valueError := by
      simp only [List.mem_cons, List.not_mem_nil, or_false] at hc
      rcases hc with rfl | rfl
      · simp only [decodeInt12, decode64_h64_none _ hn]
      · simp only [decodeInt12, decode64_h64_none _ hn]
        cases decode64 h64.charmap a <;> rfl
    simp only [crypt16Calc, encodeSecret, Secret.toBytes, Bool.false_eq_true, false_and, if_false, ha, this]

/-- `truncate_error=True` during `hash()`: more than 16 bytes raise `PasswordTruncateError` -/
theorem crypt16_calc_truncate_error (secret salt : List Nat) (h : 16 < secret.length) :
    crypt16Calc (.bytes secret) salt true = .error .truncateError := crypt16Calc_truncate secret salt h

/-! ### `lmhash.raw`, `lmhash._calc_checksum` -/

/-- after the case mapping / encoding: pad to 14, two 7-byte keys through `des_encrypt_block` over `KGS!@#$%` = RFC 2433 `DesHash`
    of the two halves — every byte string, no hypothesis -/
theorem lmhash_raw_upper_eq_spec (s : List Nat) :
    lmhashRawUpper s = .ok (let p := (s ++ List.replicate 14 0).take 14; lmDesHash (p.take 7) ++ lmDesHash (p.drop 7)) :=
  lmhashRawUpper_eq s

/-- `lmhash._calc_checksum` on a bytes secret (upper-cased with `bytes.upper()`): every byte string, no hypothesis -/
theorem lmhash_calc_eq_spec (secret : List Nat) : lmhashCalcBytes secret = .ok (lmhash secret) := lmhashCalcBytes_eq_spec secret

/-! ### `des_cbc_encrypt`, `oracle10._calc_checksum` -/

/-- `des_cbc_encrypt(key, value)`: last block of DES-CBC (zero IV) over the zero padded value — every 8-byte key, every byte string -/
theorem des_cbc_encrypt_eq_spec (key value : List Nat) (hk : key.length = 8) (hkb : ∀ b ∈ key, b < 256) (hvb : ∀ b ∈ value, b < 256) :
    desCbcEncrypt key value
      = .ok (beBytes 8 (desCbcLast (beNat key) (chunksOf 8 (value ++ List.replicate ((8 - value.length % 8) % 8) 0)))) :=
  desCbcEncrypt_eq key value hk hkb hvb

/-- `oracle10._calc_checksum` from `input = (user + secret).upper().encode("utf-16-be")` on, for every byte string `input` -/
theorem oracle10_calc_input_eq_spec (input : List Nat) (hb : ∀ b ∈ input, b < 256) :
    oracle10CalcInput input = .ok (
      let blocks := chunksOf 8 (input ++ List.replicate ((8 - input.length % 8) % 8) 0)
      hexUpper (beBytes 8 (desCbcLast (desCbcLast 0x0123456789ABCDEF blocks) blocks))) := oracle10CalcInput_eq input hb

/-- … which is `Spec.Formats.oracle10` when `input` is the specification's UTF-16-BE string (Unicode scalar values) -/
theorem oracle10_calc_eq_spec (pwd user : List Nat) (h : ∀ u ∈ utf8Scalars user ++ utf8Scalars pwd, u < 0x110000) :
    oracle10CalcInput (oracleRaw pwd user) = .ok (oracle10 pwd user) := by
  rw [oracle10CalcInput_eq _ (oracleRaw_lt pwd user h), oracle10_spec_unfold]

#print axioms crypt_secret_to_key_eq_spec
#print axioms raw_des_crypt_eq_spec
#print axioms raw_des_crypt_text_eq_spec
#print axioms raw_des_crypt_text_unencodable
#print axioms raw_des_crypt_refuses_nul
#print axioms raw_des_crypt_salt_size
#print axioms raw_des_crypt_salt_char
#print axioms bsdi_secret_to_key_eq_spec
#print axioms raw_bsdi_crypt_eq_spec
#print axioms raw_bsdi_crypt_text_eq_spec
#print axioms raw_bsdi_crypt_refuses_nul
#print axioms raw_bsdi_crypt_rounds_zero
#print axioms raw_bsdi_crypt_salt_size
#print axioms des_crypt_calc_builtin_eq_spec
#print axioms bsdi_crypt_calc_builtin_eq_spec
#print axioms des_crypt_calc_builtin_salt_not_ascii
#print axioms bigcrypt_calc_eq_spec
#print axioms bigcrypt_calc_text_eq_spec
#print axioms bigcrypt_calc_refuses_nul
#print axioms crypt16_calc_eq_spec
#print axioms crypt16_calc_text_eq_spec
#print axioms crypt16_calc_salt_char
#print axioms crypt16_calc_truncate_error
#print axioms lmhash_raw_upper_eq_spec
#print axioms lmhash_calc_eq_spec
#print axioms des_cbc_encrypt_eq_spec
#print axioms oracle10_calc_input_eq_spec
#print axioms oracle10_calc_eq_spec

end Props.C02CodeDes
