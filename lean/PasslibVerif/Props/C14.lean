import PasslibVerif.Lemmas.Totp
/-
C14 — Token matching honours the window and never accepts a code twice.
`gen : Nat → List Nat` is an ARBITRARY token generator (colliding codes included); all
window arithmetic is Gen.Totp (regenerated from passlib/totp.py).
-/
namespace Props.C14
open Py Gen.Totp Model.Totp Lemmas.Totp

variable (gen : Nat → List Nat) (digits : Nat) (period : Int)

/-- lower end of the search: not before the last used counter, not before 0 -/
def lo (period time window skew : Int) (last : Option Int) : Int :=
  max (max (last.getD (-1)) (timeToCounter (time + skew - window) period)) 0
/-- upper end (inclusive) -/
def hi (period time window skew : Int) : Int := timeToCounter (time + skew + window) period

/-- the window in the statement's own terms: counter c is examined iff
    p·c ≤ t+s+w  ∧  t+s−w < p·(c+1)  ∧  c ≥ max(last, 0) -/
theorem window_edge (hp : 0 < period) (time window skew : Int) (last : Option Int) (c : Int) :
    (lo period time window skew last ≤ c ∧ c ≤ hi period time window skew) ↔
    (period * c ≤ time + skew + window ∧ time + skew - window < period * (c + 1) ∧
      last.getD (-1) ≤ c ∧ 0 ≤ c) := by
  unfold lo hi
  rw [le_counter_iff c _ period hp]
  have h := counter_lt_iff (c + 1) (time + skew - window) period hp
  constructor
  · rintro ⟨h1, h2⟩
    refine ⟨h2, h.1 (by omega), by omega, by omega⟩
  · rintro ⟨h1, h2, h3, h4⟩
    have := h.2 h2
    exact ⟨by omega, h1⟩

theorem negative_window_error (tok : TokIn) (time window skew : Int) (last : Option Int) (h : window < 0) :
    matchTok gen digits period tok time window skew last = .error .valueError := by
  unfold matchTok; simp [h]

/-- malformed ⇔ the submitted token is not a code of `digits` digits (for a legal window) -/
theorem malformed_iff (tok : TokIn) (time window skew : Int) (last : Option Int) (hw : 0 ≤ window) :
    matchTok gen digits period tok time window skew last = .error .tokenMalformed ↔
    normalizeToken digits tok = .error .tokenMalformed := by
  unfold matchTok
  have : ¬ window < 0 := by omega
  simp only [this, if_false]
  cases hn : normalizeToken digits tok with
  | error e => cases e <;> simp
  | ok t =>
    simp only
    split
    · simp
    · split
      · simp
      · split <;> simp

/-- accepted: the result is the EARLIEST matching counter in [lo, hi], it is later than the last
    used one, and every reported field follows the formulas of the source -/
theorem match_ok_spec (tok : TokIn) (time window skew : Int) (last : Option Int) (m : MatchOut)
    (h : matchTok gen digits period tok time window skew last = .ok m) :
    ∃ t, normalizeToken digits tok = .ok t ∧
      lo period time window skew last ≤ m.counter ∧ m.counter ≤ hi period time window skew ∧
      gen m.counter.toNat = t ∧
      (∀ d : Nat, lo period time window skew last ≤ d → (d : Int) < m.counter → gen d ≠ t) ∧
      last.getD (-1) < m.counter ∧
      m.time = time ∧ m.expectedCounter = timeToCounter time period ∧
      m.skipped = m.counter - timeToCounter time period ∧
      m.expireTime = (m.counter + 1) * period ∧ m.cacheSeconds = period + window ∧
      m.cacheTime = (m.counter + 1) * period + window := by
  unfold matchTok at h
  split at h
  · cases h
  · cases hn : normalizeToken digits tok with
    | error e => simp [hn] at h
    | ok t =>
      simp only [hn] at h
      split at h
      · cases h
      · rename_i hrange
        split at h
        · cases h
        · rename_i c hf
          split at h
          · cases h
          · rename_i hne
            cases h
            have ⟨g1, g2, g3⟩ := findMatch_ge hf
            have hl := findMatch_least hf
            refine ⟨t, rfl, ?_, ?_, ?_, ?_, ?_, rfl, rfl, rfl, ?_, rfl, ?_⟩
            · simp only [lo, findStart, matchStart, matchClientTime, lastCounterDefault] at *; omega
            · simp only [hi, lo, findStart, matchStart, matchEnd, matchClientTime, lastCounterDefault] at *; omega
            · simpa using g3
            · intro d hd1 hd2
              apply hl d
              · simp only [lo, findStart, matchStart, matchClientTime, lastCounterDefault] at *; omega
              · have hd2' : (d : Int) < (c : Int) := hd2
                omega
            · simp only [lo, findStart, matchStart, matchClientTime, lastCounterDefault] at *; omega
            · simp only [matchExpireTime, counterToTime]
            · simp only [matchCacheTime, matchExpireTime, counterToTime]

/-- already used: the earliest matching counter in the window is exactly the last used one -/
theorem match_used_spec (tok : TokIn) (time window skew : Int) (last : Option Int)
    (h : matchTok gen digits period tok time window skew last = .error .tokenUsed) :
    ∃ t l, normalizeToken digits tok = .ok t ∧ last = some l ∧ 0 ≤ l ∧ gen l.toNat = t ∧
      l ≤ hi period time window skew ∧
      (∀ d : Nat, lo period time window skew last ≤ d → (d : Int) < l → gen d ≠ t) := by
  unfold matchTok at h
  split at h
  · cases h
  · cases hn : normalizeToken digits tok with
    | error e =>
      simp only [hn] at h
      cases h
      -- normalizeToken never reports tokenUsed
      cases tok <;> simp only [normalizeToken] at hn <;> (repeat' split at hn) <;> cases hn
    | ok t =>
      simp only [hn] at h
      split at h
      · cases h
      · split at h
        · cases h
        · rename_i c hf
          split at h
          · rename_i heq
            have ⟨g1, g2, g3⟩ := findMatch_ge hf
            have hl := findMatch_least hf
            cases last with
            | none =>
              simp only [Option.getD, lastCounterDefault] at heq
              omega
            | some l =>
              simp only [Option.getD] at heq
              refine ⟨t, l, rfl, rfl, by omega, ?_, ?_, ?_⟩
              · rw [← heq]; simpa using g3
              · simp only [hi, findStart, matchStart, matchEnd, matchClientTime, lastCounterDefault, Option.getD] at *; omega
              · intro d hd1 hd2
                apply hl d
                · simp only [lo, findStart, matchStart, matchClientTime, lastCounterDefault, Option.getD] at *; omega
                · omega
          · cases h

/-- invalid: a well-formed code that matches no counter of the window -/
theorem match_invalid_spec (tok : TokIn) (time window skew : Int) (last : Option Int)
    (h : matchTok gen digits period tok time window skew last = .error .tokenInvalid) :
    ∃ t, normalizeToken digits tok = .ok t ∧
      ∀ d : Nat, lo period time window skew last ≤ d → (d : Int) ≤ hi period time window skew → gen d ≠ t := by
  unfold matchTok at h
  split at h
  · cases h
  · cases hn : normalizeToken digits tok with
    | error e =>
      simp only [hn] at h
      cases h
      cases tok <;> simp only [normalizeToken] at hn <;> (repeat' split at hn) <;> cases hn
    | ok t =>
      simp only [hn] at h
      refine ⟨t, rfl, ?_⟩
      split at h
      · rename_i hrange
        intro d hd1 hd2
        simp only [lo, hi, findStart, matchStart, matchEnd, matchClientTime, lastCounterDefault] at *
        omega
      · split at h
        · rename_i hf
          have hnone := findMatch_none hf
          intro d hd1 hd2
          apply hnone d
          · simp only [lo, findStart, matchStart, matchClientTime, lastCounterDefault] at *; omega
          · simp only [lo, hi, findStart, matchStart, matchEnd, matchClientTime, lastCounterDefault] at *; omega
        · split at h <;> cases h

/-- accepted counters are later than the fed-back last counter -/
theorem ok_gt_last (tok : TokIn) (time window skew : Int) (last : Option Int) (m : MatchOut)
    (h : matchTok gen digits period tok time window skew last = .ok m) : last.getD (-1) < m.counter := by
  obtain ⟨_, _, _, _, _, _, h6, _⟩ := match_ok_spec gen digits period tok time window skew last m h
  exact h6

theorem run_all_gt : ∀ (hist : List Attempt) (last : Option Int),
    ∀ c ∈ runHistory gen digits period hist last, last.getD (-1) < c
  | [], _ => by simp [runHistory]
  | a :: rest, last => by
    intro c hc
    unfold runHistory at hc
    split at hc
    · rename_i m hm
      have h0 := ok_gt_last gen digits period _ _ _ _ _ m hm
      cases hc with
      | head => exact h0
      | tail _ h' =>
        have := run_all_gt rest (some m.counter) c h'
        simp only [Option.getD] at this; omega
    · exact run_all_gt rest last c hc

/-- over ANY history (any generator, any times/windows/skews, replayed / stale / colliding codes)
    in which the application feeds back the accepted counter, accepted counters strictly increase -/
theorem accepted_strictly_increasing : ∀ (hist : List Attempt) (last : Option Int),
    List.Pairwise (· < ·) (runHistory gen digits period hist last)
  | [], _ => by simp [runHistory]
  | a :: rest, last => by
    unfold runHistory
    split
    · rename_i m hm
      refine List.Pairwise.cons ?_ (accepted_strictly_increasing rest (some m.counter))
      intro c hc
      have := run_all_gt gen digits period rest (some m.counter) c hc
      simpa [Option.getD] using this
    · exact accepted_strictly_increasing rest last

/-- hence no counter (no code) is ever accepted twice -/
theorem no_counter_twice (hist : List Attempt) (last : Option Int) :
    (runHistory gen digits period hist last).Nodup := by
  have h := accepted_strictly_increasing gen digits period hist last
  exact h.imp (fun hlt => Int.ne_of_lt hlt)

/-! non-vacuity: a concrete generator with colliding codes -/
def demoGen (c : Nat) : List Nat := if c % 2 = 0 then [49, 49] else [50, 50]
example : (matchTok demoGen 2 30 (.text [49, 32, 49]) 95 30 0 none).toOption.map (·.counter) = some 2 := by decide
example : matchTok demoGen 2 30 (.text [49, 49]) 95 30 0 (some 2) = .error .tokenUsed := by decide
example : runHistory demoGen 2 30 [⟨.text [49, 49], 95, 30, 0⟩, ⟨.text [49, 49], 95, 30, 0⟩, ⟨.int 11, 130, 30, 0⟩] none = [2, 4] := by decide

end Props.C14
