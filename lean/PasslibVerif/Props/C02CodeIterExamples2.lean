import PasslibVerif.Props.C02CodeIter
/-
C02, group `Iter`: non-vacuity of the theorems of Props/C02CodeIter.lean — for each function the hypotheses of its `…_eq_spec`
theorem on a concrete non-trivial input (non-ASCII text, a user name, …) together with the value the REAL function returned
on /tmp/repo_clean (current HEAD) for that input, evaluated by the kernel (`decide +kernel`: MD5 / SHA-1 inside).
Second half: fshp, cisco_pix / cisco_asa, cisco_type7.
-/
namespace Props.C02CodeIter
open Py Model.Code.Iter Lemmas.C02CodeIter Lemmas.PbkdfLen Lemmas.C01MiscDigest
open Model.Verify (Secret)

-- `fshp(variant=0, salt=b"\x01\xff", rounds=2)` on "pässword" (/tmp/repo_clean): key 0f20dd77…, string {FSHP0|2|2}Af8PIN1382xczDyBRo2OK/d24/0v4A==
example : (fshpCode 0 [1, 255] 2 (.text [112, 228, 115, 115, 119, 111, 114, 100])).map (fshpData [1, 255])
    = .ok (Spec.Formats.ascii "Af8PIN1382xczDyBRo2OK/d24/0v4A==") := by decide +kernel

-- on /tmp/repo_clean: cisco_pix(user="ab")._calc_checksum("pässword") = "6UUiCVKJm6KdKRbB";
-- cisco_asa(user="user")._calc_checksum("0123456789abc") = "8Q/FZeam5ai1A47p" (the vector confirmed on an ASA 9.6)
example : UserIs (some (.text [97, 98])) [97, 98] ∧
    ciscoCalcChecksum Spec.MD5.md5 false 16 true (some (.text [97, 98])) (.text [112, 228, 115, 115, 119, 111, 114, 100])
      = .ok (Spec.Formats.ascii "6UUiCVKJm6KdKRbB") := by decide +kernel

example : ciscoCalcChecksum Spec.MD5.md5 true 32 true (some (.bytes (Spec.Formats.ascii "user"))) (.bytes (Spec.Formats.ascii "0123456789abc"))
      = .ok (Spec.Formats.ascii "8Q/FZeam5ai1A47p") := by decide +kernel

-- `cisco_type7(salt=4)` on "pässword" (/tmp/repo_clean): "044BA8C21C325B411B1D"
example : (type7CalcChecksum 4 (.text [112, 228, 115, 115, 119, 111, 114, 100])).map (type7ToString 4)
    = .ok (Spec.Formats.ascii "044BA8C21C325B411B1D") := by decide +kernel

end Props.C02CodeIter
