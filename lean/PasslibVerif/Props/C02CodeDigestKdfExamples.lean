import PasslibVerif.Props.C02CodeDigestKdf
/-
C02, code level, group `Digest`, part 2: non-vacuity examples for Props/C02CodeDigestKdf.lean — each main theorem applied to a value
computed by the real code (/tmp/repo_clean), then the specification evaluated by the kernel (one PBKDF2 round: SHA-1 is slow there).
-/
namespace Props.C02CodeDigest
open Py Model.Code.Digest
open Spec.Formats hiding Bytes
open Model.Verify (Secret)
open Lemmas.C01Pbkdf (algSha1_ok)

/-- `pbkdf2_sha1(salt=b"\xffs\x00lt", rounds=1)._calc_checksum(b"p\xe4ss")`, `ab64_encode` of it -/
example : thenField (pbkdf2DigestCalc algSha1 (.bytes [0x70, 0xe4, 0x73, 0x73]) [0xff, 0x73, 0x00, 0x6c, 0x74] 1) ab64Field
    = .ok (ascii "6Gl2Z.4J8p1KFo9S2Wxoup9Q.jw") := by
  rw [pbkdf2_sha1_eq_spec _ _ _ (by decide) (by decide)]; decide +kernel

/-- `cta_pbkdf2_sha1(salt=b"\xffs\x00lt", rounds=1)._calc_checksum(b"p\xe4ss")`, `b64encode(…, b"-_")` of it -/
example : thenField (ctaCalc (.bytes [0x70, 0xe4, 0x73, 0x73]) [0xff, 0x73, 0x00, 0x6c, 0x74] 1) ctaField = .ok (ascii "6Gl2Z-4J8p1KFo9S2Wxoup9Q-jw=") := by
  rw [cta_eq_spec _ _ _ (by decide) (by decide)]; decide +kernel

/-- the hypotheses are satisfiable: (`N = 16`, `r = 1`, `p = 1`) is inside the theorem's domain -/
example : scryptCalc (.bytes []) [] 4 1 1 = .ok (Spec.Scrypt.scrypt [] [] 16 1 1 32) :=
  scrypt_calc_eq_spec [] [] 4 1 1 (by decide) (by decide) (by decide) (by decide) (by decide)

/-- `rounds = 0` (`N = 1`) is refused -/
example : scryptCalc (.bytes [1]) [2] 0 1 1 = .error .valueError := scrypt_calc_bad_params _ _ _ _ _ (by decide)

end Props.C02CodeDigest
