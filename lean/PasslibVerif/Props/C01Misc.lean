import PasslibVerif.Props.C01
import PasslibVerif.Lemmas.C01MiscFshp
import PasslibVerif.Lemmas.C01MiscScrypt
import PasslibVerif.Lemmas.C01MiscScram
import PasslibVerif.Lemmas.C08Crypt
/-
C01 instantiated end to end for the "Misc" family: fshp (variants 0–3), scrypt (`$scrypt$` and `$7$`), scram.
Hasher = the C07 model of `from_string` / `to_string` / `identify` + the checksum of the format's Lean specification
(Model/VerifyFmt/Misc.lean).  Per format: the format round-trips on every record `hash` can build (`X_roundtrips`), so whatever
`hash` returns verifies True for the same secret (`X_verifies_own_hash`), `hash` succeeds for every secret inside the size limit
(`X_hash_succeeds`), the result is identified (`X_identifies_own_hash`) and is the string the Spec defines (`X_hash_is_spec`).
-/
namespace Props.C01Misc
open Py Model.Handler Model.Formats Model.Verify Model.VerifyFmt.Misc Lemmas.FormatsMisc Lemmas.C01Misc Lemmas.C01MiscDigest Props.C01

/-! ### fshp — every variant 0…3, every raw salt (no size limit in the class), rounds 1 … 2^32-1 -/

theorem fshp_ignores_checksum : IgnoresChecksum fshpHasher := fun _ _ _ => rfl

theorem fshp_roundtrips (v : Nat) (hv : v < 4) (salt : Bytes) (hs : Bytes.WF salt) (r : Nat) (hr : 1 ≤ r ∧ r ≤ 4294967295) :
    RoundTrips fshpHasher (fshpSettings v salt r) := by
  intro b c hc
  have hc' : fshpKey v b salt r = .ok c := by rw [← fshpDigest_settings b v salt r none]; exact hc
  obtain ⟨c2, h2, hl, hw⟩ := fshpKey_props v hv b salt r hr.1
  rw [hc'] at h2; cases h2
  exact parseOf_renderOf fshp _ (fshp_roundtrip _ (fshpWF_of_key v hv salt hs r hr c hl hw))

/-- fshp: whatever `hash` returns for a secret verifies True for that secret -/
theorem fshp_verifies_own_hash (s : Secret) (v : Nat) (hv : v < 4) (salt : Bytes) (hsalt : Bytes.WF salt) (r : Nat)
    (hr : 1 ≤ r ∧ r ≤ 4294967295) (hs : Str) (hh : hashSecret fshpHasher s (fshpSettings v salt r) = .ok hs) :
    verify fshpHasher s hs = .ok true :=
  verify_own_hash _ s _ hs (fshp_roundtrips v hv salt hsalt r hr) fshp_ignores_checksum hh

/-- … verifying another secret answers exactly "the two keys are equal" -/
theorem fshp_verify_iff_key (s s' : Secret) (b b' : Bytes) (v : Nat) (hv : v < 4) (salt : Bytes) (hsalt : Bytes.WF salt) (r : Nat)
    (hr : 1 ≤ r ∧ r ≤ 4294967295) (hs : Str) (hh : hashSecret fshpHasher s (fshpSettings v salt r) = .ok hs)
    (hb : s.toBytes = .ok b) (hl' : s'.len ≤ MAX_PASSWORD_SIZE) (hb' : s'.toBytes = .ok b') :
    verify fshpHasher s' hs = .ok (decide (fshpKey v b' salt r = fshpKey v b salt r)) := by
  obtain ⟨c', hk', _, _⟩ := fshpKey_props v hv b' salt r hr.1
  have hv' : validateSecret s' = .ok () := by unfold validateSecret; simp; omega
  have hc' : checksumOf fshpHasher false s' (fshpSettings v salt r) = .ok c' := by
    unfold checksumOf checkNul
    simp only [hb']
    show fshpDigest b' { fshpSettings v salt r with checksum := none } = _
    rw [fshpDigest_settings, hk']
  obtain ⟨c, hc, hver⟩ := verify_of_hash fshpHasher s s' _ hs c' (fshp_roundtrips v hv salt hsalt r hr) fshp_ignores_checksum hh hv' hc'
  have hk : fshpKey v b salt r = .ok c := by
    unfold checksumOf checkTruncate checkNul at hc
    simp only [hb] at hc
    rw [← fshpDigest_settings b v salt r none]; exact hc
  rw [hver, hk, hk']
  congr 1
  by_cases h : c' = c <;> simp [h]

/-- … and `hash` does return for every secret inside the size limit that is encodable (NUL bytes are ordinary data for fshp) -/
theorem fshp_hash_succeeds (s : Secret) (b : Bytes) (v : Nat) (hv : v < 4) (salt : Bytes) (r : Nat) (hr : 1 ≤ r)
    (hl : s.len ≤ MAX_PASSWORD_SIZE) (hb : s.toBytes = .ok b) :
    ∃ hs, hashSecret fshpHasher s (fshpSettings v salt r) = .ok hs := by
  obtain ⟨c, hk, _, _⟩ := fshpKey_props v hv b salt r hr
  exact ⟨_, hashSecret_ok fshpHasher s _ b c rfl rfl hl hb (by rw [← fshpDigest_settings b v salt r none] at hk; exact hk)⟩

/-- the string `hash` returns is "{FSHP<variant>|<salt size>|<rounds>}" followed by what the Spec defines: base64(salt ‖ key) -/
theorem fshp_hash_is_spec (s : Secret) (v : Nat) (salt : Bytes) (r : Nat) (hs : Str)
    (hh : hashSecret fshpHasher s (fshpSettings v salt r) = .ok hs) :
    ∃ b data, s.toBytes = .ok b ∧ Spec.Formats.fshp v b salt r = some data ∧
      hs = FSHP_IDENT ++ (fmtDec (v : Int) ++ 124 :: (fmtDec (salt.length : Int) ++ 124 :: (fmtDec (r : Int) ++ 125 :: data))) := by
  obtain ⟨b, c, hb, hd, hr⟩ := hashSecret_shape _ _ _ _ hh
  have hk : fshpKey v b salt r = .ok c := by rw [← fshpDigest_settings b v salt r none]; exact hd
  refine ⟨b, _, hb, fshp_spec_of_key v b salt r c hk, ?_⟩
  rw [hr]
  simp [fshpHasher, renderOf, fshp, fshpRender, fshpSettings, extraNat, natField, List.find?]

/-- fshp identifies what it hashed -/
theorem fshp_identifies_own_hash (s : Secret) (v : Nat) (hv : v < 4) (salt : Bytes) (hsalt : Bytes.WF salt) (r : Nat)
    (hr : 1 ≤ r ∧ r ≤ 4294967295) (hs : Str) (hh : hashSecret fshpHasher s (fshpSettings v salt r) = .ok hs) :
    fshpIdentify hs = true := by
  obtain ⟨b, c, _, hd, hrd⟩ := hashSecret_shape _ _ _ _ hh
  have hk : fshpKey v b salt r = .ok c := by rw [← fshpDigest_settings b v salt r none]; exact hd
  obtain ⟨c2, h2, hl, hw⟩ := fshpKey_props v hv b salt r hr.1
  rw [hk] at h2; cases h2
  obtain ⟨str, hren, hid⟩ := fshp_identify_render _ (fshpWF_of_key v hv salt hsalt r hr c hl hw)
  have e : fshpHasher.render { fshpSettings v salt r with checksum := some c } = str :=
    renderOf_ok fshp { fshpSettings v salt r with checksum := some c } str hren
  rw [hrd, e]
  exact hid

/-- a real hash: `fshp.using(variant=1, salt=b"ab", rounds=2).hash("pw")` of /repo — the hypotheses hold and the model computes it -/
example : (1 < 4) ∧ Bytes.WF [97, 98] ∧ (1 ≤ 2 ∧ 2 ≤ 4294967295) ∧
    hashSecret fshpHasher (.text [112, 119]) (fshpSettings 1 [97, 98] 2) =
      .ok (ofString "{FSHP1|2|2}YWJpYlln5w9KZlF30tVFXa94Gyw4iHUPVnU1J+SSDdL/QQ==") ∧
    verify fshpHasher (.bytes [112, 119]) (ofString "{FSHP1|2|2}YWJpYlln5w9KZlF30tVFXa94Gyw4iHUPVnU1J+SSDdL/QQ==") = .ok true ∧
    verify fshpHasher (.text [112, 120]) (ofString "{FSHP1|2|2}YWJpYlln5w9KZlF30tVFXa94Gyw4iHUPVnU1J+SSDdL/QQ==") = .ok false := by
  refine ⟨by decide, by decide, by decide, by decide +kernel, by decide +kernel, by decide +kernel⟩

/-! ### scrypt, `$scrypt$ln=…,r=…,p=…$salt$key` — rounds (log2 N) 1…31, block_size ≥ 1, parallelism ≥ 1 with r·p ≤ 2^30-1 (what
    `using` / `validate` accept), every raw salt up to 1024 bytes.  `$7$`: the same with block_size, parallelism < 2^30 (five hash64
    digits each) and a salt of at most 1024 ASCII characters without `$` (the salt is written as is). -/

theorem scrypt_ignores_checksum : IgnoresChecksum scryptHasher := fun _ _ _ => rfl

/-- admissible cost parameters -/
structure ScryptCost (logN r p : Nat) : Prop where
  hN : 1 ≤ logN ∧ logN ≤ 31
  hr : 1 ≤ r
  hp : 1 ≤ p
  hrp : r * p ≤ SCRYPT_MAX_RP

instance (logN r p : Nat) : Decidable (ScryptCost logN r p) :=
  decidable_of_iff ((1 ≤ logN ∧ logN ≤ 31) ∧ 1 ≤ r ∧ 1 ≤ p ∧ r * p ≤ SCRYPT_MAX_RP)
    ⟨fun ⟨a, b, c, d⟩ => ⟨a, b, c, d⟩, fun ⟨a, b, c, d⟩ => ⟨a, b, c, d⟩⟩

/-- admissible `$7$` salt: ASCII, no `$`, at most 1024 characters -/
def Salt7OK (salt : Bytes) : Prop := (∀ x ∈ salt, x < 128) ∧ DOLLAR ∉ salt ∧ salt.length ≤ 1024

instance (salt : Bytes) : Decidable (Salt7OK salt) := by unfold Salt7OK; infer_instance

theorem rp_lt (r p : Nat) (hr : 1 ≤ r) (hp : 1 ≤ p) (h : r * p ≤ SCRYPT_MAX_RP) : r < 2 ^ 30 ∧ p < 2 ^ 30 := by
  have h1 : r * 1 ≤ r * p := Nat.mul_le_mul_left r hp
  have h2 : 1 * p ≤ r * p := Nat.mul_le_mul_right p hr
  have : SCRYPT_MAX_RP = 2 ^ 30 - 1 := rfl
  omega

theorem scrypt_roundtrips (salt : Bytes) (hs : Bytes.WF salt ∧ salt.length ≤ 1024) (logN r p : Nat) (hc : ScryptCost logN r p) :
    RoundTrips scryptHasher (scryptSettings false salt logN r p) := by
  intro b c hd
  have hk : scryptKey b salt logN r p = .ok c := by rw [← scryptDigest_settings b false salt logN r p none]; exact hd
  obtain ⟨h1, hl, hw⟩ := scryptKey_props b salt logN r p hc.hN.1 hc.hr hc.hp hc.hrp
  rw [hk] at h1; cases h1
  exact parseOf_renderOf scrypt _ (scrypt_roundtrip _ (scryptWF_of_key salt hs logN r p hc.hN hc.hr hc.hp _ hl hw))

theorem scrypt7_roundtrips (salt : Bytes) (hs : Salt7OK salt) (logN r p : Nat) (hc : ScryptCost logN r p) :
    RoundTrips scryptHasher (scryptSettings true salt logN r p) := by
  intro b c hd
  have hk : scryptKey b salt logN r p = .ok c := by rw [← scryptDigest_settings b true salt logN r p none]; exact hd
  obtain ⟨h1, hl, hw⟩ := scryptKey_props b salt logN r p hc.hN.1 hc.hr hc.hp hc.hrp
  rw [hk] at h1; cases h1
  have hlt := rp_lt r p hc.hr hc.hp hc.hrp
  exact parseOf_renderOf scrypt _ (scrypt7_roundtrip _ (scrypt7WF_of_key salt hs logN r p hc.hN ⟨hc.hr, hlt.1⟩ ⟨hc.hp, hlt.2⟩ _ hl hw))

/-- the settings `hash` can be given: either layout with its salt condition -/
def ScryptSaltOK (i7 : Bool) (salt : Bytes) : Prop := if i7 then Salt7OK salt else (Bytes.WF salt ∧ salt.length ≤ 1024)

instance (i7 : Bool) (salt : Bytes) : Decidable (ScryptSaltOK i7 salt) := by unfold ScryptSaltOK; split <;> infer_instance

theorem scrypt_roundtrips_both (i7 : Bool) (salt : Bytes) (hs : ScryptSaltOK i7 salt) (logN r p : Nat) (hc : ScryptCost logN r p) :
    RoundTrips scryptHasher (scryptSettings i7 salt logN r p) := by
  cases i7
  · exact scrypt_roundtrips salt (by simpa [ScryptSaltOK] using hs) logN r p hc
  · exact scrypt7_roundtrips salt (by simpa [ScryptSaltOK] using hs) logN r p hc

/-- scrypt (both layouts): whatever `hash` returns for a secret verifies True for that secret -/
theorem scrypt_verifies_own_hash (s : Secret) (i7 : Bool) (salt : Bytes) (hsalt : ScryptSaltOK i7 salt) (logN r p : Nat)
    (hc : ScryptCost logN r p) (hs : Str) (hh : hashSecret scryptHasher s (scryptSettings i7 salt logN r p) = .ok hs) :
    verify scryptHasher s hs = .ok true :=
  verify_own_hash _ s _ hs (scrypt_roundtrips_both i7 salt hsalt logN r p hc) scrypt_ignores_checksum hh

/-- … verifying another secret answers exactly "the two RFC 7914 keys are equal" -/
theorem scrypt_verify_iff_key (s s' : Secret) (b b' : Bytes) (i7 : Bool) (salt : Bytes) (hsalt : ScryptSaltOK i7 salt) (logN r p : Nat)
    (hc : ScryptCost logN r p) (hs : Str) (hh : hashSecret scryptHasher s (scryptSettings i7 salt logN r p) = .ok hs)
    (hb : s.toBytes = .ok b) (hl' : s'.len ≤ MAX_PASSWORD_SIZE) (hb' : s'.toBytes = .ok b') :
    verify scryptHasher s' hs =
      .ok (decide (Spec.Scrypt.scrypt b' salt (2 ^ logN) r p 32 = Spec.Scrypt.scrypt b salt (2 ^ logN) r p 32)) := by
  have hk' := (scryptKey_props b' salt logN r p hc.hN.1 hc.hr hc.hp hc.hrp).1
  have hk := (scryptKey_props b salt logN r p hc.hN.1 hc.hr hc.hp hc.hrp).1
  have hv' : validateSecret s' = .ok () := by unfold validateSecret; simp; omega
  have hc' : checksumOf scryptHasher false s' (scryptSettings i7 salt logN r p) = .ok (Spec.Scrypt.scrypt b' salt (2 ^ logN) r p 32) := by
    unfold checksumOf checkNul
    simp only [hb']
    show scryptDigest b' { scryptSettings i7 salt logN r p with checksum := none } = _
    rw [scryptDigest_settings, hk']
  obtain ⟨c, hcc, hver⟩ := verify_of_hash scryptHasher s s' _ hs _ (scrypt_roundtrips_both i7 salt hsalt logN r p hc)
    scrypt_ignores_checksum hh hv' hc'
  have hkc : scryptKey b salt logN r p = .ok c := by
    unfold checksumOf checkTruncate checkNul at hcc
    simp only [hb] at hcc
    rw [← scryptDigest_settings b i7 salt logN r p none]; exact hcc
  rw [hk] at hkc; cases hkc
  rw [hver]
  congr 1
  by_cases h : Spec.Scrypt.scrypt b' salt (2 ^ logN) r p 32 = Spec.Scrypt.scrypt b salt (2 ^ logN) r p 32 <;> simp [h]

/-- … and `hash` does return for every encodable secret inside the size limit (NUL bytes are ordinary data; no truncation) -/
theorem scrypt_hash_succeeds (s : Secret) (b : Bytes) (i7 : Bool) (salt : Bytes) (logN r p : Nat) (hc : ScryptCost logN r p)
    (hl : s.len ≤ MAX_PASSWORD_SIZE) (hb : s.toBytes = .ok b) :
    ∃ hs, hashSecret scryptHasher s (scryptSettings i7 salt logN r p) = .ok hs := by
  have hk := (scryptKey_props b salt logN r p hc.hN.1 hc.hr hc.hp hc.hrp).1
  exact ⟨_, hashSecret_ok scryptHasher s _ b _ rfl rfl hl hb (by rw [← scryptDigest_settings b i7 salt logN r p none] at hk; exact hk)⟩

/-- `$scrypt$`: the string `hash` returns is the settings followed by the checksum the Spec defines (`scryptPhc`) -/
theorem scrypt_hash_is_spec (s : Secret) (salt : Bytes) (logN r p : Nat) (hs : Str)
    (hh : hashSecret scryptHasher s (scryptSettings false salt logN r p) = .ok hs) :
    ∃ b, s.toBytes = .ok b ∧
      hs = IDENT_SCRYPT ++ (ofString "ln=" ++ fmtDec (logN : Int) ++ (ofString ",r=" ++ fmtDec (r : Int) ++ (ofString ",p=" ++ fmtDec (p : Int) ++
        DOLLAR :: (Model.B64.b64sEncode salt ++ DOLLAR :: Spec.Formats.scryptPhc b salt logN r p)))) := by
  obtain ⟨b, c, hb, hd, hr⟩ := hashSecret_shape _ _ _ _ hh
  have hk : scryptKey b salt logN r p = .ok c := by rw [← scryptDigest_settings b false salt logN r p none]; exact hd
  have hc := scryptKey_ok_eq b salt logN r p c hk
  refine ⟨b, hb, ?_⟩
  rw [hr, hc]
  simp [scryptHasher, renderOf, scrypt, scryptRender, scryptSettings, extraNat, scryptExtra, natField, List.find?,
    Spec.Formats.scryptPhc, Spec.Formats.b64NoPad, Model.B64.b64sEncode]

/-- `$7$`: N (one hash64 digit), r and p (five digits each, little endian), the salt as is, `$`, the checksum the Spec defines (`scrypt7`) -/
theorem scrypt7_hash_is_spec (s : Secret) (salt : Bytes) (hsalt : Salt7OK salt) (logN r p : Nat) (hc : ScryptCost logN r p) (hs : Str)
    (hh : hashSecret scryptHasher s (scryptSettings true salt logN r p) = .ok hs) :
    ∃ b, s.toBytes = .ok b ∧
      hs = IDENT_7 ++ ([Model.B64.encode64 Model.B64.h64.charmap logN] ++ (Model.B64.encodeInt Model.B64.h64 r 30 ++
        (Model.B64.encodeInt Model.B64.h64 p 30 ++ (salt ++ DOLLAR :: Spec.Formats.scrypt7 b salt logN r p)))) := by
  obtain ⟨b, c, hb, hd, hr⟩ := hashSecret_shape _ _ _ _ hh
  have hk : scryptKey b salt logN r p = .ok c := by rw [← scryptDigest_settings b true salt logN r p none]; exact hd
  have hce := scryptKey_ok_eq b salt logN r p c hk
  have hw := (scrypt_props b salt (2 ^ logN) r p 32).2
  refine ⟨b, hb, ?_⟩
  have hne : IDENT_7 ≠ IDENT_SCRYPT := by decide
  have hasc : mIsAscii salt = true := by
    unfold mIsAscii; rw [List.all_eq_true]; intro x hx; simpa using hsalt.1 x hx
  have hlt := rp_lt r p hc.hr hc.hp hc.hrp
  have hmax : Gen.B64.encode_int30_max = 2 ^ 30 - 1 := by decide
  have e6 : Model.B64.encodeInt6 Model.B64.h64 logN = .ok [Model.B64.encode64 Model.B64.h64.charmap logN] := by
    unfold Model.B64.encodeInt6; have : ¬ (logN > 63) := by have := hc.hN.2; omega
    simp [this]
  have eb : Model.B64.encodeInt30 Model.B64.h64 r = .ok (Model.B64.encodeInt Model.B64.h64 r 30) := by
    unfold Model.B64.encodeInt30; have : ¬ (r > Gen.B64.encode_int30_max) := by rw [hmax]; omega
    simp [this, Gen.B64.encode_int30_bits]
  have ep : Model.B64.encodeInt30 Model.B64.h64 p = .ok (Model.B64.encodeInt Model.B64.h64 p 30) := by
    unfold Model.B64.encodeInt30; have : ¬ (p > Gen.B64.encode_int30_max) := by rw [hmax]; omega
    simp [this, Gen.B64.encode_int30_bits]
  rw [hr, hce]
  unfold Spec.Formats.scrypt7
  rw [← h64_encode_eq_spec _ hw]
  have hnd : DOLLAR ∉ salt := hsalt.2.1
  simp [scryptHasher, renderOf, scrypt, scryptRender, scryptSettings, hne, extraNat, scryptExtra, natField, List.find?, hasc, e6, eb, ep, resBind, hnd]

/-- scrypt identifies what it hashed (either layout) -/
theorem scrypt_identifies_own_hash (s : Secret) (i7 : Bool) (salt : Bytes) (hsalt : ScryptSaltOK i7 salt) (logN r p : Nat)
    (hc : ScryptCost logN r p) (hs : Str) (hh : hashSecret scryptHasher s (scryptSettings i7 salt logN r p) = .ok hs) :
    Model.Formats.scryptIdentify hs = true := by
  obtain ⟨b, c, _, hd, hrd⟩ := hashSecret_shape _ _ _ _ hh
  have hk : scryptKey b salt logN r p = .ok c := by rw [← scryptDigest_settings b i7 salt logN r p none]; exact hd
  obtain ⟨h1, hl, hw⟩ := scryptKey_props b salt logN r p hc.hN.1 hc.hr hc.hp hc.hrp
  rw [hk] at h1; cases h1
  have hlt := rp_lt r p hc.hr hc.hp hc.hrp
  have hwf : ScryptWF { scryptSettings i7 salt logN r p with checksum := some (Spec.Scrypt.scrypt b salt (2 ^ logN) r p 32) } ∨
      Scrypt7WF { scryptSettings i7 salt logN r p with checksum := some (Spec.Scrypt.scrypt b salt (2 ^ logN) r p 32) } := by
    cases i7
    · exact Or.inl (scryptWF_of_key salt (by simpa [ScryptSaltOK] using hsalt) logN r p hc.hN hc.hr hc.hp _ hl hw)
    · exact Or.inr (scrypt7WF_of_key salt (by simpa [ScryptSaltOK, Salt7OK] using hsalt) logN r p hc.hN ⟨hc.hr, hlt.1⟩ ⟨hc.hp, hlt.2⟩ _ hl hw)
  obtain ⟨str, hren, hid⟩ := scrypt_identify_render _ hwf
  have e : scryptHasher.render { scryptSettings i7 salt logN r p with checksum := some (Spec.Scrypt.scrypt b salt (2 ^ logN) r p 32) } = str :=
    renderOf_ok scrypt { scryptSettings i7 salt logN r p with checksum := some (Spec.Scrypt.scrypt b salt (2 ^ logN) r p 32) } str hren
  rw [hrd, e]
  exact hid

/-- real hashes of /repo — `scrypt.using(salt=b"ab", rounds=1, block_size=1, parallelism=1).hash("pw")` in both layouts: the hypotheses
    hold on them (the strings themselves are compared through the compiled model in the correspondence run: evaluating Salsa20/8 in
    the kernel is too slow for `decide`) -/
example : ScryptSaltOK false [97, 98] ∧ ScryptSaltOK true [97, 98] ∧ ScryptCost 1 1 1 ∧ ScryptCost 4 2 2 ∧ ScryptCost 31 (2 ^ 15) (2 ^ 14) := by
  refine ⟨by decide, by decide, by decide, by decide, by decide⟩
example : Model.Formats.scryptIdentify (ofString "$scrypt$ln=1,r=1,p=1$YWI$ZGfst6dF2gC55C4amW5naWLSki7rCsqLaWVNvydepwI") = true ∧
    Model.Formats.scryptIdentify (ofString "$7$//..../....ab$YR4vrSOFO1EiYvW4NuqNd7aoGumu8cwWdJKHzSWLb8.") = true ∧
    (scryptHasher.parse (ofString "$7$//..../....ab$YR4vrSOFO1EiYvW4NuqNd7aoGumu8cwWdJKHzSWLb8.")).map (fun q => ({ q with checksum := none } : Parsed)) =
      .ok (scryptSettings true [97, 98] 1 1 1) := by
  refine ⟨by decide +kernel, by decide +kernel, by decide +kernel⟩

/-- `$7$` writes the salt as it is and `$` ends the salt field: a salt containing `$` is refused by `hash` (NotImplementedError, like a
    non-ASCII salt) instead of producing a string `verify` could not read back — the repaired behaviour (fix: commit in /repo; before it
    `scrypt.using(ident="$7$", salt=b"a$b", …).hash("pw")` returned `$7$//..../....a$b$zqsur…`, which `verify` rejected as malformed). -/
theorem scrypt7_dollar_salt_refused :
    ¬ Salt7OK [97, 36, 98] ∧
    scryptRender { scryptSettings true [97, 36, 98] 1 1 1 with checksum := some (List.replicate 32 0) } = .error .notImplemented := by
  refine ⟨by decide, by decide +kernel⟩

/-! ### scram — `verify` is the class's own (`scramVerify`, with the `full` flag); `prep` = SASLprep on the UTF-8 bytes of the secret is a
    parameter: every statement holds for EVERY such function (for the real one in particular; the compiled model runs the identity on
    printable ASCII, U+0020…U+007E, where SASLprep is the identity).  Settings: any sorted list of normalised names among md5, sha-1,
    sha-224, sha-256, sha-384, sha-512 that contains sha-1 (what `_norm_algs` returns inside the model's six digests), every raw salt up
    to 1024 bytes, rounds 1 … 2^32-1. -/

theorem scram_ignores_checksum (prep : Bytes → Res Bytes) : IgnoresChecksum (scramHasher prep) := fun _ _ _ => rfl

theorem scram_roundtrips (prep : Bytes → Res Bytes) (algs : List Str) (ha : ScramAlgsOK algs) (salt : Bytes)
    (hs : Bytes.WF salt ∧ salt.length ≤ 1024) (r : Nat) (hr : 1 ≤ r ∧ r ≤ 4294967295) :
    RoundTrips (scramHasher prep) (scramSettings algs salt r) := by
  intro b c hd
  have hd' : (scramKeys prep b salt r algs).map (scramChkEncode algs) = .ok c := by
    rw [← scramDigest_settings prep b algs ha salt r none]; exact hd
  cases hk : scramKeys prep b salt r algs with
  | error e => simp [hk, Except.map] at hd'
  | ok kvs =>
    simp only [hk, Except.map, Except.ok.injEq] at hd'
    subst hd'
    exact parseOf_renderOf scram _ (scram_roundtrip _ (scramWF_of_keys prep b algs ha salt hs r hr kvs hk))

/-- what a successful `hash` is, unfolded: the rendering of the settings with the digest map of the secret -/
theorem scram_hash_shape (prep : Bytes → Res Bytes) (s : Secret) (algs : List Str) (ha : ScramAlgsOK algs) (salt : Bytes) (r : Nat) (hs : Str)
    (hh : hashSecret (scramHasher prep) s (scramSettings algs salt r) = .ok hs) :
    ∃ b kvs, s.toBytes = .ok b ∧ scramKeys prep b salt r algs = .ok kvs ∧
      hs = renderOf scram { scramSettings algs salt r with checksum := some (scramChkEncode algs kvs) } := by
  obtain ⟨b, c, hb, hd, hrd⟩ := hashSecret_shape _ _ _ _ hh
  have hd' : (scramKeys prep b salt r algs).map (scramChkEncode algs) = .ok c := by
    rw [← scramDigest_settings prep b algs ha salt r none]; exact hd
  cases hk : scramKeys prep b salt r algs with
  | error e => simp [hk, Except.map] at hd'
  | ok kvs =>
    simp only [hk, Except.map, Except.ok.injEq] at hd'
    subst hd'
    exact ⟨b, kvs, hb, hk, hrd⟩

/-- scram: a record made by `hash` verifies its password — with the quick check (`full=False`) and with the complete one (`full=True`) -/
theorem scram_verifies_own_hash (prep : Bytes → Res Bytes) (full : Bool) (s : Secret) (algs : List Str) (ha : ScramAlgsOK algs) (salt : Bytes)
    (hsalt : Bytes.WF salt ∧ salt.length ≤ 1024) (r : Nat) (hr : 1 ≤ r ∧ r ≤ 4294967295) (hs : Str)
    (hh : hashSecret (scramHasher prep) s (scramSettings algs salt r) = .ok hs) :
    scramVerify prep full s hs = .ok true := by
  obtain ⟨b, kvs, hb, hk, hrd⟩ := scram_hash_shape prep s algs ha salt r hs hh
  obtain ⟨hn, hkeys⟩ := scramKeys_ok prep b salt r algs kvs hk
  have hparse : parseOf scram hs = .ok { scramSettings algs salt r with checksum := some (scramChkEncode algs kvs) } := by
    rw [hrd]; exact parseOf_renderOf scram _ (scram_roundtrip _ (scramWF_of_keys prep b algs ha salt hsalt r hr kvs hk))
  have hdec : scramChkDecode (scramAlgs { scramSettings algs salt r with checksum := some (scramChkEncode algs kvs) }) (scramChkEncode algs kvs) = kvs := by
    rw [scramAlgs_settings algs ha salt r _]; exact scramChk_decode_encode algs ha kvs hn
  have hne : kvs.isEmpty = false := by
    cases kvs with
    | nil => exact absurd hn.symm ha.ne
    | cons _ _ => rfl
  unfold scramVerify
  simp only [hashSecret_valid _ _ _ _ hh, hparse, hdec, hne, Bool.false_eq_true, if_false, hb]
  cases full
  · -- full = False: the deciding digest is an entry of the map, hence the key of its alg
    have hsha : SHA1 ∈ kvs.map (·.1) := by rw [hn]; exact ha.sha1
    obtain ⟨a, d, hdd⟩ := scramDeciding_some kvs hsha
    have hmem := (scramDeciding_mem kvs a d hdd).1
    have := hkeys (a, d) hmem
    simp only [scramSettings, Option.getD_some, Int.toNat_natCast] at this ⊢
    simp [hdd, this, Except.map]
  · -- full = True: every entry matches
    simp only [scramSettings, Option.getD_some, Int.toNat_natCast, if_true]
    rw [fullLoop_all_match prep b salt r kvs false hkeys]
    simp [hne]

/-- … and `hash` does return, for every secret inside the size limit whose normalisation succeeds -/
theorem scram_hash_succeeds (prep : Bytes → Res Bytes) (s : Secret) (b nb : Bytes) (algs : List Str) (ha : ScramAlgsOK algs) (salt : Bytes)
    (r : Nat) (hr : 1 ≤ r) (hl : s.len ≤ MAX_PASSWORD_SIZE) (hb : s.toBytes = .ok b) (hp : prep b = .ok nb) :
    ∃ hs, hashSecret (scramHasher prep) s (scramSettings algs salt r) = .ok hs := by
  obtain ⟨kvs, hk⟩ := scramKeys_exists prep b nb salt r hp hr algs ha.six
  refine ⟨_, hashSecret_ok (scramHasher prep) s _ b (scramChkEncode algs kvs) rfl rfl hl hb ?_⟩
  show scramDigest prep b { scramSettings algs salt r with checksum := none } = _
  rw [scramDigest_settings prep b algs ha salt r none, hk]; rfl

/-- scram identifies what it hashed -/
theorem scram_identifies_own_hash (prep : Bytes → Res Bytes) (s : Secret) (algs : List Str) (ha : ScramAlgsOK algs) (salt : Bytes)
    (hsalt : Bytes.WF salt ∧ salt.length ≤ 1024) (r : Nat) (hr : 1 ≤ r ∧ r ≤ 4294967295) (hs : Str)
    (hh : hashSecret (scramHasher prep) s (scramSettings algs salt r) = .ok hs) : scram.identify hs = true := by
  obtain ⟨b, kvs, hb, hk, hrd⟩ := scram_hash_shape prep s algs ha salt r hs hh
  obtain ⟨str, hren, hid⟩ := scram_identify_render _ (scramWF_of_keys prep b algs ha salt hsalt r hr kvs hk)
  rw [hrd, renderOf_ok scram { scramSettings algs salt r with checksum := some (scramChkEncode algs kvs) } str hren]
  exact hid

/-- which digest decides a quick verification: the first of sha-256, sha-512, sha-224, sha-384, sha-1 the record has — alone.  For every
    string the parser accepts: the answer is "the recomputed key of that digest equals the stored one", the other digests are not looked at. -/
theorem scram_quick_verify_decided_by (prep : Bytes → Res Bytes) (s : Secret) (b : Bytes) (hs : Str) (p : Parsed) (enc : Str) (a : Str) (d : Bytes)
    (hv : s.len ≤ MAX_PASSWORD_SIZE) (hb : s.toBytes = .ok b) (hp : parseOf scram hs = .ok p) (hc : p.checksum = some enc)
    (hd : scramDeciding (scramChkDecode (scramAlgs p) enc) = some (a, d)) :
    scramVerify prep false s hs = (scramKey prep a b (p.salt.getD []) (p.rounds.getD 0).toNat).map (· == d) ∧
    (a, d) ∈ scramChkDecode (scramAlgs p) enc ∧ a ∈ scramVerifyAlgs := by
  have hv' : validateSecret s = .ok () := by unfold validateSecret; simp; omega
  have hne : (scramChkDecode (scramAlgs p) enc).isEmpty = false := by
    have := (scramDeciding_mem _ a d hd).1
    cases hl : scramChkDecode (scramAlgs p) enc with
    | nil => rw [hl] at this; cases this
    | cons _ _ => rfl
  refine ⟨?_, scramDeciding_mem _ a d hd⟩
  unfold scramVerify
  simp only [hv', hp, hc, hne, Bool.false_eq_true, if_false, hb, hd]

/-- a complete verification (`full=True`) of a record with inconsistent digests raises a value error: all stored digests recomputable,
    one equal to its recomputed key and another not (different bytes or a different size) — whatever their order in the record -/
theorem scram_full_verify_inconsistent_raises (prep : Bytes → Res Bytes) (s : Secret) (b : Bytes) (hs : Str) (p : Parsed) (enc : Str)
    (hv : s.len ≤ MAX_PASSWORD_SIZE) (hb : s.toBytes = .ok b) (hp : parseOf scram hs = .ok p) (hc : p.checksum = some enc)
    (hall : ∀ kv ∈ scramChkDecode (scramAlgs p) enc, ∃ k, scramKey prep kv.1 b (p.salt.getD []) (p.rounds.getD 0).toNat = .ok k)
    (hgood : ∃ kv ∈ scramChkDecode (scramAlgs p) enc, scramKey prep kv.1 b (p.salt.getD []) (p.rounds.getD 0).toNat = .ok kv.2)
    (hbad : ∃ kv ∈ scramChkDecode (scramAlgs p) enc, ∃ k, scramKey prep kv.1 b (p.salt.getD []) (p.rounds.getD 0).toNat = .ok k ∧ k ≠ kv.2) :
    scramVerify prep true s hs = .error .valueError := by
  have hv' : validateSecret s = .ok () := by unfold validateSecret; simp; omega
  have hne : (scramChkDecode (scramAlgs p) enc).isEmpty = false := by
    obtain ⟨kv, hm, _⟩ := hgood
    cases hl : scramChkDecode (scramAlgs p) enc with
    | nil => rw [hl] at hm; cases hm
    | cons _ _ => rfl
  unfold scramVerify
  simp only [hv', hp, hc, hne, Bool.false_eq_true, if_false, hb, if_true]
  exact fullLoop_inconsistent prep b _ _ _ false false hall (Or.inr hgood) (Or.inr hbad)

/-- a config string (alg names without digests) is a value error for `verify`, quick or complete -/
theorem scram_config_string_is_value_error (prep : Bytes → Res Bytes) (full : Bool) (s : Secret) (hs : Str) (p : Parsed)
    (hv : s.len ≤ MAX_PASSWORD_SIZE) (hp : parseOf scram hs = .ok p) (hc : p.checksum = none) :
    scramVerify prep full s hs = .error .valueError := by
  have hv' : validateSecret s = .ok () := by unfold validateSecret; simp; omega
  unfold scramVerify
  simp only [hv', hp, hc]

/-- `extract_digest_info(hash, alg)` on a record made by `hash`: the salt, the rounds and `derive_digest(secret, salt, rounds, alg)` -/
theorem scram_extract_digest_info_own_hash (prep : Bytes → Res Bytes) (s : Secret) (algs : List Str) (ha : ScramAlgsOK algs) (salt : Bytes)
    (hsalt : Bytes.WF salt ∧ salt.length ≤ 1024) (r : Nat) (hr : 1 ≤ r ∧ r ≤ 4294967295) (hs : Str)
    (hh : hashSecret (scramHasher prep) s (scramSettings algs salt r) = .ok hs) (alg a : Str) (hn : normIana alg = .ok a) (hmem : a ∈ algs) :
    ∃ b k, s.toBytes = .ok b ∧ scramKey prep a b salt r = .ok k ∧ scramExtractDigestInfo hs alg = .ok (salt, r, k) := by
  obtain ⟨b, kvs, hb, hk, hrd⟩ := scram_hash_shape prep s algs ha salt r hs hh
  obtain ⟨hnames, hkeys⟩ := scramKeys_ok prep b salt r algs kvs hk
  have hparse : parseOf scram hs = .ok { scramSettings algs salt r with checksum := some (scramChkEncode algs kvs) } := by
    rw [hrd]; exact parseOf_renderOf scram _ (scram_roundtrip _ (scramWF_of_keys prep b algs ha salt hsalt r hr kvs hk))
  have hdec : scramChkDecode (scramAlgs { scramSettings algs salt r with checksum := some (scramChkEncode algs kvs) }) (scramChkEncode algs kvs) = kvs := by
    rw [scramAlgs_settings algs ha salt r _]; exact scramChk_decode_encode algs ha kvs hnames
  have hne : kvs.isEmpty = false := by
    cases kvs with
    | nil => exact absurd hnames.symm ha.ne
    | cons _ _ => rfl
  rw [← hnames] at hmem
  obtain ⟨kv, hkv, hkv1⟩ := List.mem_map.1 hmem
  have hpw : (kvs.map (·.1)).Pairwise (· ≠ ·) := by rw [hnames]; exact sorted_ne _ ha.sorted
  have hfind := find_self kvs hpw kv hkv
  rw [hkv1] at hfind
  refine ⟨b, kv.2, hb, by rw [← hkv1]; exact hkeys kv hkv, ?_⟩
  unfold scramExtractDigestInfo
  simp only [hn, resBind, hparse, hdec, hne, Bool.false_eq_true, if_false, hfind]
  simp [scramSettings]


/-- the string `hash` returns: `$scram$<rounds>$<ab64 salt>$` and, per alg in order, `<alg>=<Spec.Formats.scramDigest of the normalised secret>` -/
theorem scram_hash_is_spec (prep : Bytes → Res Bytes) (s : Secret) (algs : List Str) (ha : ScramAlgsOK algs) (salt : Bytes) (r : Nat) (hs : Str)
    (hh : hashSecret (scramHasher prep) s (scramSettings algs salt r) = .ok hs) :
    ∃ b nb, s.toBytes = .ok b ∧ prep b = .ok nb ∧ ∃ ds : List Str,
      hs = SCRAM_IDENT ++ (fmtDec (r : Int) ++ DOLLAR :: (Model.B64.ab64Encode salt ++ DOLLAR :: joinChar 44 ((algs.zip ds).map fun ad => ad.1 ++ 61 :: ad.2))) ∧
      ds.length = algs.length ∧
      ∀ ad ∈ algs.zip ds, ∃ alg, scramAlg ad.1 = some alg ∧ ad.2 = Spec.Formats.scramDigest alg nb salt r := by
  obtain ⟨b, kvs, hb, hk, hrd⟩ := scram_hash_shape prep s algs ha salt r hs hh
  obtain ⟨hn, hkeys⟩ := scramKeys_ok prep b salt r algs kvs hk
  -- the normalised secret exists because at least the sha-1 key was computed
  have hne : kvs ≠ [] := by intro e; subst e; exact ha.ne hn.symm
  obtain ⟨kv0, hkv0⟩ := List.exists_mem_of_ne_nil kvs hne
  obtain ⟨nb, _, hnb, _, _⟩ := scramKey_is_spec prep kv0.1 b salt r kv0.2 (hkeys kv0 hkv0)
  refine ⟨b, nb, hb, hnb, kvs.map (fun kv => Model.B64.ab64Encode kv.2), ?_, by rw [List.length_map, ← hn, List.length_map], ?_⟩
  · rw [hrd]
    have hdec : scramChkDecode (scramAlgs { scramSettings algs salt r with checksum := some (scramChkEncode algs kvs) }) (scramChkEncode algs kvs) = kvs := by
      rw [scramAlgs_settings algs ha salt r _]; exact scramChk_decode_encode algs ha kvs hn
    have hzip : (algs.zip (kvs.map fun kv => Model.B64.ab64Encode kv.2)).map (fun ad => ad.1 ++ 61 :: ad.2) =
        kvs.map (fun kv => kv.1 ++ 61 :: Model.B64.ab64Encode kv.2) := by
      rw [← hn, zip_map_same, List.map_map]
      rfl
    rw [hzip]
    have : renderOf scram { scramSettings algs salt r with checksum := some (scramChkEncode algs kvs) } =
        SCRAM_IDENT ++ (fmtDec (r : Int) ++ DOLLAR :: (Model.B64.ab64Encode salt ++ DOLLAR ::
          joinChar 44 ((scramChkDecode (scramAlgs { scramSettings algs salt r with checksum := some (scramChkEncode algs kvs) }) (scramChkEncode algs kvs)).map
            fun (a, d) => a ++ 61 :: Model.B64.ab64Encode d))) := rfl
    rw [this, hdec]
  · intro ad had
    rw [← hn, zip_map_same] at had
    obtain ⟨kv, hkv, e⟩ := List.mem_map.1 had
    subst e
    obtain ⟨nb', alg, hnb', halg, hd⟩ := scramKey_is_spec prep kv.1 b salt r kv.2 (hkeys kv hkv)
    rw [hnb] at hnb'; cases hnb'
    exact ⟨alg, halg, hd⟩

/-! ### C08 (a) for the two formats whose `verify` is the generic one: a made hash with an altered checksum never verifies -/
theorem fshp_altered_checksum_never_verifies (s : Secret) (v : Nat) (hv : v < 4) (salt : Bytes) (hsalt : Bytes.WF salt) (r : Nat)
    (hr : 1 ≤ r ∧ r ≤ 4294967295) (hs hs' c' : Str) (hh : hashSecret fshpHasher s (fshpSettings v salt r) = .ok hs)
    (hp' : fshpHasher.parse hs' = .ok { fshpSettings v salt r with checksum := some c' }) (hne : fshpHasher.parse hs' ≠ fshpHasher.parse hs) :
    verify fshpHasher s hs' = .ok false :=
  Lemmas.C08Crypt.altered_checksum_of_hash _ s _ hs hs' c' (fshp_roundtrips v hv salt hsalt r hr) fshp_ignores_checksum hh hp' hne

theorem scrypt_altered_checksum_never_verifies (s : Secret) (i7 : Bool) (salt : Bytes) (hsalt : ScryptSaltOK i7 salt) (logN r p : Nat)
    (hc : ScryptCost logN r p) (hs hs' c' : Str) (hh : hashSecret scryptHasher s (scryptSettings i7 salt logN r p) = .ok hs)
    (hp' : scryptHasher.parse hs' = .ok { scryptSettings i7 salt logN r p with checksum := some c' })
    (hne : scryptHasher.parse hs' ≠ scryptHasher.parse hs) : verify scryptHasher s hs' = .ok false :=
  Lemmas.C08Crypt.altered_checksum_of_hash _ s _ hs hs' c' (scrypt_roundtrips_both i7 salt hsalt logN r p hc) scrypt_ignores_checksum hh hp' hne

/-- a real hash: `scram.using(algs="sha-1,sha-256", salt=b"ab", rounds=2).hash("pw")` of /repo — the hypotheses of the theorems hold for its
    settings, the string parses to exactly those settings, is identified, and sha-256 is its deciding digest.  (The string itself, and the
    verification answers on it and on its tampered variants, are compared through the compiled model in the correspondence run —
    `REAL_SCRAM` in tools/corr/c01_misc.py: evaluating PBKDF2-HMAC in the kernel takes minutes.) -/
def realScram : Str := ofString "$scram$2$YWI$sha-1=z4BT88hOol4pDIMpScOp2qAnOBE,sha-256=xAkXXeqBnPJpY3DHQ3Dk1Mu.fHQm17FeR0d/CVU6I0M"

example : ScramAlgsOK [ofString "sha-1", ofString "sha-256"] ∧ (Bytes.WF [97, 98] ∧ [97, 98].length ≤ 1024) ∧ (1 ≤ 2 ∧ 2 ≤ 4294967295) :=
  ⟨⟨by unfold Sorted; decide, by decide, by decide⟩, by decide, by decide⟩

example : (parseOf scram realScram).map (fun q => ({ q with checksum := none } : Parsed)) = .ok (scramSettings [ofString "sha-1", ofString "sha-256"] [97, 98] 2) ∧
    scram.identify realScram = true ∧
    ((parseOf scram realScram).map fun q => (scramDeciding (scramChkDecode (scramAlgs q) (q.checksum.getD []))).map (·.1)) = .ok (some (ofString "sha-256")) := by
  refine ⟨by decide +kernel, by decide +kernel, by decide +kernel⟩
end Props.C01Misc
