import PasslibVerif.Props.C04StrExamples
/-
Non-vacuity of Props/C04Str.lean, part (B): verify_and_update evaluated end to end on real des_crypt / pbkdf2_sha256 hashes
(separate file: the kernel evaluation of PBKDF2-HMAC-SHA256 takes about ten seconds per call).
-/
namespace Props.C04StrExamples
open Py Model.Handler Model.Formats Model.Verify Model.Rounds Model.Context Model.ContextStr Model.VerifyCrypt
open Lemmas.Context Lemmas.Rounds Lemmas.ContextStr Props.C01 Props.C04Str

/-! ### (B) des_crypt → pbkdf2_sha256, evaluated end to end on real hashes -/
def cfgB : Cfg :=
  ⟨[pbkdf2Info, desInfo], [], [(none, ["auto"])], [(("pbkdf2_sha256", none), [("default_rounds", .rounds (.int 1))])]⟩

def realDes : Str := ofString "abzlUXK5ed5rs"
def realPbkdf2 : Str := ofString "$pbkdf2-sha256$1$MDEyMzQ1Njc4OWFiY2RlZg$miV12U28oLmGnCgxeNLhW0itUOzTifJEjH82QZpDV6g"
def salt16 : Str := ofString "0123456789abcdef"

/-- `des_crypt.using(salt="ab").hash("pw")` is what the des_crypt model makes: the hypothesis `hh` of the vau theorems on a real hash -/
example : hashSecret desEntry.hasher pw (desEntry.settings (ofString "ab") none) = .ok realDes ∧ saltOK "des_crypt" (ofString "ab") = true ∧
    cfgOver cfgB = true := by
  refine ⟨by decide +kernel, by decide, by decide⟩

/-- (True, new): `new` is the string `pbkdf2_sha256.using(salt=b"0123456789abcdef", rounds=1).hash("pw")` of the real code -/
example : vauStr cfgB none 0 0 salt16 pw realDes = .ok (true, some realPbkdf2) := by decide +kernel

/-- (False, None) for another password; (True, None) on the replacement: the fixed point after one step -/
example : vauStr cfgB none 0 0 salt16 (.text (ofString "wrong")) realDes = .ok (false, none) ∧
    vauStr cfgB none 5 0 salt16 pw realPbkdf2 = .ok (true, none) ∧ needsUpdateStr cfgB realPbkdf2 none = .ok false ∧
    needsUpdateStr cfgB realDes none = .ok true := by
  refine ⟨by decide +kernel, by decide +kernel, by decide +kernel, by decide +kernel⟩

end Props.C04StrExamples
