import PasslibVerif.Lemmas.CtxKey
import PasslibVerif.Lemmas.Context
/-
C10 — Context config survives export/import; a failed change changes nothing.
-/
namespace Props.C10
open Py Model.CtxKey Lemmas.CtxKey

def str (s : String) : Str := s.toList.map Char.toNat

/-! ### keys: rendering then parsing is the identity -/
theorem parse_render_key (k : Key) (hk : KeyOK k) : parseKey (renderKey k) = .ok k := Lemmas.CtxKey.parse_render_key k hk

/-- keys with more than two separators, or with an empty part, are type errors -/
theorem malformed_keys :
    parseKey (str "a__b__c__d") = .error .typeError ∧
    parseKey (str "__x") = .error .typeError ∧
    parseKey (str "a__") = .error .typeError ∧
    parseKey (str "") = .error .typeError := by decide

/-- '.' is an alternative separator; "default" and "context" are the spelled-out defaults -/
theorem key_aliases :
    parseKey (str "admin.sha256_crypt.min_rounds") = parseKey (str "admin__sha256_crypt__min_rounds") ∧
    parseKey (str "default__context__schemes") = parseKey (str "schemes") := by decide

/-! ### update(): replaces exactly the given keys -/
theorem update_empty {β} (old : List (Key × β)) : updateItems old [] = old := rfl

theorem update_keeps_others {β} (k : Key) (new old : List (Key × β)) (h : ∀ p ∈ new, p.1 ≠ k) :
    lookupK k (updateItems old new) = lookupK k old := Lemmas.CtxKey.update_keeps_others k new old h

theorem update_sets_given {β} (k : Key) (v : β) (pre new old : List (Key × β)) (hrest : ∀ p ∈ new, p.1 ≠ k) :
    lookupK k (updateItems old (pre ++ (k, v) :: new)) = some v := Lemmas.CtxKey.update_sets_last k v new old hrest pre

/-! ### a failed load / update leaves the context untouched -/

/-- In `CryptContext.load` (statement skeleton regenerated from the source on every run) no statement that
    may raise follows the first statement that writes to `self`: everything fallible — parsing, merging,
    building and validating the new `_CryptConfig`, every hasher customisation — happens on locals first. -/
def noRaiseAfterFirstWrite : List (String × Bool × Bool) → Bool
  | [] => true
  | (_, writes, _) :: rest => if writes then rest.all (fun s => !s.2.2) else noRaiseAfterFirstWrite rest

theorem load_steps_safe : noRaiseAfterFirstWrite Gen.Ctx.loadSteps = true := by decide

/-- … and the writes are there at all (the skeleton is not vacuous): the new config is installed last -/
theorem load_installs_config : (Gen.Ctx.loadSteps.filter (·.2.1)).map (·.1) =
    ["assign self._config", "call self._reset_dummy_verify()", "assign self._get_record", "assign self._identify_record",
     "call self.__dict__.pop('_strip_unused_context_kwds', None)", "assign self._strip_unused_context_kwds"] := by decide

/-- the model's load: build first, swap on success -/
def load {Cfg Src} (build : Src → Res Cfg) (cur : Cfg) (src : Src) : Cfg × Bool :=
  match build src with
  | .ok c => (c, true)
  | .error _ => (cur, false)

theorem load_atomic_model {Cfg Src} (build : Src → Res Cfg) (cur : Cfg) (src : Src) (e : ErrKind) (h : build src = .error e) :
    (load build cur src).1 = cur := by unfold load; rw [h]

/-- a salt can never be pinned through a configuration (C06) -/
theorem forbidden_options : Gen.Ctx.forbiddenSchemeOptions = ["salt"] := by decide

theorem salt_option_refused (c : Model.Context.Cfg)
    (h : c.opts.any (fun e => e.2.any (fun p => p.1 = "salt")) = true) : Model.Context.validate c = .error .keyError := by
  unfold Model.Context.validate; simp [h]

/-! non-vacuity -/
example : KeyOK ⟨some (str "admin"), some (str "sha256_crypt"), (str "min_rounds")⟩ := by
  refine ⟨⟨by decide, by decide, by decide, by decide⟩, ?_, ?_⟩
  · intro c hc; cases hc; exact ⟨⟨by decide, by decide, by decide, by decide⟩, by decide⟩
  · intro s hs; cases hs; exact ⟨⟨by decide, by decide, by decide, by decide⟩, by decide⟩

end Props.C10
