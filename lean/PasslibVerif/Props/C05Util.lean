import PasslibVerif.Lemmas.PyUtilUtf8
/-
C03 / C05 — the byte/text helpers under the crypt() back ends (Model/PyUtil.lean = passlib/utils/__init__.py:
repeat_string, utf8_repeat_string, utf8_truncate, safe_crypt, test_crypt), for ALL inputs and for EVERY crypt().

FALSE as asked, kept as a counterexample: "a NUL anywhere in a bytes secret ⇒ ValueError" — for bytes that are not UTF-8 the decode
fails first and safe_crypt returns None (`safe_crypt_refuses_nul_bytes_counterexample`: b"\xff\x00").  What holds: ValueError
for text and for UTF-8 bytes, and crypt() is never called with any secret holding a NUL (`safe_crypt_nul_never_calls`).
-/
namespace Props.C05Util
open Py Model.PyUtil Lemmas.PyUtil
open Model.TotpSerial (utf8Encode utf8Decode isCont isScalar)
open Lemmas.TotpSerial (utf8_roundtrip)

/-! ## repeat_string -/

/-- an empty source is a ZeroDivisionError, whatever the size -/
theorem repeat_string_empty_source (n : Int) : repeatString [] n = .error .zeroDivisionError := rfl

/-- `repeat_string_spec`: for a non-empty source (str or bytes) and a size n ≥ 0 the result has length exactly n and its i-th
    element is `source[i mod len(source)]` -/
theorem repeat_string_spec (s : List Nat) (n : Nat) (hs : s ≠ []) :
    ∃ r, repeatString s (n : Int) = .ok r ∧ r.length = n ∧ ∀ i, i < n → r[i]? = s[i % s.length]? := by
  have hL : 0 < s.length := List.length_pos_iff.mpr hs
  have hne : ¬ (s.length = 0) := by omega
  unfold repeatString
  simp only [hne, if_false]
  refine ⟨_, rfl, ?_⟩
  cases n with
  | zero => simp [pySliceTo]
  | succ k =>
    rw [mult_cast k s.length]
    have hlen := pyMul_length s (1 + k / s.length)
    have hle := le_mult_mul k s.length hL
    have hneg : ¬ (((k + 1 : Nat) : Int) < 0) := by omega
    simp only [pySliceTo, hneg, if_false, Int.toNat_natCast]
    refine ⟨by rw [List.length_take, hlen]; omega, ?_⟩
    intro i hi
    rw [List.getElem?_take_of_lt hi, pyMul_getElem? s _ i (by omega)]

/-- sizes ≤ 0 give the empty string -/
theorem repeat_string_nonpos (s : List Nat) (n : Int) (hs : s ≠ []) (hn : n ≤ 0) : repeatString s n = .ok [] := by
  have hL : 0 < s.length := List.length_pos_iff.mpr hs
  have hne : ¬ (s.length = 0) := by omega
  unfold repeatString
  simp only [hne, if_false]
  have hm : (1 + (n - 1) / (s.length : Int)).toNat = 0 := by
    have : (n - 1) / (s.length : Int) < 0 := Int.ediv_neg_of_neg_of_pos (by omega) (by omega)
    omega
  have : pyMul s (1 + (n - 1) / (s.length : Int)) = [] := by unfold pyMul; rw [hm]; rfl
  rw [this]; simp [pySliceTo]

example : repeatString [195, 169, 226, 130, 172] 8 = .ok [195, 169, 226, 130, 172, 195, 169, 226] := by decide
example : repeatString [97, 98, 99] (-2) = .ok [] := by decide
example : repeatString [233, 8364] 5 = .ok [233, 8364, 233, 8364, 233] := by decide

/-! ## utf8_truncate -/

/-- the index after `if index < 0: index = max(0, index + end)` -/
def normIndex (len : Nat) (index : Int) : Nat := (if index < 0 then max 0 (index + (len : Int)) else index).toNat

/-- an index at or beyond the end returns the source unchanged -/
theorem utf8_truncate_beyond (src : Bytes) (i : Nat) (h : src.length ≤ i) : utf8TruncateNat src i = src := by
  simp [utf8TruncateNat, h]

/-- utf8_truncate never raises on bytes (its `assert sanity_check()` cannot fire, for valid and for invalid UTF-8 alike) and
    returns `source[:m]` for the scanned position m -/
theorem utf8_truncate_total (src : Bytes) (index : Int) :
    utf8Truncate (.bytes src) index = .ok (utf8TruncateNat src (normIndex src.length index)) := by
  unfold utf8Truncate
  simp only
  generalize hidx : (if index < 0 then max 0 (index + (src.length : Int)) else index) = idx
  have hnorm : normIndex src.length index = idx.toNat := by unfold normIndex; rw [hidx]
  rw [hnorm]
  by_cases h : idx ≥ (src.length : Int)
  · simp only [h, if_true]
    rw [utf8_truncate_beyond src _ (by omega)]
  · simp only [h, if_false]
    rw [sanity_ok]; simp

/-- a `str` argument is a TypeError (ExpectedTypeError) -/
theorem utf8_truncate_text (s : Str) (index : Int) : utf8Truncate (.text s) index = .error .typeError := rfl

/-- for ALL byte strings: the result is the prefix `source[:m]` with  min(i, len) ≤ m ≤ min(i + 3, len),
    i the (normalised) index -/
theorem utf8_truncate_prefix_bounds (src : Bytes) (i : Nat) :
    ∃ m, utf8TruncateNat src i = src.take m ∧ min i src.length ≤ m ∧ m ≤ min (i + 3) src.length := by
  unfold utf8TruncateNat
  by_cases h : i ≥ src.length
  · exact ⟨src.length, by simp [h], by omega, by omega⟩
  · simp only [h, if_false]
    have := (contRun_le (min (i + 3) src.length - i) (List.drop i src)).1
    exact ⟨_, rfl, by omega, by omega⟩

/-- for ALL byte strings (valid UTF-8 or not), what the code guarantees: the bytes kept beyond the index are continuation bytes
    (`b & 0xC0 == 0x80`), and the cut is at index+3, at the end of the string, or in front of a non-continuation byte -/
theorem utf8_truncate_scan (src : Bytes) (i : Nat) (h : i < src.length) :
    ∃ m, utf8TruncateNat src i = src.take m ∧ i ≤ m ∧ m ≤ min (i + 3) src.length ∧
      (∀ b ∈ (src.take m).drop i, notContByte b = false) ∧
      (m = i + 3 ∨ m = src.length ∨ ∃ b, src[m]? = some b ∧ notContByte b = true) := by
  unfold utf8TruncateNat
  have hn : ¬ (i ≥ src.length) := by omega
  simp only [hn, if_false]
  have hle0 := (contRun_le (min (i + 3) src.length - i) (List.drop i src)).1
  refine ⟨_, rfl, by omega, by omega, ?_, ?_⟩
  · intro b hb
    rw [List.drop_take] at hb
    simp only [Nat.add_sub_cancel_left] at hb
    exact contRun_all _ _ b hb
  · have hle := contRun_le (min (i + 3) src.length - i) (List.drop i src)
    rcases contRun_stop (min (i + 3) src.length - i) (List.drop i src) with e | e | ⟨b, e1, e2⟩
    · by_cases h3 : i + 3 ≤ src.length
      · left; omega
      · right; left; omega
    · right; left; rw [e, List.length_drop]; omega
    · right; right; exact ⟨b, by rw [List.getElem?_drop] at e1; exact e1, e2⟩

/-- an index in front of a non-continuation byte is a cut position: the result is exactly `source[:index]` -/
theorem utf8_truncate_on_boundary (src : Bytes) (i b : Nat) (h : src[i]? = some b) (hb : notContByte b = true) :
    utf8TruncateNat src i = src.take i := by
  have hi : i < src.length := by
    rcases Nat.lt_or_ge i src.length with h' | h'
    · exact h'
    · rw [List.getElem?_eq_none h'] at h; cases h
  unfold utf8TruncateNat
  have hn : ¬ (i ≥ src.length) := by omega
  simp only [hn, if_false]
  have hd : List.drop i src = b :: List.drop (i + 1) src := by
    rw [List.drop_eq_getElem_cons hi]
    congr 1
    rw [List.getElem?_eq_getElem hi] at h; exact Option.some.inj h
  obtain ⟨f, hf⟩ : ∃ f, min (i + 3) src.length - i = f + 1 := ⟨min (i + 3) src.length - i - 1, by omega⟩
  rw [hd, hf]; simp [contRun, hb]

/-- `utf8_truncate_spec` on valid UTF-8: the result is the encoding of a prefix of the text — it decodes, to a prefix of what the
    source decodes to (so the cut never falls inside a character) -/
theorem utf8_truncate_valid (src : Bytes) (text : Str) (index : Int) (h : utf8Decode src = some text) :
    ∃ k r, utf8Truncate (.bytes src) index = .ok r ∧ r = utf8Encode (text.take k) ∧ utf8Decode r = some (text.take k) := by
  obtain ⟨hs, he⟩ := decode_encode src text h
  subst he
  obtain ⟨k, hk⟩ := truncNat_valid text hs (normIndex (utf8Encode text).length index)
  refine ⟨k, _, utf8_truncate_total _ index, hk, ?_⟩
  rw [hk]; exact utf8_roundtrip _ (all_take text k hs)

/-- the cut on a character boundary is exact: `utf8_truncate((a + b).encode(), len(a.encode())) == a.encode()` -/
theorem utf8_truncate_char_boundary (a b : Str) (ha : a.all isScalar = true) (hb : b.all isScalar = true) :
    utf8Truncate (.bytes (utf8Encode a ++ utf8Encode b)) ((utf8Encode a).length : Int) = .ok (utf8Encode a) := by
  rw [utf8_truncate_total]
  have hn : normIndex (utf8Encode a ++ utf8Encode b).length ((utf8Encode a).length : Int) = (utf8Encode a).length := by
    unfold normIndex
    have : ¬ (((utf8Encode a).length : Int) < 0) := by omega
    simp [this]
  rw [hn, truncNat_append _ _ _ (Nat.le_refl _), Nat.sub_self]
  rcases enc_head b hb with e | ⟨x, r, e, hx⟩
  · rw [e]; simp [utf8TruncateNat]
  · rw [e, truncNat_zero x r hx]; simp

-- "aé€𝄞" (1-, 2-, 3-, 4-byte characters): cuts inside é, inside €, at every byte of 𝄞, beyond the end, negative indices
example : utf8Decode [97, 195, 169, 226, 130, 172, 240, 157, 132, 158] = some [97, 233, 8364, 119070] := by decide
example : utf8Truncate (.bytes [97, 195, 169, 226, 130, 172, 240, 157, 132, 158]) 2 = .ok [97, 195, 169] := by decide
example : utf8Truncate (.bytes [97, 195, 169, 226, 130, 172, 240, 157, 132, 158]) 4 = .ok [97, 195, 169, 226, 130, 172] := by decide
example : utf8Truncate (.bytes [97, 195, 169, 226, 130, 172, 240, 157, 132, 158]) 6 = .ok [97, 195, 169, 226, 130, 172] := by decide
example : utf8Truncate (.bytes [97, 195, 169, 226, 130, 172, 240, 157, 132, 158]) 7 = .ok [97, 195, 169, 226, 130, 172, 240, 157, 132, 158] := by decide
example : utf8Truncate (.bytes [97, 195, 169, 226, 130, 172, 240, 157, 132, 158]) (-3) = .ok [97, 195, 169, 226, 130, 172, 240, 157, 132, 158] := by decide
example : utf8Truncate (.bytes [97, 195, 169, 226, 130, 172, 240, 157, 132, 158]) (-20) = .ok [] := by decide
-- invalid UTF-8: five lone continuation bytes — the scan gives up after index+3 and cuts in the middle of the run
example : utf8Truncate (.bytes [97, 128, 128, 128, 128, 128, 98]) 1 = .ok [97, 128, 128, 128] := by decide

/-! ## utf8_repeat_string -/

/-- `utf8_repeat_string(source, size) = utf8_truncate(source * mult, size)` with repeat_string's multiplier; empty sources are a
    ZeroDivisionError, non-empty `str` sources a TypeError -/
theorem utf8_repeat_string_eq (b : Bytes) (n : Int) (hb : b ≠ []) :
    utf8RepeatString (.bytes b) n = utf8Truncate (.bytes (pyMul b (1 + (n - 1) / (b.length : Int)))) n := by
  have hL : 0 < b.length := List.length_pos_iff.mpr hb
  have hne : ¬ (b.length = 0) := by omega
  simp [utf8RepeatString, Arg.items, hne]

theorem utf8_repeat_string_empty (n : Int) :
    utf8RepeatString (.bytes []) n = .error .zeroDivisionError ∧ utf8RepeatString (.text []) n = .error .zeroDivisionError := ⟨rfl, rfl⟩

theorem utf8_repeat_string_text (s : Str) (n : Int) (hs : s ≠ []) : utf8RepeatString (.text s) n = .error .typeError := by
  have hL : 0 < s.length := List.length_pos_iff.mpr hs
  have hne : ¬ (s.length = 0) := by omega
  simp [utf8RepeatString, Arg.items, hne, utf8Truncate]

/-- `utf8_repeat_string_spec`: for a non-empty bytes source and n ≥ 1 the result never raises, extends `repeat_string(source, n)`
    (that is its first n bytes) by at most 3 bytes of the next repetition, and the bytes beyond n are continuation bytes -/
theorem utf8_repeat_string_spec (b : Bytes) (k : Nat) (hb : b ≠ []) :
    ∃ r, utf8RepeatString (.bytes b) ((k + 1 : Nat) : Int) = .ok r ∧ repeatString b ((k + 1 : Nat) : Int) = .ok (r.take (k + 1)) ∧
      k + 1 ≤ r.length ∧ r.length ≤ k + 1 + 3 ∧ ∀ x ∈ r.drop (k + 1), notContByte x = false := by
  have hL : 0 < b.length := List.length_pos_iff.mpr hb
  have hne : ¬ (b.length = 0) := by omega
  rw [utf8_repeat_string_eq b _ hb, utf8_truncate_total]
  unfold repeatString
  simp only [hne, if_false]
  rw [mult_cast k b.length]
  have hlen := pyMul_length b (1 + k / b.length)
  have hle := le_mult_mul k b.length hL
  have hneg : ¬ (((k + 1 : Nat) : Int) < 0) := by omega
  have hn : normIndex (pyMul b ((1 + k / b.length : Nat) : Int)).length ((k + 1 : Nat) : Int) = k + 1 := by
    unfold normIndex; simp only [hneg, if_false, Int.toNat_natCast]
  rw [hn]
  simp only [pySliceTo, hneg, if_false, Int.toNat_natCast]
  refine ⟨_, rfl, ?_⟩
  by_cases hlt : k + 1 < (pyMul b ((1 + k / b.length : Nat) : Int)).length
  · obtain ⟨m, e, h1, hm, h2, _⟩ := utf8_truncate_scan _ (k + 1) hlt
    rw [e]
    refine ⟨?_, ?_, ?_, h2⟩
    · rw [List.take_take, Nat.min_eq_left h1]
    · rw [List.length_take]; omega
    · rw [List.length_take]; omega
  · have hge : (pyMul b ((1 + k / b.length : Nat) : Int)).length ≤ k + 1 := by omega
    rw [utf8_truncate_beyond _ _ hge]
    refine ⟨rfl, by omega, by omega, ?_⟩
    intro x hx
    rw [List.drop_of_length_le hge] at hx; cases hx

-- "é€" repeated to 8 bytes: repeat_string cuts inside € (…, 0xE2), utf8_repeat_string completes the character (10 bytes)
example : utf8RepeatString (.bytes [195, 169, 226, 130, 172]) 8 = .ok [195, 169, 226, 130, 172, 195, 169, 226, 130, 172] := by decide
example : utf8RepeatString (.bytes [240, 157, 132, 158]) 5 = .ok [240, 157, 132, 158, 240, 157, 132, 158] := by decide
example : utf8RepeatString (.bytes [97]) 0 = .ok [] := by decide

/-! ## safe_crypt -/

/-- the text form of the secret: the str itself, or the strict UTF-8 decoding of the bytes -/
def secretText : Arg → Option Str
  | .text s => some s
  | .bytes b => utf8Decode b

/-- the str form of the hash argument: itself, or the ASCII decoding of the bytes -/
def hashText : Arg → Option Str
  | .text h => some h
  | .bytes h => if h.all (· < 128) then some h else none

/-- the first statements of safe_crypt never raise: the `assert secret.encode("utf-8") == orig` cannot fire -/
theorem decode_secret_eq (secret : Arg) : decodeSecret secret = .ok (secretText secret) := by
  cases secret with
  | text s => rfl
  | bytes b =>
    simp only [decodeSecret, secretText]
    cases hd : utf8Decode b with
    | none => rfl
    | some s =>
      obtain ⟨h1, h2⟩ := decode_encode b s hd
      simp only [pyEncodeUtf8, h1, h2, ↓reduceIte]

theorem hashStr_eq (hash : Arg) (h : Str) (hh : hashText hash = some h) : hashStr hash = .ok h := by
  cases hash with
  | text x => simp only [hashText, Option.some.injEq] at hh; subst hh; rfl
  | bytes x =>
    simp only [hashText] at hh
    split at hh
    · rename_i ha
      simp only [Option.some.injEq] at hh; subst hh
      simp only [hashStr, pyDecodeAscii, ha, ↓reduceIte]
    · cases hh

/-- a NUL anywhere in a TEXT secret: ValueError, and crypt() is not called — for every crypt() and every hash argument -/
theorem safe_crypt_refuses_nul_text (crypt : Crypt) (s : Str) (hash : Arg) (h : 0 ∈ s) :
    safeCryptT crypt (.text s) hash = ([], .error .valueError) := by
  have : s.contains NULL = true := by simpa [NULL] using h
  simp only [safeCryptT, decodeSecret, this, ↓reduceIte]

/-- a NUL anywhere in a BYTES secret that is UTF-8: ValueError, and crypt() is not called -/
theorem safe_crypt_refuses_nul_bytes_partial (crypt : Crypt) (b : Bytes) (hash : Arg) (hv : (utf8Decode b).isSome = true) (h : 0 ∈ b) :
    safeCryptT crypt (.bytes b) hash = ([], .error .valueError) := by
  obtain ⟨s, hs⟩ := Option.isSome_iff_exists.mp hv
  obtain ⟨h1, h2⟩ := decode_encode b s hs
  have h0 : s.contains NULL = true := by
    have : 0 ∈ s := (mem_zero_encode s).mp (by rw [h2]; exact h)
    simpa [NULL] using this
  simp only [safeCryptT, decode_secret_eq, secretText, hs, h0, ↓reduceIte]

/- FALSE as asked:  ∀ b, 0 ∈ b → safeCryptT crypt (.bytes b) hash = ([], .error .valueError) -/
/-- bytes that are not UTF-8 are answered with None before the NUL check is reached: b"\xff\x00" -/
theorem safe_crypt_refuses_nul_bytes_counterexample :
    ¬ (∀ (crypt : Crypt) (b : Bytes) (hash : Arg), Bytes.WF b → 0 ∈ b → safeCryptT crypt (.bytes b) hash = ([], .error .valueError)) := by
  intro h
  have := h (fun _ _ => .null) [0xff, 0] (.text [97, 98]) (by decide) (by decide)
  revert this; decide

/-- whatever the secret (text, UTF-8 bytes, other bytes): with a NUL in it crypt() is never called, and the outcome does not
    depend on crypt() -/
theorem safe_crypt_nul_never_calls (crypt : Crypt) (secret hash : Arg) (h : 0 ∈ secret.items) :
    (safeCryptT crypt secret hash).1 = [] ∧
      ((safeCryptT crypt secret hash).2 = .error .valueError ∨
        (∃ b, secret = .bytes b ∧ utf8Decode b = none ∧ (safeCryptT crypt secret hash).2 = .ok none)) := by
  cases secret with
  | text s => rw [safe_crypt_refuses_nul_text crypt s hash h]; simp
  | bytes b =>
    cases hd : utf8Decode b with
    | none => simp [safeCryptT, decode_secret_eq, secretText, hd]
    | some s => rw [safe_crypt_refuses_nul_bytes_partial crypt b hash (by simp [hd]) h]; simp

/-- `safe_crypt_calls_crypt_once_with`: for a secret without NUL that is text or UTF-8 bytes, and a str / ASCII-bytes hash argument,
    crypt() is called exactly once, with the text of the WHOLE secret (for bytes: `utf8Encode s = b`, nothing cut) and the
    given config; the outcome is `checkResult` of that one answer -/
theorem safe_crypt_calls_crypt_once_with (crypt : Crypt) (secret hash : Arg) (s h : Str)
    (hs : secretText secret = some s) (h0 : 0 ∉ s) (hh : hashText hash = some h) :
    safeCryptT crypt secret hash = ([(s, h)], checkResult (crypt s h)) ∧
      (∀ b, secret = .bytes b → utf8Encode s = b) := by
  have hc : s.contains NULL = false := by simpa [NULL] using h0
  refine ⟨?_, ?_⟩
  · simp only [safeCryptT, decode_secret_eq, hs, hc, hashStr_eq hash h hh]; simp
  · intro b hb
    subst hb
    exact (decode_encode b s hs).2

/-- the failure answers of crypt(): NULL/None, OSError, the empty string, anything starting with `*`, `:` or `!`
    (`_invalid_prefixes`), as str or as bytes -/
def isFailure : CryptRet → Bool
  | .null => true
  | .osError => true
  | .text s => s.isEmpty || invalidPrefixes.contains (s.headD 0)
  | .bytes b => b.all (· < 128) && (b.isEmpty || invalidPrefixes.contains (b.headD 0))
  | .raises _ => false

/-- `safe_crypt_none_iff`: for an admissible call (no NUL, str / ASCII hash argument) the result is None iff the bytes secret is not
    UTF-8 or crypt() gave a failure answer; a str answer that is not a failure token is returned UNCHANGED -/
theorem safe_crypt_none_iff (crypt : Crypt) (secret hash : Arg) (h : Str) (h0 : 0 ∉ secret.items) (hh : hashText hash = some h) :
    safeCrypt crypt secret hash = .ok none ↔
      (secretText secret = none ∨ ∃ s, secretText secret = some s ∧ isFailure (crypt s h) = true) := by
  cases hs : secretText secret with
  | none =>
    cases secret with
    | text x => simp [secretText] at hs
    | bytes b => simp [safeCrypt, safeCryptT, decode_secret_eq, hs]
  | some s =>
    have h0' : 0 ∉ s := by
      cases secret with
      | text x => simp only [secretText, Option.some.injEq] at hs; subst hs; exact h0
      | bytes b =>
        simp only [secretText] at hs
        obtain ⟨h1, h2⟩ := decode_encode b s hs
        intro hm; exact h0 (by simp only [Arg.items]; rw [← h2]; exact (mem_zero_encode s).mpr hm)
    have := (safe_crypt_calls_crypt_once_with crypt secret hash s h hs h0' hh).1
    simp only [safeCrypt, this, false_or, Option.some.injEq, exists_eq_left']
    cases hc : crypt s h with
    | null => simp [checkResult, isFailure]
    | osError => simp [checkResult, isFailure]
    | raises e => simp [checkResult, isFailure]
    | text t =>
      cases t with
      | nil => simp [checkResult, isFailure]
      | cons c r => by_cases hp : invalidPrefixes.contains c = true <;> simp [checkResult, isFailure, hp]
    | bytes t =>
      by_cases ha : t.all (· < 128) = true
      · cases t with
        | nil => simp [checkResult, isFailure, pyDecodeAscii]
        | cons c r => by_cases hp : invalidPrefixes.contains c = true <;> simp [checkResult, isFailure, pyDecodeAscii, ha, hp]
      · simp [checkResult, isFailure, pyDecodeAscii, ha]

/-- … otherwise the crypt() result comes back unchanged -/
theorem safe_crypt_returns_unchanged (crypt : Crypt) (secret hash : Arg) (s h t : Str)
    (hs : secretText secret = some s) (h0 : 0 ∉ s) (hh : hashText hash = some h)
    (hc : crypt s h = .text t) (hf : isFailure (.text t) = false) : safeCrypt crypt secret hash = .ok (some t) := by
  simp only [safeCrypt, (safe_crypt_calls_crypt_once_with crypt secret hash s h hs h0 hh).1, hc]
  cases t with
  | nil => simp [isFailure] at hf
  | cons c r =>
    have : invalidPrefixes.contains c = false := by simpa [isFailure] using hf
    simp only [checkResult, this]; simp

/-- a non-ASCII str answer of crypt() is returned as it is (no check); non-ASCII BYTES raise UnicodeDecodeError -/
theorem safe_crypt_non_ascii_result :
    safeCrypt (fun _ _ => .text [104, 233]) (.text [112]) (.text [97, 98]) = .ok (some [104, 233]) ∧
    safeCrypt (fun _ _ => .bytes [104, 195, 169]) (.text [112]) (.text [97, 98]) = .error .unicodeDecodeError := by decide

-- des_crypt: crypt("password", "ab") = "abJnggxhB/yWI" (made by the C library on this host)
def desHash : Str := [97, 98, 74, 110, 103, 103, 120, 104, 66, 47, 121, 87, 73]
def pwd : Str := [112, 97, 115, 115, 119, 111, 114, 100]
example : safeCryptT (fun _ _ => .text desHash) (.bytes pwd) (.text [97, 98]) = ([(pwd, [97, 98])], .ok (some desHash)) := by decide
-- "pässwörd" as UTF-8 bytes reaches crypt() as the 8-character text
example : safeCryptT (fun _ _ => .null) (.bytes [112, 195, 164, 115, 115, 119, 195, 182, 114, 100]) (.bytes [97, 98]) =
    ([([112, 228, 115, 115, 119, 246, 114, 100], [97, 98])], .ok none) := by decide
-- the failure tokens "*0", "*1", "!", ":", "" and a latin-1 secret
example : (["*0", "*1", "!", ":", ""].map fun t => safeCrypt (fun _ _ => .text (t.toList.map Char.toNat)) (.text pwd) (.text [97, 98])) =
    [.ok none, .ok none, .ok none, .ok none, .ok none] := by decide
example : safeCryptT (fun _ _ => .text desHash) (.bytes [112, 228, 115, 115]) (.text [97, 98]) = ([], .ok none) := by decide
example : safeCryptT (fun _ _ => .text desHash) (.bytes [97, 0, 98]) (.text [97, 98]) = ([], .error .valueError) := by decide

/-! ## test_crypt -/

/-- `test_crypt(secret, hash)`: AssertionError for a bytes or empty hash; otherwise `safe_crypt(secret, hash) == hash`, with the
    same calls of crypt() -/
theorem test_crypt_eq (crypt : Crypt) (secret : Arg) (h : Str) (hne : h ≠ []) :
    testCrypt crypt secret (.text h) = (safeCrypt crypt secret (.text h)).map (fun r => r == some h) ∧
      (testCryptT crypt secret (.text h)).1 = (safeCryptT crypt secret (.text h)).1 := by
  have : h.isEmpty = false := by cases h <;> simp_all
  simp only [testCrypt, testCryptT, this, safeCrypt]
  rcases hr : safeCryptT crypt secret (.text h) with ⟨calls, r⟩
  cases r <;> simp [Except.map]

theorem test_crypt_asserts (crypt : Crypt) (secret : Arg) (b : Bytes) :
    testCryptT crypt secret (.bytes b) = ([], .error .assertionError) ∧ testCryptT crypt secret (.text []) = ([], .error .assertionError) :=
  ⟨rfl, rfl⟩

/-- test_crypt is True exactly when safe_crypt returns the reference hash itself -/
theorem test_crypt_true_iff (crypt : Crypt) (secret : Arg) (h : Str) (hne : h ≠ []) :
    testCrypt crypt secret (.text h) = .ok true ↔ safeCrypt crypt secret (.text h) = .ok (some h) := by
  rw [(test_crypt_eq crypt secret h hne).1]
  cases safeCrypt crypt secret (.text h) with
  | error e => simp [Except.map]
  | ok r => cases r <;> simp [Except.map]

example : testCrypt (fun _ _ => .text desHash) (.text pwd) (.text desHash) = .ok true := by decide
example : testCrypt (fun _ _ => .text [42, 48]) (.text pwd) (.text desHash) = .ok false := by decide
example : testCrypt (fun _ _ => .null) (.bytes [112, 228]) (.text desHash) = .ok false := by decide

end Props.C05Util
