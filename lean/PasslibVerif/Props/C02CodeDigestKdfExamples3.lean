import PasslibVerif.Props.C02CodeDigestKdf
/-
C02, code level, group `Digest`, part 2: non-vacuity examples for Props/C02CodeDigestKdf.lean — each main theorem applied to a value
computed by the real code (/tmp/repo_clean), then the specification evaluated by the kernel (one PBKDF2 round: SHA-1 is slow there).
-/
namespace Props.C02CodeDigest
open Py Model.Code.Digest
open Spec.Formats hiding Bytes
open Model.Verify (Secret)
open Lemmas.C01Pbkdf (algSha1_ok)

/-- `django_salted_sha1(salt="sAlt9")._calc_checksum(b"p\xe4ss\x00")` -/
example : djangoSaltedCalc Spec.SHA1.sha1 (.bytes [0x70, 0xe4, 0x73, 0x73, 0x00]) (ascii "sAlt9") = .ok (ascii "823fba375f1d852b0a0d81e1d55885754cc81870") := by
  rw [django_salted_sha1_eq_spec _ _ (by decide)]; decide +kernel

/-- `django_pbkdf2_sha1(salt="sAlt9", rounds=1)._calc_checksum(b"p\xe4ss")` -/
example : djangoPbkdf2Calc algSha1 (.bytes [0x70, 0xe4, 0x73, 0x73]) (ascii "sAlt9") 1 = .ok (ascii "EgeCPSrFRjGRfydjaBMFfoPA4/A=") := by
  rw [django_pbkdf2_sha1_eq_spec _ _ _ (by decide) (by decide) (by decide)]; decide +kernel

/-- `scram.derive_digest("I­X", b"\xffs\x00lt", 1, "sha-1")`: saslprep maps the soft hyphen to nothing (`prep` returns `IX`) -/
example : scramDeriveDigest (fun _ => .ok (ascii "IX")) algSha1 (.text [0x49, 0xAD, 0x58]) [0xff, 0x73, 0x00, 0x6c, 0x74] 1
    = .ok [0xad, 0x31, 0x07, 0x07, 0xe2, 0x03, 0xa4, 0x67, 0x13, 0xf3, 0x6e, 0xb1, 0x32, 0xde, 0xcc, 0x95, 0x1a, 0xef, 0x95, 0x67] := by
  rw [scram_derive_digest_eq_spec _ _ algSha1_ok _ (ascii "IX") _ _ rfl (by decide) (by decide)]; decide +kernel

end Props.C02CodeDigest
