import PasslibVerif.Lemmas.C17RegistryOps
import PasslibVerif.Lemmas.C17RegistryRe
/-
C17, last sentence: "Every name in the registry loads a hasher carrying that name, and passlib.hash.<name> is that same object."

The registry model (Model/Registry.lean; checked against passlib/registry.py on generated histories by tools/corr/c17_registry.py):
* `RegInv` holds after EVERY history of operations, from the empty registry and from the shipped one (`run_inv`, `run_inv_init`);
* `get_crypt_handler n` returning h  ⇒  h.name = the normal form of n (`get_name`) — for n whose normal form does not start with an
  underscore; WITHOUT that hypothesis the statement is false (`get_name_counterexample`: "-priv" finds the proxy's private attribute `_priv`);
* a second call returns the SAME object and changes nothing (`get_idempotent`); `passlib.hash.<a>` is that object (`proxy_getattr_eq_get`,
  `get_eq_proxy_getattr`);
* another object under a taken name without `force`: KeyError, nothing changes (`register_taken`); with `force` it replaces (`register_force`);
* an operation that raises leaves the state as it was (`step_error_frame`);
* `list_crypt_handlers` = strictly sorted (hence duplicate free) = the public keys of handlers ∪ locations (`list_sorted`, `list_mem`);
* every name of the shipped `_locations` table is valid and not forbidden, every path passes the path checks (`shipped_valid`, kernel), so
  every shipped name CAN be registered (`shipped_can_register`) and loads lazily whenever the module has the attribute (`shipped_loads`).
-/
namespace Props.C17Registry
open Model.Registry Py

/-! ### the invariant over every history -/

theorem inv_empty : RegInv ⟨[], []⟩ := ⟨by intro k h e; simp [get?] at e, by intro k p e; simp [get?] at e⟩

/-- every shipped name is accepted by `_validate_handler_name`, every shipped path by the checks of `register_crypt_handler_path`;
    no path has a colon or is empty (the attribute looked up is the name itself) -/
theorem shipped_valid : ∀ p ∈ Gen.RegistryTables.locations, validName p.1 = true ∧ pathOk p.2 = true ∧ p.2.contains 58 = false ∧ p.2 ≠ [] := by
  decide +kernel

example : Gen.RegistryTables.locations.length = 76 := by decide

theorem inv_init : RegInv init := by
  refine ⟨by intro k h e; simp [init, get?] at e, ?_⟩
  intro k p e
  have := shipped_valid (k, p) (get?_mem _ k p e)
  exact ⟨this.1, this.2.1⟩

theorem step_inv (w : World) {s : State} (hi : RegInv s) (op : Op) : RegInv (step w s op).2.2 := by
  cases op with
  | register h f a =>
    simp only [step]
    cases hr : register s h f a with
    | ok s' => exact register_inv hi hr
    | error e => exact hi
  | registerPath n p =>
    simp only [step]
    cases hr : registerPath s n p with
    | ok s' => exact registerPath_inv hi hr
    | error e => exact hi
  | get n d => exact getHandler_inv hi n d
  | list lo => exact hi
  | has n lo => exact hi
  | unload n l =>
    simp only [step, unload]
    refine ⟨fun k h e => hi.handlers k h (get?_del_some _ _ _ _ e), ?_⟩
    intro k p e
    cases l with
    | true => exact hi.locations k p (get?_del_some _ _ _ _ e)
    | false => exact hi.locations k p e
  | proxyGet a =>
    simp only [step]
    rcases proxyGet_state w s a with e | e
    · rw [e]; exact hi
    · rw [e]; exact getHandler_inv hi a true
  | proxySet a v =>
    simp only [step, proxySet]
    split
    · rename_i hu
      exact inv_put_handler hi (Or.inl hu)
    · cases hr : register s v false (some a) with
      | ok s' => exact register_inv hi hr
      | error e => exact hi
  | proxyDir => exact hi

/-- the invariant holds after every history -/
theorem run_inv (w : World) : ∀ (ops : List Op) (s : State), RegInv s → RegInv (run w s ops).2
  | [], _, hi => hi
  | op :: rest, s, hi => run_inv w rest _ (step_inv w hi op)

theorem run_inv_init (w : World) (ops : List Op) : RegInv (run w init ops).2 := run_inv w ops init inv_init
theorem run_inv_empty (w : World) (ops : List Op) : RegInv (run w ⟨[], []⟩ ops).2 := run_inv w ops _ inv_empty

/-- what the invariant says about a public key: a valid name, and the stored object is a truthy handler carrying exactly that name -/
theorem inv_public {s : State} (hi : RegInv s) {k : Name} {h : Handler} (hk : get? s.handlers k = some h) (hu : us k = false) :
    validName k = true ∧ h.name = .str k ∧ h.truthy = true ∧ isCryptHandler h = true := by
  rcases hi.handlers k h hk with e | ⟨hv, hn, ht, ha⟩
  · rw [hu] at e; cases e
  · exact ⟨hv, hn, ht, by simp [isCryptHandler, ha, hn]⟩

/-! ### get_crypt_handler -/

/-- `get_crypt_handler(n)` returning h: h carries the normal form of n (lower case, hyphens replaced) as its name -/
theorem get_name {w : World} {s : State} (hi : RegInv s) {n : Name} {d : Bool} {h : Handler}
    (hr : (getHandler w s n d).2.1 = .ok (.handler h)) (hun : us (norm n) = false) : h.name = .str (norm n) := by
  rcases getHandler_cases w s n d with ⟨_, e⟩ | ⟨hu, h0, hg, e⟩ | ⟨_, _, _, h0, hg, e⟩ | ⟨_, _, _, ⟨path, h0, s', hloc, _, hl, e⟩ | ⟨r, hr', e⟩⟩
  · rw [e] at hr; exact absurd hr (notFound_not_handler d _ h)
  · rw [e] at hr; cases hr
    obtain ⟨hv, hn, _, _⟩ := inv_public hi hg hu
    rw [norm_of_valid hv]; exact hn
  · rw [e] at hr; cases hr
    exact (inv_public hi hg hun).2.1
  · rw [e] at hr; cases hr
    have hv := (hi.locations _ _ hloc).1
    exact register_attr (lazyLoad_ok hl) ((validName_iff _).mp hv).1
  · rw [e] at hr; exact absurd hr (hr' h)

/-- the full statement "get_crypt_handler n returns h ⇒ h.name = norm n" (no side condition) is FALSE: the proxy's instance dict IS
    `_handlers`, so a private attribute `_priv` of passlib.hash (any object) is what `get_crypt_handler("-priv")` returns -/
theorem get_name_counterexample :
    ∃ (s : State) (n : Name) (h : Handler), RegInv s ∧ (getHandler (fun _ => none) s n false).2.1 = .ok (.handler h) ∧ h.name ≠ .str (norm n) := by
  refine ⟨(step (fun _ => none) ⟨[], []⟩ (.proxySet [95, 112, 114, 105, 118] ⟨4, false, false, .missing⟩)).2.2, [45, 112, 114, 105, 118],
    ⟨4, false, false, .missing⟩, step_inv _ inv_empty _, by decide +kernel, by decide⟩

/-- a second call returns the same object, with the same warning, and changes nothing -/
theorem get_idempotent {w : World} {s s' : State} (hi : RegInv s) {n : Name} {d : Bool} {h : Handler} {wn : Bool}
    (hr : getHandler w s n d = (wn, .ok (.handler h), s')) : getHandler w s' n d = (wn, .ok (.handler h), s') := by
  rcases getHandler_cases w s n d with ⟨_, e⟩ | ⟨hu, h0, hg, e⟩ | ⟨_, _, _, h0, hg, e⟩ | ⟨hu, h1, h2, ⟨path, h0, s0, hloc, _, hl, e⟩ | ⟨r, hr', e⟩⟩
  · rw [e] at hr; cases d <;> simp [notFound] at hr
  · rw [e] at hr; cases hr; exact e
  · rw [e] at hr; cases hr; exact e
  · rw [e] at hr; cases hr
    have hreg := lazyLoad_ok hl
    have hne : norm n ≠ [] := ((validName_iff _).mp (hi.locations _ _ hloc).1).1
    have hname := register_attr hreg hne
    obtain ⟨name, hn, _, _, _, _, hs⟩ := register_ok hreg
    have en : name = norm n := by rw [hn] at hname; cases hname; rfl
    subst en
    rcases hs with ⟨_, o, ho, _⟩ | hs
    · rw [h2] at ho; cases ho
    · subst hs
      by_cases hnn : norm n = n
      · have hg : get? (put s.handlers n h) n = some h := get?_put_self _ _ _
        simp [getHandler, hu, hnn, hg]
      · have hg1 : get? (put s.handlers (norm n) h) n = none := by rw [get?_put_ne _ _ _ _ hnn]; exact h1
        have hg2 : get? (put s.handlers (norm n) h) (norm n) = some h := get?_put_self _ _ _
        simp [getHandler, hu, hg1, hg2, hnn]
  · rw [e] at hr; cases hr; exact absurd rfl (hr' h)

/-! ### the proxy -/

/-- `passlib.hash.<a>` IS the object `get_crypt_handler(a, None)` returns (same object, same warning, same state after) -/
theorem proxy_getattr_eq_get {w : World} {s s' : State} (hi : RegInv s) {a : Name} {h : Handler} {wn : Bool}
    (hun : us (norm a) = false) (hr : getHandler w s a true = (wn, .ok (.handler h), s')) :
    proxyGet w s a = (wn, .ok (.handler h), s') := by
  have htruthy : h.truthy = true ∧ us a = false := by
    rcases getHandler_cases w s a true with ⟨_, e⟩ | ⟨hu, h0, hg, e⟩ | ⟨hu, _, _, h0, hg, e⟩ | ⟨hu, _, _, ⟨path, h0, s0, _, _, hl, e⟩ | ⟨r, hr', e⟩⟩
    · rw [e] at hr; simp [notFound] at hr
    · rw [e] at hr; cases hr; exact ⟨(inv_public hi hg hu).2.2.1, hu⟩
    · rw [e] at hr; cases hr; exact ⟨(inv_public hi hg hun).2.2.1, hu⟩
    · rw [e] at hr; cases hr
      obtain ⟨_, _, _, ht, _⟩ := register_ok (lazyLoad_ok hl)
      exact ⟨ht, hu⟩
    · rw [e] at hr; cases hr; exact absurd rfl (hr' h)
  obtain ⟨ht, hu⟩ := htruthy
  unfold proxyGet
  cases hg : get? s.handlers a with
  | some h0 =>
    have : getHandler w s a true = (false, .ok (.handler h0), s) := by simp [getHandler, hu, hg]
    rw [this] at hr; cases hr; rfl
  | none => simp [hu, hr, ht]

/-- and conversely: what `passlib.hash.<a>` answers for a public attribute is what `get_crypt_handler(a, None)` answers -/
theorem get_eq_proxy_getattr {w : World} {s s' : State} {a : Name} {h : Handler} {wn : Bool}
    (hu : us a = false) (hr : proxyGet w s a = (wn, .ok (.handler h), s')) : getHandler w s a true = (wn, .ok (.handler h), s') := by
  unfold proxyGet at hr
  cases hg : get? s.handlers a with
  | some h0 =>
    rw [hg] at hr; cases hr
    simp [getHandler, hu, hg]
  | none =>
    rw [hg] at hr
    simp only [hu] at hr
    generalize getHandler w s a true = r at hr ⊢
    obtain ⟨wn0, r0, s0⟩ := r
    cases r0 with
    | error e => simp at hr
    | ok v =>
      cases v with
      | handler h0 =>
        by_cases ht : h0.truthy = true
        · simp [ht] at hr
          obtain ⟨e1, e2, e3⟩ := hr
          subst e1; subst e2; subst e3; rfl
        · simp [ht] at hr
      | none => simp at hr
      | default => simp at hr
      | bool b => simp at hr
      | names l => simp at hr

/-- `setattr(passlib.hash, a, v)` that succeeds for a public, non-empty attribute: v carries the name a -/
theorem proxy_setattr_name {s s' : State} {a : Name} {v : Handler} (hu : us a = false) (ha : a ≠ [])
    (hr : proxySet s a v = .ok s') : v.name = .str a := by
  simp only [proxySet, hu] at hr
  exact register_attr hr ha

/-! ### register_crypt_handler -/

/-- another object under a taken name, without `force`: KeyError and nothing changes -/
theorem register_taken {w : World} {s : State} (hi : RegInv s) {k : Name} {o h : Handler} {a : Option Name}
    (hk : get? s.handlers k = some o) (hv : validName k = true) (hid : o.id ≠ h.id)
    (hn : h.name = .str k) (hc : h.attrsOk = true) (ht : h.truthy = true) (ha : attrMismatch a k = false) :
    step w s (.register h false a) = (false, .error .taken, s) := by
  have hot := (inv_public hi hk (validName_not_us hv)).2.2.1
  simp [step, register, isCryptHandler, hc, hn, ht, validateAttr_str hv, ha, store, hk, hot, hid, ofState]

/-- with `force` it takes the place of the other one (same position in the dict) -/
theorem register_force {w : World} {s : State} {k : Name} {o h : Handler} {a : Option Name}
    (hk : get? s.handlers k = some o) (hv : validName k = true) (hid : o.id ≠ h.id)
    (hn : h.name = .str k) (hc : h.attrsOk = true) (ht : h.truthy = true) (ha : attrMismatch a k = false) :
    step w s (.register h true a) = (false, .ok .none, { s with handlers := put s.handlers k h }) := by
  by_cases hot : o.truthy = true
  · simp [step, register, isCryptHandler, hc, hn, ht, validateAttr_str hv, ha, store, hk, hot, hid, ofState]
  · simp [step, register, isCryptHandler, hc, hn, ht, validateAttr_str hv, ha, store, hk, hot, ofState]

/-- a free valid name can be registered -/
theorem register_fresh {w : World} {s : State} {k : Name} {h : Handler} {f : Bool} {a : Option Name}
    (hk : get? s.handlers k = none) (hv : validName k = true)
    (hn : h.name = .str k) (hc : h.attrsOk = true) (ht : h.truthy = true) (ha : attrMismatch a k = false) :
    step w s (.register h f a) = (false, .ok .none, { s with handlers := put s.handlers k h }) := by
  simp [step, register, isCryptHandler, hc, hn, ht, validateAttr_str hv, ha, store, hk, ofState]

/-- the same object again: nothing happens -/
theorem register_same {w : World} {s : State} (hi : RegInv s) {k : Name} {h : Handler} {f : Bool}
    (hk : get? s.handlers k = some h) (hu : us k = false) : step w s (.register h f none) = (false, .ok .none, s) := by
  obtain ⟨hv, hn, ht, hc⟩ := inv_public hi hk hu
  have hc' := isCryptHandler_attrs hc
  simp [step, register, isCryptHandler, hc', hn, ht, validateAttr_str hv, attrMismatch, store, hk, ofState]

/-! ### failed operations change nothing -/

theorem step_error_frame (w : World) (s : State) (op : Op) {e : Err} (he : (step w s op).2.1 = .error e) : (step w s op).2.2 = s := by
  cases op with
  | register h f a =>
    simp only [step] at he ⊢
    cases hr : register s h f a with
    | ok s' => rw [hr] at he; simp [ofState] at he
    | error e => rfl
  | registerPath n p =>
    simp only [step] at he ⊢
    cases hr : registerPath s n p with
    | ok s' => rw [hr] at he; simp [ofState] at he
    | error e => rfl
  | get n d =>
    simp only [step] at he ⊢
    rcases getHandler_cases w s n d with ⟨_, e⟩ | ⟨_, h, _, e⟩ | ⟨_, _, _, h, _, e⟩ | ⟨_, _, _, ⟨path, h, s', _, _, hl, e⟩ | ⟨r, _, e⟩⟩
    · rw [e]
    · rw [e]
    · rw [e]
    · rw [e] at he; cases he
    · rw [e]
  | list lo => rfl
  | has n lo => rfl
  | unload n l => simp [step] at he
  | proxyGet a =>
    simp only [step] at he ⊢
    unfold proxyGet at he ⊢
    cases hg : get? s.handlers a with
    | some h0 => rfl
    | none =>
      rw [hg] at he
      simp only []
      by_cases hu : us a = true
      · simp [hu]
      · have hu' : us a = false := by simpa using hu
        simp only [hu'] at he ⊢
        rcases getHandler_cases w s a true with ⟨hu2, _⟩ | ⟨_, h, hg2, _⟩ | ⟨_, _, _, h, _, e⟩ | ⟨_, _, _, ⟨path, h, s', _, _, hl, e⟩ | ⟨r, hr', e⟩⟩
        · rw [hu'] at hu2; cases hu2
        · rw [hg] at hg2; cases hg2
        · rw [e]; by_cases ht : h.truthy = true <;> simp [ht]
        · rw [e] at he
          obtain ⟨_, _, _, ht, _⟩ := register_ok (lazyLoad_ok hl)
          simp [ht] at he
        · rw [e]
          cases r with
          | error e0 => rfl
          | ok v =>
            cases v with
            | handler h0 => exact absurd rfl (hr' h0)
            | none => rfl
            | default => rfl
            | bool b => rfl
            | names l => rfl
  | proxySet a v =>
    simp only [step] at he ⊢
    cases hr : proxySet s a v with
    | ok s' => rw [hr] at he; simp [ofState] at he
    | error e => rfl
  | proxyDir => rfl

/-! ### list_crypt_handlers -/

theorem list_eq (w : World) (s : State) (lo : Bool) : step w s (.list lo) = (false, .ok (.names (listHandlers s lo)), s) := rfl

/-- strictly increasing in the order of `sorted` on str: sorted and without duplicates -/
theorem list_sorted (s : State) (lo : Bool) : Sorted (listHandlers s lo) ∧ (listHandlers s lo).Nodup :=
  ⟨sorted_sortNames _, sorted_nodup _ (sorted_sortNames _)⟩

/-- exactly the public keys of `_handlers`, and of `_locations` unless `loaded_only` -/
theorem list_mem (s : State) (lo : Bool) (x : Name) :
    x ∈ listHandlers s lo ↔ us x = false ∧ ((get? s.handlers x).isSome = true ∨ (lo = false ∧ (get? s.locations x).isSome = true)) := by
  unfold listHandlers
  rw [mem_sortNames]
  cases lo with
  | true => simp [← mem_keys_iff]; exact And.comm
  | false =>
    simp [← mem_keys_iff]
    constructor
    · rintro (⟨a, b⟩ | ⟨a, b⟩)
      · exact ⟨b, Or.inl a⟩
      · exact ⟨b, Or.inr a⟩
    · rintro ⟨b, a | a⟩
      · exact Or.inl ⟨a, b⟩
      · exact Or.inr ⟨a, b⟩

/-- every listed name is a valid handler name -/
theorem list_valid {s : State} (hi : RegInv s) (lo : Bool) {x : Name} (hx : x ∈ listHandlers s lo) : validName x = true := by
  obtain ⟨hu, hk⟩ := (list_mem s lo x).mp hx
  rcases hk with hk | ⟨_, hk⟩
  · cases hg : get? s.handlers x with
    | none => rw [hg] at hk; cases hk
    | some h => exact (inv_public hi hg hu).1
  · cases hg : get? s.locations x with
    | none => rw [hg] at hk; cases hk
    | some p => exact (hi.locations x p hg).1

/-! ### the shipped table -/

/-- every shipped name can be registered in an empty registry by a handler carrying it -/
theorem shipped_can_register (w : World) (p : Name × Name) (hp : p ∈ Gen.RegistryTables.locations) (h : Handler)
    (hn : h.name = .str p.1) (hc : h.attrsOk = true) (ht : h.truthy = true) :
    step w init (.register h false none) = (false, .ok .none, { init with handlers := [(p.1, h)] }) := by
  have := register_fresh (w := w) (s := init) (k := p.1) (h := h) (f := false) (a := none) rfl (shipped_valid p hp).1 hn hc ht rfl
  simpa [init, put] using this

/-- lazy loading: a location whose module imports and has the attribute, holding a handler that carries the requested name -/
theorem get_lazy_loads {w : World} {s : State} {n path : Name} {attrs : List (Name × Handler)} {h : Handler}
    (hu : us n = false) (hnn : norm n = n) (hk : get? s.handlers n = none) (hl : get? s.locations n = some path)
    (hp : path ≠ []) (hcol : path.contains 58 = false) (hw : w path = some attrs) (ha : get? attrs n = some h)
    (hv : validName n = true) (hn : h.name = .str n) (hc : h.attrsOk = true) (ht : h.truthy = true) :
    getHandler w s n false = (false, .ok (.handler h), { s with handlers := put s.handlers n h }) := by
  have hreg : register s h false (some n) = .ok { s with handlers := put s.handlers n h } := by
    simp [register, isCryptHandler, hc, hn, ht, validateAttr_str hv, attrMismatch, store, hk]
  have hcol' : 58 ∉ path := by simpa using hcol
  simp [getHandler, hu, hk, hnn, hl, hp, lazyLoad, splitPath, hcol', hw, ha, hreg]

/-- "every name in the registry loads a hasher carrying that name": in a world where the shipped module of `p.1` has an attribute `p.1`
    holding a handler named `p.1`, the fresh registry loads exactly that object — and `passlib.hash.<name>` is it -/
theorem shipped_loads {w : World} (p : Name × Name) (hp : p ∈ Gen.RegistryTables.locations) (hnd : get? init.locations p.1 = some p.2)
    {attrs : List (Name × Handler)} {h : Handler} (hw : w p.2 = some attrs) (ha : get? attrs p.1 = some h)
    (hn : h.name = .str p.1) (hc : h.attrsOk = true) (ht : h.truthy = true) :
    getHandler w init p.1 false = (false, .ok (.handler h), { init with handlers := [(p.1, h)] }) ∧
    proxyGet w init p.1 = (false, .ok (.handler h), { init with handlers := [(p.1, h)] }) := by
  obtain ⟨hv, _, hcol, hne⟩ := shipped_valid p hp
  have hu := validName_not_us hv
  have h1 := get_lazy_loads (w := w) (s := init) (n := p.1) (path := p.2) (attrs := attrs) (h := h) hu (norm_of_valid hv) rfl hnd hne hcol hw ha hv hn hc ht
  have h1' : getHandler w init p.1 false = (false, .ok (.handler h), { init with handlers := [(p.1, h)] }) := by simpa [init, put] using h1
  refine ⟨h1', ?_⟩
  have h2 := get_lazy_loads (w := w) (s := init) (n := p.1) (path := p.2) (attrs := attrs) (h := h) hu (norm_of_valid hv) rfl hnd hne hcol hw ha hv hn hc ht
  have hd : getHandler w init p.1 true = (false, .ok (.handler h), { init with handlers := [(p.1, h)] }) := by
    have hreg : register init h false (some p.1) = .ok { init with handlers := [(p.1, h)] } := by
      simp [register, isCryptHandler, hc, hn, ht, validateAttr_str hv, attrMismatch, store, init, get?, put]
    have hk : get? init.handlers p.1 = none := rfl
    have hcol' : 58 ∉ p.2 := by simpa using hcol
    simp [getHandler, hu, hk, norm_of_valid hv, hnd, hne, lazyLoad, splitPath, hcol', hw, ha, hreg]
  exact proxy_getattr_eq_get inv_init (by rw [norm_of_valid hv]; exact hu) hd

/-- the keys of the shipped table are distinct: looking a name up finds its own path -/
theorem shipped_lookup : ∀ p ∈ Gen.RegistryTables.locations, get? init.locations p.1 = some p.2 := by decide +kernel

/-- what the pattern read from the source means on the model's matcher: a lower-case letter, one or more of [a-z0-9_], a final [a-z0-9]
    (`_name_re.match` additionally tolerates one final newline: `nameReMatch`) -/
theorem name_re_meaning (s : Name) : matchItems s Gen.RegistryTables.nameRe = true ↔
    ∃ c mid l, s = c :: (mid ++ [l]) ∧ mid ≠ [] ∧ (97 ≤ c ∧ c ≤ 122) ∧
      (∀ x ∈ mid, (97 ≤ x ∧ x ≤ 122) ∨ (48 ≤ x ∧ x ≤ 57) ∨ x = 95) ∧ ((97 ≤ l ∧ l ≤ 122) ∨ (48 ≤ l ∧ l ≤ 57)) :=
  matchItems_nameRe s

/-! ### the hypotheses are satisfiable: md5_crypt, as shipped -/

def md5Name : Name := [109, 100, 53, 95, 99, 114, 121, 112, 116]
def md5Path : Name := [112, 97, 115, 115, 108, 105, 98, 46, 104, 97, 110, 100, 108, 101, 114, 115, 46, 109, 100, 53, 95, 99, 114, 121, 112, 116]
def md5H : Handler := ⟨1, true, true, .str md5Name⟩
def md5World : World := fun m => if m = md5Path then some [(md5Name, md5H)] else none

example : (md5Name, md5Path) ∈ Gen.RegistryTables.locations := by decide +kernel
/-- "MD5-CRYPT" loads md5_crypt (with the warning), a second call returns the same object, the proxy agrees -/
example : (run md5World init [.get [77, 68, 53, 45, 67, 82, 89, 80, 84] false, .get md5Name false, .proxyGet md5Name, .list true]).1
    = [(true, .ok (.handler md5H)), (false, .ok (.handler md5H)), (false, .ok (.handler md5H)), (false, .ok (.names [md5Name]))] := by decide +kernel
/-- a name the pattern accepts because `$` matches in front of a final newline: "abc\n" is a valid handler name -/
example : validName [97, 98, 99, 10] = true := by decide +kernel
example : validName [97, 98, 99, 95] = false ∧ validName [97, 98] = false ∧ validName [65, 98, 99] = false ∧ validName [97, 95, 95, 98] = false
    ∧ validName [110, 111, 110, 101] = false := by decide +kernel
/-- taken name, no force -/
example : step md5World ⟨[(md5Name, md5H)], []⟩ (.register ⟨2, true, true, .str md5Name⟩ false none) = (false, .error .taken, ⟨[(md5Name, md5H)], []⟩) := by
  decide +kernel

end Props.C17Registry
