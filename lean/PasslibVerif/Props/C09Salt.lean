import PasslibVerif.Model.UsingSalt
import PasslibVerif.Props.C06
/-
C09 — `using()` for the settings other than the cost: salt size, fixed salt, identifier, truncation policy.
Every statement is about `Model.UsingSalt` (statement-order model of `HasSalt.using` / `_clip_to_valid_salt_size` / `_norm_salt` /
`HasManyIdents.using` / `_norm_ident` / `TruncateMixin.using` / `as_bool`; the source of each is pinned by the translator, the word
sets of `as_bool` are read from the source on every run) and holds for EVERY class description, argument value and random draw.
-/
namespace Props.C09Salt
open Py Model.Handler Model.UsingSalt

/-- a class whose declared salt limits are consistent -/
def ClsOK (c : SaltCls) : Prop := ∀ m, c.maxSize = some m → c.minSize ≤ m

/-- the upper limit as the code reads it: `max_salt_size == min_salt_size` fixes the size (even when both are 0); otherwise a
    maximum of 0 / None means "no maximum" (`if mx and …`) -/
def upper (c : SaltCls) : Option Nat := if c.maxSize = some c.minSize then some c.minSize else mxTruthy c.maxSize

/-- a size within the class's hard limits -/
def InLimits (c : SaltCls) (v : Nat) : Prop := c.minSize ≤ v ∧ ∀ m, upper c = some m → v ≤ m

theorem mxTruthy_some (mx : Option Nat) (m : Nat) (h : mxTruthy mx = some m) : mx = some m ∧ m ≠ 0 := by
  cases mx with
  | none => simp [mxTruthy] at h
  | some k =>
    cases k with
    | zero => simp [mxTruthy] at h
    | succ k => simp only [mxTruthy, Option.some.injEq] at h; subst h; exact ⟨rfl, by omega⟩

/-- **never outside the hard limits**: whatever `using(salt_size=…)` accepts — strictly or relaxed — lies inside them -/
theorem clip_in_limits (c : SaltCls) (hok : ClsOK c) (relaxed : Bool) (n : Int) (v : Nat) (h : clip c relaxed n = .ok v) :
    InLimits c v := by
  unfold clip at h
  unfold InLimits upper
  by_cases heq : c.maxSize = some c.minSize
  · simp only [heq, if_true] at h ⊢
    split at h
    · cases h
    · cases h
      exact ⟨Nat.le_refl _, by intro m hm; cases hm; exact Nat.le_refl _⟩
  · simp only [heq, if_false] at h ⊢
    by_cases hlt : n < (c.minSize : Int)
    · simp only [hlt, if_true] at h
      cases relaxed with
      | false => simp at h
      | true =>
        simp only [if_true] at h
        cases hmx : mxTruthy c.maxSize with
        | none =>
          simp only [hmx, Int.toNat_natCast, Except.ok.injEq] at h
          subst h
          exact ⟨Nat.le_refl _, by intro m hm; cases hm⟩
        | some mx =>
          simp only [hmx] at h
          have hle := hok mx (mxTruthy_some _ _ hmx).1
          have : ¬ ((c.minSize : Int) > (mx : Int)) := by omega
          simp only [this, if_false, Int.toNat_natCast, Except.ok.injEq] at h
          subst h
          exact ⟨Nat.le_refl _, by intro m hm; cases hm; exact hle⟩
    · simp only [hlt, if_false] at h
      cases hmx : mxTruthy c.maxSize with
      | none =>
        simp only [hmx, Except.ok.injEq] at h
        subst h
        exact ⟨by omega, by intro m hm; cases hm⟩
      | some mx =>
        simp only [hmx] at h
        have hle := hok mx (mxTruthy_some _ _ hmx).1
        by_cases hgt : n > (mx : Int)
        · simp only [hgt, if_true] at h
          cases relaxed with
          | false => simp at h
          | true =>
            simp only [if_true, Except.ok.injEq] at h
            subst h
            exact ⟨hle, by intro m hm; cases hm; exact Nat.le_refl _⟩
        · simp only [hgt, if_false, Except.ok.injEq] at h
          subst h
          exact ⟨by omega, by intro m hm; cases hm; omega⟩

/-- an in-range size is taken as it is, in both modes -/
theorem clip_identity (c : SaltCls) (relaxed : Bool) (v : Nat) (h : InLimits c v) : clip c relaxed (v : Int) = .ok v := by
  unfold clip
  obtain ⟨h1, h2⟩ := h
  unfold upper at h2
  by_cases heq : c.maxSize = some c.minSize
  · simp only [heq, if_true] at h2 ⊢
    have := h2 _ rfl
    have hv : v = c.minSize := by omega
    subst hv; simp
  · simp only [heq, if_false] at h2 ⊢
    have : ¬ ((v : Int) < (c.minSize : Int)) := by omega
    simp only [this, if_false]
    cases hmx : mxTruthy c.maxSize with
    | none => simp
    | some mx =>
      have := h2 mx hmx
      have hg : ¬ ((v : Int) > (mx : Int)) := by omega
      simp [hg]

/-- strict mode refuses every size outside the limits with a value error -/
theorem clip_strict_refuses (c : SaltCls) (n : Int)
    (hout : n < (c.minSize : Int) ∨ ∃ m, upper c = some m ∧ n > (m : Int)) : clip c false n = .error .valueError := by
  unfold clip
  unfold upper at hout
  by_cases heq : c.maxSize = some c.minSize
  · simp only [heq, if_true] at hout ⊢
    have : n ≠ (c.minSize : Int) := by
      rcases hout with h | ⟨m, hm, h⟩
      · omega
      · cases hm; omega
    simp [this]
  · simp only [heq, if_false] at hout ⊢
    rcases hout with h | ⟨m, hm, h⟩
    · simp [h]
    · by_cases hlt : n < (c.minSize : Int)
      · simp [hlt]
      · simp [hlt, hm, h]

/-- relaxed mode never refuses: it answers the nearest limit -/
theorem clip_relaxed_clamps (c : SaltCls) (hok : ClsOK c) (n : Int) :
    ∃ v, clip c true n = .ok v ∧ InLimits c v ∧
      (n < (c.minSize : Int) → v = c.minSize) ∧ (∀ m, upper c = some m → n > (m : Int) → v = m) := by
  have htot : ∃ v, clip c true n = .ok v := by
    unfold clip
    by_cases heq : c.maxSize = some c.minSize
    · simp [heq]
    · simp only [heq, if_false]
      by_cases hlt : n < (c.minSize : Int)
      · simp only [hlt, if_true]
        cases mxTruthy c.maxSize with
        | none => exact ⟨_, rfl⟩
        | some mx => simp only []; split <;> exact ⟨_, rfl⟩
      · simp only [hlt, if_false]
        cases mxTruthy c.maxSize with
        | none => exact ⟨_, rfl⟩
        | some mx => simp only []; split <;> exact ⟨_, rfl⟩
  obtain ⟨v, hv⟩ := htot
  refine ⟨v, hv, clip_in_limits c hok true n v hv, ?_, ?_⟩
  · intro hlt
    unfold clip at hv
    by_cases heq : c.maxSize = some c.minSize
    · simp only [heq, if_true] at hv
      split at hv
      · cases hv
      · cases hv; rfl
    · simp only [heq, if_false, hlt, if_true] at hv
      cases hmx : mxTruthy c.maxSize with
      | none => simp only [hmx, Int.toNat_natCast, Except.ok.injEq] at hv; exact hv.symm
      | some mx =>
        simp only [hmx] at hv
        have hle := hok mx (mxTruthy_some _ _ hmx).1
        have : ¬ ((c.minSize : Int) > (mx : Int)) := by omega
        simp only [this, if_false, Int.toNat_natCast, Except.ok.injEq] at hv
        exact hv.symm
  · intro m hm hgt
    unfold clip at hv
    unfold upper at hm
    by_cases heq : c.maxSize = some c.minSize
    · simp only [heq, if_true] at hv hm
      cases hm
      split at hv
      · cases hv
      · cases hv; rfl
    · simp only [heq, if_false] at hv hm
      have hle := hok m (mxTruthy_some _ _ hm).1
      have hlt : ¬ (n < (c.minSize : Int)) := by omega
      simp only [hlt, if_false, hm, hgt, if_true, Except.ok.injEq] at hv
      exact hv.symm

/-! ### using(salt_size=…) / using(salt=…) and the salts of the hashes made afterwards -/

/-- `salt_size` and `default_salt_size` together are a type error, before anything else -/
theorem using_salt_aliases_exclusive (c : SaltCls) (a : SaltArgs) (x y : SizeArg) (h1 : a.saltSize = some x) (h2 : a.defaultSaltSize = some y) :
    usingSalt c a = .error .typeError := by
  unfold usingSalt; simp [h1, h2]

/-- both spellings of the size mean the same -/
theorem using_salt_alias_same (c : SaltCls) (x : SizeArg) (salt : Option Str) (relaxed : Bool) :
    usingSalt c { saltSize := some x, salt := salt, relaxed := relaxed } =
    usingSalt c { defaultSaltSize := some x, salt := salt, relaxed := relaxed } := by
  unfold usingSalt; simp

/-- the configured default size of the customised hasher is inside the hard limits, whatever was asked for and in whichever mode -/
theorem using_salt_size_in_limits (c c' : SaltCls) (hok : ClsOK c) (hd : InLimits c c.defaultSize) (a : SaltArgs)
    (h : usingSalt c a = .ok c') : InLimits c c'.defaultSize ∧ c'.minSize = c.minSize ∧ c'.maxSize = c.maxSize := by
  unfold usingSalt at h
  -- resolve the aliases
  cases hs : a.saltSize with
  | some s =>
    cases hds : a.defaultSaltSize with
    | some _ => simp [hs, hds] at h
    | none =>
      simp only [hs, hds, Option.isSome_none, Bool.false_eq_true, if_false] at h
      cases hv : sizeValue s with
      | error e => simp [hv] at h
      | ok n =>
        simp only [hv] at h
        cases hc : clip c a.relaxed n with
        | error e => simp [hc] at h
        | ok v =>
          simp only [hc] at h
          have hin := clip_in_limits c hok a.relaxed n v hc
          cases hsalt : a.salt with
          | none => simp only [hsalt, Except.ok.injEq] at h; subst h; exact ⟨hin, rfl, rfl⟩
          | some sl =>
            simp only [hsalt] at h
            cases hn : normSaltCls { c with defaultSize := v } a.relaxed sl with
            | error e => simp [hn] at h
            | ok s' => simp only [hn, Except.ok.injEq] at h; subst h; exact ⟨hin, rfl, rfl⟩
  | none =>
    simp only [hs] at h
    cases hds : a.defaultSaltSize with
    | none =>
      simp only [hds] at h
      cases hsalt : a.salt with
      | none => simp only [hsalt, Except.ok.injEq] at h; subst h; exact ⟨hd, rfl, rfl⟩
      | some sl =>
        simp only [hsalt] at h
        cases hn : normSaltCls c a.relaxed sl with
        | error e => simp [hn] at h
        | ok s' => simp only [hn, Except.ok.injEq] at h; subst h; exact ⟨hd, rfl, rfl⟩
    | some s =>
      simp only [hds] at h
      cases hv : sizeValue s with
      | error e => simp [hv] at h
      | ok n =>
        simp only [hv] at h
        cases hc : clip c a.relaxed n with
        | error e => simp [hc] at h
        | ok v =>
          simp only [hc] at h
          have hin := clip_in_limits c hok a.relaxed n v hc
          cases hsalt : a.salt with
          | none => simp only [hsalt, Except.ok.injEq] at h; subst h; exact ⟨hin, rfl, rfl⟩
          | some sl =>
            simp only [hsalt] at h
            cases hn : normSaltCls { c with defaultSize := v } a.relaxed sl with
            | error e => simp [hn] at h
            | ok s' => simp only [hn, Except.ok.injEq] at h; subst h; exact ⟨hin, rfl, rfl⟩

/-- an in-range `salt_size=k` is taken exactly -/
theorem using_salt_size_exact (c : SaltCls) (k : Nat) (relaxed : Bool) (h : InLimits c k) :
    usingSalt c { saltSize := some (.int k), relaxed := relaxed } = .ok { c with defaultSize := k } := by
  unfold usingSalt
  simp [sizeValue, clip_identity c relaxed k h]

/-- what the customised hasher generates: a salt of EXACTLY the configured size over the class's default alphabet, which the
    hasher's own `_norm_salt` accepts unchanged — so the `assert` in `HasSalt.__init__` cannot trip and the hash carries a salt of the
    configured size — for every draw of the random source -/
theorem generated_salt_has_configured_size (c : SaltCls) (draw : Nat) (h2 : 2 ≤ c.defaultChars.length) (hf : c.fixedSalt = none)
    (hin : InLimits c c.defaultSize) (hsub : ∀ cs, c.saltChars = some cs → ∀ x ∈ c.defaultChars, x ∈ cs) :
    ∃ s, initSalt c draw = .ok s ∧ s.length = c.defaultSize ∧ ∀ x ∈ s, x ∈ c.defaultChars := by
  obtain ⟨out, ho, hl, hmem⟩ := Props.C06.getrandstr_len_alphabet c.defaultChars c.defaultSize draw h2
  refine ⟨out, ?_, hl, hmem⟩
  unfold initSalt generateSalt
  simp only [hf, ho]
  have hall : ∀ cs, c.saltChars = some cs → allIn cs out = true := by
    intro cs hsc
    unfold allIn
    rw [List.all_eq_true]
    intro x hx
    have : x ∈ cs := hsub cs hsc x (hmem x hx)
    simpa using this
  obtain ⟨hmn, hmx⟩ := hin
  have h1 : ¬ (¬ c.minSize = 0 ∧ out.length < c.minSize) := by omega
  have hmax : ∀ m, c.maxSize = some m → ¬ (¬ m = 0 ∧ m < out.length) := by
    intro m hm
    by_cases hm0 : m = 0
    · subst hm0; simp
    · have hup : upper c = some m := by
        unfold upper
        by_cases heq : c.maxSize = some c.minSize
        · rw [if_pos heq]; rw [hm] at heq; exact heq.symm
        · rw [if_neg heq, hm]; unfold mxTruthy
          cases m with
          | zero => exact absurd rfl hm0
          | succ k => rfl
      have := hmx m hup
      omega
  have hn : normSaltCls c false out = .ok out := by
    unfold normSaltCls normSalt
    cases hsc : c.saltChars with
    | none =>
      cases hm : c.maxSize with
      | none => simp [h1]
      | some m => simp [h1, hmax m hm]
    | some cs =>
      cases hm : c.maxSize with
      | none => simp [h1, hall cs hsc]
      | some m => simp [h1, hmax m hm, hall cs hsc]
  simp [hn]

/-- `using(salt=s)`: every later hash carries exactly the normalised `s` (cut to the maximum in relaxed mode), whatever the draw -/
theorem using_fixed_salt (c c' : SaltCls) (s : Str) (relaxed : Bool) (h : usingSalt c { salt := some s, relaxed := relaxed } = .ok c') :
    ∃ s', normSaltCls c relaxed s = .ok s' ∧ ∀ draw, generateSalt c' draw = .ok s' := by
  unfold usingSalt at h
  simp only [Option.isSome_none] at h
  cases hn : normSaltCls c relaxed s with
  | error e => simp [hn] at h
  | ok s' =>
    simp only [hn, Except.ok.injEq] at h
    subst h
    exact ⟨s', rfl, fun _ => rfl⟩

/-- a strict `using(salt=s)` keeps `s` itself, and only if it is over the alphabet and within the size limits -/
theorem using_fixed_salt_strict (c : SaltCls) (s s' : Str) (h : normSaltCls c false s = .ok s') :
    s' = s ∧ (c.minSize = 0 ∨ c.minSize ≤ s.length) ∧ (∀ m, c.maxSize = some m → m = 0 ∨ s.length ≤ m) ∧
    (∀ cs, c.saltChars = some cs → allIn cs s = true) := by
  unfold normSaltCls at h
  cases hn : normSalt c.saltChars c.minSize c.maxSize false s with
  | none => simp [hn] at h
  | some r =>
    simp only [hn, Except.ok.injEq] at h
    subst h
    unfold normSalt at hn
    have hcs : ∀ cs, c.saltChars = some cs → allIn cs s = true := by
      intro cs hsc
      cases hc : allIn cs s with
      | true => rfl
      | false => simp [hsc, hc] at hn
    have hch : (match c.saltChars with | some cs => allIn cs s | none => true) = true := by
      cases hsc : c.saltChars with
      | none => rfl
      | some cs => exact hcs cs hsc
    simp only [hch, Bool.not_true, Bool.false_eq_true, if_false] at hn
    by_cases hm : s.length < c.minSize
    · have h0 : c.minSize ≠ 0 := by omega
      simp [hm, h0] at hn
    · have hmn : c.minSize = 0 ∨ c.minSize ≤ s.length := by omega
      cases hmx : c.maxSize with
      | none =>
        simp [hm, hmx] at hn
        exact ⟨hn.2.symm, hmn, (fun m e => by cases e), hcs⟩
      | some m =>
        by_cases hm0 : m = 0
        · subst hm0
          simp [hm, hmx] at hn
          exact ⟨hn.2.symm, hmn, (fun m' e => by cases e; exact Or.inl rfl), hcs⟩
        · by_cases hx : m < s.length
          · simp [hm, hmx, hm0, hx] at hn
          · simp [hm, hmx, hx] at hn
            exact ⟨hn.2.symm, hmn, (fun m' e => by cases e; right; omega), hcs⟩

/-! ### identifiers -/

/-- whatever `using(ident=…)` accepts becomes a default identifier that IS one of the format's identifiers -/
theorem using_ident_valid (c c' : IdentCls) (di i : Option Str) (hd : c.default ∈ c.values) (h : usingIdent c di i = .ok c') :
    c'.default ∈ c'.values ∧ c'.values = c.values := by
  unfold usingIdent at h
  have key : ∀ x, (match normIdent c x with | .error e => (.error e : Res IdentCls) | .ok v => .ok { c with default := v }) = .ok c' →
      c'.default ∈ c'.values ∧ c'.values = c.values := by
    intro x hx
    unfold normIdent at hx
    by_cases hc : c.values.contains x
    · simp only [hc, if_true, Except.ok.injEq] at hx; subst hx
      exact ⟨by simpa using hc, rfl⟩
    · simp only [hc, Bool.false_eq_true, if_false] at hx
      cases hl : c.aliases.lookup x with
      | none => simp [hl] at hx
      | some v =>
        simp only [hl] at hx
        by_cases hv : c.values.contains v = true
        · rw [if_pos hv] at hx
          simp only [Except.ok.injEq] at hx; subst hx
          exact ⟨by simpa using hv, rfl⟩
        · rw [if_neg hv] at hx; cases hx
  cases i with
  | some iv =>
    cases di with
    | some _ => simp at h
    | none => simp only [Option.isSome_none, Bool.false_eq_true, if_false] at h; exact key iv h
  | none =>
    cases di with
    | none => simp only [Except.ok.injEq] at h; subst h; exact ⟨hd, rfl⟩
    | some dv => simp only at h; exact key dv h

/-- an identifier of the format is taken as it is; an alias resolves to its target; anything else is a value error -/
theorem norm_ident_cases (c : IdentCls) (x : Str) :
    (x ∈ c.values → normIdent c x = .ok x) ∧
    (x ∉ c.values → c.aliases.lookup x = none → normIdent c x = .error .valueError) ∧
    (x ∉ c.values → ∀ v, c.aliases.lookup x = some v → normIdent c x = if v ∈ c.values then .ok v else .error .valueError) := by
  unfold normIdent
  refine ⟨?_, ?_, ?_⟩
  · intro h; simp [h]
  · intro h hl; simp [h, hl]
  · intro h v hl; simp [h, hl]

theorem using_ident_aliases_exclusive (c : IdentCls) (a b : Str) : usingIdent c (some a) (some b) = .error .typeError := by
  unfold usingIdent; simp

/-! ### truncation policy -/

/-- `using(truncate_error=…)`: a boolean (or a recognised word) is taken; "not set" (None, "", "none") keeps the parent's policy;
    an unrecognised word is a value error — never silently the permissive default -/
theorem using_truncate_cases (parent : Bool) :
    usingTruncate parent .none = .ok parent ∧
    (∀ b, usingTruncate parent (.bool b) = .ok b) ∧
    (∀ s, asBool (.str s) = .ok none → usingTruncate parent (.str s) = .ok parent) ∧
    (∀ s b, asBool (.str s) = .ok (some b) → usingTruncate parent (.str s) = .ok b) ∧
    (∀ s e, asBool (.str s) = .error e → usingTruncate parent (.str s) = .error e) := by
  refine ⟨rfl, fun b => rfl, ?_, ?_, ?_⟩
  · intro s h; unfold usingTruncate; simp [h]
  · intro s b h; unfold usingTruncate; simp [h]
  · intro s e h; unfold usingTruncate; simp [h]

/-- the three word sets read from the source do not overlap, so the order in which `as_bool` consults them cannot matter -/
theorem as_bool_sets_disjoint :
    (∀ w ∈ trueSet, w ∉ falseSet ∧ w ∉ noneSet) ∧ (∀ w ∈ falseSet, w ∉ noneSet) := by decide +kernel

/-- … and they are already in the normal form `as_bool` compares with (lower case, no surrounding blanks) -/
theorem as_bool_sets_normalised : ∀ w ∈ trueSet ++ falseSet ++ noneSet, strip (Py.pyLower w) = w := by decide +kernel

/-- an error of `as_bool` is always the value error -/
theorem as_bool_error_kind (a : BoolArg) (e : ErrKind) (h : asBool a = .error e) : e = .valueError := by
  cases a with
  | none => simp [asBool] at h
  | bool b => simp [asBool] at h
  | str s =>
    simp only [asBool] at h
    split at h
    · cases h
    · split at h
      · cases h
      · split at h
        · cases h
        · cases h; rfl

/-! ### non-vacuity (class descriptions of real hashers: sha256_crypt, bcrypt's identifiers) -/
def sha256Salt : SaltCls := { minSize := 0, maxSize := some 16, defaultSize := 16, saltChars := some Gen.B64.HASH64_CHARS, defaultChars := Gen.B64.HASH64_CHARS }

example : ClsOK sha256Salt ∧ InLimits sha256Salt 16 ∧ InLimits sha256Salt 0 ∧ ¬ InLimits sha256Salt 17 := by
  refine ⟨by intro m hm; cases hm; decide, ⟨by decide, by intro m hm; cases hm; decide⟩, ⟨by decide, by intro m hm; cases hm; decide⟩, ?_⟩
  intro h; have := h.2 16 rfl; omega
example : clip sha256Salt false 17 = .error .valueError ∧ clip sha256Salt true 17 = .ok 16 ∧ clip sha256Salt false 8 = .ok 8
    ∧ clip sha256Salt true (-3) = .ok 0 := by decide
example : usingSalt sha256Salt { saltSize := some (.str (ofString " 8 ")) } = .ok { sha256Salt with defaultSize := 8 } := by decide +kernel
example : usingTruncate false (.str (ofString " Yes ")) = .ok true ∧ usingTruncate true (.str (ofString "None")) = .ok true
    ∧ usingTruncate true (.str (ofString "maybe")) = .error .valueError := by decide
def bcryptIdents : IdentCls :=
  { values := ["$2$", "$2a$", "$2x$", "$2y$", "$2b$"].map ofString,
    aliases := [("2", "$2$"), ("2a", "$2a$"), ("2y", "$2y$"), ("2b", "$2b$")].map fun p => (ofString p.1, ofString p.2),
    default := ofString "$2b$" }
example : usingIdent bcryptIdents none (some (ofString "2a")) = .ok { bcryptIdents with default := ofString "$2a$" }
    ∧ usingIdent bcryptIdents none (some (ofString "2x")) = .error .valueError := by decide

end Props.C09Salt
