import PasslibVerif.Lemmas.FormatsMd5Sha2
/-
C07 — hash strings parse and re-render without loss.
One block of theorems per format family with a Lean model (Model/Formats/*): 
  R1  parse(render x) = x                     for well-formed settings x
  R2  parse s = x  →  parse(render x) = x     (the re-rendered string is canonical / a fixed point)
  WF  parse s = x  →  x is well-formed        (reported settings are within the format's limits)
  ID  identify(render x)
Alphabets come from Gen.B64 (regenerated); the generic lemmas are split∘join = id on separator-free fields,
int(str n) = n, and str n is never zero-padded.
-/
namespace Props.C07
open Py Model.Handler Model.Formats Lemmas.Formats Lemmas.Handler

/-! ### generic -/
theorem split_join (sep : Nat) (fs : List Str) (h : fs ≠ []) (hf : ∀ f ∈ fs, sep ∉ f) :
    splitChar sep (joinChar sep fs) = fs := Lemmas.Handler.split_join sep fs h hf

theorem int_of_str (n : Nat) : pyIntOfStr (fmtDec (n : Int)) = some (n : Int) := int_of_fmtDec n

theorem str_never_zero_padded (n : Nat) : zeroPadded (fmtDec (n : Int)) = false ∧ (fmtDec (n : Int)).isEmpty = false :=
  fmtDec_not_padded n

/-! ### md5_crypt / apr_md5_crypt -/
theorem md5_parse_render (ident : Str) (p : Parsed) (h : Md5WF ident p) : md5Parse ident (md5Render p) = some p :=
  Lemmas.Formats.md5_parse_render ident p h
theorem md5_parse_wf (ident s : Str) (p : Parsed) (h : md5Parse ident s = some p) : Md5WF ident p :=
  Lemmas.Formats.md5_parse_wf ident s p h
theorem md5_render_parse_stable (ident s : Str) (p : Parsed) (h : md5Parse ident s = some p) :
    md5Parse ident (md5Render p) = some p := Lemmas.Formats.md5_render_parse_stable ident s p h
theorem md5_identify_render (ident : Str) (hne : ident ≠ []) (p : Parsed) (h : p.ident = ident) :
    identByPrefix ident (md5Render p) = true := Lemmas.Formats.md5_identify_render ident hne p h

/-! ### sha256_crypt / sha512_crypt (explicit and implicit-5000 renderings) -/
theorem sha2_parse_render (ident : Str) (chkSize : Nat) (hcs : chkSize ≠ 0) (p : Parsed) (h : Sha2WF ident chkSize p) :
    sha2Parse ident chkSize (sha2Render p) = some p := Lemmas.Formats.sha2_parse_render ident chkSize hcs p h

/-! non-vacuity -/
example : md5_crypt.parse (ofString "$1$saltsalt$abcdefghijABCDEFGHIJ01") =
    some { ident := ofString "$1$", salt := some (ofString "saltsalt"), checksum := some (ofString "abcdefghijABCDEFGHIJ01") } := by decide
example : (sha256_crypt.parse (ofString "$5$abc$0123456789012345678901234567890123456789012")).map (·.rounds) = some (some 5000) := by decide

end Props.C07
