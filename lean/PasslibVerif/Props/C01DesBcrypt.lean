import PasslibVerif.Lemmas.C01DesBcrypt
import PasslibVerif.Lemmas.C01DesBcryptBc
import PasslibVerif.Lemmas.C01DesBcryptBc72
import PasslibVerif.Lemmas.C01DesBcryptDes
import PasslibVerif.Props.C01Crypt
/-
C01 instantiated end to end for the DES / bcrypt family.  hasher = the C07 model of `from_string` / `to_string`
(Model/Formats/DesBcrypt.lean) + the Spec checksum of the format (Spec/Formats/*.lean, tied to the real hashers under C02) + what the
class does around it (truncation policy, NUL refusal, bcrypt's second size check): Model/VerifyFmt/DesBcrypt.lean, tied to the real
`using(…).hash` / `verify` / `identify` by tools/corr/c01_desbcrypt.py (`vfyD` driver suite).

Per format X:
  X_roundtrips            the format round-trips on everything `hash` can render for admissible settings (Props.C01.RoundTrips)
  X_verifies_own_hash     whatever `hash` returns verifies True for the same secret
  X_hash_succeeds         `hash` does return, for every secret within the size limit that is encodable (NUL-free where the class refuses
                          NUL, within the truncation policy where `truncate_error` is set)
  X_identifies_own_hash   … and the class identifies the string as its own
  X_verifies_equivalent   the documented equivalence class: verify answers True for every secret of the class
"different secret ⇒ False" is `Props.C01.verify_of_hash` (False exactly when the checksums differ); that checksums of different
secrets differ outside the class is collision resistance, not a theorem.
-/
namespace Props.C01DesBcrypt
open Py Model.Handler Model.Formats Model.Verify Model.VerifyFmt.DesBcrypt Lemmas.Formats Lemmas.Handler Lemmas.C01DesBcrypt Props.C01

/-! ### des_crypt — `<salt:2><checksum:11>`, `truncate_size = 8`, NUL refused -/

theorem des_crypt_roundtrips (te : Bool) (salt : Str) (hs : allIn h64 salt = true) (hl : salt.length = 2) :
    RoundTrips (desHasher te) (desSettings salt) := by
  intro b c hc
  simp only [desHasher, desSettings, Option.getD_some, Except.ok.injEq] at hc ⊢
  subst hc
  have hok := desCryptBlock_ok (Spec.Formats.desKeyOfChars b) (Spec.Formats.h64leNat (salt.take 2)) 25
  have := Lemmas.Formats.des_crypt_parse_render { salt := some salt, checksum := some (Spec.Formats.desCrypt b salt) }
    ⟨rfl, rfl, rfl, ⟨salt, rfl, hs, hl⟩, ⟨_, rfl, hok.1, hok.2⟩⟩
  simp only [this, toRes]

theorem des_crypt_ignores_checksum (te : Bool) : IgnoresChecksum (desHasher te) := fun _ _ _ => rfl

/-- des_crypt: whatever `hash` returns verifies True for the same secret — every 2-character hash64 salt, either truncation policy -/
theorem des_crypt_verifies_own_hash (te : Bool) (s : Secret) (salt hs : Str) (hsalt : allIn h64 salt = true) (hl : salt.length = 2)
    (hh : hashSecret (desHasher te) s (desSettings salt) = .ok hs) : verify (desHasher te) s hs = .ok true :=
  verify_own_hash _ s _ hs (des_crypt_roundtrips te salt hsalt hl) (des_crypt_ignores_checksum te) hh

/-- … and `hash` does return: size limit, encodable, no NUL byte, and at most 8 bytes when `truncate_error` is set -/
theorem des_crypt_hash_succeeds (te : Bool) (s : Secret) (b : Bytes) (salt : Str) (hv : s.len ≤ MAX_PASSWORD_SIZE)
    (hb : s.toBytes = .ok b) (h0 : 0 ∉ b) (ht : te = false ∨ b.length ≤ 8) :
    ∃ hs, hashSecret (desHasher te) s (desSettings salt) = .ok hs :=
  ⟨_, hashSecret_of_steps (desHasher te) s _ b _ hv hb (checkTruncate_ok _ b 8 rfl ht) (checkNul_ok _ b (Or.inr h0)) rfl⟩

/-- … as a string the class identifies as its own -/
theorem des_crypt_identifies_own_hash (te : Bool) (s : Secret) (salt hs : Str) (hsalt : allIn h64 salt = true) (hl : salt.length = 2)
    (hh : hashSecret (desHasher te) s (desSettings salt) = .ok hs) : des_crypt.identify hs = true := by
  obtain ⟨b, c, _, _, _, _, hd, rfl⟩ := hashSecret_ok _ s _ hs hh
  simp only [desHasher, desSettings, Option.getD_some, Except.ok.injEq] at hd
  subst hd
  have hok := desCryptBlock_ok (Spec.Formats.desKeyOfChars b) (Spec.Formats.h64leNat (salt.take 2)) 25
  exact Lemmas.Formats.des_crypt_identify_render { salt := some salt, checksum := some (Spec.Formats.desCrypt b salt) }
    ⟨rfl, rfl, rfl, ⟨salt, rfl, hsalt, hl⟩, ⟨_, rfl, hok.1, hok.2⟩⟩

/-- the documented equivalence of des_crypt: only the low seven bits of the first eight bytes are used.  Every NUL-free secret
    that agrees with the hashed one there (bytes past the end read as 0) verifies True — whatever follows the eighth byte. -/
theorem des_crypt_verifies_equivalent (te : Bool) (s s' : Secret) (b b' : Bytes) (salt hs : Str) (hsalt : allIn h64 salt = true)
    (hl : salt.length = 2) (hh : hashSecret (desHasher te) s (desSettings salt) = .ok hs)
    (hv' : s'.len ≤ MAX_PASSWORD_SIZE) (hb : s.toBytes = .ok b) (hb' : s'.toBytes = .ok b') (h0' : 0 ∉ b')
    (h7 : ∀ i, i < 8 → b'.getD i 0 % 128 = b.getD i 0 % 128) : verify (desHasher te) s' hs = .ok true :=
  verify_equivalent _ s s' _ hs b b' (des_crypt_roundtrips te salt hsalt hl) (des_crypt_ignores_checksum te) hh hv' hb hb'
    (checkNul_ok _ b' (Or.inr h0')) (by simp only [desHasher, desSettings, Option.getD_some]; rw [desCrypt_congr b' b salt h7])

/-- in particular the truncation: secrets with the same first eight bytes are one password -/
theorem des_crypt_verifies_same_first_8 (te : Bool) (s s' : Secret) (b b' : Bytes) (salt hs : Str) (hsalt : allIn h64 salt = true)
    (hl : salt.length = 2) (hh : hashSecret (desHasher te) s (desSettings salt) = .ok hs)
    (hv' : s'.len ≤ MAX_PASSWORD_SIZE) (hb : s.toBytes = .ok b) (hb' : s'.toBytes = .ok b') (h0' : 0 ∉ b')
    (h8 : b'.take 8 = b.take 8) : verify (desHasher te) s' hs = .ok true :=
  des_crypt_verifies_equivalent te s s' b b' salt hs hsalt hl hh hv' hb hb' h0'
    (fun i hi => by rw [take8_getD b' b h8 i hi])

/-- a hash made by /repo: `des_crypt.using(salt="ab", truncate_error=True).hash("password")`; "p\xe1sswordXY" is the same password
    (by the theorem above); nine bytes are refused under `truncate_error` -/
example : hashSecret (desHasher true) (.text (ofString "password")) (desSettings (ofString "ab")) = .ok (ofString "abJnggxhB/yWI") ∧
    verify (desHasher true) (.bytes [0x70, 0xe1, 0x73, 0x73, 0x77, 0x6f, 0x72, 0x64, 0x58, 0x59]) (ofString "abJnggxhB/yWI") = .ok true ∧
    hashSecret (desHasher true) (.text (ofString "passwordX")) (desSettings (ofString "ab")) = .error .truncateError := by
  have hh : hashSecret (desHasher true) (.text (ofString "password")) (desSettings (ofString "ab")) = .ok (ofString "abJnggxhB/yWI") := by
    decide +kernel
  exact ⟨hh, des_crypt_verifies_equivalent true _ (.bytes [0x70, 0xe1, 0x73, 0x73, 0x77, 0x6f, 0x72, 0x64, 0x58, 0x59]) (ofString "password")
    [0x70, 0xe1, 0x73, 0x73, 0x77, 0x6f, 0x72, 0x64, 0x58, 0x59] (ofString "ab") _ (by decide) rfl hh (by decide) (by decide) rfl (by decide)
    (by decide), by decide +kernel⟩

/-! ### bsdi_crypt — `_<rounds:4><salt:4><checksum:11>`, NUL refused -/

theorem bsdi_crypt_roundtrips (salt : Str) (rounds : Nat) (hs : allIn h64 salt = true) (hl : salt.length = 4)
    (hr : 1 ≤ rounds ∧ rounds ≤ 16777215) : RoundTrips bsdiHasher (bsdiSettings salt rounds) := by
  intro b c hc
  simp only [bsdiHasher, bsdiSettings, Option.getD_some, Int.toNat_natCast, Except.ok.injEq] at hc ⊢
  subst hc
  have hok := desCryptBlock_ok (Spec.Formats.bsdiKey b) (Spec.Formats.h64leNat (salt.take 4)) rounds
  have := Lemmas.Formats.bsdi_parse_render
    { rounds := some (rounds : Int), salt := some salt, checksum := some (Spec.Formats.bsdiCrypt b salt rounds) }
    ⟨rfl, rfl, ⟨rounds, rfl, hr.1, hr.2⟩, ⟨salt, rfl, hs, hl⟩, ⟨_, rfl, hok.1, hok.2⟩⟩
  simp only [this, toRes]

theorem bsdi_crypt_ignores_checksum : IgnoresChecksum bsdiHasher := fun _ _ _ => rfl

/-- bsdi_crypt: whatever `hash` returns verifies True for the same secret — every 4-character hash64 salt, every rounds value of the
    24-bit field (`hash()` itself only produces odd ones) -/
theorem bsdi_crypt_verifies_own_hash (s : Secret) (salt hs : Str) (rounds : Nat) (hsalt : allIn h64 salt = true) (hl : salt.length = 4)
    (hr : 1 ≤ rounds ∧ rounds ≤ 16777215) (hh : hashSecret bsdiHasher s (bsdiSettings salt rounds) = .ok hs) :
    verify bsdiHasher s hs = .ok true :=
  verify_own_hash _ s _ hs (bsdi_crypt_roundtrips salt rounds hsalt hl hr) bsdi_crypt_ignores_checksum hh

theorem bsdi_crypt_hash_succeeds (s : Secret) (b : Bytes) (salt : Str) (rounds : Nat) (hv : s.len ≤ MAX_PASSWORD_SIZE)
    (hb : s.toBytes = .ok b) (h0 : 0 ∉ b) : ∃ hs, hashSecret bsdiHasher s (bsdiSettings salt rounds) = .ok hs :=
  ⟨_, hashSecret_of_steps bsdiHasher s _ b _ hv hb (checkTruncate_none _ b rfl) (checkNul_ok _ b (Or.inr h0)) rfl⟩

theorem bsdi_crypt_identifies_own_hash (s : Secret) (salt hs : Str) (rounds : Nat) (hsalt : allIn h64 salt = true) (hl : salt.length = 4)
    (hr : 1 ≤ rounds ∧ rounds ≤ 16777215) (hh : hashSecret bsdiHasher s (bsdiSettings salt rounds) = .ok hs) :
    bsdi_crypt.identify hs = true := by
  obtain ⟨b, c, _, _, _, _, hd, rfl⟩ := hashSecret_ok _ s _ hs hh
  exact Lemmas.Formats.bsdi_identify_of_parse _ _ (by
    have := bsdi_crypt_roundtrips salt rounds hsalt hl hr b c hd
    simp only [bsdiHasher] at this ⊢
    cases hp : bsdiParse (bsdiRender { bsdiSettings salt rounds with checksum := some c }) with
    | none => simp [hp, toRes] at this
    | some q => simp only [hp, toRes, Except.ok.injEq] at this; subst this; exact hp)

/-- `bsdi_crypt.using(salt="rasm", rounds=5).hash("password")` on /repo -/
example : hashSecret bsdiHasher (.text (ofString "password")) (bsdiSettings (ofString "rasm") 5) = .ok (ofString "_3...rasmMfmL4/oLtBs") ∧
    verify bsdiHasher (.bytes (ofString "password")) (ofString "_3...rasmMfmL4/oLtBs") = .ok true ∧
    verify bsdiHasher (.text (ofString "passwordX")) (ofString "_3...rasmMfmL4/oLtBs") = .ok false := by
  decide +kernel

/-! ### phpass — `$P$<rounds:1><salt:8><checksum:22>` (`$H$` for phpBB3) -/

theorem phpass_roundtrips (ident salt : Str) (rounds : Nat) (hi : ident = ofString "$P$" ∨ ident = ofString "$H$")
    (hs : allIn h64 salt = true) (hl : salt.length = 8) (hr : 7 ≤ rounds ∧ rounds ≤ 30) :
    RoundTrips phpassHasher (phpassSettings ident salt rounds) := by
  intro b c hc
  simp only [phpassHasher, phpassSettings, Option.getD_some, Int.toNat_natCast, Except.ok.injEq] at hc ⊢
  subst hc
  have hok := phpass_ok b salt rounds
  have := Lemmas.Formats.phpass_parse_render
    { ident := ident, rounds := some (rounds : Int), salt := some salt, checksum := some (Spec.Formats.phpass b salt rounds) }
    ⟨hi, rfl, ⟨rounds, rfl, hr.1, hr.2⟩, ⟨salt, rfl, hs, hl⟩,
      Or.inr ⟨_, rfl, hok.1, by intro h; have := hok.2; rw [h] at this; simp at this⟩⟩
  simp only [this, toRes]

theorem phpass_ignores_checksum : IgnoresChecksum phpassHasher := fun _ _ _ => rfl

/-- phpass: whatever `hash` returns verifies True for the same secret — both idents, every 8-character hash64 salt, every cost 7…30 -/
theorem phpass_verifies_own_hash (s : Secret) (ident salt hs : Str) (rounds : Nat) (hi : ident = ofString "$P$" ∨ ident = ofString "$H$")
    (hsalt : allIn h64 salt = true) (hl : salt.length = 8) (hr : 7 ≤ rounds ∧ rounds ≤ 30)
    (hh : hashSecret phpassHasher s (phpassSettings ident salt rounds) = .ok hs) : verify phpassHasher s hs = .ok true :=
  verify_own_hash _ s _ hs (phpass_roundtrips ident salt rounds hi hsalt hl hr) phpass_ignores_checksum hh

/-- phpass hashes every encodable secret within the size limit (NUL bytes are data, nothing is truncated) -/
theorem phpass_hash_succeeds (s : Secret) (b : Bytes) (ident salt : Str) (rounds : Nat) (hv : s.len ≤ MAX_PASSWORD_SIZE)
    (hb : s.toBytes = .ok b) : ∃ hs, hashSecret phpassHasher s (phpassSettings ident salt rounds) = .ok hs :=
  ⟨_, hashSecret_of_steps phpassHasher s _ b _ hv hb (checkTruncate_none _ b rfl) (checkNul_ok _ b (Or.inl rfl)) rfl⟩

theorem phpass_identifies_own_hash (s : Secret) (ident salt hs : Str) (rounds : Nat) (hi : ident = ofString "$P$" ∨ ident = ofString "$H$")
    (hsalt : allIn h64 salt = true) (hl : salt.length = 8) (hr : 7 ≤ rounds ∧ rounds ≤ 30)
    (hh : hashSecret phpassHasher s (phpassSettings ident salt rounds) = .ok hs) : phpass.identify hs = true := by
  obtain ⟨b, c, _, _, _, _, hd, rfl⟩ := hashSecret_ok _ s _ hs hh
  exact Lemmas.Formats.phpass_identify_of_parse _ _ (by
    have := phpass_roundtrips ident salt rounds hi hsalt hl hr b c hd
    simp only [phpassHasher] at this ⊢
    cases hp : phpassParse (phpassRender { phpassSettings ident salt rounds with checksum := some c }) with
    | none => simp [hp, toRes] at this
    | some q => simp only [hp, toRes, Except.ok.injEq] at this; subst this; exact hp)

/-- the settings of `phpass.using(salt="ohUJ.1sd", rounds=7).hash("password")` = `$P$5ohUJ.1sdQLBnRqVUTn0IW1crck0jX0` on /repo satisfy the
    hypotheses (the string itself is checked through the compiled model by the correspondence run: 129 MD5 calls in the kernel take
    half a minute) -/
example : (ofString "$P$" = ofString "$P$" ∨ ofString "$P$" = ofString "$H$") ∧ allIn h64 (ofString "ohUJ.1sd") = true ∧
    (ofString "ohUJ.1sd").length = 8 ∧ (7 ≤ 7 ∧ 7 ≤ 30) ∧
    (phpass.parse (ofString "$P$5ohUJ.1sdQLBnRqVUTn0IW1crck0jX0")).map (fun p => { p with checksum := none }) =
      some (phpassSettings (ofString "$P$") (ofString "ohUJ.1sd") 7) := by decide

/-! ### bcrypt — `$2?$<cost:%02d>$<salt:22><checksum:31>`, `truncate_size = 72`, NUL refused.
`hash` / `verify` are `bcHashSecret` / `bcVerify`: the class validates the size of the ENCODED secret a second time
(`_norm_digest_args`), before the truncation policy and the NUL check. -/

theorem bcrypt_roundtrips (te : Bool) (ident salt : Str) (rounds : Nat) (hi : ident ∈ bcryptOkIdents) (hs : BcCanon 22 salt)
    (hr : 4 ≤ rounds ∧ rounds ≤ 31) : RoundTrips (bcryptHasher te) (bcryptSettings ident salt rounds) := by
  intro b c hc
  simp only [bcryptHasher, bcryptSettings] at hc ⊢
  have hcan := bcryptCore_canon _ b c hc
  have := Lemmas.Formats.bcrypt_parse_render
    { ident := ident, rounds := some (rounds : Int), salt := some salt, checksum := some c }
    ⟨hi, rfl, ⟨rounds, rfl, hr.1, hr.2⟩, ⟨salt, rfl, hs⟩, ⟨c, rfl, hcan⟩⟩
  simp only [this, toRes]

theorem bcrypt_ignores_checksum (te : Bool) : IgnoresChecksum (bcryptHasher te) := fun _ _ _ => rfl

/-- bcrypt: whatever `hash` returns verifies True for the same secret — idents `$2$` `$2a$` `$2y$` `$2b$`, every canonical 22-character
    salt (what `_norm_salt` leaves), every cost 4…31, either truncation policy -/
theorem bcrypt_verifies_own_hash (te : Bool) (s : Secret) (ident salt hs : Str) (rounds : Nat) (hi : ident ∈ bcryptOkIdents)
    (hsalt : BcCanon 22 salt) (hr : 4 ≤ rounds ∧ rounds ≤ 31)
    (hh : bcHashSecret (bcryptHasher te) s (bcryptSettings ident salt rounds) = .ok hs) : bcVerify (bcryptHasher te) s hs = .ok true := by
  obtain ⟨b, hl, hb, hbl, hh'⟩ := bcHashSecret_ok _ s _ hs hh
  rw [bcVerify_of_bytes _ s hs b hl hb hbl]
  exact verify_own_hash _ _ _ hs (bcrypt_roundtrips te ident salt rounds hi hsalt hr) (bcrypt_ignores_checksum te) hh'

/-- … and `hash` does return: at most 4096 characters AND at most 4096 encoded bytes, no NUL byte, at most 72 bytes when
    `truncate_error` is set -/
theorem bcrypt_hash_succeeds (te : Bool) (s : Secret) (b : Bytes) (ident salt : Str) (rounds : Nat) (hi : ident ∈ bcryptOkIdents)
    (hsalt : BcCanon 22 salt) (hr : 4 ≤ rounds ∧ rounds ≤ 31) (hv : s.len ≤ MAX_PASSWORD_SIZE) (hb : s.toBytes = .ok b)
    (hbl : b.length ≤ MAX_PASSWORD_SIZE) (h0 : 0 ∉ b) (ht : te = false ∨ b.length ≤ 72) :
    ∃ hs, bcHashSecret (bcryptHasher te) s (bcryptSettings ident salt rounds) = .ok hs := by
  obtain ⟨c, hc⟩ := bcryptCore_some (bcryptSettings ident salt rounds) b ident salt rounds rfl rfl rfl hi hsalt.1 hsalt.2.1 hr
  rw [bcHashSecret_of_bytes _ s _ b hv hb hbl]
  exact ⟨_, hashSecret_of_steps (bcryptHasher te) (.bytes b) _ b c hbl rfl (checkTruncate_ok _ b 72 rfl ht) (checkNul_ok _ b (Or.inr h0)) hc⟩

/-- a text secret within the character limit whose UTF-8 form exceeds it is refused by bcrypt (and only by the bcrypt classes) -/
theorem bcrypt_refuses_oversized_encoding (te : Bool) (s : Secret) (b : Bytes) (p : Parsed) (hv : s.len ≤ MAX_PASSWORD_SIZE)
    (hb : s.toBytes = .ok b) (hbl : b.length > MAX_PASSWORD_SIZE) : bcHashSecret (bcryptHasher te) s p = .error .sizeError := by
  have hv' : validateSecret s = .ok () := by
    unfold validateSecret
    have : ¬ s.len > MAX_PASSWORD_SIZE := by omega
    simp [this]
  unfold bcHashSecret bcChecksumOf
  simp only [hv', hb, hbl, if_true]

theorem bcrypt_identifies_own_hash (te : Bool) (s : Secret) (ident salt hs : Str) (rounds : Nat) (hi : ident ∈ bcryptOkIdents)
    (hsalt : BcCanon 22 salt) (hr : 4 ≤ rounds ∧ rounds ≤ 31)
    (hh : bcHashSecret (bcryptHasher te) s (bcryptSettings ident salt rounds) = .ok hs) : bcrypt.identify hs = true := by
  obtain ⟨b, _, _, _, hh'⟩ := bcHashSecret_ok _ s _ hs hh
  obtain ⟨b', c, _, _, _, _, hd, rfl⟩ := hashSecret_ok _ _ _ hs hh'
  exact Lemmas.Formats.bcrypt_identify_of_parse _ _ (by
    have := bcrypt_roundtrips te ident salt rounds hi hsalt hr b' c hd
    simp only [bcryptHasher] at this ⊢
    cases hp : bcryptParseWith bcryptIdents (bcryptRender { bcryptSettings ident salt rounds with checksum := some c }) with
    | none => simp [hp, toRes] at this
    | some q => simp only [hp, toRes, Except.ok.injEq] at this; subst this; exact hp)

/-- the documented equivalence of bcrypt: only the first 72 bytes are used.  Every NUL-free secret (within the size limits) with the
    same first 72 bytes verifies True. -/
theorem bcrypt_verifies_equivalent (te : Bool) (s s' : Secret) (b b' : Bytes) (ident salt hs : Str) (rounds : Nat)
    (hi : ident ∈ bcryptOkIdents) (hsalt : BcCanon 22 salt) (hr : 4 ≤ rounds ∧ rounds ≤ 31)
    (hh : bcHashSecret (bcryptHasher te) s (bcryptSettings ident salt rounds) = .ok hs)
    (hv' : s'.len ≤ MAX_PASSWORD_SIZE) (hb : s.toBytes = .ok b) (hb' : s'.toBytes = .ok b') (hbl' : b'.length ≤ MAX_PASSWORD_SIZE)
    (h0' : 0 ∉ b') (h72 : b'.take 72 = b.take 72) : bcVerify (bcryptHasher te) s' hs = .ok true := by
  obtain ⟨b0, hl, hb0, hbl, hh'⟩ := bcHashSecret_ok _ s _ hs hh
  rw [hb] at hb0
  cases hb0
  rw [bcVerify_of_bytes _ s' hs b' hv' hb' hbl']
  exact verify_equivalent _ (.bytes b) (.bytes b') _ hs b b' (bcrypt_roundtrips te ident salt rounds hi hsalt hr)
    (bcrypt_ignores_checksum te) hh' hbl' rfl rfl (checkNul_ok _ b' (Or.inr h0'))
    (by simp only [bcryptHasher, bcryptCore, h72])

/-- that class is the algorithm's own: the `secret[:72]` the class applies before the backend call loses nothing — the published
    bcrypt (`Spec.Formats.bcrypt`, every ident / cost / salt) gives the same checksum on the whole secret -/
theorem bcrypt_digest_is_spec_of_whole_secret (key : Bytes) (p : Parsed) :
    bcryptCore key p = (match Spec.Formats.bcrypt (stripDollars p.ident) (p.rounds.getD 0).toNat (p.salt.getD []) key with
      | some c => .ok c
      | none => .error .runtimeError) := by
  unfold bcryptCore
  rw [spec_formats_bcrypt_take72]
  cases Spec.Formats.bcrypt (stripDollars p.ident) (p.rounds.getD 0).toNat (p.salt.getD []) key <;> rfl

/-- text and its UTF-8 bytes are the same secret for bcrypt's own `hash` / `verify` too (when both pass the size checks) -/
theorem bcrypt_text_and_bytes_agree (te : Bool) (cps : List Nat) (b : Bytes) (p : Parsed) (hs : Str) (hu : utf8 cps = some b)
    (hlen : b.length ≤ MAX_PASSWORD_SIZE) (hl2 : cps.length ≤ MAX_PASSWORD_SIZE) :
    bcHashSecret (bcryptHasher te) (.text cps) p = bcHashSecret (bcryptHasher te) (.bytes b) p ∧
    bcVerify (bcryptHasher te) (.text cps) hs = bcVerify (bcryptHasher te) (.bytes b) hs := by
  have ht : (Secret.text cps).toBytes = .ok b := by simp [Secret.toBytes, hu]
  rw [bcHashSecret_of_bytes _ (.text cps) p b hl2 ht hlen, bcHashSecret_of_bytes _ (.bytes b) p b hlen rfl hlen,
    bcVerify_of_bytes _ (.text cps) hs b hl2 ht hlen, bcVerify_of_bytes _ (.bytes b) hs b hlen rfl hlen]
  exact ⟨rfl, rfl⟩

/-- the settings of `bcrypt.using(salt="CCCCCCCCCCCCCCCCCCCCC.", rounds=4, ident="2a").hash("U*U")` =
    `$2a$04$CCCCCCCCCCCCCCCCCCCCC.K7Qr0se1MxuggH4aP4YgB.U2Em1pGSK` on /repo satisfy the hypotheses, and the string parses to them
    (the EksBlowfish evaluation itself is checked through the compiled model by the correspondence run) -/
example : IDENT_2A ∈ bcryptOkIdents ∧ BcCanon 22 (ofString "CCCCCCCCCCCCCCCCCCCCC.") ∧ (4 ≤ 4 ∧ 4 ≤ 31) ∧
    (bcrypt.parse (ofString "$2a$04$CCCCCCCCCCCCCCCCCCCCC.K7Qr0se1MxuggH4aP4YgB.U2Em1pGSK")).map (fun p => { p with checksum := none }) =
      some (bcryptSettings IDENT_2A (ofString "CCCCCCCCCCCCCCCCCCCCC.") 4) :=
  ⟨by decide, ⟨by decide, by decide, by decide⟩, by omega, by decide +kernel⟩

/-! ### django_bcrypt — PrefixWrapper: `bcrypt$` + the bcrypt string -/

theorem django_bcrypt_verifies_own_hash (te : Bool) (s : Secret) (ident salt hs : Str) (rounds : Nat) (hi : ident ∈ bcryptOkIdents)
    (hsalt : BcCanon 22 salt) (hr : 4 ≤ rounds ∧ rounds ≤ 31)
    (hh : djangoBcryptHash te s (bcryptSettings ident salt rounds) = .ok hs) : djangoBcryptVerify te s hs = .ok true := by
  unfold djangoBcryptHash at hh
  cases h0 : bcHashSecret (bcryptHasher te) s (bcryptSettings ident salt rounds) with
  | error e => simp [h0] at hh
  | ok hs0 =>
    simp only [h0, Except.ok.injEq] at hh
    subst hh
    unfold djangoBcryptVerify
    rw [stripPrefix_append]
    exact bcrypt_verifies_own_hash te s ident salt hs0 rounds hi hsalt hr h0

theorem django_bcrypt_hash_succeeds (te : Bool) (s : Secret) (b : Bytes) (ident salt : Str) (rounds : Nat) (hi : ident ∈ bcryptOkIdents)
    (hsalt : BcCanon 22 salt) (hr : 4 ≤ rounds ∧ rounds ≤ 31) (hv : s.len ≤ MAX_PASSWORD_SIZE) (hb : s.toBytes = .ok b)
    (hbl : b.length ≤ MAX_PASSWORD_SIZE) (h0 : 0 ∉ b) (ht : te = false ∨ b.length ≤ 72) :
    ∃ hs, djangoBcryptHash te s (bcryptSettings ident salt rounds) = .ok hs := by
  obtain ⟨hs0, e⟩ := bcrypt_hash_succeeds te s b ident salt rounds hi hsalt hr hv hb hbl h0 ht
  exact ⟨_, by unfold djangoBcryptHash; rw [e]⟩

theorem django_bcrypt_identifies_own_hash (te : Bool) (s : Secret) (ident salt hs : Str) (rounds : Nat) (hi : ident ∈ bcryptOkIdents)
    (hsalt : BcCanon 22 salt) (hr : 4 ≤ rounds ∧ rounds ≤ 31)
    (hh : djangoBcryptHash te s (bcryptSettings ident salt rounds) = .ok hs) : django_bcrypt.identify hs = true := by
  unfold djangoBcryptHash at hh
  cases h0 : bcHashSecret (bcryptHasher te) s (bcryptSettings ident salt rounds) with
  | error e => simp [h0] at hh
  | ok hs0 =>
    simp only [h0, Except.ok.injEq] at hh
    subst hh
    have := bcrypt_identifies_own_hash te s ident salt hs0 rounds hi hsalt hr h0
    show (match stripPrefix DJANGO_BCRYPT_PREFIX (DJANGO_BCRYPT_PREFIX ++ hs0) with | some r => identAny bcryptIdents r | none => false) = true
    rw [stripPrefix_append]
    exact this

theorem django_bcrypt_verifies_equivalent (te : Bool) (s s' : Secret) (b b' : Bytes) (ident salt hs : Str) (rounds : Nat)
    (hi : ident ∈ bcryptOkIdents) (hsalt : BcCanon 22 salt) (hr : 4 ≤ rounds ∧ rounds ≤ 31)
    (hh : djangoBcryptHash te s (bcryptSettings ident salt rounds) = .ok hs)
    (hv' : s'.len ≤ MAX_PASSWORD_SIZE) (hb : s.toBytes = .ok b) (hb' : s'.toBytes = .ok b') (hbl' : b'.length ≤ MAX_PASSWORD_SIZE)
    (h0' : 0 ∉ b') (h72 : b'.take 72 = b.take 72) : djangoBcryptVerify te s' hs = .ok true := by
  unfold djangoBcryptHash at hh
  cases h0 : bcHashSecret (bcryptHasher te) s (bcryptSettings ident salt rounds) with
  | error e => simp [h0] at hh
  | ok hs0 =>
    simp only [h0, Except.ok.injEq] at hh
    subst hh
    unfold djangoBcryptVerify
    rw [stripPrefix_append]
    exact bcrypt_verifies_equivalent te s s' b b' ident salt hs0 rounds hi hsalt hr h0 hv' hb hb' hbl' h0' h72

example : IDENT_2Y ∈ bcryptOkIdents ∧
    (django_bcrypt.parse (ofString "bcrypt$$2y$04$CCCCCCCCCCCCCCCCCCCCC.HrBIdffznV69GxsYPA9PLSACo3k11D6")).map (fun p => { p with checksum := none }) =
      some (bcryptSettings IDENT_2Y (ofString "CCCCCCCCCCCCCCCCCCCCC.") 4) := ⟨by decide, by decide +kernel⟩

/-! ### bcrypt_sha256 — `$bcrypt-sha256$v=2,t=2b,r=<cost>$<salt:22>$<checksum:31>` (v2, HMAC-SHA256 keyed with the salt text) and
`$bcrypt-sha256$<2a|2b>,<cost>$<salt>$<checksum>` (v1, plain SHA256); nothing is truncated, NUL bytes are data -/

/-- the (version, ident) pairs `using()` accepts -/
def BsVersionOk (version : Nat) (ident : Str) : Prop :=
  (version = 1 ∧ (ident = IDENT_2A ∨ ident = IDENT_2B)) ∨ (version = 2 ∧ ident = IDENT_2B)

theorem bcrypt_sha256_digest_canon (b : Bytes) (p : Parsed) (c : Str) (h : bcryptSha256Digest b p = .ok c) : BcCanon 31 c := by
  unfold bcryptSha256Digest at h
  split at h
  · exact bcryptCore_canon _ _ _ h
  · split at h
    · exact bcryptCore_canon _ _ _ h
    · cases h

theorem bcrypt_sha256_roundtrips (version : Nat) (ident salt : Str) (rounds : Nat) (hv : BsVersionOk version ident)
    (hs : BcCanon 22 salt) (hr : 4 ≤ rounds ∧ rounds ≤ 31) :
    RoundTrips bcryptSha256Hasher (bcryptSha256Settings version ident salt rounds) := by
  intro b c hc
  simp only [bcryptSha256Hasher, bcryptSha256Settings] at hc ⊢
  have hcan := bcrypt_sha256_digest_canon _ _ c hc
  have := Lemmas.Formats.bcrypt_sha256_parse_render
    { ident := ident, rounds := some (rounds : Int), salt := some salt, checksum := some c, extra := versionExtra (version : Int) }
    ⟨by
      rcases hv with ⟨rfl, hi⟩ | ⟨rfl, hi⟩
      · exact Or.inl ⟨rfl, hi⟩
      · exact Or.inr ⟨rfl, hi⟩,
     ⟨rounds, rfl, hr.1, hr.2⟩, ⟨salt, rfl, hs⟩, ⟨c, rfl, hcan⟩⟩
  simp only [this, toRes]

theorem bcrypt_sha256_ignores_checksum : IgnoresChecksum bcryptSha256Hasher := fun _ _ _ => rfl

/-- bcrypt_sha256: whatever `hash` returns verifies True for the same secret — both versions, every canonical salt, every cost -/
theorem bcrypt_sha256_verifies_own_hash (s : Secret) (version : Nat) (ident salt hs : Str) (rounds : Nat) (hv : BsVersionOk version ident)
    (hsalt : BcCanon 22 salt) (hr : 4 ≤ rounds ∧ rounds ≤ 31)
    (hh : hashSecret bcryptSha256Hasher s (bcryptSha256Settings version ident salt rounds) = .ok hs) :
    verify bcryptSha256Hasher s hs = .ok true :=
  verify_own_hash _ s _ hs (bcrypt_sha256_roundtrips version ident salt rounds hv hsalt hr) bcrypt_sha256_ignores_checksum hh

/-- `hash` returns for every encodable secret within the size limit (any length, NUL bytes included); the salt is 22 bcrypt64
    characters ending in one of `final_salt_chars` = ".Oeu" (what `_norm_salt` / `_generate_salt` produce) -/
theorem bcrypt_sha256_hash_succeeds (s : Secret) (b : Bytes) (version : Nat) (ident salt : Str) (rounds : Nat)
    (hv : BsVersionOk version ident) (hs64 : allIn bc64 salt = true) (hl : salt.length = 22)
    (hlast : ∃ c ∈ ofString ".Oeu", salt.getLast? = some c) (hr : 4 ≤ rounds ∧ rounds ≤ 31)
    (hlen : s.len ≤ MAX_PASSWORD_SIZE) (hb : s.toBytes = .ok b) :
    ∃ hs, hashSecret bcryptSha256Hasher s (bcryptSha256Settings version ident salt rounds) = .ok hs := by
  have hi : ident ∈ bcryptOkIdents := by
    rcases hv with ⟨_, rfl | rfl⟩ | ⟨_, rfl⟩ <;> decide
  have hd : ∃ c, bcryptSha256Digest b (bcryptSha256Settings version ident salt rounds) = .ok c := by
    unfold bcryptSha256Digest
    split
    · exact bcryptCore_some (bcryptSha256Settings version ident salt rounds) _ ident salt rounds rfl rfl rfl hi hs64 hl hr
    · obtain ⟨c, hc, hg⟩ := hlast
      have : finalSaltOk (((bcryptSha256Settings version ident salt rounds).salt).getD []) = true := by
        simp only [bcryptSha256Settings, Option.getD_some, finalSaltOk, hg]
        simpa using hc
      simp only [this, if_true]
      exact bcryptCore_some (bcryptSha256Settings version ident salt rounds) _ ident salt rounds rfl rfl rfl hi hs64 hl hr
  obtain ⟨c, hc⟩ := hd
  exact ⟨_, hashSecret_of_steps bcryptSha256Hasher s _ b c hlen hb (checkTruncate_none _ b rfl) (checkNul_ok _ b (Or.inl rfl)) hc⟩

theorem bcrypt_sha256_identifies_own_hash (s : Secret) (version : Nat) (ident salt hs : Str) (rounds : Nat) (hv : BsVersionOk version ident)
    (hsalt : BcCanon 22 salt) (hr : 4 ≤ rounds ∧ rounds ≤ 31)
    (hh : hashSecret bcryptSha256Hasher s (bcryptSha256Settings version ident salt rounds) = .ok hs) :
    bcrypt_sha256.identify hs = true := by
  obtain ⟨b, c, _, _, _, _, hd, rfl⟩ := hashSecret_ok _ s _ hs hh
  exact Lemmas.Formats.bcrypt_sha256_identify_of_parse _ _ (by
    have := bcrypt_sha256_roundtrips version ident salt rounds hv hsalt hr b c hd
    simp only [bcryptSha256Hasher] at this ⊢
    cases hp : bcryptSha256Parse (bcryptSha256Render { bcryptSha256Settings version ident salt rounds with checksum := some c }) with
    | none => simp [hp, toRes] at this
    | some q => simp only [hp, toRes, Except.ok.injEq] at this; subst this; exact hp)

/-- `bcrypt_sha256.using(salt="CCCCCCCCCCCCCCCCCCCCC.", rounds=4).hash("x")` = `$bcrypt-sha256$v=2,t=2b,r=4$CCCCCCCCCCCCCCCCCCCCC.$fbH4…`
    and the v1 string `$bcrypt-sha256$2a,4$CCCCCCCCCCCCCCCCCCCCC.$lTxk…` of /repo: admissible settings, and what the strings parse to -/
example : BsVersionOk 2 IDENT_2B ∧ BsVersionOk 1 IDENT_2A ∧ (∃ c ∈ ofString ".Oeu", (ofString "CCCCCCCCCCCCCCCCCCCCC.").getLast? = some c) ∧
    (bcrypt_sha256.parse (ofString "$bcrypt-sha256$v=2,t=2b,r=4$CCCCCCCCCCCCCCCCCCCCC.$fbH4syBGy3GSVQvhtjJF65iMFKuVsOa")).map
      (fun p => { p with checksum := none }) = some (bcryptSha256Settings 2 IDENT_2B (ofString "CCCCCCCCCCCCCCCCCCCCC.") 4) ∧
    (bcrypt_sha256.parse (ofString "$bcrypt-sha256$2a,4$CCCCCCCCCCCCCCCCCCCCC.$lTxkryLmgx28yZZlMkEOZ0OZqk6lH1a")).map
      (fun p => { p with checksum := none }) = some (bcryptSha256Settings 1 IDENT_2A (ofString "CCCCCCCCCCCCCCCCCCCCC.") 4) :=
  ⟨Or.inr ⟨rfl, rfl⟩, Or.inl ⟨rfl, Or.inl rfl⟩, ⟨46, by decide, by decide⟩, by decide +kernel, by decide +kernel⟩

/-! ### django_bcrypt_sha256 — `bcrypt_sha256$` + a bcrypt string over `hexlify(sha256(secret))` -/

theorem django_bcrypt_sha256_roundtrips (ident salt : Str) (rounds : Nat) (hi : ident ∈ bcryptOkIdents) (hs : BcCanon 22 salt)
    (hr : 4 ≤ rounds ∧ rounds ≤ 31) : RoundTrips djangoBcryptSha256Hasher (bcryptSettings ident salt rounds) := by
  intro b c hc
  simp only [djangoBcryptSha256Hasher, bcryptSettings] at hc ⊢
  have hcan := bcryptCore_canon _ _ c hc
  have := Lemmas.Formats.django_bcrypt_sha256_parse_render
    { ident := ident, rounds := some (rounds : Int), salt := some salt, checksum := some c }
    ⟨hi, rfl, ⟨rounds, rfl, hr.1, hr.2⟩, ⟨salt, rfl, hs⟩, ⟨c, rfl, hcan⟩⟩
  simp only [this, toRes]

theorem django_bcrypt_sha256_ignores_checksum : IgnoresChecksum djangoBcryptSha256Hasher := fun _ _ _ => rfl

theorem django_bcrypt_sha256_verifies_own_hash (s : Secret) (ident salt hs : Str) (rounds : Nat) (hi : ident ∈ bcryptOkIdents)
    (hsalt : BcCanon 22 salt) (hr : 4 ≤ rounds ∧ rounds ≤ 31)
    (hh : hashSecret djangoBcryptSha256Hasher s (bcryptSettings ident salt rounds) = .ok hs) :
    verify djangoBcryptSha256Hasher s hs = .ok true :=
  verify_own_hash _ s _ hs (django_bcrypt_sha256_roundtrips ident salt rounds hi hsalt hr) django_bcrypt_sha256_ignores_checksum hh

theorem django_bcrypt_sha256_hash_succeeds (s : Secret) (b : Bytes) (ident salt : Str) (rounds : Nat) (hi : ident ∈ bcryptOkIdents)
    (hsalt : BcCanon 22 salt) (hr : 4 ≤ rounds ∧ rounds ≤ 31) (hlen : s.len ≤ MAX_PASSWORD_SIZE) (hb : s.toBytes = .ok b) :
    ∃ hs, hashSecret djangoBcryptSha256Hasher s (bcryptSettings ident salt rounds) = .ok hs := by
  obtain ⟨c, hc⟩ := bcryptCore_some (bcryptSettings ident salt rounds) (Spec.Formats.hexLower (Spec.SHA256.sha256 b)) ident salt rounds
    rfl rfl rfl hi hsalt.1 hsalt.2.1 hr
  exact ⟨_, hashSecret_of_steps djangoBcryptSha256Hasher s _ b c hlen hb (checkTruncate_none _ b rfl) (checkNul_ok _ b (Or.inl rfl)) hc⟩

theorem django_bcrypt_sha256_identifies_own_hash (s : Secret) (ident salt hs : Str) (rounds : Nat) (hi : ident ∈ bcryptOkIdents)
    (hsalt : BcCanon 22 salt) (hr : 4 ≤ rounds ∧ rounds ≤ 31)
    (hh : hashSecret djangoBcryptSha256Hasher s (bcryptSettings ident salt rounds) = .ok hs) :
    django_bcrypt_sha256.identify hs = true := by
  obtain ⟨b, c, _, _, _, _, hd, rfl⟩ := hashSecret_ok _ s _ hs hh
  exact Lemmas.Formats.django_bcrypt_sha256_identify_of_parse _ _ (by
    have := django_bcrypt_sha256_roundtrips ident salt rounds hi hsalt hr b c hd
    simp only [djangoBcryptSha256Hasher] at this ⊢
    cases hp : djangoBcryptSha256Parse (DJANGO_BCRYPT_SHA256_PREFIX ++ bcryptRender { bcryptSettings ident salt rounds with checksum := some c }) with
    | none => simp [hp, toRes] at this
    | some q => simp only [hp, toRes, Except.ok.injEq] at this; subst this; exact hp)

example : (django_bcrypt_sha256.parse (ofString "bcrypt_sha256$$2a$04$CCCCCCCCCCCCCCCCCCCCC.as6qOb8MfMQp2eEHs3jCxQkOjs1vU7q")).map
      (fun p => { p with checksum := none }) = some (bcryptSettings IDENT_2A (ofString "CCCCCCCCCCCCCCCCCCCCC.") 4) := by decide +kernel

/-! ### bsdi_crypt, continued: the eighth bit of every byte is ignored (all bytes count, nothing is truncated) -/

/-- bsdi_crypt's documented equivalence: secrets that differ only in the eighth bit of some bytes are one password -/
theorem bsdi_crypt_verifies_equivalent (s s' : Secret) (b b' : Bytes) (salt hs : Str) (rounds : Nat) (hsalt : allIn h64 salt = true)
    (hl : salt.length = 4) (hr : 1 ≤ rounds ∧ rounds ≤ 16777215) (hh : hashSecret bsdiHasher s (bsdiSettings salt rounds) = .ok hs)
    (hv' : s'.len ≤ MAX_PASSWORD_SIZE) (hb : s.toBytes = .ok b) (hb' : s'.toBytes = .ok b') (h0' : 0 ∉ b') (h7 : Same7 b' b) :
    verify bsdiHasher s' hs = .ok true :=
  verify_equivalent _ s s' _ hs b b' (bsdi_crypt_roundtrips salt rounds hsalt hl hr) bsdi_crypt_ignores_checksum hh hv' hb hb'
    (checkNul_ok _ b' (Or.inr h0'))
    (by simp only [bsdiHasher, bsdiSettings, Option.getD_some, Int.toNat_natCast]; rw [bsdiCrypt_same7 b' b salt rounds h7])

/-! ### bigcrypt — `<salt:2><checksum:11k>`, one des_crypt block per 8 bytes; NUL refused, nothing truncated -/

theorem bigcrypt_roundtrips (salt : Str) (hs : allIn h64 salt = true) (hl : salt.length = 2) :
    RoundTrips bigcryptHasher (desSettings salt) := by
  intro b c hc
  simp only [bigcryptHasher, desSettings, Option.getD_some, Except.ok.injEq] at hc ⊢
  subst hc
  have hok := bigcrypt_ok b salt
  have := Lemmas.Formats.bigcrypt_parse_render { salt := some salt, checksum := some (Spec.Formats.bigcrypt b salt) }
    ⟨rfl, rfl, rfl, ⟨salt, rfl, hs, hl⟩, ⟨_, rfl, hok.1, hok.2.1, hok.2.2⟩⟩
  simp only [this, toRes]

theorem bigcrypt_ignores_checksum : IgnoresChecksum bigcryptHasher := fun _ _ _ => rfl

theorem bigcrypt_verifies_own_hash (s : Secret) (salt hs : Str) (hsalt : allIn h64 salt = true) (hl : salt.length = 2)
    (hh : hashSecret bigcryptHasher s (desSettings salt) = .ok hs) : verify bigcryptHasher s hs = .ok true :=
  verify_own_hash _ s _ hs (bigcrypt_roundtrips salt hsalt hl) bigcrypt_ignores_checksum hh

theorem bigcrypt_hash_succeeds (s : Secret) (b : Bytes) (salt : Str) (hv : s.len ≤ MAX_PASSWORD_SIZE) (hb : s.toBytes = .ok b)
    (h0 : 0 ∉ b) : ∃ hs, hashSecret bigcryptHasher s (desSettings salt) = .ok hs :=
  ⟨_, hashSecret_of_steps bigcryptHasher s _ b _ hv hb (checkTruncate_none _ b rfl) (checkNul_ok _ b (Or.inr h0)) rfl⟩

theorem bigcrypt_identifies_own_hash (s : Secret) (salt hs : Str) (hsalt : allIn h64 salt = true) (hl : salt.length = 2)
    (hh : hashSecret bigcryptHasher s (desSettings salt) = .ok hs) : bigcrypt.identify hs = true := by
  obtain ⟨b, c, _, _, _, _, hd, rfl⟩ := hashSecret_ok _ s _ hs hh
  exact Lemmas.Formats.bigcrypt_identify_of_parse _ _ (by
    have := bigcrypt_roundtrips salt hsalt hl b c hd
    simp only [bigcryptHasher] at this ⊢
    cases hp : bigcryptParse (saltChkRender { desSettings salt with checksum := some c }) with
    | none => simp [hp, toRes] at this
    | some q => simp only [hp, toRes, Except.ok.injEq] at this; subst this; exact hp)

/-- bigcrypt: secrets that differ only in the eighth bit of some bytes are one password -/
theorem bigcrypt_verifies_equivalent (s s' : Secret) (b b' : Bytes) (salt hs : Str) (hsalt : allIn h64 salt = true) (hl : salt.length = 2)
    (hh : hashSecret bigcryptHasher s (desSettings salt) = .ok hs) (hv' : s'.len ≤ MAX_PASSWORD_SIZE) (hb : s.toBytes = .ok b)
    (hb' : s'.toBytes = .ok b') (h0' : 0 ∉ b') (h7 : Same7 b' b) : verify bigcryptHasher s' hs = .ok true :=
  verify_equivalent _ s s' _ hs b b' (bigcrypt_roundtrips salt hsalt hl) bigcrypt_ignores_checksum hh hv' hb hb'
    (checkNul_ok _ b' (Or.inr h0'))
    (by simp only [bigcryptHasher, desSettings, Option.getD_some]; rw [bigcrypt_same7 b' b salt h7])

/-- the documented overlap with des_crypt: for a secret of at most eight bytes bigcrypt's `hash` returns des_crypt's string
    (so each class verifies the other's hash of such a secret) -/
theorem bigcrypt_le8_is_des_crypt (s : Secret) (b : Bytes) (salt : Str) (hb : s.toBytes = .ok b) (h8 : b.length ≤ 8) :
    hashSecret bigcryptHasher s (desSettings salt) = hashSecret (desHasher false) s (desSettings salt) := by
  unfold hashSecret checksumOf checkTruncate checkNul
  simp only [hb, bigcryptHasher, desHasher, desSettings, Option.getD_some, Lemmas.C02Formats.bigcrypt_short b salt h8,
    Bool.false_eq_true, false_and, if_false]

/-- `bigcrypt.using(salt="S/").hash("passphrase")` (the documentation's example, reproduced on /repo) -/
example : hashSecret bigcryptHasher (.text (ofString "passphrase")) (desSettings (ofString "S/")) = .ok (ofString "S/8NbAAlzbYO66hAa9XZyWy2") := by
  decide +kernel

/-! ### crypt16 — `<salt:2><checksum:22>`, `truncate_size = 16`; NUL bytes are NOT refused -/

theorem crypt16_roundtrips (te : Bool) (salt : Str) (hs : allIn h64 salt = true) (hl : salt.length = 2) :
    RoundTrips (crypt16Hasher te) (desSettings salt) := by
  intro b c hc
  simp only [crypt16Hasher, desSettings, Option.getD_some, Except.ok.injEq] at hc ⊢
  subst hc
  have hok := crypt16_ok b salt
  have := Lemmas.Formats.crypt16_parse_render { salt := some salt, checksum := some (Spec.Formats.crypt16 b salt) }
    ⟨rfl, rfl, rfl, ⟨salt, rfl, hs, hl⟩, ⟨_, rfl, hok.1, hok.2⟩⟩
  simp only [this, toRes]

theorem crypt16_ignores_checksum (te : Bool) : IgnoresChecksum (crypt16Hasher te) := fun _ _ _ => rfl

theorem crypt16_verifies_own_hash (te : Bool) (s : Secret) (salt hs : Str) (hsalt : allIn h64 salt = true) (hl : salt.length = 2)
    (hh : hashSecret (crypt16Hasher te) s (desSettings salt) = .ok hs) : verify (crypt16Hasher te) s hs = .ok true :=
  verify_own_hash _ s _ hs (crypt16_roundtrips te salt hsalt hl) (crypt16_ignores_checksum te) hh

/-- crypt16 hashes every encodable secret within the size limit — NUL bytes included — unless `truncate_error` is set and it is
    longer than 16 bytes -/
theorem crypt16_hash_succeeds (te : Bool) (s : Secret) (b : Bytes) (salt : Str) (hv : s.len ≤ MAX_PASSWORD_SIZE) (hb : s.toBytes = .ok b)
    (ht : te = false ∨ b.length ≤ 16) : ∃ hs, hashSecret (crypt16Hasher te) s (desSettings salt) = .ok hs :=
  ⟨_, hashSecret_of_steps (crypt16Hasher te) s _ b _ hv hb (checkTruncate_ok _ b 16 rfl ht) (checkNul_ok _ b (Or.inl rfl)) rfl⟩

theorem crypt16_identifies_own_hash (te : Bool) (s : Secret) (salt hs : Str) (hsalt : allIn h64 salt = true) (hl : salt.length = 2)
    (hh : hashSecret (crypt16Hasher te) s (desSettings salt) = .ok hs) : crypt16.identify hs = true := by
  obtain ⟨b, c, _, _, _, _, hd, rfl⟩ := hashSecret_ok _ s _ hs hh
  exact Lemmas.Formats.crypt16_identify_of_parse _ _ (by
    have := crypt16_roundtrips te salt hsalt hl b c hd
    simp only [crypt16Hasher] at this ⊢
    cases hp : crypt16Parse (saltChkRender { desSettings salt with checksum := some c }) with
    | none => simp [hp, toRes] at this
    | some q => simp only [hp, toRes, Except.ok.injEq] at this; subst this; exact hp)

/-- crypt16's documented equivalence: the low seven bits of the first sixteen bytes (zero past the end) are the password -/
theorem crypt16_verifies_equivalent (te : Bool) (s s' : Secret) (b b' : Bytes) (salt hs : Str) (hsalt : allIn h64 salt = true)
    (hl : salt.length = 2) (hh : hashSecret (crypt16Hasher te) s (desSettings salt) = .ok hs) (hv' : s'.len ≤ MAX_PASSWORD_SIZE)
    (hb : s.toBytes = .ok b) (hb' : s'.toBytes = .ok b') (h7 : ∀ i, i < 16 → b'.getD i 0 % 128 = b.getD i 0 % 128) :
    verify (crypt16Hasher te) s' hs = .ok true :=
  verify_equivalent _ s s' _ hs b b' (crypt16_roundtrips te salt hsalt hl) (crypt16_ignores_checksum te) hh hv' hb hb'
    (checkNul_ok _ b' (Or.inl rfl))
    (by simp only [crypt16Hasher, desSettings, Option.getD_some]; rw [crypt16_congr b' b salt h7])

/-- `crypt16.using(salt="aa").hash("passphrase")` (documentation example, reproduced on /repo); a NUL byte is hashed as data, and is
    the same key byte as 0x80 -/
example : hashSecret (crypt16Hasher false) (.text (ofString "passphrase")) (desSettings (ofString "aa")) = .ok (ofString "aaX/UmCcBrceQ0kQGGWKTbuE") ∧
    (∃ hs, hashSecret (crypt16Hasher true) (.bytes [97, 0, 98]) (desSettings (ofString "aa")) = .ok hs ∧
      verify (crypt16Hasher true) (.bytes [97, 0x80, 98]) hs = .ok true) := by
  refine ⟨by decide +kernel, ?_⟩
  obtain ⟨hs, e⟩ := crypt16_hash_succeeds true (.bytes [97, 0, 98]) [97, 0, 98] (ofString "aa") (by decide) rfl (Or.inr (by decide))
  exact ⟨hs, e, crypt16_verifies_equivalent true _ (.bytes [97, 0x80, 98]) [97, 0, 98] [97, 0x80, 98] (ofString "aa") hs (by decide) rfl e
    (by decide) rfl rfl (by decide)⟩

/-! ### django_des_crypt — `crypt$<salt>$<salt[:2]><checksum:11>`: des_crypt under the first two salt characters -/

theorem django_des_crypt_roundtrips (te : Bool) (salt : Str) (hs : allIn h64 salt = true) (hl : 2 ≤ salt.length) :
    RoundTrips (djangoDesHasher te) (djangoDesSettings salt) := by
  intro b c hc
  simp only [djangoDesHasher, djangoDesSettings, Option.getD_some, Except.ok.injEq] at hc ⊢
  subst hc
  have hok := desCrypt_ok b (salt.take 2)
  have := Lemmas.Formats.django_des_parse_render
    { ident := DJANGO_DES_IDENT, salt := some salt, checksum := some (Spec.Formats.desCrypt b (salt.take 2)) }
    ⟨rfl, rfl, rfl, ⟨salt, rfl, hs, hl⟩, ⟨_, rfl, hok.1, hok.2⟩⟩
  simp only [this, toRes]

theorem django_des_crypt_ignores_checksum (te : Bool) : IgnoresChecksum (djangoDesHasher te) := fun _ _ _ => rfl

theorem django_des_crypt_verifies_own_hash (te : Bool) (s : Secret) (salt hs : Str) (hsalt : allIn h64 salt = true) (hl : 2 ≤ salt.length)
    (hh : hashSecret (djangoDesHasher te) s (djangoDesSettings salt) = .ok hs) : verify (djangoDesHasher te) s hs = .ok true :=
  verify_own_hash _ s _ hs (django_des_crypt_roundtrips te salt hsalt hl) (django_des_crypt_ignores_checksum te) hh

theorem django_des_crypt_hash_succeeds (te : Bool) (s : Secret) (b : Bytes) (salt : Str) (hv : s.len ≤ MAX_PASSWORD_SIZE)
    (hb : s.toBytes = .ok b) (h0 : 0 ∉ b) (ht : te = false ∨ b.length ≤ 8) :
    ∃ hs, hashSecret (djangoDesHasher te) s (djangoDesSettings salt) = .ok hs :=
  ⟨_, hashSecret_of_steps (djangoDesHasher te) s _ b _ hv hb (checkTruncate_ok _ b 8 rfl ht) (checkNul_ok _ b (Or.inr h0)) rfl⟩

theorem django_des_crypt_identifies_own_hash (te : Bool) (s : Secret) (salt hs : Str) (hsalt : allIn h64 salt = true) (hl : 2 ≤ salt.length)
    (hh : hashSecret (djangoDesHasher te) s (djangoDesSettings salt) = .ok hs) : django_des_crypt.identify hs = true := by
  obtain ⟨b, c, _, _, _, _, hd, rfl⟩ := hashSecret_ok _ s _ hs hh
  exact Lemmas.Formats.django_des_identify_of_parse _ _ (by
    have := django_des_crypt_roundtrips te salt hsalt hl b c hd
    simp only [djangoDesHasher] at this ⊢
    cases hp : djangoDesParse (djangoDesRender { djangoDesSettings salt with checksum := some c }) with
    | none => simp [hp, toRes] at this
    | some q => simp only [hp, toRes, Except.ok.injEq] at this; subst this; exact hp)

theorem django_des_crypt_verifies_equivalent (te : Bool) (s s' : Secret) (b b' : Bytes) (salt hs : Str) (hsalt : allIn h64 salt = true)
    (hl : 2 ≤ salt.length) (hh : hashSecret (djangoDesHasher te) s (djangoDesSettings salt) = .ok hs)
    (hv' : s'.len ≤ MAX_PASSWORD_SIZE) (hb : s.toBytes = .ok b) (hb' : s'.toBytes = .ok b') (h0' : 0 ∉ b')
    (h7 : ∀ i, i < 8 → b'.getD i 0 % 128 = b.getD i 0 % 128) : verify (djangoDesHasher te) s' hs = .ok true :=
  verify_equivalent _ s s' _ hs b b' (django_des_crypt_roundtrips te salt hsalt hl) (django_des_crypt_ignores_checksum te) hh hv' hb hb'
    (checkNul_ok _ b' (Or.inr h0'))
    (by simp only [djangoDesHasher, djangoDesSettings, Option.getD_some]; rw [desCrypt_congr b' b _ h7])

/-- `django_des_crypt.using(salt="abcde").hash("x")` = `crypt$abcde$abiQ6Ep3EYTHc` on /repo: admissible settings, and what the string parses to
    (the DES evaluation is the one of the des_crypt example; the string itself goes through the compiled model in the correspondence run) -/
example : allIn h64 (ofString "abcde") = true ∧ 2 ≤ (ofString "abcde").length ∧
    (django_des_crypt.parse (ofString "crypt$abcde$abiQ6Ep3EYTHc")).map (fun p => { p with checksum := none }) =
      some (djangoDesSettings (ofString "abcde")) := by decide

/-! ### sun_md5_crypt — `$md5[,rounds=N]$<salt>$$<checksum:22>`; the "bare salt" form `$md5[,rounds=N]$<salt>$<checksum>` is read but never
made by `hash()`.  Nothing is truncated, NUL bytes are data. -/

/-- admissible: any hash64 salt, rounds up to 2^32-1-4096; a BARE salt must not be empty (C07: `$md5$$<chk>` reads back as an empty
    non-bare salt — recorded finding sun-md5-bare-empty-salt; `hash()` only makes non-bare strings) -/
theorem sun_md5_crypt_roundtrips (salt : Str) (rounds : Nat) (bare : Bool) (hs : allIn h64 salt = true) (hr : rounds ≤ 4294963199)
    (hbare : bare = false ∨ salt ≠ []) : RoundTrips sunHasher (sunSettings salt rounds bare) := by
  intro b c hc
  simp only [sunHasher, sunSettings, Option.getD_some, Int.toNat_natCast, Except.ok.injEq] at hc ⊢
  subst hc
  have hok := Props.C01Crypt.md5_encode_ok (fun i => (Spec.Formats.sunLoop (4096 + rounds) 0
    (Spec.MD5.md5 (b ++ Spec.Formats.sunConfig salt rounds (bareFlag bare == bareFlag true)))).getD i 0)
  have := Lemmas.Formats.sun_parse_render
    { rounds := some (rounds : Int), salt := some salt, extra := bareFlag bare,
      checksum := some (Spec.Formats.sunMd5Crypt b salt rounds (bareFlag bare == bareFlag true)) }
    ⟨rfl, ⟨rounds, rfl, hr⟩, ⟨_, rfl, hok.1, hok.2⟩, ⟨salt, rfl, hs, by
      rcases hbare with rfl | hne
      · exact Or.inl rfl
      · cases bare
        · exact Or.inl rfl
        · exact Or.inr ⟨rfl, hne⟩⟩⟩
  simp only [this, toRes]

theorem sun_md5_crypt_ignores_checksum : IgnoresChecksum sunHasher := fun _ _ _ => rfl

theorem sun_md5_crypt_verifies_own_hash (s : Secret) (salt hs : Str) (rounds : Nat) (bare : Bool) (hsalt : allIn h64 salt = true)
    (hr : rounds ≤ 4294963199) (hbare : bare = false ∨ salt ≠ [])
    (hh : hashSecret sunHasher s (sunSettings salt rounds bare) = .ok hs) : verify sunHasher s hs = .ok true :=
  verify_own_hash _ s _ hs (sun_md5_crypt_roundtrips salt rounds bare hsalt hr hbare) sun_md5_crypt_ignores_checksum hh

theorem sun_md5_crypt_hash_succeeds (s : Secret) (b : Bytes) (salt : Str) (rounds : Nat) (bare : Bool) (hv : s.len ≤ MAX_PASSWORD_SIZE)
    (hb : s.toBytes = .ok b) : ∃ hs, hashSecret sunHasher s (sunSettings salt rounds bare) = .ok hs :=
  ⟨_, hashSecret_of_steps sunHasher s _ b _ hv hb (checkTruncate_none _ b rfl) (checkNul_ok _ b (Or.inl rfl)) rfl⟩

theorem sun_md5_crypt_identifies_own_hash (s : Secret) (salt hs : Str) (rounds : Nat) (bare : Bool) (hsalt : allIn h64 salt = true)
    (hr : rounds ≤ 4294963199) (hbare : bare = false ∨ salt ≠ [])
    (hh : hashSecret sunHasher s (sunSettings salt rounds bare) = .ok hs) : sun_md5_crypt.identify hs = true := by
  obtain ⟨b, c, _, _, _, _, hd, rfl⟩ := hashSecret_ok _ s _ hs hh
  exact Lemmas.Formats.sun_identify_of_parse _ _ (by
    have := sun_md5_crypt_roundtrips salt rounds bare hsalt hr hbare b c hd
    simp only [sunHasher] at this ⊢
    cases hp : sunParse (sunRender { sunSettings salt rounds bare with checksum := some c }) with
    | none => simp [hp, toRes] at this
    | some q => simp only [hp, toRes, Except.ok.injEq] at this; subst this; exact hp)

/-- the hypothesis `bare = false ∨ salt ≠ []` cannot be dropped: the bare form with an empty salt does not read back as itself
    (whatever the 22 checksum characters are) — only reachable through `genhash` / hand-made strings, not through `hash()` -/
theorem sun_md5_crypt_bare_empty_salt_counterexample :
    sunParse (sunRender { sunSettings [] 0 true with checksum := some (ofString "EN61hQNImogOmjGbxVW6k.") }) =
      some { sunSettings [] 0 false with checksum := some (ofString "EN61hQNImogOmjGbxVW6k.") } := by decide +kernel

/-- `sun_md5_crypt.using(salt="", rounds=0).hash("x")` = `$md5$$$EN61hQNImogOmjGbxVW6k.` on /repo: admissible settings, and what the string
    parses to (4096 MD5 rounds are evaluated by the compiled model in the correspondence run, not in the kernel) -/
example : allIn h64 ([] : Str) = true ∧ (0 ≤ 4294963199) ∧ ((false = false) ∨ ([] : Str) ≠ []) ∧
    (sun_md5_crypt.parse (ofString "$md5$$$EN61hQNImogOmjGbxVW6k.")).map (fun p => { p with checksum := none }) = some (sunSettings [] 0 false) :=
  ⟨rfl, by omega, Or.inl rfl, by decide +kernel⟩

end Props.C01DesBcrypt
