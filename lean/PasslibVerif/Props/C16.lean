import PasslibVerif.Model.Apache
namespace Props.C16
open Py Model.Apache
theorem placeholder_build : St.empty.records = [] := rfl
end Props.C16
