import PasslibVerif.Lemmas.ApacheExport
/-
C16 — htpasswd/htdigest files stay a faithful user database under any edit history.
-/
namespace Props.C16
open Py Model.Apache Lemmas.Apache

/-! ### the `_records` / `_source` invariant holds in every reachable state -/
theorem inv_init : Inv St.empty := inv_empty

theorem inv_after_load (digest : Bool) (data : Bytes) (s : St) (h : loadString digest data = .ok s) : Inv s :=
  inv_load digest _ s h

theorem inv_preserved (digest : Bool) (vau : Bytes → Bytes → Bool × Option Bytes) (s : St) (op : Op) (h : Inv s) :
    Inv (step digest vau s op) := inv_step digest vau s op h

/-- every history (any number of operations, any arguments, any context behaviour, failed
    operations included) from the empty file — or from any loaded file — stays consistent -/
theorem inv_reachable (digest : Bool) (vau : Bytes → Bytes → Bool × Option Bytes) (ops : List Op) :
    Inv (run digest vau St.empty ops) := inv_run digest vau ops St.empty inv_empty

/-! ### export: exactly the current users with their current hashes, each once -/
theorem each_key_once (digest : Bool) (vau : Bytes → Bytes → Bool × Option Bytes) (ops : List Op) :
    ((emitted (run digest vau St.empty ops)).map (·.1)).Nodup :=
  emitted_keys_nodup _ (inv_reachable digest vau ops)

theorem export_is_current_db (digest : Bool) (vau : Bytes → Bytes → Bool × Option Bytes) (ops : List Op)
    (k : Key) (v : Bytes) :
    (k, v) ∈ emitted (run digest vau St.empty ops) ↔ lookup k (run digest vau St.empty ops).records = some v :=
  mem_emitted_iff _ (inv_reachable digest vau ops) k v

/-- the exported lines are the source tokens in order: skipped text verbatim, live records rendered -/
theorem export_lines (s : St) :
    iterLines s = s.source.filterMap fun
      | .skipped t => some t
      | .record k => (lookup k s.records).map (renderRecord k) := iterLines_eq s

theorem untouched_tokens_in_place (digest : Bool) (vau : Bytes → Bytes → Bool × Option Bytes) (s : St) (op : Op)
    (hop : ∀ d, op ≠ Op.load d) : s.source <+: (step digest vau s op).source := source_prefix digest vau s op hop

/-! ### byte level: a rendered record line parses back to the same record -/
theorem parse_render_passwd (u h : Bytes) (hu : 58 ∉ u) (hh : PlainHash h) :
    parseRecord false (renderRecord ⟨u, none⟩ h) = .ok (⟨u, none⟩, h) := Lemmas.Apache.parse_render_passwd u h hu hh

theorem parse_render_digest (u r h : Bytes) (hu : 58 ∉ u) (hr : 58 ∉ r) (hh : PlainHash h) :
    parseRecord true (renderRecord ⟨u, some r⟩ h) = .ok (⟨u, some r⟩, h) :=
  Lemmas.Apache.parse_render_digest u r h hu hr hh

/-- accepted names contain no separator / control character and are at most 255 bytes -/
theorem accepted_names (v w : Bytes) (h : encodeField v = .ok w) :
    w = v ∧ 58 ∉ v ∧ 10 ∉ v ∧ 13 ∉ v ∧ 9 ∉ v ∧ 0 ∉ v ∧ v.length ≤ 255 := encodeField_ok_no_colon v w h

theorem bad_name_refused (s : St) (user : Bytes) (realm : Option Bytes) (hash : Bytes)
    (hbad : user.length > 255 ∨ ∃ c ∈ user, c ∈ invalidFieldChars) :
    setHash s user realm hash = .error .valueError ∧ delete s user realm = .error .valueError ∧
    getHash s user realm = .error .valueError := bad_field_refused s user realm hash hbad

/-- the refused bytes and the bound are the ones the property names, as read from passlib/apache.py on this run:
    ':' (58), LF (10), CR (13), TAB (9), NUL (0); more than 255 bytes -/
theorem refused_bytes_and_bound : invalidFieldChars = [58, 10, 13, 9, 0] ∧ maxFieldLen = 255 :=
  ⟨invalidFieldChars_eq, maxFieldLen_eq⟩

/-- … hence a name with any of them, or a longer one, is refused by every method (state unchanged: the methods return the error) -/
theorem separator_or_overlong_name_refused (s : St) (user : Bytes) (realm : Option Bytes) (hash : Bytes)
    (hbad : 255 < user.length ∨ 58 ∈ user ∨ 10 ∈ user ∨ 13 ∈ user ∨ 9 ∈ user ∨ 0 ∈ user) :
    setHash s user realm hash = .error .valueError ∧ delete s user realm = .error .valueError ∧
    getHash s user realm = .error .valueError := by
  apply bad_field_refused
  rcases hbad with h | h | h | h | h | h
  · exact Or.inl h
  all_goals exact Or.inr ⟨_, h, by rw [invalidFieldChars_eq]; decide⟩

/-! ### dictionary semantics of the operations (refinement to a finite map) -/
theorem get_after_set (s : St) (k : Key) (v : Bytes) : lookup k (setRecord s k v).1.records = some v :=
  lookup_setItem_self k v s.records
theorem get_other_after_set (s : St) (k k2 : Key) (v : Bytes) (h : k2 ≠ k) :
    lookup k2 (setRecord s k v).1.records = lookup k2 s.records := lookup_setItem_other k k2 v h s.records
theorem get_after_delete (k : Key) (r : List (Key × Bytes)) : lookup k (delItem k r) = none := lookup_delItem_self k r
theorem get_other_after_delete (k k2 : Key) (r : List (Key × Bytes)) (h : k2 ≠ k) :
    lookup k2 (delItem k r) = lookup k2 r := lookup_delItem_other k k2 h r

/-- check_password: None for unknown users; otherwise the context's verdict on the STORED hash; an upgraded
    hash is stored exactly when the context returns one for a correct password -/
theorem check_password_spec (vau : Bytes → Bytes → Bool × Option Bytes) (s : St) (user pwd : Bytes) (k : Key)
    (hk : encodeKey user none = .ok k) :
    (lookup k s.records = none → checkPassword vau s user pwd = .ok (s, none)) ∧
    (∀ h, lookup k s.records = some h →
      ∃ s', checkPassword vau s user pwd = .ok (s', some (vau pwd h).1) ∧
        (lookup k s'.records = match vau pwd h with | (true, some new) => some new | _ => some h)) := by
  constructor
  · intro hn; simp [checkPassword, hk, hn]
  · intro h hl
    simp only [checkPassword, hk, hl]
    rcases hv : vau pwd h with ⟨ok, new⟩
    cases ok <;> cases new <;> simp [hl, lookup_setItem_self]

/-! ### non-vacuity: the delete-then-re-add history that used to corrupt the file -/
def u1 : Bytes := [117, 49]
example : toString (run false (fun _ _ => (false, none)) St.empty
    [.load [117,49,58,104,10], .delete u1 none, .setHash u1 none [104,50]]) = [117,49,58,104,50,10] := by decide
example : PlainHash [104, 50] ∧ (58 : Nat) ∉ u1 := by
  refine ⟨⟨by decide, ?_⟩, by decide⟩
  intro c hc; simp at hc; subst hc; decide

end Props.C16
